/-
  C19, buffer model = functional model, part 4: the third canonicaliser pass (dot segments) and
  the whole of nni_url_canonify_uri.  `acc` of the functional `pass3` is the output written so
  far, reversed: the buffer holds `acc.reverse` at [o, dst).  The `dst--` scan `popLoop` is
  `popSeg`; `src += 3` / `src += 2` are the skip counter of `pass3`.
-/
import NngModel.Proofs.UrlBufEqCanon1
import NngModel.Proofs.UrlBufEqCanon2
set_option linter.unusedSimpArgs false
set_option linter.unusedVariables false
namespace Nng.UrlBufEq
open Nng Nng.Url Nng.UrlBuf Nng.UrlBufProofs Nng.UrlProofs

/-! ### the two strncmp tests -/

theorem dotDotAt_buf (m : Mem) (src : Nat) : (dotDotAt m src).1.buf = m.buf := by
  unfold dotDotAt
  split
  · rfl
  · simp only
    split
    · rfl
    · split <;> rfl

theorem dotAt_buf (m : Mem) (src : Nat) : (dotAt m src).1.buf = m.buf := by
  unfold dotAt
  split
  · rfl
  · simp only
    split <;> rfl

theorem segEndByte_headD (r : Bytes) (hz : (0 : UInt8) ∉ r) : segEndByte (r.headD 0) = isSegEnd r := by
  cases r with
  | nil => simp [segEndByte, isSegEnd]
  | cons x t =>
    have hx : x ≠ 0 := fun e => hz (by simp [e])
    simp [segEndByte, isSegEnd, hx]

theorem dotDotAt_eq {len : Nat} (m : Mem) (src : Nat) (rest : Bytes) (hs : CStr len m src (SLASH :: rest)) :
    (dotDotAt m src).2 = isDotDot rest := by
  have r0 : m.rd src = SLASH := hs.seg.1
  have hr := cstr_tail _ _ hs
  have r1 := cstr_head _ hr
  unfold dotDotAt
  rw [if_neg (show ¬ (m.chk src).rd src ≠ SLASH from by simp [r0])]
  simp only
  match rest, hs, hr, r1 with
  | [], hs, hr, r1 =>
    rw [if_pos (show ((m.chk src).chk (src + 1)).rd (src + 1) ≠ DOT from by
      simp only [rd_chk, r1, List.headD_nil]; decide)]
    rfl
  | a :: rest1, hs, hr, r1 =>
    simp only [List.headD_cons] at r1
    have hr2 := cstr_tail _ _ hr
    have r2 := cstr_head _ hr2
    rw [show src + 1 + 1 = src + 2 by omega] at r2 hr2
    by_cases ha : a = DOT
    · rw [if_neg (show ¬ ((m.chk src).chk (src + 1)).rd (src + 1) ≠ DOT from by simp [r1, ha])]
      match rest1, hs, hr, hr2, r2 with
      | [], hs, hr, hr2, r2 =>
        rw [if_pos (show (((m.chk src).chk (src + 1)).chk (src + 2)).rd (src + 2) ≠ DOT from by
          simp only [rd_chk, r2, List.headD_nil]; decide)]
        simp [isDotDot]
      | b :: r, hs, hr, hr2, r2 =>
        simp only [List.headD_cons] at r2
        have hr3 := cstr_tail _ _ hr2
        have r3 := cstr_head _ hr3
        rw [show src + 2 + 1 = src + 3 by omega] at r3
        by_cases hb : b = DOT
        · rw [if_neg (show ¬ (((m.chk src).chk (src + 1)).chk (src + 2)).rd (src + 2) ≠ DOT from by simp [r2, hb])]
          simp only [rd_chk, r3, isDotDot, ha, hb, decide_true, Bool.true_and]
          exact segEndByte_headD r hr3.nz
        · rw [if_pos (show (((m.chk src).chk (src + 1)).chk (src + 2)).rd (src + 2) ≠ DOT from by simp [r2, hb])]
          simp [isDotDot, hb]
    · rw [if_pos (show ((m.chk src).chk (src + 1)).rd (src + 1) ≠ DOT from by simp [r1, ha])]
      cases rest1 <;> simp [isDotDot, ha]

theorem dotAt_eq {len : Nat} (m : Mem) (src : Nat) (rest : Bytes) (hs : CStr len m src (SLASH :: rest)) :
    (dotAt m src).2 = isDot rest := by
  have r0 : m.rd src = SLASH := hs.seg.1
  have hr := cstr_tail _ _ hs
  have r1 := cstr_head _ hr
  unfold dotAt
  rw [if_neg (show ¬ (m.chk src).rd src ≠ SLASH from by simp [r0])]
  simp only
  match rest, hs, hr, r1 with
  | [], hs, hr, r1 =>
    rw [if_pos (show ((m.chk src).chk (src + 1)).rd (src + 1) ≠ DOT from by
      simp only [rd_chk, r1, List.headD_nil]; decide)]
    rfl
  | a :: r, hs, hr, r1 =>
    simp only [List.headD_cons] at r1
    have hr2 := cstr_tail _ _ hr
    have r2 := cstr_head _ hr2
    rw [show src + 1 + 1 = src + 2 by omega] at r2
    by_cases ha : a = DOT
    · rw [if_neg (show ¬ ((m.chk src).chk (src + 1)).rd (src + 1) ≠ DOT from by simp [r1, ha])]
      simp only [rd_chk, r2, isDot, ha, decide_true, Bool.true_and]
      exact segEndByte_headD r hr2.nz
    · rw [if_pos (show ((m.chk src).chk (src + 1)).rd (src + 1) ≠ DOT from by simp [r1, ha])]
      simp [isDot, ha]

/-! ### the `dst--` scan -/

theorem popLoop_buf (o : Nat) : ∀ (fuel : Nat) (m : Mem) (dst : Nat), dst < fuel →
    (popLoop fuel m o dst).1.buf = m.buf := by
  intro fuel
  induction fuel with
  | zero => intro m dst hf; omega
  | succ fuel ih =>
    intro m dst hf
    unfold popLoop
    split
    · rfl
    · split
      · rw [ih _ _ (by omega)]; rfl
      · rfl

theorem popSeg_suffix (acc : Bytes) : ∃ x, acc = x ++ popSeg acc := by
  induction acc with
  | nil => exact ⟨[], rfl⟩
  | cons c rest ih =>
    simp only [popSeg]
    split
    · exact ⟨[c], rfl⟩
    · obtain ⟨x, hx⟩ := ih
      exact ⟨c :: x, by rw [List.cons_append, ← hx]⟩

theorem popLoop_eq (o : Nat) : ∀ (acc : Bytes) (fuel : Nat) (m : Mem) (dst : Nat), acc ≠ [] →
    Seg m o acc.reverse → dst = o + acc.length → dst < fuel →
    (popLoop fuel m o dst).2 = o + (popSeg acc).length := by
  intro acc
  induction acc with
  | nil => intro _ _ _ h; exact absurd rfl h
  | cons c rest ih =>
    intro fuel m dst _ hs hd hf
    cases fuel with
    | zero => omega
    | succ fuel =>
      simp only [List.length_cons] at hd
      unfold popLoop
      by_cases he : rest = []
      · subst he
        rw [if_pos (by simp at hd; omega)]
        simp [popSeg]; simp at hd; omega
      · have hpos : 0 < rest.length := List.length_pos_iff.2 he
        rw [if_neg (by omega)]
        have hrd : (m.chk (dst - 1)).rd (dst - 1) = c := by
          simp only [List.reverse_cons] at hs
          have := seg_mid rest.reverse c [] o hs
          simp only [List.length_reverse] at this
          rw [rd_chk, show dst - 1 = o + rest.length by omega]; exact this
        by_cases hc : c = SLASH
        · rw [if_neg (by rw [hrd]; simp [hc])]
          simp only [popSeg, hc, decide_true, Bool.or_true, if_true]; omega
        · rw [if_pos (by rw [hrd]; exact hc)]
          have hs' : Seg (m.chk (dst - 1)) o rest.reverse := by
            simp only [List.reverse_cons] at hs
            exact seg_buf ((seg_append _ _ o).1 hs).1 rfl
          rw [ih fuel _ (dst - 1) he hs' (by omega) (by omega)]
          have : (rest.isEmpty || decide (c = SLASH)) = false := by
            simp [hc]; exact he
          simp only [popSeg, this, Bool.false_eq_true, if_false]

/-! ### one lemma per branch of the loop body -/

theorem canon3_end (fuel : Nat) (m : Mem) (o : Nat) (skip : Bool) (src dst : Nat) (h0 : m.rd src = 0) :
    canon3 (fuel + 1) m o skip src dst = (m.chk src).wr dst 0 := by
  rw [canon3.eq_2]
  simp only
  rw [if_pos (show (m.chk src).rd src = 0 from h0)]

theorem canon3_slash (fuel : Nat) (m : Mem) (o : Nat) (src dst : Nat) (h0 : m.rd src = SLASH) :
    canon3 (fuel + 1) m o false src dst =
      if (dotDotAt (m.chk src) src).2 = true then
        if dst > o then
          canon3 fuel (popLoop (dst + 1) (dotDotAt (m.chk src) src).1 o dst).1 o false (src + 3)
            (popLoop (dst + 1) (dotDotAt (m.chk src) src).1 o dst).2
        else canon3 fuel (dotDotAt (m.chk src) src).1 o false (src + 3) dst
      else if (dotAt (dotDotAt (m.chk src) src).1 src).2 = true then
        canon3 fuel (dotAt (dotDotAt (m.chk src) src).1 src).1 o false (src + 2) dst
      else canon3 fuel ((dotAt (dotDotAt (m.chk src) src).1 src).1.wr dst SLASH) o false (src + 1) (dst + 1) := by
  rw [canon3.eq_2]
  simp only
  rw [if_neg (show ¬ (m.chk src).rd src = 0 from by rw [rd_chk, h0]; decide),
    if_pos (show ((m.chk src).rd src = SLASH && !false) = true from by simp [h0])]

theorem canon3_copy {len : Nat} (fuel : Nat) (m : Mem) (o : Nat) (skip : Bool) (src dst : Nat) (h : Inv len m)
    (hs : src < len) (hd : dst ≤ src) (h0 : m.rd src ≠ 0) (hc : (m.rd src = SLASH && !skip) = false) :
    ∃ m', canon3 (fuel + 1) m o skip src dst =
        canon3 fuel m' o (skip || m.rd src = QM || m.rd src = HASH) (src + 1) (dst + 1) ∧ Inv len m' ∧
      ∀ j, m'.rd j = if dst = j then m.rd src else m.rd j := by
  have hc' := chk_inv h (i := src) (by omega)
  refine ⟨(m.chk src).wr dst (m.rd src), ?_, wr_lt hc' (by omega), fun j => rd_wr_inv hc' (by omega) j _⟩
  rw [canon3.eq_2]
  simp only
  rw [if_neg (show ¬ (m.chk src).rd src = 0 from h0),
    if_neg (show ¬ ((m.chk src).rd src = SLASH && !skip) = true from by rw [rd_chk, hc]; simp)]
  rfl

theorem pass3_copy (skip : Bool) (acc : Bytes) (c : UInt8) (rest : Bytes) (h : (c = SLASH && !skip) = false) :
    pass3 skip acc 0 (c :: rest) = pass3 (skip || c = QM || c = HASH) (c :: acc) 0 rest := by
  simp only [pass3]
  rw [if_neg (by rw [h]; simp)]

/-! ### the loop -/

theorem canon3_eq {len : Nat} (o : Nat) : ∀ (fuel : Nat) (l : Bytes) (m : Mem) (skip : Bool) (src dst : Nat)
    (acc : Bytes), Inv len m → Seg m o acc.reverse → (0 : UInt8) ∉ acc → dst = o + acc.length →
    CStr len m src l → dst ≤ src → len < src + fuel →
    CStr len (canon3 fuel m o skip src dst) o (pass3 skip acc 0 l) ∧
    ∀ i, i < o → (canon3 fuel m o skip src dst).rd i = m.rd i := by
  intro fuel
  induction fuel with
  | zero => intro l m skip src dst acc _ _ _ _ hs _ hf; have := hs.le; omega
  | succ fuel ih =>
    intro l m skip src dst acc h hacc hz hdst hs hd hf
    have hle := hs.le
    have hhead := cstr_head l hs
    have hc := chk_inv h (i := src) (by omega)
    match l, hs, hle, hhead with
    | [], hs, hle, hhead =>
      simp only [List.headD_nil] at hhead
      rw [canon3_end fuel m o skip src dst hhead, pass3_nil]
      have hw : ∀ j, ((m.chk src).wr dst 0).rd j = if dst = j then 0 else m.rd j :=
        fun j => rd_wr_inv hc (by omega) j _
      refine ⟨⟨seg_frame hacc (fun i _ hi => ?_), ?_, ?_, ?_⟩, ?_⟩
      · simp only [List.length_reverse] at hi
        rw [hw, if_neg (by omega)]
      · simp only [List.length_reverse]; rw [← hdst, hw, if_pos rfl]
      · simpa using hz
      · simp only [List.length_reverse]; omega
      · intro i hi; rw [hw, if_neg (by omega)]
    | c :: rest, hs, hle, hhead =>
      simp only [List.headD_cons] at hhead
      simp only [List.length_cons] at hle
      have hc0 : c ≠ 0 := fun e => hs.nz (by simp [e])
      have hrest := cstr_tail c rest hs
      by_cases hsl : (c = SLASH && !skip) = true
      · simp only [Bool.and_eq_true, decide_eq_true_eq, Bool.not_eq_true'] at hsl
        obtain ⟨hcs, hsk⟩ := hsl
        subst hcs; subst hsk
        rw [canon3_slash fuel m o src dst hhead]
        have hdd := dotDotAt_eq (m.chk src) src rest (cstr_buf hs rfl)
        have hddb := dotDotAt_buf (m.chk src) src
        obtain ⟨hddi, hdd3⟩ := dotDotAt_inv (m.chk src) src hc (by omega)
        have hdsb : (dotAt (dotDotAt (m.chk src) src).1 src).1.buf = m.buf := by
          rw [dotAt_buf, hddb]; rfl
        have hd_ := dotAt_eq (dotDotAt (m.chk src) src).1 src rest (cstr_buf hs hddb)
        obtain ⟨hdi, hd2⟩ := dotAt_inv _ src hddi (by omega)
        by_cases c1 : isDotDot rest = true
        · rw [if_pos (by rw [hdd]; exact c1)]
          obtain ⟨r, hr, hse⟩ := isDotDot_shape rest c1
          subst hr
          have h3 := hdd3 (by rw [hdd]; exact c1)
          have hr' : CStr len m (src + 3) r := cstr_suffix [SLASH, DOT, DOT] r hs
          rw [pass3_dotdot _ _ hse]
          by_cases c2 : dst > o
          · rw [if_pos c2]
            have hne : acc ≠ [] := by intro e; subst e; simp at hdst; omega
            have hpb := popLoop_buf o (dst + 1) (dotDotAt (m.chk src) src).1 dst (by omega)
            have hpe := popLoop_eq o acc (dst + 1) (dotDotAt (m.chk src) src).1 dst hne
              (seg_buf hacc hddb) hdst (by omega)
            obtain ⟨hpi, _⟩ := popLoop_inv o (dst + 1) _ dst hddi (by omega) (by omega)
            have hbuf : (popLoop (dst + 1) (dotDotAt (m.chk src) src).1 o dst).1.buf = m.buf := by
              rw [hpb, hddb]; rfl
            obtain ⟨x, hx⟩ := popSeg_suffix acc
            have hseg : Seg m o (popSeg acc).reverse := by
              have := hacc
              rw [hx, List.reverse_append] at this
              exact ((seg_append _ _ o).1 this).1
            have hlen : (popSeg acc).length ≤ acc.length := by
              have := congrArg List.length hx
              simp only [List.length_append] at this; omega
            obtain ⟨b1, b2⟩ := ih r _ false (src + 3) _ (popSeg acc) hpi (seg_buf hseg hbuf)
              (fun hm => hz (popSeg_mem acc 0 hm)) hpe (cstr_buf hr' hbuf) (by rw [hpe]; omega) (by omega)
            exact ⟨b1, fun i hi => by rw [b2 i hi, rd_buf hbuf]⟩
          · rw [if_neg c2]
            have hnil : acc = [] := by
              cases acc with
              | nil => rfl
              | cons a t => simp at hdst; omega
            subst hnil
            have hbuf : (dotDotAt (m.chk src) src).1.buf = m.buf := hddb
            obtain ⟨b1, b2⟩ := ih r _ false (src + 3) dst [] hddi (seg_buf hacc hbuf) hz hdst
              (cstr_buf hr' hbuf) (by omega) (by omega)
            exact ⟨b1, fun i hi => by rw [b2 i hi, rd_buf hbuf]⟩
        · have c1' : isDotDot rest = false := by simpa using c1
          rw [if_neg (by rw [hdd]; exact c1)]
          by_cases c3 : isDot rest = true
          · rw [if_pos (by rw [hd_]; exact c3)]
            obtain ⟨r, hr, hse⟩ := isDot_shape rest c3
            subst hr
            have h2 := hd2 (by rw [hd_]; exact c3)
            have hr' : CStr len m (src + 2) r := cstr_suffix [SLASH, DOT] r hs
            rw [pass3_dot _ _ hse]
            obtain ⟨b1, b2⟩ := ih r _ false (src + 2) dst acc hdi (seg_buf hacc hdsb) hz hdst
              (cstr_buf hr' hdsb) (by omega) (by omega)
            exact ⟨b1, fun i hi => by rw [b2 i hi, rd_buf hdsb]⟩
          · have c3' : isDot rest = false := by simpa using c3
            rw [if_neg (by rw [hd_]; exact c3), pass3_slash _ _ c1' c3']
            have hw : ∀ j, ((dotAt (dotDotAt (m.chk src) src).1 src).1.wr dst SLASH).rd j =
                if dst = j then SLASH else m.rd j := by
              intro j; rw [rd_wr_inv hdi (by omega), rd_buf hdsb]
            have hwi := wr_lt (v := SLASH) hdi (i := dst) (by omega)
            have hacc' : Seg ((dotAt (dotDotAt (m.chk src) src).1 src).1.wr dst SLASH) o (SLASH :: acc).reverse := by
              rw [List.reverse_cons]
              refine (seg_append _ _ o).2 ⟨seg_frame hacc (fun i _ hi => ?_), ?_, trivial⟩
              · simp only [List.length_reverse] at hi; rw [hw, if_neg (by omega)]
              · simp only [List.length_reverse]; rw [← hdst, hw, if_pos rfl]
            obtain ⟨b1, b2⟩ := ih rest _ false (src + 1) (dst + 1) (SLASH :: acc) hwi hacc'
              (by simp only [List.mem_cons, not_or]; exact ⟨by decide, hz⟩)
              (by simp only [List.length_cons]; omega)
              (cstr_frame hrest (fun i a _ => by rw [hw, if_neg (by omega)])) (by omega) (by omega)
            exact ⟨b1, fun i hi => by rw [b2 i hi, hw, if_neg (by omega)]⟩
      · have hsl' : (c = SLASH && !skip) = false := by simpa using hsl
        obtain ⟨m', e, hi', hrd⟩ := canon3_copy fuel m o skip src dst h (by omega) hd (by rw [hhead]; exact hc0)
          (by rw [hhead]; exact hsl')
        rw [hhead] at hrd e
        rw [e, pass3_copy skip acc c rest hsl']
        have hacc' : Seg m' o (c :: acc).reverse := by
          rw [List.reverse_cons]
          refine (seg_append _ _ o).2 ⟨seg_frame hacc (fun i _ hi => ?_), ?_, trivial⟩
          · simp only [List.length_reverse] at hi; rw [hrd, if_neg (by omega)]
          · simp only [List.length_reverse]; rw [← hdst, hrd, if_pos rfl]
        obtain ⟨b1, b2⟩ := ih rest m' (skip || c = QM || c = HASH) (src + 1) (dst + 1) (c :: acc) hi' hacc'
          (by simp only [List.mem_cons, not_or]; exact ⟨fun e0 => hc0 e0.symm, hz⟩)
          (by simp only [List.length_cons]; omega)
          (cstr_frame hrest (fun i a _ => by rw [hrd, if_neg (by omega)])) (by omega) (by omega)
        exact ⟨b1, fun i hi => by rw [b2 i hi, hrd, if_neg (by omega)]⟩

/-! ### nni_url_canonify_uri -/

/-- the in-place canonicaliser on the C string `l` at `o`: fails exactly when `canonify l` fails;
    otherwise `canonify l` is the C string at `o` afterwards, and nothing below `o` moved -/
theorem canonifyAt_eq {len : Nat} (fuel : Nat) (l : Bytes) (m : Mem) (o : Nat) (h : Inv len m)
    (hs : CStr len m o l) (hf : len < fuel) :
    (canonify l = none ∧ (canonifyAt fuel m o).2 = false) ∨
    (∃ r, canonify l = some r ∧ (canonifyAt fuel m o).2 = true ∧ Inv len (canonifyAt fuel m o).1 ∧
      CStr len (canonifyAt fuel m o).1 o r ∧ ∀ i, i < o → (canonifyAt fuel m o).1.rd i = m.rd i) := by
  have hle := hs.le
  have hinv := canonifyAt_inv fuel m o h (by omega) hf
  unfold canonifyAt canonify canonPasses
  simp only
  rcases canon1_eq fuel l m o o h hs (Nat.le_refl _) (by omega) with ⟨hn, hb⟩ | ⟨a, ha, hb, hi1, hc1, hf1⟩
  · left
    rw [hn, if_pos (by simp [hb])]
    exact ⟨rfl, rfl⟩
  · rw [ha, if_neg (by simp [hb])]
    simp only
    have hi2 := canon2_inv fuel _ false o o hi1 (Nat.le_refl _) (by omega) (by omega)
    obtain ⟨hc2, hf2⟩ := canon2_eq fuel a _ false o o hi1 hc1 (Nat.le_refl _) (by omega)
    have hi3 := canon3_inv o fuel _ false o o hi2 (Nat.le_refl _) (by omega) (by omega)
    obtain ⟨hc3, hf3⟩ := canon3_eq o fuel _ _ false o o [] hi2 trivial (by simp) (by simp) hc2
      (Nat.le_refl _) (by omega)
    obtain ⟨e, eb, ei⟩ := cstr_all _ fuel _ o hi3 hc3 hf
    rw [e]
    by_cases hv : utf8Validate (pass3 false [] 0 (pass2 false false a)) = true
    · right
      rw [if_pos hv]
      refine ⟨_, rfl, hv, ei, cstr_buf hc3 eb, ?_⟩
      intro i hi
      rw [rd_buf eb, hf3 i hi, hf2 i hi, hf1 i hi]
    · left
      rw [if_neg hv]
      exact ⟨rfl, by simpa using hv⟩

end Nng.UrlBufEq
