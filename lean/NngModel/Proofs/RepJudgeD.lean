/-
  Judge simulation for REP, part D: transport completions (rep0_pipe_send_cb, rep0_pipe_recv_cb).
-/
import NngModel.Proofs.RepJudgeB
namespace Nng.RepProofs
open Nng Nng.Proto Nng.Rep Nng.RepSpec

theorem pre_sendDone (j0 : RepJ) (p : Nat) (outs : List Out) :
    repPre j0 (.sendDone p 0) ([.rv 0] ++ outs) = ({ j0 with busy := j0.busy.filter (· != p) }, none) := by
  simp [repPre]

theorem livePipe_setPipe (s : State) (p : Nat) (pp : Pipe) (h : pp.closed = (s.pipe p).closed) (p' : Nat) :
    livePipe (setPipe s p pp) p' = livePipe s p' := by
  unfold livePipe
  rw [setPipe_pipe, upd_apply, setPipe_npipes]
  split
  · rename_i h'; subst h'; rw [h]
  · rfl

/-- `send_done p 0` on a live busy pipe: the next queued reply (if any) goes on the wire -/
theorem pipeSent_sim {s : State} {j : RepJ} {used : List Bytes} (hR : R s j) (h5 : Inv5 s used) (p : Nat)
    (hl : livePipe s p = true) (hb : (s.pipe p).busy = true) (h3' : Inv3 (pipeSent s p).1) :
    R (pipeSent s p).1 (repStep j (.sendDone p 0) ([.rv 0] ++ (pipeSent s p).2)) := by
  have hu := R0_unfresh hR.r0
  have hacc : (unfresh j).acc = [] := hR.acc
  have herr := hR.r0.err
  generalize hj0 : unfresh j = j0 at hu hacc
  generalize hres : pipeSent s p = res at h3' ⊢
  unfold pipeSent at hres
  dsimp only at hres
  split at hres
  · rename_i hq
    subst hres
    simp only at h3' ⊢
    rw [repStep_eq herr rfl, hj0, pre_sendDone]
    have hp : ∀ J : RepJ, procOuts ([Out.rv 0] ++ []) J = J := fun _ => rfl
    simp only [hp]
    refine post_R (R0_sim (sim_setW _ _ _) ?_) h3' ?_ (Or.inl rfl) rfl (by simp [isPollOut])
    · obtain ⟨a1, b, c1, d, e, f, g⟩ := hu
      have hlive := livePipe_setPipe s p { s.pipe p with busy := false } rfl
      refine ⟨a1, b, c1, ⟨?_, ?_, ?_, d.held⟩, OpsRel.congr (s := s) e (fun _ => rfl) ?_ rfl rfl rfl,
        CurRel.congr (s := s) f (fun _ => rfl) (fun _ => rfl) rfl rfl rfl, g⟩
      · intro p'; rw [hlive]; exact d.live p'
      · intro p'; rw [hlive]
        show p' ∈ j0.busy.filter (· != p) ↔ _
        rw [List.mem_filter, d.busy p', setPipe_pipe, upd_apply]
        by_cases hpp : p' = p
        · subst hpp; simp
        · simp [hpp]
      · intro p'; rw [hlive, setPipe_pipe, upd_apply]
        split
        · rename_i h; subst h; exact d.armed p'
        · exact d.armed p'
      · intro p'; rw [setPipe_pipe, upd_apply]
        split
        · rename_i h; subst h; rfl
        · rfl
    · show ∀ a ∈ j0.acc, _
      rw [hacc]; intro a ha; cases ha
  · rename_i e rest hq
    have e1 : res.1.pipe = upd s.pipe p { s.pipe p with busy := true, sendq := rest } := by rw [← hres]; rfl
    have e2 : res.1.ctx = upd s.ctx e.ctx { s.ctx e.ctx with saio := none, spipe := none } := by rw [← hres]; rfl
    have e3 : res.1.npipes = s.npipes := by rw [← hres]; rfl
    have e4 : res.1.slot = s.slot := by rw [← hres]; rfl
    have e5 : res.1.wire = s.wire ++ [wireOf p e] := by rw [← hres]; rfl
    have e6 : res.1.ttl = s.ttl := by rw [← hres]; rfl
    have e7 : res.1.recvpipes = s.recvpipes := by rw [← hres]; rfl
    have e8 : res.2 = [.psend p ⟨e.hdr, e.body⟩, .done e.aio 0 none false] := by rw [← hres]
    clear hres
    obtain ⟨s', outs⟩ := res
    simp only at e1 e2 e3 e4 e5 e6 e7 e8 h3' ⊢
    subst e8
    rw [repStep_eq herr rfl, hj0, pre_sendDone]
    simp only
    have hein : e ∈ (s.pipe p).sendq := by rw [hq]; simp
    have hesq := h5.sq p e hein
    -- no receive uses the aio
    have hwf : j0.waiting.find? (·.aio == e.aio) = none := by
      rw [List.find?_eq_none]; intro r hr
      obtain ⟨_, k, pk, hk, ha, _⟩ := hu.ops.w1 r hr
      have := h5.rs k e.ctx pk hk
      rw [hesq.2.1] at this
      simp only [beq_iff_eq, ha]
      intro h; exact this (by rw [h])
    obtain ⟨sd, hsf, hsdm, hsda⟩ := find_some_mem (l := j0.sends) (q := (·.aio == e.aio)) (by
      obtain ⟨x, hx, hxa⟩ := hu.ops.s2 p e hein
      exact ⟨x, hx, by simp [hxa]⟩)
    have hsda' : sd.aio = e.aio := by simpa using hsda
    obtain ⟨_, hop, p0, e0, u, he0, ha0, _, hb0, hsn, hup, huh⟩ := hu.ops.s1 sd hsdm
    obtain ⟨hpp, hee⟩ := entry_unique h5 hein he0 (by rw [← hsda', ha0])
    subst hpp; subst hee
    have hnd := h5.sqnd p
    rw [hq, List.map_cons, List.nodup_cons] at hnd
    have henr : e ∉ rest := fun h => hnd.1 (List.mem_map.2 ⟨e, h, rfl⟩)
    have hproc : procOuts ([Out.rv 0] ++ [.psend p ⟨e.hdr, e.body⟩, .done e.aio 0 none false])
        { j0 with busy := j0.busy.filter (· != p) } =
        { j0 with busy := j0.busy.filter (· != p) ++ [p], sends := j0.sends.filter (·.aio != e.aio), acc := [],
                  wired := j0.wired ++ [e.body] } := by
      rw [procOuts_nopipe (by simp [isPipeOut])]
      simp only [List.cons_append, List.nil_append, List.filter, isDone, Bool.not_true, Bool.not_false, List.foldl_cons,
        List.foldl_nil, doneStep, repOut_rv]
      rw [repDone_send_ok (j := { j0 with busy := j0.busy.filter (· != p) }) hwf hsf hop hsn]
      rw [repOut_psend (m := ⟨e.hdr, e.body⟩) (p := p)]
      · show e.body ∉ j0.wired
        rw [hu.wired]; intro h
        obtain ⟨w, hw, hwb⟩ := List.mem_map.1 h
        exact (h5.qu p e hein).2 w hw hwb
      · exact (hu.pipes.live p).2 hl
      · show p ∉ j0.busy.filter (· != p)
        simp [List.mem_filter]
      · show j0.acc ++ _ = _
        rw [hacc, hup, huh, hb0]; rfl
    rw [hproc]
    have hlive : ∀ p', livePipe s' p' = livePipe s p' := by
      intro p'; unfold livePipe; rw [e3, e1, upd_apply]; split
      · rename_i h; subst h; rfl
      · rfl
    have hraio : ∀ k, (s'.ctx k).raio = (s.ctx k).raio := by
      intro k; rw [e2, upd_apply]; split
      · rename_i h; subst h; rfl
      · rfl
    have hsub : ∀ p' e', e' ∈ (s'.pipe p').sendq → e' ∈ (s.pipe p').sendq := by
      intro p' e' h; rw [e1, upd_apply] at h
      split at h
      · rename_i hp; subst hp; rw [hq]; exact List.mem_cons_of_mem _ h
      · exact h
    refine post_R ?_ h3' (by intro a ha; cases ha) (Or.inl rfl) rfl (by simp [isPollOut])
    obtain ⟨a1, b, c1, d, eo, f, g⟩ := hu
    refine ⟨a1, by rw [e6]; exact b, c1, ⟨?_, ?_, ?_, by rw [e7]; exact d.held⟩, ⟨?_, ?_, ?_, ?_⟩, ?_, ?_⟩
    · intro p'; rw [hlive]; exact d.live p'
    · intro p'; rw [hlive]
      show p' ∈ j0.busy.filter (· != p) ++ [p] ↔ _
      rw [List.mem_append, List.mem_filter, d.busy p', e1, upd_apply, List.mem_singleton]
      by_cases hpp : p' = p
      · subst hpp; simp [hl]
      · simp [hpp]
    · intro p'; rw [hlive, e1, upd_apply]
      split
      · rename_i h; subst h; exact d.armed p'
      · exact d.armed p'
    · intro r hr
      obtain ⟨x, k, pk, hk, y, z⟩ := eo.w1 r hr
      exact ⟨x, k, pk, by rw [hraio]; exact hk, y, by rw [resolve_congr e4]; exact z⟩
    · intro k pk hk; rw [hraio] at hk; exact eo.w2 k pk hk
    · intro x hx
      have hx' : x ∈ j0.sends.filter (·.aio != e.aio) := hx
      rw [List.mem_filter] at hx'
      obtain ⟨o1, o2, p', e', u', he', r1, r2, r3⟩ := eo.s1 x hx'.1
      refine ⟨o1, o2, p', e', u', ?_, r1, by rw [resolve_congr e4]; exact r2, r3⟩
      rw [e1, upd_apply]
      split
      · rename_i hp; subst hp
        rw [hq] at he'
        rcases List.mem_cons.1 he' with h | h
        · subst h; have := hx'.2; rw [r1] at this; simp at this
        · exact h
      · exact he'
    · intro p' e' he'
      obtain ⟨x, hx, hxa⟩ := eo.s2 p' e' (hsub p' e' he')
      refine ⟨x, ?_, hxa⟩
      show x ∈ j0.sends.filter (·.aio != e.aio)
      rw [List.mem_filter]
      refine ⟨hx, ?_⟩
      simp only [bne_iff_ne, ne_eq, hxa]
      intro h
      obtain ⟨hpp, hee⟩ := entry_unique h5 (hsub p' e' he') hein h
      subst hpp; subst hee
      rw [e1, upd_same] at he'
      exact henr he'
    · refine CurRel.congr (s := s) f ?_ ?_ e4 rfl rfl
      · intro k; rw [e2, upd_apply]; split
        · rename_i h; subst h; rfl
        · rfl
      · intro k; rw [e2, upd_apply]; split
        · rename_i h; subst h; rfl
        · rfl
    · show j0.wired ++ [e.body] = _
      rw [e5, List.map_append, g]; rfl

theorem pre_recvDone_ok (j0 : RepJ) (p : Nat) (b : Bytes) (outs : List Out) (hdr body : Bytes) (ha : p ∈ j0.armed)
    (hc : classify j0.ttl b = .ok hdr body) :
    repPre j0 (.recvDone p (.ok b)) ([.rv 0] ++ outs) =
      ({ j0 with armed := j0.armed.filter (· != p), held := j0.held ++ [⟨p, hdr, body⟩] }, none) := by
  simp [repPre, ha, hc]

theorem pre_recvDone_drop (j0 : RepJ) (p : Nat) (b : Bytes) (outs : List Out) (ha : p ∈ j0.armed)
    (hc : classify j0.ttl b = .tooManyHops) (hnc : hasPclosed (Out.rv 0 :: outs) p = false) :
    repPre j0 (.recvDone p (.ok b)) ([.rv 0] ++ outs) = ({ j0 with armed := j0.armed.filter (· != p) }, none) := by
  simp [repPre, ha, hc, hnc]

/-- `recv_done p <bytes>` on a live armed pipe, the bytes not being malformed (the malformed case closes the pipe
    and is handled with the pipe-close events) -/
theorem pipeRecv_sim {s : State} {j : RepJ} {used : List Bytes} (hR : R s j) (h2 : Inv2 s) (h3 : Inv3 s) (h5 : Inv5 s used)
    (p : Nat) (b : Bytes) (hl : livePipe s p = true) (ha : (s.pipe p).armed = true)
    (hnm : parseBacktrace s.ttl b ≠ .malformed) (hrq : ∀ k ∈ s.recvq, (s.ctx k).raio.isSome = true)
    (h3' : Inv3 (pipeRecv s p b).1) :
    R (pipeRecv s p b).1 (repStep j (.recvDone p (.ok b)) ([.rv 0] ++ (pipeRecv s p b).2)) := by
  have hu := R0_unfresh hR.r0
  have hacc : (unfresh j).acc = [] := hR.acc
  have herr := hR.r0.err
  generalize hj0 : unfresh j = j0 at hu hacc
  have hpa : p ∈ j0.armed := (hu.pipes.armed p).2 ⟨hl, ha⟩
  have hcl : toShape (parseBacktrace s.ttl b) = classify j0.ttl b := by rw [hu.ttl]; exact parse_eq_classify _ _
  have _ := h2
  generalize hres : pipeRecv s p b = res at h3' ⊢
  unfold pipeRecv at hres
  dsimp only at hres
  rw [setPipe_ttl] at hres
  split at hres
  · -- too many hops: dropped, the receive is posted again
    rename_i hpb
    rw [hpb] at hcl
    have hpe : ({ (s.pipe p) with armed := true } : Pipe) = s.pipe p := by
      rcases hsp : s.pipe p with ⟨c, a, bz, q⟩
      rw [hsp] at ha; simp only at ha; subst ha; rfl
    have hsim : Sim s res.1 := by
      rw [← hres]
      refine ⟨rfl, rfl, ?_, rfl, rfl, rfl, rfl⟩
      funext p'
      show upd (upd s.pipe p _) p _ p' = s.pipe p'
      rw [upd_apply]; split
      · rename_i h; subst h
        simp only [setPipe_pipe, upd_same]; exact hpe
      · rw [upd_apply]; rename_i h; rw [if_neg h]
    have e8 : res.2 = [.parm p] := by rw [← hres]
    clear hres
    obtain ⟨s', outs⟩ := res
    simp only at hsim e8 h3' ⊢
    subst e8
    rw [repStep_eq herr rfl, hj0, pre_recvDone_drop j0 p b _ hpa hcl.symm (by simp [hasPclosed])]
    simp only
    have hproc : procOuts ([Out.rv 0] ++ [.parm p]) { j0 with armed := j0.armed.filter (· != p) } =
        { j0 with armed := j0.armed.filter (· != p) ++ [p] } := by
      rw [procOuts_nopipe (by simp [isPipeOut])]
      simp only [List.cons_append, List.nil_append, List.filter, isDone, Bool.not_false, List.foldl_cons,
        List.foldl_nil, repOut_rv]
      rw [repOut_parm (by simp [List.mem_filter])]
    rw [hproc]
    refine post_R (R0_sim hsim ?_) h3' ?_ (Or.inl rfl) rfl (by simp [isPollOut])
    · obtain ⟨a1, b1, c1, d, e, f, g⟩ := hu
      refine ⟨a1, b1, c1, ⟨d.live, d.busy, ?_, d.held⟩, ⟨e.w1, e.w2, e.s1, e.s2⟩, ⟨f.cur, f.slots⟩, g⟩
      intro p'
      show p' ∈ j0.armed.filter (· != p) ++ [p] ↔ _
      rw [← d.armed p', List.mem_append, List.mem_filter, List.mem_singleton]
      by_cases hpp : p' = p
      · subst hpp; simp [hpa]
      · simp [hpp]
    · show ∀ a ∈ j0.acc, _
      rw [hacc]; intro a ha; cases ha
  · rename_i hpb; exact absurd hpb hnm
  · rename_i hdr body hpb
    rw [hpb] at hcl
    have hpre := fun outs => pre_recvDone_ok j0 p b outs hdr body hpa hcl.symm
    have hlive0 := livePipe_setPipe s p { s.pipe p with armed := false } rfl
    split at hres
    · -- no receiver: the request is held
      have e1 : res.1.pipe = upd s.pipe p { s.pipe p with armed := false } := by rw [← hres]; rfl
      have e2 : res.1.ctx = s.ctx := by rw [← hres]; rfl
      have e3 : res.1.npipes = s.npipes := by rw [← hres]; rfl
      have e4 : res.1.slot = s.slot := by rw [← hres]; rfl
      have e5 : res.1.wire = s.wire := by rw [← hres]; rfl
      have e6 : res.1.ttl = s.ttl := by rw [← hres]; rfl
      have e7 : res.1.recvpipes = s.recvpipes ++ [⟨s.narrive, p, hdr, body⟩] := by rw [← hres]; rfl
      have e8 : res.2 = [] := by rw [← hres]
      clear hres
      obtain ⟨s', outs⟩ := res
      simp only at e1 e2 e3 e4 e5 e6 e7 e8 h3' ⊢
      subst e8
      rw [repStep_eq herr rfl, hj0, hpre]
      simp only
      have hp : ∀ J : RepJ, procOuts ([Out.rv 0] ++ []) J = J := fun _ => rfl
      rw [hp]
      have hlive : ∀ p', livePipe s' p' = livePipe s p' := by
        intro p'; rw [← hlive0]; unfold livePipe; rw [e3, e1]; rfl
      refine post_R ?_ h3' ?_ (Or.inl rfl) rfl (by simp [isPollOut])
      · obtain ⟨a1, b1, c1, d, e, f, g⟩ := hu
        refine ⟨a1, by rw [e6]; exact b1, c1, ⟨?_, ?_, ?_, ?_⟩,
          OpsRel.congr (s := s) e (fun _ => by rw [e2]) ?_ e4 rfl rfl,
          CurRel.congr (s := s) f (fun _ => by rw [e2]) (fun _ => by rw [e2]) e4 rfl rfl, by rw [e5]; exact g⟩
        · intro p'; rw [hlive]; exact d.live p'
        · intro p'; rw [hlive, e1, upd_apply]; split
          · rename_i h; subst h; exact d.busy p'
          · exact d.busy p'
        · intro p'; rw [hlive]
          show p' ∈ j0.armed.filter (· != p) ↔ _
          rw [List.mem_filter, d.armed p', e1, upd_apply]
          by_cases hpp : p' = p
          · subst hpp; simp
          · simp [hpp]
        · show j0.held ++ _ = _
          rw [e7, List.map_append, d.held]; rfl
        · intro p'; rw [e1, upd_apply]; split
          · rename_i h; subst h; rfl
          · rfl
      · show ∀ a ∈ j0.acc, _
        rw [hacc]; intro a ha; cases ha
    · rename_i k rest hrecvq
      have hrecvq' : s.recvq = k :: rest := hrecvq
      split at hres
      · rename_i hnone
        have hnone' : (s.ctx k).raio = none := hnone
        have := hrq k (by rw [hrecvq']; simp)
        rw [hnone'] at this; cases this
      · -- a receiver is waiting: delivered at once
        rename_i pk hsome
        have hraio : (s.ctx k).raio = some pk := hsome
        have hrp0 : s.recvpipes = [] := h3.Q (by rw [hrecvq']; simp)
        obtain ⟨s3, heq, e1, e2, e3, e4, e5, e6, e7⟩ : ∃ s3 : State,
            res = (deliver s3 k ⟨s.narrive, p, hdr, body⟩, [.parm p, .done pk.aio 0 (some ⟨[], body⟩) false]) ∧
            s3.pipe = upd s.pipe p { s.pipe p with armed := false } ∧
            s3.ctx = upd s.ctx k { s.ctx k with raio := none } ∧ s3.npipes = s.npipes ∧ s3.slot = s.slot ∧
            s3.wire = s.wire ∧ s3.ttl = s.ttl ∧ s3.recvpipes = s.recvpipes :=
          ⟨_, hres.symm, rfl, rfl, rfl, rfl, rfl, rfl, rfl⟩
        clear hres
        subst heq
        simp only at h3' ⊢
        rw [repStep_eq herr rfl, hj0, hpre]
        simp only
        have hheld0 : j0.held = [] := by rw [hu.pipes.held, hrp0]; rfl
        obtain ⟨r', hwf, hr'm, hr'a⟩ := find_some_mem (l := j0.waiting) (q := (·.aio == pk.aio)) (by
          obtain ⟨x, hx, hxa⟩ := hu.ops.w2 k pk hraio
          exact ⟨x, hx, by simp [hxa]⟩)
        have hr'a' : r'.aio = pk.aio := by simpa using hr'a
        obtain ⟨hsec, k', pk', hk', ha', hres'⟩ := hu.ops.w1 r' hr'm
        have hkk : k = k' := (h5.rinj k' k pk' pk hk' hraio (by rw [← ha', hr'a'])).symm
        subst hkk
        have hproc : procOuts ([Out.rv 0] ++ [.parm p, .done pk.aio 0 (some ⟨[], body⟩) false])
            { j0 with armed := j0.armed.filter (· != p), held := j0.held ++ [⟨p, hdr, body⟩] } =
            setCur { j0 with armed := j0.armed.filter (· != p) ++ [p], waiting := j0.waiting.filter (·.aio != pk.aio),
                             held := [], deliveredBodies := j0.deliveredBodies ++ [body] }
              r'.ctx (some ⟨p, hdr, false⟩) := by
          rw [procOuts_nopipe (by simp [isPipeOut])]
          simp only [List.cons_append, List.nil_append, List.filter, isDone, Bool.not_true, Bool.not_false,
            List.foldl_cons, List.foldl_nil, doneStep, repOut_rv]
          have := repDone_recv_ok (j := { j0 with armed := j0.armed.filter (· != p), held := j0.held ++ [⟨p, hdr, body⟩] })
            (a := pk.aio) (mb := false) (h := ⟨p, hdr, body⟩) (rest := []) hwf hsec
            (by show j0.held ++ _ = _; rw [hheld0]; rfl)
          dsimp only at this
          rw [this, repOut_parm (by simp [List.mem_filter])]
          rfl
        rw [hproc]
        have hlive : ∀ p', livePipe s3 p' = livePipe s p' := by
          intro p'; rw [← hlive0]; unfold livePipe; rw [e3, e1]; rfl
        have hR1 : R0 s3 { j0 with armed := j0.armed.filter (· != p), waiting := j0.waiting.filter (·.aio != pk.aio),
                                   held := [], deliveredBodies := j0.deliveredBodies ++ [body] } := by
          obtain ⟨a1, b1, c1, d, e, f, g⟩ := hu
          refine ⟨a1, by rw [e6]; exact b1, c1, ⟨?_, ?_, ?_, ?_⟩, ⟨?_, ?_, ?_, ?_⟩,
            CurRel.congr (s := s) f ?_ ?_ e4 rfl rfl, by rw [e5]; exact g⟩
          · intro p'; rw [hlive]; exact d.live p'
          · intro p'; rw [hlive, e1, upd_apply]; split
            · rename_i h; subst h; exact d.busy p'
            · exact d.busy p'
          · intro p'; rw [hlive]
            show p' ∈ j0.armed.filter (· != p) ↔ _
            rw [List.mem_filter, d.armed p', e1, upd_apply]
            by_cases hpp : p' = p
            · subst hpp; simp
            · simp [hpp]
          · show [] = _
            rw [e7, hrp0]; rfl
          · intro r hr
            have hr' : r ∈ j0.waiting.filter (·.aio != pk.aio) := hr
            rw [List.mem_filter] at hr'
            obtain ⟨x, k2, pk2, hk2, y, z⟩ := e.w1 r hr'.1
            have hne : k2 ≠ k := by
              intro h; subst h
              rw [hraio] at hk2; injection hk2 with hk2; subst hk2
              have := hr'.2; rw [y] at this; simp at this
            exact ⟨x, k2, pk2, by rw [e2, upd_other _ _ hne]; exact hk2, y, by rw [resolve_congr e4]; exact z⟩
          · intro k2 pk2 hk2
            rw [e2, upd_apply] at hk2
            by_cases hkk : k2 = k
            · rw [if_pos hkk] at hk2; cases hk2
            · rw [if_neg hkk] at hk2
              obtain ⟨r, hr, hra⟩ := e.w2 k2 pk2 hk2
              refine ⟨r, ?_, hra⟩
              show r ∈ j0.waiting.filter (·.aio != pk.aio)
              rw [List.mem_filter]
              refine ⟨hr, ?_⟩
              simp only [bne_iff_ne, ne_eq, hra]
              intro h
              exact hkk (h5.rinj k2 k pk2 pk hk2 hraio h)
          · intro x hx
            obtain ⟨o1, o2, p', e', u', he', r1, r2, r3⟩ := e.s1 x hx
            refine ⟨o1, o2, p', e', u', ?_, r1, by rw [resolve_congr e4]; exact r2, r3⟩
            rw [e1, upd_apply]; split
            · rename_i h; subst h; exact he'
            · exact he'
          · intro p' e' he'
            refine e.s2 p' e' ?_
            rw [e1, upd_apply] at he'; split at he'
            · rename_i h; subst h; exact he'
            · exact he'
          · intro k2; rw [e2, upd_apply]; split
            · rename_i h; subst h; rfl
            · rfl
          · intro k2; rw [e2, upd_apply]; split
            · rename_i h; subst h; rfl
            · rfl
        have hD := deliver_R0 hR1 (c := r'.ctx) (k := k)
          (fun c' hc' => resolve_inj h5 (by rw [resolve_congr e4] at hc'; exact hc') hres')
          ⟨s.narrive, p, hdr, body⟩ (by rw [hlive]; exact hl) (by rw [resolve_congr e4]; exact hres')
        refine post_R hD h3' ?_ (Or.inl rfl) rfl (by simp [isPollOut])
        simp only [setCur_acc, hacc]; intro x hx; cases hx

end Nng.RepProofs
