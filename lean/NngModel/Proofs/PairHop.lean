/- C08: lemmas about the PAIRv1 hop-count header (receive decision, send side) -/
import NngModel.Model.Pair1
import NngModel.Spec.Pair
import NngModel.Proofs.BytesLemmas
namespace Nng.Pair1
open Nng Nng.Proto Nng.Pair0

theorem rxHopLimit_eq : rxHopLimit = 0xff := by decide
theorem txHopLimit_eq : txHopLimit = 0xff := by decide

theorem hopDecision_close (len hdr ttl : Nat) :
    hopDecision len hdr ttl = .close ↔ (len < 4 ∨ hdr > 0xff) := by
  unfold hopDecision
  rw [rxHopLimit_eq]
  by_cases h1 : len < 4
  · simp [h1]
  · by_cases h2 : hdr > 0xff
    · simp [h2]
    · by_cases h3 : hdr > ttl <;> simp [h1, h2, h3]

theorem hopDecision_drop (len hdr ttl : Nat) :
    hopDecision len hdr ttl = .drop ↔ (4 ≤ len ∧ hdr ≤ 0xff ∧ ttl < hdr) := by
  unfold hopDecision
  rw [rxHopLimit_eq]
  by_cases h1 : len < 4
  · simp [h1]; omega
  · by_cases h2 : hdr > 0xff
    · simp [h2]; omega
    · by_cases h3 : hdr > ttl <;> simp [h1, h2, h3] <;> omega

theorem hopDecision_deliver (len hdr ttl h : Nat) :
    hopDecision len hdr ttl = .deliver h ↔ (4 ≤ len ∧ hdr ≤ 0xff ∧ hdr ≤ ttl ∧ h = hdr) := by
  unfold hopDecision
  rw [rxHopLimit_eq]
  by_cases h1 : len < 4
  · simp [h1]; omega
  · by_cases h2 : hdr > 0xff
    · simp [h2]; omega
    · by_cases h3 : hdr > ttl <;> simp [h1, h2, h3] <;> omega

/-- four bytes decode / encode round trip -/
theorem beEncode_beDecode4 (l : Bytes) (h : l.length = 4) : beEncode 4 (beDecode l) = l := by
  match l, h with
  | [a, b, c, d], _ =>
    have ha := a.toNat_lt; have hb := b.toNat_lt; have hc := c.toNat_lt; have hd := d.toNat_lt
    simp only [beDecode, List.foldl, beEncode]
    have e1 : (((0 * 256 + a.toNat) * 256 + b.toNat) * 256 + c.toNat) * 256 + d.toNat
        = a.toNat * 16777216 + b.toNat * 65536 + c.toNat * 256 + d.toNat := by omega
    rw [e1]
    have f1 : (a.toNat * 16777216 + b.toNat * 65536 + c.toNat * 256 + d.toNat) / 256 ^ 3 % 256 = a.toNat := by omega
    have f2 : (a.toNat * 16777216 + b.toNat * 65536 + c.toNat * 256 + d.toNat) / 256 ^ 2 % 256 = b.toNat := by omega
    have f3 : (a.toNat * 16777216 + b.toNat * 65536 + c.toNat * 256 + d.toNat) / 256 ^ 1 % 256 = c.toNat := by omega
    have f4 : (a.toNat * 16777216 + b.toNat * 65536 + c.toNat * 256 + d.toNat) / 256 ^ 0 % 256 = d.toNat := by omega
    rw [f1, f2, f3, f4]
    simp

def toSpec : RxDecision → Nng.PairSpec.HopOutcome
  | .close => .close
  | .drop => .drop
  | .deliver m => .deliver m

/-- the model's receive decision is the property's hop rule, for every byte string and limit -/
theorem rxDecide_eq_hopRule (ttl : Nat) (b : Bytes) :
    toSpec (rxDecide ttl b) = Nng.PairSpec.hopRule ttl b := by
  unfold rxDecide Nng.PairSpec.hopRule hopDecision
  rw [rxHopLimit_eq]
  by_cases h1 : b.length < 4
  · simp [h1, toSpec]
  · have h4 : (b.take 4).length = 4 := by simp; omega
    by_cases h2 : beDecode (b.take 4) > 0xff
    · simp [h1, h2, toSpec]
    · by_cases h3 : beDecode (b.take 4) > ttl
      · simp [h1, h2, h3, toSpec]
      · simp [h1, h2, h3, toSpec, beEncode_beDecode4 _ h4]

/-- cooked send: whatever header the caller supplied, the hop count handed to the buffer is 0 -/
theorem txPrep_cooked (m : WMsg) : txPrep false m = .ok ⟨beEncode 4 0, m.body⟩ := by
  simp [txPrep]

/-- ... and the message leaves with hop count exactly 1 -/
theorem txWire_cooked (m : WMsg) : txWire ⟨beEncode 4 0, m.body⟩ = ⟨beEncode 4 1, m.body⟩ := by
  simp [txWire, beEncode, beDecode]

/-- raw send: a header that is not exactly four bytes, or whose value is ≥ 0xff, is refused with NNG_EPROTO -/
theorem txPrep_raw_bad (m : WMsg) (h : m.hdr.length ≠ 4 ∨ beDecode m.hdr ≥ 0xff) :
    txPrep true m = .error Err.eproto := by
  unfold txPrep rawHeaderOk
  rw [txHopLimit_eq]
  rcases h with h | h
  · simp [h]
  · have : ¬ beDecode m.hdr < 0xff := by omega
    simp [this]

theorem txPrep_raw_ok (m : WMsg) (h1 : m.hdr.length = 4) (h2 : beDecode m.hdr < 0xff) :
    txPrep true m = .ok m := by
  unfold txPrep rawHeaderOk
  rw [txHopLimit_eq]
  simp [h1, h2]

/-- raw send (device forwarding): the hop count on the wire is exactly one more, no wrap -/
theorem txWire_raw (m : WMsg) (h1 : m.hdr.length = 4) (h2 : beDecode m.hdr < 0xff) :
    (txWire m).hdr.length = 4 ∧ beDecode (txWire m).hdr = beDecode m.hdr + 1 ∧ (txWire m).body = m.body := by
  have ht : m.hdr.take 4 = m.hdr := by rw [List.take_of_length_le]; omega
  have hd : m.hdr.drop 4 = [] := by rw [List.drop_eq_nil_iff]; omega
  unfold txWire
  rw [ht, hd]
  refine ⟨by simp [beEncode], ?_, rfl⟩
  simp only [List.append_nil]
  rw [Nng.Msg.beDecode_beEncode]
  have : (256 : Nat) ^ 4 = 4294967296 := by decide
  omega

/-- whatever reaches the wire from a PAIRv1 socket carries a hop count in 1..0xff -/
theorem txWire_after_prep (raw : Bool) (m m' : WMsg) (h : txPrep raw m = .ok m') :
    1 ≤ beDecode (txWire m').hdr ∧ beDecode (txWire m').hdr ≤ 0xff := by
  cases raw
  · rw [txPrep_cooked] at h
    cases h
    rw [txWire_cooked]
    simp [beEncode, beDecode]
  · unfold txPrep rawHeaderOk at h
    rw [txHopLimit_eq] at h
    by_cases hk : (m.hdr.length == 4 && decide (beDecode m.hdr < 0xff)) = true
    · simp only [hk, if_true] at h
      cases h
      simp at hk
      have := txWire_raw m hk.1 hk.2
      omega
    · simp [hk] at h

end Nng.Pair1
