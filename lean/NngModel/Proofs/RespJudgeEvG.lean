/-
  RESPONDENT judge simulation, part G: the transport completes a send (`send_done p 0`): resp0_pipe_send_cb.
-/
import NngModel.Proofs.RespJudgeEvF
namespace Nng.RespJudge
open Nng Nng.Proto Nng.Respond Nng.SurveySpec

theorem respPre_sendDone (j : RespJ) (p rv : Nat) (outs : List Out) (h0 : outs.contains (.rv 0) = true) :
    respPre j (.sendDone p rv) outs = { j with inflight := j.inflight.filter (· != p) } := by
  unfold respPre
  simp only [h0]
  rfl

/-- the send in flight on `pp` has completed and nothing waits for the pipe -/
theorem rel_idle {s : State} {j : RespJ} {used : List Bytes} (hc : RelCore s j used) {pp : Pipe}
    (hg : getPipe s pp.id = some pp) :
    RelCore (setPipe s { pp with busy := false }) { j with inflight := j.inflight.filter (· != pp.id) } used := by
  refine ⟨hc.err, hc.closed, hc.ttl, hc.ttl0, hc.ctxs, ?_, hc.pr, hc.ps, hc.aios, ?_, ?_, hc.bodies, hc.used⟩
  · show j.arrivals.map some = s.recvpipes.map (arrOf (setPipe s { pp with busy := false }))
    rw [hc.arr]
    apply List.map_congr_left
    intro q _
    exact (arrOf_setPipe_held (pp' := { pp with busy := false }) hg rfl rfl q).symm
  · intro q
    show q ∈ j.gone ↔ _
    rw [hc.gone q, closed_setPipe (pp' := { pp with busy := false }) hg rfl rfl]
  · intro q
    show q ∈ j.inflight.filter (· != pp.id) ↔ _
    rw [getPipe_setPipe (pp' := { pp with busy := false }) hg rfl, mem_filter_ne]
    by_cases e : q = pp.id
    · subst e; simp
    · rw [if_neg e, hc.infl q]; simp [e]

theorem pipeSent_ok {s : State} {j : RespJ} {used : List Bytes} (hR : Rel s j used) (hI : MInv s)
    (p : Nat) (pp : Pipe) (hgp : getPipe s p = some pp) (hbusy : pp.busy = true) :
    Rel (pipeSent s pp).1 (respStep j (.sendDone p 0) (pipeSent s pp).2) used := by
  have hc := hR.core
  have hid := getPipe_id hgp
  have hg' : getPipe s pp.id = some pp := by rw [hid]; exact hgp
  unfold pipeSent
  split
  · -- nothing waits
    simp only
    have hn' : NInv (raiseWritableIf (setPipe s { pp with busy := false }) (sockPipeId (setPipe s { pp with busy := false }) == some pp.id)) :=
      (ninv_setPipe_same (pp' := { pp with busy := false }) hI.n hg' rfl rfl).of_eq (by simp) (by simp) (by simp) (by simp)
    have hj2 : ctxCloseStep (.sendDone p 0) [.rv 0] (respMid [.rv 0] (respPre j (.sendDone p 0) [.rv 0])) =
        { j with inflight := j.inflight.filter (· != pp.id) } := by
      rw [respPre_sendDone _ _ _ _ rfl, hid]; rfl
    refine step_finish _ _ hc.err rfl hn' hj2 ?_ rfl (pollClause_skip _ _ _ rfl) (by intro r w h; cases h)
    rw [unfreshJ_id (j := { j with inflight := j.inflight.filter (· != pp.id) }) hc.fresh]
    exact (rel_idle hc hg').of_eq (by simp) (by simp) (by simp) (by simp) (by simp) (by simp)
  · rename_i k rest hsq
    split
    · exact refused_ok hR _ _
    · rename_i c hgc
      split
      · exact refused_ok hR _ _
      · rename_i ps hps
        have hcm := getCtx_mem hgc
        have hck := getCtx_key hgc
        have hem : expOf c ps ∈ j.pendSend := (hc.ps _).2 ⟨c, hcm, ps, hps, rfl⟩
        -- the parked response was computed for this pipe
        have hpipe : (expOf c ps).pipe = pp.id := by
          have hpp : pp ∈ s.pipes := getPipe_mem hgp
          obtain ⟨_, hl⟩ := hI.q.link pp hpp k (by rw [hsq]; exact List.mem_cons_self)
          obtain ⟨ps', hs', hexp⟩ := hl c hcm hck
          rw [hps] at hs'
          injection hs' with hs'
          subst hs'
          show expPipe ps = pp.id
          unfold expPipe
          rw [hexp]
        have hinf : p ∈ j.inflight := by
          rw [hc.infl p, hgp]; simp [hbusy]
        have hninf : pp.id ∉ ({ j with inflight := j.inflight.filter (· != p) } : RespJ).inflight := by
          show pp.id ∉ j.inflight.filter (· != p)
          rw [hid, mem_filter_ne]; exact fun h => h.2 rfl
        have hf : ({ j with inflight := j.inflight.filter (· != p) } : RespJ).pendSend.find? (·.body == ps.m.body) = some (expOf c ps) := by
          show j.pendSend.find? _ = _
          cases hfd : j.pendSend.find? (·.body == ps.m.body) with
          | none =>
            have := List.find?_eq_none.1 hfd _ hem
            simp [expOf] at this
          | some e' =>
            have h1 := List.mem_of_find?_eq_some hfd
            have h2 : e'.body = ps.m.body := by simpa using List.find?_some hfd
            rw [nodup_map_inj (·.body) j.pendSend hc.bodies e' h1 _ hem h2]
        have hj2 : ctxCloseStep (.sendDone p 0) [.rv 0, .psend pp.id ps.m, .done ps.aio 0 none false]
            (respMid [.rv 0, .psend pp.id ps.m, .done ps.aio 0 none false]
              (respPre j (.sendDone p 0) [.rv 0, .psend pp.id ps.m, .done ps.aio 0 none false])) =
            { j with inflight := j.inflight.filter (· != p) ++ [pp.id], pendSend := j.pendSend.filter (·.aio != ps.aio) } := by
          rw [respPre_sendDone _ _ _ _ rfl]
          show respOut _ (respOut _ { j with inflight := j.inflight.filter (· != p) } (.psend pp.id ps.m)) (.done ps.aio 0 none false) = _
          rw [respOut_psend (j := { j with inflight := j.inflight.filter (· != p) }) (e := expOf c ps) hninf hf hpipe rfl
            (by simp [doneOf, expOf])]
          apply respOut_done_none
          · show j.pendRecv.find? _ = none
            rw [List.find?_eq_none]
            intro x hx
            have := recv_send_aio_ne hc.aios hx hem
            simpa [expOf] using this
          · show (j.pendSend.filter (·.aio != (expOf c ps).aio)).find? _ = none
            rw [List.find?_eq_none]
            intro x hx
            have := (List.mem_filter.1 hx).2
            simpa [expOf] using this
        simp only
        have hcm1 : c ∈ (setPipe s { pp with sendq := rest, busy := true }).ctxs := hcm
        have hn1 := ninv_setPipe_same (pp' := { pp with sendq := rest, busy := true }) hI.n hg' rfl rfl
        have hn' : NInv ({ (setCtx (setPipe s { pp with sendq := rest, busy := true }) { c with saio := none }) with
            wire := (setCtx (setPipe s { pp with sendq := rest, busy := true }) { c with saio := none }).wire ++
              [⟨pp.id, ps.m, k, ps.exp, false⟩] } : State) :=
          (ninv_setCtx_same (c' := { c with saio := none }) hn1 hcm1 rfl (Or.inl rfl) (Or.inl rfl)).of_eq rfl rfl rfl rfl
        refine step_finish _ _ hc.err rfl hn' hj2 ?_ rfl (pollClause_skip _ _ _ rfl) (by intro r w h; cases h)
        have h1 := rel_setPipe_same hc { pp with sendq := rest, busy := true } hg' rfl rfl hbusy.symm rfl
        have h2 := rel_unpark_send h1 hI.n.keys { c with saio := none } ps hcm1 rfl hps rfl rfl rfl
        rw [unfreshJ_id]
        · refine RelCore.of_eq (s := setCtx (setPipe s { pp with sendq := rest, busy := true }) { c with saio := none }) ?_ rfl rfl rfl rfl rfl rfl
          refine ⟨h2.err, h2.closed, h2.ttl, h2.ttl0, h2.ctxs, h2.arr, h2.pr, h2.ps, h2.aios, h2.gone, ?_, h2.bodies, h2.used⟩
          intro q
          show q ∈ j.inflight.filter (· != p) ++ [pp.id] ↔ _
          rw [← h2.infl q]
          show _ ↔ q ∈ j.inflight
          rw [List.mem_append, mem_filter_ne, hid]
          simp only [List.mem_singleton]
          constructor
          · rintro (⟨h, _⟩ | rfl)
            · exact h
            · exact hinf
          · intro h
            by_cases e : q = p
            · exact Or.inr e
            · exact Or.inl ⟨h, e⟩
        · intro e he
          exact hc.fresh e (List.mem_filter.1 he).1

end Nng.RespJudge
