/- invariants of the aio model (Model/Aio.lean) for the repaired configuration, over all
   interleavings that do not use the sleep provider (see Props/C02.lean for why) -/
import NngModel.Model.Aio
namespace Nng.Aio
open Nng.AioSpec

def b2n (b : Bool) : Nat := if b then 1 else 0

/-- labels of the generic provider: no `nng_sleep_aio` submission -/
def NoSleepL : Label → Prop
  | .subCall (.slp _) _ => False
  | _ => True

/-- layer 1: counters, tokens, task accounting, expire hold -/
structure Inv1 (s : State) : Prop where
  noSlp : ∀ ms, s.subKind ≠ .slp ms
  sleepF : s.sleep = false
  subPcLe : s.subPc ≤ 2
  cnt : s.starts = s.completions + b2n s.opTok
  rep : s.completions = s.reported + s.skips + s.queued + s.popped + b2n s.expDispatch
  one : s.starts ≤ s.reported + s.skips + 1
  busyEq : s.busy = b2n s.prep + s.queued + s.popped + s.inCb
  tok : s.opTok = (s.subPc != 0 || s.parked || s.pendFin.isSome)
  ex1 : s.subPc ≠ 0 → s.parked = false ∧ s.pendFin = none ∧ s.expDispatch = false ∧ s.expiring = false ∧ s.onExp = false
  ex2 : s.parked = true → s.pendFin = none
  prepEq : s.prep = (s.subPc == 2 || s.parked || s.pendFin.isSome || s.expDispatch)
  noSkip : (s.subPc = 2 ∨ s.parked = true ∨ s.pendFin.isSome = true) → s.skip = false
  hold : s.expiring = true → (s.opTok = true ∨ s.expDispatch = true)
  expPcIff : (s.expPc = 0) ↔ s.expiring = false
  expPcLe : s.expPc ≤ 3
  onExpTok : s.onExp = true → (s.parked = true ∨ s.pendFin.isSome = true) ∧ s.expiring = false
  dispOnlyExp : s.expDispatch = true → s.expiring = true
  fromCb : s.subPc ≠ 0 → s.subFromCb = true → s.inCb > 0

theorem inv1_init : Inv1 ({} : State) := by
  constructor <;> simp [b2n]

theorem idle_facts {s : State} (h : Inv1 s) (hi : idle s = true) :
    s.opTok = false ∧ s.subPc = 0 ∧ s.parked = false ∧ s.pendFin = none ∧ s.expDispatch = false ∧
    s.expiring = false ∧ s.onExp = false ∧ s.queued = 0 ∧ s.popped = 0 ∧ s.completions = s.starts := by
  rcases h with ⟨h1,h2,h3,h4,h5,h6,h7,h8,h9,h10,h11,h12,h13,h14,h15,h16,h17,h18⟩
  simp only [idle, Bool.and_eq_true, beq_iff_eq] at hi
  obtain ⟨hi1, hi2⟩ := hi
  have key : s.expDispatch = false ∧ s.opTok = false ∧ s.queued = 0 ∧ s.popped = 0 ∧ s.completions = s.starts := by
    cases hd : s.expDispatch <;> cases ht : s.opTok <;>
      simp only [b2n, hd, ht, ↓reduceIte, Bool.false_eq_true] at h4 h5 h6 <;>
      refine ⟨?_, ?_, ?_, ?_, ?_⟩ <;> first | rfl | omega
  obtain ⟨hd, ht, hq1, hq2, hq3⟩ := key
  have hp : s.parked = false ∧ s.pendFin = none := by
    rw [ht] at h8
    cases hp : s.parked <;> cases hf : s.pendFin <;> simp [hp, hf, hi1] at h8 ⊢
  have he : s.expiring = false := by
    cases he : s.expiring
    · rfl
    · rcases h13 he with h | h
      · rw [ht] at h; cases h
      · rw [hd] at h; cases h
  have ho : s.onExp = false := by
    cases ho : s.onExp
    · rfl
    · rcases (h16 ho).1 with h | h
      · rw [hp.1] at h; cases h
      · rw [hp.2] at h; cases h
  exact ⟨ht, hi1, hp.1, hp.2, hd, he, ho, hq1, hq2, hq3⟩

@[simp] theorem prov_gen_beq : (Prov.gen == Prov.gen) = true := rfl
@[simp] theorem prov_slp_beq : (Prov.slp == Prov.gen) = false := rfl

macro "inv1_close" : tactic => `(tactic| (
  rcases ‹Inv1 _› with ⟨h1,h2,h3,h4,h5,h6,h7,h8,h9,h10,h11,h12,h13,h14,h15,h16,h17,h18⟩
  constructor <;> simp_all [b2n, dispatch, completed, finishCore, cancelCore, release, takeFn, provLocked, Cfg.fixed] <;> (try omega) <;> (try (intros; omega)) <;> (try grind) <;> (try rfl)))

macro "inv1_label" hs:ident : tactic => `(tactic| (
  simp only [step] at $hs:ident
  repeat' (split at $hs:ident)
  all_goals (try (cases $hs:ident))
  all_goals inv1_close))

set_option maxHeartbeats 4000000 in
/-- every step of the repaired model preserves the layer-1 invariant -/
theorem inv1_step {s s' : State} {l : Label} (h : Inv1 s) (hl : NoSleepL l)
    (hs : step Cfg.fixed s l = some s') : Inv1 s' := by
  cases l with
  | tick d => inv1_label hs
  | setTimeout t =>
    simp only [step] at hs
    split at hs
    · rename_i hg
      have hi := idle_facts h (by simp only [Bool.and_eq_true] at hg; exact hg.1)
      cases hs
      obtain ⟨a1,a2,a3,a4,a5,a6,a7,a8,a9,-⟩ := hi
      clear hg
      inv1_close
    · cases hs
  | setExpire e =>
    simp only [step] at hs
    split at hs
    · rename_i hg
      have hi := idle_facts h (by simp only [Bool.and_eq_true] at hg; exact hg.1)
      cases hs
      obtain ⟨a1,a2,a3,a4,a5,a6,a7,a8,a9,-⟩ := hi
      clear hg
      inv1_close
    · cases hs
  | skipArm =>
    simp only [step] at hs
    split at hs
    · rename_i hg
      have hi := idle_facts h (by simp only [Bool.and_eq_true] at hg; exact hg.1)
      cases hs
      obtain ⟨a1,a2,a3,a4,a5,a6,a7,a8,a9,-⟩ := hi
      clear hg
      inv1_close
    · cases hs
  | subCall k f =>
    simp only [step] at hs
    split at hs
    · rename_i hg
      have hi := idle_facts h (by simp only [Bool.and_eq_true] at hg; exact hg.1.1.1.1)
      have hcb : f = true → s.inCb > 0 := by
        intro hf; simp only [Bool.and_eq_true] at hg; have := hg.1.2; simp_all
      cases hs
      obtain ⟨a1,a2,a3,a4,a5,a6,a7,a8,a9,-⟩ := hi
      clear hg
      have hk : ∀ ms, k ≠ .slp ms := by intro ms hk; subst hk; exact hl
      inv1_close
    · cases hs
  | prepare => inv1_label hs
  | begin => inv1_label hs
  | direct => inv1_label hs
  | subRet g v => inv1_label hs
  | complete rv => inv1_label hs
  | finish => inv1_label hs
  | abortCall rv => inv1_label hs
  | abortSec rv =>
    simp only [step] at hs
    split at hs
    · split at hs
      · cases hs
        rcases h with ⟨h1,h2,h3,h4,h5,h6,h7,h8,h9,h10,h11,h12,h13,h14,h15,h16,h17,h18⟩
        constructor <;> simp_all [b2n]
      · simp only [Cfg.fixed] at hs
        cases hs
        rcases h with ⟨h1,h2,h3,h4,h5,h6,h7,h8,h9,h10,h11,h12,h13,h14,h15,h16,h17,h18⟩
        constructor <;> simp_all [b2n]
    · cases hs
  | closeCall => inv1_label hs
  | closeSec => inv1_label hs
  | callCancel p rv => inv1_label hs
  | stopCall f => inv1_label hs
  | stopMark => inv1_label hs
  | stopTake => inv1_label hs
  | stopCancel =>
    simp only [step] at hs
    split at hs
    · cases hs
    · split at hs
      · split at hs
        · cases hs
        · have hs := Option.some.inj hs
          subst hs
          rename_i p _ _
          cases p <;> inv1_close
      · have hs := Option.some.inj hs
        subst hs
        inv1_close
  | stopWait => inv1_label hs
  | stopRet => inv1_label hs
  | expScan => inv1_label hs
  | expTake =>
    simp only [step] at hs
    split at hs
    · cases hs
    · have hsl := h.sleepF
      simp only [hsl, Bool.false_eq_true, ↓reduceIte] at hs
      split at hs
      · have hs := Option.some.inj hs
        subst hs
        inv1_close
      · have hs := Option.some.inj hs
        subst hs
        inv1_close
  | expCall =>
    simp only [step] at hs
    split at hs
    · cases hs
    · have hs := Option.some.inj hs
      subst hs
      cases hf : s.expFn <;> inv1_close
  | expRelease => inv1_label hs
  | pop => inv1_label hs
  | cbRead => inv1_label hs
  | cbDone => inv1_label hs
  | peek => inv1_label hs

end Nng.Aio
