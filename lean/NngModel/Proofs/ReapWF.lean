/- Model/Reap.lean for well-formed programs (every list index names an existing reap list): nothing that the program
   names is ever dropped - the ids submitted so far plus the ids still to be submitted are exactly the named ones -/
import NngModel.Proofs.ReapAcct
set_option linter.unusedSimpArgs false
namespace Nng.Reap

def Node.wf (nl : Nat) (n : Node) : Prop := ∀ l c, n.child = some (l, c) → l < nl
def Op.wf (nl : Nat) : Op → Prop
  | .reap l n => l < nl ∧ n.wf nl
  | _ => True
def Worker.wf (nl : Nat) : Worker → Prop
  | .run b _ => ∀ n ∈ b, n.wf nl
  | .nest _ l _ rest _ => l < nl ∧ ∀ n ∈ rest, n.wf nl
  | _ => True

structure WF (nl : Nat) (s : State) : Prop where
  len : s.lists.length = nl
  cl : ∀ c ∈ s.clients, ∀ op ∈ c.prog, op.wf nl
  li : ∀ rl ∈ s.lists, ∀ n ∈ rl.nodes, n.wf nl
  wk : s.worker.wf nl

/-- submitted + still to be submitted, per id -/
def fc (s : State) (x : Nat) : Nat :=
  (parts s x).subm + (parts s x).cf + (parts s x).lf + (parts s x).wf

theorem wf_init (nl : Nat) (progs : List (List Op)) (h : ∀ p ∈ progs, ∀ op ∈ p, op.wf nl) : WF nl (init nl progs) := by
  refine ⟨by simp [init], ?_, ?_, trivial⟩
  · intro c hc op hop
    simp only [init, List.mem_map] at hc
    obtain ⟨p, hp, rfl⟩ := hc
    exact h p hp op hop
  · intro rl hrl n hn
    simp only [init, List.mem_replicate] at hrl
    obtain ⟨_, rfl⟩ := hrl
    simp at hn

theorem wakeWorker_wf {nl : Nat} {w : Worker} (h : w.wf nl) : (wakeWorker w).wf nl := by
  cases w <;> simp_all [wakeWorker, Worker.wf]

theorem afterNode_wf {nl : Nat} {rest : List Node} (pos : List Nat) (h : ∀ n ∈ rest, n.wf nl) :
    (afterNode rest pos).wf nl := by
  unfold afterNode; split
  · trivial
  · exact h

theorem mem_set_nodes {lists : List RList} {l : Nat} {r' rl : RList} (h : rl ∈ lists.set l r') :
    rl ∈ lists ∨ rl = r' := List.mem_or_eq_of_mem_set h

theorem reapBody_wf {nl : Nat} {s : State} (h : WF nl s) (l : Nat) (n : Node) (hn : n.wf nl) :
    WF nl (reapBody s l n) := by
  unfold reapBody
  cases hl : s.lists[l]? with
  | none => exact h
  | some rl =>
    refine ⟨by simp [h.len], h.cl, ?_, wakeWorker_wf h.wk⟩
    intro r hr m hm
    rcases mem_set_nodes hr with h1 | h1
    · exact h.li r h1 m hm
    · subst h1
      rcases List.mem_cons.mp hm with rfl | h2
      · exact hn
      · exact h.li rl (List.mem_of_getElem? hl) m h2

theorem take_wf {nl : Nat} {s : State} (h : WF nl s) {pos : List Nat} {l : Nat} {b : List Node} {rest : List Nat}
    (hf : findBatch s.lists pos = some (l, b, rest)) :
    WF nl { s with lists := clearList s.lists l, worker := .run b rest } := by
  obtain ⟨rl, hrl, hb, _⟩ := findBatch_some hf
  rw [clearList_eq hrl]
  refine ⟨by simp [h.len], h.cl, ?_, ?_⟩
  · intro r hr m hm
    rcases mem_set_nodes hr with h1 | h1
    · exact h.li r h1 m hm
    · subst h1; simp at hm
  · intro m hm
    exact h.li rl (List.mem_of_getElem? hrl) m (by rw [hb]; exact hm)

theorem passEmpty_wf {nl : Nat} {s : State} (h : WF nl s) : WF nl (passEmpty s) := by
  refine ⟨h.len, ?_, h.li, ?_⟩
  · intro c hc op hop
    have hc : c ∈ s.clients.map wakeDrainer := hc
    obtain ⟨c0, hc0, rfl⟩ := List.mem_map.mp hc
    have : (wakeDrainer c0).prog = c0.prog := by cases c0 <;> rfl
    rw [this] at hop
    exact h.cl c0 hc0 op hop
  · show (if s.exit = true then Worker.fin else Worker.asleep false).wf nl
    split <;> trivial

theorem scan_wf {nl : Nat} {s : State} (h : WF nl s) (pos : List Nat) (r : Bool) : WF nl (scan s pos r) := by
  unfold scan
  cases hf : findBatch s.lists pos with
  | some t => obtain ⟨l, b, rest⟩ := t; exact take_wf h hf
  | none =>
    dsimp only
    split
    · cases hf2 : findBatch s.lists s.order with
      | some t => obtain ⟨l, b, rest⟩ := t; exact take_wf h hf2
      | none => exact passEmpty_wf h
    · exact passEmpty_wf h

theorem workerStep_wf {nl : Nat} {s : State} (h : WF nl s) : WF nl (workerStep s) := by
  unfold workerStep
  split
  · exact scan_wf h _ _
  · exact scan_wf h _ _
  · exact h
  · exact h
  · exact scan_wf h _ _
  · exact ⟨h.len, h.cl, h.li, trivial⟩
  · next n rest pos hw =>
    have hk := h.wk
    rw [hw] at hk
    have hrest : ∀ m ∈ rest, m.wf nl := fun m hm => hk m (List.mem_cons_of_mem _ hm)
    split
    · exact ⟨h.len, h.cl, h.li, afterNode_wf pos hrest⟩
    · next l c hc =>
      refine ⟨h.len, h.cl, h.li, ?_⟩
      exact ⟨hk n (List.mem_cons_self) l c hc, hrest⟩
  · next id l c rest pos hw =>
    have hk := h.wk
    rw [hw] at hk
    have h0 : WF nl { s with worker := afterNode rest pos } := ⟨h.len, h.cl, h.li, afterNode_wf pos hk.2⟩
    have h1 := reapBody_wf h0 l { id := c } (by intro l' c' hh; simp at hh)
    exact ⟨h1.len, h1.cl, h1.li, h1.wk⟩

theorem setClient_wf {nl : Nat} {s : State} (h : WF nl s) {i : Nat} {c : Client} (hc : s.clients[i]? = some c)
    (c' : Client) (hsub : ∀ op ∈ c'.prog, op ∈ c.prog) : WF nl { s with clients := s.clients.set i c' } := by
  refine ⟨h.len, ?_, h.li, h.wk⟩
  intro d hd op hop
  rcases List.mem_or_eq_of_mem_set hd with h1 | h1
  · exact h.cl d h1 op hop
  · subst h1; exact h.cl c (List.mem_of_getElem? hc) op (hsub op hop)

theorem clientStep_wf {nl : Nat} {s : State} (h : WF nl s) (i : Nat) : WF nl (clientStep s i) := by
  unfold clientStep
  split
  · exact h
  · exact h
  · next l n p hc =>
    have hop := h.cl _ (List.mem_of_getElem? hc) (.reap l n) (by simp [Client.prog])
    have h1 := reapBody_wf h l n hop.2
    have hc' : (reapBody s l n).clients[i]? = some (.ready (.reap l n :: p)) := by
      have : (reapBody s l n).clients = s.clients := by unfold reapBody; split <;> rfl
      rw [this]; exact hc
    exact setClient_wf h1 hc' (.ready p) (by intro op hop; simp [Client.prog] at hop ⊢; exact Or.inr hop)
  · next p hc =>
    split
    · have := setClient_wf h hc (.ready p) (by intro op hop; simp [Client.prog] at hop ⊢; exact Or.inr hop)
      exact ⟨this.len, this.cl, this.li, this.wk⟩
    · exact setClient_wf h hc (.drainSleep false p) (by intro op hop; simp [Client.prog] at hop ⊢; exact Or.inr hop)
  · next p hc =>
    have h0 : WF nl { s with exit := true, worker := wakeWorker s.worker } := ⟨h.len, h.cl, h.li, wakeWorker_wf h.wk⟩
    exact setClient_wf h0 (i := i) hc (.joining p) (by intro op hop; simp [Client.prog] at hop ⊢; exact Or.inr hop)
  · exact h
  · next p hc =>
    split
    · have := setClient_wf h hc (.ready p) (by intro op hop; simpa [Client.prog] using hop)
      exact ⟨this.len, this.cl, this.li, this.wk⟩
    · exact setClient_wf h hc (.drainSleep false p) (by intro op hop; simpa [Client.prog] using hop)
  · next p hc =>
    split
    · exact setClient_wf h hc (.ready p) (by intro op hop; simpa [Client.prog] using hop)
    · exact h

theorem step_wf {nl : Nat} {s : State} (h : WF nl s) (t : Tid) : WF nl (step s t) := by
  cases t with
  | w => exact workerStep_wf h
  | c i => exact clientStep_wf h i

theorem run_wf {nl : Nat} {s : State} (h : WF nl s) (sched : List Tid) : WF nl (run s sched) := by
  induction sched generalizing s with
  | nil => exact h
  | cons t r ih => exact ih (step_wf h t)


/-! ### nothing named is dropped -/

theorem take_fc {s : State} (hq : s.worker.quiet) {pos : List Nat} {l : Nat} {b : List Node} {rest : List Nat}
    (hf : findBatch s.lists pos = some (l, b, rest)) (x : Nat) :
    fc { s with lists := clearList s.lists l, worker := .run b rest } x = fc s x := by
  obtain ⟨rl, hrl, hb, _⟩ := findBatch_some hf
  obtain ⟨_, _, h3⟩ := hq
  rw [clearList_eq hrl]
  have c2 := count_flatMap_set listFuture x s.lists l rl { rl with nodes := [] } hrl
  simp only [fc, parts, h3, listFuture, hb, nodesFuture_nil, List.count_nil, future_run] at c2 ⊢
  omega

theorem passEmpty_fc {s : State} (hq : s.worker.quiet) (x : Nat) : fc (passEmpty s) x = fc s x := by
  obtain ⟨_, _, h3⟩ := hq
  have hw : (if s.exit = true then Worker.fin else Worker.asleep false).future = [] := by split <;> rfl
  simp only [fc, parts, passEmpty, h3, hw, flatMap_wake]

theorem scan_fc {s : State} (hq : s.worker.quiet) (pos : List Nat) (r : Bool) (x : Nat) : fc (scan s pos r) x = fc s x := by
  unfold scan
  cases hf : findBatch s.lists pos with
  | some t => obtain ⟨l, b, rest⟩ := t; exact take_fc hq hf x
  | none =>
    dsimp only
    split
    · cases hf2 : findBatch s.lists s.order with
      | some t => obtain ⟨l, b, rest⟩ := t; exact take_fc hq hf2 x
      | none => exact passEmpty_fc hq x
    · exact passEmpty_fc hq x

theorem workerStep_fc {nl : Nat} {s : State} (h : WF nl s) (x : Nat) : fc (workerStep s) x = fc s x := by
  unfold workerStep
  split
  · next hw => exact scan_fc (by rw [Worker.quiet, hw]; exact ⟨rfl, rfl, rfl⟩) _ _ x
  · next hw => exact scan_fc (by rw [Worker.quiet, hw]; exact ⟨rfl, rfl, rfl⟩) _ _ x
  · rfl
  · rfl
  · next pos hw => exact scan_fc (by rw [Worker.quiet, hw]; exact ⟨rfl, rfl, rfl⟩) _ _ x
  · next pos hw => simp only [fc, parts, hw, future_run, future_relock, nodesFuture_nil]
  · next n rest pos hw =>
    split
    · next hc =>
      simp only [fc, parts, hw, future_run, nodesFuture_cons, afterNode_future, childIds, hc, List.nil_append]
    · next l c hc =>
      simp only [fc, parts, hw, future_run, future_nest, nodesFuture_cons, childIds, hc]
  · next id l c rest pos hw =>
    have hk := h.wk
    rw [hw] at hk
    have hlt : l < s.lists.length := by rw [h.len]; exact hk.1
    have hl' : ({ s with worker := afterNode rest pos } : State).lists[l]? = some s.lists[l] :=
      List.getElem?_eq_getElem hlt
    obtain ⟨r1, r2, r3, r4, r5, r6, r7, r8, r9, r10, r11, r12⟩ := reapBody_parts { id := c } hl' x
    simp only [fc, parts, hw, future_nest, List.count_append, afterNode_future, childIds, List.count_nil] at r1 r6 r7 r8 ⊢
    omega

theorem setClient_fc (s : State) {i : Nat} {c : Client} (hc : s.clients[i]? = some c) (c' : Client)
    (heq : clientFuture c' = clientFuture c) (x : Nat) : fc { s with clients := s.clients.set i c' } x = fc s x := by
  have c1 := count_flatMap_set clientFuture x s.clients i c c' hc
  rw [heq] at c1
  simp only [fc, parts]; omega

theorem wake_fc (s : State) (x : Nat) : fc { s with exit := true, worker := wakeWorker s.worker } x = fc s x := by
  simp only [fc, parts, wakeWorker_future]

theorem clientStep_fc {nl : Nat} {s : State} (h : WF nl s) (i : Nat) (x : Nat) : fc (clientStep s i) x = fc s x := by
  unfold clientStep
  split
  · rfl
  · rfl
  · next l n p hc =>
    have hop := h.cl _ (List.mem_of_getElem? hc) (.reap l n) (by simp [Client.prog])
    have hlt : l < s.lists.length := by rw [h.len]; exact hop.1
    have hl : s.lists[l]? = some s.lists[l] := List.getElem?_eq_getElem hlt
    have hcf := clientFuture_cons (.reap l n) p (.ready (.reap l n :: p)) rfl
    obtain ⟨r1, r2, r3, r4, r5, r6, r7, r8, r9, r10, r11, r12⟩ := reapBody_parts n hl x
    have r12 : (reapBody s l n).clients = s.clients := r12
    have c1 := count_flatMap_set clientFuture x s.clients i _ (.ready p) hc
    rw [hcf] at c1
    simp only [fc, parts, r12, opIds, List.count_append] at r1 r7 r8 c1 ⊢
    omega
  · next p hc =>
    have hcf := clientFuture_cons .drain p (.ready (.drain :: p)) rfl
    split
    · exact setClient_fc s hc (.ready p) (by rw [hcf]; simp [opIds]) x
    · exact setClient_fc s hc (.drainSleep false p) (by rw [hcf]; simp [opIds, clientFuture, Client.prog]) x
  · next p hc =>
    have hcf := clientFuture_cons .fini p (.ready (.fini :: p)) rfl
    have h2 := setClient_fc { s with exit := true, worker := wakeWorker s.worker } (i := i) hc (.joining p)
      (by rw [hcf]; simp [opIds, clientFuture, Client.prog]) x
    rw [wake_fc] at h2
    exact h2
  · rfl
  · next p hc =>
    split
    · exact setClient_fc s hc (.ready p) (by simp [clientFuture, Client.prog]) x
    · exact setClient_fc s hc (.drainSleep false p) (by simp [clientFuture, Client.prog]) x
  · next p hc =>
    split
    · exact setClient_fc s hc (.ready p) (by simp [clientFuture, Client.prog]) x
    · rfl

theorem run_fc {nl : Nat} {s : State} (h : WF nl s) (sched : List Tid) (x : Nat) : fc (run s sched) x = fc s x := by
  induction sched generalizing s with
  | nil => rfl
  | cons t r ih =>
    have hs : fc (step s t) x = fc s x := by
      cases t with
      | w => exact workerStep_fc h x
      | c i => exact clientStep_fc h i x
    simp only [run, List.foldl_cons] at ih ⊢
    rw [ih (step_wf h t), hs]

end Nng.Reap
