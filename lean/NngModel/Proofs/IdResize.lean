/- id_resize (capacity choice + rehash) preserves the open-addressing invariant and the content -/
import NngModel.Proofs.IdTableOps
namespace Nng.IdHash

/-- the table holds value `v ≠ NULL` under key `k` -/
def Has (es : List Entry) (k v : Nat) : Prop := ∃ t, (ent es t).key = k ∧ (ent es t).val = v ∧ v ≠ 0

theorem has_insert {es es' : List Entry} {t id v : Nat} (hfree : (ent es t).val = 0) (hv : v ≠ 0)
    (h : ∀ i, (ent es' i).key = (if i = t then id else (ent es i).key) ∧
              (ent es' i).val = (if i = t then v else (ent es i).val)) (k w : Nat) :
    Has es' k w ↔ (Has es k w ∨ (k = id ∧ w = v)) := by
  constructor
  · rintro ⟨i, hk, hw, hw0⟩
    rw [(h i).1] at hk; rw [(h i).2] at hw
    by_cases hi : i = t
    · simp only [hi, if_true] at hk hw; exact Or.inr ⟨hk.symm, hw.symm⟩
    · simp only [hi, if_false] at hk hw; exact Or.inl ⟨i, hk, hw, hw0⟩
  · rintro (⟨i, hk, hw, hw0⟩ | ⟨hk, hw⟩)
    · have hi : i ≠ t := by intro e; rw [e, hfree] at hw; exact hw0 hw.symm
      exact ⟨i, by rw [(h i).1, if_neg hi]; exact hk, by rw [(h i).2, if_neg hi]; exact hw, hw0⟩
    · exact ⟨t, by rw [(h t).1, if_pos rfl]; exact hk.symm, by rw [(h t).2, if_pos rfl]; exact hw.symm, hw ▸ hv⟩

theorem has_remove {es es' : List Entry} {t : Nat} (ht : (ent es t).val ≠ 0)
    (hd : ∀ s s', (ent es s).val ≠ 0 → (ent es s').val ≠ 0 → (ent es s).key = (ent es s').key → s = s')
    (h : ∀ i, (ent es' i).key = (if i = t then 0 else (ent es i).key) ∧
              (ent es' i).val = (if i = t then 0 else (ent es i).val)) (k w : Nat) :
    Has es' k w ↔ (Has es k w ∧ k ≠ (ent es t).key) := by
  constructor
  · rintro ⟨i, hk, hw, hw0⟩
    rw [(h i).1] at hk; rw [(h i).2] at hw
    by_cases hi : i = t
    · simp only [hi, if_true] at hw; exact absurd hw.symm hw0
    · simp only [hi, if_false] at hk hw
      refine ⟨⟨i, hk, hw, hw0⟩, ?_⟩
      intro e
      exact hi (hd i t (by rw [hw]; exact hw0) ht (by rw [hk, e]))
  · rintro ⟨⟨i, hk, hw, hw0⟩, hne⟩
    have hi : i ≠ t := by intro e; rw [e] at hk; exact hne hk.symm
    exact ⟨i, by rw [(h i).1, if_neg hi]; exact hk, by rw [(h i).2, if_neg hi]; exact hw, hw0⟩

theorem has_overwrite {es es' : List Entry} {t v : Nat} (ht : (ent es t).val ≠ 0) (hv : v ≠ 0)
    (hd : ∀ s s', (ent es s).val ≠ 0 → (ent es s').val ≠ 0 → (ent es s).key = (ent es s').key → s = s')
    (h : ∀ i, (ent es' i).key = (ent es i).key ∧ (ent es' i).val = (if i = t then v else (ent es i).val)) (k w : Nat) :
    Has es' k w ↔ ((k = (ent es t).key ∧ w = v) ∨ (k ≠ (ent es t).key ∧ Has es k w)) := by
  constructor
  · rintro ⟨i, hk, hw, hw0⟩
    rw [(h i).1] at hk; rw [(h i).2] at hw
    by_cases hi : i = t
    · simp only [hi, if_true] at hw; exact Or.inl ⟨by rw [← hk, hi], hw.symm⟩
    · simp only [hi, if_false] at hw
      refine Or.inr ⟨?_, ⟨i, hk, hw, hw0⟩⟩
      intro e
      exact hi (hd i t (by rw [hw]; exact hw0) ht (by rw [hk, e]))
  · rintro (⟨hk, hw⟩ | ⟨hne, i, hk, hw, hw0⟩)
    · exact ⟨t, by rw [(h t).1]; exact hk.symm, by rw [(h t).2, if_pos rfl]; exact hw.symm, hw ▸ hv⟩
    · have hi : i ≠ t := by intro e; rw [e] at hk; exact hne hk.symm
      exact ⟨i, by rw [(h i).1]; exact hk, by rw [(h i).2, if_neg hi]; exact hw, hw0⟩

theorem sumTo_le_sumTo {n : Nat} {f g : Nat → Nat} (h : ∀ i, i < n → f i ≤ g i) : sumTo n f ≤ sumTo n g := by
  induction n with
  | zero => exact Nat.le_refl _
  | succ n ih =>
    simp only [sumTo]
    have := ih (fun i hi => h i (by omega))
    have := h n (by omega)
    omega

theorem RawWF.cnt_le_load {es : List Entry} {cap : Nat} {dist : Nat → Nat} {load cnt : Nat}
    (wf : RawWF es cap dist load cnt) : cnt ≤ load := by
  rw [wf.cnt, wf.load]
  apply sumTo_le_sumTo
  intro i _
  unfold fCt fLd
  by_cases h : (ent es i).val ≠ 0
  · rw [if_pos h, if_pos h]; omega
  · rw [if_neg h, if_neg h]; exact Nat.le_refl _

/-! ### capacity choice -/

theorem capLoop_spec (count : Nat) : ∀ (f a n : Nat), a = 2 ^ n → count * 2 ≤ a * 2 ^ f →
    (capLoop count f a).2 = true ∧ count * 2 ≤ (capLoop count f a).1 ∧
    ∃ n', n ≤ n' ∧ (capLoop count f a).1 = 2 ^ n' := by
  intro f
  induction f with
  | zero =>
    intro a n ha hle
    simp only [capLoop, Nat.pow_zero, Nat.mul_one] at hle ⊢
    exact ⟨by simp; omega, hle, n, Nat.le_refl _, ha⟩
  | succ f ih =>
    intro a n ha hle
    unfold capLoop
    by_cases h : a < count * 2
    · rw [if_pos h]
      obtain ⟨x, y, n', hn', z⟩ := ih (a * 2) (n + 1) (by rw [ha, Nat.pow_succ]) (by
        rw [Nat.pow_succ] at hle
        rw [Nat.mul_assoc, Nat.mul_comm 2]; exact hle)
      exact ⟨x, y, n', by omega, z⟩
    · rw [if_neg h]
      exact ⟨rfl, by show count * 2 ≤ a; omega, n, Nat.le_refl _, ha⟩

theorem newCap_spec (count : Nat) :
    (capLoop count count minCap).2 = true ∧ count * 2 ≤ (capLoop count count minCap).1 ∧
    ∃ n, 3 ≤ n ∧ (capLoop count count minCap).1 = 2 ^ n := by
  have h : count * 2 ≤ minCap * 2 ^ count := by
    have h1 : count < 2 ^ count := Nat.lt_two_pow_self
    show count * 2 ≤ 8 * 2 ^ count
    omega
  exact capLoop_spec count count minCap 3 rfl h

/-! ### rehash -/

theorem rehashInsert_eq (cap key val : Nat) : ∀ (f : Nat) (es : List Entry) (idx load : Nat) (s : Bool),
    rehashInsert cap key val f es idx load s = setLoop cap key val f es idx load s := by
  intro f
  induction f with
  | zero => intro es idx load s; rfl
  | succ f ih =>
    intro es idx load s
    unfold rehashInsert setLoop
    simp only [ih]

/-- number of occupied slots among the listed ones -/
def liveIn (old : List Entry) (is : List Nat) : Nat := (is.map (fCt old)).sum

theorem liveIn_range (old : List Entry) (n : Nat) : liveIn old (List.range n) = sumTo n (fCt old) := by
  induction n with
  | zero => rfl
  | succ n ih =>
    unfold liveIn at ih ⊢
    rw [List.range_succ, List.map_append, List.sum_append, ih]
    simp [sumTo]

theorem rehashAll_spec (old : List Entry) (newCap : Nat) (hp : ProbeCovers newCap) (hcap : 0 < newCap)
    (hd : ∀ s s', (ent old s).val ≠ 0 → (ent old s').val ≠ 0 → (ent old s).key = (ent old s').key → s = s') :
    ∀ (is : List Nat) (es : List Entry) (dist : Nat → Nat) (load cnt : Nat), is.Nodup →
      (∀ i, i ∈ is → i < old.length) → RawWF es newCap dist load cnt → cnt + liveIn old is < newCap →
      (∀ i, i ∈ is → (ent old i).val ≠ 0 → ∀ t, ¬ ((ent es t).key = (ent old i).key ∧ (ent es t).val ≠ 0)) →
      ∃ dist', RawWF (rehashAll old newCap is es load true).1 newCap dist'
          (rehashAll old newCap is es load true).2.1 (cnt + liveIn old is) ∧
        (rehashAll old newCap is es load true).2.2 = true ∧
        ∀ k v, Has (rehashAll old newCap is es load true).1 k v ↔
          (Has es k v ∨ ∃ i, i ∈ is ∧ (ent old i).key = k ∧ (ent old i).val = v ∧ v ≠ 0) := by
  intro is
  induction is with
  | nil =>
    intro es dist load cnt _ _ wf _ _
    refine ⟨dist, by simpa [rehashAll, liveIn] using wf, rfl, ?_⟩
    intro k v; simp [rehashAll]
  | cons i is ih =>
    intro es dist load cnt hnd hin wf hroom habs
    obtain ⟨hi_notin, hnd'⟩ := List.nodup_cons.mp hnd
    have hil : i < old.length := hin i (by simp)
    have hlive : liveIn old (i :: is) = fCt old i + liveIn old is := by simp [liveIn]
    unfold rehashAll
    simp only [rdE_fst, rdE_snd, hil, decide_true, Bool.and_self]
    by_cases hv : (ent old i).val = 0
    · rw [if_pos hv]
      have h0 : fCt old i = 0 := by unfold fCt; simp [hv]
      obtain ⟨dist', a, b, c⟩ := ih es dist load cnt hnd' (fun j hj => hin j (by simp [hj])) wf
        (by rw [hlive, h0] at hroom; omega) (fun j hj => habs j (by simp [hj]))
      refine ⟨dist', by rw [hlive, h0]; simpa using a, b, ?_⟩
      intro k v
      rw [c k v]
      constructor
      · rintro (h | ⟨j, hj, h⟩)
        · exact Or.inl h
        · exact Or.inr ⟨j, by simp [hj], h⟩
      · rintro (h | ⟨j, hj, hk, hw, hw0⟩)
        · exact Or.inl h
        · rcases List.mem_cons.mp hj with e | hj'
          · subst e; rw [hv] at hw; exact absurd hw.symm hw0
          · exact Or.inr ⟨j, hj', hk, hw, hw0⟩
    · rw [if_neg hv]
      have h1 : fCt old i = 1 := by unfold fCt; simp [hv]
      rw [rehashInsert_eq]
      obtain ⟨dist1, t, wf1, s1, hfree, cont⟩ := wf.insert hp hcap (by rw [hlive, h1] at hroom; omega)
        (id := (ent old i).key) (v := (ent old i).val) hv (habs i (by simp) hv) newCap (Nat.le_refl _)
      generalize setLoop newCap (ent old i).key (ent old i).val newCap es (idIndex newCap (ent old i).key) load true = x
        at wf1 s1 cont
      rw [s1]
      have hins := has_insert hfree hv cont
      obtain ⟨dist', a, b, c⟩ := ih x.1 dist1 x.2.1 (cnt + 1) hnd' (fun j hj => hin j (by simp [hj])) wf1
        (by rw [hlive, h1] at hroom; omega)
        (fun j hj hjv t ht => by
          have : Has x.1 (ent old j).key (ent x.1 t).val := ⟨t, ht.1, rfl, ht.2⟩
          rcases (hins _ _).mp this with ⟨t', hk', hw', _⟩ | ⟨hk, _⟩
          · exact habs j (by simp [hj]) hjv t' ⟨hk', by rw [hw']; exact ht.2⟩
          · have := hd j i hjv hv hk
            exact hi_notin (this ▸ hj))
      refine ⟨dist', by rw [hlive, h1, show cnt + (1 + liveIn old is) = cnt + 1 + liveIn old is by omega]; exact a, b, ?_⟩
      intro k v
      rw [c k v, hins k v]
      constructor
      · rintro ((h | ⟨hk, hw⟩) | ⟨j, hj, h⟩)
        · exact Or.inl h
        · exact Or.inr ⟨i, by simp, hk.symm, hw.symm, hw ▸ hv⟩
        · exact Or.inr ⟨j, by simp [hj], h⟩
      · rintro (h | ⟨j, hj, hk, hw, hw0⟩)
        · exact Or.inl (Or.inl h)
        · rcases List.mem_cons.mp hj with e | hj'
          · subst e; exact Or.inl (Or.inr ⟨hk.symm, hw.symm⟩)
          · exact Or.inr ⟨j, hj', hk, hw, hw0⟩

end Nng.IdHash
