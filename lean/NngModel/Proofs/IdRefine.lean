/- refinement: the hash-table model (Model/IdHash.lean) on a well-formed table behaves as the finite
   map IdSpec (Spec/Queues.lean), operation by operation -/
import NngModel.Proofs.IdOps
import NngModel.Proofs.IdSpecLemmas
import NngModel.Generated.C18
namespace Nng.IdHash
open Nng.QSpec

theorem TabWF.liveCnt_eq {m : IdMap} {dist : Nat → Nat} (wf : TabWF m dist) : liveCnt m.entries = m.count := by
  unfold liveCnt
  rw [wf.raw.len]
  exact wf.raw.cnt.symm

/-- nni_id_alloc, complete: the loop's fuel is never exhausted on a map whose `count` bounds the number
    of occupied slots, so a failure is NNG_ENOMEM and happens only when more than hi − lo entries are
    stored or the allocator failed -/
theorem idAlloc_fail_only {m : IdMap} (h : CurWF m) (hcnt : liveCnt m.entries ≤ m.count) (v rnd : Nat) (ok : Bool) :
    (idAlloc m v rnd ok).rv ≠ 0 →
      (idAlloc m v rnd ok).rv = Err.enomem ∧ (m.count > m.maxVal - m.minVal ∨ ok = false) := by
  obtain ⟨d1, d2, _⟩ := dyn0_range h rnd
  unfold idAlloc
  by_cases hfull : m.count > m.maxVal - m.minVal
  · simp only [if_pos hfull]
    exact fun _ => ⟨(by first | rfl | trivial), Or.inl hfull⟩
  · simp only [if_neg hfull]
    have hfind := allocLoop_finds hcnt hfull (dyn0 m rnd) d1 d2 false true
    cases hl : (allocLoop m (m.count + 1) (dyn0 m rnd) false true).1 with
    | none => exact absurd hl hfind
    | some id =>
      simp only []
      obtain ⟨_, _, _, _, s5, s6⟩ := idSet_cur
        { m with dynVal := (allocLoop m (m.count + 1) (dyn0 m rnd) false true).2.1 } id v ok
      intro hne
      rcases s6 with s6 | s6
      · exact absurd s6 hne
      · refine ⟨s6, Or.inr ?_⟩
        cases ok with
        | false => rfl
        | true => exact absurd (s5 rfl) hne

/-! ### the representation relation -/

/-- the model state `m` represents the finite map `s` -/
structure Rep (m : IdMap) (s : IdSpec) : Prop where
  wf : ∃ dist, TabWF m dist
  curwf : CurWF m
  has : ∀ k v, (k, v) ∈ s.m ↔ Has m.entries k v
  nodup : KeysNodup s.m
  len : s.m.length = m.count
  lo : s.lo = m.minVal
  hi : s.hi = m.maxVal
  cur : s.cur = m.dynVal
  random : s.random = m.random

theorem TabWF.probe {m : IdMap} {dist : Nat → Nat} (wf : TabWF m dist) (hp : ∀ n, 3 ≤ n → ProbeCovers (2 ^ n)) :
    0 < m.cap → ProbeCovers m.cap := by
  intro hc
  obtain ⟨⟨n, hn3, hn⟩, _, _⟩ := wf.capp hc
  exact hn ▸ hp n hn3

theorem mapInit_rep (lo hi : Nat) (random : Bool) (hhi : hi < u64)
    (hlh : (if lo = 0 then Nng.Generated.c18IdDefaultLo else lo) ≤ (if hi = 0 then Nng.Generated.c18IdDefaultHi else hi)) :
    Rep (mapInit lo hi random) (IdSpec.init lo hi random) := by
  refine ⟨⟨_, mapInit_tabWF lo hi random⟩, mapInit_curWF lo hi random hhi hlh, ?_, IdSpec.keysNodup_init lo hi random,
    rfl, rfl, rfl, rfl, rfl⟩
  intro k v
  constructor
  · intro h; simp [IdSpec.init] at h
  · intro h; exact absurd h (not_has_init lo hi random k v)

/-- nni_id_get returns the stored value, NULL for an absent key, and stays in bounds -/
theorem Rep.get {m : IdMap} {s : IdSpec} (h : Rep m s) (hp : ∀ n, 3 ≤ n → ProbeCovers (2 ^ n)) (k : Nat) :
    idGet m k = (s.get k, true) := by
  obtain ⟨dist, wf⟩ := h.wf
  obtain ⟨gs, gg⟩ := idGet_spec wf.raw (wf.probe hp) k
  rcases gg with ⟨t, hk, hv, hg⟩ | ⟨habs, hg⟩
  · have : (k, (ent m.entries t).val) ∈ s.m := (h.has _ _).mpr ⟨t, hk, rfl, hv⟩
    rw [s.get_of_mem h.nodup this, ← hg, ← gs]
  · have : ¬ ∃ v, (k, v) ∈ s.m := by
      rintro ⟨v, hv⟩
      obtain ⟨t, hk, hw, hw0⟩ := (h.has _ _).mp hv
      exact habs t ⟨hk, by rw [hw]; exact hw0⟩
    rw [s.get_of_not_has this, ← hg, ← gs]

/-- id_find finds exactly the keys of the finite map -/
theorem Rep.find {m : IdMap} {s : IdSpec} (h : Rep m s) (hp : ∀ n, 3 ≤ n → ProbeCovers (2 ^ n)) (k : Nat) :
    (idFind m k).2 = true ∧ (s.has k = true ↔ (idFind m k).1 ≠ none) := by
  obtain ⟨dist, wf⟩ := h.wf
  obtain ⟨fs, ff⟩ := idFind_spec wf.raw (wf.probe hp) k
  refine ⟨fs, ?_⟩
  rw [s.has_iff]
  rcases ff with ⟨t, hk, hv, hf⟩ | ⟨habs, hf⟩
  · rw [hf]
    exact ⟨fun _ => by simp, fun _ => ⟨_, (h.has _ _).mpr ⟨t, hk, rfl, hv⟩⟩⟩
  · rw [hf]
    refine ⟨?_, fun hc => absurd rfl hc⟩
    rintro ⟨v, hv⟩
    obtain ⟨t, hk, hw, hw0⟩ := (h.has _ _).mp hv
    exact absurd ⟨hk, by rw [hw]; exact hw0⟩ (habs t)

theorem Rep.count {m : IdMap} {s : IdSpec} (h : Rep m s) : idCount m = s.count := h.len.symm

/-- nni_id_set (non-NULL value) is the finite map's set, or — only under a failing allocator —
    NNG_ENOMEM without any change -/
theorem idSet_rep {m : IdMap} {s : IdSpec} (h : Rep m s) (hp : ∀ n, 3 ≤ n → ProbeCovers (2 ^ n))
    (k v : Nat) (hv : v ≠ 0) (ok : Bool) :
    (idSet m k v ok).2.2 = true ∧
    (((idSet m k v ok).2.1 = 0 ∧ Rep (idSet m k v ok).1 (s.set k v)) ∨
     (ok = false ∧ (idSet m k v ok).2.1 = Err.enomem ∧ (idSet m k v ok).1 = m)) := by
  obtain ⟨dist, wf⟩ := h.wf
  obtain ⟨ss, swf, sr⟩ := idSet_spec wf hp k v hv ok
  refine ⟨ss, ?_⟩
  rcases sr with ⟨rv0, shas, scnt⟩ | hfail
  · obtain ⟨c1, c2, c3, c4, _, _⟩ := idSet_cur m k v ok
    obtain ⟨p1, p2, p3, p4, p5, p6, p7⟩ := s.set_spec h.nodup k v
    refine Or.inl ⟨rv0, ⟨swf, h.curwf.of_eq c1 c2 c3, ?_, p1, ?_, by rw [p4, c2]; exact h.lo, by rw [p5, c3]; exact h.hi,
      by rw [p6, c1]; exact h.cur, by rw [p7, c4]; exact h.random⟩⟩
    · intro k' w
      rw [p2, shas, h.has]
    · have hex : (∃ w, (k, w) ∈ s.m) ↔ ∃ w, Has m.entries k w :=
        ⟨fun ⟨w, hw⟩ => ⟨w, (h.has _ _).mp hw⟩, fun ⟨w, hw⟩ => ⟨w, (h.has _ _).mpr hw⟩⟩
      rcases p3 with ⟨a, b⟩ | ⟨a, b, _⟩ <;> rcases scnt with ⟨a', b'⟩ | ⟨a', b'⟩
      · rw [b, b']; exact h.len
      · exact absurd (hex.mp a) a'
      · exact absurd (hex.mpr a') a
      · rw [b, b', h.len]
  · exact Or.inr hfail

/-- nni_id_remove is the finite map's remove (same return code); a failing shrink changes nothing observable -/
theorem idRemove_rep {m : IdMap} {s : IdSpec} (h : Rep m s) (hp : ∀ n, 3 ≤ n → ProbeCovers (2 ^ n))
    (k : Nat) (ok : Bool) :
    (idRemove m k ok).2.2 = true ∧ (idRemove m k ok).2.1 = (s.remove k).2 ∧ Rep (idRemove m k ok).1 (s.remove k).1 := by
  obtain ⟨dist, wf⟩ := h.wf
  obtain ⟨rs, rwf, rr⟩ := idRemove_spec wf hp k ok
  refine ⟨rs, ?_⟩
  have hex : (∃ w, (k, w) ∈ s.m) ↔ ∃ w, Has m.entries k w :=
    ⟨fun ⟨w, hw⟩ => ⟨w, (h.has _ _).mp hw⟩, fun ⟨w, hw⟩ => ⟨w, (h.has _ _).mpr hw⟩⟩
  obtain ⟨c1, c2, c3, c4⟩ := idRemove_cur m k ok
  rcases rr with ⟨a, rv0, rhas, rcnt⟩ | ⟨a, rve, rm⟩ <;> rcases s.remove_spec h.nodup k with ⟨a', p0, p1, p2, p3, p4, p5, p6, p7⟩ | ⟨a', p⟩
  · refine ⟨by rw [rv0, p0], rwf, h.curwf.of_eq c1 c2 c3, ?_, p1, ?_, by rw [p4, c2]; exact h.lo, by rw [p5, c3]; exact h.hi,
      by rw [p6, c1]; exact h.cur, by rw [p7, c4]; exact h.random⟩
    · intro k' w; rw [p2, rhas, h.has]
    · have := h.len; omega
  · exact absurd (hex.mpr a) a'
  · exact absurd (hex.mp a') a
  · rw [p, rve, rm]; exact ⟨rfl, h⟩

/-! ### allocation: the cursor loop is the specification's `firstFree` -/

theorem allocLoop_firstFree (m : IdMap) (has : Nat → Bool) (hh : ∀ x, has x = true ↔ (idFind m x).1 ≠ none)
    (hs : ∀ x, (idFind m x).2 = true) : ∀ (f dyn : Nat) (w0 w s : Bool),
    (firstFree has m.minVal m.maxVal f dyn w0 = none → (allocLoop m f dyn w s).1 = none) ∧
    (∀ id w', firstFree has m.minVal m.maxVal f dyn w0 = some (id, w') →
      (allocLoop m f dyn w s).1 = some id ∧ (allocLoop m f dyn w s).2.1 = succIn m.minVal m.maxVal id ∧
      (allocLoop m f dyn w s).2.2.2 = s) := by
  intro f
  induction f with
  | zero => intro dyn w0 w s; simp [firstFree, allocLoop]
  | succ f ih =>
    intro dyn w0 w s
    unfold firstFree allocLoop
    have hsucc : (if decide (dyn ≥ m.maxVal) = true then m.minVal else dyn + 1) = succIn m.minVal m.maxVal dyn := by
      unfold succIn
      by_cases hw : dyn ≥ m.maxVal
      · rw [if_pos (by simpa using hw), if_pos (by omega)]
      · rw [if_neg (by simpa using hw), if_neg (by omega)]
    by_cases hc : has dyn = true
    · have hfd : ¬ (idFind m dyn).1 = none := (hh dyn).mp hc
      simp only [hc, if_true, hfd, if_false, hsucc, hs, Bool.and_true]
      exact ih _ _ _ _
    · have hfd : (idFind m dyn).1 = none := by
        apply Classical.byContradiction
        intro hne; exact hc ((hh dyn).mpr hne)
      simp only [hc, hfd, if_true, hsucc, hs, Bool.and_true]
      refine ⟨by intro h; simp at h, ?_⟩
      intro id w' h
      simp only [Bool.false_eq_true, if_false, Option.some.injEq, Prod.mk.injEq] at h
      obtain ⟨h1, _⟩ := h
      subst h1
      exact ⟨(by first | rfl | trivial), (by first | rfl | trivial), (by first | rfl | trivial)⟩

/-- nni_id_alloc (non-NULL value) is the finite map's alloc: same return code, same identifier, same
    cursor; under a failing allocator it may instead report NNG_ENOMEM, having skipped one identifier -/
theorem idAlloc_rep {m : IdMap} {s : IdSpec} (h : Rep m s) (hp : ∀ n, 3 ≤ n → ProbeCovers (2 ^ n))
    (v rnd : Nat) (hv : v ≠ 0) (ok : Bool) :
    (idAlloc m v rnd ok).safe = true ∧
    (((idAlloc m v rnd ok).rv = (s.alloc v rnd).2.1 ∧ (idAlloc m v rnd ok).id = (s.alloc v rnd).2.2 ∧
        Rep (idAlloc m v rnd ok).m (s.alloc v rnd).1) ∨
     (ok = false ∧ (idAlloc m v rnd ok).rv = Err.enomem ∧ Rep (idAlloc m v rnd ok).m (s.allocFail rnd))) := by
  obtain ⟨dist, wf⟩ := h.wf
  obtain ⟨d1, d2, _⟩ := dyn0_range h.curwf rnd
  have hcur : (if s.cur = 0 then if s.random = true then rnd % (s.hi - s.lo + 1) + s.lo else s.lo else s.cur) = dyn0 m rnd := by
    unfold dyn0
    rw [h.cur, h.random, h.lo, h.hi]
    by_cases hz : m.dynVal = 0
    · rw [if_pos hz, if_pos hz]
      by_cases hr : m.random = true
      · rw [if_pos hr, if_pos hr]
        have h1 := h.curwf.lo_hi
        have h2 := h.curwf.hi_u64
        have : rnd % (m.maxVal - m.minVal + 1) < m.maxVal - m.minVal + 1 := Nat.mod_lt _ (by omega)
        exact (Nat.mod_eq_of_lt (by omega)).symm
      · rw [if_neg hr, if_neg hr]
    · rw [if_neg hz, if_neg hz]
  unfold idAlloc IdSpec.alloc IdSpec.allocFail
  rw [h.len, h.lo, h.hi] at *
  by_cases hfull : m.count > m.maxVal - m.minVal
  · simp only [if_pos hfull]
    exact ⟨(by first | rfl | trivial), Or.inl ⟨(by first | rfl | trivial), (by first | rfl | trivial), h⟩⟩
  · simp only [if_neg hfull]
    rw [hcur]
    have hfind := allocLoop_finds (Nat.le_of_eq wf.liveCnt_eq) hfull (dyn0 m rnd) d1 d2 false true
    obtain ⟨l1, l2⟩ := allocLoop_firstFree m s.has (fun x => (h.find hp x).2) (fun x => (h.find hp x).1)
      (m.count + 1) (dyn0 m rnd) false false true
    obtain ⟨⟨a1, a2⟩, _, _, _⟩ := allocLoop_spec m (m.count + 1) (dyn0 m rnd) false true d1 d2
    cases hf : firstFree s.has m.minVal m.maxVal (m.count + 1) (dyn0 m rnd) false with
    | none => exact absurd (l1 hf) hfind
    | some p =>
      obtain ⟨id, w'⟩ := p
      obtain ⟨e1, e2, e3⟩ := l2 id w' hf
      have hfree := firstFree_some _ _ _ _ _ _ _ _ hf
      simp only [e1, e3, Bool.true_and]
      -- the cursor moves first; then it is nni_id_set
      have hrep1 : Rep { m with dynVal := (allocLoop m (m.count + 1) (dyn0 m rnd) false true).2.1 }
          ⟨s.m, m.minVal, m.maxVal, succIn m.minVal m.maxVal id, s.random⟩ :=
        ⟨⟨dist, ⟨wf.raw, wf.capz, wf.capp⟩⟩,
         ⟨h.curwf.lo_pos, h.curwf.lo_hi, h.curwf.hi_u64, Or.inr ⟨a1, a2⟩⟩,
         h.has, h.nodup, h.len, rfl, rfl, e2.symm, h.random⟩
      have hset : (⟨s.m, m.minVal, m.maxVal, succIn m.minVal m.maxVal id, s.random⟩ : IdSpec).set id v =
          ⟨s.m ++ [(id, v)], m.minVal, m.maxVal, succIn m.minVal m.maxVal id, s.random⟩ := by
        unfold IdSpec.set
        have : (⟨s.m, m.minVal, m.maxVal, succIn m.minVal m.maxVal id, s.random⟩ : IdSpec).has id = false := hfree
        rw [this]; simp
      obtain ⟨ss, sr⟩ := idSet_rep hrep1 hp id v hv ok
      refine ⟨ss, ?_⟩
      rcases sr with ⟨rv0, hr⟩ | ⟨hok, rve, rm⟩
      · rw [hset] at hr
        exact Or.inl ⟨rv0, (by first | rfl | trivial), hr⟩
      · refine Or.inr ⟨hok, rve, ?_⟩
        rw [rm]; exact hrep1

end Nng.IdHash
