/-
  Simulation, event by event (5): a reply arrives (`recv_done <p> <bytes>` with at least four bytes).
-/
import NngModel.Proofs.ReqJudgeEvD
import NngModel.Proofs.ReqSteps
namespace Nng.ReqJ
open Nng Nng.Proto Nng.Req Nng.ReqSpec

/-- the hypothesis on replies: a relative name (`relBase`, `relOff` in Model/Req.lean) is only used for a
    request that has no wire name of its own -/
def relFresh (s : State) (b : Bytes) : Prop :=
  ∀ iid, resolveWire s (beDecode (b.take 4)) = some iid → (beDecode (b.take 4) - idMin) / relBase ≠ 0 → iid ∉ s.alias

/-- the flag `armed` of a pipe is not read by the relation -/
theorem R.setArmed {rest : List Ev} {s : State} {j : J} (p : Nat) (x : Bool) (hM : R rest s j) :
    R rest (setPipe s p { s.pipe p with armed := x }) j := by
  have hp : ∀ q, ((setPipe s p { s.pipe p with armed := x }).pipe q).ctxs = (s.pipe q).ctxs := by
    intro q; simp only [setPipe, upd]; split
    · rename_i e; rw [e]
    · rfl
  have hc : ∀ q, ((setPipe s p { s.pipe p with armed := x }).pipe q).closed = (s.pipe q).closed := by
    intro q; simp only [setPipe, upd]; split
    · rename_i e; rw [e]
    · rfl
  have hb : ∀ q, ((setPipe s p { s.pipe p with armed := x }).pipe q).busy = (s.pipe q).busy := by
    intro q; simp only [setPipe, upd]; split
    · rename_i e; rw [e]
    · rfl
  refine ⟨⟨hM.mi.biglive, hM.mi.dead, hM.mi.park, hM.mi.creset, hM.mi.rep, ?_, hM.mi.wir, hM.mi.unw, hM.mi.sa, hM.mi.rid,
    hM.mi.al_nodup, hM.mi.al_le, hM.mi.fresh, hM.mi.inj, hM.mi.bound, hM.mi.open_, hM.mi.notgone, hM.mi.notclosed⟩,
    ⟨hM.g.now, hM.g.idle, ?_, hM.g.sock, hM.g.closed, hM.g.seen, hM.g.tick, hM.g.tkle, hM.g.tknv, hM.g.nosend, hM.g.stab⟩,
    fun k hk => ?_, fun k hk => by cases hk⟩
  · intro k q hk; rw [hp] at hk; exact hM.mi.onp k q hk
  · intro q; rw [hc, hb]; exact hM.g.busy q
  · exact RCx.frame (s := s) (j := j) rfl (fun _ _ => rfl) (fun _ _ _ hi => hi) (Nat.le_refl _) (fun q => by rw [hp])
      (fun q _ h => by rw [hc]; exact h) Iff.rfl (Nat.le_refl _) (Or.inl rfl) rfl rfl (hM.rc k hk)

theorem take4_len (b : Bytes) (hb : 4 ≤ b.length) : (b.take 4).length = 4 := by
  rw [List.length_take]; omega

theorem beDecode4_lt (l : Bytes) (h : l.length = 4) : beDecode l < 2 ^ 32 := by
  match l, h with
  | [a, b, c, d], _ =>
    have ha := a.toNat_lt; have hb := b.toNat_lt; have hc := c.toNat_lt; have hd := d.toNat_lt
    simp only [beDecode, List.foldl]
    omega

/-- the judge finds a context for a reply exactly when req0_recv_cb takes the reply for that context -/
theorem reply_pred_iff {rest : List Ev} {s : State} {j : J} (hM : R rest s j) (hI : Inv s) (hI2 : Inv2 none none s)
    (b : Bytes) (hb : 4 ≤ b.length) (hf : relFresh s b) (k : Nat) :
    replyPred j (b.take 4) k = true ↔ ∃ iid, resolveWire s (beDecode (b.take 4)) = some iid ∧ Accepts s iid k := by
  have h0 := hM.rc k (by simp)
  have hlen := take4_len b hb
  have hal := hM.mi.alias_len
  constructor
  · intro hp
    unfold replyPred at hp
    cases hr : (j.ctx k).req with
    | none => simp [hr] at hp
    | some r =>
      simp only [hr, Bool.and_eq_true, Bool.not_eq_true', beq_iff_eq] at hp
      obtain ⟨⟨hw, ha⟩, hid⟩ := hp
      obtain ⟨h, hq, hrq⟩ := h0.held hr ha
      have hcw : (s.ctx k).wired = true := by rw [← hrq.wired]; exact hw
      obtain ⟨n, hn, hid'⟩ := hrq.id hcw
      rw [hid] at hid'
      have hbt : b.take 4 = wireHdr n := by simpa using hid'
      have hget := getElem_idxOf hn
      have hnlt : n < s.alias.length := (List.getElem?_eq_some_iff.1 hget).1
      have hv : beDecode (b.take 4) = idMin + n := by
        rw [hbt]; unfold wireHdr
        rw [Nng.Msg.beDecode_beEncode]
        unfold idMin relBase at *
        simp only [Nng.Generated.reqIdMin] at *
        omega
      refine ⟨h, ?_, ?_⟩
      · unfold resolveWire
        rw [hv]
        have e1 : ¬ idMin + n < idMin := by omega
        have e2 : n % relBase = n := Nat.mod_eq_of_lt (by omega)
        have e3 : n / relBase = 0 := Nat.div_eq_of_lt (by omega)
        rw [if_neg e1]
        simp only [Nat.add_sub_cancel_left, e2, e3, hget, if_true]
      · have hid2 : (s.ctx k).requestId = h ∧ h ≠ 0 ∧ h ≤ s.nalloc := hI2.req_id k h hq
        refine ⟨?_, (hM.mi.wir k h hq hcw).1, ?_⟩
        · have := hI.ctx_map k (by rw [hid2.1]; exact hid2.2.1)
          rw [hid2.1] at this; exact this
        · cases hp' : (s.ctx k).repMsg with
          | none => rfl
          | some _ => have := (hM.mi.rep k (by rw [hp']; rfl)).1; rw [hq] at this; cases this
  · rintro ⟨iid, hres, hmap, hsa, hrep⟩
    obtain ⟨hrid, _, hne⟩ := hI.map_ctx iid k hmap
    have hq : (s.ctx k).reqMsg = some iid := by
      have := hM.mi.rid k (by rw [hrid]; exact hne)
      rw [hrid] at this; exact this
    have hcw : (s.ctx k).wired = true := hI.wired k (by simp) (by rw [hrid]; exact hne) hsa
    obtain ⟨r, hr, hrq⟩ := h0.req iid hq
    obtain ⟨n, hn, hid⟩ := hrq.id hcw
    have hin : iid ∈ s.alias := (hM.mi.wir k iid hq hcw).2.1
    -- the reply names the request by its own wire name
    have hres0 := hres
    have hbt : b.take 4 = wireHdr n := by
      unfold resolveWire at hres
      split at hres
      · cases hres
      · rename_i hge
        split at hres
        · cases hres
        · rename_i x hx
          dsimp only at hres
          by_cases hd : (beDecode (b.take 4) - idMin) / relBase = 0
          · simp only [hd, if_true, Option.some.injEq] at hres
            subst hres
            have hi := idxOf_getElem hM.mi.al_nodup hx
            rw [hi] at hn
            simp only [Option.some.injEq] at hn
            have hlt : beDecode (b.take 4) - idMin < relBase := by
              have := Nat.div_add_mod (beDecode (b.take 4) - idMin) relBase
              rw [hd] at this
              have hm := Nat.mod_lt (beDecode (b.take 4) - idMin) (show 0 < relBase by decide)
              omega
            have hmod : (beDecode (b.take 4) - idMin) % relBase = beDecode (b.take 4) - idMin := Nat.mod_eq_of_lt hlt
            rw [hmod] at hn
            unfold wireHdr
            rw [← hn]
            have : idMin + (beDecode (b.take 4) - idMin) = beDecode (b.take 4) := by omega
            rw [this, beEncode_beDecode4 _ hlen]
          · exact absurd hin (hf iid hres0 hd)
    unfold replyPred
    simp [hr, hrq.wired, hcw, hrq.ans, hid, hbt]

/-! ### req0_recv_cb on the judged fields -/

def acceptV (v : MV) (k : Nat) (c' : Ctx) : MV :=
  { v with sendQueue := v.sendQueue.erase k, pipe := eraseCtxs v.pipe k, ctx := upd v.ctx k c' }

theorem mv_acceptPrep (s : State) (k : Nat) :
    mv (acceptPrep s k) = { mv s with sendQueue := s.sendQueue.erase k, pipe := eraseCtxs s.pipe k } := by
  show _ = mv { s with sendQueue := s.sendQueue.erase k, pipe := eraseCtxs s.pipe k }
  unfold acceptPrep ctxRelease flag
  simp only [setMsg]
  mv_brute

theorem recvCb_accept (s : State) (iid k : Nat) (body : Bytes) (h : Accepts s iid k) :
    (match (s.ctx k).recvAio with
      | some ua => mv (recvCb s (some iid) body).1 =
          acceptV (mv s) k { s.ctx k with requestId := 0, reqMsg := none, recvAio := none } ∧
          (recvCb s (some iid) body).2 = [Out.done ua.aio 0 (some ⟨[], body⟩) false]
      | none => mv (recvCb s (some iid) body).1 =
          acceptV (mv s) k { s.ctx k with requestId := 0, reqMsg := none, repMsg := some body } ∧
          (recvCb s (some iid) body).2 = []) := by
  obtain ⟨h1, h2, h3⟩ := h
  unfold recvCb
  simp only [h1, h2, h3, Option.isSome_none, Bool.or_self, Bool.false_eq_true, if_false]
  have hp := mv_acceptPrep s k
  cases hr : (s.ctx k).recvAio with
  | some ua =>
    refine ⟨?_, rfl⟩
    have h := hp
    simp only [mv, MV.mk.injEq] at h
    obtain ⟨g1, g2, g3, g4, g5, g6, g7, g8, g9, g10, g11, g12, g13, g14, g15, g16⟩ := h
    simp only [mv, acceptV, setCtx, MV.mk.injEq]
    exact ⟨by rw [g1], g2, g3, g4, g5, g6, g7, g8, g9, g10, g11, g12, g13, g14, g15, g16⟩
  | none =>
    refine ⟨?_, rfl⟩
    have h := hp
    simp only [mv, MV.mk.injEq] at h
    obtain ⟨g1, g2, g3, g4, g5, g6, g7, g8, g9, g10, g11, g12, g13, g14, g15, g16⟩ := h
    dsimp only
    split <;> (simp only [mv, acceptV, setCtx, MV.mk.injEq];
               exact ⟨by rw [g1], g2, g3, g4, g5, g6, g7, g8, g9, g10, g11, g12, g13, g14, g15, g16⟩)

theorem recvCb_reject (s : State) (iid? : Option Nat) (body : Bytes) (h : ∀ iid k, iid? = some iid → ¬ Accepts s iid k) :
    recvCb s iid? body = (s, []) := by
  unfold recvCb
  split
  · rfl
  · rename_i iid
    split
    · rfl
    · rename_i k hk
      dsimp only
      split
      · rfl
      · rename_i hc
        exfalso
        refine h iid k rfl ⟨hk, ?_, ?_⟩
        · cases hx : (s.ctx k).sendAio <;> simp_all
        · cases hx : (s.ctx k).repMsg <;> simp_all

theorem onReply2_closed (j : J) (b : Bytes) (outs : List Out) : (onReply2 j b outs).1.closed = j.closed := by
  unfold onReply2
  split
  · rfl
  · split
    · rfl
    · dsimp only
      split
      · split <;> simp only [setC_closed, fail04_closed]
      · rfl

/-- the judge's step for a reply: the model prints `rv 0`, `parm p` and at most one completion with a message -/
theorem step_reply (j : J) (p : Nat) (b : Bytes) (o : List Out) (hc : j.closed = false)
    (ho : o = [] ∨ ∃ a m, o = [.done a 0 (some m) false]) :
    ReqSpec.step j (.recvDone p (.ok b)) ([.rv 0, .parm p] ++ o) =
      quiescent (phDone (.recvDone p (.ok b)) none (onReply2 j b ([.rv 0, .parm p] ++ o)).2 ([.rv 0, .parm p] ++ o)
        (onReply2 j b ([.rv 0, .parm p] ++ o)).1) := by
  rw [step_eq]
  have hcl := onReply2_closed j b ([.rv 0, .parm p] ++ o)
  rcases ho with rfl | ⟨a, m, rfl⟩
  · simp only [List.append_nil, notExecuted, List.any_cons, List.any_nil, Bool.or_false, Bool.false_eq_true, if_false, hc,
      evAioOf, phA, List.foldl_cons, List.foldl_nil, phEv, List.contains_cons, BEq.rfl, Bool.true_or, if_true,
      onReply_cut, phRest] at hcl ⊢
    simp only [hcl, hc, phPipe, phClosed, phReset, psF, phPoll, phOver, phBlocked, List.foldl_cons, List.foldl_nil,
      List.any_cons, List.any_nil, Bool.or_false, Bool.false_eq_true, if_false]
  · simp only [List.cons_append, List.nil_append, notExecuted, List.any_cons, List.any_nil, Bool.or_false, Bool.false_eq_true,
      if_false, hc, evAioOf, phA, List.foldl_cons, List.foldl_nil, phEv, List.contains_cons, BEq.rfl, Bool.true_or, if_true,
      onReply_cut, phRest] at hcl ⊢
    simp only [hcl, hc, phPipe, phClosed, phReset, psF, phPoll, phOver, phBlocked, List.foldl_cons, List.foldl_nil,
      List.any_cons, List.any_nil, Bool.or_false, Bool.false_eq_true, if_false]

theorem dr_of_mv {s s' : State} (e1 : s'.sendQueue = s.sendQueue ∨ ∃ k, s'.sendQueue = s.sendQueue.erase k)
    (e2 : s'.readyPipes = s.readyPipes) (hD : Dr s) : Dr s' := by
  rcases hD with a | a
  · left
    rcases e1 with e | ⟨k, e⟩
    · rw [e, a]
    · rw [e, a]; rfl
  · right; rw [e2, a]

/-- a reply of at least four bytes arrives on a live, armed pipe -/
theorem sim_reply {rest : List Ev} {s : State} {j : J} (p : Nat) (b : Bytes) (hM : R rest s j)
    (hI : Inv s) (hI2 : Inv2 none none s) (hD : Dr s) (hb : 4 ≤ b.length) (hf : relFresh s b) :
    R rest (recvCb s (resolveWire s (beDecode (b.take 4))) (b.drop 4)).1
      (ReqSpec.step j (.recvDone p (.ok b)) ([.rv 0, .parm p] ++ (recvCb s (resolveWire s (beDecode (b.take 4))) (b.drop 4)).2)) ∧
    (ReqSpec.step j (.recvDone p (.ok b)) ([.rv 0, .parm p] ++ (recvCb s (resolveWire s (beDecode (b.take 4))) (b.drop 4)).2)).err04 = j.err04 ∧
    (ReqSpec.step j (.recvDone p (.ok b)) ([.rv 0, .parm p] ++ (recvCb s (resolveWire s (beDecode (b.take 4))) (b.drop 4)).2)).err12 = j.err12 ∧
    Dr (recvCb s (resolveWire s (beDecode (b.take 4))) (b.drop 4)).1 := by
  have hiff := reply_pred_iff hM hI hI2 b hb hf
  have hnot4 : ¬ b.length < 4 := by omega
  by_cases hacc : ∃ iid k, resolveWire s (beDecode (b.take 4)) = some iid ∧ Accepts s iid k
  · obtain ⟨iid, k, hres, hA⟩ := hacc
    have hA' := hA
    obtain ⟨hmap, hsa, hrep⟩ := hA
    obtain ⟨hrid, _, hne⟩ := hI.map_ctx iid k hmap
    have hq : (s.ctx k).reqMsg = some iid := by
      have := hM.mi.rid k (by rw [hrid]; exact hne)
      rw [hrid] at this; exact this
    have hkeys : k ∈ keys := hM.mi.key (by rw [hq]; rfl)
    have hlive : (s.ctx k).live = true := by
      cases hl : (s.ctx k).live with
      | true => rfl
      | false => have := (hM.mi.dead k hl).2.2.1; rw [hq] at this; cases this
    have hcr : (s.ctx k).connReset = false := by
      cases hc : (s.ctx k).connReset with
      | false => rfl
      | true => have := (hM.mi.creset k hc).1; rw [hq] at this; cases this
    have hk8 : k ≤ nCtxSlots := by rw [keys_mem] at hkeys; unfold nCtxSlots; omega
    have h0 := hM.rc k (by simp)
    obtain ⟨r, hr, hrq⟩ := h0.req iid hq
    have hcw : (s.ctx k).wired = true := hI.wired k (by simp) (by rw [hrid]; exact hne) hsa
    have hfind : keys.find? (replyPred j (b.take 4)) = some k := by
      refine find_unique _ k hkeys ((hiff k).2 ⟨iid, hres, hA'⟩) ?_
      intro k' _ hp'
      obtain ⟨iid', hres', hmap', _, _⟩ := (hiff k').1 hp'
      rw [hres] at hres'; cases hres'
      rw [hmap] at hmap'; cases hmap'; rfl
    have hR1 := wipe_M k true false hM hI2.pc_nodup (Or.inl rfl) (fun h => by cases h)
    have hquiet : QuietCtx ((wipeSt s k true false).ctx k) := by
      rw [wipeSt_ctx_same]; exact ⟨rfl, by simp [wipeCtx], rfl⟩
    rw [hres]
    have hacc := recvCb_accept s iid k (b.drop 4) hA'
    cases hra : (s.ctx k).recvAio with
    | some ua =>
      rw [hra] at hacc
      obtain ⟨e1, e2⟩ := hacc
      rw [e2, step_reply j p b _ hM.g.closed (Or.inr ⟨_, _, rfl⟩)]
      have hrw : (j.ctx k).recvWait = some ua.aio := by rw [h0.rw, hra]; rfl
      have eO : onReply2 j b ([Out.rv 0, Out.parm p] ++ [Out.done ua.aio 0 (some ⟨[], b.drop 4⟩) false]) =
          (setC j k { j.ctx k with req := none, recvWait := none }, [ua.aio]) := by
        unfold onReply2
        rw [if_neg hnot4, hfind]
        simp [hrw, hasDone]
      rw [eO]
      have eD : phDone (.recvDone p (.ok b)) none [ua.aio] ([Out.rv 0, Out.parm p] ++ [Out.done ua.aio 0 (some ⟨[], b.drop 4⟩) false])
          (setC j k { j.ctx k with req := none, recvWait := none }) = setC j k { j.ctx k with req := none, recvWait := none } := by
        simp [phDone]
      rw [eD]
      have hfin0 := rest_R k { s.ctx k with requestId := 0, reqMsg := none, recvAio := none }
        { j.ctx k with req := none, recvWait := none } hR1 hquiet
        ⟨hsa, rfl, rfl, fun _ => hrep, hcr, rfl⟩ (fun _ => hk8) h0.opened h0.retry
        ⟨by rw [h0.stash], rfl, by rw [h0.latched, hcr]⟩ (fun _ => rfl) (fun a => by rw [hrep] at a; cases a)
      unfold wipeJ at hfin0
      rw [setC_setC] at hfin0
      have hfin : R rest (recvCb s (some iid) (b.drop 4)).1 (setC j k { j.ctx k with req := none, recvWait := none }) := by
        refine hfin0.congr ?_
        rw [e1]
        simp only [mv, acceptV, setCtx, wipeSt, upd_upd, MV.mk.injEq, and_self, and_true, true_and]
      have hD' : Dr (recvCb s (some iid) (b.drop 4)).1 :=
        dr_of_mv (Or.inr ⟨k, congrArg MV.sendQueue e1⟩) (congrArg MV.readyPipes e1) hD
      rw [quiescent_R hfin hD']
      exact ⟨hfin, rfl, rfl, hD'⟩
    | none =>
      rw [hra] at hacc
      obtain ⟨e1, e2⟩ := hacc
      rw [e2, step_reply j p b _ hM.g.closed (Or.inl rfl)]
      have hrw : (j.ctx k).recvWait = none := by rw [h0.rw, hra]; rfl
      have eO : onReply2 j b ([Out.rv 0, Out.parm p] ++ []) =
          (setC j k { j.ctx k with req := (j.ctx k).req.map fun r => { r with answered := true, needTx := false },
                                   stash := some (b.drop 4) }, []) := by
        unfold onReply2
        rw [if_neg hnot4, hfind]
        simp [hrw]
      rw [eO]
      have eD : ∀ jx, phDone (.recvDone p (.ok b)) none [] ([Out.rv 0, Out.parm p] ++ []) jx = jx := by
        intro jx; simp [phDone]
      rw [eD]
      have hrest : RestCtx { s.ctx k with requestId := 0, reqMsg := none, repMsg := some (b.drop 4) } := by
        refine ⟨hsa, hra, rfl, fun h => ?_, hcr, rfl⟩
        have h' : (s.ctx k).live = false := h
        rw [hlive] at h'; cases h'
      have hfin0 := rest_R k { s.ctx k with requestId := 0, reqMsg := none, repMsg := some (b.drop 4) }
        { j.ctx k with req := (j.ctx k).req.map fun r => { r with answered := true, needTx := false }, stash := some (b.drop 4) }
        hR1 hquiet hrest (fun _ => hk8) h0.opened h0.retry
        ⟨rfl, hrw, by rw [h0.latched, hcr]⟩ (fun a => by cases a)
        (fun _ => ⟨{ r with answered := true, needTx := false }, by show Option.map _ _ = _; rw [hr]; rfl, rfl,
          by show r.wired = true; rw [hrq.wired]; exact hcw⟩)
      unfold wipeJ at hfin0
      rw [setC_setC] at hfin0
      have hfin : R rest (recvCb s (some iid) (b.drop 4)).1
          (setC j k { j.ctx k with req := (j.ctx k).req.map fun r => { r with answered := true, needTx := false },
                                   stash := some (b.drop 4) }) := by
        refine hfin0.congr ?_
        rw [e1]
        simp only [mv, acceptV, setCtx, wipeSt, upd_upd, MV.mk.injEq, and_self, and_true, true_and]
      have hD' : Dr (recvCb s (some iid) (b.drop 4)).1 :=
        dr_of_mv (Or.inr ⟨k, congrArg MV.sendQueue e1⟩) (congrArg MV.readyPipes e1) hD
      rw [quiescent_R hfin hD']
      exact ⟨hfin, rfl, rfl, hD'⟩
  · have hrej := recvCb_reject s (resolveWire s (beDecode (b.take 4))) (b.drop 4)
      (fun iid k e hA => hacc ⟨iid, k, e, hA⟩)
    rw [hrej, step_reply j p b _ hM.g.closed (Or.inl rfl)]
    have hfind : keys.find? (replyPred j (b.take 4)) = none := by
      rw [List.find?_eq_none]
      intro k _ hp'
      obtain ⟨iid, hres, hA⟩ := (hiff k).1 hp'
      exact hacc ⟨iid, k, hres, hA⟩
    have eO : onReply2 j b ([Out.rv 0, Out.parm p] ++ []) = (j, []) := by
      unfold onReply2
      rw [if_neg hnot4, hfind]
    rw [eO]
    have eD : phDone (.recvDone p (.ok b)) none [] ([Out.rv 0, Out.parm p] ++ []) j = j := by simp [phDone]
    rw [eD, quiescent_R hM hD]
    exact ⟨hM, rfl, rfl, hD⟩

end Nng.ReqJ
