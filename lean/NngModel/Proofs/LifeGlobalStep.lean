/- every op of the lifecycle model preserves the global invariants (C14 / C10) -/
import NngModel.Proofs.LifeGlobal
import NngModel.Spec.Life
import NngModel.Generated.C14
namespace Nng.LifeModel
open Nng.Life Nng.Generated

/-- the cross-object safety invariants that hold between the ops -/
structure Gs (st : State) : Prop where
  w : W st
  pipesOpen : PipesOpen st
  epsOpen : EpsOpen st
  ctxsOpen : CtxsOpen st

def AllLive (st : State) : Prop := ∀ e ∈ st.eps, Live e

theorem AllLive.where {st : State} (h : AllLive st) (P : Nat → Prop) : LiveWhere P st := fun e he _ => h e he
theorem LiveWhere.all {st : State} (h : LiveWhere (fun _ => True) st) : AllLive st := fun e he => h e he trivial

theorem Gs_frame {st st' : State} (f : Frame st st') (hw : W st') (h : Gs st) : Gs st' :=
  ⟨hw, f.pipesOpen h.pipesOpen, f.epsOpen h.epsOpen, f.ctxsOpen h.ctxsOpen⟩

theorem AllLive_frame {st st' : State} (f : Frame st st') (h : AllLive st) : AllLive st' :=
  (f.liveWhere _ (h.where fun _ => True)).all

theorem Gs_of {st st' : State} (hp : st'.pipes = st.pipes) (he : st'.eps = st.eps) (hn : st'.now = st.now)
    (hs : ∀ s, sockOpen (st.socks s) → sockOpen (st'.socks s)) (hc : CtxsOpen st') (h : Gs st) : Gs st' := by
  refine ⟨W_congr hp he hn h.w, ?_, ?_, hc⟩
  · unfold PipesOpen; rw [hp, he]; exact h.pipesOpen
  · unfold EpsOpen; rw [he]; intro e he' hc'; exact hs _ (h.epsOpen e he' hc')

theorem Gs_mapEps (st : State) (g : Ep → Ep) (h : Gs st) (hidx : ∀ x, (g x).idx = x.idx) (hsock : ∀ x, (g x).sock = x.sock)
    (hdial : ∀ x, (g x).dialer = x.dialer) (hdp : ∀ x, (g x).dPipe = x.dPipe) (hcl : ∀ x, (g x).closed = x.closed)
    (hinv : ∀ x ∈ st.eps, EpInv (g x) ∧ EpTime st.now (g x)) : Gs { st with eps := st.eps.map g } := by
  refine ⟨W_mapEps st g h.w hidx hsock hdial hdp hinv, ?_, ?_, h.ctxsOpen⟩
  · intro p hp hl e' he' hi
    rcases List.mem_map.mp he' with ⟨e, he, rfl⟩
    rw [hidx] at hi; rw [hcl]
    exact h.pipesOpen p hp hl e he hi
  · intro e' he' hc
    rcases List.mem_map.mp he' with ⟨e, he, rfl⟩
    rw [hcl] at hc
    show sockOpen (st.socks (g e).sock)
    rw [hsock]
    exact h.epsOpen e he hc

theorem Gs_setEp (st : State) (ei : Nat) (f : Ep → Ep) (h : Gs st) (hidx : ∀ x, (f x).idx = x.idx)
    (hsock : ∀ x, (f x).sock = x.sock) (hdial : ∀ x, (f x).dialer = x.dialer) (hdp : ∀ x, (f x).dPipe = x.dPipe)
    (hcl : ∀ x, (f x).closed = x.closed)
    (hinv : ∀ x ∈ st.eps, x.idx = ei → EpInv (f x) ∧ EpTime st.now (f x)) : Gs (setEp st ei f) := by
  apply Gs_mapEps st (fun x => if x.idx == ei then f x else x) h
  · intro x; split; exact hidx x; rfl
  · intro x; split; exact hsock x; rfl
  · intro x; split; exact hdial x; rfl
  · intro x; split; exact hdp x; rfl
  · intro x; split; exact hcl x; rfl
  · intro x hx; split
    · rename_i hc; exact hinv x hx (by simpa using hc)
    · exact h.w.epInv x hx

theorem AllLive_setEp (st : State) (ei : Nat) (f : Ep → Ep) (h : AllLive st)
    (hl : ∀ x ∈ st.eps, x.idx = ei → Live (f x)) : AllLive (setEp st ei f) := by
  intro x' hx'
  rcases mem_setEp hx' with ⟨x, hx, ⟨hi, rfl⟩ | ⟨_, rfl⟩⟩
  · exact hl x hx hi
  · exact h x' hx

theorem setEp_setEp (st : State) (ei : Nat) (f g : Ep → Ep) (hf : ∀ x, (f x).idx = x.idx) :
    setEp (setEp st ei f) ei g = setEp st ei (fun x => g (f x)) := by
  unfold setEp
  simp only [List.map_map]
  congr 1
  apply List.map_congr_left
  intro x _
  simp only [Function.comp]
  by_cases hc : (x.idx == ei) = true
  · simp only [hc, if_true, hf]
  · have hc' : (x.idx == ei) = false := by simpa using hc
    simp [hc']

/-- the pair of invariants -/
structure G (st : State) : Prop where
  s : Gs st
  live : AllLive st

theorem killPipe_G (st : State) (i : Nat) (h : G st) : G (killPipe st i).1 :=
  ⟨Gs_frame (killPipe_frame st i) (killPipe_W st i h.s.w) h.s, AllLive_frame (killPipe_frame st i) h.live⟩

theorem killPipes_G (st : State) (is : List Nat) (h : G st) : G (killPipes st is).1 :=
  ⟨Gs_frame (killPipes_frame st is) (killPipes_W st is h.s.w) h.s, AllLive_frame (killPipes_frame st is) h.live⟩

/-! ### nni_dialer_close / nni_listener_close -/

/-- the endpoint part of a close -/
def closeF (x : Ep) : Ep := { x with closed := true, armed := false, userAio := false, timer := none, cool := none }

theorem closeF_inv (x : Ep) (h : EpInv x) (now : Nat) : EpInv (closeF x) ∧ EpTime now (closeF x) := by
  refine ⟨?_, fun t0 b hb => (by cases hb), fun d hd => (by cases hd)⟩
  constructor
  · intro h'; cases h'
  · intro t ht; cases ht
  · exact h.dpipe_dialer
  · intro d hd; cases hd
  · intro _; exact ⟨rfl, rfl, rfl, rfl⟩
  · intro _; rfl
  · exact h.caps
  · intro t0 b hb; cases hb

/-- endpoints only ever get closed, and keep their index and socket -/
def EpsMono (st st' : State) : Prop :=
  ∀ e' ∈ st'.eps, ∃ x ∈ st.eps, x.idx = e'.idx ∧ x.sock = e'.sock ∧ (x.closed = true → e'.closed = true)

theorem EpsMono.refl (st : State) : EpsMono st st := fun e he => ⟨e, he, rfl, rfl, id⟩
theorem EpsMono.trans {a b c : State} (h1 : EpsMono a b) (h2 : EpsMono b c) : EpsMono a c := by
  intro e' he'
  obtain ⟨y, hy, h3, h4, h5⟩ := h2 e' he'
  obtain ⟨x, hx, h6, h7, h8⟩ := h1 y hy
  exact ⟨x, hx, h6.trans h3, h7.trans h4, fun hc => h5 (h8 hc)⟩

theorem Frame.epsMono {st st' : State} (f : Frame st st') : EpsMono st st' := by
  intro e' he'
  rcases f.2.2.2.2.1 e' he' with he | ⟨e0, he0, i, _, _, rfl⟩
  · exact ⟨e', he, rfl, rfl, id⟩
  · exact ⟨e0, he0, rfl, rfl, id⟩

theorem closeEp_spec (st : State) (e : Ep) (h : G st) :
    G (closeEp st e).1 ∧ EpsMono st (closeEp st e).1 ∧ (∀ e' ∈ (closeEp st e).1.eps, e'.idx = e.idx → e'.closed = true) ∧
    (∀ s, sockOpen (st.socks s) → sockOpen ((closeEp st e).1.socks s)) ∧ (closeEp st e).1.ctxs = st.ctxs := by
  have hw1 : W (setEp st e.idx closeF) :=
    setEp_W st e.idx closeF h.s.w (fun _ => rfl) (fun _ => rfl) (fun _ => rfl) (fun _ => rfl)
      (fun x hx _ => closeF_inv x (h.s.w.epInv x hx).1 st.now)
  have hfr := killPipes_frame (setEp st e.idx closeF) (liveOf (setEp st e.idx closeF) fun p => p.ep == e.idx)
  have hw2 := killPipes_W (setEp st e.idx closeF) (liveOf (setEp st e.idx closeF) fun p => p.ep == e.idx) hw1
  have hreap := killPipes_reaped (setEp st e.idx closeF) (liveOf (setEp st e.idx closeF) fun p => p.ep == e.idx)
  have hmono1 : EpsMono st (setEp st e.idx closeF) := by
    intro x' hx'
    rcases mem_setEp hx' with ⟨x, hx, ⟨_, rfl⟩ | ⟨_, rfl⟩⟩
    · exact ⟨x, hx, rfl, rfl, fun _ => rfl⟩
    · exact ⟨x', hx, rfl, rfl, id⟩
  have heq : (closeEp st e).1 =
      (killPipes (setEp st e.idx closeF) (liveOf (setEp st e.idx closeF) fun p => p.ep == e.idx)).1 := rfl
  rw [heq]
  refine ⟨⟨⟨hw2, ?_, ?_, ?_⟩, ?_⟩, hmono1.trans hfr.epsMono, ?_, ?_, hfr.2.1⟩
  · -- PipesOpen
    intro p hp hl e' he' hi
    have hp1 : p ∈ st.pipes := hfr.2.2.2.2.2 p hp hl
    by_cases hpe : p.ep = e.idx
    · have := hreap p.idx (mem_liveOf (st := setEp st e.idx closeF) hp1 (by simp [hpe]) hl) p hp rfl
      rw [hl] at this; cases this
    · have key : ∀ e1 ∈ (setEp st e.idx closeF).eps, e1.idx = p.ep → e1.closed = false := by
        intro e1 he1 hi1
        rcases mem_setEp he1 with ⟨x, hx, ⟨hxi, rfl⟩ | ⟨_, rfl⟩⟩
        · exact absurd (hi1.symm.trans hxi) hpe
        · exact h.s.pipesOpen p hp1 hl e1 hx hi1
      rcases hfr.2.2.2.2.1 e' he' with he | ⟨e0, he0, i, _, _, rfl⟩
      · exact key e' he hi
      · exact key e0 he0 hi
  · -- EpsOpen
    apply hfr.epsOpen
    intro e1 he1 hc
    rcases mem_setEp he1 with ⟨x, hx, ⟨_, rfl⟩ | ⟨_, rfl⟩⟩
    · cases hc
    · exact h.s.epsOpen e1 hx hc
  · exact hfr.ctxsOpen (st := setEp st e.idx closeF) h.s.ctxsOpen
  · apply AllLive_frame hfr
    apply AllLive_setEp st e.idx closeF h.live
    intro x _ _
    exact ⟨fun _ hc => (by cases hc), fun _ hc => (by cases hc)⟩
  · intro e' he' hi
    rcases hfr.2.2.2.2.1 e' he' with he | ⟨e0, he0, i, _, _, rfl⟩
    · rcases mem_setEp he with ⟨x, hx, ⟨_, rfl⟩ | ⟨hne, rfl⟩⟩
      · rfl
      · exact absurd hi hne
    · rcases mem_setEp he0 with ⟨x, hx, ⟨_, rfl⟩ | ⟨hne, rfl⟩⟩
      · rfl
      · exact absurd hi hne
  · intro s hs
    unfold sockOpen
    rw [(hfr.2.2.2.1 s).1, (hfr.2.2.2.1 s).2]
    exact hs

end Nng.LifeModel

namespace Nng.LifeModel
open Nng.Life Nng.Generated

theorem closeEps_aux (es : List Ep) (st : State) (outs : List LOut) (h : G st) :
    let r := (es.foldl (fun (acc : R) e => let r := closeEp acc.1 e; (r.1, acc.2 ++ r.2)) (st, outs)).1
    G r ∧ EpsMono st r ∧ (∀ e ∈ es, ∀ e' ∈ r.eps, e'.idx = e.idx → e'.closed = true) ∧
    (∀ s, sockOpen (st.socks s) → sockOpen (r.socks s)) ∧ r.ctxs = st.ctxs := by
  induction es generalizing st outs with
  | nil => exact ⟨h, EpsMono.refl st, fun e he => (by cases he), fun _ hs => hs, rfl⟩
  | cons e rest ih =>
    obtain ⟨g1, m1, c1, s1, x1⟩ := closeEp_spec st e h
    have ih' := ih (closeEp st e).1 (outs ++ (closeEp st e).2) g1
    simp only [List.foldl_cons] at ih' ⊢
    obtain ⟨g2, m2, c2, s2, x2⟩ := ih'
    refine ⟨g2, m1.trans m2, ?_, fun s hs => s2 s (s1 s hs), x2.trans x1⟩
    intro e0 he0 e' he' hi
    rcases List.mem_cons.mp he0 with rfl | he0
    · obtain ⟨y, hy, h3, _, h5⟩ := m2 e' he'
      exact h5 (c1 y hy (h3.trans hi))
    · exact c2 e0 he0 e' he' hi

theorem closeEps_spec (st : State) (es : List Ep) (h : G st) :
    G (closeEps st es).1 ∧ EpsMono st (closeEps st es).1 ∧
    (∀ e ∈ es, ∀ e' ∈ (closeEps st es).1.eps, e'.idx = e.idx → e'.closed = true) ∧
    (∀ s, sockOpen (st.socks s) → sockOpen ((closeEps st es).1.socks s)) ∧ (closeEps st es).1.ctxs = st.ctxs :=
  closeEps_aux es st [] h

/-- the state after the endpoints and pipes of socket `s` were shut down -/
def closeMid (st : State) (s : Nat) : State :=
  (killPipes (closeEps st (st.eps.filter fun e => e.sock == s && !e.closed)).1
    (liveOf (closeEps st (st.eps.filter fun e => e.sock == s && !e.closed)).1 fun p => p.sock == s)).1

theorem closeMid_spec (st : State) (s : Nat) (h : G st) :
    G (closeMid st s) ∧ (∀ e ∈ (closeMid st s).eps, e.sock = s → e.closed = true) ∧
    (∀ k, sockOpen (st.socks k) → sockOpen ((closeMid st s).socks k)) ∧ (closeMid st s).ctxs = st.ctxs := by
  obtain ⟨g1, m1, c1, s1, x1⟩ := closeEps_spec st (st.eps.filter fun e => e.sock == s && !e.closed) h
  have hfr := killPipes_frame (closeEps st (st.eps.filter fun e => e.sock == s && !e.closed)).1
    (liveOf (closeEps st (st.eps.filter fun e => e.sock == s && !e.closed)).1 fun p => p.sock == s)
  refine ⟨killPipes_G _ _ g1, ?_, ?_, hfr.2.1.trans x1⟩
  · intro e he hs
    obtain ⟨y, hy, h3, h4, h5⟩ := hfr.epsMono e he
    obtain ⟨x, hx, h6, h7, h8⟩ := m1 y hy
    cases hxc : x.closed with
    | true => exact h5 (h8 hxc)
    | false =>
      apply h5
      apply c1 x _ y hy h6.symm
      apply List.mem_filter.mpr
      refine ⟨hx, ?_⟩
      have : x.sock = s := (h7.trans h4).trans hs
      simp [this, hxc]
  · intro k hk
    have := s1 k hk
    unfold closeMid sockOpen
    rw [(hfr.2.2.2.1 k).1, (hfr.2.2.2.1 k).2]
    exact this

theorem opClose_fields (st : State) (s : Nat) (ho : (st.socks s).opened = true) (hc : (st.socks s).closed = false) :
    (opClose st s).1.pipes = (closeMid st s).pipes ∧ (opClose st s).1.eps = (closeMid st s).eps ∧
    (opClose st s).1.now = (closeMid st s).now ∧
    (opClose st s).1.ctxs = (closeMid st s).ctxs.map (fun c => if c.sock == s then { c with closed := true } else c) ∧
    (∀ k, (opClose st s).1.socks k = if k = s then { (closeMid st s).socks k with closed := true } else (closeMid st s).socks k) := by
  unfold opClose closeMid
  simp only [ho, hc, Bool.not_true, Bool.or_false, Bool.false_eq_true, if_false]
  exact ⟨rfl, rfl, rfl, rfl, fun _ => rfl⟩

theorem opClose_G (st : State) (s : Nat) (h : G st) : G (opClose st s).1 := by
  by_cases hopen : (st.socks s).opened = true ∧ (st.socks s).closed = false
  · obtain ⟨f1, f2, f3, f4, f5⟩ := opClose_fields st s hopen.1 hopen.2
    obtain ⟨g, hcl, hso, hctx⟩ := closeMid_spec st s h
    refine ⟨⟨W_congr f1 f2 f3 g.s.w, ?_, ?_, ?_⟩, ?_⟩
    · unfold PipesOpen; rw [f1, f2]; exact g.s.pipesOpen
    · unfold EpsOpen; rw [f2]
      intro e he hc
      rw [f5]
      have hne : e.sock ≠ s := by
        intro hs
        have := hcl e he hs
        rw [hc] at this; cases this
      rw [if_neg hne]
      exact g.s.epsOpen e he hc
    · unfold CtxsOpen; rw [f4]
      intro c' hc' hcl'
      rcases mem_map_if hc' with ⟨c, hc, ⟨_, heq⟩ | ⟨hne, heq⟩⟩
      · rw [heq] at hcl'; cases hcl'
      · rw [heq] at hcl' ⊢
        rw [f5]
        have hne' : c.sock ≠ s := by simpa using hne
        rw [if_neg hne']
        exact g.s.ctxsOpen c hc hcl'
    · unfold AllLive; rw [f2]; exact g.live
  · have : (opClose st s).1 = st := by
      unfold opClose
      have hb : (!(st.socks s).opened || (st.socks s).closed) = true := by
        cases h1 : (st.socks s).opened <;> cases h2 : (st.socks s).closed <;> simp_all
      simp only [hb, if_true]
    rw [this]; exact h

/-- after `close` the socket is marked closed -/
theorem opClose_closed (st : State) (s : Nat) (ho : (st.socks s).opened = true) (hc : (st.socks s).closed = false) :
    ((opClose st s).1.socks s).closed = true := by
  rw [(opClose_fields st s ho hc).2.2.2.2 s]
  simp

/-! ### dialer_connect_cb / listener_accept_cb -/

theorem unarm_inv (e : Ep) (h : EpInv e) : EpInv { e with armed := false, userAio := false } := by
  constructor
  · intro h'; cases h'
  · exact h.timer_excl
  · exact h.dpipe_dialer
  · exact h.cool_listener
  · intro hc; have := h.closed_idle hc; exact ⟨rfl, this.2.1, this.2.2.1, rfl⟩
  · intro _; rfl
  · exact h.caps
  · exact h.timer_cap

theorem stop_inv (e : Ep) (h : EpInv e) : EpInv { e with stopped := true } := by
  constructor
  · exact h.armed_excl
  · exact h.timer_excl
  · exact h.dpipe_dialer
  · exact h.cool_listener
  · exact h.closed_idle
  · exact h.bg_user
  · exact h.caps
  · exact h.timer_cap

theorem connDialer_G (st : State) (e : Ep) (r : Except Nat Nat) (h : G st) (he : e ∈ st.eps) (ha : e.armed = true)
    (hd : e.dialer = true) : G (connDialer st e r).1 := by
  have hei := (h.s.w.epInv e he).1
  have het := (h.s.w.epInv e he).2
  have hex := hei.armed_excl ha
  have hopen := hei.armed_open ha
  have huniq : ∀ x ∈ st.eps, x.idx = e.idx → x = e := fun x hx hi => h.s.w.idxE.unique hx he hi
  cases r with
  | ok peer =>
    have heq : (connDialer st e (.ok peer)).1 =
        (startPipe (setEp st e.idx (dialOk st.pipes.length)) { idx := st.pipes.length, ep := e.idx, sock := e.sock } peer).1 := rfl
    rw [heq]
    obtain ⟨q, hqi, hqe, hqs, hqr, hfr, hw⟩ :=
      startPipe_shape (setEp st e.idx (dialOk st.pipes.length)) { idx := st.pipes.length, ep := e.idx, sock := e.sock } peer rfl
    have hwm := dial_ok_W st e q h.s.w he ha hd hqi hqe hqs hqr
    have hmidS : Gs { setEp st e.idx (dialOk st.pipes.length) with pipes := st.pipes ++ [q] } := by
      refine ⟨hwm, ?_, ?_, h.s.ctxsOpen⟩
      · intro p hp hl x' hx' hi
        rcases mem_setEp hx' with ⟨x, hx, ⟨hi2, rfl⟩ | ⟨hne, rfl⟩⟩
        · rw [huniq x hx hi2]; exact hopen
        · rcases List.mem_append.mp (show p ∈ st.pipes ++ [q] from hp) with hp1 | hp1
          · exact h.s.pipesOpen p hp1 hl x' hx hi
          · rw [List.mem_singleton.mp hp1, hqe] at hi; exact absurd hi hne
      · intro x' hx' hc
        rcases mem_setEp hx' with ⟨x, hx, ⟨hi2, rfl⟩ | ⟨hne, rfl⟩⟩
        · exact h.s.epsOpen x hx hc
        · exact h.s.epsOpen x' hx hc
    have hmidL : AllLive { setEp st e.idx (dialOk st.pipes.length) with pipes := st.pipes ++ [q] } := by
      apply AllLive_setEp st e.idx (dialOk st.pipes.length) h.live
      intro x _ _
      exact ⟨fun _ _ _ _ => Or.inr (Or.inr rfl), fun hdl => by
        rw [dialOk_dialer] at hdl; intro _ _; exact Or.inl (by rw [huniq x ‹_› ‹_›, hd] at hdl; cases hdl)⟩
    exact ⟨Gs_frame hfr (hw hwm) hmidS, AllLive_frame hfr hmidL⟩
  | error rv =>
    have hAinv : EpInv { e with armed := false, userAio := false } := unarm_inv e hei
    unfold connDialer
    simp only
    split
    · -- a close-type result: the dialer stops
      rw [setEp_setEp st e.idx (fun x => { x with armed := false, userAio := false }) _ (fun _ => rfl)]
      refine ⟨Gs_setEp st e.idx _ h.s (fun _ => rfl) (fun _ => rfl) (fun _ => rfl) (fun _ => rfl) (fun _ => rfl) ?_,
        AllLive_setEp st e.idx _ h.live ?_⟩
      · intro x hx hi
        rw [huniq x hx hi]
        exact ⟨stop_inv _ hAinv, het⟩
      · intro x hx hi
        rw [huniq x hx hi]
        exact ⟨fun _ _ _ hs => (by cases hs), fun hdl => (by rw [show e.dialer = false from hdl] at hd; cases hd)⟩
    · split
      · -- background dialer: back off and dial again
        rw [setEp_setEp st e.idx (fun x => { x with armed := false, userAio := false }) _ (fun _ => rfl)]
        refine ⟨Gs_setEp st e.idx _ h.s (fun _ => rfl) (fun _ => rfl) (fun _ => rfl) (fun _ => rfl) (fun _ => rfl) ?_,
          AllLive_setEp st e.idx _ h.live ?_⟩
        · intro x hx hi
          rw [huniq x hx hi]
          exact ⟨timerStart_inv st.now _ hAinv rfl hex.2.1 hd, timerStart_time st.now _ het⟩
        · intro x hx hi
          rw [huniq x hx hi]
          exact timerStart_live st.now _ hd
      · -- the blocking start failed: idle again
        rename_i _ hu
        have hu' : e.userAio = true := by simpa using hu
        refine ⟨Gs_setEp st e.idx _ h.s (fun _ => rfl) (fun _ => rfl) (fun _ => rfl) (fun _ => rfl) (fun _ => rfl) ?_,
          AllLive_setEp st e.idx _ h.live ?_⟩
        · intro x hx hi
          rw [huniq x hx hi]
          exact ⟨hAinv, het⟩
        · intro x hx hi
          rw [huniq x hx hi]
          refine ⟨fun _ _ hb _ => ?_, fun hdl => (by rw [show e.dialer = false from hdl] at hd; cases hd)⟩
          have := hei.bg_user hb
          rw [hu'] at this; cases this

end Nng.LifeModel

namespace Nng.LifeModel
open Nng.Life Nng.Generated

theorem armedOff_inv (e : Ep) (h : EpInv e) : EpInv { e with armed := false } := by
  constructor
  · intro h'; cases h'
  · exact h.timer_excl
  · exact h.dpipe_dialer
  · exact h.cool_listener
  · intro hc; have := h.closed_idle hc; exact ⟨rfl, this.2.1, this.2.2.1, this.2.2.2⟩
  · exact h.bg_user
  · exact h.caps
  · exact h.timer_cap

theorem connListener_G (st : State) (e : Ep) (r : Except Nat Nat) (h : G st) (he : e ∈ st.eps) (ha : e.armed = true)
    (hd : e.dialer = false) : G (connListener st e r).1 := by
  have hei := (h.s.w.epInv e he).1
  have het := (h.s.w.epInv e he).2
  have hex := hei.armed_excl ha
  have hopen := hei.armed_open ha
  have huniq : ∀ x ∈ st.eps, x.idx = e.idx → x = e := fun x hx hi => h.s.w.idxE.unique hx he hi
  cases r with
  | ok peer =>
    have heq : (connListener st e (.ok peer)).1 =
        setEp (startPipe (setEp st e.idx fun x => { x with armed := false })
          { idx := st.pipes.length, ep := e.idx, sock := e.sock } peer).1 e.idx (fun x => { x with armed := true }) := rfl
    rw [heq]
    have hs1 : Gs (setEp st e.idx fun x => { x with armed := false }) :=
      Gs_setEp st e.idx _ h.s (fun _ => rfl) (fun _ => rfl) (fun _ => rfl) (fun _ => rfl) (fun _ => rfl)
        (fun x hx _ => ⟨armedOff_inv x (h.s.w.epInv x hx).1, (h.s.w.epInv x hx).2⟩)
    -- the endpoints with index e.idx in the intermediate state
    have hmem1 : ∀ x' ∈ (setEp st e.idx fun x => { x with armed := false }).eps, x'.idx = e.idx →
        x' = { e with armed := false } := by
      intro x' hx' hi
      rcases mem_setEp hx' with ⟨x, hx, ⟨hi2, rfl⟩ | ⟨hne, rfl⟩⟩
      · rw [huniq x hx hi2]
      · exact absurd hi hne
    obtain ⟨q, hqi, hqe, hqs, hqr, hfr, hw⟩ :=
      startPipe_shape (setEp st e.idx fun x => { x with armed := false })
        { idx := st.pipes.length, ep := e.idx, sock := e.sock } peer rfl
    have hwm : W { (setEp st e.idx fun x => { x with armed := false }) with pipes := st.pipes ++ [q] } := by
      apply append_W (setEp st e.idx fun x => { x with armed := false }) q hs1.w hqi
      · rw [hqe]; simp only [setEp, List.length_map]; exact h.s.w.idxE.lt he
      · intro x' hx' hi
        rw [hqe] at hi
        rw [hmem1 x' hx' hi]
        exact ⟨hqs.symm, fun hdl => (by rw [show e.dialer = true from hdl] at hd; cases hd)⟩
    have hmidS : Gs { (setEp st e.idx fun x => { x with armed := false }) with pipes := st.pipes ++ [q] } := by
      refine ⟨hwm, ?_, hs1.epsOpen, hs1.ctxsOpen⟩
      intro p hp hl x' hx' hi
      rcases List.mem_append.mp (show p ∈ st.pipes ++ [q] from hp) with hp1 | hp1
      · exact hs1.pipesOpen p hp1 hl x' hx' hi
      · rw [List.mem_singleton.mp hp1, hqe] at hi
        rw [hmem1 x' hx' hi]; exact hopen
    have hres : Gs (startPipe (setEp st e.idx fun x => { x with armed := false })
          { idx := st.pipes.length, ep := e.idx, sock := e.sock } peer).1 := Gs_frame hfr (hw hwm) hmidS
    have hlw1 : LiveWhere (· ≠ e.idx)
        { (setEp st e.idx fun x => { x with armed := false }) with pipes := st.pipes ++ [q] } := by
      intro x' hx' hne
      rcases mem_setEp hx' with ⟨x, hx, ⟨hi2, rfl⟩ | ⟨_, rfl⟩⟩
      · exact absurd hi2 hne
      · exact h.live x' hx
    have hlw2 := hfr.liveWhere _ hlw1
    have hnow : (startPipe (setEp st e.idx fun x => { x with armed := false })
          { idx := st.pipes.length, ep := e.idx, sock := e.sock } peer).1.now = st.now := hfr.1
    refine ⟨Gs_setEp _ e.idx _ hres (fun _ => rfl) (fun _ => rfl) (fun _ => rfl) (fun _ => rfl) (fun _ => rfl) ?_, ?_⟩
    · intro x hx hi
      rcases hfr.2.2.2.2.1 x hx with hx1 | ⟨e0, he0, i, hd0, _, rfl⟩
      · rw [hmem1 x hx1 hi, hnow]
        refine ⟨?_, het⟩
        constructor
        · intro _; exact hex
        · exact hei.timer_excl
        · exact hei.dpipe_dialer
        · exact hei.cool_listener
        · intro hc; rw [show e.closed = true from hc] at hopen; cases hopen
        · exact hei.bg_user
        · exact hei.caps
        · exact hei.timer_cap
      · rw [hmem1 e0 he0 hi] at hd0
        rw [show e.dialer = true from hd0] at hd; cases hd
    · intro x' hx'
      rcases mem_setEp hx' with ⟨x, hx, ⟨_, rfl⟩ | ⟨hne, rfl⟩⟩
      · exact ⟨fun _ _ _ _ => Or.inl rfl, fun _ _ _ => Or.inl rfl⟩
      · exact hlw2 x' hx hne
  | error rv =>
    unfold connListener
    simp only
    split
    · exact h
    · split
      · refine ⟨Gs_setEp st e.idx _ h.s (fun _ => rfl) (fun _ => rfl) (fun _ => rfl) (fun _ => rfl) (fun _ => rfl) ?_,
          AllLive_setEp st e.idx _ h.live ?_⟩
        · intro x hx hi
          rw [huniq x hx hi]
          exact ⟨stop_inv _ (armedOff_inv e hei), het⟩
        · intro x hx hi
          rw [huniq x hx hi]
          exact ⟨fun hdl => (by rw [show e.dialer = true from hdl] at hd; cases hd), fun _ _ hs => (by cases hs)⟩
      · refine ⟨Gs_setEp st e.idx _ h.s (fun _ => rfl) (fun _ => rfl) (fun _ => rfl) (fun _ => rfl) (fun _ => rfl) ?_,
          AllLive_setEp st e.idx _ h.live ?_⟩
        · intro x hx hi
          rw [huniq x hx hi]
          refine ⟨?_, het.1, ?_⟩
          · constructor
            · intro h'; cases h'
            · exact hei.timer_excl
            · exact hei.dpipe_dialer
            · intro _ _; exact hd
            · intro hc; rw [show e.closed = true from hc] at hopen; cases hopen
            · exact hei.bg_user
            · exact hei.caps
            · exact hei.timer_cap
          · intro d hdd
            simp only [Option.some.injEq] at hdd
            omega
        · intro x hx hi
          rw [huniq x hx hi]
          exact ⟨fun hdl => (by rw [show e.dialer = true from hdl] at hd; cases hd), fun _ _ _ => Or.inr rfl⟩

theorem opConnDone_G (st : State) (ei : Nat) (r : Except Nat Nat) (h : G st) : G (opConnDone st ei r).1 := by
  unfold opConnDone
  split
  · exact h
  · rename_i e hf
    have he : e ∈ st.eps := List.mem_of_find?_eq_some hf
    split
    · exact h
    · rename_i ha
      have ha' : e.armed = true := by simpa using ha
      split
      · rename_i hd; exact connDialer_G st e r h he ha' hd
      · rename_i hd; exact connListener_G st e r h he ha' (by simpa using hd)

theorem G_of {st st' : State} (h : G st) (hp : st'.pipes = st.pipes) (he : st'.eps = st.eps) (hn : st'.now = st.now)
    (hs : ∀ s, sockOpen (st.socks s) → sockOpen (st'.socks s)) (hc : CtxsOpen st') : G st' :=
  ⟨Gs_of hp he hn hs hc h.s, by unfold AllLive; rw [he]; exact h.live⟩

/-- only the parked operations / the unmodelled flag changed -/
theorem G_same {st st' : State} (h : G st) (hp : st'.pipes = st.pipes) (he : st'.eps = st.eps) (hn : st'.now = st.now)
    (hs : st'.socks = st.socks) (hc : st'.ctxs = st.ctxs) : G st' :=
  G_of h hp he hn (fun s hso => by rw [hs]; exact hso) (by unfold CtxsOpen; rw [hs, hc]; exact h.s.ctxsOpen)

/-- a socket's record changed, open sockets stay open -/
theorem G_socks {st st' : State} (h : G st) (hp : st'.pipes = st.pipes) (he : st'.eps = st.eps) (hn : st'.now = st.now)
    (hc : st'.ctxs = st.ctxs) (hs : ∀ s, sockOpen (st.socks s) → sockOpen (st'.socks s)) : G st' :=
  G_of h hp he hn hs (by unfold CtxsOpen; rw [hc]; intro c hcm hcl; exact hs _ (h.s.ctxsOpen c hcm hcl))

theorem setSock_open (st : State) (s : Nat) (f : Sock → Sock) (hf : ∀ k, sockOpen k → sockOpen (f k)) :
    ∀ k, sockOpen (st.socks k) → sockOpen ((setSock st s f).socks k) := by
  intro k hk
  simp only [setSock]
  split
  · rename_i heq; subst heq; exact hf _ hk
  · exact hk

theorem G_addEp (st : State) (e : Ep) (h : G st) (hidx : e.idx = st.eps.length) (hinv : EpInv e ∧ EpTime st.now e)
    (hdp : e.dPipe = none) (hopen : sockOpen (st.socks e.sock)) (hl : Live e) : G { st with eps := st.eps ++ [e] } := by
  have hfar : ∀ p ∈ st.pipes, e.idx ≠ p.ep := by
    intro p hp hi
    have := h.s.w.pipeEp p hp
    omega
  refine ⟨⟨⟨h.s.w.idxP, h.s.w.idxE.append e hidx, ?_, ?_, ?_, ?_⟩, ?_, ?_, h.s.ctxsOpen⟩, ?_⟩
  · intro x hx
    rcases List.mem_append.mp hx with hx | hx
    · exact h.s.w.epInv x hx
    · rw [List.mem_singleton.mp hx]; exact hinv
  · intro p hp
    have := h.s.w.pipeEp p hp
    simp only [List.length_append, List.length_singleton]
    omega
  · intro p hp hlv x hx hi
    rcases List.mem_append.mp hx with hx | hx
    · exact h.s.w.own p hp hlv x hx hi
    · rw [List.mem_singleton.mp hx] at hi; exact absurd hi (hfar p hp)
  · intro x hx i hi
    rcases List.mem_append.mp hx with hx | hx
    · exact h.s.w.has x hx i hi
    · rw [List.mem_singleton.mp hx, hdp] at hi; cases hi
  · intro p hp hlv x hx hi
    rcases List.mem_append.mp hx with hx | hx
    · exact h.s.pipesOpen p hp hlv x hx hi
    · rw [List.mem_singleton.mp hx] at hi; exact absurd hi (hfar p hp)
  · intro x hx hc
    rcases List.mem_append.mp hx with hx | hx
    · exact h.s.epsOpen x hx hc
    · rw [List.mem_singleton.mp hx]; exact hopen
  · intro x hx
    rcases List.mem_append.mp hx with hx | hx
    · exact h.live x hx
    · rw [List.mem_singleton.mp hx]; exact hl

end Nng.LifeModel

namespace Nng.LifeModel
open Nng.Life Nng.Generated

macro "g_same" h:ident : tactic =>
  `(tactic| ((repeat' split) <;> first | exact $h | exact G_same $h rfl rfl rfl rfl rfl))

theorem opOpen_G (st : State) (s : Nat) (p : String) (h : G st) : G (opOpen st s p).1 := by
  unfold opOpen
  split
  · refine G_socks h rfl rfl rfl rfl ?_; intro k hk; exact setSock_open st s (fun _ => { proto := p, opened := true }) (fun _ _ => ⟨rfl, rfl⟩) k hk
  · exact G_same h rfl rfl rfl rfl rfl

theorem opNotify_G (st : State) (s m : Nat) (c : Bool) (h : G st) : G (opNotify st s m c).1 := by
  unfold opNotify
  simp only
  split
  · exact h
  · refine G_socks h rfl rfl rfl rfl ?_; intro k hk; exact setSock_open st s (fun k => { k with mask := m, cip := c }) (fun _ hk => hk) k hk

theorem opSetoptSock_G (st : State) (s : Nat) (n : String) (v : Int) (h : G st) : G (opSetoptSock st s n v).1 := by
  unfold opSetoptSock
  simp only
  split
  · exact h
  · split
    · exact h
    · split
      · refine G_socks h rfl rfl rfl rfl ?_; intro k hk; exact setSock_open st s (fun k => { k with reconnmax := v }) (fun _ hk => hk) k hk
      · split
        · refine G_socks h rfl rfl rfl rfl ?_; intro k hk; exact setSock_open st s (fun k => { k with reconn := v }) (fun _ hk => hk) k hk
        · exact G_same h rfl rfl rfl rfl rfl

theorem opSetoptEp_G (st : State) (ei : Nat) (n : String) (v : Int) (h : G st) : G (opSetoptEp st ei n v).1 := by
  unfold opSetoptEp
  split
  · exact h
  · split
    · exact h
    · split
      · exact h
      · split
        · exact h
        · split
          · refine ⟨Gs_setEp st ei _ h.s (fun _ => rfl) (fun _ => rfl) (fun _ => rfl) (fun _ => rfl) (fun _ => rfl) ?_,
              AllLive_setEp st ei _ h.live (fun x hx _ => h.live x hx)⟩
            intro x hx _
            have hi := (h.s.w.epInv x hx).1
            refine ⟨?_, (h.s.w.epInv x hx).2⟩
            constructor
            · exact hi.armed_excl
            · exact hi.timer_excl
            · exact hi.dpipe_dialer
            · exact hi.cool_listener
            · exact hi.closed_idle
            · exact hi.bg_user
            · have := hi.caps; simp only; omega
            · intro t0 b hb; have := hi.timer_cap t0 b hb; simp only; omega
          · split
            · refine ⟨Gs_setEp st ei _ h.s (fun _ => rfl) (fun _ => rfl) (fun _ => rfl) (fun _ => rfl) (fun _ => rfl) ?_,
                AllLive_setEp st ei _ h.live (fun x hx _ => h.live x hx)⟩
              intro x hx _
              have hi := (h.s.w.epInv x hx).1
              refine ⟨?_, (h.s.w.epInv x hx).2⟩
              constructor
              · exact hi.armed_excl
              · exact hi.timer_excl
              · exact hi.dpipe_dialer
              · exact hi.cool_listener
              · exact hi.closed_idle
              · exact hi.bg_user
              · have := hi.caps; simp only; omega
              · intro t0 b hb; have := hi.timer_cap t0 b hb; simp only; omega
            · exact G_same h rfl rfl rfl rfl rfl

theorem sockOpen_of_not {k : Sock} (h : ¬ ((!k.opened || k.closed) = true)) : sockOpen k := by
  cases h1 : k.opened <;> cases h2 : k.closed <;> simp_all [sockOpen]

theorem opDial_G (st : State) (s : Nat) (nb : Bool) (h : G st) : G (opDial st s nb).1 := by
  unfold opDial
  simp only
  split
  · exact h
  · rename_i hso
    apply G_addEp st _ h rfl ?_ rfl (sockOpen_of_not hso)
    · exact ⟨fun _ _ _ _ => Or.inl rfl, fun hd => (by cases hd)⟩
    · refine ⟨?_, fun t0 b hb => (by cases hb), fun d hd => (by cases hd)⟩
      constructor
      · intro _; exact ⟨rfl, rfl, rfl⟩
      · intro t ht; cases ht
      · intro i hi; cases hi
      · intro d hd; cases hd
      · intro hc; cases hc
      · intro hb; simp only at hb ⊢; rw [hb]; rfl
      · simp only; omega
      · intro t0 b hb; cases hb

theorem opListen_G (st : State) (s : Nat) (h : G st) : G (opListen st s).1 := by
  unfold opListen
  simp only
  split
  · exact h
  · rename_i hso
    apply G_addEp st _ h rfl ?_ rfl (sockOpen_of_not hso)
    · exact ⟨fun hd => (by cases hd), fun _ _ _ => Or.inl rfl⟩
    · refine ⟨?_, fun t0 b hb => (by cases hb), fun d hd => (by cases hd)⟩
      constructor
      · intro _; exact ⟨rfl, rfl, rfl⟩
      · intro t ht; cases ht
      · intro i hi; cases hi
      · intro d hd; cases hd
      · intro hc; cases hc
      · intro hb; cases hb
      · simp only; omega
      · intro t0 b hb; cases hb

theorem opCtxOpen_G (st : State) (s c : Nat) (h : G st) : G (opCtxOpen st s c).1 := by
  unfold opCtxOpen
  simp only
  split
  · exact h
  · rename_i hso
    split
    · exact h
    · split
      · exact G_same h rfl rfl rfl rfl rfl
      · refine G_of h rfl rfl rfl (fun _ hk => hk) ?_
        intro c' hc' hcl
        rcases List.mem_append.mp (show c' ∈ st.ctxs.filter (·.id != c) ++ [{ id := c, sock := s }] from hc') with hm | hm
        · exact h.s.ctxsOpen c' (List.mem_filter.mp hm).1 hcl
        · rw [List.mem_singleton.mp hm]; exact sockOpen_of_not hso

theorem opCtxClose_G (st : State) (c : Nat) (h : G st) : G (opCtxClose st c).1 := by
  unfold opCtxClose
  split
  · exact h
  · split
    · exact h
    · refine G_of h rfl rfl rfl (fun _ hk => hk) ?_
      intro c' hc' hcl
      rcases mem_map_if (c := fun y : Ctx => y.id == c) (g := fun y : Ctx => { y with closed := true }) (show c' ∈ st.ctxs.map (fun y => if y.id == c then { y with closed := true } else y) from hc')
        with ⟨y, hy, ⟨_, heq⟩ | ⟨_, heq⟩⟩
      · rw [heq] at hcl; cases hcl
      · rw [heq] at hcl ⊢; exact h.s.ctxsOpen y hy hcl

theorem opPipeClose_G (st : State) (p : Nat) (h : G st) : G (opPipeClose st p).1 := by
  unfold opPipeClose
  split
  · exact h
  · split
    · exact h
    · exact killPipe_G _ _ h

theorem opPipeDrop_G (st : State) (p : Nat) (h : G st) : G (opPipeDrop st p).1 := by
  unfold opPipeDrop
  split
  · exact h
  · split
    · exact h
    · exact killPipe_G _ _ h

theorem opCloseEp_G (st : State) (e : Nat) (d : Bool) (h : G st) : G (opCloseEp st e d).1 := by
  unfold opCloseEp
  split
  · exact h
  · split
    · exact h
    · split
      · exact h
      · exact (closeEp_spec _ _ h).1

theorem EpTime_mono {now now' : Nat} {e : Ep} (hle : now ≤ now') (h : EpTime now e) : EpTime now' e :=
  ⟨fun t0 b hb => Nat.le_trans (h.1 t0 b hb) hle, fun d hd => Nat.le_trans (h.2 d hd) (Nat.add_le_add_right hle _)⟩

theorem advance_G (st : State) (ms : Nat) (h : G st) : G { st with now := st.now + ms } := by
  refine ⟨⟨⟨h.s.w.idxP, h.s.w.idxE, ?_, h.s.w.pipeEp, h.s.w.own, h.s.w.has⟩, h.s.pipesOpen, h.s.epsOpen, h.s.ctxsOpen⟩, h.live⟩
  intro e he
  exact ⟨(h.s.w.epInv e he).1, EpTime_mono (Nat.le_add_right _ _) (h.s.w.epInv e he).2⟩

theorem apply_G (st : State) (op : LOp) (h : G st) : G (apply st op).1 := by
  cases op with
  | openSock s p => exact opOpen_G _ _ _ h
  | notify s m c => exact opNotify_G _ _ _ _ h
  | setoptSock s n v => exact opSetoptSock_G _ _ _ _ h
  | setoptEp e n v => exact opSetoptEp_G _ _ _ _ h
  | dial s nb => exact opDial_G _ _ _ h
  | listen s => exact opListen_G _ _ h
  | connDone e r => exact opConnDone_G _ _ _ h
  | pipeClose p => exact opPipeClose_G _ _ h
  | pipeDrop p => exact opPipeDrop_G _ _ h
  | dialerClose e => exact opCloseEp_G _ _ _ h
  | listenerClose e => exact opCloseEp_G _ _ _ h
  | ctxOpen s c => exact opCtxOpen_G _ _ _ h
  | ctxClose c => exact opCtxClose_G _ _ h
  | send t a => show G (opSend st t a).1; unfold opSend; simp only; g_same h
  | recv t a => show G (opRecv st t a).1; unfold opRecv; simp only; g_same h
  | advance ms => exact advance_G st ms h
  | close s => exact opClose_G _ _ h
  | close2 s => exact G_same h rfl rfl rfl rfl rfl
  | race o l a b => exact G_same h rfl rfl rfl rfl rfl
  | probe => exact h

def AllFresh (st : State) : Prop := ∀ e ∈ st.eps, Fresh st.now e

theorem fireTimers_G (orc : List Nat) (st : State) (h : G st) :
    G (fireTimers orc st).1 ∧ AllFresh (fireTimers orc st).1 := by
  have hf := fun e => fireOne_frame st.now orc e
  refine ⟨⟨Gs_mapEps st (fireOne st.now orc) h.s (fun x => (hf x).1) (fun x => (hf x).2.1) (fun x => (hf x).2.2.1)
      (fun x => (hf x).2.2.2.2.1) (fun x => (hf x).2.2.2.1)
      (fun x hx => ⟨fireOne_inv _ _ _ (h.s.w.epInv x hx).1, fireOne_time _ _ _ (h.s.w.epInv x hx).2⟩), ?_⟩, ?_⟩
  · intro e' he'
    rcases List.mem_map.mp (show e' ∈ st.eps.map (fireOne st.now orc) from he') with ⟨e, he, rfl⟩
    exact fireOne_live _ _ _ (h.live e he)
  · intro e' he'
    rcases List.mem_map.mp (show e' ∈ st.eps.map (fireOne st.now orc) from he') with ⟨e, he, rfl⟩
    exact fireOne_fresh _ _ _ (h.s.w.epInv e he).1

/-- the full invariant of the reachable (quiescent) states -/
structure Inv (st : State) : Prop where
  g : G st
  fresh : AllFresh st

theorem step_Inv (st : State) (op : LOp) (orc : List Nat) (h : Inv st) : Inv (step st op orc).1 := by
  unfold step
  split
  · exact h
  · have := fireTimers_G orc (apply st op).1 (apply_G st op h.g)
    exact ⟨this.1, this.2⟩

theorem init_Inv : Inv ({} : State) := by
  refine ⟨⟨⟨⟨?_, ?_, ?_, ?_, ?_, ?_⟩, ?_, ?_, ?_⟩, ?_⟩, ?_⟩
  · intro k hk; simp at hk
  · intro k hk; simp at hk
  all_goals (intro x hx; cases hx)

theorem run_Inv (tr : List (LOp × List Nat)) (st : State) (h : Inv st) : Inv (run st tr) := by
  induction tr generalizing st with
  | nil => exact h
  | cons x rest ih => exact ih _ (step_Inv st x.1 x.2 h)

end Nng.LifeModel

namespace Nng.LifeModel
open Nng.Life Nng.Generated

/-! ### what one step does to a dialer that loses its pipe / whose dial fails -/

theorem find_idx {α : Type} {f : α → Nat} {l : List α} (h : Indexed f l) {a : α} (ha : a ∈ l) :
    l.find? (fun x => f x == f a) = some a := by
  cases hf : l.find? (fun x => f x == f a) with
  | none =>
    have := List.find?_eq_none.mp hf a ha
    simp at this
  | some b =>
    have hb := List.mem_of_find?_eq_some hf
    have := List.find?_some hf
    simp only [beq_iff_eq] at this
    rw [h.unique hb ha this]

theorem killPipe_eps_of_live (st : State) (p : Pipe) (hw : W st) (hp : p ∈ st.pipes) (hl : p.reaped = false) :
    (killPipe st p.idx).1.eps = st.eps.map (fun x => if x.idx == p.ep then pipeRemoved st.now p.idx x else x) ∧
    (killPipe st p.idx).1.now = st.now := by
  unfold killPipe
  cases hf : st.pipes.find? (fun q => q.idx == p.idx && !q.reaped) with
  | none =>
    have := List.find?_eq_none.mp hf p hp
    simp [hl] at this
  | some q =>
    have hq := List.mem_of_find?_eq_some hf
    have := List.find?_some hf
    simp only [Bool.and_eq_true, beq_iff_eq] at this
    have hqp : q = p := hw.idxP.unique hq hp this.1
    subst hqp
    exact ⟨rfl, rfl⟩

/-- the endpoints of the state after a step that was modelled -/
theorem step_eps (st : State) (op : LOp) (orc : List Nat) (hu : st.unmodelled = false) :
    (step st op orc).1.eps = (apply st op).1.eps.map (fireOne (apply st op).1.now orc) := by
  unfold step
  simp only [hu, Bool.false_eq_true, if_false]
  rfl

theorem fireOne_after_timerStart (now : Nat) (orc : List Nat) (x : Ep) (hd : x.dialer = true) (t : Nat × Int)
    (ht : x.timer = some t) (ha : x.armed = false) :
    ((fireOne now orc x).armed = true ∧ (fireOne now orc x).timer = none) ∨
    ((fireOne now orc x).armed = false ∧ (fireOne now orc x).timer = some t) := by
  unfold fireOne
  simp only [hd, if_true]
  split
  · left; exact ⟨rfl, rfl⟩
  · right; exact ⟨ha, ht⟩

/-- nni_pipe_close / transport loss of a dialer's pipe: the dialer has no pipe any more and its redial
    timer was started at this instant with the current back-off (or has fired already in this step) -/
theorem pipe_loss_step (st : State) (h : Inv st) (hu : st.unmodelled = false) (e : Ep) (he : e ∈ st.eps)
    (hd : e.dialer = true) (i : Nat) (hp : e.dPipe = some i) (op : LOp) (hop : op = .pipeDrop i ∨ op = .pipeClose i)
    (orc : List Nat) :
    ∀ e' ∈ (step st op orc).1.eps, e'.idx = e.idx →
      e'.dPipe = none ∧ ((e'.armed = true ∧ e'.timer = none) ∨ (e'.armed = false ∧ e'.timer = some (st.now, e.curr))) := by
  have w := h.g.s.w
  obtain ⟨p, hpm, hpi, hpl, hpe⟩ := w.has e he i hp
  have hcl : e.closed = false := h.g.s.pipesOpen p hpm hpl e he hpe.symm
  have hun := (w.epInv e he).1.dpipe_unarmed hp
  have hfind : st.pipes.find? (fun q => q.idx == i) = some p := by rw [← hpi]; exact find_idx w.idxP hpm
  have happ : (apply st op).1 = (killPipe st i).1 := by
    rcases hop with rfl | rfl
    · show (opPipeDrop st i).1 = _
      unfold opPipeDrop; simp only [hfind, hpl, Bool.false_eq_true, if_false]
    · show (opPipeClose st i).1 = _
      unfold opPipeClose; simp only [hfind, hpl, Bool.false_eq_true, if_false]
  have hk := killPipe_eps_of_live st p w hpm hpl
  rw [hpi] at hk
  intro e' he' hi
  rw [step_eps st op orc hu, happ, hk.1, hk.2] at he'
  rcases List.mem_map.mp he' with ⟨x', hx', rfl⟩
  rcases mem_map_if hx' with ⟨x, hx, hcase⟩
  have hxi : x.idx = e.idx := by
    rcases hcase with ⟨_, heq⟩ | ⟨_, heq⟩
    · rw [← hi, (fireOne_frame _ _ _).1, heq]
      rcases pipeRemoved_cases st.now i x with hc | ⟨_, _, hc⟩ <;> rw [hc]; rfl
    · rw [← hi, (fireOne_frame _ _ _).1, heq]
  have hxe : x = e := w.idxE.unique hx he hxi
  subst hxe
  have hx'eq : x' = lostPipe st.now x := by
    rcases hcase with ⟨_, heq⟩ | ⟨hc, _⟩
    · rw [heq]; unfold pipeRemoved; rw [if_pos (by simp [hd, hp])]; rfl
    · simp [hpe] at hc
  subst hx'eq
  have hf := fireOne_frame st.now orc (lostPipe st.now x)
  refine ⟨hf.2.2.2.2.1.trans rfl, ?_⟩
  apply fireOne_after_timerStart st.now orc (lostPipe st.now x) hd (st.now, x.curr)
  · show (timerStart st.now { x with dPipe := none }).timer = _
    rw [timerStart_timer]; simp only [hcl, Bool.false_eq_true, if_false]
  · exact hun.1

/-- a failed dial of a background dialer (any result that is not a close-class one): the redial timer was
    started at this instant with the current back-off (or has fired already in this step) -/
theorem dial_failure_step (st : State) (h : Inv st) (hu : st.unmodelled = false) (e : Ep) (he : e ∈ st.eps)
    (hd : e.dialer = true) (ha : e.armed = true) (hua : e.userAio = false) (rv : Nat)
    (hrv : lifeDialStopErrs.contains rv = false) (orc : List Nat) :
    ∀ e' ∈ (step st (.connDone e.idx (.error rv)) orc).1.eps, e'.idx = e.idx →
      e'.dPipe = none ∧ ((e'.armed = true ∧ e'.timer = none) ∨ (e'.armed = false ∧ e'.timer = some (st.now, e.curr))) := by
  have w := h.g.s.w
  have hex := (w.epInv e he).1.armed_excl ha
  have hcl := (w.epInv e he).1.armed_open ha
  have hfind : getEp st e.idx = some e := find_idx w.idxE he
  have happ : (apply st (.connDone e.idx (.error rv))).1 =
      setEp st e.idx (fun x => timerStart st.now { x with armed := false, userAio := false }) := by
    show (opConnDone st e.idx (.error rv)).1 = _
    unfold opConnDone
    simp only [hfind, ha, hd, Bool.not_true, Bool.false_eq_true, if_false, if_true]
    unfold connDialer
    simp only [hrv, hua, Bool.false_eq_true, if_false, Bool.not_false, if_true]
    exact setEp_setEp st e.idx (fun x => { x with armed := false, userAio := false }) _ (fun _ => rfl)
  intro e' he' hi
  rw [step_eps st _ orc hu, happ] at he'
  rcases List.mem_map.mp he' with ⟨x', hx', rfl⟩
  rcases mem_setEp hx' with ⟨x, hx, hcase⟩
  have hxi : x.idx = e.idx := by
    rcases hcase with ⟨hxi, _⟩ | ⟨_, heq⟩
    · exact hxi
    · rw [← hi, (fireOne_frame _ _ _).1, heq]
  have hxe : x = e := w.idxE.unique hx he hxi
  subst hxe
  have hx'eq : x' = timerStart st.now { x with armed := false, userAio := false } := by
    rcases hcase with ⟨_, heq⟩ | ⟨hne, _⟩
    · exact heq
    · exact absurd rfl hne
  subst hx'eq
  have hnow : (setEp st x.idx fun x => timerStart st.now { x with armed := false, userAio := false }).now = st.now := rfl
  rw [hnow]
  have hf := fireOne_frame st.now orc (timerStart st.now { x with armed := false, userAio := false })
  refine ⟨hf.2.2.2.2.1.trans hex.2.1, ?_⟩
  apply fireOne_after_timerStart st.now orc (timerStart st.now { x with armed := false, userAio := false }) hd
    (st.now, x.curr)
  · rw [timerStart_timer]; simp only [hcl, Bool.false_eq_true, if_false]
  · rfl

end Nng.LifeModel

namespace Nng.LifeModel
open Nng.Life

/-! ### the model's own trace, as the judges of Spec/Life.lean see it (for the statements
    "the judges accept every model trace", which are NOT proved — see Props/C14.lean, Props/C10.lean) -/

/-- the ops with the events the model predicts for them -/
def modelTrace (st : State) : List (LOp × List Nat) → List (LOp × List LOut)
  | [] => []
  | (op, orc) :: rest => (op, (step st op orc).2) :: modelTrace (step st op orc).1 rest

/-- the judge state after a trace -/
def judgeRun (t : List (LOp × List LOut)) : Nng.LifeSpec.J :=
  t.foldl (fun j x => Nng.LifeSpec.step j x.1 x.2) {}

end Nng.LifeModel
