/-
  Invariants of the REP model over all event sequences (P1 routing, P5 order, P6 pollable
  flags), proved helper by helper (one lemma per C callback).
-/
import NngModel.Model.Rep
import NngModel.Proofs.RepParse
namespace Nng.RepProofs
open Nng Nng.Proto Nng.Rep

@[simp] theorem upd_same {β : Type} (f : Nat → β) (k : Nat) (v : β) : upd f k v k = v := by simp [upd]
theorem upd_other {β : Type} (f : Nat → β) {k x : Nat} (v : β) (h : x ≠ k) : upd f k v x = f x := by simp [upd, h]
theorem upd_apply {β : Type} (f : Nat → β) (k x : Nat) (v : β) : upd f k v x = if x = k then v else f x := rfl

/-- the reply (pipe, header) is the pipe and backtrace of request `req` -/
def ReqOK (pipe : Nat) (hdr : Bytes) (req : Option Req) : Prop :=
  ∃ r, req = some r ∧ hdr = r.bt ∧ pipe = r.pipe

/-- what a context has saved is the backtrace and pipe of the request most recently delivered to it -/
def CtxOK (c : Ctx) : Prop :=
  c.btrace ≠ [] → ∃ r, c.greq = some r ∧ c.btrace = r.bt ∧ c.pipeId = some r.pipe

structure Inv1 (s : State) : Prop where
  ctxOK : ∀ k, CtxOK (s.ctx k)
  sendqOK : ∀ p, ∀ e ∈ (s.pipe p).sendq, ReqOK p e.hdr e.req
  wireOK : ∀ w ∈ s.wire, ReqOK w.pipe w.hdr w.req
  discOK : ∀ w ∈ s.discarded, ReqOK w.pipe w.hdr w.req

theorem inv1_init : Inv1 ({} : State) := by
  constructor <;> simp [CtxOK]

/-- CtxOK only looks at btrace / greq / pipeId -/
theorem ctxOK_congr {c c' : Ctx} (h1 : c'.btrace = c.btrace) (h2 : c'.greq = c.greq) (h3 : c'.pipeId = c.pipeId)
    (h : CtxOK c) : CtxOK c' := by
  unfold CtxOK at *; rw [h1, h2, h3]; exact h

/-! #### projections of setCtx / setPipe (all by `rfl`) -/
@[simp] theorem setCtx_ctx (s : State) (k : Nat) (c : Ctx) : (setCtx s k c).ctx = upd s.ctx k c := rfl
@[simp] theorem setCtx_pipe (s : State) (k : Nat) (c : Ctx) : (setCtx s k c).pipe = s.pipe := rfl
@[simp] theorem setCtx_wire (s : State) (k : Nat) (c : Ctx) : (setCtx s k c).wire = s.wire := rfl
@[simp] theorem setCtx_discarded (s : State) (k : Nat) (c : Ctx) : (setCtx s k c).discarded = s.discarded := rfl
@[simp] theorem setCtx_recvpipes (s : State) (k : Nat) (c : Ctx) : (setCtx s k c).recvpipes = s.recvpipes := rfl
@[simp] theorem setCtx_recvq (s : State) (k : Nat) (c : Ctx) : (setCtx s k c).recvq = s.recvq := rfl
@[simp] theorem setCtx_delivered (s : State) (k : Nat) (c : Ctx) : (setCtx s k c).delivered = s.delivered := rfl
@[simp] theorem setCtx_npipes (s : State) (k : Nat) (c : Ctx) : (setCtx s k c).npipes = s.npipes := rfl
@[simp] theorem setCtx_readable (s : State) (k : Nat) (c : Ctx) : (setCtx s k c).readable = s.readable := rfl
@[simp] theorem setCtx_writable (s : State) (k : Nat) (c : Ctx) : (setCtx s k c).writable = s.writable := rfl
@[simp] theorem setCtx_ttl (s : State) (k : Nat) (c : Ctx) : (setCtx s k c).ttl = s.ttl := rfl
@[simp] theorem setCtx_narrive (s : State) (k : Nat) (c : Ctx) : (setCtx s k c).narrive = s.narrive := rfl
@[simp] theorem setCtx_nctx (s : State) (k : Nat) (c : Ctx) : (setCtx s k c).nctx = s.nctx := rfl
@[simp] theorem setCtx_now (s : State) (k : Nat) (c : Ctx) : (setCtx s k c).now = s.now := rfl
@[simp] theorem setCtx_slot (s : State) (k : Nat) (c : Ctx) : (setCtx s k c).slot = s.slot := rfl
@[simp] theorem setCtx_unrouted (s : State) (k : Nat) (c : Ctx) : (setCtx s k c).unrouted = s.unrouted := rfl
@[simp] theorem setCtx_opened (s : State) (k : Nat) (c : Ctx) : (setCtx s k c).opened = s.opened := rfl
@[simp] theorem setCtx_closed (s : State) (k : Nat) (c : Ctx) : (setCtx s k c).closed = s.closed := rfl
@[simp] theorem setPipe_pipe (s : State) (p : Nat) (pp : Pipe) : (setPipe s p pp).pipe = upd s.pipe p pp := rfl
@[simp] theorem setPipe_ctx (s : State) (p : Nat) (pp : Pipe) : (setPipe s p pp).ctx = s.ctx := rfl
@[simp] theorem setPipe_wire (s : State) (p : Nat) (pp : Pipe) : (setPipe s p pp).wire = s.wire := rfl
@[simp] theorem setPipe_discarded (s : State) (p : Nat) (pp : Pipe) : (setPipe s p pp).discarded = s.discarded := rfl
@[simp] theorem setPipe_recvpipes (s : State) (p : Nat) (pp : Pipe) : (setPipe s p pp).recvpipes = s.recvpipes := rfl
@[simp] theorem setPipe_recvq (s : State) (p : Nat) (pp : Pipe) : (setPipe s p pp).recvq = s.recvq := rfl
@[simp] theorem setPipe_delivered (s : State) (p : Nat) (pp : Pipe) : (setPipe s p pp).delivered = s.delivered := rfl
@[simp] theorem setPipe_npipes (s : State) (p : Nat) (pp : Pipe) : (setPipe s p pp).npipes = s.npipes := rfl
@[simp] theorem setPipe_readable (s : State) (p : Nat) (pp : Pipe) : (setPipe s p pp).readable = s.readable := rfl
@[simp] theorem setPipe_writable (s : State) (p : Nat) (pp : Pipe) : (setPipe s p pp).writable = s.writable := rfl
@[simp] theorem setPipe_ttl (s : State) (p : Nat) (pp : Pipe) : (setPipe s p pp).ttl = s.ttl := rfl
@[simp] theorem setPipe_narrive (s : State) (p : Nat) (pp : Pipe) : (setPipe s p pp).narrive = s.narrive := rfl
@[simp] theorem setPipe_nctx (s : State) (p : Nat) (pp : Pipe) : (setPipe s p pp).nctx = s.nctx := rfl
@[simp] theorem setPipe_now (s : State) (p : Nat) (pp : Pipe) : (setPipe s p pp).now = s.now := rfl
@[simp] theorem setPipe_slot (s : State) (p : Nat) (pp : Pipe) : (setPipe s p pp).slot = s.slot := rfl
@[simp] theorem setPipe_unrouted (s : State) (p : Nat) (pp : Pipe) : (setPipe s p pp).unrouted = s.unrouted := rfl
@[simp] theorem setPipe_opened (s : State) (p : Nat) (pp : Pipe) : (setPipe s p pp).opened = s.opened := rfl
@[simp] theorem setPipe_closed (s : State) (p : Nat) (pp : Pipe) : (setPipe s p pp).closed = s.closed := rfl

@[simp] theorem setW_ctx (s : State) (b : Bool) : (setW s b).ctx = s.ctx := rfl
@[simp] theorem setR_ctx (s : State) (b : Bool) : (setR s b).ctx = s.ctx := rfl
@[simp] theorem setW_pipe (s : State) (b : Bool) : (setW s b).pipe = s.pipe := rfl
@[simp] theorem setR_pipe (s : State) (b : Bool) : (setR s b).pipe = s.pipe := rfl
@[simp] theorem setW_wire (s : State) (b : Bool) : (setW s b).wire = s.wire := rfl
@[simp] theorem setR_wire (s : State) (b : Bool) : (setR s b).wire = s.wire := rfl
@[simp] theorem setW_discarded (s : State) (b : Bool) : (setW s b).discarded = s.discarded := rfl
@[simp] theorem setR_discarded (s : State) (b : Bool) : (setR s b).discarded = s.discarded := rfl
@[simp] theorem setW_recvpipes (s : State) (b : Bool) : (setW s b).recvpipes = s.recvpipes := rfl
@[simp] theorem setR_recvpipes (s : State) (b : Bool) : (setR s b).recvpipes = s.recvpipes := rfl
@[simp] theorem setW_recvq (s : State) (b : Bool) : (setW s b).recvq = s.recvq := rfl
@[simp] theorem setR_recvq (s : State) (b : Bool) : (setR s b).recvq = s.recvq := rfl
@[simp] theorem setW_delivered (s : State) (b : Bool) : (setW s b).delivered = s.delivered := rfl
@[simp] theorem setR_delivered (s : State) (b : Bool) : (setR s b).delivered = s.delivered := rfl
@[simp] theorem setW_npipes (s : State) (b : Bool) : (setW s b).npipes = s.npipes := rfl
@[simp] theorem setR_npipes (s : State) (b : Bool) : (setR s b).npipes = s.npipes := rfl
@[simp] theorem setW_readable (s : State) (b : Bool) : (setW s b).readable = s.readable := rfl
@[simp] theorem setR_writable (s : State) (b : Bool) : (setR s b).writable = s.writable := rfl
@[simp] theorem setW_ttl (s : State) (b : Bool) : (setW s b).ttl = s.ttl := rfl
@[simp] theorem setR_ttl (s : State) (b : Bool) : (setR s b).ttl = s.ttl := rfl
@[simp] theorem setW_narrive (s : State) (b : Bool) : (setW s b).narrive = s.narrive := rfl
@[simp] theorem setR_narrive (s : State) (b : Bool) : (setR s b).narrive = s.narrive := rfl
@[simp] theorem setW_nctx (s : State) (b : Bool) : (setW s b).nctx = s.nctx := rfl
@[simp] theorem setR_nctx (s : State) (b : Bool) : (setR s b).nctx = s.nctx := rfl
@[simp] theorem setW_now (s : State) (b : Bool) : (setW s b).now = s.now := rfl
@[simp] theorem setR_now (s : State) (b : Bool) : (setR s b).now = s.now := rfl
@[simp] theorem setW_slot (s : State) (b : Bool) : (setW s b).slot = s.slot := rfl
@[simp] theorem setR_slot (s : State) (b : Bool) : (setR s b).slot = s.slot := rfl
@[simp] theorem setW_unrouted (s : State) (b : Bool) : (setW s b).unrouted = s.unrouted := rfl
@[simp] theorem setR_unrouted (s : State) (b : Bool) : (setR s b).unrouted = s.unrouted := rfl
@[simp] theorem setW_opened (s : State) (b : Bool) : (setW s b).opened = s.opened := rfl
@[simp] theorem setR_opened (s : State) (b : Bool) : (setR s b).opened = s.opened := rfl
@[simp] theorem setW_closed (s : State) (b : Bool) : (setW s b).closed = s.closed := rfl
@[simp] theorem setR_closed (s : State) (b : Bool) : (setR s b).closed = s.closed := rfl
@[simp] theorem setW_writable (s : State) (b : Bool) : (setW s b).writable = b := rfl
@[simp] theorem setR_readable (s : State) (b : Bool) : (setR s b).readable = b := rfl

/-! #### clearSaio -/
theorem clearSaio_cons (s : State) (e : PSend) (es : List PSend) :
    clearSaio s (e :: es) = clearSaio (setCtx s e.ctx { s.ctx e.ctx with saio := none }) es := rfl

/-- clearSaio touches nothing but `saio` of some contexts -/
structure SameButSaio (s s' : State) : Prop where
  pipe : s'.pipe = s.pipe
  wire : s'.wire = s.wire
  discarded : s'.discarded = s.discarded
  recvpipes : s'.recvpipes = s.recvpipes
  recvq : s'.recvq = s.recvq
  delivered : s'.delivered = s.delivered
  npipes : s'.npipes = s.npipes
  readable : s'.readable = s.readable
  writable : s'.writable = s.writable
  ttl : s'.ttl = s.ttl
  narrive : s'.narrive = s.narrive
  nctx : s'.nctx = s.nctx
  unrouted : s'.unrouted = s.unrouted
  closed : s'.closed = s.closed
  slot : s'.slot = s.slot
  opened : s'.opened = s.opened
  btrace : ∀ k, (s'.ctx k).btrace = (s.ctx k).btrace
  greq : ∀ k, (s'.ctx k).greq = (s.ctx k).greq
  pipeId : ∀ k, (s'.ctx k).pipeId = (s.ctx k).pipeId
  raio : ∀ k, (s'.ctx k).raio = (s.ctx k).raio

theorem clearSaio_frame (es : List PSend) : ∀ s : State, SameButSaio s (clearSaio s es) := by
  induction es with
  | nil => intro s; constructor <;> intros <;> rfl
  | cons e es ih =>
    intro s
    rw [clearSaio_cons]
    have h := ih (setCtx s e.ctx { s.ctx e.ctx with saio := none })
    have hc : ∀ k, ((setCtx s e.ctx { s.ctx e.ctx with saio := none }).ctx k).btrace = (s.ctx k).btrace ∧
        ((setCtx s e.ctx { s.ctx e.ctx with saio := none }).ctx k).greq = (s.ctx k).greq ∧
        ((setCtx s e.ctx { s.ctx e.ctx with saio := none }).ctx k).pipeId = (s.ctx k).pipeId ∧
        ((setCtx s e.ctx { s.ctx e.ctx with saio := none }).ctx k).raio = (s.ctx k).raio := by
      intro k
      rw [setCtx_ctx, upd_apply]
      by_cases hk : k = e.ctx
      · subst hk; simp
      · simp [hk]
    constructor
    · rw [h.pipe]; rfl
    · rw [h.wire]; rfl
    · rw [h.discarded]; rfl
    · rw [h.recvpipes]; rfl
    · rw [h.recvq]; rfl
    · rw [h.delivered]; rfl
    · rw [h.npipes]; rfl
    · rw [h.readable]; rfl
    · rw [h.writable]; rfl
    · rw [h.ttl]; rfl
    · rw [h.narrive]; rfl
    · rw [h.nctx]; rfl
    · rw [h.unrouted]; rfl
    · rw [h.closed]; rfl
    · rw [h.slot]; rfl
    · rw [h.opened]; rfl
    · intro k; rw [h.btrace, (hc k).1]
    · intro k; rw [h.greq, (hc k).2.1]
    · intro k; rw [h.pipeId, (hc k).2.2.1]
    · intro k; rw [h.raio, (hc k).2.2.2]

/-! #### transfer: Inv1 only reads btrace/greq/pipeId of contexts, the sendqs, wire, discarded -/
theorem inv1_transfer {s s' : State}
    (hb : ∀ k, (s'.ctx k).btrace = (s.ctx k).btrace) (hg : ∀ k, (s'.ctx k).greq = (s.ctx k).greq)
    (hp : ∀ k, (s'.ctx k).pipeId = (s.ctx k).pipeId)
    (hq : ∀ p, ∀ e ∈ (s'.pipe p).sendq, e ∈ (s.pipe p).sendq)
    (hw : s'.wire = s.wire) (hd : s'.discarded = s.discarded) (h : Inv1 s) : Inv1 s' := by
  constructor
  · intro k; exact ctxOK_congr (hb k) (hg k) (hp k) (h.ctxOK k)
  · intro p e he; exact h.sendqOK p e (hq p e he)
  · rw [hw]; exact h.wireOK
  · rw [hd]; exact h.discOK

theorem dropHeld_frame (s : State) (p : Nat) :
    (dropHeld s p).ctx = s.ctx ∧ (dropHeld s p).pipe = s.pipe ∧ (dropHeld s p).wire = s.wire ∧
    (dropHeld s p).discarded = s.discarded ∧ (dropHeld s p).delivered = s.delivered ∧
    (dropHeld s p).npipes = s.npipes ∧ (dropHeld s p).writable = s.writable ∧ (dropHeld s p).ttl = s.ttl ∧
    (dropHeld s p).recvq = s.recvq ∧ (dropHeld s p).narrive = s.narrive ∧ (dropHeld s p).nctx = s.nctx := by
  unfold dropHeld
  split
  · dsimp only
    split <;> simp
  · simp

theorem raiseIfSock_frame (s : State) (p : Nat) :
    (raiseIfSock s p).ctx = s.ctx ∧ (raiseIfSock s p).pipe = s.pipe ∧ (raiseIfSock s p).wire = s.wire ∧
    (raiseIfSock s p).discarded = s.discarded ∧ (raiseIfSock s p).delivered = s.delivered ∧
    (raiseIfSock s p).npipes = s.npipes ∧ (raiseIfSock s p).recvpipes = s.recvpipes ∧ (raiseIfSock s p).readable = s.readable ∧
    (raiseIfSock s p).ttl = s.ttl ∧ (raiseIfSock s p).recvq = s.recvq ∧ (raiseIfSock s p).narrive = s.narrive ∧
    (raiseIfSock s p).nctx = s.nctx := by
  unfold raiseIfSock
  split <;> simp

theorem closePipe_inv1 (s : State) (p : Nat) (h : Inv1 s) : Inv1 (closePipe s p).1 := by
  unfold closePipe
  split
  · exact h
  · dsimp only
    have hf := clearSaio_frame (s.pipe p).sendq (dropHeld s p)
    have hd := dropHeld_frame s p
    have hr := raiseIfSock_frame (addDiscarded (clearSaio (dropHeld s p) (s.pipe p).sendq) ((s.pipe p).sendq.map (wireOf p))) p
    constructor
    · intro k
      refine ctxOK_congr ?_ ?_ ?_ (h.ctxOK k)
      · show ((raiseIfSock _ p).ctx k).btrace = _
        rw [hr.1]; show ((clearSaio _ _).ctx k).btrace = _; rw [hf.btrace, hd.1]
      · show ((raiseIfSock _ p).ctx k).greq = _
        rw [hr.1]; show ((clearSaio _ _).ctx k).greq = _; rw [hf.greq, hd.1]
      · show ((raiseIfSock _ p).ctx k).pipeId = _
        rw [hr.1]; show ((clearSaio _ _).ctx k).pipeId = _; rw [hf.pipeId, hd.1]
    · intro q e he
      rw [setPipe_pipe, upd_apply] at he
      by_cases hq : q = p
      · subst hq; simp at he
      · rw [if_neg hq, hr.2.1] at he
        have : (addDiscarded (clearSaio (dropHeld s p) (s.pipe p).sendq) ((s.pipe p).sendq.map (wireOf p))).pipe = s.pipe := by
          show (clearSaio _ _).pipe = _; rw [hf.pipe, hd.2.1]
        rw [this] at he
        exact h.sendqOK q e he
    · intro w hw
      rw [setPipe_wire, hr.2.2.1] at hw
      have : (addDiscarded (clearSaio (dropHeld s p) (s.pipe p).sendq) ((s.pipe p).sendq.map (wireOf p))).wire = s.wire := by
        show (clearSaio _ _).wire = _; rw [hf.wire, hd.2.2.1]
      rw [this] at hw
      exact h.wireOK w hw
    · intro w hw
      rw [setPipe_discarded, hr.2.2.2.1] at hw
      have : (addDiscarded (clearSaio (dropHeld s p) (s.pipe p).sendq) ((s.pipe p).sendq.map (wireOf p))).discarded
          = s.discarded ++ (s.pipe p).sendq.map (wireOf p) := by
        show (clearSaio _ _).discarded ++ _ = _; rw [hf.discarded, hd.2.2.2.1]
      rw [this, List.mem_append] at hw
      cases hw with
      | inl hw => exact h.discOK w hw
      | inr hw =>
        rw [List.mem_map] at hw
        obtain ⟨e, he, rfl⟩ := hw
        exact h.sendqOK p e he

/-! #### deliver -/
theorem deliver_ctx (s : State) (k : Nat) (r : Req) :
    (deliver s k r).ctx = upd s.ctx k { s.ctx k with btrace := r.bt, pipeId := some r.pipe, greq := some r } := by
  unfold deliver recvWritable; split <;> rfl

theorem deliver_pipe (s : State) (k : Nat) (r : Req) :
    (deliver s k r).pipe = upd s.pipe r.pipe { s.pipe r.pipe with armed := true } := by
  unfold deliver recvWritable; split <;> rfl

theorem deliver_wire (s : State) (k : Nat) (r : Req) :
    (deliver s k r).wire = s.wire ∧ (deliver s k r).discarded = s.discarded ∧
    (deliver s k r).delivered = s.delivered ++ [(k, r)] ∧ (deliver s k r).npipes = s.npipes ∧
    (deliver s k r).recvpipes = s.recvpipes ∧ (deliver s k r).readable = s.readable ∧ (deliver s k r).ttl = s.ttl ∧
    (deliver s k r).recvq = s.recvq ∧ (deliver s k r).narrive = s.narrive ∧ (deliver s k r).nctx = s.nctx := by
  unfold deliver recvWritable; split <;> simp

theorem deliver_inv1 (s : State) (k : Nat) (r : Req) (h : Inv1 s) : Inv1 (deliver s k r) := by
  constructor
  · intro k'
    rw [deliver_ctx, upd_apply]
    by_cases hk : k' = k
    · rw [if_pos hk]; intro _; exact ⟨r, rfl, rfl, rfl⟩
    · rw [if_neg hk]; exact h.ctxOK k'
  · intro p e he
    rw [deliver_pipe, upd_apply] at he
    by_cases hp : p = r.pipe
    · rw [if_pos hp] at he; subst hp; exact h.sendqOK _ e he
    · rw [if_neg hp] at he; exact h.sendqOK p e he
  · rw [(deliver_wire s k r).1]; exact h.wireOK
  · rw [(deliver_wire s k r).2.1]; exact h.discOK

/-- a pipe update that keeps the sendq (or shrinks it) keeps Inv1 -/
theorem inv1_setPipe (s : State) (p : Nat) (pp : Pipe) (hq : ∀ e ∈ pp.sendq, e ∈ (s.pipe p).sendq)
    (h : Inv1 s) : Inv1 (setPipe s p pp) := by
  refine inv1_transfer (s := s) (fun _ => rfl) (fun _ => rfl) (fun _ => rfl) ?_ rfl rfl h
  intro q e he
  rw [setPipe_pipe, upd_apply] at he
  by_cases hqp : q = p
  · rw [if_pos hqp] at he; subst hqp; exact hq e he
  · rw [if_neg hqp] at he; exact he

/-- a context update that keeps btrace / greq / pipeId keeps Inv1 -/
theorem inv1_setCtx (s : State) (k : Nat) (c : Ctx) (h1 : c.btrace = (s.ctx k).btrace) (h2 : c.greq = (s.ctx k).greq)
    (h3 : c.pipeId = (s.ctx k).pipeId) (h : Inv1 s) : Inv1 (setCtx s k c) := by
  refine inv1_transfer (s := s) ?_ ?_ ?_ (fun _ _ he => he) rfl rfl h
  all_goals
    intro k'
    rw [setCtx_ctx, upd_apply]
    by_cases hk : k' = k
    · rw [if_pos hk]; subst hk; assumption
    · rw [if_neg hk]

/-! #### pipeRecv (rep0_pipe_recv_cb) -/
theorem pipeRecv_inv1 (s : State) (p : Nat) (b : Bytes) (h : Inv1 s) : Inv1 (pipeRecv s p b).1 := by
  have h0 : Inv1 (setPipe s p { s.pipe p with armed := false }) := inv1_setPipe s p _ (fun _ he => he) h
  unfold pipeRecv
  dsimp only
  generalize setPipe s p { s.pipe p with armed := false } = s0 at h0 ⊢
  split
  · exact inv1_setPipe s0 p _ (fun _ he => he) h0
  · exact closePipe_inv1 _ _ h0
  · rename_i hdr body _
    split
    · exact inv1_transfer (s := s0) (fun _ => rfl) (fun _ => rfl) (fun _ => rfl) (fun _ _ he => he) rfl rfl h0
    · rename_i k rest _
      split
      · exact inv1_transfer (s := s0) (fun _ => rfl) (fun _ => rfl) (fun _ => rfl) (fun _ _ he => he) rfl rfl h0
      · rename_i pk _
        dsimp only
        apply deliver_inv1
        apply inv1_setCtx
        · rfl
        · rfl
        · rfl
        exact inv1_transfer (s := s0) (fun _ => rfl) (fun _ => rfl) (fun _ => rfl) (fun _ _ he => he) rfl rfl h0

/-- record updates that touch none of ctx / pipe / wire / discarded -/
theorem inv1_same {s s' : State} (hc : s'.ctx = s.ctx) (hp : s'.pipe = s.pipe) (hw : s'.wire = s.wire)
    (hd : s'.discarded = s.discarded) (h : Inv1 s) : Inv1 s' := by
  refine inv1_transfer (s := s) ?_ ?_ ?_ ?_ hw hd h
  · intro k; rw [hc]
  · intro k; rw [hc]
  · intro k; rw [hc]
  · intro p e he; rw [hp] at he; exact he

/-! #### ctxRecv (rep0_ctx_recv) -/
theorem ctxRecv_inv1 (s : State) (k a : Nat) (mode : Mode) (h : Inv1 s) : Inv1 (ctxRecv s k a mode).1 := by
  unfold ctxRecv
  split
  · split
    · exact h
    · exact h
    · split
      · exact h
      · dsimp only
        refine inv1_same (s := setCtx s k _) rfl rfl rfl rfl ?_
        apply inv1_setCtx
        · rfl
        · rfl
        · rfl
        exact h
  · rename_i r rest _
    dsimp only
    apply deliver_inv1
    split
    · exact inv1_same (s := s) rfl rfl rfl rfl h
    · exact inv1_same (s := s) rfl rfl rfl rfl h

/-! #### ctxSend (rep0_ctx_send) -/
theorem ctxSend_inv1 (s : State) (k a : Nat) (m : WMsg) (mode : Mode) (h : Inv1 s) : Inv1 (ctxSend s k a m mode).1 := by
  have hk := h.ctxOK k
  -- the state after the saved backtrace was consumed
  have h1 : Inv1 (setCtx s k { s.ctx k with btrace := [], pipeId := none }) := by
    constructor
    · intro k'
      rw [setCtx_ctx, upd_apply]
      by_cases hkk : k' = k
      · rw [if_pos hkk]; intro hne; exact absurd rfl hne
      · rw [if_neg hkk]; exact h.ctxOK k'
    · exact h.sendqOK
    · exact h.wireOK
    · exact h.discOK
  have h2 : Inv1 (if (k == 0) = true then setW (setCtx s k { s.ctx k with btrace := [], pipeId := none }) false
                  else setCtx s k { s.ctx k with btrace := [], pipeId := none }) := by
    split
    · exact inv1_same (s := setCtx s k _) rfl rfl rfl rfl h1
    · exact h1
  unfold ctxSend
  dsimp only
  split
  · exact h
  · generalize hs2 : (if (k == 0) = true then setW (setCtx s k { s.ctx k with btrace := [], pipeId := none }) false
                  else setCtx s k { s.ctx k with btrace := [], pipeId := none }) = s2 at h2 ⊢
    split
    · exact h2
    · rename_i hlen
      have hne : (s.ctx k).btrace ≠ [] := by
        intro he; apply hlen; rw [he]; rfl
      obtain ⟨r, hr1, hr2, hr3⟩ := hk hne
      split
      · exact h2
      · rename_i p hp
        have hpr : p = r.pipe := by
          rw [hr3] at hp; injection hp with hp; exact hp.symm
        have hok : ReqOK p (s.ctx k).btrace (s.ctx k).greq := ⟨r, hr1, hr2, hpr⟩
        split
        · -- pipe gone: discarded
          constructor
          · exact h2.ctxOK
          · exact h2.sendqOK
          · exact h2.wireOK
          · intro w hw
            simp only [List.mem_append, List.mem_singleton] at hw
            cases hw with
            | inl hw => exact h2.discOK w hw
            | inr hw => subst hw; exact hok
        · split
          · -- pipe idle: on the wire
            have h3 : Inv1 (setPipe s2 p { s2.pipe p with busy := true }) := inv1_setPipe s2 p _ (fun _ he => he) h2
            generalize setPipe s2 p { s2.pipe p with busy := true } = s3 at h3 ⊢
            have h4 : Inv1 (if ((s3.ctx 0).pipeId == some p) = true then setW s3 false else s3) := by
              split
              · exact inv1_same (s := s3) rfl rfl rfl rfl h3
              · exact h3
            generalize (if ((s3.ctx 0).pipeId == some p) = true then setW s3 false else s3) = s4 at h4 ⊢
            constructor
            · exact h4.ctxOK
            · exact h4.sendqOK
            · intro w hw
              simp only [List.mem_append, List.mem_singleton] at hw
              cases hw with
              | inl hw => exact h4.wireOK w hw
              | inr hw => subst hw; exact hok
            · exact h4.discOK
          · -- pipe busy
            split
            · exact h2
            · exact h2
            · -- park
              dsimp only
              have h3 : Inv1 (setCtx s2 k { s2.ctx k with saio := some a, spipe := some p }) := by
                apply inv1_setCtx
                · rfl
                · rfl
                · rfl
                exact h2
              generalize setCtx s2 k { s2.ctx k with saio := some a, spipe := some p } = s3 at h3 ⊢
              constructor
              · exact h3.ctxOK
              · intro q e he
                rw [setPipe_pipe, upd_apply] at he
                by_cases hq : q = p
                · rw [if_pos hq] at he
                  simp only [List.mem_append, List.mem_singleton] at he
                  cases he with
                  | inl he => subst hq; exact h3.sendqOK _ e he
                  | inr he => subst he; subst hq; exact hok
                · rw [if_neg hq] at he; exact h3.sendqOK q e he
              · exact h3.wireOK
              · exact h3.discOK

/-! #### pipeSent (rep0_pipe_send_cb, success) -/
theorem pipeSent_inv1 (s : State) (p : Nat) (h : Inv1 s) : Inv1 (pipeSent s p).1 := by
  unfold pipeSent
  dsimp only
  split
  · rename_i hq
    have h1 : Inv1 (setPipe s p { s.pipe p with busy := false }) := inv1_setPipe s p _ (fun _ he => he) h
    dsimp only
    split
    · exact inv1_same (s := setPipe s p _) rfl rfl rfl rfl h1
    · exact h1
  · rename_i e rest hq
    have he : ReqOK p e.hdr e.req := h.sendqOK p e (by rw [hq]; exact List.mem_cons_self)
    have h1 : Inv1 (setPipe s p { s.pipe p with busy := true, sendq := rest }) := by
      apply inv1_setPipe s p _ _ h
      intro e' he'
      rw [hq]; exact List.mem_cons_of_mem _ he'
    generalize setPipe s p { s.pipe p with busy := true, sendq := rest } = s1 at h1 ⊢
    have h2 : Inv1 (setCtx s1 e.ctx { s1.ctx e.ctx with saio := none, spipe := none }) := by
      apply inv1_setCtx
      · rfl
      · rfl
      · rfl
      exact h1
    generalize setCtx s1 e.ctx { s1.ctx e.ctx with saio := none, spipe := none } = s2 at h2 ⊢
    constructor
    · exact h2.ctxOK
    · exact h2.sendqOK
    · intro w hw
      simp only [List.mem_append, List.mem_singleton] at hw
      cases hw with
      | inl hw => exact h2.wireOK w hw
      | inr hw => subst hw; exact he
    · exact h2.discOK

/-! #### failAio (cancel functions), failAll, expire -/
theorem failAio_inv1 (s : State) (a rv : Nat) (h : Inv1 s) : Inv1 (failAio s a rv).1 := by
  unfold failAio
  split
  · rename_i k _
    dsimp only
    refine inv1_same (s := setCtx s k _) rfl rfl rfl rfl ?_
    apply inv1_setCtx
    · rfl
    · rfl
    · rfl
    exact h
  · split
    · rename_i k _
      dsimp only
      apply inv1_setCtx
      · rfl
      · rfl
      · rfl
      split
      · rename_i p _
        apply inv1_setPipe s p _ _ h
        intro e he
        exact (List.mem_filter.mp he).1
      · exact h
    · exact h

theorem failAll_inv1 (as : List Nat) (rv : Nat) : ∀ (s : State) (o : List Out), Inv1 s →
    Inv1 (as.foldl (fun (acc : State × List Out) a =>
      let (s', o) := failAio acc.1 a rv
      (s', acc.2 ++ o)) (s, o)).1 := by
  induction as with
  | nil => intro s o h; exact h
  | cons a as ih =>
    intro s o h
    rw [List.foldl_cons]
    exact ih _ _ (failAio_inv1 s a rv h)

theorem expire_inv1 (s : State) (h : Inv1 s) : Inv1 (expire s).1 := by
  unfold expire failAll
  exact failAll_inv1 _ _ s [] h

/-! #### ctxCloseParked (rep0_ctx_close), closeAll -/
theorem ctxCloseSend_inv1 (s : State) (k : Nat) (h : Inv1 s) : Inv1 (ctxCloseSend s k).1 := by
  unfold ctxCloseSend
  split
  · dsimp only
    apply inv1_setCtx
    · rfl
    · rfl
    · rfl
    split
    · rename_i p _
      apply inv1_setPipe s p _ _ h
      intro e he
      exact (List.mem_filter.mp he).1
    · exact h
  · exact h

theorem ctxCloseRecv_inv1 (s : State) (k : Nat) (h : Inv1 s) : Inv1 (ctxCloseRecv s k).1 := by
  unfold ctxCloseRecv
  split
  · dsimp only
    refine inv1_same (s := setCtx s k _) rfl rfl rfl rfl ?_
    apply inv1_setCtx
    · rfl
    · rfl
    · rfl
    exact h
  · exact h

theorem ctxCloseParked_inv1 (s : State) (k : Nat) (h : Inv1 s) : Inv1 (ctxCloseParked s k).1 := by
  unfold ctxCloseParked
  dsimp only
  apply inv1_setCtx
  · rfl
  · rfl
  · rfl
  exact ctxCloseRecv_inv1 _ k (ctxCloseSend_inv1 s k h)

theorem closeAll_inv1 (f : State → Nat → State × List Out) (hf : ∀ s k, Inv1 s → Inv1 (f s k).1) (ks : List Nat) :
    ∀ (s : State) (o : List Out), Inv1 s →
    Inv1 (ks.foldl (fun (acc : State × List Out) k =>
      let (s', o) := f acc.1 k
      (s', acc.2 ++ o)) (s, o)).1 := by
  induction ks with
  | nil => intro s o h; exact h
  | cons k ks ih =>
    intro s o h
    rw [List.foldl_cons]
    exact ih _ _ (hf s k h)

theorem closeAll_inv1' (f : State → Nat → State × List Out) (hf : ∀ s k, Inv1 s → Inv1 (f s k).1) (ks : List Nat)
    (s : State) (h : Inv1 s) : Inv1 (closeAll s ks f).1 := closeAll_inv1 f hf ks s [] h

/-- a fresh context has nothing saved -/
theorem inv1_setCtx_empty (s : State) (k : Nat) (c : Ctx) (hc : c.btrace = []) (h : Inv1 s) : Inv1 (setCtx s k c) := by
  constructor
  · intro k'
    rw [setCtx_ctx, upd_apply]
    by_cases hk : k' = k
    · rw [if_pos hk]; intro hne; exact absurd hc hne
    · rw [if_neg hk]; exact h.ctxOK k'
  · exact h.sendqOK
  · exact h.wireOK
  · exact h.discOK

theorem finishClose_inv1 (s : State) (h : Inv1 s) : Inv1 (finishClose s) :=
  inv1_same (s := s) rfl rfl rfl rfl h

/-! #### step -/
theorem step_inv1 (s : State) (ev : Ev) (h : Inv1 s) : Inv1 (step s ev).1 := by
  unfold step
  split
  · -- not yet opened
    split
    · exact inv1_setCtx_empty _ 0 _ rfl (inv1_same (s := s) rfl rfl rfl rfl h)
    · exact inv1_same (s := s) rfl rfl rfl rfl h
    · exact h
  · split
    · split
      · exact inv1_same (s := s) rfl rfl rfl rfl h
      · exact h
    · split
      · exact h
      · -- pipeAdd
        dsimp only
        have h1 : Inv1 (addPipeSlot s) := inv1_same (s := s) rfl rfl rfl rfl h
        split
        · exact inv1_setPipe _ _ _ (by intro e he; cases he) h1
        · exact inv1_setPipe _ _ _ (by intro e he; cases he) h1
      · -- pipeDrop
        split
        · exact closePipe_inv1 s _ h
        · exact h
      · -- sendDone
        split
        · exact h
        · split
          · exact closePipe_inv1 s _ h
          · exact pipeSent_inv1 s _ h
      · -- recvDone
        split
        · exact h
        · split
          · exact closePipe_inv1 s _ h
          · exact pipeRecv_inv1 s _ _ h
      · -- send
        split
        · exact h
        · split
          · exact h
          · exact ctxSend_inv1 s _ _ _ _ h
      · -- recv
        split
        · exact h
        · split
          · exact h
          · exact ctxRecv_inv1 s _ _ _ h
      · exact failAio_inv1 s _ _ h
      · exact failAio_inv1 s _ _ h
      · exact expire_inv1 _ (inv1_same (s := s) rfl rfl rfl rfl h)
      · -- ctxOpen
        split
        · exact h
        · exact inv1_setCtx_empty _ _ _ rfl (inv1_same (s := s) rfl rfl rfl rfl h)
      · -- ctxClose
        split
        · exact h
        · split
          · exact h
          · exact inv1_same (s := (ctxCloseParked s _).1) rfl rfl rfl rfl (ctxCloseParked_inv1 s _ h)
      · -- setopt ttl-max
        split
        · exact h
        · exact inv1_same (s := s) rfl rfl rfl rfl h
      · exact h
      · exact h
      · exact h
      · exact h
      · exact h
      · exact h
      · -- close
        dsimp only
        apply finishClose_inv1
        apply closeAll_inv1' _ ctxCloseParked_inv1
        apply closeAll_inv1' _ closePipe_inv1
        apply closeAll_inv1' _ ctxCloseParked_inv1
        exact h

/-- states reachable from the initial state -/
def runState (s : State) (evs : List Ev) : State := (run s evs).1

theorem run_inv1 (evs : List Ev) : ∀ s, Inv1 s → Inv1 (run s evs).1 := by
  induction evs with
  | nil => intro s h; exact h
  | cons e es ih =>
    intro s h
    exact ih _ (step_inv1 s e h)

end Nng.RepProofs
