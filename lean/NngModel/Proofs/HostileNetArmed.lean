/-
  C11T — the general SP/UDP endpoint model with the socket of `udpStep` on top (`armedStep`) IS `udpStep`
  (Model/HostileNet.lean), the model the REAL executor is compared with on every run.
-/
import NngModel.Proofs.HostileNetQ
namespace Nng.Hostile
open Nng

def absMap (l : List (Nat × QPipe)) : List (Nat × UAssoc) := l.map fun e => (e.1, (⟨e.2.peer⟩ : UAssoc))

theorem abs_assocs (ep : QEp) : ep.abs.assocs = absMap ep.pipes := rfl

theorem uLookup_absMap (l : List (Nat × QPipe)) (s : Nat) :
    uLookup (absMap l) s = (qLookup l s).map fun x => (⟨x.peer⟩ : UAssoc) := by
  induction l with
  | nil => rfl
  | cons e l ih =>
    rw [qLookup_cons]
    unfold uLookup absMap at ih ⊢
    by_cases he : e.1 = s
    · simp [he]
    · simp [he]
      simpa using ih

theorem absMap_erase (l : List (Nat × QPipe)) (s : Nat) : absMap (qSet l s none) = uErase (absMap l) s := by
  unfold qSet uErase absMap
  induction l with
  | nil => rfl
  | cons e l ih =>
    by_cases he : e.1 = s
    · simp [he]; simpa using ih
    · simp [he]; simpa using ih

theorem absMap_put_some (l : List (Nat × QPipe)) (s : Nat) (x y : QPipe) (h : qLookup l s = some x) (hp : y.peer = x.peer) :
    absMap (qSet l s (some y)) = absMap l := by
  show absMap (qPut l s y) = absMap l
  induction l with
  | nil => simp [qLookup_nil] at h
  | cons e l ih =>
    rw [qLookup_cons] at h
    unfold qPut
    by_cases he : e.1 = s
    · simp [he] at h
      simp [he, absMap, hp, ← h]
    · simp [he] at h
      have := ih h
      simp [he, absMap] at this ⊢
      exact this

theorem absMap_put_none (l : List (Nat × QPipe)) (s : Nat) (y : QPipe) (h : qLookup l s = none) :
    absMap (qSet l s (some y)) = absMap l ++ [(s, ⟨y.peer⟩)] := by
  show absMap (qPut l s y) = _
  rw [qPut_none l s y h]
  simp [absMap]

theorem qPut_qPut (l : List (Nat × QPipe)) (s : Nat) (x y : QPipe) : qPut (qPut l s x) s y = qPut l s y := by
  induction l with
  | nil => simp [qPut]
  | cons e l ih =>
    unfold qPut
    by_cases he : e.1 = s
    · simp [he, qPut]
    · simp [he]
      rw [qPut]
      simp [he, ih]

theorem filter_qPut (l : List (Nat × QPipe)) (s : Nat) (x : QPipe) :
    (qPut l s x).filter (·.1 != s) = l.filter (·.1 != s) := by
  induction l with
  | nil => simp [qPut]
  | cons e l ih =>
    unfold qPut
    by_cases he : e.1 = s
    · simp [he]
    · simp [he, ih]

/-- a second write to the same address replaces the first -/
theorem qSet_qSet_some (l : List (Nat × QPipe)) (s : Nat) (x : QPipe) (w : Option QPipe) :
    qSet (qSet l s (some x)) s w = qSet l s w := by
  cases w with
  | none => exact filter_qPut l s x
  | some y => exact qPut_qPut l s x y

/-- settled: every pipe open, nothing queued, one receive posted -/
def EpSettled (ep : QEp) : Prop := ∀ s x, qLookup ep.pipes s = some x → x.settled = true

theorem settled_iff (x : QPipe) : x.settled = true ↔ x.closed = false ∧ x.rxq = [] ∧ x.aios = 1 := by
  unfold QPipe.settled
  cases x.closed <;> cases x.rxq <;> simp

theorem qSet_qSet (l : List (Nat × QPipe)) (s : Nat) (v w : Option QPipe) (h : v = none → w = none) :
    qSet (qSet l s v) s w = qSet l s w := by
  cases v with
  | some x => exact qSet_qSet_some l s x w
  | none =>
    rw [h rfl]
    show (l.filter _).filter _ = l.filter _
    simp

/-- a receive or a close at the address that has just had an event: one write -/
theorem qStep_twice (ep : QEp) (s : Nat) (e1 e2 : QEv) (h2 : e2 = .recv ∨ e2 = .close) :
    qStep (qStep ep s e1).1 s e2 =
      ({ ep with pipes := qSet ep.pipes s (p1Step ep.cfg ep.limit (p1Step ep.cfg ep.limit (qLookup ep.pipes s) e1).1 e2).1 },
       (p1Step ep.cfg ep.limit (p1Step ep.cfg ep.limit (qLookup ep.pipes s) e1).1 e2).2) := by
  have hl : ∀ l1 l2 p, p1Step ep.cfg l1 p e2 = p1Step ep.cfg l2 p e2 := by
    intro l1 l2 p; rcases h2 with h | h <;> rw [h] <;> rfl
  have hn : (p1Step ep.cfg ep.limit (qLookup ep.pipes s) e1).1 = none →
      (p1Step ep.cfg ep.limit (p1Step ep.cfg ep.limit (qLookup ep.pipes s) e1).1 e2).1 = none := by
    intro h; rw [h]; rcases h2 with h | h <;> rw [h] <;> rfl
  unfold qStep
  simp only [qLookup_qSet_self]
  rw [hl _ ep.limit, qSet_qSet _ _ _ _ hn]


/-- the per-address part of `armedStep`: the pipe the address ends with and the `udpStep` output -/
def armedA (pc : PCfg) (c : QCfg) (lim busy : Bool) (p : Option QPipe) (act : UdpAct) : Option QPipe × UOut :=
  let r1 := qOnAct c lim act p
  let o := r1.2
  if o.added then
    if pipeStart pc.proto (creqType o.act) busy ≠ 0 then
      let r2 := p1Step c lim r1.1 .close
      (r2.1, { act := o.act, replies := o.replies ++ r2.2.replies, reaps := 1 })
    else
      let r2 := p1Step c lim r1.1 .recv
      (r2.1, { act := o.act, replies := o.replies, adds := 1 })
  else if o.pclose then
    let r2 := p1Step c lim r1.1 .close
    (r2.1, { act := o.act, replies := o.replies ++ r2.2.replies, reaps := 1 })
  else
    match o.handed with
    | [m] =>
      match protoRecv pc 0 none m with
      | .deliver h b => ((p1Step c lim r1.1 .recv).1, { act := o.act, replies := o.replies, tmsg := some m, deliver := some (h, b) })
      | .closePipe =>
        let r2 := p1Step c lim r1.1 .close
        (r2.1, { act := o.act, replies := o.replies ++ r2.2.replies, reaps := 1, tmsg := some m })
      | _ => ((p1Step c lim r1.1 .recv).1, { act := o.act, replies := o.replies, tmsg := some m })
    | _ => (r1.1, { act := o.act, replies := o.replies })

def armedP (pc : PCfg) (c : QCfg) (lim busy : Bool) (p : Option QPipe) (d : Bytes) : Option QPipe × UOut :=
  armedA pc c lim busy p (udpRxCb d p.isSome c.rcvmax)

/-- `armedStep` is one write of what `armedP` computes for the address -/
theorem armedStep_eq (pc : PCfg) (ep : QEp) (s : Nat) (d : Bytes) :
    armedStep pc ep s d =
      ({ ep with pipes := qSet ep.pipes s (armedP pc ep.cfg ep.limit (uBusy pc ep.abs) (qLookup ep.pipes s) d).1 },
       (armedP pc ep.cfg ep.limit (uBusy pc ep.abs) (qLookup ep.pipes s) d).2) := by
  unfold armedStep armedP armedA
  simp only [qStep_twice ep s (.dgram d) .recv (Or.inl rfl), qStep_twice ep s (.dgram d) .close (Or.inr rfl), qStep_out]
  have hd : qOnAct ep.cfg ep.limit (udpRxCb d (qLookup ep.pipes s).isSome ep.cfg.rcvmax) (qLookup ep.pipes s) =
      p1Step ep.cfg ep.limit (qLookup ep.pipes s) (.dgram d) := rfl
  rw [hd]
  have hq1 : (qStep ep s (.dgram d)).1 =
      { ep with pipes := qSet ep.pipes s (p1Step ep.cfg ep.limit (qLookup ep.pipes s) (.dgram d)).1 } := rfl
  rw [hq1]
  generalize p1Step ep.cfg ep.limit (qLookup ep.pipes s) (.dgram d) = r1
  generalize creqType r1.2.act = t
  by_cases h1 : r1.2.added = true
  · simp only [h1, if_true]
    by_cases h2 : pipeStart pc.proto t (uBusy pc ep.abs) = 0
    · simp only [h2, ne_eq, not_true_eq_false, if_false]
    · simp only [h2, ne_eq, not_false_eq_true, if_true]
  · simp only [h1, Bool.false_eq_true, if_false]
    by_cases h2 : r1.2.pclose = true
    · simp only [h2, if_true]
    · simp only [h2, Bool.false_eq_true, if_false]
      generalize r1.2.handed = hd
      match hd with
      | [] => rfl
      | [m] =>
        simp only
        generalize protoRecv pc 0 none m = pr
        cases pr <;> rfl
      | _ :: _ :: _ => rfl


/-! ### `udpStep`, per address -/

/-- what `udpStep` does with the association it found for the sender -/
def uOnAct (pc : PCfg) (lim busy : Bool) (act : UdpAct) (a : Option UAssoc) : Option UAssoc × UOut :=
  match act, a with
  | .data p, some x =>
    match protoRecv pc 0 none p with
    | .deliver h b => (some x, { act := act, tmsg := some p, deliver := some (h, b) })
    | .closePipe => (none, { act := act, tmsg := some p, replies := [.disc discClosed], reaps := 1 })
    | _ => (some x, { act := act, tmsg := some p })
  | .discMsgsize, some _ => (none, { act := act, replies := [.disc discMsgsize], reaps := 1 })
  | .creq t _ rf, some x =>
    if x.peer ≠ t then (none, { act := act, replies := [.disc discType], reaps := 1 })
    else if rf = 0 then (none, { act := act, replies := [.disc discNego], reaps := 1 })
    else (some x, { act := act, replies := [.cack] })
  | .creq t _ rf, none =>
    if lim then (none, { act := act, replies := [.disc discNobuf] })
    else if rf = 0 then (none, { act := act, replies := [.disc discNego] })
    else if pipeStart pc.proto t busy ≠ 0 then (none, { act := act, replies := [.cack, .disc discClosed], reaps := 1 })
    else (some ⟨t⟩, { act := act, replies := [.cack], adds := 1 })
  | .cack t _ rf, some x =>
    if x.peer ≠ t then (none, { act := act, replies := [.disc discType], reaps := 1 })
    else if rf = 0 then (none, { act := act, replies := [.disc discNego], reaps := 1 })
    else (some x, { act := act })
  | .disc _, some _ => (none, { act := act, reaps := 1 })
  | .discProto, _ => (a, { act := act, replies := [.disc discProto] })
  | _, _ => (a, { act := act })

def uP (pc : PCfg) (rcvmax : Nat) (lim busy : Bool) (a : Option UAssoc) (d : Bytes) : Option UAssoc × UOut :=
  uOnAct pc lim busy (udpRxCb d a.isSome rcvmax) a

/-- writing back: an association that goes is erased, one that stays is left where it is, a new one is appended -/
def uWrite (l : List (Nat × UAssoc)) (s : Nat) (v : Option UAssoc) : List (Nat × UAssoc) :=
  match v with
  | none => uErase l s
  | some y => if (uLookup l s).isSome then l else l ++ [(s, y)]

theorem uLookup_cons (e : Nat × UAssoc) (l : List (Nat × UAssoc)) (s : Nat) :
    uLookup (e :: l) s = if e.1 = s then some e.2 else uLookup l s := by
  unfold uLookup
  by_cases h : e.1 = s
  · simp [h]
  · simp [h]

theorem uErase_of_none (l : List (Nat × UAssoc)) (s : Nat) (h : uLookup l s = none) : uErase l s = l := by
  induction l with
  | nil => rfl
  | cons e l ih =>
    rw [uLookup_cons] at h
    by_cases he : e.1 = s
    · simp [he] at h
    · simp [he] at h
      unfold uErase at ih ⊢
      rw [List.filter_cons_of_pos (by simp [he]), ih h]

/-- max_peers != 0 && peer_count >= max_peers, as `udpStep` writes it -/
def uLimit (u : UEp) : Bool := decide (u.maxPeers ≠ 0 ∧ u.others + u.assocs.length ≥ u.maxPeers)

theorem udpStep_eq (pc : PCfg) (u : UEp) (s : Nat) (d : Bytes) :
    udpStep pc u s d =
      ({ u with assocs := uWrite u.assocs s (uP pc u.rcvmax (uLimit u) (uBusy pc u) (uLookup u.assocs s) d).1 },
       (uP pc u.rcvmax (uLimit u) (uBusy pc u) (uLookup u.assocs s) d).2) := by
  unfold uLimit
  unfold udpStep uP
  simp only
  generalize udpRxCb d (uLookup u.assocs s).isSome u.rcvmax = act
  unfold uOnAct
  cases hl : uLookup u.assocs s with
  | none =>
    have he := uErase_of_none u.assocs s hl
    cases act <;> simp only [uWrite, he, hl, Option.isSome_none, Bool.false_eq_true, if_false]
    rename_i t rm rf
    by_cases h1 : u.maxPeers ≠ 0 ∧ u.others + u.assocs.length ≥ u.maxPeers
    · have hd : decide (u.maxPeers ≠ 0 ∧ u.others + u.assocs.length ≥ u.maxPeers) = true := decide_eq_true h1
      rw [if_pos h1, hd]
      simp only [if_true, he]
    · have hd : decide (u.maxPeers ≠ 0 ∧ u.others + u.assocs.length ≥ u.maxPeers) = false := decide_eq_false h1
      rw [if_neg h1, hd]
      simp only [Bool.false_eq_true, if_false]
      by_cases h2 : rf = 0
      · rw [if_pos h2, if_pos h2]
      · rw [if_neg h2, if_neg h2]
        by_cases h3 : pipeStart pc.proto t (uBusy pc u) ≠ 0
        · rw [if_pos h3, if_pos h3]
        · rw [if_neg h3, if_neg h3]
  | some x =>
    cases act <;> simp only [uWrite, hl, Option.isSome_some, if_true]
    · rename_i pl
      generalize protoRecv pc 0 none pl = pr
      cases pr <;> simp [hl]
    · rename_i t rm rf
      by_cases h1 : x.peer = t
      · by_cases h2 : rf = 0
        · simp [h1, h2]
        · simp [h1, h2, hl]
      · simp [h1]
    · rename_i t rm rf
      by_cases h1 : x.peer = t
      · by_cases h2 : rf = 0
        · simp [h1, h2]
        · simp [h1, h2, hl]
      · simp [h1]


def peerOf (o : Option QPipe) : Option UAssoc := o.map fun x => (⟨x.peer⟩ : UAssoc)

theorem peerOf_isSome (o : Option QPipe) : (peerOf o).isSome = o.isSome := by cases o <;> rfl

/-- an address without a pipe -/
theorem armedA_none (pc : PCfg) (c : QCfg) (lim busy : Bool) (act : UdpAct) :
    peerOf (armedA pc c lim busy none act).1 = (uOnAct pc lim busy act none).1 ∧
    (armedA pc c lim busy none act).2 = (uOnAct pc lim busy act none).2 ∧
    (∀ y, (armedA pc c lim busy none act).1 = some y → y.settled = true) := by
  unfold armedA
  cases act <;> simp only [qOnAct, uOnAct]
  all_goals first
    | (simp [peerOf]; done)
    | skip
  rename_i t rm rf
  unfold qCreqNew
  cases lim with
  | true => simp [peerOf]
  | false =>
    by_cases h2 : rf = 0
    · simp [h2, peerOf]
    · by_cases h3 : pipeStart pc.proto t busy = 0
      · simp [h2, h3, peerOf, creqType, p1Step, qRecv, QPipe.settled]
      · simp [h2, h3, peerOf, creqType, p1Step, qClose]


/-- an address with a settled pipe -/
theorem armedA_some (pc : PCfg) (c : QCfg) (lim busy : Bool) (x : QPipe) (act : UdpAct) (hx : x.settled = true) :
    peerOf (armedA pc c lim busy (some x) act).1 = (uOnAct pc lim busy act (some ⟨x.peer⟩)).1 ∧
    (armedA pc c lim busy (some x) act).2 = (uOnAct pc lim busy act (some ⟨x.peer⟩)).2 ∧
    (∀ y, (armedA pc c lim busy (some x) act).1 = some y → y.settled = true ∧ y.peer = x.peer) := by
  obtain ⟨pr, cl, rq, ai⟩ := x
  obtain ⟨h1, h2, h3⟩ := (settled_iff _).1 hx
  simp only at h1 h2 h3
  subst h1 h2 h3
  unfold armedA
  cases act <;> simp only [qOnAct, uOnAct]
  · -- ignore
    simp [peerOf, QPipe.settled]
  · -- noMatch
    simp [peerOf, QPipe.settled]
  · -- data
    rename_i pl
    simp only [qRecvData]
    simp only [List.length_nil, List.drop_nil, ite_self, List.nil_append, List.length_cons, Nat.zero_add, Nat.min_self,
      List.take_succ_cons, List.take_zero, List.drop_succ_cons, List.drop_zero, Nat.sub_self, Bool.false_eq_true, if_false]
    generalize protoRecv pc 0 none pl = prv
    cases prv <;> simp [peerOf, p1Step, qRecv, qClose, QPipe.settled]
  · -- discMsgsize
    simp [qSendDisc, peerOf, p1Step, qClose]
  · -- creq
    rename_i t rm rf
    unfold qCreqKnown
    by_cases h1 : pr = t
    · by_cases h2 : rf = 0
      · simp [h1, h2, qSendDisc, peerOf, p1Step, qClose]
      · simp [h1, h2, peerOf, QPipe.settled]
    · simp [h1, qSendDisc, peerOf, p1Step, qClose]
  · -- cack
    rename_i t rm rf
    unfold qCackKnown
    by_cases h1 : pr = t
    · by_cases h2 : rf = 0
      · simp [h1, h2, qSendDisc, peerOf, p1Step, qClose]
      · simp [h1, h2, peerOf, QPipe.settled]
    · simp [h1, qSendDisc, peerOf, p1Step, qClose]
  · -- disc
    simp [peerOf, p1Step, qClose]
  · -- discProto
    simp [peerOf, QPipe.settled]


theorem uLimit_abs (ep : QEp) : uLimit ep.abs = ep.limit := by
  unfold uLimit QEp.limit QEp.peerCount QEp.abs
  simp

theorem uLookup_abs (ep : QEp) (s : Nat) : uLookup ep.abs.assocs s = peerOf (qLookup ep.pipes s) :=
  uLookup_absMap ep.pipes s

/-- REFINEMENT: on settled endpoints (every pipe open, nothing queued, one receive posted — the states the REAL
    executor waits for) the general model with the socket on top is `udpStep`: same answers, pipe events, hand-overs
    and deliveries, same associations afterwards, settled again. -/
theorem armed_is_udpStep (pc : PCfg) (ep : QEp) (s : Nat) (d : Bytes) (hs : EpSettled ep) :
    (armedStep pc ep s d).1.abs = (udpStep pc ep.abs s d).1 ∧
    (armedStep pc ep s d).2 = (udpStep pc ep.abs s d).2 ∧
    EpSettled (armedStep pc ep s d).1 := by
  rw [armedStep_eq, udpStep_eq, uLimit_abs, uLookup_abs]
  have hrc : ep.abs.rcvmax = ep.cfg.rcvmax := rfl
  rw [hrc]
  unfold armedP uP
  rw [peerOf_isSome]
  generalize udpRxCb d (qLookup ep.pipes s).isSome ep.cfg.rcvmax = act
  cases hl : qLookup ep.pipes s with
  | none =>
    obtain ⟨h1, h2, h3⟩ := armedA_none pc ep.cfg ep.limit (uBusy pc ep.abs) act
    have hlu : uLookup (absMap ep.pipes) s = none := by rw [uLookup_absMap, hl]; rfl
    refine ⟨?_, h2, ?_⟩
    · show ({ rcvmax := _, maxPeers := _, others := _, assocs := absMap (qSet ep.pipes s _) } : UEp) = _
      simp only [peerOf, Option.map_none] at h1 ⊢
      rw [← h1]
      cases hr : (armedA pc ep.cfg ep.limit (uBusy pc ep.abs) none act).1 with
      | none =>
        simp only [Option.map_none, uWrite, abs_assocs]
        rw [absMap_erase]
        rfl
      | some y =>
        simp only [Option.map_some, uWrite, abs_assocs, hlu, Option.isSome_none, Bool.false_eq_true, if_false]
        rw [absMap_put_none _ _ _ hl]
        rfl
    · intro a z hz
      by_cases ha : a = s
      · subst ha
        rw [qLookup_qSet_self] at hz
        exact h3 z hz
      · rw [qLookup_qSet_ne _ _ _ _ ha] at hz
        exact hs a z hz
  | some x =>
    have hx := hs s x hl
    obtain ⟨h1, h2, h3⟩ := armedA_some pc ep.cfg ep.limit (uBusy pc ep.abs) x act hx
    have hlu : uLookup (absMap ep.pipes) s = some ⟨x.peer⟩ := by rw [uLookup_absMap, hl]; rfl
    refine ⟨?_, h2, ?_⟩
    · show ({ rcvmax := _, maxPeers := _, others := _, assocs := absMap (qSet ep.pipes s _) } : UEp) = _
      simp only [peerOf, Option.map_some] at h1 ⊢
      rw [← h1]
      cases hr : (armedA pc ep.cfg ep.limit (uBusy pc ep.abs) (some x) act).1 with
      | none =>
        simp only [Option.map_none, uWrite, abs_assocs]
        rw [absMap_erase]
        rfl
      | some y =>
        simp only [Option.map_some, uWrite, abs_assocs, hlu, Option.isSome_some, if_true]
        rw [absMap_put_some _ _ x y hl (h3 y hr).2]
        rfl
    · intro a z hz
      by_cases ha : a = s
      · subst ha
        rw [qLookup_qSet_self] at hz
        exact (h3 z hz).1
      · rw [qLookup_qSet_ne _ _ _ _ ha] at hz
        exact hs a z hz

/-- a session: the settled endpoint run over datagrams is `udpRun` -/
def armedRun (pc : PCfg) : QEp → List (Nat × Bytes) → List UOut
  | _, [] => []
  | ep, (s, d) :: rest => (armedStep pc ep s d).2 :: armedRun pc (armedStep pc ep s d).1 rest

theorem armedRun_is_udpRun (pc : PCfg) (ds : List (Nat × Bytes)) : ∀ (ep : QEp), EpSettled ep →
    armedRun pc ep ds = udpRun pc ep.abs ds := by
  induction ds with
  | nil => intro ep _; rfl
  | cons x rest ih =>
    intro ep hs
    obtain ⟨s, d⟩ := x
    obtain ⟨h1, h2, h3⟩ := armed_is_udpStep pc ep s d hs
    simp only [armedRun, udpRun]
    rw [h2, ih _ h3, h1]

end Nng.Hostile
