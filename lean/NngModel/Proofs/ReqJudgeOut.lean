/-
  Shapes of the model's output lists.
-/
import NngModel.Proofs.ReqJudgePh
import NngModel.Proofs.ReqJudgeTx
namespace Nng.ReqJ
open Nng Nng.Proto Nng.Req Nng.ReqSpec

theorem sendOne_tx (s : State) (k p : Nat) : ∀ x, x ∈ (sendOne s k p).2 → isTx x = true := by
  unfold sendOne
  dsimp only
  intro x hx
  cases hs : (s.ctx k).sendAio with
  | none =>
    cases hm : (s.ctx k).reqMsg with
    | none => simp [hs, hm] at hx
    | some h => simp [hs, hm] at hx; subst hx; rfl
  | some ua =>
    cases hm : (s.ctx k).reqMsg with
    | none => simp [hs, hm] at hx; subst hx; rfl
    | some h =>
      simp [hs, hm] at hx
      rcases hx with hx | hx <;> (subst hx; rfl)

theorem runQ_tx (fuel : Nat) (s : State) : ∀ x, x ∈ (runQ fuel s).2 → isTx x = true := by
  induction fuel generalizing s with
  | zero => intro x hx; simp [runQ] at hx
  | succ n ih =>
    unfold runQ
    split
    · intro x hx
      dsimp only at hx
      rcases List.mem_append.1 hx with h | h
      · exact sendOne_tx _ _ _ x h
      · exact ih _ x h
    · intro x hx; simp at hx

theorem runSendQueue_tx (s : State) : ∀ x, x ∈ (runSendQueue s).2 → isTx x = true := runQ_tx _ s

end Nng.ReqJ
