/-
  The end of an exchange by cancellation (req0_ctx_reset with the parked operations failed): the
  model's side (`wipeSt`) and the judge's side (`wipeJ`), and that they stay related.
-/
import NngModel.Proofs.ReqJudgeMv
namespace Nng.ReqJ
open Nng Nng.Proto Nng.Req Nng.ReqSpec

/-- context `k` gives up its request, its stashed reply and its parked send; with `dr` also its parked
    receive; `cr` is the new value of the latch -/
def wipeCtx (c : Ctx) (dr cr : Bool) : Ctx :=
  { c with recvAio := if dr then none else c.recvAio, sendAio := none, requestId := 0, reqMsg := none,
           repMsg := none, connReset := cr, wired := false, wireCount := 0, everRetry := false }

def wipeSt (s : State) (k : Nat) (dr cr : Bool) : State :=
  { s with sendQueue := s.sendQueue.erase k, pipe := eraseCtxs s.pipe k,
           ctx := upd s.ctx k (wipeCtx (s.ctx k) dr cr) }

def wipeCJ (cj : CJ) (dr cr : Bool) : CJ :=
  { cj with req := none, stash := none, latched := cr, recvWait := if dr then none else cj.recvWait }

def wipeJ (j : J) (k : Nat) (dr cr : Bool) : J := setC j k (wipeCJ (j.ctx k) dr cr)

theorem wipeSt_ctx_other (s : State) (k x : Nat) (dr cr : Bool) (hx : x ≠ k) : (wipeSt s k dr cr).ctx x = s.ctx x := by
  simp [wipeSt, upd, hx]

theorem wipeSt_ctx_same (s : State) (k : Nat) (dr cr : Bool) : (wipeSt s k dr cr).ctx k = wipeCtx (s.ctx k) dr cr := by
  simp [wipeSt, upd]

theorem wipeSt_pipe_mem (s : State) (k x q : Nat) (dr cr : Bool) (hx : x ≠ k) :
    x ∈ ((wipeSt s k dr cr).pipe q).ctxs ↔ x ∈ (s.pipe q).ctxs := by
  simp [wipeSt, eraseCtxs, List.mem_erase_of_ne hx]

theorem wipeSt_pipe_self (s : State) (k q : Nat) (dr cr : Bool) (hn : (s.pipe q).ctxs.Nodup) :
    k ∉ ((wipeSt s k dr cr).pipe q).ctxs := by
  simp only [wipeSt, eraseCtxs]; exact hn.not_mem_erase

theorem wipeSt_liveH (s : State) (k x : Nat) (dr cr : Bool) (hl : LiveH (wipeSt s k dr cr) x) : LiveH s x := by
  rcases hl with hl | ⟨k', hl⟩
  · exact Or.inl hl
  · by_cases e : k' = k
    · subst e; rw [wipeSt_ctx_same] at hl; cases hl
    · rw [wipeSt_ctx_other _ _ _ _ _ e] at hl; exact Or.inr ⟨k', hl⟩

theorem wipe_frame {s : State} {j j' : J} (k x : Nat) (dr cr : Bool) {cj : CJ} (hx : x ≠ k)
    (hjs : j'.tickStable = j.tickStable) (hjt : j'.tick = j.tick) (h0 : RCx s j x cj) : RCx (wipeSt s k dr cr) j' x cj :=
  h0.frame (wipeSt_ctx_other s k x dr cr hx) (fun _ _ => rfl) (fun _ _ _ hi => hi) (Nat.le_refl _)
    (fun q => wipeSt_pipe_mem s k x q dr cr hx) (fun _ _ hc => hc)
    (by show x ∈ s.sendQueue.erase k ↔ _; rw [List.mem_erase_of_ne hx]) (Nat.le_refl _) (Or.inl rfl) hjs hjt

theorem wipe_MI {rest : List Ev} {s : State} (k : Nat) (dr cr : Bool) (hm : MI rest s)
    (hnd : ∀ q, (s.pipe q).ctxs.Nodup) (hdr : dr = true ∨ cr = false) (hlv : cr = true → (s.ctx k).live = true) :
    MI rest (wipeSt s k dr cr) := by
  constructor
  · intro k' hk'
    by_cases e : k' = k
    · subst e; rw [wipeSt_ctx_same]; exact hm.biglive k' hk'
    · rw [wipeSt_ctx_other _ _ _ _ _ e]; exact hm.biglive k' hk'
  · intro k' hk'
    by_cases e : k' = k
    · subst e; rw [wipeSt_ctx_same] at hk' ⊢
      have hl : (s.ctx k').live = false := hk'
      have := hm.dead k' hl
      refine ⟨rfl, ?_, rfl, rfl, ?_⟩
      · simp only [wipeCtx]; split
        · rfl
        · exact this.2.1
      · cases cr with
        | false => rfl
        | true => rw [hlv rfl] at hl; cases hl
    · rw [wipeSt_ctx_other _ _ _ _ _ e] at hk' ⊢; exact hm.dead k' hk'
  · have sub : ∀ k' b a, aioOf (wipeSt s k dr cr) k' b = some a → aioOf s k' b = some a := by
      intro k' b a ha
      by_cases e : k' = k
      · subst e
        unfold aioOf at ha ⊢
        rw [wipeSt_ctx_same] at ha
        cases b
        · simp only [wipeCtx, Bool.false_eq_true, if_false] at ha ⊢
          split at ha
          · cases ha
          · exact ha
        · simp [wipeCtx] at ha
      · unfold aioOf at ha ⊢
        rw [wipeSt_ctx_other _ _ _ _ _ e] at ha
        exact ha
    intro k1 b1 k2 b2 a h1 h2
    exact hm.park k1 b1 k2 b2 a (sub _ _ _ h1) (sub _ _ _ h2)
  · intro k' hk'
    by_cases e : k' = k
    · subst e; rw [wipeSt_ctx_same] at hk' ⊢
      refine ⟨rfl, rfl, ?_, rfl⟩
      have : cr = true := hk'
      rcases hdr with a | a
      · simp [wipeCtx, a]
      · rw [a] at this; cases this
    · rw [wipeSt_ctx_other _ _ _ _ _ e] at hk' ⊢; exact hm.creset k' hk'
  · intro k' hk'
    by_cases e : k' = k
    · subst e; rw [wipeSt_ctx_same] at hk'; cases hk'
    · rw [wipeSt_ctx_other _ _ _ _ _ e] at hk' ⊢; exact hm.rep k' hk'
  · intro k' q hk'
    by_cases e : k' = k
    · subst e; exact absurd hk' (wipeSt_pipe_self s k' q dr cr (hnd q))
    · rw [wipeSt_ctx_other _ _ _ _ _ e]; exact hm.onp k' q ((wipeSt_pipe_mem s k k' q dr cr e).1 hk')
  · intro k' h' hr hw
    by_cases e : k' = k
    · subst e; rw [wipeSt_ctx_same] at hr; cases hr
    · rw [wipeSt_ctx_other _ _ _ _ _ e] at hr hw ⊢; exact hm.wir k' h' hr hw
  · intro k' h' hr hw
    by_cases e : k' = k
    · subst e; rw [wipeSt_ctx_same] at hr; cases hr
    · rw [wipeSt_ctx_other _ _ _ _ _ e] at hr hw ⊢
      obtain ⟨a, b, c⟩ := hm.unw k' h' hr hw
      exact ⟨a, (List.mem_erase_of_ne e).2 b, c⟩
  · intro k' hs
    by_cases e : k' = k
    · subst e; rw [wipeSt_ctx_same] at hs; cases hs
    · rw [wipeSt_ctx_other _ _ _ _ _ e] at hs ⊢; exact hm.sa k' hs
  · intro k' hs
    by_cases e : k' = k
    · subst e; rw [wipeSt_ctx_same] at hs; exact absurd rfl hs
    · rw [wipeSt_ctx_other _ _ _ _ _ e] at hs ⊢; exact hm.rid k' hs
  · exact hm.al_nodup
  · exact hm.al_le
  · intro h' hl; exact hm.fresh h' (wipeSt_liveH s k h' dr cr hl)
  · intro h1 h2 l1 l2; exact hm.inj h1 h2 (wipeSt_liveH s k h1 dr cr l1) (wipeSt_liveH s k h2 dr cr l2)
  · exact hm.bound
  · exact hm.open_
  · exact hm.notgone
  · exact hm.notclosed

theorem wipe_G {s : State} {j : J} (k : Nat) (dr cr : Bool) (hg : G s j) : G (wipeSt s k dr cr) (wipeJ j k dr cr) := by
  constructor
  · exact hg.now
  · exact hg.idle
  · exact hg.busy
  · exact hg.sock
  · exact hg.closed
  · exact hg.seen
  · exact hg.tick
  · exact hg.tkle
  · exact hg.tknv
  · intro hn
    obtain ⟨a, b, c⟩ := hg.nosend hn
    refine ⟨fun k' => ?_, b, c⟩
    by_cases e : k' = k
    · subst e; rw [wipeSt_ctx_same]; rfl
    · rw [wipeSt_ctx_other _ _ _ _ _ e]; exact a k'
  · exact hg.stab

/-- the relation for the wiped context -/
theorem wipe_RC {s : State} {j j' : J} (k : Nat) (dr cr : Bool) {cj : CJ} (h0 : RCx s j k cj) :
    RCx (wipeSt s k dr cr) j' k (wipeCJ cj dr cr) := by
  constructor
  · rw [wipeSt_ctx_same]; exact h0.opened
  · rw [wipeSt_ctx_same]; exact h0.retry
  · rw [wipeSt_ctx_same]; simp only [wipeCJ, wipeCtx]; split
    · rfl
    · exact h0.rw
  · rw [wipeSt_ctx_same]; rfl
  · rw [wipeSt_ctx_same]; rfl
  · intro _ _; rfl
  · rw [wipeSt_ctx_same]; intro a; cases a
  · rw [wipeSt_ctx_same]; intro h a; cases a

theorem wipe_M {rest : List Ev} {s : State} {j : J} (k : Nat) (dr cr : Bool) (hM : R rest s j)
    (hnd : ∀ q, (s.pipe q).ctxs.Nodup) (hdr : dr = true ∨ cr = false) (hlv : cr = true → (s.ctx k).live = true) :
    R rest (wipeSt s k dr cr) (wipeJ j k dr cr) := by
  refine ⟨wipe_MI k dr cr hM.mi hnd hdr hlv, wipe_G k dr cr hM.g, fun k' _ => ?_, fun k' hk' => by cases hk'⟩
  by_cases e : k' = k
  · subst e
    show RCx _ _ k' ((wipeJ j k' dr cr).ctx k')
    unfold wipeJ; rw [setC_ctx_same]
    exact wipe_RC k' dr cr (hM.rc k' (by simp))
  · show RCx _ _ k' ((wipeJ j k dr cr).ctx k')
    unfold wipeJ; rw [setC_ctx_other _ _ _ _ e]
    exact wipe_frame (j := j) k k' dr cr e rfl rfl (hM.rc k' (by simp))

end Nng.ReqJ
