/-
  C16: base64 round trip through the accumulator loops of base64.c:
  `Base64.encode` produces RFC 4648's encoding (`Base64Spec.encode`) and `Base64.decode` of that
  gives the input back.  Uses the extracted tables only through `enc_sym` / `dec_sym`
  (alphabet = RFC alphabet; the decode table inverts it, no symbol is white space or '=').
-/
import NngModel.Model.Base64
import NngModel.Spec.Base64
namespace Nng.Base64
open Nng.Base64Spec (sym)

set_option maxRecDepth 8192 in
theorem enc_sym : ∀ i, i < 64 → encTab i = sym i := by decide

set_option maxRecDepth 8192 in
theorem dec_sym : ∀ i, i < 64 → isSpace (sym i) = false ∧ sym i ≠ 61 ∧ decTab (sym i) = i := by decide

theorem u8_lt (x : UInt8) : x.toNat < 256 := x.toNat_lt

/-! ### encoder -/

theorem encLoop_cons (outLen : Nat) (ch : UInt8) (r : Bytes) (a : Acc) :
    encLoop outLen (ch :: r) a =
      match encDrain outLen 2 { a with v := (a.v * 256 + ch.toNat) % 2 ^ 32, rem := a.rem + 8 } with
      | none => none
      | some a' => encLoop outLen r a' := rfl

theorem drain8 (outLen : Nat) (a : Acc) (v' : Nat) (hr : a.rem = 0) (hio : a.io < outLen) :
    encDrain outLen 2 { a with v := v', rem := a.rem + 8 } =
      some { v := v', rem := 2, out := encTab (v' / 4 % 64) :: a.out, io := a.io + 1 } := by
  have : ¬ a.io ≥ outLen := by omega
  simp [encDrain, hr, this]

theorem drain10 (outLen : Nat) (a : Acc) (v' : Nat) (hr : a.rem = 2) (hio : a.io < outLen) :
    encDrain outLen 2 { a with v := v', rem := a.rem + 8 } =
      some { v := v', rem := 4, out := encTab (v' / 16 % 64) :: a.out, io := a.io + 1 } := by
  have : ¬ a.io ≥ outLen := by omega
  simp [encDrain, hr, this]

theorem drain12 (outLen : Nat) (a : Acc) (v' : Nat) (hr : a.rem = 4) (hio : a.io + 1 < outLen) :
    encDrain outLen 2 { a with v := v', rem := a.rem + 8 } =
      some { v := v', rem := 0, out := encTab (v' % 64) :: encTab (v' / 64 % 64) :: a.out, io := a.io + 2 } := by
  have h1 : ¬ a.io ≥ outLen := by omega
  have h2 : ¬ a.io + 1 ≥ outLen := by omega
  simp [encDrain, hr, h1, h2]

/-- one byte from rem = 0 -/
theorem enc1 (outLen : Nat) (x : UInt8) (r : Bytes) (a : Acc) (hr : a.rem = 0) (hio : a.io < outLen) :
    ∃ v', v' % 16 = x.toNat % 16 ∧
      encLoop outLen (x :: r) a =
        encLoop outLen r { v := v', rem := 2, out := sym (x.toNat * 65536 / 262144) :: a.out, io := a.io + 1 } := by
  have hx := u8_lt x
  refine ⟨(a.v * 256 + x.toNat) % 2 ^ 32, by omega, ?_⟩
  rw [encLoop_cons, drain8 outLen a _ hr hio]
  have e : (a.v * 256 + x.toNat) % 2 ^ 32 / 4 % 64 = x.toNat * 65536 / 262144 := by omega
  rw [e, enc_sym _ (by omega)]

/-- second byte, from rem = 2 with the low bits of the first byte in v -/
theorem enc2 (outLen : Nat) (x y : UInt8) (r : Bytes) (a : Acc) (hr : a.rem = 2) (hv : a.v % 16 = x.toNat % 16) (hio : a.io < outLen) :
    ∃ v', v' % 4096 = (x.toNat * 256 + y.toNat) % 4096 ∧
      encLoop outLen (y :: r) a =
        encLoop outLen r { v := v', rem := 4, out := sym ((x.toNat * 65536 + y.toNat * 256) / 4096 % 64) :: a.out, io := a.io + 1 } := by
  have hx := u8_lt x
  have hy := u8_lt y
  refine ⟨(a.v * 256 + y.toNat) % 2 ^ 32, by omega, ?_⟩
  rw [encLoop_cons, drain10 outLen a _ hr hio]
  have e : (a.v * 256 + y.toNat) % 2 ^ 32 / 16 % 64 = (x.toNat * 65536 + y.toNat * 256) / 4096 % 64 := by omega
  rw [e, enc_sym _ (by omega)]

/-- third byte, from rem = 4 -/
theorem enc3 (outLen : Nat) (x y z : UInt8) (r : Bytes) (a : Acc) (hr : a.rem = 4)
    (hv : a.v % 4096 = (x.toNat * 256 + y.toNat) % 4096) (hio : a.io + 1 < outLen) :
    ∃ v', encLoop outLen (z :: r) a =
        encLoop outLen r { v := v', rem := 0, out := sym ((x.toNat * 65536 + y.toNat * 256 + z.toNat) % 64) :: sym ((x.toNat * 65536 + y.toNat * 256 + z.toNat) / 64 % 64) :: a.out, io := a.io + 2 } := by
  have hx := u8_lt x
  have hy := u8_lt y
  have hz := u8_lt z
  refine ⟨(a.v * 256 + z.toNat) % 2 ^ 32, ?_⟩
  rw [encLoop_cons, drain12 outLen a _ hr hio]
  have e1 : (a.v * 256 + z.toNat) % 2 ^ 32 % 64 = (x.toNat * 65536 + y.toNat * 256 + z.toNat) % 64 := by omega
  have e2 : (a.v * 256 + z.toNat) % 2 ^ 32 / 64 % 64 = (x.toNat * 65536 + y.toNat * 256 + z.toNat) / 64 % 64 := by omega
  rw [e1, e2, enc_sym _ (by omega), enc_sym _ (by omega)]

/-- what nni_base64_encode does after the main loop: flush the partial sextet, pad, final room test -/
def encTail (outLen : Nat) (a : Acc) : Option Bytes :=
  let a? :=
    if a.rem ≠ 0 then
      if a.io ≥ outLen then none
      else some { a with v := (a.v * 2 ^ (6 - a.rem)) % 2 ^ 32,
                         out := encTab ((a.v * 2 ^ (6 - a.rem)) % 2 ^ 32 % 64) :: a.out, io := a.io + 1 }
    else some a
  match a? with
  | none => none
  | some a =>
    match encPad outLen 3 a with
    | none => none
    | some a => if a.io ≥ outLen then none else some a.out.reverse

theorem encode_eq (inp : Bytes) (outLen : Nat) :
    encode inp outLen = match encLoop outLen inp {} with | none => none | some a => encTail outLen a := rfl

theorem encTail0 (outLen : Nat) (a : Acc) (hr : a.rem = 0) (h4 : a.io % 4 = 0) (hio : a.io < outLen) :
    encTail outLen a = some a.out.reverse := by
  have : ¬ a.io ≥ outLen := by omega
  simp [encTail, hr, encPad, h4, this]

theorem encTail2 (outLen : Nat) (a : Acc) (hr : a.rem = 2) (h4 : a.io % 4 = 1) (hio : a.io + 3 < outLen) :
    encTail outLen a = some (a.out.reverse ++ [encTab (a.v * 16 % 2 ^ 32 % 64), 61, 61]) := by
  have h0 : ¬ a.io ≥ outLen := by omega
  have h1 : ¬ a.io + 1 ≥ outLen := by omega
  have h2 : ¬ a.io + 2 ≥ outLen := by omega
  have h3 : ¬ a.io + 3 ≥ outLen := by omega
  have m1 : (a.io + 1) % 4 ≠ 0 := by omega
  have m2 : (a.io + 2) % 4 ≠ 0 := by omega
  have m3 : (a.io + 3) % 4 = 0 := by omega
  simp [encTail, hr, encPad, h0, h1, h2, h3, m1, m2, m3, Nat.add_assoc]

theorem encTail4 (outLen : Nat) (a : Acc) (hr : a.rem = 4) (h4 : a.io % 4 = 2) (hio : a.io + 2 < outLen) :
    encTail outLen a = some (a.out.reverse ++ [encTab (a.v * 4 % 2 ^ 32 % 64), 61]) := by
  have h0 : ¬ a.io ≥ outLen := by omega
  have h1 : ¬ a.io + 1 ≥ outLen := by omega
  have h2 : ¬ a.io + 2 ≥ outLen := by omega
  have m1 : (a.io + 1) % 4 ≠ 0 := by omega
  have m2 : (a.io + 2) % 4 = 0 := by omega
  simp [encTail, hr, encPad, h0, h1, h2, m1, m2, Nat.add_assoc]

theorem enc_main (outLen : Nat) : ∀ (k : Nat) (b : Bytes), b.length ≤ k → ∀ (a : Acc), a.rem = 0 → a.io % 4 = 0 →
    a.io + (b.length + 2) / 3 * 4 < outLen →
    ∃ a', encLoop outLen b a = some a' ∧ encTail outLen a' = some (a.out.reverse ++ Base64Spec.encode b) := by
  intro k
  induction k with
  | zero =>
    intro b hb a hr h4 hio
    have : b = [] := List.eq_nil_of_length_eq_zero (by omega)
    subst this
    exact ⟨a, rfl, by rw [encTail0 outLen a hr h4 (by omega)]; simp [Base64Spec.encode]⟩
  | succ k ih =>
    intro b hb a hr h4 hio
    match b, hb, hio with
    | [], _, hio => exact ⟨a, rfl, by rw [encTail0 outLen a hr h4 (by omega)]; simp [Base64Spec.encode]⟩
    | [x], _, hio =>
      simp only [List.length_cons, List.length_nil] at hio
      obtain ⟨v1, hv1, e1⟩ := enc1 outLen x [] a hr (by omega)
      refine ⟨_, by rw [e1]; rfl, ?_⟩
      rw [encTail2 outLen _ rfl (by simp; omega) (by simp; omega)]
      have hx := u8_lt x
      have e : v1 * 16 % 2 ^ 32 % 64 = x.toNat * 65536 / 4096 % 64 := by omega
      rw [e, enc_sym _ (by omega)]
      simp [Base64Spec.encode]
    | [x, y], _, hio =>
      simp only [List.length_cons, List.length_nil] at hio
      obtain ⟨v1, hv1, e1⟩ := enc1 outLen x [y] a hr (by omega)
      obtain ⟨v2, hv2, e2⟩ := enc2 outLen x y [] { v := v1, rem := 2, out := sym (x.toNat * 65536 / 262144) :: a.out, io := a.io + 1 } rfl hv1 (by simp; omega)
      refine ⟨_, by rw [e1, e2]; rfl, ?_⟩
      rw [encTail4 outLen _ rfl (by simp; omega) (by simp; omega)]
      have hx := u8_lt x
      have hy := u8_lt y
      have e : v2 * 4 % 2 ^ 32 % 64 = (x.toNat * 65536 + y.toNat * 256) / 64 % 64 := by omega
      rw [e, enc_sym _ (by omega)]
      have e0 : x.toNat * 65536 / 262144 = (x.toNat * 65536 + y.toNat * 256) / 262144 := by omega
      simp [Base64Spec.encode, e0]
    | x :: y :: z :: r, hb, hio =>
      simp only [List.length_cons] at hio hb
      obtain ⟨v1, hv1, e1⟩ := enc1 outLen x (y :: z :: r) a hr (by omega)
      obtain ⟨v2, hv2, e2⟩ := enc2 outLen x y (z :: r) { v := v1, rem := 2, out := sym (x.toNat * 65536 / 262144) :: a.out, io := a.io + 1 } rfl hv1 (by simp; omega)
      obtain ⟨v3, e3⟩ := enc3 outLen x y z r { v := v2, rem := 4, out := sym ((x.toNat * 65536 + y.toNat * 256) / 4096 % 64) :: sym (x.toNat * 65536 / 262144) :: a.out, io := a.io + 1 + 1 } rfl hv2 (by simp; omega)
      obtain ⟨a', ha', ht⟩ := ih r (by omega) { v := v3, rem := 0, out := sym ((x.toNat * 65536 + y.toNat * 256 + z.toNat) % 64) :: sym ((x.toNat * 65536 + y.toNat * 256 + z.toNat) / 64 % 64) :: sym ((x.toNat * 65536 + y.toNat * 256) / 4096 % 64) :: sym (x.toNat * 65536 / 262144) :: a.out, io := a.io + 1 + 1 + 2 } rfl (by simp only []; omega) (by simp only []; omega)
      refine ⟨a', by rw [e1, e2, e3]; exact ha', ?_⟩
      rw [ht]
      have hx := u8_lt x
      have hy := u8_lt y
      have hz := u8_lt z
      have e0 : x.toNat * 65536 / 262144 = (x.toNat * 65536 + y.toNat * 256 + z.toNat) / 262144 := by omega
      have e00 : (x.toNat * 65536 + y.toNat * 256) / 4096 % 64 = (x.toNat * 65536 + y.toNat * 256 + z.toNat) / 4096 % 64 := by omega
      simp [Base64Spec.encode, e0, e00]

/-- nni_base64_encode computes RFC 4648's encoding whenever the output buffer has room for it and one more byte -/
theorem encode_spec (b : Bytes) (n : Nat) (h : n > (b.length + 2) / 3 * 4) : encode b n = some (Base64Spec.encode b) := by
  obtain ⟨a', h1, h2⟩ := enc_main n b.length b (Nat.le_refl _) {} rfl rfl (by simpa using h)
  rw [encode_eq, h1]
  simpa using h2

/-! ### decoder -/

theorem decLoop_sym (outLen : Nat) (i : Nat) (hi : i < 64) (r : Bytes) (a : Acc) :
    decLoop outLen (sym i :: r) a =
      if a.rem + 6 ≥ 8 then
        if a.io ≥ outLen then none
        else decLoop outLen r { v := (a.v * 64 + i) % 2 ^ 32, rem := a.rem + 6 - 8,
                                out := UInt8.ofNat ((a.v * 64 + i) % 2 ^ 32 / 2 ^ (a.rem + 6 - 8) % 256) :: a.out, io := a.io + 1 }
      else decLoop outLen r { a with v := (a.v * 64 + i) % 2 ^ 32, rem := a.rem + 6 } := by
  have h := dec_sym i hi
  rw [decLoop]
  simp only [h.1, Bool.false_eq_true, if_false, h.2.1, h.2.2]
  have : ¬ i = 255 := by omega
  simp only [this, if_false]

theorem decLoop_pad (outLen : Nat) (r : Bytes) (a : Acc) : decLoop outLen (61 :: r) a = some a := by
  rw [decLoop]
  have : isSpace 61 = false := by decide
  simp [this]

theorem ofNat_of_eq (e : Nat) (x : UInt8) (h : e = x.toNat) : UInt8.ofNat e = x := by
  rw [h]; exact UInt8.ofNat_toNat

/-- first symbol of a group -/
theorem dec1 (outLen : Nat) (i : Nat) (hi : i < 64) (r : Bytes) (a : Acc) (hr : a.rem = 0) :
    ∃ v', v' % 64 = i ∧ decLoop outLen (sym i :: r) a = decLoop outLen r { v := v', rem := 6, out := a.out, io := a.io } := by
  refine ⟨(a.v * 64 + i) % 2 ^ 32, by omega, ?_⟩
  rw [decLoop_sym outLen i hi]
  simp [hr]

/-- second symbol: the first octet comes out -/
theorem dec2 (outLen : Nat) (x : UInt8) (i1 i2 : Nat) (hi : i2 < 64) (r : Bytes) (a : Acc) (hr : a.rem = 6)
    (hv : a.v % 64 = i1) (hx : i1 * 4 + i2 / 16 = x.toNat) (hio : a.io < outLen) :
    ∃ v', v' % 16 = i2 % 16 ∧
      decLoop outLen (sym i2 :: r) a = decLoop outLen r { v := v', rem := 4, out := x :: a.out, io := a.io + 1 } := by
  have hx' := u8_lt x
  refine ⟨(a.v * 64 + i2) % 2 ^ 32, by omega, ?_⟩
  rw [decLoop_sym outLen i2 hi]
  have h1 : ¬ a.io ≥ outLen := by omega
  simp only [hr, h1, if_false, Nat.reduceAdd, Nat.reduceSub, Nat.reduceLeDiff, ge_iff_le, if_true, Nat.reducePow]
  rw [ofNat_of_eq _ x (by omega)]

/-- third symbol: the second octet -/
theorem dec3 (outLen : Nat) (y : UInt8) (l2 i3 : Nat) (hi : i3 < 64) (r : Bytes) (a : Acc) (hr : a.rem = 4)
    (hv : a.v % 16 = l2) (hy : l2 * 16 + i3 / 4 = y.toNat) (hio : a.io < outLen) :
    ∃ v', v' % 4 = i3 % 4 ∧
      decLoop outLen (sym i3 :: r) a = decLoop outLen r { v := v', rem := 2, out := y :: a.out, io := a.io + 1 } := by
  have hy' := u8_lt y
  refine ⟨(a.v * 64 + i3) % 2 ^ 32, by omega, ?_⟩
  rw [decLoop_sym outLen i3 hi]
  have h1 : ¬ a.io ≥ outLen := by omega
  simp only [hr, h1, if_false, Nat.reduceAdd, Nat.reduceSub, Nat.reduceLeDiff, ge_iff_le, if_true, Nat.reducePow]
  rw [ofNat_of_eq _ y (by omega)]

/-- fourth symbol: the third octet -/
theorem dec4 (outLen : Nat) (z : UInt8) (l3 i4 : Nat) (hi : i4 < 64) (r : Bytes) (a : Acc) (hr : a.rem = 2)
    (hv : a.v % 4 = l3) (hz : l3 * 64 + i4 = z.toNat) (hio : a.io < outLen) :
    ∃ v', decLoop outLen (sym i4 :: r) a = decLoop outLen r { v := v', rem := 0, out := z :: a.out, io := a.io + 1 } := by
  have hz' := u8_lt z
  refine ⟨(a.v * 64 + i4) % 2 ^ 32, ?_⟩
  rw [decLoop_sym outLen i4 hi]
  have h1 : ¬ a.io ≥ outLen := by omega
  simp only [hr, h1, if_false, Nat.reduceAdd, Nat.reduceSub, Nat.reduceLeDiff, ge_iff_le, if_true, Nat.reducePow, Nat.pow_zero, Nat.div_one]
  rw [ofNat_of_eq _ z (by omega)]

theorem dec_main (outLen : Nat) : ∀ (k : Nat) (b : Bytes), b.length ≤ k → ∀ (a : Acc), a.rem = 0 → a.io + b.length ≤ outLen →
    ∃ a', decLoop outLen (Base64Spec.encode b) a = some a' ∧ a'.out = b.reverse ++ a.out ∧ a'.rem < 8 := by
  intro k
  induction k with
  | zero =>
    intro b hb a hr _
    have : b = [] := List.eq_nil_of_length_eq_zero (by omega)
    subst this
    exact ⟨a, rfl, by simp, by omega⟩
  | succ k ih =>
    intro b hb a hr hio
    match b, hb, hio with
    | [], _, _ => exact ⟨a, rfl, by simp, by omega⟩
    | [x], _, hio =>
      have hx := u8_lt x
      simp only [List.length_cons, List.length_nil] at hio
      obtain ⟨v1, hv1, e1⟩ := dec1 outLen (x.toNat * 65536 / 262144) (by omega) [sym (x.toNat * 65536 / 4096 % 64), 61, 61] a hr
      obtain ⟨v2, _, e2⟩ := dec2 outLen x (x.toNat * 65536 / 262144) (x.toNat * 65536 / 4096 % 64) (by omega) [61, 61]
        { v := v1, rem := 6, out := a.out, io := a.io } rfl hv1 (by omega) (by simp only []; omega)
      refine ⟨{ v := v2, rem := 4, out := x :: a.out, io := a.io + 1 }, ?_, ?_, ?_⟩
      · simp only [Base64Spec.encode]; rw [e1, e2, decLoop_pad]
      · simp
      · simp
    | [x, y], _, hio =>
      have hx := u8_lt x
      have hy := u8_lt y
      simp only [List.length_cons, List.length_nil] at hio
      obtain ⟨v1, hv1, e1⟩ := dec1 outLen ((x.toNat * 65536 + y.toNat * 256) / 262144) (by omega)
        [sym ((x.toNat * 65536 + y.toNat * 256) / 4096 % 64), sym ((x.toNat * 65536 + y.toNat * 256) / 64 % 64), 61] a hr
      obtain ⟨v2, hv2, e2⟩ := dec2 outLen x ((x.toNat * 65536 + y.toNat * 256) / 262144) ((x.toNat * 65536 + y.toNat * 256) / 4096 % 64)
        (by omega) [sym ((x.toNat * 65536 + y.toNat * 256) / 64 % 64), 61]
        { v := v1, rem := 6, out := a.out, io := a.io } rfl hv1 (by omega) (by simp only []; omega)
      obtain ⟨v3, _, e3⟩ := dec3 outLen y (((x.toNat * 65536 + y.toNat * 256) / 4096 % 64) % 16) ((x.toNat * 65536 + y.toNat * 256) / 64 % 64)
        (by omega) [61] { v := v2, rem := 4, out := x :: a.out, io := a.io + 1 } rfl hv2 (by omega) (by simp only []; omega)
      refine ⟨{ v := v3, rem := 2, out := y :: x :: a.out, io := a.io + 1 + 1 }, ?_, ?_, ?_⟩
      · simp only [Base64Spec.encode]; rw [e1, e2, e3, decLoop_pad]
      · simp
      · simp
    | x :: y :: z :: r, hb, hio =>
      have hx := u8_lt x
      have hy := u8_lt y
      have hz := u8_lt z
      simp only [List.length_cons] at hio hb
      generalize hn : x.toNat * 65536 + y.toNat * 256 + z.toNat = n
      have e : Base64Spec.encode (x :: y :: z :: r) =
          sym (n / 262144) :: sym (n / 4096 % 64) :: sym (n / 64 % 64) :: sym (n % 64) :: Base64Spec.encode r := by
        rw [← hn]; simp [Base64Spec.encode]
      obtain ⟨v1, hv1, e1⟩ := dec1 outLen (n / 262144) (by omega)
        (sym (n / 4096 % 64) :: sym (n / 64 % 64) :: sym (n % 64) :: Base64Spec.encode r) a hr
      obtain ⟨v2, hv2, e2⟩ := dec2 outLen x (n / 262144) (n / 4096 % 64) (by omega) (sym (n / 64 % 64) :: sym (n % 64) :: Base64Spec.encode r)
        { v := v1, rem := 6, out := a.out, io := a.io } rfl hv1 (by omega) (by simp only []; omega)
      obtain ⟨v3, hv3, e3⟩ := dec3 outLen y ((n / 4096 % 64) % 16) (n / 64 % 64) (by omega) (sym (n % 64) :: Base64Spec.encode r)
        { v := v2, rem := 4, out := x :: a.out, io := a.io + 1 } rfl hv2 (by omega) (by simp only []; omega)
      obtain ⟨v4, e4⟩ := dec4 outLen z ((n / 64 % 64) % 4) (n % 64) (by omega) (Base64Spec.encode r)
        { v := v3, rem := 2, out := y :: x :: a.out, io := a.io + 1 + 1 } rfl hv3 (by omega) (by simp only []; omega)
      obtain ⟨a', ha', ho, hr'⟩ := ih r (by omega) { v := v4, rem := 0, out := z :: y :: x :: a.out, io := a.io + 1 + 1 + 1 } rfl
        (by simp only []; omega)
      refine ⟨a', ?_, ?_, hr'⟩
      · rw [e, e1, e2, e3, e4]; exact ha'
      · rw [ho]; simp

/-- nni_base64_decode gives back what RFC 4648's encoding was made from, whenever the output buffer has room -/
theorem decode_encode (b : Bytes) (m : Nat) (h : m ≥ b.length) : decode (Base64Spec.encode b) m = some b := by
  obtain ⟨a', h1, h2, h3⟩ := dec_main m b.length b (Nat.le_refl _) {} rfl (by simpa using h)
  unfold decode
  rw [h1]
  have : ¬ a'.rem ≥ 8 := by omega
  simp [this, h2]

end Nng.Base64
