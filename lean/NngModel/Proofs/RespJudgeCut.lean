/-
  The RESPONDENT judge (`Spec/Survey.lean: respStep`) cut into named pieces, equality with the real
  step function, the judge on single outputs, and the "bulk removal" lemma for lists of completions.
  Judge-only facts; used by the simulation proof in Proofs/RespJudge*.lean.
-/
import NngModel.Spec.Survey
namespace Nng.SurveySpec
open Nng Nng.Proto

/-! ### the pieces of `respStep` -/

def isDone : Out → Bool
  | .done .. => true
  | _ => false

def isZeroMode : Mode → Bool
  | .nb => true
  | .ms 0 => true
  | _ => false

def respPre (j : RespJ) (ev : Ev) (outs : List Out) : RespJ :=
  let rv0 := outs.contains (.rv 0)
  match ev with
  | .openSock _ _ => if rv0 then { j with ctxs := [({ key := none } : RCtxJ)] } else j
  | .advance ms => { j with now := j.now + ms }
  | .ctxOpen k => if rv0 then { j with ctxs := j.ctxs.filter (·.key != some k) ++ [({ key := some k } : RCtxJ)] } else j
  | .setopt none "ttl-max" "int" v => if rv0 then { j with ttl := v.toNat } else j
  | .recvDone p (.ok b) =>
    if rv0 && !(outs.contains (.pclosed p)) then
      match btSplit j.ttl [] b with
      | some (h, body) => { j with arrivals := j.arrivals ++ [({ pipe := p, hdr := h, body := body } : RArrival)] }
      | none => j
    else j
  | .recv k a mode =>
    let zero := match mode with | .nb => true | .ms 0 => true | _ => false
    { j with pendRecv := j.pendRecv ++ [(a, k, zero)] }
  | .send k a m mode =>
    let zero := match mode with | .nb => true | .ms 0 => true | _ => false
    let gaveUp := zero && (match doneOf outs a with
      | some (rv, _) => rv == Err.eagain || rv == Err.etimedout
      | none => false)
    if gaveUp then j else
    match j.getCtx k with
    | none => j
    | some c =>
      let busy := j.pendSend.any (·.ctx == k)
      match c.cur, doneOf outs a with
      | none, some (rv, _) => if rv == Err.estate then j else j.fail s!"send {a} with no pending survey completed with {rv}, not NNG_ESTATE"
      | none, none => j.fail s!"send {a} with no pending survey did not fail at once"
      | some (p, h), d =>
        if d == some (Err.estate, none) then
          if busy then j else j.fail s!"send {a} failed with NNG_ESTATE although a survey is pending"
        else
          let j := j.setCtx { c with cur := none }
          let e : Expect := ⟨a, k, p, h, m.body, true⟩
          match d with
          | none => if zero then j.fail s!"non-blocking send {a} did not complete at once" else { j with pendSend := j.pendSend ++ [e] }
          | some (0, _) =>
            if outs.any (fun o => match o with | .psend _ wm => wm.body == m.body | _ => false) then { j with pendSend := j.pendSend ++ [e] }
            else if j.gone.contains p then j
            else j.fail s!"send {a} completed with success but its response never reached pipe {p}"
          | some _ => j
  | .sendDone p _ => if rv0 then { j with inflight := j.inflight.filter (· != p) } else j
  | .close => { j with closed := true }
  | _ => j

def respMid (outs : List Out) (j : RespJ) : RespJ :=
  (outs.filter (fun o => match o with | .done .. => true | _ => false)).foldl (respOut outs)
    ((outs.filter (fun o => match o with | .done .. => false | _ => true)).foldl (respOut outs) j)

def ctxCloseStep (ev : Ev) (outs : List Out) (j : RespJ) : RespJ :=
  match ev with
  | .ctxClose k => if outs.contains (.rv 0) then { j with ctxs := j.ctxs.filter (·.key != some k) } else j
  | _ => j

def zeroChk (j : RespJ) : RespJ :=
  match j.pendRecv.find? (·.2.2) with
  | some (a, _, _) => j.fail s!"non-blocking receive {a} did not complete at once"
  | none => j

def blockedChk (outs : List Out) (j : RespJ) : RespJ :=
  if hasBlocked outs then j.fail "a non-blocking call blocked" else j

def pollChk (ev : Ev) (outs : List Out) (j : RespJ) : RespJ :=
  match pollClause j.lastPoll ev outs with | some e => j.fail e | none => j

def setPoll (ev : Ev) (outs : List Out) (j : RespJ) : RespJ := { j with lastPoll := pollOf ev outs }

def stallChk (j : RespJ) : RespJ :=
  if !j.closed && !j.pendRecv.isEmpty && !j.arrivals.isEmpty then
    j.fail "a receiver is kept waiting although a survey has arrived" else j

def unfreshJ (j : RespJ) : RespJ := { j with pendSend := j.pendSend.map fun e => { e with fresh := false } }

def respPost (ev : Ev) (outs : List Out) (j : RespJ) : RespJ :=
  unfreshJ (stallChk (setPoll ev outs (pollChk ev outs (blockedChk outs (zeroChk (ctxCloseStep ev outs j))))))

theorem respStep_eq {j : RespJ} {ev : Ev} {outs : List Out} (herr : j.err = none) (hne : notExecuted outs = false) :
    respStep j ev outs = respPost ev outs (respMid outs (respPre j ev outs)) := by
  unfold respStep
  rw [if_neg (by simp [herr]), if_neg (by simp [hne])]
  cases ev <;> rfl

theorem respStep_refused {j : RespJ} {ev : Ev} {outs : List Out} (hne : notExecuted outs = true) :
    respStep j ev outs = j := by
  unfold respStep; simp [hne]

end Nng.SurveySpec
