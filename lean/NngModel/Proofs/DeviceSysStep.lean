/- every event of the closed system preserves its invariant -/
import NngModel.Proofs.DeviceSys
namespace Nng.Device
open Nng
set_option linter.unusedSimpArgs false

theorem getElem?_lt {α : Type} {l : List α} {i : Nat} {a : α} (h : l[i]? = some a) : i < l.length := by
  rcases List.getElem?_eq_some_iff.mp h with ⟨h1, _⟩; exact h1

/-- after a step of the device whose calls post no receive: sockets and pending completions are as before -/
theorem devStep_noPost (sy : System) (e : DEv) (h : posts (step sy.dev e).2 = []) :
    (devStep sy e).dev = (step sy.dev e).1 ∧ (devStep sy e).socks = sy.socks ∧ (devStep sy e).ready = sy.ready := by
  have := absorb_core (step sy.dev e).2 { sy with dev := (step sy.dev e).1 }
  exact ⟨this.1, (this.2.1 h).1, (this.2.1 h).2⟩

theorem devStep_onePost (sy : System) (e : DEv) (s i : Nat) (h : posts (step sy.dev e).2 = [(s, i)]) :
    (devStep sy e).dev = (step sy.dev e).1 ∧
    (devStep sy e).socks = (postRecv { sy with dev := (step sy.dev e).1 } s i).socks ∧
    (devStep sy e).ready = (postRecv { sy with dev := (step sy.dev e).1 } s i).ready := by
  have := absorb_core (step sy.dev e).2 { sy with dev := (step sy.dev e).1 }
  exact ⟨this.1, (this.2.2 s i h).1, (this.2.2 s i h).2⟩

/-- an enabled completion of path i's receive, as a frame -/
theorem step_recv_frame (d : Dev) (i : Nat) (p : Path) (r : Except Nat Msg) (hp : d.paths[i]? = some p)
    (hs : p.state = .recv) (hr : okRes r = true) :
    CbFrame d i (completeRecv p r) (step d (.recvDone i r)) := by
  rw [step_recv_eq, hp]
  simp only [hs, hr, beq_self_eq_true, Bool.and_self, if_true]
  apply deviceCb_cbFrame d i _ (getElem?_lt hp)
  left
  cases r <;> simp [completeRecv, hs]

theorem step_send_frame (d : Dev) (i : Nat) (p : Path) (rv : Nat) (hp : d.paths[i]? = some p)
    (hs : p.state = .send) :
    CbFrame d i (completeSend p rv) (step d (.sendDone i rv)) := by
  rw [step_send_eq, hp]
  simp only [hs, beq_self_eq_true, if_true]
  apply deviceCb_cbFrame d i _ (getElem?_lt hp)
  right
  unfold completeSend
  split <;> simp [hs]

theorem completeRecv_facts (p : Path) (r : Except Nat Msg) :
    (completeRecv p r).src = p.src ∧ (completeRecv p r).state = p.state ∧
    (completeRecv p r).rcvd = p.rcvd ++ (match r with | .ok m => [m] | .error _ => []) := by
  cases r <;> simp [completeRecv]

theorem completeSend_facts (p : Path) (rv : Nat) :
    (completeSend p rv).src = p.src ∧ (completeSend p rv).state = p.state ∧ (completeSend p rv).rcvd = p.rcvd := by
  unfold completeSend
  split <;> simp

/-! ### the events -/

/-- the socket a path reads from exists -/
theorem sinv_sock (dirs : List Dir) (sy : System) (hS : SInv dirs sy) (j : Nat) (hj : j < sy.dev.paths.length) :
    ∃ k, sy.socks[sy.dev.paths[j].src]? = some k :=
  ⟨_, List.getElem?_eq_getElem (hS.sockOk j hj)⟩

theorem sinv_run (dirs : List Dir) (hD : DistinctSrc dirs) (sy : System) (i : Nat) (hS : SInv dirs sy) :
    SInv dirs (sstep sy (.run i)) := by
  show SInv dirs (match sy.ready[i]? with
    | some (some m) => devStep { sy with ready := sy.ready.set i none } (.recvDone i (.ok m))
    | _ => sy)
  cases hr : sy.ready[i]? with
  | none => exact hS
  | some o =>
    cases o with
    | none => exact hS
    | some m =>
      simp only
      have hir : i < sy.ready.length := getElem?_lt hr
      have hi : i < sy.dev.paths.length := by rw [← hS.rlen]; exact hir
      have hpi : sy.dev.paths[i]? = some sy.dev.paths[i] := List.getElem?_eq_getElem hi
      rcases sinv_sock dirs sy hS i hi with ⟨k, hk⟩
      have hP := hS.path i hi k hk
      have hst : sy.dev.paths[i].state = .recv := by
        apply Classical.byContradiction
        intro hn
        have := (hP.idle hn).2
        rw [hr] at this; cases this
      have hwait : k.rwait = [] := by
        rcases hP.posted hst with ⟨_, h2, _⟩ | ⟨h1, _⟩
        · rw [hr] at h2; cases h2
        · exact h1
      -- the device's step
      generalize hsy0 : ({ sy with ready := sy.ready.set i none } : System) = sy0
      have hd0 : sy0.dev = sy.dev := by rw [← hsy0]
      have hs0 : sy0.socks = sy.socks := by rw [← hsy0]
      have hr0 : sy0.ready = sy.ready.set i none := by rw [← hsy0]
      have hF := step_recv_frame sy.dev i sy.dev.paths[i] (.ok m) hpi hst rfl
      have hcf := completeRecv_facts sy.dev.paths[i] (.ok m)
      have hi2 : i < (step sy.dev (.recvDone i (.ok m))).1.paths.length := by rw [hF.len]; exact hi
      have hposts : posts (step sy.dev (.recvDone i (.ok m))).2 = [] := by
        rcases hF.next hi2 with ⟨_, h⟩ | ⟨_, _, h⟩ | ⟨h, _⟩
        · exact h
        · exact h
        · rw [hcf.2.1, hst] at h; cases h
      have hnp := devStep_noPost sy0 (.recvDone i (.ok m)) (by rw [hd0]; exact hposts)
      have hdv : (devStep sy0 (.recvDone i (.ok m))).dev = (step sy.dev (.recvDone i (.ok m))).1 := by
        rw [hnp.1, hd0]
      have hsk : (devStep sy0 (.recvDone i (.ok m))).socks = sy.socks := by rw [hnp.2.1, hs0]
      have hrd : (devStep sy0 (.recvDone i (.ok m))).ready = sy.ready.set i none := by rw [hnp.2.2, hr0]
      apply sinv_update dirs hD sy _ i hS hi
      · rw [hdv]; exact step_inv dirs sy.dev _ hS.dev
      · rw [hdv]; exact hF.len
      · intro j hj hj' hne
        simp only [hdv]
        exact hF.other j hj (by rw [hF.len]; exact hj) hne
      · intro hi'
        simp only [hdv]
        rw [hF.src hi2, hcf.1]
      · intro s _; rw [hsk]
      · rw [hsk]
      · rw [hrd]; simp
      · intro j hne
        rw [hrd, List.getElem?_set_ne (Ne.symm hne)]
      · intro k' hk' x hx
        rw [hsk] at hk'
        exact Or.inr ⟨k', hk', hx⟩
      · intro hi' k' hk'
        rw [hsk] at hk'
        have hkk : k' = k := by
          have : some k' = some k := by rw [← hk']; exact hk
          exact Option.some.inj this
        subst hkk
        have hnew : (devStep sy0 (.recvDone i (.ok m))).ready[i]? = some none := by
          rw [hrd]
          exact List.getElem?_set_self hir
        have hstate : (step sy.dev (.recvDone i (.ok m))).1.paths[i].state ≠ .recv := by
          rcases hF.next hi2 with ⟨h, _⟩ | ⟨_, h, _⟩ | ⟨h, _⟩
          · rw [h]; decide
          · rw [h]; decide
          · rw [hcf.2.1, hst] at h; cases h
        refine ⟨?_, ?_, ?_⟩
        · simp only [hdv]
          rw [hF.rcvd hi2, hcf.2.2]
          simp only [pendOf, hnew]
          have := hP.cons
          simp only [pendOf, hr] at this
          simpa using this
        · intro h
          simp only [hdv] at h
          exact absurd h hstate
        · intro _
          exact ⟨hwait, hnew⟩

theorem sinv_recvFail (dirs : List Dir) (hD : DistinctSrc dirs) (sy : System) (i e : Nat) (hS : SInv dirs sy) :
    SInv dirs (sstep sy (.recvFail i e)) := by
  show SInv dirs (match sy.dev.paths[i]? with
    | some p =>
      match sy.socks[p.src]? with
      | some k =>
        if k.rwait.contains i && e != 0 then
          devStep { sy with socks := sy.socks.set p.src { k with rwait := k.rwait.erase i } } (.recvDone i (.error e))
        else sy
      | none => sy
    | none => sy)
  cases hp : sy.dev.paths[i]? with
  | none => exact hS
  | some p =>
    simp only
    cases hk : sy.socks[p.src]? with
    | none => exact hS
    | some k =>
      simp only
      by_cases hc : (k.rwait.contains i && e != 0) = true
      · rw [if_pos hc]
        have hi : i < sy.dev.paths.length := getElem?_lt hp
        have hpe : sy.dev.paths[i] = p := by
          rcases List.getElem?_eq_some_iff.mp hp with ⟨_, h⟩; exact h
        have hmem : i ∈ k.rwait := by
          have := ((Bool.and_eq_true _ _).mp hc).1
          simpa using this
        have he : okRes (.error e) = true := by
          have := ((Bool.and_eq_true _ _).mp hc).2
          simpa [okRes] using this
        have hk' : sy.socks[sy.dev.paths[i].src]? = some k := by rw [hpe]; exact hk
        have hP := hS.path i hi k hk'
        have hst : p.state = .recv := by
          apply Classical.byContradiction
          intro hn
          have := (hP.idle (by rw [hpe]; exact hn)).1
          rw [this] at hmem; cases hmem
        have hfirst : k.rwait = [i] ∧ sy.ready[i]? = some none ∧ k.rxq = [] := by
          rcases hP.posted (by rw [hpe]; exact hst) with h | ⟨h1, _⟩
          · exact h
          · rw [h1] at hmem; cases hmem
        have hsl : p.src < sy.socks.length := getElem?_lt hk
        generalize hsy0 : ({ sy with socks := sy.socks.set p.src { k with rwait := k.rwait.erase i } } : System) = sy0
        have hd0 : sy0.dev = sy.dev := by rw [← hsy0]
        have hs0 : sy0.socks = sy.socks.set p.src { k with rwait := k.rwait.erase i } := by rw [← hsy0]
        have hr0 : sy0.ready = sy.ready := by rw [← hsy0]
        have hF := step_recv_frame sy.dev i p (.error e) hp hst he
        have hcf := completeRecv_facts p (.error e)
        have hi2 : i < (step sy.dev (.recvDone i (.error e))).1.paths.length := by rw [hF.len]; exact hi
        have hposts : posts (step sy.dev (.recvDone i (.error e))).2 = [] := by
          rcases hF.next hi2 with ⟨_, h⟩ | ⟨_, _, h⟩ | ⟨h, _⟩
          · exact h
          · exact h
          · rw [hcf.2.1, hst] at h; cases h
        have hnp := devStep_noPost sy0 (.recvDone i (.error e)) (by rw [hd0]; exact hposts)
        have hdv : (devStep sy0 (.recvDone i (.error e))).dev = (step sy.dev (.recvDone i (.error e))).1 := by
          rw [hnp.1, hd0]
        have hsk : (devStep sy0 (.recvDone i (.error e))).socks = sy.socks.set p.src { k with rwait := k.rwait.erase i } := by
          rw [hnp.2.1, hs0]
        have hrd : (devStep sy0 (.recvDone i (.error e))).ready = sy.ready := by rw [hnp.2.2, hr0]
        have hself : (sy.socks.set p.src { k with rwait := k.rwait.erase i })[p.src]? = some { k with rwait := k.rwait.erase i } :=
          List.getElem?_set_self hsl
        apply sinv_update dirs hD sy _ i hS hi
        · rw [hdv]; exact step_inv dirs sy.dev _ hS.dev
        · rw [hdv]; exact hF.len
        · intro j hj hj' hne
          simp only [hdv]
          exact hF.other j hj (by rw [hF.len]; exact hj) hne
        · intro hi'
          simp only [hdv]
          rw [hF.src hi2, hcf.1, hpe]
        · intro s hs
          rw [hsk]
          rw [hpe] at hs
          rw [List.getElem?_set_ne (Ne.symm hs)]
        · rw [hsk]; simp
        · rw [hrd]
        · intro j _; rw [hrd]
        · intro k' hk2 x hx
          rw [hsk, hpe, hself] at hk2
          have hk3 := Option.some.inj hk2
          subst hk3
          rw [hfirst.1] at hx
          simp at hx
        · intro hi' k' hk2
          rw [hsk, hpe, hself] at hk2
          have hk3 := Option.some.inj hk2
          subst hk3
          have hstate : (step sy.dev (.recvDone i (.error e))).1.paths[i].state ≠ .recv := by
            rcases hF.next hi2 with ⟨h, _⟩ | ⟨_, h, _⟩ | ⟨h, _⟩
            · rw [h]; decide
            · rw [h]; decide
            · rw [hcf.2.1, hst] at h; cases h
          refine ⟨?_, ?_, ?_⟩
          · simp only [hdv, hrd]
            rw [hF.rcvd hi2, hcf.2.2]
            have := hP.cons
            rw [hpe] at this
            simpa using this
          · intro h
            simp only [hdv] at h
            exact absurd h hstate
          · intro _
            refine ⟨?_, by rw [hrd]; exact hfirst.2.1⟩
            show k.rwait.erase i = []
            rw [hfirst.1]; simp
      · rw [if_neg hc]; exact hS

/-- nothing but ghost marks of the device changed -/
theorem sinv_same (dirs : List Dir) (sy sy' : System) (hS : SInv dirs sy) (hdev : Inv dirs sy'.dev)
    (hlen : sy'.dev.paths.length = sy.dev.paths.length)
    (hframe : ∀ j (hj : j < sy.dev.paths.length) (hj' : j < sy'.dev.paths.length),
      sy'.dev.paths[j].core = sy.dev.paths[j].core)
    (hsocks : sy'.socks = sy.socks) (hready : sy'.ready = sy.ready) : SInv dirs sy' := by
  refine ⟨hdev, by rw [hready, hlen]; exact hS.rlen, ?_, ?_, ?_⟩
  · intro s k hk x hx
    rw [hsocks] at hk
    rcases hS.wsrc s k hk x hx with ⟨hx1, hx2⟩
    exact ⟨by rw [hlen]; exact hx1, by rw [(core_state (hframe x hx1 (by rw [hlen]; exact hx1))).2.1]; exact hx2⟩
  · intro j hj
    have hj0 : j < sy.dev.paths.length := by rw [← hlen]; exact hj
    rw [hsocks, (core_state (hframe j hj0 hj)).2.1]
    exact hS.sockOk j hj0
  · intro j hj k hk
    have hj0 : j < sy.dev.paths.length := by rw [← hlen]; exact hj
    rw [hsocks, (core_state (hframe j hj0 hj)).2.1] at hk
    rw [hready]
    exact pathSock_congr (hframe j hj0 hj) rfl (hS.path j hj0 k hk)

theorem sinv_cancel (dirs : List Dir) (sy : System) (rv : Nat) (hS : SInv dirs sy) :
    SInv dirs (sstep sy (.cancel rv)) := by
  show SInv dirs (devStep sy (.cancel rv))
  have hstep : step sy.dev (.cancel rv) = if rv == 0 then (sy.dev, []) else deviceCancel sy.dev rv := step_cancel_eq _ _
  have hfr : (step sy.dev (.cancel rv)).1.paths.length = sy.dev.paths.length ∧
      (∀ j (hj : j < sy.dev.paths.length) (hj' : j < (step sy.dev (.cancel rv)).1.paths.length),
        (step sy.dev (.cancel rv)).1.paths[j].core = sy.dev.paths[j].core) ∧
      posts (step sy.dev (.cancel rv)).2 = [] := by
    by_cases h0 : (rv == 0) = true
    · have : step sy.dev (.cancel rv) = (sy.dev, []) := by rw [hstep, if_pos h0]
      rw [this]
      exact ⟨rfl, fun _ _ _ => rfl, rfl⟩
    · have : step sy.dev (.cancel rv) = deviceCancel sy.dev rv := by rw [hstep, if_neg h0]
      rw [this]
      exact deviceCancel_frame sy.dev rv
  have hnp := devStep_noPost sy (.cancel rv) hfr.2.2
  apply sinv_same dirs sy _ hS
  · rw [hnp.1]; exact step_inv dirs sy.dev _ hS.dev
  · rw [hnp.1]; exact hfr.1
  · intro j hj hj'
    simp only [hnp.1]
    exact hfr.2.1 j hj (by rw [hfr.1]; exact hj)
  · exact hnp.2.1
  · exact hnp.2.2

/-- only one socket changed, its waiting receives are the same -/
theorem sinv_sock_only (dirs : List Dir) (sy : System) (s : Nat) (k k' : Sock) (hS : SInv dirs sy)
    (hk : sy.socks[s]? = some k) (hw : k'.rwait = k.rwait)
    (hp : ∀ j (hj : j < sy.dev.paths.length), sy.dev.paths[j].src = s → PathSock sy.dev.paths[j] j k' sy.ready) :
    SInv dirs { sy with socks := sy.socks.set s k' } := by
  have hsl : s < sy.socks.length := getElem?_lt hk
  refine ⟨hS.dev, hS.rlen, ?_, ?_, ?_⟩
  · intro s' k2 hk2 x hx
    show ∃ hi : x < sy.dev.paths.length, sy.dev.paths[x].src = s'
    by_cases hs : s' = s
    · subst hs
      have : (sy.socks.set s' k')[s']? = some k' := List.getElem?_set_self hsl
      have h2 : some k2 = some k' := by rw [← hk2]; exact this
      have h3 := Option.some.inj h2
      subst h3
      rw [hw] at hx
      exact hS.wsrc s' k hk x hx
    · have : (sy.socks.set s k')[s']? = sy.socks[s']? := List.getElem?_set_ne (Ne.symm hs)
      have hk3 : sy.socks[s']? = some k2 := by rw [← this]; exact hk2
      exact hS.wsrc s' k2 hk3 x hx
  · intro j hj
    show sy.dev.paths[j].src < (sy.socks.set s k').length
    simp; exact hS.sockOk j hj
  · intro j hj k2 hk2
    show PathSock sy.dev.paths[j] j k2 sy.ready
    by_cases hs : sy.dev.paths[j].src = s
    · have : (sy.socks.set s k')[s]? = some k' := List.getElem?_set_self hsl
      have hk2' : (sy.socks.set s k')[sy.dev.paths[j].src]? = some k2 := hk2
      rw [hs, this] at hk2'
      have h3 := Option.some.inj hk2'
      subst h3
      exact hp j hj hs
    · have : (sy.socks.set s k')[sy.dev.paths[j].src]? = sy.socks[sy.dev.paths[j].src]? :=
        List.getElem?_set_ne (Ne.symm hs)
      have hk3 : sy.socks[sy.dev.paths[j].src]? = some k2 := by rw [← this]; exact hk2
      exact hS.path j hj k2 hk3

theorem sinv_arrive (dirs : List Dir) (hD : DistinctSrc dirs) (sy : System) (s : Nat) (m : Msg) (hS : SInv dirs sy) :
    SInv dirs (sstep sy (.arrive s m)) := by
  show SInv dirs (match sy.socks[s]? with
    | some k =>
      match k.rwait with
      | i :: rest => { sy with socks := sy.socks.set s { k with rwait := rest, arrived := k.arrived ++ [m] },
                               ready := sy.ready.set i (some m) }
      | [] => { sy with socks := sy.socks.set s { k with rxq := k.rxq ++ [m], arrived := k.arrived ++ [m] } }
    | none => sy)
  cases hk : sy.socks[s]? with
  | none => exact hS
  | some k =>
    simp only
    cases hw : k.rwait with
    | nil =>
      simp only
      apply sinv_sock_only dirs sy s k _ hS hk (by simp [hw])
      intro j hj hsrc
      have hP := hS.path j hj k (by rw [hsrc]; exact hk)
      refine ⟨?_, ?_, ?_⟩
      · show k.arrived ++ [m] = _ ++ _ ++ (k.rxq ++ [m])
        rw [hP.cons]; simp
      · intro hst
        rcases hP.posted hst with ⟨h1, _⟩ | ⟨_, h2⟩
        · rw [hw] at h1; cases h1
        · exact Or.inr ⟨rfl, h2⟩
      · intro hst
        exact ⟨rfl, (hP.idle hst).2⟩
    | cons i rest =>
      simp only
      have hsl : s < sy.socks.length := getElem?_lt hk
      rcases hS.wsrc s k hk i (by rw [hw]; simp) with ⟨hi, hsrc⟩
      have hP := hS.path i hi k (by rw [hsrc]; exact hk)
      have hst : sy.dev.paths[i].state = .recv := by
        apply Classical.byContradiction
        intro hn
        have := (hP.idle hn).1
        rw [hw] at this; cases this
      have hfirst : k.rwait = [i] ∧ sy.ready[i]? = some none ∧ k.rxq = [] := by
        rcases hP.posted hst with h | ⟨h1, _⟩
        · exact h
        · rw [hw] at h1; cases h1
      have hrest : rest = [] := by
        have := hfirst.1
        rw [hw] at this
        simpa using this
      have hir : i < sy.ready.length := getElem?_lt hfirst.2.1
      generalize hsy' : ({ sy with socks := sy.socks.set s { k with rwait := rest, arrived := k.arrived ++ [m] }, ready := sy.ready.set i (some m) } : System) = sy'
      have hd' : sy'.dev = sy.dev := by rw [← hsy']
      have hs' : sy'.socks = sy.socks.set s { k with rwait := rest, arrived := k.arrived ++ [m] } := by rw [← hsy']
      have hr' : sy'.ready = sy.ready.set i (some m) := by rw [← hsy']
      have hself : (sy.socks.set s { k with rwait := rest, arrived := k.arrived ++ [m] })[s]? =
          some { k with rwait := rest, arrived := k.arrived ++ [m] } := List.getElem?_set_self hsl
      apply sinv_update dirs hD sy sy' i hS hi
      · rw [hd']; exact hS.dev
      · rw [hd']
      · intro j hj hj' _
        simp only [hd']
      · intro hi'
        simp only [hd']
      · intro s' hs
        rw [hs', hsrc] at *
        rw [List.getElem?_set_ne (Ne.symm hs)]
      · rw [hs']; simp
      · rw [hr']; simp
      · intro j hne
        rw [hr', List.getElem?_set_ne (Ne.symm hne)]
      · intro k' hk' x hx
        rw [hs', hsrc, hself] at hk'
        have h3 := Option.some.inj hk'
        subst h3
        rw [hrest] at hx
        cases hx
      · intro hi' k' hk'
        rw [hs', hsrc, hself] at hk'
        have h3 := Option.some.inj hk'
        subst h3
        have hnew : sy'.ready[i]? = some (some m) := by
          rw [hr']; exact List.getElem?_set_self hir
        refine ⟨?_, ?_, ?_⟩
        · simp only [hd', pendOf, hnew]
          show k.arrived ++ [m] = _
          have := hP.cons
          simp only [pendOf, hfirst.2.1, hfirst.2.2] at this
          rw [this, hfirst.2.2]
          simp
        · intro _
          exact Or.inr ⟨hrest, m, hnew⟩
        · intro h
          simp only [hd'] at h
          exact absurd hst h

theorem postRecv_cons (sy : System) (s i : Nat) (k : Sock) (m : Msg) (rest : List Msg)
    (hk : sy.socks[s]? = some k) (hq : k.rxq = m :: rest) :
    (postRecv sy s i).socks = sy.socks.set s { k with rxq := rest } ∧
    (postRecv sy s i).ready = sy.ready.set i (some m) := by
  unfold postRecv
  rw [hk]
  simp [hq]

theorem postRecv_nil (sy : System) (s i : Nat) (k : Sock) (hk : sy.socks[s]? = some k) (hq : k.rxq = []) :
    (postRecv sy s i).socks = sy.socks.set s { k with rwait := k.rwait ++ [i] } ∧
    (postRecv sy s i).ready = sy.ready := by
  unfold postRecv
  rw [hk]
  simp [hq]

/-- an event that the device ignores -/
theorem sinv_noop (dirs : List Dir) (sy : System) (e : DEv) (hS : SInv dirs sy)
    (h : step sy.dev e = (sy.dev, [])) : SInv dirs (devStep sy e) := by
  have hnp := devStep_noPost sy e (by rw [h]; rfl)
  apply sinv_same dirs sy _ hS
  · rw [hnp.1, h]; exact hS.dev
  · rw [hnp.1, h]
  · intro j hj hj'
    simp only [hnp.1, h]
  · exact hnp.2.1
  · exact hnp.2.2

theorem sinv_sendDone (dirs : List Dir) (hD : DistinctSrc dirs) (sy : System) (i rv : Nat) (hS : SInv dirs sy) :
    SInv dirs (sstep sy (.sendDone i rv)) := by
  show SInv dirs (devStep sy (.sendDone i rv))
  cases hp : sy.dev.paths[i]? with
  | none =>
    apply sinv_noop dirs sy _ hS
    rw [step_send_eq, hp]
  | some p =>
    by_cases hs : p.state = .send
    · have hi : i < sy.dev.paths.length := getElem?_lt hp
      have hpe : sy.dev.paths[i] = p := by
        rcases List.getElem?_eq_some_iff.mp hp with ⟨_, h⟩; exact h
      rcases sinv_sock dirs sy hS i hi with ⟨k, hk⟩
      have hP := hS.path i hi k hk
      have hidle := hP.idle (by rw [hpe, hs]; decide)
      have hF := step_send_frame sy.dev i p rv hp hs
      have hcf := completeSend_facts p rv
      have hi2 : i < (step sy.dev (.sendDone i rv)).1.paths.length := by rw [hF.len]; exact hi
      have hsl : sy.dev.paths[i].src < sy.socks.length := hS.sockOk i hi
      rcases hF.next hi2 with ⟨hfin, hposts⟩ | ⟨h, _, _⟩ | ⟨_, hrecv, hposts⟩
      · -- the path stops
        have hnp := devStep_noPost sy (.sendDone i rv) hposts
        apply sinv_update dirs hD sy _ i hS hi
        · rw [hnp.1]; exact step_inv dirs sy.dev _ hS.dev
        · rw [hnp.1]; exact hF.len
        · intro j hj hj' hne
          simp only [hnp.1]
          exact hF.other j hj (by rw [hF.len]; exact hj) hne
        · intro hi'
          simp only [hnp.1]
          rw [hF.src hi2, hcf.1, hpe]
        · intro s _; rw [hnp.2.1]
        · rw [hnp.2.1]
        · rw [hnp.2.2]
        · intro j _; rw [hnp.2.2]
        · intro k' hk' x hx
          rw [hnp.2.1] at hk'
          exact Or.inr ⟨k', hk', hx⟩
        · intro hi' k' hk'
          rw [hnp.2.1, hk] at hk'
          have h3 := Option.some.inj hk'
          subst h3
          refine ⟨?_, ?_, ?_⟩
          · simp only [hnp.1, hnp.2.2]
            rw [hF.rcvd hi2, hcf.2.2]
            have := hP.cons
            rw [hpe] at this
            exact this
          · intro h
            simp only [hnp.1] at h
            rw [hfin] at h; cases h
          · intro _
            rw [hnp.2.2]; exact hidle
      · rw [hcf.2.1, hs] at h; cases h
      · -- the path receives again: the socket serves it from its queue or lets it wait
        rw [hcf.1] at hposts
        have hop := devStep_onePost sy (.sendDone i rv) p.src i hposts
        generalize hsy1 : ({ sy with dev := (step sy.dev (.sendDone i rv)).1 } : System) = sy1 at hop
        have hs1 : sy1.socks = sy.socks := by rw [← hsy1]
        have hr1 : sy1.ready = sy.ready := by rw [← hsy1]
        have hk1 : sy1.socks[p.src]? = some k := by rw [hs1, ← hpe]; exact hk
        have hir : i < sy.ready.length := by rw [hS.rlen]; exact hi
        have hcons := hP.cons
        rw [hpe] at hcons
        simp only [pendOf, hidle.2] at hcons
        cases hq : k.rxq with
        | nil =>
          have hpr := postRecv_nil sy1 p.src i k hk1 hq
          have hsk : (devStep sy (.sendDone i rv)).socks = sy.socks.set p.src { k with rwait := k.rwait ++ [i] } := by
            rw [hop.2.1, hpr.1, hs1]
          have hrd : (devStep sy (.sendDone i rv)).ready = sy.ready := by rw [hop.2.2, hpr.2, hr1]
          have hself : (sy.socks.set p.src { k with rwait := k.rwait ++ [i] })[p.src]? = some { k with rwait := k.rwait ++ [i] } :=
            List.getElem?_set_self (by rw [← hpe]; exact hsl)
          apply sinv_update dirs hD sy _ i hS hi
          · rw [hop.1]; exact step_inv dirs sy.dev _ hS.dev
          · rw [hop.1]; exact hF.len
          · intro j hj hj' hne
            simp only [hop.1]
            exact hF.other j hj (by rw [hF.len]; exact hj) hne
          · intro hi'
            simp only [hop.1]
            rw [hF.src hi2, hcf.1, hpe]
          · intro s hne
            rw [hsk]
            rw [hpe] at hne
            rw [List.getElem?_set_ne (Ne.symm hne)]
          · rw [hsk]; simp
          · rw [hrd]
          · intro j _; rw [hrd]
          · intro k' hk' x hx
            rw [hsk, hpe, hself] at hk'
            have h3 := Option.some.inj hk'
            subst h3
            rw [hidle.1] at hx
            simp at hx
            exact Or.inl hx
          · intro hi' k' hk'
            rw [hsk, hpe, hself] at hk'
            have h3 := Option.some.inj hk'
            subst h3
            refine ⟨?_, ?_, ?_⟩
            · simp only [hop.1, hrd, pendOf, hidle.2]
              rw [hF.rcvd hi2, hcf.2.2]
              exact hcons
            · intro _
              left
              refine ⟨?_, by rw [hrd]; exact hidle.2, hq⟩
              show k.rwait ++ [i] = [i]
              rw [hidle.1]; rfl
            · intro h
              simp only [hop.1] at h
              exact absurd hrecv h
        | cons m rest =>
          have hpr := postRecv_cons sy1 p.src i k m rest hk1 hq
          have hsk : (devStep sy (.sendDone i rv)).socks = sy.socks.set p.src { k with rxq := rest } := by
            rw [hop.2.1, hpr.1, hs1]
          have hrd : (devStep sy (.sendDone i rv)).ready = sy.ready.set i (some m) := by rw [hop.2.2, hpr.2, hr1]
          have hself : (sy.socks.set p.src { k with rxq := rest })[p.src]? = some { k with rxq := rest } :=
            List.getElem?_set_self (by rw [← hpe]; exact hsl)
          have hnew : (devStep sy (.sendDone i rv)).ready[i]? = some (some m) := by
            rw [hrd]; exact List.getElem?_set_self hir
          apply sinv_update dirs hD sy _ i hS hi
          · rw [hop.1]; exact step_inv dirs sy.dev _ hS.dev
          · rw [hop.1]; exact hF.len
          · intro j hj hj' hne
            simp only [hop.1]
            exact hF.other j hj (by rw [hF.len]; exact hj) hne
          · intro hi'
            simp only [hop.1]
            rw [hF.src hi2, hcf.1, hpe]
          · intro s hne
            rw [hsk]
            rw [hpe] at hne
            rw [List.getElem?_set_ne (Ne.symm hne)]
          · rw [hsk]; simp
          · rw [hrd]; simp
          · intro j hne
            rw [hrd, List.getElem?_set_ne (Ne.symm hne)]
          · intro k' hk' x hx
            rw [hsk, hpe, hself] at hk'
            have h3 := Option.some.inj hk'
            subst h3
            rw [show ({ k with rxq := rest } : Sock).rwait = k.rwait from rfl, hidle.1] at hx
            cases hx
          · intro hi' k' hk'
            rw [hsk, hpe, hself] at hk'
            have h3 := Option.some.inj hk'
            subst h3
            refine ⟨?_, ?_, ?_⟩
            · simp only [hop.1, pendOf, hnew]
              rw [hF.rcvd hi2, hcf.2.2]
              show k.arrived = p.rcvd ++ [m] ++ rest
              rw [hcons, hq]; simp
            · intro _
              right
              exact ⟨hidle.1, m, hnew⟩
            · intro h
              simp only [hop.1] at h
              exact absurd hrecv h
    · apply sinv_noop dirs sy _ hS
      rw [step_send_eq, hp]
      simp [hs]

theorem sstep_inv (dirs : List Dir) (hD : DistinctSrc dirs) (sy : System) (e : SEv) (hS : SInv dirs sy) :
    SInv dirs (sstep sy e) := by
  cases e with
  | arrive s m => exact sinv_arrive dirs hD sy s m hS
  | run i => exact sinv_run dirs hD sy i hS
  | recvFail i e => exact sinv_recvFail dirs hD sy i e hS
  | sendDone i rv => exact sinv_sendDone dirs hD sy i rv hS
  | cancel rv => exact sinv_cancel dirs sy rv hS

theorem srun_inv (dirs : List Dir) (hD : DistinctSrc dirs) (evs : List SEv) :
    ∀ sy, SInv dirs sy → SInv dirs (srun sy evs) := by
  induction evs with
  | nil => intro sy h; exact h
  | cons e es ih => intro sy h; exact ih _ (sstep_inv dirs hD sy e h)

end Nng.Device
