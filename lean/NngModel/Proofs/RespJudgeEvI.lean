/-
  RESPONDENT judge simulation, part I: a context is closed (`ctx_close`): resp0_ctx_close.
-/
import NngModel.Proofs.RespJudgeEvH
namespace Nng.RespJudge
open Nng Nng.Proto Nng.Respond Nng.SurveySpec

/-- the parked send of `c` fails with `rv ≠ 0`: judge and model drop it -/
theorem send_leave {s : State} {j : RespJ} {used : List Bytes} (hc : RelCore s j used) (hk : (s.ctxs.map (·.key)).Nodup)
    {c : Ctx} (c' : Ctx) (ps : PSend) (hcm : c ∈ s.ctxs) (hkey : c'.key = c.key) (hs : c.saio = some ps) (hs' : c'.saio = none)
    (hr : c'.raio = c.raio) (ha : absCtx c' = absCtx c) (outs : List Out) (rv : Nat) (h0 : rv ≠ 0) (mb : Bool) :
    RelCore (setCtx s c') (respOut outs j (.done ps.aio rv none mb)) used := by
  have hem : expOf c ps ∈ j.pendSend := (hc.ps _).2 ⟨c, hcm, ps, hs, rfl⟩
  have hf1 : j.pendRecv.find? (·.1 == ps.aio) = none := by
    rw [List.find?_eq_none]
    intro x hx
    have := recv_send_aio_ne hc.aios hx hem
    simpa [expOf] using this
  have hf2 : j.pendSend.find? (·.aio == ps.aio) = some (expOf c ps) := by
    cases hfd : j.pendSend.find? (·.aio == ps.aio) with
    | none =>
      have := List.find?_eq_none.1 hfd _ hem
      simp [expOf] at this
    | some e' =>
      have h1 := List.mem_of_find?_eq_some hfd
      have h2 : e'.aio = ps.aio := by simpa using List.find?_some hfd
      rw [send_aio_inj hc.aios h1 hem h2]
  rw [respOut_done_send_fail hf1 hf2 rfl h0]
  exact rel_unpark_send hc hk c' ps hcm hkey hs hs' hr ha

/-- the parked receive of `c` fails with `rv ≠ 0` -/
theorem recv_leave {s : State} {j : RespJ} {used : List Bytes} (hc : RelCore s j used) (hk : (s.ctxs.map (·.key)).Nodup)
    {c : Ctx} (c' : Ctx) (pr : PRecv) (hcm : c ∈ s.ctxs) (hkey : c'.key = c.key) (hr : c.raio = some pr) (hr' : c'.raio = none)
    (hs : c'.saio = c.saio) (ha : absCtx c' = absCtx c) (outs : List Out) (rv : Nat) (h0 : rv ≠ 0) (mb : Bool) :
    RelCore (setCtx s c') (respOut outs j (.done pr.aio rv none mb)) used := by
  have hxm : (pr.aio, c.key, false) ∈ j.pendRecv := (hc.pr _).2 ⟨c, hcm, pr, hr, rfl⟩
  have hf1 : j.pendRecv.find? (·.1 == pr.aio) = some (pr.aio, c.key, false) := by
    cases hfd : j.pendRecv.find? (·.1 == pr.aio) with
    | none =>
      have := List.find?_eq_none.1 hfd _ hxm
      simp at this
    | some x' =>
      have h1 := List.mem_of_find?_eq_some hfd
      have h2 : x'.1 = pr.aio := by simpa using List.find?_some hfd
      rw [recv_aio_inj hc.aios h1 hxm h2]
  rw [respOut_done_recv_fail hf1 h0]
  have h2 := rel_unpark_recv hc hk c' pr hcm hkey hr hr' hs
  rw [ha, setCtxJ_same (j := { j with pendRecv := j.pendRecv.filter (·.1 != pr.aio) }) (s := s) hc.ctxs hk hcm] at h2
  exact h2

theorem closeCtx_core {s : State} {j : RespJ} {used : List Bytes} (hc : RelCore s j used) (hn : NInv s) (c : Ctx)
    (hcm : c ∈ s.ctxs) (outs : List Out) :
    RelCore (closeCtx s c).1 ((closeCtx s c).2.foldl (respOut outs) j) used ∧
    (∀ o ∈ (closeCtx s c).2, ∃ a' rv' m mb, o = Out.done a' rv' m mb) ∧
    (∀ q ∈ (closeCtx s c).1.ctxs, q.key = c.key → q.saio = none ∧ q.raio = none) := by
  have hlast : ∀ s1 : State, (s1.ctxs.map (·.key)).Nodup → c ∈ s1.ctxs →
      ∀ q ∈ (setCtx s1 { c with saio := none, raio := none }).ctxs, q.key = c.key → q.saio = none ∧ q.raio = none := by
    intro s1 hk1 hc1 q hq hqk
    rcases (mem_setCtx_iff (c' := { c with saio := none, raio := none }) hc1 rfl).1 hq with rfl | ⟨_, hne⟩
    · exact ⟨rfl, rfl⟩
    · exact absurd hqk hne
  unfold closeCtx
  cases hs : c.saio with
  | none =>
    cases hr : c.raio with
    | none =>
      simp only [List.append_nil, List.foldl_nil]
      refine ⟨?_, (by intro o ho; cases ho), hlast s hn.keys hcm⟩
      exact rel_setCtx_same hc hn.keys { c with saio := none, raio := none } hcm rfl rfl hs.symm hr.symm
    | some pr =>
      simp only [List.nil_append, List.foldl_cons, List.foldl_nil]
      have h1 : RelCore { s with recvq := s.recvq.filter (· != c.key) } j used := hc.of_eq rfl rfl rfl rfl rfl rfl
      refine ⟨?_, (by intro o ho; simp only [List.mem_singleton] at ho; exact ⟨_, _, _, _, ho⟩),
        hlast { s with recvq := s.recvq.filter (· != c.key) } hn.keys hcm⟩
      exact recv_leave h1 hn.keys { c with saio := none, raio := none } pr hcm rfl hr rfl hs.symm rfl outs _ (by decide) _
  | some ps =>
    have hX : RelCore { s with pipes := s.pipes.map fun (pp : Pipe) => { pp with sendq := pp.sendq.filter (· != c.key) } } j used :=
      rel_pipes_map hc _ (fun _ => rfl) (fun _ => rfl) (fun _ => rfl) (fun _ => rfl)
    cases hr : c.raio with
    | none =>
      simp only [List.append_nil, List.foldl_cons, List.foldl_nil]
      refine ⟨?_, (by intro o ho; simp only [List.mem_singleton] at ho; exact ⟨_, _, _, _, ho⟩),
        hlast { s with pipes := s.pipes.map fun (pp : Pipe) => { pp with sendq := pp.sendq.filter (· != c.key) } } hn.keys hcm⟩
      exact send_leave hX hn.keys { c with saio := none, raio := none } ps hcm rfl hs rfl hr.symm rfl outs _ (by decide) _
    | some pr =>
      simp only [List.cons_append, List.nil_append, List.foldl_cons, List.foldl_nil]
      have hX2 : RelCore { ({ s with pipes := s.pipes.map fun (pp : Pipe) => { pp with sendq := pp.sendq.filter (· != c.key) } } : State) with
          recvq := s.recvq.filter (· != c.key) } j used := hX.of_eq rfl rfl rfl rfl rfl rfl
      refine ⟨?_, (by intro o ho; simp only [List.mem_cons, List.not_mem_nil, or_false] at ho; rcases ho with ho | ho <;> exact ⟨_, _, _, _, ho⟩),
        hlast _ hn.keys hcm⟩
      have hA := send_leave hX2 hn.keys { c with saio := none } ps hcm rfl hs rfl rfl rfl outs Err.eclosed (by decide) true
      have hk1 : ((setCtx { ({ s with pipes := s.pipes.map fun (pp : Pipe) => { pp with sendq := pp.sendq.filter (· != c.key) } } : State) with
          recvq := s.recvq.filter (· != c.key) } { c with saio := none }).ctxs.map (·.key)).Nodup := by
        rw [keys_setCtx]; exact hn.keys
      have hc1 : ({ c with saio := none } : Ctx) ∈ (setCtx { ({ s with pipes := s.pipes.map fun (pp : Pipe) => { pp with sendq := pp.sendq.filter (· != c.key) } } : State) with
          recvq := s.recvq.filter (· != c.key) } { c with saio := none }).ctxs := mem_setCtx_self hcm rfl
      have hB := recv_leave hA hk1 { c with saio := none, raio := none } pr hc1 rfl hr rfl rfl rfl outs Err.eclosed (by decide) false
      rw [setCtx_setCtx _ { c with saio := none } { c with saio := none, raio := none } rfl] at hB
      exact hB

/-- the closed context disappears from the tables -/
theorem rel_ctx_filter {s : State} {j : RespJ} {used : List Bytes} (hc : RelCore s j used) (k : Nat)
    (hq : ∀ q ∈ s.ctxs, q.key = some k → q.saio = none ∧ q.raio = none) :
    RelCore { s with ctxs := s.ctxs.filter (·.key != some k) } { j with ctxs := j.ctxs.filter (·.key != some k) } used := by
  refine ⟨hc.err, hc.closed, hc.ttl, hc.ttl0, ?_, hc.arr, ?_, ?_, hc.aios, hc.gone, hc.infl, hc.bodies, hc.used⟩
  · show j.ctxs.filter (·.key != some k) = (s.ctxs.filter (·.key != some k)).map absCtx
    rw [hc.ctxs, List.filter_map]
    rfl
  · intro x
    rw [hc.pr x]
    constructor
    · rintro ⟨c, hcm, r, hr, rfl⟩
      refine ⟨c, List.mem_filter.2 ⟨hcm, ?_⟩, r, hr, rfl⟩
      simp only [bne_iff_ne, ne_eq]
      intro e
      rw [(hq c hcm e).2] at hr; cases hr
    · rintro ⟨c, hcm, r, hr, rfl⟩
      exact ⟨c, (List.mem_filter.1 hcm).1, r, hr, rfl⟩
  · intro e
    rw [hc.ps e]
    constructor
    · rintro ⟨c, hcm, p, hp, rfl⟩
      refine ⟨c, List.mem_filter.2 ⟨hcm, ?_⟩, p, hp, rfl⟩
      simp only [bne_iff_ne, ne_eq]
      intro e
      rw [(hq c hcm e).1] at hp; cases hp
    · rintro ⟨c, hcm, p, hp, rfl⟩
      exact ⟨c, (List.mem_filter.1 hcm).1, p, hp, rfl⟩

theorem ctxClose_ok {s : State} {j : RespJ} {used : List Bytes} (hR : Rel s j used) (hI : MInv s) (k : Nat) (c : Ctx)
    (hg : getCtx s (some k) = some c) :
    Rel { (closeCtx s c).1 with ctxs := (closeCtx s c).1.ctxs.filter (·.key != some k) }
      (respStep j (.ctxClose k) ([.rv 0] ++ (closeCtx s c).2)) used := by
  have hcm := getCtx_mem hg
  have hck := getCtx_key hg
  obtain ⟨h1, h2, h3⟩ := closeCtx_core hR.core hI.n c hcm ([.rv 0] ++ (closeCtx s c).2)
  have hne : notExecuted ([.rv 0] ++ (closeCtx s c).2) = false := by
    unfold notExecuted
    rw [List.any_eq_false]
    intro o ho
    rcases List.mem_append.1 ho with ho | ho
    · simp only [List.mem_singleton] at ho; subst ho; simp
    · obtain ⟨_, _, _, _, rfl⟩ := h2 o ho; simp
  have hbl : hasBlocked ([.rv 0] ++ (closeCtx s c).2) = false := by
    unfold hasBlocked
    rw [List.any_eq_false]
    intro o ho
    rcases List.mem_append.1 ho with ho | ho
    · simp only [List.mem_singleton] at ho; subst ho; simp
    · obtain ⟨_, _, _, _, rfl⟩ := h2 o ho; simp
  have hmid : respMid ([.rv 0] ++ (closeCtx s c).2) j = (closeCtx s c).2.foldl (respOut ([.rv 0] ++ (closeCtx s c).2)) j := by
    rw [respMid_eq, List.filter_append, List.filter_append, filter_done_self h2, filter_notDone_nil h2]
    rfl
  have hj2 : ctxCloseStep (.ctxClose k) ([.rv 0] ++ (closeCtx s c).2)
      (respMid ([.rv 0] ++ (closeCtx s c).2) (respPre j (.ctxClose k) ([.rv 0] ++ (closeCtx s c).2))) =
      { ((closeCtx s c).2.foldl (respOut ([.rv 0] ++ (closeCtx s c).2)) j) with
        ctxs := ((closeCtx s c).2.foldl (respOut ([.rv 0] ++ (closeCtx s c).2)) j).ctxs.filter (·.key != some k) } := by
    have hpre : respPre j (.ctxClose k) ([.rv 0] ++ (closeCtx s c).2) = j := rfl
    rw [hpre, hmid]
    unfold ctxCloseStep
    simp
  have hn' := ninv_stepOK.hCtxClose s k c hI.n hg
  refine step_finish _ _ hR.core.err hne hn' hj2 ?_ hbl (pollClause_skip _ _ _ rfl) (by intro r w h; cases h)
  have hfin := rel_ctx_filter h1 k (fun q hq hqk => h3 q hq (hqk.trans hck.symm))
  rw [unfreshJ_id]
  · exact hfin
  · exact RelCore.fresh hfin

end Nng.RespJudge
