/-
  The raw SURVEYOR / raw RESPONDENT judge (`Spec/RawSurvey.lean: xStep`) cut into named pieces,
  equality with the real step function (`xStep_eq`), and the judge on single outputs.
  Used by the simulation proof in Proofs/RawJudge*.lean.  Nothing in Spec/ is changed.
-/
import NngModel.Spec.RawSurvey
namespace Nng.RawSurveySpec
open Nng Nng.Proto

/-! ### the pieces of `xStep` -/

def nbOf (a : Nat) : Mode → Option Nat
  | .nb => some a
  | _ => none

def xPre (resp : Bool) (j : XJ) (ev : Ev) (outs : List Out) : XJ × Option Nat :=
  let ok0 := outs.contains (.rv 0)
  match ev with
  | .recv none a mode => ({ j with recvs := j.recvs ++ [(a, mode == .nb)] }, match mode with | .nb => some a | _ => none)
  | .send none a m mode => ({ j with sends := j.sends ++ [⟨a, m.hdr, m.body, mode == .nb⟩] }, match mode with | .nb => some a | _ => none)
  | .recv (some _) a _ => ({ j with recvs := j.recvs ++ [(a, false)] }, none)
  | .send (some _) a m _ => ({ j with sends := j.sends ++ [⟨a, m.hdr, m.body, false⟩] }, none)
  | .recvDone p (.ok b) => if ok0 then (arrival resp j p b outs, none) else (j, none)
  | .sendDone p rv => if ok0 && rv == 0 then ({ j with busy := j.busy.filter (· != p) }, none) else (j, none)
  | .setopt none "ttl-max" "int" v => if ok0 then ({ j with ttl := v.toNat }, none) else (j, none)
  | .close => ({ j with closed := true }, none)
  | _ => (j, none)

def pipeStep (outs : List Out) (j : XJ) (o : Out) : XJ :=
  match o with
  | .pipe p => if p ≥ 0 && !(outs.contains (.pclosed p.toNat)) then { j with live := j.live ++ [p.toNat] } else j
  | _ => j

def doneStep (resp : Bool) (j : XJ) (o : Out) : XJ :=
  match o with | .done a rv m mb => xDone resp j a rv m mb | _ => j

def nbChk (nb : Option Nat) (outs : List Out) (j : XJ) : XJ :=
  match nb with
  | some a => if (outs.filter isDone).any (fun o => match o with | .done a' _ _ _ => a' == a | _ => false) then j
              else j.fail s!"non-blocking call {a} did not complete at once"
  | none => j

def blockedChk (outs : List Out) (j : XJ) : XJ :=
  if outs.any isBlocked then j.fail "a non-blocking call blocked" else j

def pollOf (outs : List Out) : Option (Bool × Bool) :=
  outs.findSome? (fun o => match o with | .poll (some r) (some w) => some (r, w) | _ => none)

def endChk (j : XJ) : XJ :=
  if j.closed then j
  else if !j.recvs.isEmpty && j.held.any (fun h => !h.maybe) then j.fail "a receiver is kept waiting although a message is held"
  else
    match j.acc.find? (fun (a : Held) => j.live.contains a.pipe && !(j.busy.contains a.pipe)) with
    | some a => j.fail s!"an accepted message for idle pipe {a.pipe} is held back"
    | none => j

def xPost (nb : Option Nat) (outs : List Out) (j : XJ) : XJ :=
  endChk { blockedChk outs (nbChk nb outs j) with polled := pollOf outs }

def procOuts (resp : Bool) (outs : List Out) (j : XJ) : XJ :=
  (outs.filter (fun o => !isDone o)).foldl (xOut resp) ((outs.filter isDone).foldl (doneStep resp) (outs.foldl (pipeStep outs) j))

theorem xStep_eq {resp : Bool} {j : XJ} {ev : Ev} {outs : List Out} (herr : j.err = none) (hne : notExecuted outs = false) :
    xStep resp j ev outs = xPost (xPre resp j ev outs).2 outs (procOuts resp outs (xPre resp j ev outs).1) := by
  unfold xStep
  rw [if_neg (by simp [herr]), if_neg (by simp [hne])]
  rfl

theorem xStep_refused {resp : Bool} {j : XJ} {ev : Ev} {outs : List Out} (hne : notExecuted outs = true) :
    xStep resp j ev outs = j := by
  unfold xStep; simp [hne]

/-! ### the judge on single completions -/

theorem polled_cases (p : Option (Bool × Bool)) : p = none ∨ ∃ rd wr, p = some (rd, wr) := by
  cases p with
  | none => exact Or.inl rfl
  | some x => exact Or.inr ⟨x.1, x.2, rfl⟩

/-- a receive fails (own zero timeout, cancel, abort, expiry, close) -/
theorem xDone_recv_fail (resp : Bool) (j : XJ) (a rv a1 : Nat) (nbf mb : Bool)
    (h : j.recvs.find? (·.1 == a) = some (a1, nbf)) (hrv : rv ≠ 0)
    (hok : nbf = true → rv = Err.eagain →
      j.held.any (fun h => !h.maybe) = false ∧ ∀ rd wr, j.polled = some (rd, wr) → rd = false) :
    xDone resp j a rv none mb = { j with recvs := j.recvs.filter (·.1 != a) } := by
  obtain ⟨n, rfl⟩ : ∃ n, rv = n + 1 := ⟨rv - 1, by omega⟩
  unfold xDone
  rw [h]
  simp only []
  by_cases hn : nbf = true ∧ n + 1 = Err.eagain
  · obtain ⟨h1, h2⟩ := hok hn.1 hn.2
    rcases polled_cases j.polled with hp | ⟨rd, wr, hp⟩
    · simp [hp, h1]
    · have := h2 rd wr hp
      subst this
      simp [hp, h1]
  · have hc : (nbf && (n + 1 == Err.eagain)) = false := by
      cases nbf <;> simp_all
    rcases polled_cases j.polled with hp | ⟨rd, wr, hp⟩
    · simp only [hp]
      cases nbf <;> simp_all
    · simp only [hp]
      cases nbf <;> cases rd <;> simp_all

/-- a receive succeeds with a message -/
theorem xDone_recv_ok (resp : Bool) (j : XJ) (a a1 : Nat) (nbf mb : Bool) (m : WMsg)
    (h : j.recvs.find? (·.1 == a) = some (a1, nbf))
    (hok : nbf = true → ∀ rd wr, j.polled = some (rd, wr) → rd = true) :
    xDone resp j a 0 (some m) mb = deliver { j with recvs := j.recvs.filter (·.1 != a) } a m := by
  unfold xDone
  rw [h]
  simp only []
  rcases polled_cases j.polled with hp | ⟨rd, wr, hp⟩
  · simp [hp]
  · simp only [hp]
    cases nbf with
    | false => simp
    | true =>
      have := hok rfl rd wr hp
      subst this
      simp [Err.eagain]

/-- a send fails: the message stays with the caller -/
theorem xDone_send_fail (resp : Bool) (j : XJ) (a rv : Nat) (o : Offer) (msg : Option WMsg)
    (hr : j.recvs.find? (·.1 == a) = none) (h : j.sends.find? (·.aio == a) = some o) (hrv : rv ≠ 0) (hnb : o.nb = false) :
    xDone resp j a rv msg true = { j with sends := j.sends.filter (·.aio != a) } := by
  unfold xDone
  rw [hr]
  simp only []
  rw [h]
  simp only []
  rcases polled_cases j.polled with hp | ⟨rd, wr, hp⟩
  · simp [hp, hrv]
  · simp [hp, hrv, hnb]

/-- a send succeeds: the judge computes where the message must go -/
theorem xDone_send_ok (resp : Bool) (j : XJ) (a : Nat) (o : Offer) (msg : Option WMsg)
    (hr : j.recvs.find? (·.1 == a) = none) (h : j.sends.find? (·.aio == a) = some o)
    (hok : o.nb = true → ∀ rd wr, j.polled = some (rd, wr) → wr = true) :
    xDone resp j a 0 msg false = accept resp { j with sends := j.sends.filter (·.aio != a) } o := by
  unfold xDone
  rw [hr]
  simp only []
  rw [h]
  simp only []
  rcases polled_cases j.polled with hp | ⟨rd, wr, hp⟩
  · simp [hp]
  · simp only [hp]
    cases hb : o.nb with
    | false => simp
    | true =>
      have := hok hb rd wr hp
      subst this
      simp [Err.eagain]

/-- the judge hands over the oldest held message of its pipe -/
theorem deliver_ok (j : XJ) (a : Nat) (m : WMsg) (h : Held) (h1 : j.held.find? (·.body == m.body) = some h)
    (h2 : j.held.find? (·.pipe == h.pipe) = some h) (h3 : h.hdr = m.hdr) :
    deliver j a m = { j with held := j.held.erase h } := by
  unfold deliver
  rw [h1]
  simp only []
  rw [h2]
  simp [h3]

/-! ### the judge on single non-completion outputs -/

theorem xOut_rv (resp : Bool) (j : XJ) (n : Int) : xOut resp j (.rv n) = j := rfl
theorem xOut_rv2 (resp : Bool) (j : XJ) (n v : Int) : xOut resp j (.rv2 n v) = j := rfl
theorem xOut_parm (resp : Bool) (j : XJ) (p : Nat) : xOut resp j (.parm p) = j := rfl
theorem xOut_pipe (resp : Bool) (j : XJ) (p : Int) : xOut resp j (.pipe p) = j := rfl
theorem xOut_pclosed (resp : Bool) (j : XJ) (p : Nat) :
    xOut resp j (.pclosed p) =
      { j with live := j.live.filter (· != p), busy := j.busy.filter (· != p),
               held := j.held.map (fun h => if h.pipe == p then { h with maybe := true } else h),
               acc := j.acc.filter (·.pipe != p) } := rfl

theorem xOut_poll (resp : Bool) (j : XJ) (r : Bool) (w : Option Bool) (hc : j.closed = false)
    (h1 : r = false → j.held.any (fun h => !h.maybe) = false) (h2 : r = true → j.held ≠ []) :
    xOut resp j (.poll (some r) w) = j := by
  unfold xOut
  simp only [hc]
  cases r with
  | false => simp [h1 rfl]
  | true =>
    have := h2 rfl
    cases hh : j.held with
    | nil => exact absurd hh this
    | cons x xs => simp

theorem xOut_psend (resp : Bool) (j : XJ) (p : Nat) (m : WMsg) (a : Held) (hw : (p, m.body) ∉ j.wired) (hl : p ∈ j.live)
    (hb : p ∉ j.busy) (ha : j.acc.find? (·.pipe == p) = some a) (hbody : a.body = m.body) (hhdr : a.hdr = m.hdr) :
    xOut resp j (.psend p m) = { j with acc := j.acc.erase a, wired := j.wired ++ [(p, m.body)], busy := j.busy ++ [p] } := by
  unfold xOut
  simp only []
  rw [if_neg (by simpa using hw), if_neg (by simpa using hl), if_neg (by simpa using hb), ha]
  simp [hbody, hhdr]

end Nng.RawSurveySpec
