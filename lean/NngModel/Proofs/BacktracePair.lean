/- PAIR1 hop count lemmas (core Lean only) -/
import NngModel.Proofs.BacktraceSpec
namespace Nng.Bt
open Nng Nng.BtSpec

theorem beDecode4 (a b c d : UInt8) :
    beDecode [a, b, c, d] = ((a.toNat * 256 + b.toNat) * 256 + c.toNat) * 256 + d.toNat := by
  simp [beDecode]

/-- NNI_PUT32 ∘ NNI_GET32 = id on four bytes -/
theorem w32_beDecode (a b c d : UInt8) : w32 (beDecode [a, b, c, d]) = [a, b, c, d] := by
  rw [w32_eq, beDecode4]
  have ha := a.toNat_lt; have hb := b.toNat_lt; have hc := c.toNat_lt; have hd := d.toNat_lt
  have e3 : (((a.toNat * 256 + b.toNat) * 256 + c.toNat) * 256 + d.toNat) / 256 ^ 3 % 256 = a.toNat := by omega
  have e2 : (((a.toNat * 256 + b.toNat) * 256 + c.toNat) * 256 + d.toNat) / 256 ^ 2 % 256 = b.toNat := by omega
  have e1 : (((a.toNat * 256 + b.toNat) * 256 + c.toNat) * 256 + d.toNat) / 256 ^ 1 % 256 = c.toNat := by omega
  have e0 : (((a.toNat * 256 + b.toNat) * 256 + c.toNat) * 256 + d.toNat) / 256 ^ 0 % 256 = d.toNat := by omega
  rw [e3, e2, e1, e0]
  simp

theorem pair1Recv_w32 (ttl h : Nat) (B : Bytes) (hh : h ≤ 0xff) :
    pair1Recv ttl (w32 h ++ B) = if h > ttl then .drop else .deliver (w32 h) B := by
  unfold pair1Recv
  rw [if_neg (by simp), take4_w32, drop4_w32, beDecode_w32 h (by omega), if_neg (by omega)]
  by_cases hg : h > ttl
  · rw [if_pos hg, if_pos hg]
  · rw [if_neg hg, if_neg hg, if_neg (by simp [appendU32Panics, hcap_eq])]

theorem pair1RawSend_w32 (h : Nat) (B : Bytes) (hh : h < 0xff) :
    pair1RawSend (w32 h) B = some (w32 (h + 1) ++ B) := by
  unfold pair1RawSend
  rw [if_neg (by simp), beDecode_w32 h (by omega), if_neg (by omega)]
  rfl

/-- PAIR1 devices: the count grows by one per device and a receiver discards iff the
    count it sees exceeds its limit — the same `firstExceeded` as for backtraces -/
theorem forwardP_spec : ∀ (stages : List Stage) (n : Nat) (B : Bytes), n ≤ 0xff →
    (∀ s ∈ stages, s.ttl ≤ 15) →
    forwardP stages (w32 n ++ B) =
      match firstExceeded n stages with
      | none => some (w32 (n + stages.length) ++ B)
      | some _ => none
  | [], n, B, _, _ => by simp [forwardP, firstExceeded]
  | s :: rest, n, B, hn, hs => by
    have hs0 := hs s (by simp)
    simp only [forwardP, firstExceeded, pair1Recv_w32 s.ttl n B hn]
    by_cases hg : n > s.ttl
    · simp [hg]
    · rw [if_neg hg, if_neg hg]
      simp only [device]
      rw [pair1RawSend_w32 n B (by omega)]
      simp only []
      rw [forwardP_spec rest (n + 1) B (by omega) (fun s' h' => hs s' (by simp [h']))]
      cases firstExceeded (n + 1) rest with
      | none => simp [Nat.add_assoc, Nat.add_comm 1]
      | some j => simp

/-- model outcome for a hop-count verdict -/
theorem pair1Recv_classify (ttl : Nat) (w : Bytes) :
    pair1Recv ttl w = ofVerdict [] (classifyHop ttl w) := by
  unfold pair1Recv classifyHop
  by_cases hl : w.length < 4
  · rw [if_pos hl, if_pos hl]; rfl
  · rw [if_neg hl, if_neg hl]
    simp only []
    by_cases h1 : beDecode (w.take 4) > 0xff
    · rw [if_pos h1, if_pos h1]; rfl
    · rw [if_neg h1, if_neg h1]
      by_cases h2 : beDecode (w.take 4) > ttl
      · rw [if_pos h2, if_pos h2]; rfl
      · rw [if_neg h2, if_neg h2, if_neg (by simp [appendU32Panics, hcap_eq])]
        match w, hl with
        | [], hl | [_], hl | [_, _], hl | [_, _, _], hl => simp at hl
        | a :: b :: c :: d :: rest, _ =>
          simp only [List.take_succ_cons, List.take_zero, ofVerdict, List.nil_append]
          rw [w32_beDecode]

end Nng.Bt
