/-
  "The lifecycle judge accepts every trace of the lifecycle model" (C14 / C10), part 9:
  send / recv (the judge's pending list), ctx_open, ctx_close (C10: nothing stays pending on a
  closed context).
-/
import NngModel.Proofs.LifeJudgeOps1
namespace Nng.LifeModel
open Nng.Life Nng.Generated
open Nng.LifeSpec (J JPipe JEp JSock upd put KU onOut opConnEp preOp postOp quiescent flat isRace)

theorem contains_false {l : List LOut} {a : LOut} (h : ∀ o ∈ l, o ≠ a) : l.contains a = false := by
  cases hc : l.contains a with
  | false => rfl
  | true =>
    have := List.contains_iff_mem.mp hc
    exact absurd rfl (h a this)

theorem contains_true {l : List LOut} {a : LOut} (h : a ∈ l) : l.contains a = true := List.contains_iff_mem.mpr h

theorem earms_ne (orc : List Nat) (st : State) (a : LOut) (ha : ∀ e, a ≠ .earm e) : ∀ o ∈ (fireTimers orc st).2, o ≠ a := by
  intro o ho heq
  obtain ⟨e, he⟩ := fire_earms orc st o ho
  exact ha e (heq.symm.trans he)

/-- the outcomes of a submission -/
inductive SubOutcome (st : State) (t : Tgt) (a : Nat) (r : R) : Prop
  | busy (h : r = (st, [.other "aio-busy"]))
  | now (rv : Nat) (hb : st.pend.any (·.aio == a) = false) (h : r = finishNow st a rv)
  | parked (hb : st.pend.any (·.aio == a) = false) (h : r = park st a t)

theorem opRecv_outcome (st : State) (t : Tgt) (a : Nat) (hu : (opRecv st t a).1.unmodelled = false) :
    SubOutcome st t a (opRecv st t a) := by
  revert hu
  unfold opRecv
  by_cases hb : st.pend.any (·.aio == a) = true
  · simp only [hb, if_true]; intro _; exact .busy rfl
  · have hb' : st.pend.any (·.aio == a) = false := by simpa using hb
    simp only [hb', Bool.false_eq_true, if_false]
    split
    · intro _; exact .now _ hb' rfl
    · split
      · split
        · intro _; exact .now _ hb' rfl
        · intro _; exact .parked hb' rfl
      · split
        · intro _; exact .parked hb' rfl
        · intro h; cases h

theorem opSend_outcome (st : State) (t : Tgt) (a : Nat) (hu : (opSend st t a).1.unmodelled = false) :
    SubOutcome st t a (opSend st t a) := by
  revert hu
  unfold opSend
  by_cases hb : st.pend.any (·.aio == a) = true
  · simp only [hb, if_true]; intro _; exact .busy rfl
  · have hb' : st.pend.any (·.aio == a) = false := by simpa using hb
    simp only [hb', Bool.false_eq_true, if_false]
    split
    · intro _; exact .now _ hb' rfl
    · split
      · intro _; exact .now _ hb' rfl
      · split
        · intro _; exact .now _ hb' rfl
        · intro h; cases h

theorem pend_filter_fresh {st : State} {j : J} (hp : PendRel st j) (a : Nat) (t : Tgt) (hb : st.pend.any (·.aio == a) = false) :
    (j.pend ++ [(a, t)]).filter (·.1 != a) = j.pend := by
  rw [List.filter_append]
  have h1 : j.pend.filter (·.1 != a) = j.pend := by
    apply List.filter_eq_self.mpr
    intro x hx
    rw [hp] at hx
    rcases List.mem_map.mp hx with ⟨p, hpm, rfl⟩
    have := List.any_eq_false.mp hb p hpm
    simpa using this
  rw [h1]; simp

/-- send / recv: the judge adds the operation to its pending list unless it completes at once -/
theorem sim_submit (st : State) (j : J) (op : LOp) (t : Tgt) (a : Nat) (orc : List Nat) (hr : Rel st j)
    (hu : st.unmodelled = false) (hrace : isRace op = false) (hpost : ∀ outs j', postOp outs j' op = j')
    (hadv : advJ j op = j)
    (hpre : ∀ outs j', preOp false outs j' op =
      if outs.contains (.other "aio-busy") then j' else { j' with pend := j'.pend ++ [(a, t)] })
    (hdone : ∀ j' rv, onOut op j' (.done a rv) = { j' with pend := j'.pend.filter (·.1 != a) })
    (hother : ∀ j' s, onOut op j' (.other s) = j')
    (hout : SubOutcome st t a (apply st op)) :
    Rel (step st op orc).1 (Nng.LifeSpec.step j op (step st op orc).2) := by
  have hG := apply_G st op hr.inv.g
  cases hout with
  | busy h =>
    refine finish_simple st j op orc hr hu hrace hpost (by rw [h]; intro o ho; rw [List.mem_singleton.mp ho]; rfl) noSel j ?_ ?_
      (noSel_triv _) ?_ ?_
    · rw [h, hpre, hadv]
      simp only [List.foldl_cons, List.foldl_nil, hother]
      rw [contains_true (by simp)]; rfl
    · rw [h]; exact hr.mid
    · rw [h]; exact hr.ctxs
    · rw [h]; exact hr.pend
  | now rv hb h =>
    have hnc : ((apply st op).2 ++ (fireTimers orc (apply st op).1).2).contains (.other "aio-busy") = false := by
      apply contains_false
      intro o ho
      rcases List.mem_append.mp ho with ho | ho
      · rw [h] at ho; simp only [finishNow, List.mem_singleton] at ho; rw [ho]; intro hh; cases hh
      · exact earms_ne _ _ _ (fun e hh => by cases hh) o ho
    refine finish_simple st j op orc hr hu hrace hpost (by rw [h]; intro o ho; simp only [finishNow, List.mem_singleton] at ho; rw [ho]; rfl)
      noSel j ?_ ?_ (noSel_triv _) ?_ ?_
    · rw [hpre, hadv, hnc]
      rw [h]
      simp only [finishNow, List.foldl_cons, List.foldl_nil, Bool.false_eq_true, if_false, hdone]
      rw [pend_filter_fresh hr.pend a t hb]
    · rw [h] at hG ⊢
      exact Mid_of_same hr.mid hG.s.w rfl rfl (fun _ => ⟨rfl, rfl, rfl, rfl⟩) hr.mid.now hr.mid.e14 hr.mid.e10 rfl rfl rfl
    · rw [h]; exact hr.ctxs
    · rw [h]; exact hr.pend
  | parked hb h =>
    have hnc : ((apply st op).2 ++ (fireTimers orc (apply st op).1).2).contains (.other "aio-busy") = false := by
      apply contains_false
      intro o ho
      rcases List.mem_append.mp ho with ho | ho
      · rw [h] at ho; cases ho
      · exact earms_ne _ _ _ (fun e hh => by cases hh) o ho
    refine finish_simple st j op orc hr hu hrace hpost (by rw [h]; exact NP_nil)
      noSel { j with pend := j.pend ++ [(a, t)] } ?_ ?_ (noSel_triv _) ?_ ?_
    · rw [hpre, hadv, hnc]
      rw [h]
      simp only [park, List.foldl_nil, Bool.false_eq_true, if_false]
    · rw [h] at hG ⊢
      exact Mid_of_same hr.mid hG.s.w rfl rfl (fun _ => ⟨rfl, rfl, rfl, rfl⟩) hr.mid.now hr.mid.e14 hr.mid.e10 rfl rfl rfl
    · rw [h]; exact hr.ctxs
    · rw [h]
      show j.pend ++ [(a, t)] = (st.pend ++ [_]).map _
      rw [hr.pend]; simp

theorem sim_recv (st : State) (j : J) (t : Tgt) (a : Nat) (orc : List Nat) (hr : Rel st j) (hu : st.unmodelled = false)
    (hu' : (step st (.recv t a) orc).1.unmodelled = false) :
    Rel (step st (.recv t a) orc).1 (Nng.LifeSpec.step j (.recv t a) (step st (.recv t a) orc).2) :=
  sim_submit st j (.recv t a) t a orc hr hu rfl (fun _ _ => rfl) rfl (fun _ _ => rfl) (fun _ _ => rfl) (fun _ _ => rfl)
    (opRecv_outcome st t a (unmodelled_apply hu hu'))

theorem sim_send (st : State) (j : J) (t : Tgt) (a : Nat) (orc : List Nat) (hr : Rel st j) (hu : st.unmodelled = false)
    (hu' : (step st (.send t a) orc).1.unmodelled = false) :
    Rel (step st (.send t a) orc).1 (Nng.LifeSpec.step j (.send t a) (step st (.send t a) orc).2) :=
  sim_submit st j (.send t a) t a orc hr hu rfl (fun _ _ => rfl) rfl (fun _ _ => rfl) (fun _ _ => rfl) (fun _ _ => rfl)
    (opSend_outcome st t a (unmodelled_apply hu hu'))


/-- a step whose op has bookkeeping after the events -/
theorem finish_gen (st : State) (j : J) (op : LOp) (orc : List Nat) (hr : Rel st j) (hu : st.unmodelled = false)
    (hrace : isRace op = false) (hnp : NP (apply st op).2) (S : SelE) (ja : J)
    (hja : (apply st op).2.foldl (onOut op)
      (preOp false ((apply st op).2 ++ (fireTimers orc (apply st op).1).2) (advJ j op) op) = ja)
    (hm : Mid S (apply st op).1 ja) (hS : ∀ e ∈ (apply st op).1.eps, S e.idx e.sock e.dialer = true → e.closed = true)
    (hfin : ∀ je, Mid noSel (fireTimers orc (apply st op).1).1 je → SameJ ja je →
      Mid noSel (fireTimers orc (apply st op).1).1 (postOp ((apply st op).2 ++ (fireTimers orc (apply st op).1).2) je op) ∧
      CtxsRel (apply st op).1 (postOp ((apply st op).2 ++ (fireTimers orc (apply st op).1).2) je op) ∧
      PendRel (apply st op).1 (postOp ((apply st op).2 ++ (fireTimers orc (apply st op).1).2) je op)) :
    Rel (step st op orc).1 (Nng.LifeSpec.step j op (step st op orc).2) := by
  obtain ⟨h1, s1⟩ := fire_fin S op orc (apply st op).1 ja hm hS
  obtain ⟨f1, f2, f3⟩ := hfin _ h1 s1
  apply assemble st j op orc hr _
  · rw [step_def st op orc hu]
    simp only
    rw [jstep_np j op _ _ hrace hnp (fire_NP _ _), hja]
  · rw [step_def st op orc hu]; exact f1
  · rw [step_def st op orc hu]; exact f2
  · rw [step_def st op orc hu]; exact f3

theorem Mid_of_sameJ {S : SelE} {st : State} {j j' : J} (h : Mid S st j) (hn : j'.now = j.now) (h14 : j'.err14 = none)
    (h10 : j'.err10 = none) (hjs : j'.socks = j.socks) (hje : j'.eps = j.eps) (hjp : j'.pipes = j.pipes) : Mid S st j' :=
  Mid_of_same h h.w rfl rfl (fun _ => ⟨rfl, rfl, rfl, rfl⟩) (hn.trans h.now) h14 h10 hjs hje hjp

theorem rv_ne {a b : Int} (h : a ≠ b) : LOut.rv a ≠ LOut.rv b := fun hh => h (by cases hh; rfl)

/-- whether the line `[rv x] ++ timers` reports a zero result -/
theorem rv0_contains (x : Int) (orc : List Nat) (st : State) :
    (([LOut.rv x] ++ (fireTimers orc st).2).contains (.rv 0) || ([LOut.rv x] ++ (fireTimers orc st).2).contains (.rvh 0)) =
      decide (x = 0) := by
  have h2 : ([LOut.rv x] ++ (fireTimers orc st).2).contains (.rvh 0) = false := by
    apply contains_false
    intro o ho
    rcases List.mem_append.mp ho with ho | ho
    · rw [List.mem_singleton.mp ho]; intro hh; cases hh
    · exact earms_ne _ _ _ (fun e hh => by cases hh) o ho
  rw [h2, Bool.or_false]
  by_cases hx : x = 0
  · subst hx; rw [contains_true (by simp)]; simp
  · rw [contains_false]
    · simp [hx]
    · intro o ho
      rcases List.mem_append.mp ho with ho | ho
      · rw [List.mem_singleton.mp ho]; exact rv_ne hx
      · exact earms_ne _ _ _ (fun e hh => by cases hh) o ho

theorem postOp_ctxOpen (outs : List LOut) (j : J) (s c : Nat) :
    postOp outs j (.ctxOpen s c) =
      if (outs.contains (.rv 0) || outs.contains (.rvh 0)) = true then { j with ctxs := put j.ctxs c (s, false) } else j := rfl

theorem sim_ctxOpen (st : State) (j : J) (s c : Nat) (orc : List Nat) (hr : Rel st j) (hu : st.unmodelled = false)
    (hu' : (step st (.ctxOpen s c) orc).1.unmodelled = false) :
    Rel (step st (.ctxOpen s c) orc).1 (Nng.LifeSpec.step j (.ctxOpen s c) (step st (.ctxOpen s c) orc).2) := by
  have hua := unmodelled_apply hu hu'
  have hG := apply_G st (.ctxOpen s c) hr.inv.g
  have key : (∃ x : Int, x ≠ 0 ∧ apply st (.ctxOpen s c) = (st, [.rv x])) ∨
      apply st (.ctxOpen s c) = ({ st with ctxs := (st.ctxs.filter (·.id != c)) ++ [{ id := c, sock := s }] }, [.rv 0]) := by
    revert hua
    show (opCtxOpen st s c).1.unmodelled = false → _
    show _ → (∃ x : Int, x ≠ 0 ∧ opCtxOpen st s c = (st, [.rv x])) ∨ opCtxOpen st s c = _
    unfold opCtxOpen
    simp only
    split
    · intro _; left; exact ⟨_, by decide, rfl⟩
    · split
      · intro _; left; exact ⟨_, by decide, rfl⟩
      · split
        · intro h; cases h
        · intro _; right; rfl
  rcases key with ⟨x, hx, h⟩ | h
  · refine finish_gen st j _ orc hr hu rfl (by rw [h]; intro o ho; rw [List.mem_singleton.mp ho]; rfl) noSel j ?_ ?_
      (noSel_triv _) ?_
    · rw [h]; rfl
    · rw [h]; exact hr.mid
    · rw [h]
      intro je hm hs
      have : postOp ([LOut.rv x] ++ (fireTimers orc st).2) je (.ctxOpen s c) = je := by
        rw [postOp_ctxOpen, rv0_contains]; simp [hx]
      simp only
      rw [this]
      exact ⟨hm, CtxsRel_of hr.ctxs rfl hs.2.2.1, PendRel_of hr.pend rfl hs.2.2.2.1⟩
  · refine finish_gen st j _ orc hr hu rfl (by rw [h]; intro o ho; rw [List.mem_singleton.mp ho]; rfl) noSel j ?_ ?_
      (noSel_triv _) ?_
    · rw [h]; rfl
    · rw [h] at hG ⊢
      exact Mid_of_same hr.mid hG.s.w rfl rfl (fun _ => ⟨rfl, rfl, rfl, rfl⟩) hr.mid.now hr.mid.e14 hr.mid.e10 rfl rfl rfl
    · rw [h]
      intro je hm hs
      have : postOp ([LOut.rv 0] ++ (fireTimers orc { st with ctxs := (st.ctxs.filter (·.id != c)) ++ [{ id := c, sock := s }] }).2) je
          (.ctxOpen s c) = { je with ctxs := put je.ctxs c (s, false) } := by
        rw [postOp_ctxOpen, rv0_contains]; simp
      simp only
      rw [this]
      refine ⟨Mid_of_sameJ hm rfl hm.e14 hm.e10 rfl rfl rfl, ?_, PendRel_of hr.pend rfl hs.2.2.2.1⟩
      show put je.ctxs c (s, false) = _
      rw [hs.2.2.1, hr.ctxs]
      unfold put
      simp only [List.map_append, List.map_cons, List.map_nil, List.filter_map]
      rfl


theorem onOut_done (op : LOp) (j : J) (a rv : Nat) : onOut op j (.done a rv) = { j with pend := j.pend.filter (·.1 != a) } := rfl

theorem nodup_map_inj {α β : Type} {f : α → β} {l : List α} (h : (l.map f).Nodup) {a b : α} (ha : a ∈ l) (hb : b ∈ l)
    (hab : f a = f b) : a = b := by
  induction l with
  | nil => cases ha
  | cons x rest ih =>
    simp only [List.map_cons, List.nodup_cons, List.mem_map, not_exists, not_and] at h
    rcases List.mem_cons.mp ha with rfl | ha' <;> rcases List.mem_cons.mp hb with rfl | hb'
    · rfl
    · exact absurd hab.symm (h.1 b hb')
    · exact absurd hab (h.1 a ha')
    · exact ih h.2 ha' hb'

theorem dones_fold (op : LOp) (L : List Nat) (rv : Nat) (j : J) :
    (L.map fun a => LOut.done a rv).foldl (onOut op) j = { j with pend := j.pend.filter fun p => !L.contains p.1 } := by
  induction L generalizing j with
  | nil =>
    have : j.pend.filter (fun p => !([] : List Nat).contains p.1) = j.pend := by
      apply List.filter_eq_self.mpr; intro p _; rfl
    simp only [List.map_nil, List.foldl_nil, this]
  | cons a rest ih =>
    simp only [List.map_cons, List.foldl_cons, onOut_done]
    rw [ih]
    simp only [List.filter_filter]
    congr 1
    apply List.filter_congr
    intro p _
    simp only [List.contains_cons]
    cases h1 : rest.contains p.1 <;> cases h2 : (p.1 == a) <;> simp_all

/-- the completions of `completeWhere`, as the judge's pending list sees them -/
theorem complete_sim (op : LOp) (st : State) (j : J) (f : PAio → Bool) (rv : Nat) (hp : PendRel st j) (hnd : ND st) :
    PendRel (completeWhere st f rv).1 ((completeWhere st f rv).2.foldl (onOut op) j) ∧
    (∀ x, (completeWhere st f rv).2.foldl (onOut op) j = x → x.now = j.now ∧ x.socks = j.socks ∧ x.eps = j.eps ∧
      x.pipes = j.pipes ∧ x.ctxs = j.ctxs ∧ x.err14 = j.err14 ∧ x.err10 = j.err10) := by
  have hout : (completeWhere st f rv).2 = ((st.pend.filter f).map (·.aio)).map fun a => LOut.done a rv := by
    unfold completeWhere; simp only [List.map_map]; rfl
  rw [hout, dones_fold]
  refine ⟨?_, fun x hx => by subst hx; exact ⟨rfl, rfl, rfl, rfl, rfl, rfl, rfl⟩⟩
  show (j.pend.filter fun p => !((st.pend.filter f).map (·.aio)).contains p.1) = (st.pend.filter fun a => !f a).map _
  rw [hp, List.filter_map]
  congr 1
  apply List.filter_congr
  intro a ha
  simp only [Function.comp]
  cases hf : f a with
  | true =>
    simp only [Bool.not_true, Bool.not_eq_false']
    exact List.contains_iff_mem.mpr (List.mem_map.mpr ⟨a, List.mem_filter.mpr ⟨ha, hf⟩, rfl⟩)
  | false =>
    simp only [Bool.not_false, Bool.not_eq_true']
    cases hc : ((st.pend.filter f).map (·.aio)).contains a.aio with
    | false => rfl
    | true =>
      have hm := List.contains_iff_mem.mp hc
      rcases List.mem_map.mp hm with ⟨b, hb, hba⟩
      have hb' := List.mem_filter.mp hb
      have : b = a := nodup_map_inj hnd hb'.1 ha hba
      rw [this, hf] at hb'; cases hb'.2


def jCtxClose (c : Nat) (j : J) : J := { j with ctxs := upd j.ctxs c fun (sc : Nat × Bool) => (sc.1, true) }

theorem postOp_ctxClose (outs : List LOut) (j : J) (c : Nat) (hnone : ∀ p ∈ j.pend, (p.2 == Tgt.ctx c) = false) :
    postOp outs j (.ctxClose c) = jCtxClose c j := by
  unfold postOp
  simp only
  split
  · rename_i a t heq
    have hm := List.mem_of_find?_eq_some heq
    have hp := List.find?_some heq
    simp only at hp
    have := hnone (a, t) hm
    simp only at this
    rw [this] at hp; cases hp
  · rfl

theorem ctxs_close_rel {st : State} {j : J} (hc : CtxsRel st j) (c : Nat) :
    CtxsRel { st with ctxs := st.ctxs.map fun y => if y.id == c then { y with closed := true } else y } (jCtxClose c j) := by
  unfold CtxsRel jCtxClose
  simp only
  rw [hc, Nng.LifeSpec.upd_map_key, List.map_map]
  apply List.map_congr_left
  intro y _
  simp only [Function.comp]
  by_cases h : y.id = c
  · simp [h]
  · have : (y.id == c) = false := by simpa using h
    simp [h, this]

theorem sim_ctxClose (st : State) (j : J) (c : Nat) (orc : List Nat) (hr : Rel st j) (hu : st.unmodelled = false) :
    Rel (step st (.ctxClose c) orc).1 (Nng.LifeSpec.step j (.ctxClose c) (step st (.ctxClose c) orc).2) := by
  have hG := apply_G st (.ctxClose c) hr.inv.g
  have hrvok : ∀ (x : Int) j', x = 0 ∨ x = 7 ∨ x = -1 → onOut (.ctxClose c) j' (.rv x) = j' := by
    intro x j' hx; rcases hx with rfl | rfl | rfl <;> rfl
  cases hf : st.ctxs.find? (·.id == c) with
  | none =>
    have h : apply st (.ctxClose c) = (st, [.rv (-1)]) := by
      show opCtxClose st c = _; unfold opCtxClose; rw [hf]
    have hid : st.ctxs.map (fun y => if y.id == c then { y with closed := true } else y) = st.ctxs := by
      conv => rhs; rw [← List.map_id st.ctxs]
      apply List.map_congr_left
      intro y hy
      have := List.find?_eq_none.mp hf y hy
      simp only [Bool.not_eq_true] at this
      simp [this]
    refine finish_gen st j _ orc hr hu rfl (by rw [h]; intro o ho; rw [List.mem_singleton.mp ho]; rfl) noSel j ?_ ?_
      (noSel_triv _) ?_
    · rw [h]; simp only [List.foldl_cons, List.foldl_nil]; exact hrvok _ _ (Or.inr (Or.inr rfl))
    · rw [h]; exact hr.mid
    · rw [h]
      intro je hm hs
      simp only
      rw [postOp_ctxClose]
      · refine ⟨Mid_of_sameJ hm rfl hm.e14 hm.e10 rfl rfl rfl, ?_, PendRel_of hr.pend rfl hs.2.2.2.1⟩
        have := ctxs_close_rel (j := je) (CtxsRel_of hr.ctxs rfl hs.2.2.1) c
        rw [hid] at this; exact this
      · intro p hp
        rw [hs.2.2.2.1, hr.pend] at hp
        rcases List.mem_map.mp hp with ⟨a, ha, rfl⟩
        have hpo := hr.pp.pend a ha
        simp only
        cases ht : a.tgt with
        | sock s => rfl
        | ctx c' =>
          rw [ht] at hpo
          obtain ⟨x, hx, hxi, _⟩ := hpo
          by_cases hcc : c' = c
          · subst hcc
            have := List.find?_eq_none.mp hf x hx
            simp [hxi] at this
          · simp [hcc]
  | some x =>
    have hxm : x ∈ st.ctxs := List.mem_of_find?_eq_some hf
    have hxi : x.id = c := by simpa using List.find?_some hf
    cases hxc : x.closed with
    | true =>
      have h : apply st (.ctxClose c) = (st, [.rv lifeEclosed]) := by
        show opCtxClose st c = _; unfold opCtxClose; rw [hf]; simp only [hxc, if_true]
      have hid : st.ctxs.map (fun y => if y.id == c then { y with closed := true } else y) = st.ctxs := by
        conv => rhs; rw [← List.map_id st.ctxs]
        apply List.map_congr_left
        intro y hy
        by_cases hyc : y.id = c
        · have : y = x := hr.pp.uniq y hy x hxm (hyc.trans hxi.symm)
          subst this
          simp only [hyc, beq_self_eq_true, if_true, id]
          cases y; simp_all
        · have : (y.id == c) = false := by simpa using hyc
          simp [this]
      refine finish_gen st j _ orc hr hu rfl (by rw [h]; intro o ho; rw [List.mem_singleton.mp ho]; rfl) noSel j ?_ ?_
        (noSel_triv _) ?_
      · rw [h]; simp only [List.foldl_cons, List.foldl_nil]; exact hrvok _ _ (Or.inr (Or.inl rfl))
      · rw [h]; exact hr.mid
      · rw [h]
        intro je hm hs
        simp only
        rw [postOp_ctxClose]
        · refine ⟨Mid_of_sameJ hm rfl hm.e14 hm.e10 rfl rfl rfl, ?_, PendRel_of hr.pend rfl hs.2.2.2.1⟩
          have := ctxs_close_rel (j := je) (CtxsRel_of hr.ctxs rfl hs.2.2.1) c
          rw [hid] at this; exact this
        · intro p hp
          rw [hs.2.2.2.1, hr.pend] at hp
          rcases List.mem_map.mp hp with ⟨a, ha, rfl⟩
          have hpo := hr.pp.pend a ha
          simp only
          cases ht : a.tgt with
          | sock s => rfl
          | ctx c' =>
            rw [ht] at hpo
            obtain ⟨y, hy, hyi, hyc⟩ := hpo
            by_cases hcc : c' = c
            · subst hcc
              have : y = x := hr.pp.uniq y hy x hxm (hyi.trans hxi.symm)
              rw [this, hxc] at hyc; cases hyc
            · simp [hcc]
    | false =>
      let st1 : State := { st with ctxs := st.ctxs.map fun y => if y.id == c then { y with closed := true } else y }
      have h : apply st (.ctxClose c) = ((completeWhere st1 (fun a => a.tgt == .ctx c) lifeEclosed).1,
          (completeWhere st1 (fun a => a.tgt == .ctx c) lifeEclosed).2 ++ [.rv 0]) := by
        show opCtxClose st c = _; unfold opCtxClose; rw [hf]; simp only [hxc, Bool.false_eq_true, if_false]; rfl
      obtain ⟨hp1, hfr⟩ := complete_sim (.ctxClose c) st1 j (fun a => a.tgt == .ctx c) lifeEclosed hr.pend hr.nd
      obtain ⟨f1, f2, f3, f4, f5, f6, f7⟩ := hfr _ rfl
      refine finish_gen st j _ orc hr hu rfl ?_ noSel
        ((completeWhere st1 (fun a => a.tgt == .ctx c) lifeEclosed).2.foldl (onOut (.ctxClose c)) j) ?_ ?_ (noSel_triv _) ?_
      · rw [h]
        apply NP.append
        · intro o ho
          simp only [completeWhere, List.mem_map] at ho
          obtain ⟨a, _, rfl⟩ := ho; rfl
        · intro o ho; rw [List.mem_singleton.mp ho]; rfl
      · rw [h]
        simp only [List.foldl_append, List.foldl_cons, List.foldl_nil]
        exact hrvok _ _ (Or.inl rfl)
      · rw [h] at hG ⊢
        exact Mid_of_same hr.mid hG.s.w rfl rfl (fun _ => ⟨rfl, rfl, rfl, rfl⟩) (f1.trans hr.mid.now) (f6.trans hr.mid.e14)
          (f7.trans hr.mid.e10) f2 f3 f4
      · rw [h]
        intro je hm hs
        simp only
        rw [postOp_ctxClose]
        · refine ⟨Mid_of_sameJ hm rfl hm.e14 hm.e10 rfl rfl rfl, ?_, PendRel_of hp1 rfl hs.2.2.2.1⟩
          exact ctxs_close_rel (j := je) (CtxsRel_of hr.ctxs rfl (hs.2.2.1.trans f5)) c
        · intro p hp
          rw [hs.2.2.2.1, hp1] at hp
          rcases List.mem_map.mp hp with ⟨a, ha, rfl⟩
          have := (List.mem_filter.mp ha).2
          simpa using this

end Nng.LifeModel
