/-
  C08: conservation and order in both directions of the PAIR machine, over all event sequences.

  send:    wire ++ buffered is an order-preserving subsequence of the accepted sends (with the
           content transformed by `txWire`), and exactly `txDropped` accepted messages are missing;
  receive: delivered ++ buffered ++ held is an order-preserving subsequence of the accepted
           arrivals, and exactly `rxDropped` arrivals are missing.
  With no shrink / close / peer-loss discard the subsequences are the whole lists.
-/
import NngModel.Proofs.PairInv
namespace Nng.Pair0
open Nng Nng.Proto List

def wireOf (V : Variant) (g : GMsg) : GMsg := ⟨g.gid, V.txWire g.m⟩

structure Cons (V : Variant) (s : State) : Prop where
  txSub : (s.wire.map (·.2) ++ s.wmq.map (wireOf V)).Sublist (s.accepted.map (wireOf V))
  txLen : s.accepted.length = s.wire.length + s.wmq.length + s.txDropped.length
  rxSub : (s.delivered ++ s.rmq ++ s.held.toList).Sublist s.arrived
  rxLen : s.arrived.length = s.delivered.length + s.rmq.length + s.held.toList.length + s.rxDropped.length

theorem cons_init (V : Variant) : Cons V ({} : State) := by
  constructor <;> simp

macro "cons_frame" : tactic => `(tactic|
  (constructor <;>
   (try simp_all [pipeSend, wmqFull, rmqFull, modPipe, wmqPutUnchecked, rmqPutUnchecked]) <;> (try omega)))

theorem modPipe_cons (V : Variant) (s : State) (p : Nat) (f : Pipe → Pipe) (h : Cons V s) : Cons V (modPipe s p f) := by
  obtain ⟨c1, c2, c3, c4⟩ := h
  cons_frame

theorem sendSched_cons (V : Variant) (s : State) (p : Nat) (h : Cons V s) (hi : Inv s) : Cons V (sendSched V s p).1 := by
  obtain ⟨c1, c2, c3, c4⟩ := h
  unfold sendSched
  by_cases hc : (s.cur != some p) = true
  · rw [if_pos hc]; exact ⟨c1, c2, c3, c4⟩
  · rw [if_neg hc]
    unfold sendSchedBody
    cases hq : s.wmq with
    | nil =>
      cases ha : s.waq with
      | nil => cons_frame
      | cons a ar =>
        constructor
        · simp_all [pipeSend, modPipe]
          exact List.Sublist.append c1 (List.Sublist.refl _)
        · simp_all [pipeSend, modPipe] <;> omega
        · simp_all [pipeSend, modPipe] <;> omega
        · simp_all [pipeSend, modPipe] <;> omega
    | cons m rest =>
      have hle := hi.wmqLe
      rw [hq] at hle
      simp only [List.length_cons] at hle
      cases ha : s.waq with
      | nil =>
        constructor
        · simp_all [pipeSend, modPipe, wireOf] <;> omega
        · simp_all [pipeSend, modPipe] <;> omega
        · simp_all [pipeSend, modPipe] <;> omega
        · simp_all [pipeSend, modPipe] <;> omega
      | cons a ar =>
        have hlt : rest.length < s.wmqCap := by omega
        constructor
        · simp_all [pipeSend, modPipe, wmqPutUnchecked, wireOf]
          have := List.Sublist.append c1 (List.Sublist.refl [({ gid := a.msg.gid, m := V.txWire a.msg.m } : GMsg)])
          simpa using this
        · simp_all [pipeSend, modPipe, wmqPutUnchecked] <;> omega
        · simp_all [pipeSend, modPipe, wmqPutUnchecked] <;> omega
        · simp_all [pipeSend, modPipe, wmqPutUnchecked] <;> omega

theorem pipeStop_cons (V : Variant) (s : State) (p : Nat) (h : Cons V s) (hi : Inv s) : Cons V (pipeStop s p) := by
  obtain ⟨c1, c2, c3, c4⟩ := h
  unfold pipeStop
  by_cases hc : (s.cur != some p) = true
  · rw [if_pos hc]; exact ⟨c1, c2, c3, c4⟩
  · rw [if_neg hc]
    by_cases hr : s.rdReady = true
    · constructor
      · simp_all <;> omega
      · simp_all <;> omega
      · simp only [hr, if_true, Option.toList_none, List.append_nil]
        exact List.Sublist.trans (List.sublist_append_left _ _) c3
      · simp_all <;> omega
    · cons_frame

theorem closePipe_cons (V : Variant) (s : State) (p : Nat) (h : Cons V s) (hi : Inv s) : Cons V (closePipe s p).1 := by
  unfold closePipe
  cases hg : getPipe s p with
  | none => exact h
  | some pp =>
    by_cases hc : pp.closed = true
    · simp [hc]; exact h
    · simp [hc]
      apply pipeStop_cons
      · obtain ⟨c1, c2, c3, c4⟩ := h
        cons_frame
      · obtain ⟨h1, h2, h3, h4, h5, h6, h7, h8, h9, h10⟩ := hi
        inv_auto

theorem failParked_cons (V : Variant) (s : State) (a rv : Nat) (h : Cons V s) : Cons V (failParked s a rv).1 := by
  obtain ⟨c1, c2, c3, c4⟩ := h
  unfold failParked
  cases hf : s.waq.find? (·.aio == a) with
  | some pk => cons_frame
  | none =>
    by_cases hr : (s.raq.any (·.aio == a)) = true
    · rw [if_pos hr]; cons_frame
    · rw [if_neg hr]; exact ⟨c1, c2, c3, c4⟩

theorem failMany_cons (V : Variant) (as : List Nat) (rv : Nat) (s : State) (o : List Out) (h : Cons V s) :
    Cons V (as.foldl (fun (acc : State × List Out) a =>
      let (s', o) := failParked acc.1 a rv
      (s', acc.2 ++ o)) (s, o)).1 := by
  induction as generalizing s o with
  | nil => exact h
  | cons a rest ih =>
    simp only [List.foldl]
    exact ih _ _ (failParked_cons V s a rv h)

theorem expire_cons (V : Variant) (s : State) (h : Cons V s) : Cons V (expire s).1 := by
  unfold expire failMany
  exact failMany_cons V _ _ _ _ h

/-- a new arrival `gm` recorded in `arrived`, not yet placed anywhere -/
structure ConsPending (V : Variant) (s : State) (gm : GMsg) : Prop where
  txSub : (s.wire.map (·.2) ++ s.wmq.map (wireOf V)).Sublist (s.accepted.map (wireOf V))
  txLen : s.accepted.length = s.wire.length + s.wmq.length + s.txDropped.length
  rxSub : (s.delivered ++ s.rmq ++ s.held.toList ++ [gm]).Sublist s.arrived
  rxLen : s.arrived.length = s.delivered.length + s.rmq.length + s.held.toList.length + s.rxDropped.length + 1

theorem held_none_of (s : State) (hi : Inv s) (hd : s.rdReady = false) : s.held = none := by
  have := hi.heldRd; rw [hd] at this
  cases hx : s.held with
  | none => rfl
  | some x => simp [hx] at this

theorem recvCbLocked_cons (V : Variant) (s : State) (p : Nat) (gm : GMsg) (h : ConsPending V s gm) (hi : Inv s)
    (hd : s.rdReady = false) : Cons V (recvCbLocked s p gm).1 := by
  have hh := held_none_of s hi hd
  obtain ⟨c1, c2, c3, c4⟩ := h
  unfold recvCbLocked
  by_cases hcp : (s.cur != some p) = true
  · rw [if_pos hcp]
    constructor
    · simp_all <;> omega
    · simp_all <;> omega
    · exact List.Sublist.trans (List.sublist_append_left _ _) c3
    · simp_all <;> omega
  · rw [if_neg hcp]
    cases hr : s.raq with
    | cons a rest =>
      have hne : s.raq ≠ [] := by simp [hr]
      have hq := (hi.raqEmpty hne).1
      constructor
      · simp_all [modPipe] <;> omega
      · simp_all [modPipe] <;> omega
      · simp_all [modPipe] <;> omega
      · simp_all [modPipe] <;> omega
    | nil =>
      by_cases hf : (!rmqFull s) = true
      · simp only [hf, if_true]
        constructor
        · simp_all [modPipe] <;> omega
        · simp_all [modPipe] <;> omega
        · simp_all [modPipe] <;> omega
        · simp_all [modPipe] <;> omega
      · simp only [hf]
        constructor
        · simp_all [modPipe] <;> omega
        · simp_all [modPipe] <;> omega
        · simp_all [modPipe] <;> omega
        · simp_all [modPipe] <;> omega

theorem recvCb_cons (V : Variant) (s : State) (p : Nat) (b : Bytes) (h : Cons V s) (hi : Inv s)
    (hd : s.rdReady = false) : Cons V (recvCb V s p b).1 := by
  unfold recvCb
  cases V.rxDecide s.ttl b with
  | close =>
    simp only
    apply closePipe_cons
    · obtain ⟨c1, c2, c3, c4⟩ := h; cons_frame
    · obtain ⟨h1, h2, h3, h4, h5, h6, h7, h8, h9, h10⟩ := hi; inv_auto
  | drop =>
    obtain ⟨c1, c2, c3, c4⟩ := h; cons_frame
  | deliver m =>
    simp only
    apply recvCbLocked_cons
    · obtain ⟨c1, c2, c3, c4⟩ := h
      constructor
      · simp_all <;> omega
      · simp_all <;> omega
      · exact List.Sublist.append c3 (List.Sublist.refl _)
      · simp_all <;> omega
    · obtain ⟨h1, h2, h3, h4, h5, h6, h7, h8, h9, h10⟩ := hi; inv_auto
    · exact hd

theorem sockSendLocked_cons (V : Variant) (s : State) (a : Nat) (gm : GMsg) (mode : Mode) (h : Cons V s) (hi : Inv s) :
    Cons V (sockSendLocked V s a gm mode).1 := by
  obtain ⟨c1, c2, c3, c4⟩ := h
  unfold sockSendLocked
  by_cases hw : s.wrReady = true
  · rw [if_pos hw]
    have hq := (hi.wrEmpty hw).1
    cases hc : s.cur with
    | none => exact ⟨c1, c2, c3, c4⟩
    | some p =>
      constructor
      · simp_all [pipeSend, modPipe]
        exact List.Sublist.append c1 (List.Sublist.refl _)
      · simp_all [pipeSend, modPipe] <;> omega
      · simp_all [pipeSend, modPipe] <;> omega
      · simp_all [pipeSend, modPipe] <;> omega
  · rw [if_neg hw]
    by_cases hl : s.wmq.length < s.wmqCap
    · rw [if_pos hl]
      constructor
      · simp only [List.map_append, List.map_cons, List.map_nil, ← List.append_assoc]
        exact List.Sublist.append c1 (List.Sublist.refl _)
      · simp_all <;> omega
      · simp_all <;> omega
      · simp_all <;> omega
    · rw [if_neg hl]
      unfold parkSend
      cases mode with
      | nb => cons_frame
      | inf => cons_frame
      | dflt => cons_frame
      | ms n =>
        cases n with
        | zero => cons_frame
        | succ k => cons_frame

theorem sockSend_cons (V : Variant) (s : State) (a : Nat) (m : WMsg) (mode : Mode) (h : Cons V s) (hi : Inv s) :
    Cons V (sockSend V s a m mode).1 := by
  unfold sockSend
  cases V.txPrep s.raw m with
  | error e => obtain ⟨c1, c2, c3, c4⟩ := h; cons_frame
  | ok m' =>
    simp only
    apply sockSendLocked_cons
    · obtain ⟨c1, c2, c3, c4⟩ := h; cons_frame
    · obtain ⟨h1, h2, h3, h4, h5, h6, h7, h8, h9, h10⟩ := hi; inv_auto

theorem sockRecv_cons (V : Variant) (s : State) (a : Nat) (mode : Mode) (h : Cons V s) (hi : Inv s) :
    Cons V (sockRecv s a mode).1 := by
  obtain ⟨c1, c2, c3, c4⟩ := h
  have h6 := hi.heldRd
  have h7 := hi.rdCur
  have h2 := hi.rmqLe
  unfold sockRecv
  cases hq : s.rmq with
  | cons m rest =>
    rw [hq] at h2
    simp only [List.length_cons] at h2
    have hlt : rest.length < s.rmqCap := by omega
    by_cases hrd : s.rdReady = true
    · obtain ⟨p, gm, ht, hcp, hhp⟩ := takeHeld_of { s with rmq := rest, delivered := s.delivered ++ [m] }
        (h7 hrd) (by rw [← h6]; exact hrd)
      simp only [hrd, if_true, ht]
      constructor
      · simp_all [modPipe, rmqPutUnchecked] <;> omega
      · simp_all [modPipe, rmqPutUnchecked] <;> omega
      · simp_all [modPipe, rmqPutUnchecked] <;> omega
      · simp_all [modPipe, rmqPutUnchecked] <;> omega
    · simp only [hrd]
      constructor
      · simp_all <;> omega
      · simp_all <;> omega
      · simp_all <;> omega
      · simp_all <;> omega
  | nil =>
    by_cases hrd : s.rdReady = true
    · obtain ⟨p, gm, ht, hcp, hhp⟩ := takeHeld_of s (h7 hrd) (by rw [← h6]; exact hrd)
      simp only [hrd, if_true, ht]
      constructor
      · simp_all [modPipe] <;> omega
      · simp_all [modPipe] <;> omega
      · simp_all [modPipe] <;> omega
      · simp_all [modPipe] <;> omega
    · simp only [hrd]
      cases mode with
      | nb => cons_frame
      | inf => cons_frame
      | dflt => cons_frame
      | ms n =>
        cases n with
        | zero => cons_frame
        | succ k => cons_frame

theorem setSendBuf_cons (V : Variant) (s : State) (cap : Nat) (h : Cons V s) : Cons V (setSendBuf s cap) := by
  obtain ⟨c1, c2, c3, c4⟩ := h
  unfold setSendBuf
  constructor
  · simp only
    refine List.Sublist.trans ?_ c1
    exact List.Sublist.append (List.Sublist.refl _) ((List.take_sublist _ _).map _)
  · simp only [List.length_append, List.length_take, List.length_drop]; omega
  · simp_all
  · simp_all

theorem setRecvBuf_cons (V : Variant) (s : State) (cap : Nat) (h : Cons V s) : Cons V (setRecvBuf s cap) := by
  obtain ⟨c1, c2, c3, c4⟩ := h
  unfold setRecvBuf
  constructor
  · simp_all
  · simp_all
  · simp only
    refine List.Sublist.trans ?_ c3
    exact List.Sublist.append (List.Sublist.append (List.Sublist.refl _) (List.take_sublist _ _)) (List.Sublist.refl _)
  · simp only [List.length_append, List.length_take, List.length_drop]; omega

theorem closeAll_cons (V : Variant) (ps : List Pipe) (s : State) (o : List Out) (h : Cons V s) (hi : Inv s) :
    Cons V (ps.foldl (fun (acc : State × List Out) (pp : Pipe) =>
      let (s', o) := closePipe acc.1 pp.id
      (s', acc.2 ++ o)) (s, o)).1 := by
  induction ps generalizing s o with
  | nil => exact h
  | cons a rest ih =>
    simp only [List.foldl]
    exact ih _ _ (closePipe_cons V s a.id h hi) (closePipe_inv s a.id hi)

theorem sockClose_cons (V : Variant) (s : State) (h : Cons V s) : Cons V { (sockClose s).1 with closed := true } := by
  obtain ⟨c1, c2, c3, c4⟩ := h
  unfold sockClose
  constructor
  · simp only [List.map_nil, List.append_nil]
    exact List.Sublist.trans (List.sublist_append_left _ _) c1
  · simp only [List.length_append, List.length_nil]; omega
  · simp only [List.append_nil]
    refine List.Sublist.trans ?_ c3
    rw [List.append_assoc]
    exact List.Sublist.append (List.Sublist.refl _) (List.sublist_append_right _ _)
  · simp only [List.length_append, List.length_nil]; omega

theorem pipeStart_cons (V : Variant) (s : State) (id peer : Nat) (h : Cons V s) (hi : Inv s) :
    Cons V (pipeStart V s id peer).1 := by
  unfold pipeStart
  by_cases hp : (peer != V.peer) = true
  · rw [if_pos hp]; exact modPipe_cons _ _ _ _ h
  · rw [if_neg hp]
    by_cases hc : s.cur.isSome = true
    · rw [if_pos hc]; exact modPipe_cons _ _ _ _ h
    · rw [if_neg hc]
      simp only
      apply modPipe_cons
      have hw : s.wrReady = false := by
        cases hw : s.wrReady with
        | false => rfl
        | true => exact absurd (hi.wrCur hw) hc
      have hr : s.rdReady = false := by
        cases hr : s.rdReady with
        | false => rfl
        | true => exact absurd (hi.rdCur hr) hc
      apply sendSched_cons
      · obtain ⟨c1, c2, c3, c4⟩ := h; cons_frame
      · obtain ⟨h1, h2, h3, h4, h5, h6, h7, h8, h9, h10⟩ := hi; inv_auto

end Nng.Pair0
