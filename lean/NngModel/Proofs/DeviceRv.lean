/- the first error is kept; a failed device only drains -/
import NngModel.Proofs.DeviceStep
namespace Nng.Device
open Nng
set_option linter.unusedSimpArgs false

theorem deviceCb_rv (d : Dev) (i : Nat) (h : d.rv ≠ 0) : (deviceCb d i).1.rv = d.rv := by
  unfold deviceCb
  cases d.paths[i]? with
  | none => rfl
  | some p =>
    simp only
    by_cases hrv : ((cbPath d.rv i p).2.1 != 0) = true
    · rw [if_pos hrv]
      simp only [cbFail, cbFinish, deviceClose]
      have h0 : (d.rv == 0) = false := by simp [h]
      by_cases hz : (d.running - 1 == 0) = true
      · rw [if_pos hz]
        by_cases ho : d.owned = true <;> simp [ho, h0]
      · rw [if_neg hz]; simp [h0]
    · rw [if_neg hrv]; rfl

theorem step_rv_sticky (d : Dev) (e : DEv) (h : d.rv ≠ 0) : (step d e).1.rv = d.rv := by
  cases e with
  | recvDone i r =>
    rw [step_recv_eq]
    cases d.paths[i]? with
    | none => rfl
    | some p =>
      simp only
      by_cases hc : (p.state == .recv && okRes r) = true
      · rw [if_pos hc]; exact deviceCb_rv _ i h
      · rw [if_neg hc]
  | sendDone i rv =>
    rw [step_send_eq]
    cases d.paths[i]? with
    | none => rfl
    | some p =>
      simp only
      by_cases hc : (p.state == .send) = true
      · rw [if_pos hc]; exact deviceCb_rv _ i h
      · rw [if_neg hc]
  | cancel rv =>
    rw [step_cancel_eq]
    by_cases h0 : (rv == 0) = true
    · rw [if_pos h0]
    · rw [if_neg h0]
      unfold deviceCancel
      by_cases hu : d.user = true
      · rw [if_pos hu]; simp [h]
      · rw [if_neg hu]

theorem run_rv_sticky (evs : List DEv) : ∀ d : Dev, d.rv ≠ 0 → (run d evs).1.rv = d.rv := by
  induction evs with
  | nil => intro d _; rfl
  | cons e es ih =>
    intro d h
    have h1 := step_rv_sticky d e h
    show (run (step d e).1 es).1.rv = d.rv
    rw [ih _ (by rw [h1]; exact h), h1]

/-- the state of path `i` after device_cb's error branch -/
theorem cbFail_state (d : Dev) (i : Nat) (p1 : Path) (rv : Nat) (hi : i < d.paths.length) (hst : p1.state = .fini) :
    ∃ q, (cbFail d i p1 rv).1.paths[i]? = some q ∧ q.state = .fini := by
  have hlen : (abortPaths (some i) rv (d.paths.set i p1)).1.length = d.paths.length := by
    rw [abortPaths_length]; simp
  have hi' : i < (abortPaths (some i) rv (d.paths.set i p1)).1.length := by rw [hlen]; exact hi
  have hsame := (abortPaths_same (some i) rv (d.paths.set i p1) i hi').1
  have hq : (abortPaths (some i) rv (d.paths.set i p1)).1[i].state = .fini := by
    rw [hsame]; simp [hst]
  have hpaths : (cbFail d i p1 rv).1.paths = (abortPaths (some i) rv (d.paths.set i p1)).1 := by
    simp only [cbFail, cbFinish, deviceClose]
    by_cases hz : (d.running - 1 == 0) = true
    · rw [if_pos hz]
      by_cases ho : d.owned = true <;> simp [ho]
    · rw [if_neg hz]
  refine ⟨_, ?_, hq⟩
  rw [hpaths]
  exact List.getElem?_eq_getElem hi'

/-- once the device has failed, whatever completes on a path stops that path -/
theorem failed_completion_stops (d : Dev) (i : Nat) (p : Path) (hi : i < d.paths.length)
    (h : d.rv ≠ 0) (hq : CbOK d.rv i d.paths[i] p) :
    ∃ q, (deviceCb { d with paths := d.paths.set i p } i).1.paths[i]? = some q ∧ q.state = .fini := by
  have hget : ({ d with paths := d.paths.set i p } : Dev).paths[i]? = some p := by simp [hi]
  unfold deviceCb
  simp only [hget]
  have hrv := hq.sticky h
  have hne : ((cbPath d.rv i p).2.1 != 0) = true := by simp [hrv]
  rw [if_pos hne]
  show ∃ q, (cbFail { d with paths := d.paths.set i p } i (cbPath d.rv i p).1 (cbPath d.rv i p).2.1).1.paths[i]? = some q ∧ _
  rw [cbFail_set]
  exact cbFail_state d i _ _ hi (hq.fail hrv).1

end Nng.Device
