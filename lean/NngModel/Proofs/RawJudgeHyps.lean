/-
  Raw judges vs raw models: the hypotheses of the acceptance theorems, and event-level sufficient
  conditions for the two that are stated on the models' ghost histories.
-/
import NngModel.Proofs.RawJudgeStep
namespace Nng.RawSurv
open Nng Nng.Proto Nng.RawMq Nng.RawSurveySpec

/-! ### hypotheses -/

/-- no harness-only `abort a 0` (it completes a parked receive with rv 0 and no message) -/
def NoAbort0 (evs : List Ev) : Prop := evs.all notAbort0 = true

/-- the bodies of the messages the socket took from senders (ghost `sent`) are pairwise distinct -/
def SentDistinct (k : Kind) (evs : List Ev) : Prop := ((run k {} evs).1.sent.map (·.body)).Nodup

/-- the payloads of the arrivals that passed the header processing (ghost `accepted`) are pairwise distinct -/
def ArrivalsDistinct (k : Kind) (evs : List Ev) : Prop := ((run k {} evs).1.accepted.map (·.m.body)).Nodup

instance (evs : List Ev) : Decidable (NoAbort0 evs) := by unfold NoAbort0; infer_instance
instance (k : Kind) (evs : List Ev) : Decidable (SentDistinct k evs) := by unfold SentDistinct; infer_instance
instance (k : Kind) (evs : List Ev) : Decidable (ArrivalsDistinct k evs) := by unfold ArrivalsDistinct; infer_instance

/-! ### event level: sends -/

/-- body of a send on the socket -/
def sendBody : Ev → Option Bytes
  | .send none _ m _ => some m.body
  | _ => none

/-- the bodies of all `send - …` events -/
def sendBodies (evs : List Ev) : List Bytes := evs.filterMap sendBody

theorem step_sent_bodies {k : Kind} {sel : Sel} (s : State) (ev : Ev) (hI : Inv k sel s) :
    ((step k s ev).1.sent.map (·.body)).Sublist (s.sent.map (·.body) ++ sendBodies [ev]) := by
  by_cases h : ∃ a m mode, ev = .send none a m mode
  · obtain ⟨a, m, mode, rfl⟩ := h
    have hsb : sendBodies [Ev.send none a m mode] = [m.body] := rfl
    rw [hsb]
    unfold step
    by_cases ho : s.opened = true
    · rw [if_neg (by simp [ho])]
      by_cases hc : s.closed = true
      · rw [if_pos hc]; exact List.sublist_append_left _ _
      · rw [if_neg hc]
        simp only []
        split
        · exact List.sublist_append_left _ _
        · rw [sockSend_eq s a m mode hI ho (by simpa using hc)]
          simp
    · rw [if_pos (by simp [ho])]; exact List.sublist_append_left _ _
  · by_cases h2 : ∃ p b, ev = .recvDone p (.ok b)
    · obtain ⟨p, b, rfl⟩ := h2
      rw [(step_recvDone k s p b).2.1]
      exact List.sublist_append_left _ _
    · rw [(step_same k s ev (fun a m mode e => h ⟨a, m, mode, e⟩) (fun p b e => h2 ⟨p, b, e⟩)).sent]
      exact List.sublist_append_left _ _

theorem run_sent_bodies {k : Kind} {sel : Sel} (hk : KindOK k sel) : ∀ (evs : List Ev) (s : State), Inv k sel s →
    ((run k s evs).1.sent.map (·.body)).Sublist (s.sent.map (·.body) ++ sendBodies evs) := by
  intro evs
  induction evs with
  | nil => intro s _; simp [run, sendBodies]
  | cons e es ih =>
    intro s hI
    rw [run_cons]
    refine (ih _ (step_inv hk s e hI)).trans ?_
    have h1 := step_sent_bodies s e hI
    have : sendBodies (e :: es) = sendBodies [e] ++ sendBodies es := by
      unfold sendBodies; rw [← List.filterMap_append]; rfl
    rw [this, ← List.append_assoc]
    exact List.Sublist.append h1 (List.Sublist.refl _)

/-- pairwise distinct bodies of the `send -` events suffice -/
theorem sentDistinct_of_sendBodies {k : Kind} {sel : Sel} (hk : KindOK k sel) (evs : List Ev) (h : (sendBodies evs).Nodup) :
    SentDistinct k evs := by
  have := run_sent_bodies hk evs {} (inv_init _ _)
  simp only [List.map_nil, List.nil_append] at this
  exact h.sublist this

/-! ### event level: arrivals -/

/-- what follows the first word with the high bit: the payload of an arrival, if it is accepted at all
    (under whatever hop limit) -/
def payloadOf (b : Bytes) : Option Bytes :=
  match (BtSpec.chunks b).findIdx? BtSpec.isIdWord with
  | some i => some (b.drop (4 * (i + 1)))
  | none => none

/-- bytes of an arrival -/
def recvBytesOf : Ev → Option Bytes
  | .recvDone _ (.ok b) => some b
  | _ => none

/-- the payloads of all `recv_done p <hex>` events that have a terminated backtrace -/
def arrivalPayloads (evs : List Ev) : List Bytes := (evs.filterMap recvBytesOf).filterMap payloadOf

theorem findIdx_take {α : Type} (p : α → Bool) : ∀ (l : List α) (n i : Nat), (l.take n).findIdx? p = some i → l.findIdx? p = some i := by
  intro l
  induction l with
  | nil => intro n i h; simp at h
  | cons x xs ih =>
    intro n i h
    cases n with
    | zero => simp at h
    | succ n =>
      simp only [List.take_succ_cons, List.findIdx?_cons] at h ⊢
      by_cases hx : p x = true
      · simpa [hx] using h
      · simp only [hx, Bool.false_eq_true, if_false, Option.map_eq_some_iff] at h ⊢
        obtain ⟨a, ha, e⟩ := h
        exact ⟨a, ih n a ha, e⟩

theorem classify_payload {ttl : Nat} {b bt pl : Bytes} (h : BtSpec.classify ttl b = .accept bt pl) : payloadOf b = some pl := by
  unfold BtSpec.classify at h
  simp only [] at h
  cases hf : ((BtSpec.chunks b).take ttl).findIdx? BtSpec.isIdWord with
  | none =>
    rw [hf] at h
    simp only [] at h
    split at h <;> cases h
  | some i =>
    rw [hf] at h
    simp only [BtSpec.Verdict.accept.injEq] at h
    unfold payloadOf
    rw [findIdx_take _ _ _ _ hf]
    simp only [h.2]

theorem verdict_payload {resp : Bool} {ttl : Nat} {b bt pl : Bytes} (h : verdictOf resp ttl b = .accept bt pl) :
    payloadOf b = some pl := by
  unfold verdictOf at h
  cases resp with
  | true => exact classify_payload (by simpa using h)
  | false =>
    simp only [Bool.false_eq_true, if_false] at h
    unfold BtSpec.classifyNoTtl at h
    cases hc : BtSpec.classify capWords b with
    | accept bt1 pl1 => rw [hc] at h; simp only [BtSpec.Verdict.accept.injEq] at h; rw [← h.2]; exact classify_payload hc
    | drop => rw [hc] at h; cases h
    | malformed => rw [hc] at h; cases h

/-- every accepted record carries the payload of its bytes -/
theorem accepted_payload {resp : Bool} {k : Kind} {sel : Sel} (hrf : RecvSpec resp k) {s : State} (hI : Inv k sel s) :
    ∀ a ∈ s.accepted, payloadOf a.bytes = some a.m.body := by
  intro a ha
  obtain ⟨h1, h2⟩ := hI.core.urq.hdr a ha
  rw [hrf a.ttl a.pipe a.bytes h2] at h1
  cases hv : verdictOf resp a.ttl a.bytes with
  | accept bt pl =>
    rw [hv] at h1
    simp only [verdictOut, Bt.Outcome.deliver.injEq] at h1
    rw [← h1.2]; exact verdict_payload hv
  | drop => rw [hv] at h1; cases h1
  | malformed => rw [hv] at h1; cases h1

theorem run_accepted_bytes (k : Kind) : ∀ (evs : List Ev) (s : State),
    ((run k s evs).1.accepted.map (·.bytes)).Sublist (s.accepted.map (·.bytes) ++ evs.filterMap recvBytesOf) := by
  intro evs
  induction evs with
  | nil => intro s; simp [run]
  | cons e es ih =>
    intro s
    rw [run_cons]
    refine (ih _).trans ?_
    have h1 : ((step k s e).1.accepted.map (·.bytes)).Sublist (s.accepted.map (·.bytes) ++ [e].filterMap recvBytesOf) := by
      rcases step_accepted k s e with h | ⟨p, b, hd, pl, rfl, h⟩
      · rw [h]; exact List.sublist_append_left _ _
      · rw [h]; simp [recvBytesOf]
    have : (e :: es).filterMap recvBytesOf = [e].filterMap recvBytesOf ++ es.filterMap recvBytesOf := by
      rw [← List.filterMap_append]; rfl
    rw [this, ← List.append_assoc]
    exact List.Sublist.append h1 (List.Sublist.refl _)

theorem map_body_eq_filterMap : ∀ (l : List Arr), (∀ a ∈ l, payloadOf a.bytes = some a.m.body) →
    l.map (·.m.body) = (l.map (·.bytes)).filterMap payloadOf := by
  intro l
  induction l with
  | nil => intro _; rfl
  | cons a l ih =>
    intro h
    simp only [List.map_cons, List.filterMap_cons, h a (by simp)]
    rw [ih (fun x hx => h x (by simp [hx]))]

/-- pairwise distinct payloads of the `recv_done` events suffice -/
theorem arrivalsDistinct_of_payloads {resp : Bool} {k : Kind} {sel : Sel} (hj : JK resp k sel) (evs : List Ev)
    (h : (arrivalPayloads evs).Nodup) : ArrivalsDistinct k evs := by
  unfold ArrivalsDistinct
  have hI := run_inv hj.kok evs {} (inv_init _ _)
  rw [map_body_eq_filterMap _ (accepted_payload hj.recv hI)]
  have := run_accepted_bytes k evs {}
  simp only [List.map_nil, List.nil_append] at this
  exact h.sublist (this.filterMap _)

end Nng.RawSurv
