/- relation preservation: steps without an observation (the monitor's state does not change) -/
import NngModel.Proofs.AioJudgeRel
namespace Nng.Aio
open Nng.AioSpec

variable {s s' : State} {g : G} {j : J} {k : Nat}

set_option maxHeartbeats 1000000 in
theorem rel_direct (hR : R k s g j) (i1 : Inv1 s) (i2 : Inv2 s) (i3 : Inv3 s) (i4 : Inv4 s)
    (hs : step Cfg.fixed s .direct = some s') :
    R k s' (gStep s g .direct) (judgeFrom j (obsX s g .direct)) := by
  simp only [obsX, obsOf, obsExtra, gStep, judgeFrom, List.append_nil, List.foldl]
  cases hk : s.subKind <;> step_casesk hs hk
  all_goals r_same hR

set_option maxHeartbeats 1000000 in
theorem rel_finish (hR : R k s g j) (i1 : Inv1 s) (i2 : Inv2 s) (i3 : Inv3 s) (i4 : Inv4 s)
    (hs : step Cfg.fixed s .finish = some s') :
    R k s' (gStep s g .finish) (judgeFrom j (obsX s g .finish)) := by
  simp only [obsX, obsOf, obsExtra, gStep, judgeFrom, List.append_nil, List.foldl]
  step_cases hs
  all_goals r_same hR

set_option maxHeartbeats 1000000 in
theorem rel_closeSec (hR : R k s g j) (i1 : Inv1 s) (i2 : Inv2 s) (i3 : Inv3 s) (i4 : Inv4 s)
    (hs : step Cfg.fixed s .closeSec = some s') :
    R k s' (gStep s g .closeSec) (judgeFrom j (obsX s g .closeSec)) := by
  simp only [obsX, obsOf, obsExtra, gStep, judgeFrom, List.append_nil, List.foldl]
  step_cases hs
  all_goals r_same hR

end Nng.Aio
