/-
  The REP model satisfies the C04 trace predicate `repJudge` (Spec/Rep.lean) on every event
  sequence (under the hypotheses stated in Props/C04Rep.lean): simulation between the model
  state and the judge state.
-/
import NngModel.Proofs.RepJudgeCut
import NngModel.Proofs.RepJudgeInv
import NngModel.Proofs.RepParse
namespace Nng.RepProofs
open Nng Nng.Proto Nng.Rep Nng.RepSpec

/-! ### the simulation relation -/

def heldOf (r : Req) : Held := ⟨r.pipe, r.bt, r.body⟩

structure PipesRel (s : State) (j : RepJ) : Prop where
  live : ∀ p, p ∈ j.live ↔ livePipe s p = true
  busy : ∀ p, p ∈ j.busy ↔ (livePipe s p = true ∧ (s.pipe p).busy = true)
  armed : ∀ p, p ∈ j.armed ↔ (livePipe s p = true ∧ (s.pipe p).armed = true)
  held : j.held = s.recvpipes.map heldOf

structure OpsRel (s : State) (j : RepJ) : Prop where
  w1 : ∀ r ∈ j.waiting, r.second = false ∧
    ∃ k pk, (s.ctx k).raio = some pk ∧ r.aio = pk.aio ∧ resolve s r.ctx = some k
  w2 : ∀ k pk, (s.ctx k).raio = some pk → ∃ r ∈ j.waiting, r.aio = pk.aio
  s1 : ∀ x ∈ j.sends, x.overlap = false ∧ x.ctxOpen = true ∧
    ∃ p e u, e ∈ (s.pipe p).sendq ∧ x.aio = e.aio ∧ resolve s x.ctx = some e.ctx ∧ x.body = e.body ∧
      x.snap = some u ∧ u.pipe = p ∧ u.hdr = e.hdr
  s2 : ∀ p, ∀ e ∈ (s.pipe p).sendq, ∃ x ∈ j.sends, x.aio = e.aio

/-- what the judge thinks a context has to answer vs what the context has saved -/
def CurOK (cur : Option Cur) (c : Ctx) : Prop :=
  match cur with
  | none => c.btrace = []
  | some u => (u.maybe = true ∧ c.btrace = []) ∨ (c.btrace = u.hdr ∧ c.pipeId = some u.pipe)

structure CurRel (s : State) (j : RepJ) : Prop where
  cur : ∀ c k, resolve s c = some k → CurOK (curOf j c) (s.ctx k)
  slots : ∀ c, c ∈ j.slots ↔ (s.slot c).isSome = true

/-- the relation without "no accepted reply is pending" -/
structure R0 (s : State) (j : RepJ) : Prop where
  err : j.err = none
  ttl : j.ttl = s.ttl
  closed : j.closed = false
  pipes : PipesRel s j
  ops : OpsRel s j
  curs : CurRel s j
  wired : j.wired = s.wire.map (·.body)

structure R (s : State) (j : RepJ) : Prop where
  r0 : R0 s j
  acc : j.acc = []

/-- after the socket was closed the judge only has to stay silent -/
structure Rc (j : RepJ) : Prop where
  err : j.err = none
  closed : j.closed = true
  acc : j.acc = []

theorem R_init : R ({} : State) ({} : RepJ) := by
  refine ⟨⟨rfl, rfl, rfl, ⟨?_, ?_, ?_, rfl⟩, ⟨?_, ?_, ?_, ?_⟩, ⟨?_, ?_⟩, rfl⟩, rfl⟩
  · intro p; simp [livePipe]
  · intro p; simp [livePipe]
  · intro p; simp [livePipe]
  · intro r h; cases h
  · intro k pk h; simp at h
  · intro x h; cases h
  · intro p e h; simp at h
  · intro c k _; simp [curOf, CurOK]
  · intro c; simp

/-! ### small facts -/

theorem resolve_inj {s : State} {used : List Bytes} (h5 : Inv5 s used) {c c' : Option Nat} {k : Nat}
    (h : resolve s c = some k) (h' : resolve s c' = some k) : c = c' := by
  cases c with
  | none =>
    cases c' with
    | none => rfl
    | some c' =>
      have hk : k = 0 := by unfold resolve at h; injection h with h; exact h.symm
      have := h5.slot1 c' k h'; omega
  | some c =>
    cases c' with
    | none =>
      have hk : k = 0 := by unfold resolve at h'; injection h' with h'; exact h'.symm
      have := h5.slot1 c k h; omega
    | some c' => rw [h5.slotinj c c' k h h']

theorem nodup_map_inj {α β : Type} (f : α → β) : ∀ (l : List α), (l.map f).Nodup → ∀ a ∈ l, ∀ b ∈ l, f a = f b → a = b := by
  intro l
  induction l with
  | nil => intro _ a ha; cases ha
  | cons x l ih =>
    intro hnd a ha b hb hab
    rw [List.map_cons, List.nodup_cons] at hnd
    rcases List.mem_cons.1 ha with ha1 | ha1 <;> rcases List.mem_cons.1 hb with hb1 | hb1
    · rw [ha1, hb1]
    · subst ha1; exact absurd (List.mem_map.2 ⟨b, hb1, hab.symm⟩) hnd.1
    · subst hb1; exact absurd (List.mem_map.2 ⟨a, ha1, hab⟩) hnd.1
    · exact ih hnd.2 a ha1 b hb1 hab

/-- a parked send is identified by its aio -/
theorem entry_unique {s : State} {used : List Bytes} (h5 : Inv5 s used) {p p' : Nat} {e e' : PSend}
    (he : e ∈ (s.pipe p).sendq) (he' : e' ∈ (s.pipe p').sendq) (ha : e.aio = e'.aio) : p = p' ∧ e = e' := by
  have h1 := h5.sq p e he
  have h2 := h5.sq p' e' he'
  have hk : e.ctx = e'.ctx := h5.sinj _ _ e.aio h1.2.1 (ha ▸ h2.2.1)
  have hp : p = p' := by
    have := h1.2.2; rw [hk, h2.2.2] at this; injection this with this; exact this.symm
  subst hp
  exact ⟨rfl, nodup_map_inj (·.ctx) _ (h5.sqnd p) e he e' he' hk⟩

theorem find_snoc_new {α : Type} (l : List α) (x : α) (q : α → Bool) (h : ∀ y ∈ l, q y = false) (hx : q x = true) :
    (l ++ [x]).find? q = some x := by
  rw [List.find?_append, List.find?_eq_none.2 (by intro y hy; simp [h y hy])]
  simp [hx]

theorem find_some_mem {α : Type} {l : List α} {q : α → Bool} (h : ∃ x ∈ l, q x = true) :
    ∃ y, l.find? q = some y ∧ y ∈ l ∧ q y = true := by
  cases hf : l.find? q with
  | none =>
    obtain ⟨x, hx, hq⟩ := h
    rw [List.find?_eq_none] at hf
    exact absurd hq (hf x hx)
  | some y => exact ⟨y, rfl, List.mem_of_find?_eq_some hf, List.find?_some hf⟩

/-! ### the relation only reads part of the states -/

theorem PipesRel.congr {s s' : State} {j j' : RepJ} (h : PipesRel s j)
    (h1 : ∀ p, livePipe s' p = livePipe s p) (h2 : ∀ p, (s'.pipe p).busy = (s.pipe p).busy)
    (h3 : ∀ p, (s'.pipe p).armed = (s.pipe p).armed) (h4 : s'.recvpipes = s.recvpipes)
    (g1 : j'.live = j.live) (g2 : j'.busy = j.busy) (g3 : j'.armed = j.armed) (g4 : j'.held = j.held) :
    PipesRel s' j' := by
  refine ⟨?_, ?_, ?_, ?_⟩
  · intro p; rw [g1, h1]; exact h.live p
  · intro p; rw [g2, h1, h2]; exact h.busy p
  · intro p; rw [g3, h1, h3]; exact h.armed p
  · rw [g4, h4]; exact h.held

theorem OpsRel.congr {s s' : State} {j j' : RepJ} (h : OpsRel s j)
    (h1 : ∀ k, (s'.ctx k).raio = (s.ctx k).raio) (h2 : ∀ p, (s'.pipe p).sendq = (s.pipe p).sendq)
    (h3 : s'.slot = s.slot) (g1 : j'.waiting = j.waiting) (g2 : j'.sends = j.sends) : OpsRel s' j' := by
  have hr : ∀ c, resolve s' c = resolve s c := by intro c; cases c <;> simp [resolve, h3]
  refine ⟨?_, ?_, ?_, ?_⟩
  · intro r hr'; rw [g1] at hr'
    obtain ⟨a, k, pk, b, c, d⟩ := h.w1 r hr'
    exact ⟨a, k, pk, by rw [h1]; exact b, c, by rw [hr]; exact d⟩
  · intro k pk hk; rw [h1] at hk; rw [g1]; exact h.w2 k pk hk
  · intro x hx; rw [g2] at hx
    obtain ⟨a, b, p, e, u, c, d, f, g⟩ := h.s1 x hx
    exact ⟨a, b, p, e, u, by rw [h2]; exact c, d, by rw [hr]; exact f, g⟩
  · intro p e he; rw [h2] at he; rw [g2]; exact h.s2 p e he

theorem CurRel.congr {s s' : State} {j j' : RepJ} (h : CurRel s j)
    (h1 : ∀ k, (s'.ctx k).btrace = (s.ctx k).btrace) (h2 : ∀ k, (s'.ctx k).pipeId = (s.ctx k).pipeId)
    (h3 : s'.slot = s.slot) (g1 : j'.cur = j.cur) (g2 : j'.slots = j.slots) : CurRel s' j' := by
  have hr : ∀ c, resolve s' c = resolve s c := by intro c; cases c <;> simp [resolve, h3]
  refine ⟨?_, ?_⟩
  · intro c k hk; rw [hr] at hk
    have := h.cur c k hk
    have hc : curOf j' c = curOf j c := by unfold curOf; rw [g1]
    rw [hc]
    unfold CurOK at *
    rw [h1, h2]; exact this
  · intro c; rw [g2, h3]; exact h.slots c

theorem R0_unfresh {s : State} {j : RepJ} (h : R0 s j) : R0 s (unfresh j) := by
  obtain ⟨a, b, c, d, e, f, g⟩ := h
  refine ⟨a, b, c, ⟨d.live, d.busy, d.armed, d.held⟩, ⟨?_, ?_, e.s1, e.s2⟩, ⟨f.cur, f.slots⟩, g⟩
  · intro r hr
    obtain ⟨r0, hr0, rfl⟩ := List.mem_map.1 hr
    exact e.w1 r0 hr0
  · intro k pk hk
    obtain ⟨r, hr, ha⟩ := e.w2 k pk hk
    exact ⟨_, List.mem_map.2 ⟨r, hr, rfl⟩, ha⟩

/-! ### the end-of-step checks -/

def isPollOut : Out → Bool | .poll .. => true | _ => false
def isPipeOut : Out → Bool | .pipe _ => true | _ => false

theorem polls_none {outs : List Out} (h : ∀ o ∈ outs, isPollOut o = false) (j : RepJ) :
    outs.foldl pollStep j = j := by
  induction outs generalizing j with
  | nil => rfl
  | cons o outs ih =>
    have ho := h o (by simp)
    rw [List.foldl_cons]
    have : pollStep j o = j := by cases o <;> first | rfl | simp [isPollOut] at ho
    rw [this]; exact ih (fun o ho => h o (by simp [ho])) j

theorem pipes_none {outs : List Out} (outs' : List Out) (h : ∀ o ∈ outs, isPipeOut o = false) (j : RepJ) :
    outs.foldl (pipeStep outs') j = j := by
  induction outs generalizing j with
  | nil => rfl
  | cons o outs ih =>
    have ho := h o (by simp)
    rw [List.foldl_cons]
    have : pipeStep outs' j o = j := by cases o <;> first | rfl | simp [isPipeOut] at ho
    rw [this]; exact ih (fun o ho => h o (by simp [ho])) j

theorem accChk_ok {j : RepJ} (h : ∀ a ∈ j.acc, a.pipe ∉ j.live) : accChk j = { j with acc := [] } := by
  unfold accChk
  rw [List.find?_eq_none.2 (by intro a ha; simpa using h a ha)]

theorem secondChk_ok {j : RepJ} (h : ∀ r ∈ j.waiting, r.second = false ∨ r.fresh = false) : secondChk j = j := by
  unfold secondChk
  rw [if_neg]
  simp only [List.any_eq_true, not_exists, not_and, Bool.and_eq_true]
  intro r hr
  rcases h r hr with h' | h' <;> simp [h']

theorem quietChk_ok {j : RepJ} (h : j.closed = true ∨ j.waiting = [] ∨ j.held = []) : quietChk j = j := by
  unfold quietChk
  rcases h with h | h | h <;> simp [h]

theorem blockedChk_ok {outs : List Out} {j : RepJ} (h : outs.any isBlocked = false) : blockedChk outs j = j := by
  unfold blockedChk; simp [h]

def NbOK (nb : Option Nat) (outs : List Out) : Prop :=
  nb = none ∨ ∃ a rv m mb, nb = some a ∧ Out.done a rv m mb ∈ outs

theorem nbChk_ok {nb : Option Nat} {outs : List Out} {j : RepJ} (h : NbOK nb outs) : nbChk nb outs j = j := by
  unfold nbChk
  rcases h with rfl | ⟨a, rv, m, mb, rfl, hm⟩
  · rfl
  · show (if _ then j else _) = j
    rw [if_pos]
    rw [List.any_eq_true]
    exact ⟨_, List.mem_filter.2 ⟨hm, rfl⟩, by simp⟩

theorem R0_quiet {s : State} {j : RepJ} (h0 : R0 s j) (h3 : Inv3 s) : j.waiting = [] ∨ j.held = [] := by
  cases hw : j.waiting with
  | nil => exact Or.inl rfl
  | cons r l =>
    right
    obtain ⟨_, k, pk, hk, _, _⟩ := h0.ops.w1 r (by rw [hw]; simp)
    have hq : s.recvq ≠ [] := by
      intro he
      have := h3.RQ k (by rw [hk]; rfl)
      rw [he] at this; cases this
    rw [h0.pipes.held, h3.Q hq]; rfl

theorem R0_acc {s : State} {j : RepJ} (h : R0 s j) (acc : List Acc) : R0 s { j with acc := acc } := by
  obtain ⟨a, b, c, d, e, f, g⟩ := h
  exact ⟨a, b, c, ⟨d.live, d.busy, d.armed, d.held⟩, ⟨e.w1, e.w2, e.s1, e.s2⟩, ⟨f.cur, f.slots⟩, g⟩

theorem repPost_ok {j : RepJ} {nb : Option Nat} {outs : List Out}
    (hacc : ∀ a ∈ j.acc, a.pipe ∉ j.live) (hsec : ∀ r ∈ j.waiting, r.second = false ∨ r.fresh = false)
    (hnb : NbOK nb outs) (hbl : outs.any isBlocked = false) (hpoll : ∀ o ∈ outs, isPollOut o = false)
    (hq : j.closed = true ∨ j.waiting = [] ∨ j.held = []) : repPost nb outs j = { j with acc := [] } := by
  unfold repPost
  rw [accChk_ok hacc, secondChk_ok (j := { j with acc := [] }) hsec, nbChk_ok (j := { j with acc := [] }) hnb,
    blockedChk_ok (j := { j with acc := [] }) hbl, polls_none hpoll, quietChk_ok (j := { j with acc := [] }) hq]

/-- closing a step: all end-of-step checks pass in a judge state related to a model state -/
theorem post_R {s : State} {j : RepJ} {nb : Option Nat} {outs : List Out} (h0 : R0 s j) (h3 : Inv3 s)
    (hacc : ∀ a ∈ j.acc, a.pipe ∉ j.live) (hnb : NbOK nb outs) (hbl : outs.any isBlocked = false)
    (hpoll : ∀ o ∈ outs, isPollOut o = false) : R s (repPost nb outs j) := by
  rw [repPost_ok hacc (by intro r hr; exact Or.inl (h0.ops.w1 r hr).1) hnb hbl hpoll (Or.inr (R0_quiet h0 h3))]
  exact ⟨R0_acc h0 [], rfl⟩

theorem procOuts_nopipe {outs : List Out} (h : ∀ o ∈ outs, isPipeOut o = false) (j : RepJ) :
    procOuts outs j = (outs.filter (fun o => !isDone o)).foldl repOut ((outs.filter isDone).foldl doneStep j) := by
  unfold procOuts; rw [pipes_none outs h]

/-- an executed event for which the judge keeps no books and whose single output it ignores -/
theorem step_plain {s : State} {j : RepJ} {ev : Ev} {o : Out} (hR : R s j) (h3 : Inv3 s)
    (hpre : ∀ j : RepJ, repPre j ev [o] = (j, none)) (hd : isDone o = false) (hpi : isPipeOut o = false)
    (hpo : isPollOut o = false) (hb : isBlocked o = false) (hne : notExecuted [o] = false)
    (ho : ∀ j : RepJ, repOut j o = j) : R s (repStep j ev [o]) := by
  rw [repStep_eq hR.r0.err hne, hpre]
  have hacc : (unfresh j).acc = [] := hR.acc
  refine post_R ?_ h3 ?_ (Or.inl rfl) (by simp [hb]) (by simp [hpo])
  · rw [procOuts_nopipe (by simp [hpi])]
    simp only [List.filter, hd, Bool.not_false, List.foldl_cons, List.foldl_nil, ho]
    exact R0_unfresh hR.r0
  · rw [procOuts_nopipe (by simp [hpi])]
    simp only [List.filter, hd, Bool.not_false, List.foldl_cons, List.foldl_nil, ho]
    rw [hacc]; intro a ha; cases ha

theorem Rc_step {j : RepJ} (h : Rc j) (ev : Ev) (hev : ∀ j : RepJ, repPre j ev [] = (j, none)) :
    Rc (repStep j ev []) := by
  rw [repStep_eq h.err (by simp [notExecuted]), hev]
  have hacc : (unfresh j).acc = [] := h.acc
  have : procOuts [] (unfresh j) = unfresh j := rfl
  simp only [this]
  rw [repPost_ok (j := unfresh j) (by rw [hacc]; intro a ha; cases ha) (by
      intro r hr
      obtain ⟨r0, _, rfl⟩ := List.mem_map.1 hr
      exact Or.inr rfl) (Or.inl rfl) (by simp) (by simp) (Or.inl h.closed)]
  exact ⟨h.err, h.closed, rfl⟩

/-! ### events: a new pipe -/

theorem livePipe_iff (s : State) (p : Nat) : livePipe s p = true ↔ p < s.npipes ∧ (s.pipe p).closed = false := by
  unfold livePipe; simp

theorem not_live_of_ge {s : State} {p : Nat} (h : s.npipes ≤ p) : livePipe s p = false := by
  cases hl : livePipe s p with
  | false => rfl
  | true => have := ((livePipe_iff s p).1 hl).1; omega

theorem sendq_empty_of_ge {s : State} {used : List Bytes} (h5 : Inv5 s used) {p : Nat} (h : s.npipes ≤ p) :
    (s.pipe p).sendq = [] := by
  cases hq : (s.pipe p).sendq with
  | nil => rfl
  | cons e l =>
    have := (h5.sq p e (by rw [hq]; simp)).1
    rw [not_live_of_ge h] at this; cases this

theorem pipeAdd_sim {s : State} {j : RepJ} {used : List Bytes} (hR : R s j) (h5 : Inv5 s used) (h2 : Inv2 s)
    (pp : Pipe) (outs : List Out)
    (hcase : (pp = { closed := true } ∧ outs = [.pipe s.npipes, .pclosed s.npipes]) ∨
             (pp = { armed := true } ∧ outs = [.pipe s.npipes, .parm s.npipes])) (h3 : Inv3 (setPipe (addPipeSlot s) s.npipes pp)) :
    R (setPipe (addPipeSlot s) s.npipes pp) (repStep j (.pipeAdd peer) outs) := by
  have hne : notExecuted outs = false := by rcases hcase with ⟨_, rfl⟩ | ⟨_, rfl⟩ <;> rfl
  rw [repStep_eq hR.r0.err hne]
  have hpre : repPre (unfresh j) (.pipeAdd peer) outs = (unfresh j, none) := rfl
  rw [hpre]
  have hu := R0_unfresh hR.r0
  have hacc : (unfresh j).acc = [] := hR.acc
  generalize unfresh j = j0 at hu hacc
  have hnl : s.npipes ∉ j0.live := by
    intro h; have := (hu.pipes.live _).1 h; rw [not_live_of_ge (Nat.le_refl _)] at this; cases this
  have hna : s.npipes ∉ j0.armed := by
    intro h; have := ((hu.pipes.armed _).1 h).1; rw [not_live_of_ge (Nat.le_refl _)] at this; cases this
  have hq0 := sendq_empty_of_ge h5 (Nat.le_refl s.npipes)
  have hlive : ∀ p, livePipe (setPipe (addPipeSlot s) s.npipes pp) p =
      if p = s.npipes then !pp.closed else livePipe s p := by
    intro p
    unfold livePipe setPipe addPipeSlot upd
    by_cases hp : p = s.npipes
    · subst hp; simp
    · simp only [hp, if_false]
      by_cases hl : p < s.npipes
      · have : p < s.npipes + 1 := by omega
        simp [hl, this]
      · have : ¬ p < s.npipes + 1 := by omega
        simp [hl, this]
  have hpipe : ∀ p, p ≠ s.npipes → (setPipe (addPipeSlot s) s.npipes pp).pipe p = s.pipe p := by
    intro p hp; simp [setPipe, addPipeSlot, upd, hp]
  have hheld : ∀ r ∈ s.recvpipes, r.pipe ≠ s.npipes := by
    intro r hr he
    have := (h2.H r hr).2; rw [he, not_live_of_ge (Nat.le_refl _)] at this; cases this
  rcases hcase with ⟨rfl, rfl⟩ | ⟨rfl, rfl⟩
  · -- rejected peer
    refine post_R ?_ h3 ?_ (Or.inl rfl) rfl (by simp [isPollOut])
    · have hp : procOuts [.pipe s.npipes, .pclosed s.npipes] j0 =
          { j0 with live := j0.live.filter (· != s.npipes), busy := j0.busy.filter (· != s.npipes),
                    armed := j0.armed.filter (· != s.npipes), held := j0.held.filter (·.pipe != s.npipes) } := by
        simp [procOuts, pipeStep, hasPclosed, List.filter, isDone, repOut]
      rw [hp]
      obtain ⟨a, b, c, d, e, f, g⟩ := hu
      refine ⟨a, b, c, ⟨?_, ?_, ?_, ?_⟩, ?_, ?_, g⟩
      · intro p; simp only [List.mem_filter, hlive, d.live p]
        by_cases hp : p = s.npipes
        · subst hp; simp [not_live_of_ge]
        · simp [hp]
      · intro p; simp only [List.mem_filter, hlive, d.busy p]
        by_cases hp : p = s.npipes
        · subst hp; simp [not_live_of_ge]
        · simp [hp, hpipe p hp]
      · intro p; simp only [List.mem_filter, hlive, d.armed p]
        by_cases hp : p = s.npipes
        · subst hp; simp [not_live_of_ge]
        · simp [hp, hpipe p hp]
      · show j0.held.filter _ = s.recvpipes.map heldOf
        rw [d.held, List.filter_eq_self.2]
        intro x hx
        obtain ⟨r, hr, rfl⟩ := List.mem_map.1 hx
        simpa [heldOf] using hheld r hr
      · refine OpsRel.congr (s := s) e (fun _ => rfl) ?_ rfl rfl rfl
        intro p
        by_cases hp : p = s.npipes
        · subst hp; rw [hq0]; simp [setPipe, addPipeSlot, upd]
        · rw [hpipe p hp]
      · exact CurRel.congr (s := s) f (fun _ => rfl) (fun _ => rfl) rfl rfl rfl
    · simp [procOuts, pipeStep, hasPclosed, List.filter, isDone, repOut, hacc]
  · -- accepted peer
    refine post_R ?_ h3 ?_ (Or.inl rfl) rfl (by simp [isPollOut])
    · have hp : procOuts [.pipe s.npipes, .parm s.npipes] j0 =
          { j0 with live := j0.live ++ [s.npipes], armed := j0.armed ++ [s.npipes] } := by
        simp [procOuts, pipeStep, hasPclosed, List.filter, isDone, repOut, hna]
      rw [hp]
      obtain ⟨a, b, c, d, e, f, g⟩ := hu
      refine ⟨a, b, c, ⟨?_, ?_, ?_, ?_⟩, ?_, ?_, g⟩
      · intro p; simp only [List.mem_append, List.mem_singleton, hlive, d.live p]
        by_cases hp : p = s.npipes
        · subst hp; simp
        · simp [hp]
      · intro p; simp only [hlive, d.busy p]
        by_cases hp : p = s.npipes
        · subst hp; simp [not_live_of_ge, setPipe, addPipeSlot, upd]
        · simp [hp, hpipe p hp]
      · intro p; simp only [List.mem_append, List.mem_singleton, hlive, d.armed p]
        by_cases hp : p = s.npipes
        · subst hp; simp [setPipe, addPipeSlot, upd]
        · simp [hp, hpipe p hp]
      · exact d.held
      · refine OpsRel.congr (s := s) e (fun _ => rfl) ?_ rfl rfl rfl
        intro p
        by_cases hp : p = s.npipes
        · subst hp; rw [hq0]; simp [setPipe, addPipeSlot, upd]
        · rw [hpipe p hp]
      · exact CurRel.congr (s := s) f (fun _ => rfl) (fun _ => rfl) rfl rfl rfl
    · simp [procOuts, pipeStep, hasPclosed, List.filter, isDone, repOut, hna, hacc]

/-! ### events: poll -/

theorem verdict_sound {s : State} {j : RepJ} (h0 : R0 s j) (h2 : Inv2 s) (hc : s.closed = false) :
    (sockSendVerdict j = some true → s.writable = true) ∧ (sockSendVerdict j = some false → s.writable = false) := by
  rw [h2.W hc]
  unfold sockSendVerdict
  split
  · simp
  · have hcur := h0.curs.cur none 0 rfl
    cases hco : curOf j none with
    | none => simp
    | some u =>
      rw [hco] at hcur
      simp only
      cases hm : u.maybe with
      | true => simp
      | false =>
        unfold CurOK at hcur
        simp only [hm, Bool.false_eq_true, false_and, false_or] at hcur
        have hb := (h2.B 0 u.pipe hcur.2).2
        have hbe : (s.ctx 0).btrace.isEmpty = false := by
          cases hbt : (s.ctx 0).btrace with
          | nil => exact absurd hbt hb
          | cons _ _ => rfl
        have hl := h0.pipes.live u.pipe
        have hbz := h0.pipes.busy u.pipe
        unfold sockCanSend
        rw [hcur.2, hbe]
        by_cases h1 : u.pipe ∈ j.live
        · have hl' := hl.1 h1
          by_cases h2' : u.pipe ∈ j.busy
          · have := (hbz.1 h2').2
            simp [h1, h2', hl', this]
          · have : (s.pipe u.pipe).busy = false := by
              cases hbb : (s.pipe u.pipe).busy with
              | false => rfl
              | true => exact absurd (hbz.2 ⟨hl', hbb⟩) h2'
            simp [h1, h2', hl', this]
        · have : livePipe s u.pipe = false := by
            cases hll : livePipe s u.pipe with
            | false => rfl
            | true => exact absurd (hl.2 hll) h1
          simp [h1, this]

theorem poll_sim {s : State} {j : RepJ} (hR : R s j) (h2 : Inv2 s) (h3 : Inv3 s) (hc : s.closed = false) :
    R s (repStep j .poll [.poll (some s.readable) (some s.writable)]) := by
  rw [repStep_eq hR.r0.err rfl]
  have hpre : repPre (unfresh j) .poll [.poll (some s.readable) (some s.writable)] = (unfresh j, none) := rfl
  rw [hpre]
  have hu := R0_unfresh hR.r0
  have hacc : (unfresh j).acc = [] := hR.acc
  generalize unfresh j = j0 at hu hacc
  have hp : procOuts [.poll (some s.readable) (some s.writable)] j0 = j0 := rfl
  rw [hp]
  unfold repPost
  rw [accChk_ok (by rw [hacc]; intro a ha; cases ha),
    secondChk_ok (j := { j0 with acc := [] }) (by intro r hr; exact Or.inl (hu.ops.w1 r hr).1)]
  have hu' : R0 s { j0 with acc := [] } := R0_acc hu []
  have hacc1 : ({ j0 with acc := [] } : RepJ).acc = [] := rfl
  generalize { j0 with acc := [] } = j1 at hu' hacc1
  have hv := verdict_sound hu' h2 hc
  have hr : (s.readable != !j1.held.isEmpty) = false := by
    rw [h2.R hc, hu'.pipes.held]; cases s.recvpipes <;> rfl
  have hps : pollStep j1 (.poll (some s.readable) (some s.writable)) = j1 := by
    unfold pollStep
    simp only [hr, Bool.false_eq_true, if_false]
    cases hw : s.writable <;> cases hvv : sockSendVerdict j1 with
    | none => rfl
    | some b =>
      cases b with
      | true => first | rfl | (have := hv.1 hvv; rw [hw] at this; cases this)
      | false => first | rfl | (have := hv.2 hvv; rw [hw] at this; cases this)
  show R s (quietChk (List.foldl pollStep (blockedChk _ (nbChk none _ j1)) _))
  rw [nbChk_ok (Or.inl rfl), blockedChk_ok rfl]
  simp only [List.foldl_cons, List.foldl_nil, hps]
  rw [quietChk_ok (Or.inr (R0_quiet hu' h3))]
  exact ⟨hu', hacc1⟩

/-! ### events: receive -/

theorem filter_snoc_new {α : Type} (l : List α) (x : α) (q : α → Bool) (h : ∀ y ∈ l, q y = true) (hx : q x = false) :
    (l ++ [x]).filter q = l := by
  rw [List.filter_append, List.filter_eq_self.2 h]; simp [hx]

theorem waiting_no_aio {s : State} {j : RepJ} {a : Nat} (h0 : R0 s j) (hf : AioFree s a) :
    ∀ r ∈ j.waiting, r.aio ≠ a := by
  intro r hr
  obtain ⟨_, k, pk, hk, ha, _⟩ := h0.ops.w1 r hr
  rw [ha]; exact hf.1 k pk hk

theorem sends_no_aio {s : State} {j : RepJ} {used : List Bytes} {a : Nat} (h0 : R0 s j) (h5 : Inv5 s used)
    (hf : AioFree s a) : ∀ x ∈ j.sends, x.aio ≠ a := by
  intro x hx
  obtain ⟨_, _, p, e, u, he, ha, _⟩ := h0.ops.s1 x hx
  rw [ha]; intro h
  exact hf.2 e.ctx (h ▸ (h5.sq p e he).2.1)

theorem second_iff {s : State} {j : RepJ} {used : List Bytes} (h0 : R0 s j) (h5 : Inv5 s used) {c : Option Nat} {k : Nat}
    (hres : resolve s c = some k) : j.waiting.any (·.ctx == c) = true ↔ (s.ctx k).raio.isSome = true := by
  constructor
  · intro h
    obtain ⟨r, hr, hc⟩ := List.any_eq_true.1 h
    have hc' : r.ctx = c := by simpa using hc
    obtain ⟨_, k', pk, hk, _, hres'⟩ := h0.ops.w1 r hr
    rw [hc', hres] at hres'; injection hres' with hres'; subst hres'
    rw [hk]; rfl
  · intro h
    cases hk : (s.ctx k).raio with
    | none => rw [hk] at h; cases h
    | some pk =>
      obtain ⟨r, hr, ha⟩ := h0.ops.w2 k pk hk
      obtain ⟨_, k', pk', hk', ha', hres'⟩ := h0.ops.w1 r hr
      have : k' = k := h5.rinj k' k pk' pk hk' hk (by rw [← ha', ha])
      subst this
      rw [List.any_eq_true]
      exact ⟨r, hr, by simpa using resolve_inj h5 hres' hres⟩

theorem second_unresolved {s : State} {j : RepJ} (h0 : R0 s j) {c : Option Nat}
    (hres : resolve s c = none) : j.waiting.any (·.ctx == c) = false := by
  rw [List.any_eq_false]
  intro r hr hc
  have hc' : r.ctx = c := by simpa using hc
  obtain ⟨_, k', pk, _, _, hres'⟩ := h0.ops.w1 r hr
  rw [hc', hres] at hres'; cases hres'

theorem resolve_congr {s s' : State} (h : s'.slot = s.slot) (c : Option Nat) : resolve s' c = resolve s c := by
  cases c <;> simp [resolve, h]

/-- hand request `r` to the context behind key `c` -/
theorem deliver_R0 {s : State} {j : RepJ} (h0 : R0 s j) {c : Option Nat} {k : Nat}
    (hinj : ∀ c', resolve s c' = some k → c' = c)
    (r : Req) (hl : livePipe s r.pipe = true) (hres : resolve s c = some k) :
    R0 (deliver s k r) (setCur { j with armed := j.armed ++ [r.pipe] } c (some ⟨r.pipe, r.bt, false⟩)) := by
  obtain ⟨a, b, c1, d, e, f, g⟩ := h0
  obtain ⟨hw1, _, _, hw4, hw5, _, hw7, _, _, _⟩ := deliver_wire s k r
  have hsl : (deliver s k r).slot = s.slot := by unfold deliver recvWritable; split <;> rfl
  have hlive : ∀ p, livePipe (deliver s k r) p = livePipe s p := by
    intro p; unfold livePipe; rw [hw4, deliver_pipe, upd_apply]; split
    · rename_i h; subst h; rfl
    · rfl
  refine ⟨a, by rw [hw7]; exact b, c1, ⟨?_, ?_, ?_, ?_⟩, ?_, ⟨?_, ?_⟩, by rw [hw1]; exact g⟩
  · intro p; rw [hlive]; exact d.live p
  · intro p; rw [hlive, deliver_pipe, upd_apply]
    have := d.busy p
    split
    · rename_i h; subst h; exact this
    · exact this
  · intro p; rw [hlive, deliver_pipe, upd_apply]
    have := d.armed p
    show p ∈ j.armed ++ [r.pipe] ↔ _
    rw [List.mem_append, List.mem_singleton]
    by_cases hp : p = r.pipe
    · subst hp; simp [hl]
    · simp [hp, this]
  · rw [hw5]; exact d.held
  · refine OpsRel.congr (s := s) e ?_ ?_ hsl rfl rfl
    · intro k'; rw [deliver_ctx, upd_apply]; split
      · rename_i h; subst h; rfl
      · rfl
    · intro p; rw [deliver_pipe, upd_apply]; split
      · rename_i h; subst h; rfl
      · rfl
  · intro c' k' hk'
    rw [resolve_congr hsl] at hk'
    rw [curOf_setCur, deliver_ctx, upd_apply]
    by_cases hc : c' = c
    · subst hc
      rw [hres] at hk'; injection hk' with hk'; subst hk'
      simp [CurOK]
    · have hkk : k' ≠ k := by
        intro h; subst h; exact hc (hinj c' hk')
      rw [if_neg hc, if_neg hkk]
      exact f.cur c' k' hk'
  · intro c'; rw [hsl]; exact f.slots c'

theorem ctxRecv_deliver_eq (s : State) (k a : Nat) (mode : Mode) (r : Req) (rest : List Req)
    (hrp : s.recvpipes = r :: rest) :
    ∃ s1, ctxRecv s k a mode = (deliver s1 k r, [.parm r.pipe, .done a 0 (some ⟨[], r.body⟩) false]) ∧
      s1.pipe = s.pipe ∧ s1.ctx = s.ctx ∧ s1.npipes = s.npipes ∧ s1.slot = s.slot ∧ s1.wire = s.wire ∧
      s1.ttl = s.ttl ∧ s1.recvpipes = rest := by
  unfold ctxRecv; rw [hrp]
  refine ⟨_, rfl, ?_, ?_, ?_, ?_, ?_, ?_, ?_⟩ <;> (split <;> rfl)

theorem recv_deliver_case {s : State} {j : RepJ} {used : List Bytes} (hR : R s j) (h2 : Inv2 s) (h3 : Inv3 s) (h5 : Inv5 s used)
    (c : Option Nat) (a : Nat) (mode : Mode) (hf : AioFree s a) (k : Nat) (r : Req) (rest : List Req)
    (hrp : s.recvpipes = r :: rest) (hres : resolve s c = some k) (h3k : Inv3 (ctxRecv s k a mode).1) :
    R (ctxRecv s k a mode).1 (repStep j (.recv c a mode) (ctxRecv s k a mode).2) := by
  have hu := R0_unfresh hR.r0
  have hacc : (unfresh j).acc = [] := hR.acc
  have herr := hR.r0.err
  generalize hj0 : unfresh j = j0 at hu hacc
  have hpre : ∀ outs, repPre j0 (.recv c a mode) outs =
      ({ j0 with waiting := j0.waiting ++ [⟨a, c, j0.waiting.any (·.ctx == c), isNbMode mode, isZeroMode mode, true⟩] },
        if isNbMode mode then some a else none) := by
    intro outs; cases mode <;> rfl
  have huse := hf
  obtain ⟨s1, heq, e1, e2, e3, e4, e5, e6, e7⟩ := ctxRecv_deliver_eq s k a mode r rest hrp
  rw [heq] at h3k ⊢
  have hheld : j0.held = heldOf r :: rest.map heldOf := by rw [hu.pipes.held, hrp]; rfl
  have hw0 : j0.waiting = [] := by
    rcases R0_quiet hu h3 with h | h
    · exact h
    · rw [hheld] at h; cases h
  have hlr : livePipe s r.pipe = true := (h2.H r (by rw [hrp]; simp)).2
  have hna : r.pipe ∉ j0.armed := by
    intro h
    have := ((hu.pipes.armed _).1 h).2
    rw [h5.held r (by rw [hrp]; simp)] at this; cases this
  have hlive : ∀ p, livePipe s1 p = livePipe s p := by intro p; unfold livePipe; rw [e1, e3]
  rw [repStep_eq herr rfl, hj0, hpre]
  simp only [hw0, List.any_nil, List.nil_append]
  have hR1 : R0 s1 { j0 with held := rest.map heldOf, deliveredBodies := j0.deliveredBodies ++ [r.body] } := by
    obtain ⟨a1, b, c1, d, e, f, g⟩ := hu
    refine ⟨a1, by rw [e6]; exact b, c1, ⟨?_, ?_, ?_, ?_⟩, ?_, ?_, by rw [e5]; exact g⟩
    · intro p; rw [hlive]; exact d.live p
    · intro p; rw [hlive, e1]; exact d.busy p
    · intro p; rw [hlive, e1]; exact d.armed p
    · rw [e7]
    · exact OpsRel.congr (s := s) e (fun _ => by rw [e2]) (fun _ => by rw [e1]) e4 rfl rfl
    · exact CurRel.congr (s := s) f (fun _ => by rw [e2]) (fun _ => by rw [e2]) e4 rfl rfl
  have hD := deliver_R0 hR1 (c := c) (k := k)
    (fun c' hc' => resolve_inj h5 (by rw [resolve_congr e4] at hc'; exact hc') hres) r
    (by rw [hlive]; exact hlr) (by rw [resolve_congr e4]; exact hres)
  have hfind0 : ([(⟨a, c, false, isNbMode mode, isZeroMode mode, true⟩ : PendR)]).find? (·.aio == a) =
      some ⟨a, c, false, isNbMode mode, isZeroMode mode, true⟩ := by simp
  have hproc : procOuts [.parm r.pipe, .done a 0 (some ⟨[], r.body⟩) false]
      { j0 with waiting := [⟨a, c, false, isNbMode mode, isZeroMode mode, true⟩] } =
      setCur { j0 with held := rest.map heldOf, deliveredBodies := j0.deliveredBodies ++ [r.body],
                       armed := j0.armed ++ [r.pipe] } c (some ⟨r.pipe, r.bt, false⟩) := by
    rw [procOuts_nopipe (by simp [isPipeOut])]
    simp only [List.filter, isDone, Bool.not_true, Bool.not_false, List.foldl_cons, List.foldl_nil, doneStep]
    have := repDone_recv_ok (j := { j0 with waiting := [⟨a, c, false, isNbMode mode, isZeroMode mode, true⟩] })
      (a := a) (mb := false) (h := heldOf r) (rest := rest.map heldOf) hfind0 rfl hheld
    rw [show (heldOf r).body = r.body from rfl] at this
    rw [this, repOut_parm (by simpa using hna)]
    simp [hw0, setCur, heldOf]
  rw [hproc]
  refine post_R ?_ h3k ?_ ?_ rfl (by simp [isPollOut])
  · exact hD
  · simp only [setCur_acc, hacc]; intro x hx; cases hx
  · by_cases hm : isNbMode mode = true
    · right; exact ⟨a, 0, some ⟨[], r.body⟩, false, by simp [hm], by simp⟩
    · left; simp [hm]


theorem recv_sim {s : State} {j : RepJ} {used : List Bytes} (hR : R s j) (h2 : Inv2 s) (h3 : Inv3 s) (h5 : Inv5 s used)
    (c : Option Nat) (a : Nat) (mode : Mode) (hf : AioFree s a)
    (h3' : ∀ k, Inv3 (ctxRecv s k a mode).1) :
    match resolve s c with
    | none => R s (repStep j (.recv c a mode) [.done a Err.eclosed none false])
    | some k => R (ctxRecv s k a mode).1 (repStep j (.recv c a mode) (ctxRecv s k a mode).2) := by
  have hu := R0_unfresh hR.r0
  have hacc : (unfresh j).acc = [] := hR.acc
  have herr := hR.r0.err
  generalize hj0 : unfresh j = j0 at hu hacc
  have hwa := waiting_no_aio hu hf
  have hpre : ∀ outs, repPre j0 (.recv c a mode) outs =
      ({ j0 with waiting := j0.waiting ++ [⟨a, c, j0.waiting.any (·.ctx == c), isNbMode mode, isZeroMode mode, true⟩] },
        if isNbMode mode then some a else none) := by
    intro outs; cases mode <;> rfl
  have hfind : ∀ sec, (j0.waiting ++ [(⟨a, c, sec, isNbMode mode, isZeroMode mode, true⟩ : PendR)]).find? (·.aio == a) =
      some ⟨a, c, sec, isNbMode mode, isZeroMode mode, true⟩ := by
    intro sec
    exact find_snoc_new _ _ _ (by intro y hy; simpa using hwa y hy) (by simp)
  have hfilt : ∀ sec, (j0.waiting ++ [(⟨a, c, sec, isNbMode mode, isZeroMode mode, true⟩ : PendR)]).filter (·.aio != a) =
      j0.waiting := by
    intro sec
    exact filter_snoc_new _ _ _ (by intro y hy; simpa using hwa y hy) (by simp)
  -- an immediately failing receive
  have hfail : ∀ (s' : State) (rv : Nat), s' = s → rv ≠ 0 →
      (j0.waiting.any (·.ctx == c) = false → rv ≠ Err.estate) →
      (j0.waiting.any (·.ctx == c) = true → rv = Err.estate ∨ (isNbMode mode = true ∧ rv = Err.eagain) ∨
          (isZeroMode mode = true ∧ rv = Err.etimedout)) →
      R s' (repStep j (.recv c a mode) [.done a rv none false]) := by
    intro s' rv hs' h0 hns hsec
    subst hs'
    rw [repStep_eq herr rfl, hj0, hpre]
    refine post_R ?_ h3 ?_ ?_ rfl (by simp [isPollOut])
    · rw [procOuts_nopipe (by simp [isPipeOut])]
      simp only [List.filter, isDone, Bool.not_true, List.foldl_cons, List.foldl_nil, doneStep]
      cases hsc : j0.waiting.any (·.ctx == c) with
      | false =>
        rw [repDone_recv_fail (hfind _) rfl h0 (hns hsc)]
        simp only [hfilt]
        exact hu
      | true =>
        rw [repDone_recv_second (hfind _) rfl h0 (hsec hsc)]
        simp only [hfilt]
        exact hu
    · rw [procOuts_nopipe (by simp [isPipeOut])]
      simp only [List.filter, isDone, Bool.not_true, List.foldl_cons, List.foldl_nil, doneStep]
      cases hsc : j0.waiting.any (·.ctx == c) with
      | false =>
        rw [repDone_recv_fail (hfind _) rfl h0 (hns hsc)]
        simp only [hacc]; intro x hx; cases hx
      | true =>
        rw [repDone_recv_second (hfind _) rfl h0 (hsec hsc)]
        simp only [hacc]; intro x hx; cases hx
    · by_cases hm : isNbMode mode = true
      · right; exact ⟨a, rv, none, false, by simp [hm], by simp⟩
      · left; simp [hm]
  cases hres : resolve s c with
  | none =>
    simp only
    have hsec := second_unresolved hu hres
    exact hfail s _ rfl (by simp [Err.eclosed]) (fun _ => by simp [Err.eclosed, Err.estate]) (fun h => by rw [hsec] at h; cases h)
  | some k =>
    simp only
    have hsi := second_iff hu h5 hres
    have h3k := h3' k
    cases hrp0 : s.recvpipes with
    | cons r rest => exact recv_deliver_case hR h2 h3 h5 c a mode hf k r rest hrp0 hres h3k
    | nil =>
    generalize hcr : ctxRecv s k a mode = res at h3k ⊢
    unfold ctxRecv at hcr
    split at hcr
    · rename_i hrp
      split at hcr
      · -- nb
        subst hcr
        refine hfail _ _ rfl (by simp [Err.eagain]) (fun _ => by simp [Err.eagain, Err.estate]) (fun _ => Or.inr (Or.inl ⟨rfl, rfl⟩))
      · subst hcr
        refine hfail _ _ rfl (by simp [Err.etimedout]) (fun _ => by simp [Err.etimedout, Err.estate]) (fun _ => Or.inr (Or.inr ⟨rfl, rfl⟩))
      · split at hcr
        · rename_i hra
          subst hcr
          refine hfail _ _ rfl (by simp [Err.estate]) (fun h => ?_) (fun _ => Or.inl rfl)
          rw [hsi.2 hra] at h; cases h
        · -- park
          rename_i hm1 hm2 hra
          subst hcr
          have hsec : j0.waiting.any (·.ctx == c) = false := by
            cases hh : j0.waiting.any (·.ctx == c) with
            | false => rfl
            | true => exact absurd (hsi.1 hh) hra
          have hnb : isNbMode mode = false := by
            cases mode <;> first | rfl | exact absurd rfl (hm1)
          rw [repStep_eq herr rfl, hj0, hpre]
          simp only [hnb, hsec, Bool.false_eq_true, if_false]
          have hran : (s.ctx k).raio = none := by
            cases hh : (s.ctx k).raio with
            | none => rfl
            | some _ => rw [hh] at hra; exact absurd rfl hra
          refine post_R ?_ h3k ?_ (Or.inl rfl) rfl (by simp [isPollOut])
          · have hp : ∀ j : RepJ, procOuts [] j = j := fun _ => rfl
            rw [hp]
            obtain ⟨a1, b, c1, d, e, f, g⟩ := hu
            refine ⟨a1, b, c1, PipesRel.congr (s := s) d (fun _ => rfl) (fun _ => rfl) (fun _ => rfl) rfl rfl rfl rfl rfl,
              ⟨?_, ?_, ?_, ?_⟩, ?_, g⟩
            · intro r hr
              rcases List.mem_append.1 hr with hr | hr
              · obtain ⟨x, k', pk, hk', y, z⟩ := e.w1 r hr
                refine ⟨x, k', pk, ?_, y, z⟩
                show ((upd s.ctx k _) k').raio = _
                have : k' ≠ k := by intro h; subst h; rw [hran] at hk'; cases hk'
                rw [upd_other _ _ this]; exact hk'
              · simp only [List.mem_singleton] at hr; subst hr
                exact ⟨rfl, k, ⟨a, deadlineOf s.now mode⟩, by show ((upd s.ctx k _) k).raio = _; simp, rfl, hres⟩
            · intro k' pk hk'
              have hk'' : ((upd s.ctx k _) k').raio = some pk := hk'
              by_cases hkk : k' = k
              · subst hkk
                simp only [upd_same] at hk''
                injection hk'' with hk''
                exact ⟨_, List.mem_append.2 (Or.inr (List.mem_singleton.2 rfl)), by rw [← hk'']⟩
              · rw [upd_other _ _ hkk] at hk''
                obtain ⟨r, hr, ha⟩ := e.w2 k' pk hk''
                exact ⟨r, List.mem_append.2 (Or.inl hr), ha⟩
            · exact e.s1
            · exact e.s2
            · refine ⟨?_, f.slots⟩
              intro c' k' hk'
              have := f.cur c' k' hk'
              show CurOK _ ((upd s.ctx k _) k')
              by_cases hkk : k' = k
              · subst hkk; simp only [upd_same]; exact this
              · rw [upd_other _ _ hkk]; exact this
          · have hp : ∀ j : RepJ, procOuts [] j = j := fun _ => rfl
            rw [hp]; simp only [hacc]; intro x hx; cases hx
    · rename_i r rest hrp
      rw [hrp0] at hrp; cases hrp

end Nng.RepProofs
