/-
  RESPONDENT judge simulation, part E: the judge's bookkeeping for a `send` event (`respPre`), case by case.
  Judge-only facts.
-/
import NngModel.Proofs.RespJudgeOut
namespace Nng.SurveySpec
open Nng Nng.Proto

def sendPre (j : RespJ) (k : Option Nat) (a : Nat) (m : WMsg) (zero : Bool) (outs : List Out) : RespJ :=
  let gaveUp := zero && (match doneOf outs a with
    | some (rv, _) => rv == Err.eagain || rv == Err.etimedout
    | none => false)
  if gaveUp then j else
  match j.getCtx k with
  | none => j
  | some c =>
    let busy := j.pendSend.any (·.ctx == k)
    match c.cur, doneOf outs a with
    | none, some (rv, _) => if rv == Err.estate then j else j.fail s!"send {a} with no pending survey completed with {rv}, not NNG_ESTATE"
    | none, none => j.fail s!"send {a} with no pending survey did not fail at once"
    | some (p, h), d =>
      if d == some (Err.estate, none) then
        if busy then j else j.fail s!"send {a} failed with NNG_ESTATE although a survey is pending"
      else
        let j := j.setCtx { c with cur := none }
        let e : Expect := ⟨a, k, p, h, m.body, true⟩
        match d with
        | none => if zero then j.fail s!"non-blocking send {a} did not complete at once" else { j with pendSend := j.pendSend ++ [e] }
        | some (0, _) =>
          if outs.any (fun o => match o with | .psend _ wm => wm.body == m.body | _ => false) then { j with pendSend := j.pendSend ++ [e] }
          else if j.gone.contains p then j
          else j.fail s!"send {a} completed with success but its response never reached pipe {p}"
        | some _ => j

theorem respPre_send (j : RespJ) (k : Option Nat) (a : Nat) (m : WMsg) (mode : Mode) (outs : List Out) :
    respPre j (.send k a m mode) outs = sendPre j k a m (isZeroMode mode) outs := by
  cases mode with
  | nb => rfl
  | inf => rfl
  | dflt => rfl
  | ms n => cases n <;> rfl

theorem sendPre_gaveUp {j : RespJ} {k : Option Nat} {a : Nat} {m : WMsg} {outs : List Out} {rv : Nat} {x : Option WMsg}
    (hd : doneOf outs a = some (rv, x)) (hrv : rv = Err.eagain ∨ rv = Err.etimedout) :
    sendPre j k a m true outs = j := by
  unfold sendPre
  rcases hrv with rfl | rfl <;> simp [hd]

theorem sendPre_noctx {j : RespJ} {k : Option Nat} {a : Nat} {m : WMsg} {outs : List Out}
    (hg : j.getCtx k = none) : sendPre j k a m false outs = j := by
  unfold sendPre
  simp [hg]

theorem sendPre_estate_none {j : RespJ} {k : Option Nat} {a : Nat} {m : WMsg} {outs : List Out} {c : RCtxJ} {x : Option WMsg}
    (hg : j.getCtx k = some c) (hcur : c.cur = none) (hd : doneOf outs a = some (Err.estate, x)) :
    sendPre j k a m false outs = j := by
  unfold sendPre
  simp [hg, hcur, hd]

theorem sendPre_estate_busy {j : RespJ} {k : Option Nat} {a : Nat} {m : WMsg} {outs : List Out} {c : RCtxJ} {p : Nat} {h : Bytes}
    (hg : j.getCtx k = some c) (hcur : c.cur = some (p, h)) (hd : doneOf outs a = some (Err.estate, none))
    (hb : j.pendSend.any (·.ctx == k) = true) :
    sendPre j k a m false outs = j := by
  unfold sendPre
  simp only [Bool.false_and, Bool.false_eq_true, ↓reduceIte, hg, hcur, hd, beq_self_eq_true, hb]

theorem sendPre_gone {j : RespJ} {k : Option Nat} {a : Nat} {m : WMsg} {outs : List Out} {c : RCtxJ} {p : Nat} {h : Bytes}
    (hg : j.getCtx k = some c) (hcur : c.cur = some (p, h)) (hd : doneOf outs a = some (0, none))
    (hn : NoPsend outs m.body) (hgone : p ∈ j.gone) :
    sendPre j k a m false outs = j.setCtx { c with cur := none } := by
  unfold sendPre
  have hne : ((some ((0 : Nat), (none : Option WMsg))) == some (Err.estate, none)) = false := by decide
  have hany : (outs.any (fun o => match o with | .psend _ wm => wm.body == m.body | _ => false)) = false := by
    rw [List.any_eq_false]
    intro o ho
    cases o <;> simp
    rename_i q wm
    exact hn q wm ho
  have hgc : (RespJ.gone (j.setCtx { c with cur := none })).contains p = true := by
    show j.gone.contains p = true
    exact List.contains_iff_mem.2 hgone
  simp only [Bool.false_and, Bool.false_eq_true, ↓reduceIte, hg, hcur, hd, hne, hany, hgc]

theorem sendPre_wire {j : RespJ} {k : Option Nat} {a : Nat} {m : WMsg} {outs : List Out} {c : RCtxJ} {p : Nat} {h : Bytes}
    (hg : j.getCtx k = some c) (hcur : c.cur = some (p, h)) (hd : doneOf outs a = some (0, none))
    {q : Nat} {wm : WMsg} (hw : Out.psend q wm ∈ outs) (hwb : wm.body = m.body) :
    sendPre j k a m false outs =
      { (j.setCtx { c with cur := none }) with pendSend := (j.setCtx { c with cur := none }).pendSend ++ [⟨a, k, p, h, m.body, true⟩] } := by
  unfold sendPre
  have hne : ((some ((0 : Nat), (none : Option WMsg))) == some (Err.estate, none)) = false := by decide
  have hany : (outs.any (fun o => match o with | .psend _ wm => wm.body == m.body | _ => false)) = true := by
    rw [List.any_eq_true]
    exact ⟨_, hw, by simp [hwb]⟩
  simp only [Bool.false_and, Bool.false_eq_true, ↓reduceIte, hg, hcur, hd, hne, hany]

theorem sendPre_park {j : RespJ} {k : Option Nat} {a : Nat} {m : WMsg} {outs : List Out} {c : RCtxJ} {p : Nat} {h : Bytes}
    (hg : j.getCtx k = some c) (hcur : c.cur = some (p, h)) (hd : doneOf outs a = none) :
    sendPre j k a m false outs =
      { (j.setCtx { c with cur := none }) with pendSend := (j.setCtx { c with cur := none }).pendSend ++ [⟨a, k, p, h, m.body, true⟩] } := by
  unfold sendPre
  have hne : ((none : Option (Nat × Option WMsg)) == some (Err.estate, none)) = false := by decide
  simp only [Bool.false_and, Bool.false_eq_true, ↓reduceIte, hg, hcur, hd, hne]

/-- the pollable clause on a `send`: only a non-blocking send on the socket that succeeds can offend -/
theorem pollClause_send {lp : Option (Option Bool × Option Bool)} {k : Option Nat} {a : Nat} {m : WMsg} {mode : Mode}
    {outs : List Out} (h : mode ≠ .nb ∨ ∀ x, doneOf outs a ≠ some (0, x)) :
    pollClause lp (.send k a m mode) outs = none := by
  cases lp with
  | none => rfl
  | some rw =>
    obtain ⟨r, w⟩ := rw
    cases k with
    | some k => cases mode <;> rfl
    | none =>
      cases mode with
      | nb =>
        rcases h with h | h
        · exact absurd rfl h
        · unfold pollClause
          simp only
          cases w with
          | none => rfl
          | some b =>
            cases b with
            | true => rfl
            | false =>
              cases hd : doneOf outs a with
              | none => rfl
              | some y =>
                obtain ⟨rv, x⟩ := y
                have : rv ≠ 0 := by
                  intro e; subst e; exact h x hd
                simp [this]
      | inf => rfl
      | dflt => rfl
      | ms n => rfl

end Nng.SurveySpec
