/- preservation of the device invariant by device_cb / device_cancel / every event -/
import NngModel.Proofs.DeviceInv
namespace Nng.Device
open Nng
set_option linter.unusedSimpArgs false

theorem cbCont_inv (dirs : List Dir) (d : Dev) (i : Nat) (p2 : Path) (hI : Inv dirs d)
    (hi : i < d.paths.length) (hlive : live d.paths[i] = true)
    (hp : PInv p2) (hst : p2.state ≠ .fini) (hs : p2.src = d.paths[i].src) (hd : p2.dst = d.paths[i].dst)
    (hrv : d.rv = 0) :
    Inv dirs { d with paths := d.paths.set i p2 } := by
  have hcl := hI.clean hrv
  refine ⟨?_, ?_, ?_, hI.userRun, hI.once, ?_, ?_, hI.fin, hI.alive⟩
  · show (d.paths.set i p2).map dirOf = dirs
    rw [map_dirOf_set d.paths i p2 hi hs hd]; exact hI.dirsEq
  · intro j h
    show PInv (d.paths.set i p2)[j]
    rw [List.getElem_set]
    by_cases hij : i = j
    · simp [hij, hp]
    · simp only [hij, if_false]; exact hI.pinv j (by simpa using h)
  · show d.running = (d.paths.set i p2).countP live
    rw [List.countP_set hi, hI.run]
    have h2 : live p2 = true := by simp [live, hst]
    have : 0 < d.paths.countP live := List.countP_pos_iff.mpr ⟨d.paths[i], List.getElem_mem hi, hlive⟩
    simp only [hlive, h2, if_true]; omega
  · intro _
    refine ⟨hcl.1, ?_⟩
    intro j h
    show (d.paths.set i p2)[j].state ≠ .fini
    rw [List.getElem_set]
    by_cases hij : i = j
    · simp [hij, hst]
    · simp only [hij, if_false]; exact hcl.2 j (by simpa using h)
  · intro h; exact absurd hrv h

theorem cbFail_set (d : Dev) (i : Nat) (p p1 : Path) (rv : Nat) :
    cbFail { d with paths := d.paths.set i p } i p1 rv = cbFail d i p1 rv := by
  simp [cbFail, List.set_set]

theorem cbFail_inv (dirs : List Dir) (d : Dev) (i : Nat) (p1 : Path) (rv : Nat) (hI : Inv dirs d)
    (hi : i < d.paths.length) (hlive : live d.paths[i] = true)
    (hp : PInv p1) (hst : p1.state = .fini) (hs : p1.src = d.paths[i].src) (hd : p1.dst = d.paths[i].dst)
    (hrv : rv ≠ 0) :
    Inv dirs (cbFail d i p1 rv).1 := by
  have hpos : 0 < d.paths.countP live := List.countP_pos_iff.mpr ⟨d.paths[i], List.getElem_mem hi, hlive⟩
  have huser : d.user = true := hI.userRun.mpr (by rw [hI.run]; exact hpos)
  have hal := hI.alive huser
  have hlen : (abortPaths (some i) rv (d.paths.set i p1)).1.length = d.paths.length := by
    rw [abortPaths_length]; simp
  have hcount : (abortPaths (some i) rv (d.paths.set i p1)).1.countP live = d.paths.countP live - 1 := by
    rw [abortPaths_countP, List.countP_set hi]
    have h2 : live p1 = false := by simp [live, hst]
    simp only [hlive, h2, if_true]; simp
  have hdirs : (abortPaths (some i) rv (d.paths.set i p1)).1.map dirOf = dirs := by
    rw [abortPaths_map_dirOf, map_dirOf_set d.paths i p1 hi hs hd]; exact hI.dirsEq
  have hpinv : ∀ j (h : j < (abortPaths (some i) rv (d.paths.set i p1)).1.length),
      PInv (abortPaths (some i) rv (d.paths.set i p1)).1[j] := by
    intro j h
    apply (abortPaths_same (some i) rv (d.paths.set i p1) j h).2.2.2.1
    rw [List.getElem_set]
    by_cases hij : i = j
    · simp [hij, hp]
    · simp only [hij, if_false]; exact hI.pinv j (by rw [hlen] at h; exact h)
  have hrv' : (if d.rv == 0 then rv else d.rv) ≠ 0 := by
    by_cases h0 : d.rv = 0
    · simp [h0, hrv]
    · simp [h0]
  have hab : ∀ j (h : j < (abortPaths (some i) rv (d.paths.set i p1)).1.length),
      (abortPaths (some i) rv (d.paths.set i p1)).1[j].state ≠ .fini →
      (abortPaths (some i) rv (d.paths.set i p1)).1[j].aborted = true := by
    intro j h hnf
    have hsame := abortPaths_same (some i) rv (d.paths.set i p1) j h
    rw [hsame.1] at hnf
    by_cases hij : i = j
    · exfalso; apply hnf
      have : (d.paths.set i p1)[j]'(by rw [hlen] at h; simpa using h) = p1 := by
        rw [List.getElem_set]; simp [hij]
      rw [this]; exact hst
    · apply hsame.2.2.2.2.1 _ hnf
      simp; exact fun h => hij h.symm
  unfold cbFail
  simp only
  by_cases hz : (d.running - 1 == 0) = true
  · -- the last path: finish
    rw [if_pos hz]
    have hz' : d.running - 1 = 0 := by simpa using hz
    unfold cbFinish deviceClose
    simp only [huser, hal.1, Bool.not_true, if_true, Bool.false_eq_true, if_false]
    have hsock := closeList_eq _ dirs hdirs
    refine ⟨hdirs, hpinv, ?_, ?_, ?_, ?_, ?_, ?_, ?_⟩
    · show d.running - 1 = _
      rw [hcount, hI.run]
    · show false = true ↔ 0 < d.running - 1
      simp [hz']
    · intro h; cases h
    · intro h; exact absurd h hrv'
    · intro _; exact hab
    · intro _
      refine ⟨?_, hrv', rfl, ?_, ?_⟩
      · show d.userDone ++ [if d.rv == 0 then rv else d.rv] = [if d.rv == 0 then rv else d.rv]
        rw [hI.once huser]; rfl
      · show d.closed ++ closeList _ = socketsOf dirs
        rw [hal.2.1, hsock]; rfl
      · show d.reaps + 1 = 1
        rw [hal.2.2]
    · intro h; cases h
  · rw [if_neg hz]
    have hz' : d.running - 1 ≠ 0 := by simpa using hz
    refine ⟨hdirs, hpinv, ?_, ?_, hI.once, ?_, ?_, ?_, hI.alive⟩
    · show d.running - 1 = _
      rw [hcount, hI.run]
    · show d.user = true ↔ 0 < d.running - 1
      simp [huser]; omega
    · intro h; exact absurd h hrv'
    · intro _; exact hab
    · intro h
      have : d.user = false := h
      rw [huser] at this; cases this

theorem deviceCb_inv (dirs : List Dir) (d : Dev) (i : Nat) (p : Path) (hI : Inv dirs d)
    (hi : i < d.paths.length) (hlive : live d.paths[i] = true)
    (hq : CbOK d.rv i d.paths[i] p) :
    Inv dirs (deviceCb { d with paths := d.paths.set i p } i).1 := by
  have hget : ({ d with paths := d.paths.set i p } : Dev).paths[i]? = some p := by simp [hi]
  unfold deviceCb
  simp only [hget]
  by_cases hrv : (cbPath d.rv i p).2.1 = 0
  · have hc := hq.cont hrv
    have hne : ((cbPath d.rv i p).2.1 != 0) = false := by simp [hrv]
    rw [if_neg (by simp [hne])]
    show Inv dirs (cbCont { d with paths := d.paths.set i p } i (cbPath d.rv i p).1).1
    unfold cbCont
    simp only [List.set_set]
    exact cbCont_inv dirs d i _ hI hi hlive hc.2.1 hc.2.2 hq.src.2 hq.dst.2 hc.1
  · have hf := hq.fail hrv
    have hne : ((cbPath d.rv i p).2.1 != 0) = true := by simp [hrv]
    rw [if_pos hne]
    show Inv dirs (cbFail { d with paths := d.paths.set i p } i (cbPath d.rv i p).1 (cbPath d.rv i p).2.1).1
    rw [cbFail_set]
    exact cbFail_inv dirs d i _ _ hI hi hlive hf.2 hf.1 hq.src.1 hq.dst.1 hrv

theorem deviceCancel_inv (dirs : List Dir) (d : Dev) (rv : Nat) (hI : Inv dirs d) (hrv : rv ≠ 0) :
    Inv dirs (deviceCancel d rv).1 := by
  unfold deviceCancel
  by_cases hu : d.user = true
  · rw [if_pos hu]
    have hrv' : (if d.rv == 0 then rv else d.rv) ≠ 0 := by
      by_cases h0 : d.rv = 0
      · simp [h0, hrv]
      · simp [h0]
    refine ⟨?_, ?_, ?_, hI.userRun, hI.once, ?_, ?_, ?_, hI.alive⟩
    · show (abortPaths none rv d.paths).1.map dirOf = dirs
      rw [abortPaths_map_dirOf]; exact hI.dirsEq
    · intro j h
      exact (abortPaths_same none rv d.paths j h).2.2.2.1 (hI.pinv j (by rw [abortPaths_length] at h; exact h))
    · show d.running = (abortPaths none rv d.paths).1.countP live
      rw [abortPaths_countP]; exact hI.run
    · intro h; exact absurd h hrv'
    · intro _ j h hnf
      have hsame := abortPaths_same none rv d.paths j h
      rw [hsame.1] at hnf
      exact hsame.2.2.2.2.1 (by simp) hnf
    · intro h
      have : d.user = false := h
      rw [hu] at this; cases this
  · rw [if_neg hu]; exact hI

theorem step_recv_eq (d : Dev) (i : Nat) (r : Except Nat Msg) :
    step d (.recvDone i r) =
      match d.paths[i]? with
      | some p =>
        if p.state == .recv && okRes r then
          deviceCb { d with paths := d.paths.set i (completeRecv p r) } i
        else (d, [])
      | none => (d, []) := rfl

theorem step_send_eq (d : Dev) (i : Nat) (rv : Nat) :
    step d (.sendDone i rv) =
      match d.paths[i]? with
      | some p =>
        if p.state == .send then deviceCb { d with paths := d.paths.set i (completeSend p rv) } i
        else (d, [])
      | none => (d, []) := rfl

theorem step_cancel_eq (d : Dev) (rv : Nat) :
    step d (.cancel rv) = if rv == 0 then (d, []) else deviceCancel d rv := rfl

theorem step_inv (dirs : List Dir) (d : Dev) (e : DEv) (hI : Inv dirs d) : Inv dirs (step d e).1 := by
  cases e with
  | recvDone i r =>
    rw [step_recv_eq]
    cases hp : d.paths[i]? with
    | none => exact hI
    | some p =>
      simp only
      have hi : i < d.paths.length := by
        rcases List.getElem?_eq_some_iff.mp hp with ⟨h, _⟩; exact h
      have hpe : d.paths[i] = p := by
        rcases List.getElem?_eq_some_iff.mp hp with ⟨_, h⟩; exact h
      by_cases hc : (p.state == .recv && okRes r) = true
      · rw [if_pos hc]
        have hs : p.state = .recv := by
          have := (Bool.and_eq_true _ _).mp hc
          simpa using this.1
        have hr : okRes r = true := ((Bool.and_eq_true _ _).mp hc).2
        apply deviceCb_inv dirs d i _ hI hi
        · rw [hpe]; simp [live, hs]
        · rw [hpe]; exact cbOK_recv d.rv i p r (hpe ▸ hI.pinv i hi) hs hr
      · rw [if_neg hc]; exact hI
  | sendDone i rv =>
    rw [step_send_eq]
    cases hp : d.paths[i]? with
    | none => exact hI
    | some p =>
      simp only
      have hi : i < d.paths.length := by
        rcases List.getElem?_eq_some_iff.mp hp with ⟨h, _⟩; exact h
      have hpe : d.paths[i] = p := by
        rcases List.getElem?_eq_some_iff.mp hp with ⟨_, h⟩; exact h
      by_cases hc : (p.state == .send) = true
      · rw [if_pos hc]
        have hs : p.state = .send := by simpa using hc
        apply deviceCb_inv dirs d i _ hI hi
        · rw [hpe]; simp [live, hs]
        · rw [hpe]; exact cbOK_send d.rv i p rv (hpe ▸ hI.pinv i hi) hs
      · rw [if_neg hc]; exact hI
  | cancel rv =>
    rw [step_cancel_eq]
    by_cases h0 : (rv == 0) = true
    · rw [if_pos h0]; exact hI
    · rw [if_neg h0]
      exact deviceCancel_inv dirs d rv hI (by simpa using h0)

theorem started_inv (dirs : List Dir) (hne : dirs ≠ []) : Inv dirs (started dirs) := by
  have hcount : ∀ ds : List Dir,
      (ds.map fun x => ({ state := .recv, src := x.src, dst := x.dst } : Path)).countP live = ds.length := by
    intro ds
    induction ds with
    | nil => rfl
    | cons x xs ih => simp [List.countP_cons, live, ih]
  refine ⟨?_, ?_, ?_, ?_, ?_, ?_, ?_, ?_, ?_⟩
  · simp [started, dirOf, Function.comp_def]
  · intro j h
    simp only [started, List.getElem_map]
    refine ⟨?_, ?_, ?_, ?_, ?_, ?_⟩ <;> simp
  · exact (hcount dirs).symm
  · show true = true ↔ 0 < dirs.length
    simp; exact List.length_pos_iff.mpr hne
  · intro _; rfl
  · intro _
    refine ⟨rfl, ?_⟩
    intro j h
    simp [started]
  · intro h; exact absurd rfl h
  · intro h; cases h
  · intro _; exact ⟨rfl, rfl, rfl⟩

theorem run_inv (dirs : List Dir) (evs : List DEv) : ∀ d, Inv dirs d → Inv dirs (run d evs).1 := by
  induction evs with
  | nil => intro d h; exact h
  | cons e es ih => intro d h; exact ih _ (step_inv dirs d e h)

end Nng.Device
