/- relation preservation: the call and the return of a start function -/
import NngModel.Proofs.AioJudgeRel
namespace Nng.Aio
open Nng.AioSpec

variable {s s' : State} {g : G} {j : J} {k : Nat}

set_option maxHeartbeats 1000000 in
theorem rel_subCall (kd : Kind) (f : Bool) (hR : R k s g j) (i1 : Inv1 s) (i2 : Inv2 s) (i3 : Inv3 s) (i4 : Inv4 s)
    (hc : okL s g (.subCall kd f) = true) (hs : step Cfg.fixed s (.subCall kd f) = some s') :
    R k s' (gStep s g (.subCall kd f)) (judgeFrom j (obsX s g (.subCall kd f))) := by
  simp only [obsX, obsOf, obsExtra, gStep, judgeFrom, List.append_nil, List.foldl,
    jstep_subCall hR.base.err hR.base.nfree]
  simp only [okL, Bool.and_eq_true, List.isEmpty_iff] at hc
  obtain ⟨hc1, hc2⟩ := hc
  step_cases hs
  rename_i hi
  obtain ⟨a1,a2,a3,a4,a5,a6,a7,a8,a9,a10⟩ :=
    idle_facts i1 (by simp only [Bool.and_eq_true] at hi; exact hi.1.1.1.1)
  have hp : pend s = 0 := pend_nil hc1
  r_open hR
  have hst : s.starts = s.reported + s.skips := by
    simp only [idle, Bool.and_eq_true, beq_iff_eq] at hi; exact hi.1.1.1.1.2
  have hnu : ¬ unrep s := by simp only [unrep, hp]; omega
  refine ⟨?_, ?_, ?_⟩
  · rb_close
  · intro o ho
    simp only [List.head?_cons, Option.some.injEq] at ho
    subst ho
    constructor <;> (try dsimp only [newOp]) <;>
      grind [b2n, unrep, pend, Refusal, DLrel, timeoutDue, isDirect]
  · intro x hx
    simp only [List.tail_cons] at hx
    cases hj : j.ops with
    | nil => simp [hj] at hx
    | cons o r =>
      rw [hj] at hx
      rcases List.mem_cons.mp hx with h | h
      · subst h
        exact (hh x (by simp [hj])).rep1 hnu
      · exact ht x (by simp [hj, h])

set_option maxHeartbeats 2000000 in
theorem rel_subRet (b : Bool) (v : Nat) (hR : R k s g j) (i1 : Inv1 s) (i2 : Inv2 s) (i3 : Inv3 s) (i4 : Inv4 s)
    (hs : step Cfg.fixed s (.subRet b v) = some s') :
    R k s' (gStep s g (.subRet b v)) (judgeFrom j (obsX s g (.subRet b v))) := by
  simp only [obsX, obsOf, obsExtra, gStep, judgeFrom, List.append_nil, List.foldl]
  step_cases hs
  rename_i hm
  have hmem : (b, v) ∈ s.subRets := by simpa using hm
  have hone := i4.retsOne _ hmem
  have hne : s.subRets ≠ [] := by rw [hone]; simp
  have hpc := i4.retsPc hne
  have hkind := i4.retsKind b v hmem
  obtain ⟨o, ho⟩ := head_exists hR (i4.retsStarts hne)
  have hk := (hR.head o ho).kind
  have herase : s.subRets.erase (b, v) = [] := by rw [hone]; simp
  have hz : v = 0 → s.opTok = false := fun h => i4.retsZero b (h ▸ hmem)
  simp only [herase]
  by_cases hd : isDirect s.subKind = true
  · have hb : b = false := by rw [hkind, hd]; rfl
    subst hb
    by_cases hv : v = 1
    · subst hv
      have hsk := i4.retsSkip hmem
      have hp : pend s = 1 := by simp [pend, hmem]
      have hr : j.reports + 1 = j.ops.length := by
        have := hR.base.rep; have := hR.base.len; omega
      rw [jstep_subRet_skip hR.base.err hR.base.nfree o ho (by rw [hk]; exact hd) hr]
      r_open hR
      refine ⟨?_, ?_, ?_⟩
      · rb_try
      · intro o' ho'
        rw [updNewest_head, ho] at ho'
        simp only [Option.map_some, Option.some.injEq] at ho'
        subst ho'
        rcases hh o ho with ⟨r1,r2,r3,r4,r5,r6,r7,r8,r9,r10,r11,r12,r13,r14,r15,r16,r17,r18,r19,r20,r21,r22⟩
        constructor <;> (try dsimp only [fRet]) <;>
          (first | grind [b2n, unrep, pend, Refusal, DLrel, timeoutDue, isDirect] | skip)
      · intro x hx; rw [updNewest_tail] at hx; exact ht x hx
    · have hp : pend s = 0 := by
        simp only [pend, hone, List.mem_singleton, Prod.mk.injEq]
        rw [if_neg]; intro h; exact hv h.2.symm
      rw [jstep_subRet_direct hR.base.err hR.base.nfree v o ho (by rw [hk]; exact hd) hv]
      r_open hR
      refine ⟨?_, ?_, ?_⟩
      · rb_try
      · intro o' ho'
        rw [updNewest_head, ho] at ho'
        simp only [Option.map_some, Option.some.injEq] at ho'
        subst ho'
        rcases hh o ho with ⟨r1,r2,r3,r4,r5,r6,r7,r8,r9,r10,r11,r12,r13,r14,r15,r16,r17,r18,r19,r20,r21,r22⟩
        constructor <;> (try dsimp only [fRet]) <;>
          (first | grind [b2n, unrep, pend, Refusal, DLrel, timeoutDue, isDirect] | skip)
      · intro x hx; rw [updNewest_tail] at hx; exact ht x hx
  · have hd' : isDirect s.subKind = false := by simpa using hd
    have hb : b = true := by rw [hkind, hd']; rfl
    subst hb
    have hp : pend s = 0 := by
      simp only [pend, hone, List.mem_singleton, Prod.mk.injEq]
      rw [if_neg]; intro h; cases h.1
    rw [jstep_subRet_other hR.base.err hR.base.nfree v o ho (by rw [hk]; exact hd')]
    r_open hR
    refine ⟨?_, ?_, ?_⟩
    · rb_try
    · intro o' ho'
      rw [updNewest_head, ho] at ho'
      simp only [Option.map_some, Option.some.injEq] at ho'
      subst ho'
      rcases hh o ho with ⟨r1,r2,r3,r4,r5,r6,r7,r8,r9,r10,r11,r12,r13,r14,r15,r16,r17,r18,r19,r20,r21,r22⟩
      constructor <;> (try dsimp only [fRet]) <;>
        (first | grind [b2n, unrep, pend, Refusal, DLrel, timeoutDue, isDirect] | skip)
    · intro x hx; rw [updNewest_tail] at hx; exact ht x hx

end Nng.Aio
