/-
  Simulation (13): the resend timer (req0_retry_cb), the judge's rule for overdue requests, and the whole
  `advance` event.
-/
import NngModel.Proofs.ReqJudgeEvL
namespace Nng.ReqJ
open Nng Nng.Proto Nng.Req Nng.ReqSpec

theorem retryPrep_fields (s0 : State) :
    let s' := retryPrep s0
    s'.ctx = s0.ctx ∧ s'.pipe = s0.pipe ∧ s'.alias = s0.alias ∧ s'.msgs = s0.msgs ∧ s'.now = s0.now ∧ s'.nalloc = s0.nalloc ∧
    s'.npipes = s0.npipes ∧ s'.readyPipes = s0.readyPipes ∧ s'.opened = s0.opened ∧ s'.gone = s0.gone ∧ s'.sClosed = s0.sClosed ∧
    s'.retryTick = s0.retryTick ∧ s'.sockRetry = s0.sockRetry ∧
    (∀ x, x ∈ s'.sendQueue ↔ (x ∈ s0.sendQueue ∨ (x ∈ s0.retryQueue ∧ retryDue s0 x = true))) ∧
    (s0.retryQueue ≠ [] →
      ((s0.retryTick < 0 ∧ s'.tickAt = none ∧ s'.tickNever = true) ∨
       (0 ≤ s0.retryTick ∧ s'.tickAt = some (s0.now + s0.retryTick.toNat) ∧ s'.tickNever = false))) ∧
    (s0.retryQueue = [] → s'.tickAt = s0.tickAt ∧ s'.tickNever = s0.tickNever) := by
  have hmem : ∀ x, x ∈ s0.sendQueue ++ (s0.retryQueue.filter (retryDue s0)).filter (fun k => !s0.sendQueue.contains k) ↔
      (x ∈ s0.sendQueue ∨ (x ∈ s0.retryQueue ∧ retryDue s0 x = true)) := by
    intro x
    rw [List.mem_append, List.mem_filter, List.mem_filter]
    by_cases hx : x ∈ s0.sendQueue
    · simp [hx]
    · simp [hx]
  unfold retryPrep armTick
  dsimp only
  cases hq : s0.retryQueue with
  | nil =>
    rw [if_neg (by simp)]
    rw [hq] at hmem
    exact ⟨rfl, rfl, rfl, rfl, rfl, rfl, rfl, rfl, rfl, rfl, rfl, rfl, rfl, hmem, fun h => absurd rfl h, fun _ => ⟨rfl, rfl⟩⟩
  | cons y ys =>
    rw [if_pos (by simp)]
    rw [hq] at hmem
    by_cases ht : s0.retryTick < 0
    · rw [if_pos ht]
      exact ⟨rfl, rfl, rfl, rfl, rfl, rfl, rfl, rfl, rfl, rfl, rfl, rfl, rfl, hmem, fun _ => Or.inl ⟨ht, rfl, rfl⟩,
        fun h => by cases h⟩
    · rw [if_neg ht]
      exact ⟨rfl, rfl, rfl, rfl, rfl, rfl, rfl, rfl, rfl, rfl, rfl, rfl, rfl, hmem, fun _ => Or.inr ⟨by omega, rfl, rfl⟩,
        fun h => by cases h⟩

/-- the resend timer fired: the due contexts join the send queue, the timer is armed again -/
theorem retryPrep_R {rest : List Ev} {s : State} {j : J} (hM : R rest s j) (hI : Inv2 none none s) (T : Nat)
    (hT : s.tickAt = some T) : R rest (retryPrep { s with tickAt := none }) j := by
  obtain ⟨e1, e2, e3, e4, e5, e6, e7, e8, e9, e10, e11, e12, e13, hsq, harm, hno⟩ := retryPrep_fields { s with tickAt := none }
  dsimp only at e1 e2 e3 e4 e5 e6 e7 e8 e9 e10 e11 e12 e13 hsq harm hno
  generalize retryPrep { s with tickAt := none } = s' at *
  have hm := hM.mi
  have hg := hM.g
  have hlv : ∀ x, LiveH s' x ↔ LiveH s x := by
    intro x; unfold LiveH; rw [e1, e3]
  have hany : j.anySend = true := by
    cases h : j.anySend with
    | true => rfl
    | false => have := (hg.nosend h).2.1; rw [hT] at this; cases this
  refine ⟨?_, ?_, fun x hx => ?_, fun x hx => by cases hx⟩
  · constructor
    · rw [e1]; exact hm.biglive
    · rw [e1]; exact hm.dead
    · unfold aioOf; rw [e1]; exact hm.park
    · rw [e1]; exact hm.creset
    · rw [e1]; exact hm.rep
    · rw [e1, e2]; exact hm.onp
    · rw [e1, e3]; exact hm.wir
    · rw [e1]; intro k h hr hw
      obtain ⟨a, b, c⟩ := hm.unw k h hr hw
      exact ⟨a, (hsq k).2 (Or.inl b), c⟩
    · rw [e1]; exact hm.sa
    · rw [e1]; exact hm.rid
    · rw [e3]; exact hm.al_nodup
    · rw [e3, e6]; exact hm.al_le
    · intro h hl; rw [e4]; exact hm.fresh h ((hlv h).1 hl)
    · intro h1 h2 l1 l2; rw [e4]; exact hm.inj h1 h2 ((hlv h1).1 l1) ((hlv h2).1 l2)
    · rw [e6]; exact hm.bound
    · rw [e9]; exact hm.open_
    · rw [e10]; exact hm.notgone
    · rw [e11]; exact hm.notclosed
  · constructor
    · rw [e5]; exact hg.now
    · rw [e8]; exact hg.idle
    · rw [e2, e7]; exact hg.busy
    · rw [e13]; exact hg.sock
    · exact hg.closed
    · rw [e3, e4]; exact hg.seen
    · rw [e12]; exact hg.tick
    · intro hs T' hT'
      rw [e5]
      by_cases hq : s.retryQueue = []
      · rw [(hno hq).1] at hT'; cases hT'
      · rcases harm hq with ⟨_, a, _⟩ | ⟨_, a, _⟩
        · rw [a] at hT'; cases hT'
        · rw [a] at hT'; simp only [Option.some.injEq] at hT'
          rw [← hT', hg.tick]; exact Nat.le_refl _
    · intro hs ht
      by_cases hq : s.retryQueue = []
      · rw [(hno hq).2]; exact hg.tknv hs ht
      · rcases harm hq with ⟨a, _, _⟩ | ⟨_, _, a⟩
        · have : (0 : Int) < s.retryTick := by rw [← hg.tick]; exact ht
          have a' : s.retryTick < 0 := a
          omega
        · exact a
    · intro h; rw [hany] at h; cases h
    · exact hg.stab
  · have h0 := hM.rc x hx
    refine ⟨by rw [e1]; exact h0.opened, by rw [e1]; exact h0.retry, by rw [e1]; exact h0.rw, by rw [e1]; exact h0.stash,
      by rw [e1]; exact h0.latched, by rw [e1]; exact h0.none, by rw [e1]; exact h0.ansd, ?_⟩
    rw [e1]
    intro h hq
    obtain ⟨r, hr, b⟩ := h0.req h hq
    refine ⟨r, hr, ?_⟩
    have hqs : (s.ctx x).reqMsg.isSome = true := by rw [hq]; rfl
    constructor
    · exact b.ans
    · rw [e4]; exact b.body
    · rw [e1]; exact b.wired
    · rw [e1]; exact b.unsent
    · rw [e1, e3]; exact b.id
    · rw [e1, e2, e7]; exact b.lp
    · rw [e1]; exact b.cnt
    · rw [e1]; exact b.ever
    · rw [e1]; exact b.dl
    · rw [e1]; exact b.clean
    · intro hn; exact (hsq x).2 (Or.inl (b.need hn))
    · rw [e1, e5]
      intro hin hw hn d hd
      rcases (hsq x).1 hin with a | ⟨_, a⟩
      · exact b.early a hw hn d hd
      · have hd' := b.dl d hd
        unfold retryDue at a
        simp only [Bool.and_eq_true, Bool.not_eq_true', decide_eq_false_iff_not] at a
        have : ¬ (s.ctx x).retryTime > s.now := a.1
        omega
    · rw [e1]
      intro hs ht hw hcl hre d hd
      -- the context is on the retry list
      have hras : (s.ctx x).retryAtSend = (s.ctx x).retry := b.clean hcl
      have hrq : x ∈ s.retryQueue := hI.rq_place x (by simp) hqs (show 0 < (s.ctx x).retryAtSend by rw [hras]; exact hre)
      have hne : s.retryQueue ≠ [] := fun e => by rw [e] at hrq; cases hrq
      have hdl := b.dl d hd
      by_cases hdue : d ≤ s.now
      · right; left
        refine (hsq x).2 (Or.inr ⟨hrq, ?_⟩)
        unfold retryDue
        simp only [Bool.and_eq_true, Bool.not_eq_true', decide_eq_false_iff_not]
        exact ⟨by show ¬ (s.ctx x).retryTime > s.now; omega, hqs⟩
      · right; right
        rcases harm hne with ⟨a, _, _⟩ | ⟨_, a, _⟩
        · have : (0 : Int) < s.retryTick := by rw [← hg.tick]; exact ht
          have a' : s.retryTick < 0 := a
          omega
        · refine ⟨_, a, ?_⟩
          show s.now + s.retryTick.toNat ≤ d + j.tick.toNat
          rw [hg.tick]; omega

/-- the judge's rule for overdue requests asks nothing the model has not done -/
theorem overdue_R {rest : List Ev} {s : State} {j : J} (ms : Nat) (hM : R rest s j)
    (hge : ∀ T, s.tickAt = some T → s.now ≤ T) : R rest s (phOver (.advance ms) j) := by
  unfold phOver
  dsimp only
  split
  · rename_i hcond
    simp only [Bool.and_eq_true, decide_eq_true_eq] at hcond
    rw [overdueAll_eq]
    refine ⟨hM.mi, ⟨hM.g.now, hM.g.idle, hM.g.busy, hM.g.sock, hM.g.closed, hM.g.seen, hM.g.tick, hM.g.tkle, hM.g.tknv,
      hM.g.nosend, hM.g.stab⟩, fun x hx => ?_, fun x hx => by cases hx⟩
    have h0 := hM.rc x hx
    have hfr : RCx s { j with ctx := fun x => if x ∈ keys then overC j.now j.tick (j.ctx x) else j.ctx x } x (j.ctx x) :=
      RCx.frame (s := s) (j := j) rfl (fun _ _ => rfl) (fun _ _ _ hi => hi) (Nat.le_refl _) (fun _ => Iff.rfl)
        (fun _ _ hq => hq) Iff.rfl (Nat.le_refl _) (Or.inl rfl) rfl rfl h0
    show RCx s _ x (if x ∈ keys then overC j.now j.tick (j.ctx x) else j.ctx x)
    split
    · unfold overC
      cases hr : (j.ctx x).req with
      | none => simp only; exact hfr
      | some r =>
        cases hd : r.deadline with
        | none => simp only [hd]; exact hfr
        | some d =>
          simp only [hd]
          split
          · rename_i hc
            simp only [Bool.and_eq_true, Bool.not_eq_true', decide_eq_true_eq] at hc
            obtain ⟨⟨⟨⟨⟨hw, ha⟩, hcl⟩, hts⟩, hre⟩, hnow⟩ := hc
            obtain ⟨h, hq, b⟩ := h0.held hr ha
            have hlive : (s.ctx x).live = true := by
              cases hl : (s.ctx x).live with
              | true => rfl
              | false => have := (hM.mi.dead x hl).2.2.1; rw [hq] at this; cases this
            have hcw : (s.ctx x).wired = true := by rw [← b.wired]; exact hw
            have hin : x ∈ s.sendQueue := by
              rcases b.over hcond.1 hcond.2 hcw hcl (by rw [← h0.retry hlive]; exact hre) d hd with a | a | ⟨T, hT, hle⟩
              · rw [hts] at a; cases a
              · exact a
              · have := hge T hT
                rw [hM.g.now] at hnow
                omega
            refine ⟨hfr.opened, hfr.retry, hfr.rw, hfr.stash, hfr.latched, ?_, ?_, ?_⟩
            · intro a1 _; rw [hq] at a1; cases a1
            · intro a1
              have := (hM.mi.rep x a1).1
              rw [hq] at this; cases this
            · intro h' hq'
              have : h' = h := by rw [hq] at hq'; cases hq'; rfl
              subst this
              refine ⟨_, rfl, ?_⟩
              exact ⟨b.ans, b.body, b.wired, b.unsent, b.id, b.lp, b.cnt, b.ever,
                (fun d1 h1 => by cases h1; exact b.dl d hd), b.clean, fun _ => hin,
                (fun _ _ a1 => by cases a1),
                (fun a1 a2 a3 a4 a5 d1 h1 => by cases h1; exact b.over a1 a2 a3 a4 a5 d hd)⟩
          · exact hfr
    · exact hfr
  · exact hM

theorem phA_now (e : Option Nat) (l : List Out) (j : J) : (phA e l j).now = j.now := by
  induction l generalizing j with
  | nil => rfl
  | cons x t ih =>
    rw [phA_cons, ih]
    unfold phAf
    split
    · split
      · exact oldDone_now _ _ _
      · rfl
    · rfl

/-- the judge's step for `advance`: timeouts of parked operations, then the output of the resend timer -/
theorem step_advance (j : J) (ms : Nat) (o1 o2 : List Out) (hc : j.closed = false)
    (h1 : ∀ x, x ∈ o1 → isDn x = true) (h19 : ∀ x, x ∈ o1 → ∀ a mb, x ≠ .done a Err.econnreset none mb)
    (h2 : ∀ x, x ∈ o2 → isTx x = true) :
    ReqSpec.step j (.advance ms) (o1 ++ o2) =
      quiescent (phOver (.advance ms) (psF o2 { phA none o1 j with now := j.now + ms })) := by
  have hcl2 : ∀ x, x ∈ o2 → isCl x = true := fun x hx => isCl_of_isTx (h2 x hx)
  rw [step_eq]
  have hne : notExecuted (o1 ++ o2) = false := by
    unfold notExecuted
    rw [List.any_append]
    have a := notExecuted_dn h1
    have b := notExecuted_cl hcl2
    unfold notExecuted at a b
    rw [a, b]; rfl
  have hA : phA none (o1 ++ o2) j = phA none o1 j := by rw [phA_append, phA_cl hcl2]
  rw [hne]
  simp only [hc, Bool.false_eq_true, if_false, evAioOf, hA, phEv, phRest]
  have hcl : (phA none o1 j).closed = false := by rw [phA_closed, hc]
  simp only [hcl, Bool.false_eq_true, if_false]
  have g1 : ∀ jx, phPipe (o1 ++ o2) jx = jx := by
    intro jx; rw [phPipe_eq, phPipeF_append, phPipeF_dn h1, phPipeF_cl hcl2]
  have g2 : ∀ jx, phClosed (o1 ++ o2) false (o1 ++ o2) jx = jx := by
    intro jx; rw [phClosed_append, phClosed_dn h1, phClosed_cl hcl2]
  have g3 : ∀ jx, phReset none false (o1 ++ o2) jx = jx := by
    intro jx; rw [phReset_append, phReset_ne none false o1 jx h19, phReset_tx h2]
  have g4 : ∀ jx, psF (o1 ++ o2) jx = psF o2 jx := by
    intro jx; rw [psF_app, psF_dn h1]
  have g5 : ∀ ex jx, phDone (.advance ms) none ex (o1 ++ o2) jx = jx := by
    intro ex jx; rw [phDone_append, phDone_dn h1, phDone_cl hcl2]
  have g6 : ∀ jx, phPoll (o1 ++ o2) jx = jx := by
    intro jx; rw [phPoll_append, phPoll_dn h1, phPoll_cl hcl2]
  have g7 : ∀ jx, phBlocked (o1 ++ o2) jx = jx := by
    intro jx
    apply phBlocked_of
    intro x hx ms' e
    subst e
    rcases List.mem_append.1 hx with hx | hx
    · have := h1 _ hx; simp [isDn] at this
    · have := h2 _ hx; simp [isTx] at this
  rw [g1, g2, g3, g4, g5, g6, g7, phA_now]

theorem sendOne_tick_now (s : State) (k p : Nat) :
    (sendOne s k p).1.tickAt = s.tickAt ∧ (sendOne s k p).1.now = s.now := by
  unfold sendOne
  dsimp only
  split
  · unfold flag sendPrep; dsimp only; (repeat' split) <;> exact ⟨rfl, rfl⟩
  · unfold wireIndex tranClone flag sendPrep
    simp only [setPipe, setCtx, setMsg]
    (repeat' split) <;> exact ⟨rfl, rfl⟩

theorem runQ_tick_now (fuel : Nat) (s : State) : (runQ fuel s).1.tickAt = s.tickAt ∧ (runQ fuel s).1.now = s.now := by
  induction fuel generalizing s with
  | zero => exact ⟨rfl, rfl⟩
  | succ n ih =>
    unfold runQ
    split
    · rename_i k _ p _ _ _
      dsimp only
      have a := ih (sendOne s k p).1
      have b := sendOne_tick_now s k p
      exact ⟨a.1.trans b.1, a.2.trans b.2⟩
    · exact ⟨rfl, rfl⟩

theorem phA_err (e : Option Nat) (l : List Out) (j : J) : (phA e l j).err04 = j.err04 ∧ (phA e l j).err12 = j.err12 := by
  induction l generalizing j with
  | nil => exact ⟨rfl, rfl⟩
  | cons x t ih =>
    rw [phA_cons]
    have h := ih (phAf e j x)
    have : (phAf e j x).err04 = j.err04 ∧ (phAf e j x).err12 = j.err12 := by
      unfold phAf
      split
      · split
        · rw [oldDone_eq]; exact ⟨rfl, rfl⟩
        · exact ⟨rfl, rfl⟩
      · exact ⟨rfl, rfl⟩
    exact ⟨h.1.trans this.1, h.2.trans this.2⟩

theorem phOver_err (ev : Ev) (j : J) : (phOver ev j).err04 = j.err04 ∧ (phOver ev j).err12 = j.err12 := by
  unfold phOver
  split
  · split
    · rw [overdueAll_eq]; exact ⟨rfl, rfl⟩
    · exact ⟨rfl, rfl⟩
  · exact ⟨rfl, rfl⟩

theorem sim_advance {rest : List Ev} {s : State} {j : J} (ms : Nat) (hM : R (.advance ms :: rest) s j)
    (hI : Inv2 none none s) (hD : Dr s) :
    Sim rest (advance s ms).1 j (ReqSpec.step j (.advance ms) (advance s ms).2) (.advance ms) := by
  have hDf := dr_advance s ms hD
  have hM0 := time_R ms hM.weaken
  have hI0 : Inv2 none none { s with now := s.now + ms } := hI
  have hD0 : Dr { s with now := s.now + ms } := hD
  obtain ⟨o1, e1, hR1, hI1, hD1, hK1⟩ := expireAll_sim (rest := rest) ctxKeys { s with now := s.now + ms }
    { j with now := j.now + ms } [] hM0 hI0 hD0
  unfold advance at hDf ⊢
  dsimp only at hDf ⊢
  unfold foldSteps at hDf ⊢
  rw [List.nil_append] at e1
  generalize hfs : (ctxKeys.foldl (fun (acc : State × List Out) k => let (s', o) := expireOne acc.1 k; (s', acc.2 ++ o))
    ({ s with now := s.now + ms }, [])) = fs at *
  obtain ⟨s1, o1'⟩ := fs
  dsimp only at e1 hR1 hI1 hD1 hK1 hDf ⊢
  subst e1
  rw [phA_setNow] at hR1
  have herr : ∀ o2 : List Out, ∀ jx, jx = psF o2 { phA none o1' j with now := j.now + ms } →
      (psF o2 { phA none o1' j with now := j.now + ms }).err04 = j.err04 →
      (psF o2 { phA none o1' j with now := j.now + ms }).err12 = j.err12 →
      (phOver (.advance ms) jx).err04 = j.err04 ∧ (phOver (.advance ms) jx).err12 = j.err12 := by
    intro o2 jx e a b
    subst e
    exact ⟨(phOver_err _ _).1.trans a, (phOver_err _ _).2.trans b⟩
  have hbase : ({ phA none o1' j with now := j.now + ms } : J).err04 = j.err04 ∧
      ({ phA none o1' j with now := j.now + ms } : J).err12 = j.err12 := phA_err none o1' j
  have hnotimer : ∀ (hge : ∀ T, s1.tickAt = some T → s1.now ≤ T),
      Sim rest s1 j (ReqSpec.step j (.advance ms) o1') (.advance ms) := by
    intro hge
    have := step_advance j ms o1' [] hM.g.closed hK1.dn hK1.no19 (fun x hx => by cases hx)
    rw [List.append_nil] at this
    rw [this]
    have hR2 : R rest s1 (phOver (.advance ms) (psF [] { phA none o1' j with now := j.now + ms })) := overdue_R ms hR1 hge
    rw [quiescent_R hR2 hD1]
    have he := herr [] _ rfl hbase.1 hbase.2
    exact ⟨hR2, he.1, fun _ => he.2⟩
  cases hT : s1.tickAt with
  | none =>
    dsimp only
    exact hnotimer (fun T h => by rw [hT] at h; cases h)
  | some d =>
    dsimp only
    rw [hT] at hDf
    dsimp only at hDf
    split
    · -- the resend timer fires
      rename_i hlt
      rw [if_pos hlt] at hDf
      have hRp := retryPrep_R hR1 hI1 d hT
      have hIp := inv2_retryPrep none hI1
      obtain ⟨f1, f2, f3, f4, f5, f6, f7, f8, f9, f10, f11, f12, f13, fsq, farm, fno⟩ := retryPrep_fields { s1 with tickAt := none }
      dsimp only at f5 farm fno
      have hgeP : ∀ T, (retryPrep { s1 with tickAt := none }).tickAt = some T → (retryPrep { s1 with tickAt := none }).now ≤ T := by
        intro T hTT
        rw [f5]
        by_cases hq : s1.retryQueue = []
        · rw [(fno hq).1] at hTT; cases hTT
        · rcases farm hq with ⟨_, a, _⟩ | ⟨_, a, _⟩
          · rw [a] at hTT; cases hTT
          · rw [a] at hTT; simp only [Option.some.injEq] at hTT; omega
      unfold retryCb at hDf ⊢
      rw [if_neg (by simp [hR1.mi.notclosed])] at hDf ⊢
      split
      · rename_i hdue
        rw [if_pos hdue] at hDf
        obtain ⟨hfin, he04, he12⟩ := runSendQueue_M hIp hRp (Or.inr (fun _ h => by cases h))
        have htn := runQ_tick_now (retryPrep { s1 with tickAt := none }).sendQueue.length (retryPrep { s1 with tickAt := none })
        generalize hq : runSendQueue (retryPrep { s1 with tickAt := none }) = q at hfin he04 he12 hDf ⊢
        have htx : ∀ x, x ∈ q.2 → isTx x = true := by rw [← hq]; exact runSendQueue_tx _
        have hgeq : ∀ T, q.1.tickAt = some T → q.1.now ≤ T := by
          rw [← hq]; unfold runSendQueue
          intro T hTT
          rw [htn.1] at hTT; rw [htn.2]; exact hgeP T hTT
        dsimp only
        rw [step_advance j ms o1' q.2 hM.g.closed hK1.dn hK1.no19 htx]
        have hR2 := overdue_R ms hfin hgeq
        rw [quiescent_R hR2 hDf]
        have he := herr q.2 _ rfl (he04.trans hbase.1) (he12.trans hbase.2)
        exact ⟨hR2, he.1, fun _ => he.2⟩
      · rename_i hdue
        rw [if_neg hdue] at hDf
        dsimp only
        rw [step_advance j ms o1' [] hM.g.closed hK1.dn hK1.no19 (fun x hx => by cases hx)]
        have hR2 := overdue_R ms (j := psF [] { phA none o1' j with now := j.now + ms }) hRp hgeP
        rw [quiescent_R hR2 hDf]
        have he := herr [] _ rfl hbase.1 hbase.2
        exact ⟨hR2, he.1, fun _ => he.2⟩
    · rename_i hlt
      exact hnotimer (fun T h => by rw [hT] at h; cases h; omega)

end Nng.ReqJ
