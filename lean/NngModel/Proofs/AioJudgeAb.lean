/- relation preservation: nng_aio_abort — the call, its critical section, the invocation of the
   cancel function it took (also for nni_aio_close), its return -/
import NngModel.Proofs.AioJudgeRel
namespace Nng.Aio
open Nng.AioSpec

variable {s s' : State} {g : G} {j : J} {k : Nat}

/-- the monitor sees the return of an `nng_aio_abort` call that has done its work -/
theorem rel_abortRet (hR : R (k + 1) s g j) : R k s g (AioSpec.step j .abortRet) := by
  rw [jstep_abortRet hR.base.err hR.base.nfree]
  rcases hR with ⟨⟨b1,b2,b3,b4,b5,b6,b7,b8,b9,b10,b11,b12,b13,b14,b15,b16,b17,b18,b19,b20⟩, hh, ht⟩
  split
  · rename_i hle
    have ha : s.aborts = [] := List.eq_nil_of_length_eq_zero (by omega)
    have hn : nonE s.calls = 0 := by omega
    refine ⟨?_, hh, ht⟩
    constructor <;> (try dsimp only) <;> (try assumption)
    · intro rv hrv; rw [ha] at hrv; cases hrv
    · intro p hp
      have := nonE_pos hp estopped_ne_etimedout.symm
      omega
    · omega
    · intro h; have := b17 h; omega
  · rename_i hle
    refine ⟨?_, hh, ht⟩
    constructor <;> (try dsimp only) <;> (try assumption)
    · omega
    · intro h; have := b17 h; omega

set_option maxHeartbeats 1000000 in
theorem rel_abortCall (rv : Nat) (hR : R k s g j) (i1 : Inv1 s) (i2 : Inv2 s) (i3 : Inv3 s) (i4 : Inv4 s)
    (hs : step Cfg.fixed s (.abortCall rv) = some s') :
    R k s' (gStep s g (.abortCall rv)) (judgeFrom j (obsX s g (.abortCall rv))) := by
  simp only [obsX, obsOf, obsExtra, gStep, judgeFrom, List.append_nil, List.foldl,
    jstep_abortCall hR.base.err hR.base.nfree]
  step_cases hs
  cases ho : j.ops.head? with
  | none =>
    r_open hR
    refine ⟨?_, ?_, ?_⟩
    · rb_close
    · intro o' ho'
      rw [updNewest_head, ho] at ho'
      cases ho'
    · intro x hx; rw [updNewest_tail] at hx; exact ht x hx
  | some o =>
    r_open hR
    r_upd ho

set_option maxHeartbeats 1000000 in
/-- the critical section of nng_aio_abort (no observation; the call has done its work if it found
    no cancel function) -/
theorem rel_abortSec (rv : Nat) (hR : R k s g j) (i1 : Inv1 s) (i2 : Inv2 s) (i3 : Inv3 s) (i4 : Inv4 s)
    (hs : step Cfg.fixed s (.abortSec rv) = some s') :
    R (k + retK s g (.abortSec rv)) s' (gStep s g (.abortSec rv)) (judgeFrom j (obsCore s (.abortSec rv))) := by
  simp only [obsCore, obsOf, retK, gStep, judgeFrom, List.append_nil, List.foldl]
  have hmem : rv ∈ s.aborts := by
    simp only [step] at hs
    split at hs
    · rename_i h; simpa using h
    · cases hs
  have he1 : ∀ x, x ∈ s.aborts.erase rv → x ∈ s.aborts := fun x h => List.mem_of_mem_erase h
  have he2 : (s.aborts.erase rv).length + 1 = s.aborts.length := by
    rw [List.length_erase_of_mem hmem]
    have := List.length_pos_of_mem hmem
    omega
  cases hf : s.cancelFn with
  | some p =>
    simp only [Option.isSome_some, Bool.true_and, Option.isNone_some, Bool.false_eq_true, ↓reduceIte, Nat.add_zero]
    step_casesk hs hf
    by_cases hrv : rv = ESTOPPED
    · subst hrv
      simp only [beq_self_eq_true, ↓reduceIte]
      r_same hR
    · simp only [beq_iff_eq, hrv, ↓reduceIte]
      r_same hR
  | none =>
    simp only [Option.isSome_none, Bool.false_and, Bool.false_eq_true, ↓reduceIte, Option.isNone_none]
    step_casesk hs hf
    r_same hR

end Nng.Aio
