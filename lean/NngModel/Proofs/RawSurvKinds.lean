/-
  The two instances of the raw model: what sock_getq_cb offers to which pipe.
-/
import NngModel.Proofs.RawSurvStep
import NngModel.Model.Xsurvey
import NngModel.Model.Xrespond
namespace Nng.RawSurv
open Nng Nng.Proto Nng.RawMq

theorem offer_closed (i : Nat) (pp : Pipe) (m : WMsg) (h : pp.closed = true) : offer i pp m = (pp, []) := by
  unfold offer; rw [if_pos h]

end Nng.RawSurv

namespace Nng.Xsurvey
open Nng Nng.Proto Nng.RawMq Nng.RawSurv

/-- raw SURVEYOR: every listed pipe is offered the message itself -/
def sel : Sel := fun _ m => some m

theorem fanout_ok (cap : Nat) (sent : List WMsg) (m : WMsg) : ∀ (ps : List Pipe) (i0 : Nat),
    (∀ j pp, ps[j]? = some pp → PipeOK sel cap sent (i0 + j) pp) →
    ∀ j pp', (fanout m i0 ps).1[j]? = some pp' → PipeOK sel cap (sent ++ [m]) (i0 + j) pp' := by
  intro ps
  induction ps with
  | nil => intro i0 _ j pp' h; simp [fanout] at h
  | cons pp rest ih =>
    intro i0 h j pp' hj
    simp only [fanout] at hj
    cases j with
    | zero =>
      simp only [List.getElem?_cons_zero, Option.some.injEq] at hj
      subst hj
      have hp := h 0 pp rfl
      by_cases hc : pp.closed = true
      · rw [offer_closed _ _ _ hc]; exact pipeOK_skip hp m (Or.inl hc)
      · exact pipeOK_offer hp m m (by simpa using hc) rfl
    | succ j =>
      simp only [List.getElem?_cons_succ] at hj
      have := ih (i0 + 1) (fun j' q hq => by
        have := h (j' + 1) q (by simpa using hq)
        rwa [show i0 + (j' + 1) = i0 + 1 + j' by omega] at this) j pp' hj
      rwa [show i0 + 1 + j = i0 + (j + 1) by omega] at this

theorem kindOK : KindOK kind sel := by
  refine ⟨by decide, ?_⟩
  intro ps m sent h i pp' hi
  have := fanout_ok kind.sqCap sent m ps 0 (fun j pp hj => by simpa using h j pp hj) i pp' hi
  simpa using this

theorem reach_inv (evs : List Ev) : Inv kind sel (run {} evs).1 := run_inv kindOK evs {} (inv_init _ _)

end Nng.Xsurvey

namespace Nng.Xrespond
open Nng Nng.Proto Nng.RawMq Nng.RawSurv

/-- raw RESPONDENT: pipe `i` is offered the messages whose first header word is its id, that word popped -/
def sel : Sel := fun i m =>
  match Bt.xrespondSend m.hdr m.body with
  | some (id, _) => if id = pipeId i then some ⟨m.hdr.drop 4, m.body⟩ else none
  | none => none

theorem skip_all {cap : Nat} {ps : List Pipe} {sent : List WMsg} (m : WMsg) (h : PipesInv sel cap ps sent)
    (hs : ∀ i pp, ps[i]? = some pp → pp.closed = true ∨ sel i m = none) : PipesInv sel cap ps (sent ++ [m]) :=
  fun i pp hi => pipeOK_skip (h i pp hi) m (hs i pp hi)

theorem kindOK : KindOK kind sel := by
  refine ⟨by decide, ?_⟩
  intro ps m sent h
  show PipesInv sel kind.sqCap (route ps m).1 (sent ++ [m])
  unfold route
  cases hx : Bt.xrespondSend m.hdr m.body with
  | none =>
    exact skip_all m h (fun i pp _ => Or.inr (by simp [sel, hx]))
  | some r =>
    obtain ⟨id, w⟩ := r
    simp only []
    by_cases h0 : (id == 0) = true
    · rw [if_pos h0]
      have : id = 0 := by simpa using h0
      exact skip_all m h (fun i pp _ => Or.inr (by simp [sel, hx, pipeId, this]))
    · rw [if_neg h0]
      have hid : id ≠ 0 := by simpa using h0
      have hsel : ∀ i, i ≠ id - 1 → sel i m = none := by
        intro i hi
        simp only [sel, hx]
        rw [if_neg (show ¬ id = pipeId i by unfold pipeId; omega)]
      cases hg : ps[id - 1]? with
      | none =>
        refine skip_all m h (fun i pp hi => Or.inr (hsel i ?_))
        intro e; rw [e, hg] at hi; cases hi
      | some pp =>
        simp only []
        by_cases hc : pp.closed = true
        · rw [if_pos hc]
          refine skip_all m h (fun i q hi => ?_)
          by_cases e : i = id - 1
          · rw [e, hg] at hi; cases hi; exact Or.inl hc
          · exact Or.inr (hsel i e)
        · rw [if_neg hc]
          intro i q hi
          simp only [] at hi
          rw [List.getElem?_set] at hi
          by_cases e : id - 1 = i
          · rw [if_pos e] at hi
            split at hi
            · cases hi
              subst e
              exact pipeOK_offer (h _ pp hg) m _ (by simpa using hc) (by simp only [sel, hx]; rw [if_pos (show id = pipeId (id - 1) by unfold pipeId; omega)])
            · cases hi
          · rw [if_neg e] at hi
            exact pipeOK_skip (h i q hi) m (Or.inr (hsel i (fun x => e x.symm)))

theorem reach_inv (evs : List Ev) : Inv kind sel (run {} evs).1 := run_inv kindOK evs {} (inv_init _ _)

end Nng.Xrespond
