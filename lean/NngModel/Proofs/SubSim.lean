/-
  C05: the SUB judge's state as a function (`absJ`) of the SUB model's state, and the extra
  invariants the simulation needs (parked aios pairwise distinct over all contexts, the
  socket-level context has no harness handle, nothing exists before the socket is opened).
-/
import NngModel.Proofs.SubInv
import NngModel.Proofs.SubCid
import NngModel.Spec.PubSub
namespace Nng.Sub
open Nng Nng.Proto Nng.PubSubSpec

/-- the trace (event, outputs) the model produces from state `s` -/
def traceOf (s : State) : List Ev → List (Ev × List Out)
  | [] => []
  | e :: es => (e, (step s e).2) :: traceOf (step s e).1 es

def absC (c : Ctx) : JCtx :=
  { key := c.cid, handle := c.handle, topics := c.topics, cap := c.cap, prefNew := c.preferNew,
    queue := c.q.map (·.body), waiting := c.rq.map (·.aio), owed := none }

def allCtx (s : State) : List Ctx := s.master :: s.ctxs

def absJ (s : State) : SubJ :=
  if s.opened then
    { opened := true, closed := s.closed, ctxs := (allCtx s).map absC, next := s.nctx + 1,
      defCap := s.recvBufLen, defPref := s.preferNew, err := none }
  else {}

theorem absJ_err (s : State) : (absJ s).err = none := by unfold absJ; split <;> rfl

def aiosOf (c : Ctx) : List Nat := c.rq.map (·.aio)
def allAios (s : State) : List Nat := (allCtx s).flatMap aiosOf

structure AInv (s : State) : Prop where
  aios : (allAios s).Nodup
  mh : s.master.handle = none
  unopened : s.opened = false → s.closed = false ∧ s.ctxs = [] ∧ s.nctx = 0

theorem ainv_init : AInv ({} : State) := ⟨List.nodup_nil, rfl, fun _ => ⟨rfl, rfl, rfl⟩⟩

theorem sublist_flatMap_map {α β : Type} (g : α → List β) (f : α → α) : ∀ L : List α,
    (∀ x ∈ L, (g (f x)).Sublist (g x)) → ((L.map f).flatMap g).Sublist (L.flatMap g)
  | [], _ => List.Sublist.refl _
  | x :: L, h => by
    simp only [List.map_cons, List.flatMap_cons]
    exact List.Sublist.append (h x (by simp)) (sublist_flatMap_map g f L (fun y hy => h y (by simp [hy])))

theorem sublist_flatMap {α β : Type} (g : α → List β) {l1 l2 : List α} (h : l1.Sublist l2) :
    (l1.flatMap g).Sublist (l2.flatMap g) := by
  induction h with
  | slnil => exact List.Sublist.refl _
  | cons a _ ih => simp only [List.flatMap_cons]; exact ih.trans (List.sublist_append_right _ _)
  | cons_cons a _ ih => simp only [List.flatMap_cons]; exact List.Sublist.append (List.Sublist.refl _) ih

/-- the identities of all contexts (socket-level one included) are pairwise distinct -/
theorem allCtx_unique {s : State} (hi : Inv s) (hc : CidInv s) {x y : Ctx} (hx : x ∈ allCtx s) (hy : y ∈ allCtx s)
    (he : x.cid = y.cid) : x = y := by
  have hnd : ((allCtx s).map (·.cid)).Nodup := by
    simp only [allCtx, List.map_cons, List.nodup_cons]
    refine ⟨?_, hc.nodup⟩
    intro hm
    obtain ⟨c, hc', hcc⟩ := List.mem_map.1 hm
    exact (hi.ctxs c hc').2 (hcc.trans hi.mcid)
  have key : ∀ (L : List Ctx), (L.map (·.cid)).Nodup → ∀ x ∈ L, ∀ y ∈ L, x.cid = y.cid → x = y := by
    intro L
    induction L with
    | nil => intro _ x hx; cases hx
    | cons a L ih =>
      intro hnd x hx y hy he
      simp only [List.map_cons, List.nodup_cons] at hnd
      simp only [List.mem_cons] at hx hy
      rcases hx with rfl | hx <;> rcases hy with rfl | hy
      · rfl
      · exact absurd (List.mem_map.2 ⟨y, hy, he.symm⟩) hnd.1
      · exact absurd (List.mem_map.2 ⟨x, hx, he⟩) hnd.1
      · exact ih hnd.2 x hx y hy he
  exact key _ hnd x hx y hy he

theorem allCtx_setCtx {s : State} (hi : Inv s) (c : Ctx) :
    allCtx (setCtx s c) = (allCtx s).map (fun x => if x.cid == c.cid then c else x) := by
  by_cases h0 : c.cid = 0
  · rw [setCtx_master h0]
    simp only [allCtx, List.map_cons, hi.mcid, h0, beq_self_eq_true, if_true, List.cons.injEq, true_and]
    conv => lhs; rw [← List.map_id s.ctxs]
    apply List.map_congr_left
    intro x hx
    have := (hi.ctxs x hx).2
    simp [this]
  · rw [setCtx_other h0]
    have : ¬ s.master.cid = c.cid := by rw [hi.mcid]; exact fun h => h0 h.symm
    simp [allCtx, this]

theorem getCtx_mem {s : State} {c : Option Nat} {cx : Ctx} (h : getCtx s c = some cx) : cx ∈ allCtx s := by
  rcases getCtx_cases h with rfl | h
  · simp [allCtx]
  · simp [allCtx, h]

/-- replacing a context by one that parks no new aio keeps the aios distinct -/
theorem ainv_setCtx {s : State} (ha : AInv s) (hi : Inv s) (hc : CidInv s) (ho : s.opened = true)
    {cx c' : Ctx} (hm : cx ∈ allCtx s)
    (hcid : c'.cid = cx.cid) (hh : c'.handle = cx.handle) (hs : (aiosOf c').Sublist (aiosOf cx)) :
    AInv (setCtx s c') := by
  refine ⟨?_, ?_, ?_⟩
  · unfold allAios
    rw [allCtx_setCtx hi]
    refine ha.aios.sublist (sublist_flatMap_map aiosOf _ _ ?_)
    intro x hx
    by_cases hk : x.cid = c'.cid
    · have : x = cx := allCtx_unique hi hc hx hm (hk.trans hcid)
      subst this
      simp [hk, hs]
    · simp [hk]
  · by_cases h0 : c'.cid = 0
    · rw [setCtx_master h0]
      have : cx = s.master := allCtx_unique hi hc hm (by simp [allCtx]) (by rw [← hcid, h0, hi.mcid])
      show c'.handle = none
      rw [hh, this]; exact ha.mh
    · rw [setCtx_other h0]; exact ha.mh
  · intro h0
    have : (setCtx s c').opened = s.opened := by unfold setCtx; split <;> rfl
    rw [this, ho] at h0; cases h0

theorem ainv_of_eq {s s' : State} (h : AInv s) (h1 : s'.opened = s.opened) (h2 : s'.master = s.master)
    (h3 : s'.ctxs = s.ctxs) (h4 : s'.closed = s.closed) (h5 : s'.nctx = s.nctx) : AInv s' := by
  refine ⟨?_, by rw [h2]; exact h.mh, ?_⟩
  · unfold allAios allCtx; rw [h2, h3]; exact h.aios
  · intro h0; rw [h1] at h0; rw [h3, h4, h5]; exact h.unopened h0

theorem ainv_mapAll {s : State} (ha : AInv s) (ho : s.opened = true) (f : Ctx → Ctx × List Out)
    (hf : ∀ c, (aiosOf (f c).1).Sublist (aiosOf c)) (hh : ∀ c, (f c).1.handle = c.handle) :
    AInv (mapAll s f).1 := by
  refine ⟨?_, by show (f s.master).1.handle = none; rw [hh]; exact ha.mh, fun h0 => by
    have : (mapAll s f).1.opened = s.opened := rfl
    rw [this, ho] at h0; cases h0⟩
  have : allCtx (mapAll s f).1 = (allCtx s).map (fun c => (f c).1) := by
    simp [allCtx, mapAll, mapList_eq_map]
  unfold allAios
  rw [this]
  exact ha.aios.sublist (sublist_flatMap_map aiosOf _ _ (fun x _ => hf x))

theorem anyParked_iff (s : State) (a : Nat) : anyParked s a = true ↔ a ∈ allAios s := by
  simp [anyParked, allAios, allCtx, aiosOf, List.mem_flatMap]

theorem mem_flatMap_replace {cx c' : Ctx} {a : Nat} (hg : aiosOf c' = aiosOf cx ++ [a]) :
    ∀ (L : List Ctx), (∀ y ∈ L, y.cid = c'.cid → y = cx) →
    ∀ z, z ∈ (L.map (fun x => if x.cid == c'.cid then c' else x)).flatMap aiosOf → z ∈ L.flatMap aiosOf ∨ z = a
  | [], _, z, hz => by simp at hz
  | y :: L, hu, z, hz => by
    simp only [List.map_cons, List.flatMap_cons, List.mem_append] at hz ⊢
    rcases hz with hz | hz
    · by_cases hk : y.cid = c'.cid
      · have : y = cx := hu y (by simp) hk
        subst this
        simp only [hk, beq_self_eq_true, if_true, hg, List.mem_append, List.mem_singleton] at hz
        rcases hz with hz | hz
        · exact Or.inl (Or.inl hz)
        · exact Or.inr hz
      · simp only [hk, beq_iff_eq, if_false] at hz
        exact Or.inl (Or.inl hz)
    · rcases mem_flatMap_replace hg L (fun y hy => hu y (by simp [hy])) z hz with h | h
      · exact Or.inl (Or.inr h)
      · exact Or.inr h

theorem nodup_flatMap_park {cx c' : Ctx} {a : Nat} (hg : aiosOf c' = aiosOf cx ++ [a]) :
    ∀ (L : List Ctx), (L.flatMap aiosOf).Nodup → a ∉ L.flatMap aiosOf → (∀ y ∈ L, y.cid = c'.cid → y = cx) →
    (L.map (·.cid)).Nodup →
    ((L.map (fun x => if x.cid == c'.cid then c' else x)).flatMap aiosOf).Nodup
  | [], _, _, _, _ => List.nodup_nil
  | y :: L, hnd, ha, hu, hcn => by
    have hcn' := List.nodup_cons.1 (by simpa using hcn : (y.cid :: L.map (·.cid)).Nodup)
    simp only [List.map_cons, List.flatMap_cons] at hnd ha ⊢
    rw [List.nodup_append] at hnd ⊢
    have ha1 : a ∉ aiosOf y := fun h => ha (List.mem_append.2 (Or.inl h))
    have ha2 : a ∉ L.flatMap aiosOf := fun h => ha (List.mem_append.2 (Or.inr h))
    have ih := nodup_flatMap_park hg L hnd.2.1 ha2 (fun y hy => hu y (by simp [hy])) hcn'.2
    refine ⟨?_, ih, ?_⟩
    · by_cases hk : y.cid = c'.cid
      · have : y = cx := hu y (by simp) hk
        subst this
        simp only [hk, beq_self_eq_true, if_true, hg]
        rw [List.nodup_append]
        refine ⟨hnd.1, by simp, ?_⟩
        intro x hx b hb
        simp only [List.mem_singleton] at hb
        subst hb
        exact fun he => ha1 (he ▸ hx)
      · simp only [hk, beq_iff_eq, if_false]; exact hnd.1
    · intro x hx b hb
      rcases mem_flatMap_replace hg L (fun y hy => hu y (by simp [hy])) b hb with hb | hb
      · by_cases hk : y.cid = c'.cid
        · have : y = cx := hu y (by simp) hk
          subst this
          simp only [hk, beq_self_eq_true, if_true, hg, List.mem_append, List.mem_singleton] at hx
          rcases hx with hx | hx
          · exact hnd.2.2 x hx b hb
          · subst hx; exact fun he => ha2 (he ▸ hb)
        · simp only [hk, beq_iff_eq, if_false] at hx
          exact hnd.2.2 x hx b hb
      · subst hb
        by_cases hk : y.cid = c'.cid
        · have : y = cx := hu y (by simp) hk
          subst this
          have hL : L.map (fun x => if x.cid == c'.cid then c' else x) = L := by
            conv => rhs; rw [← List.map_id L]
            apply List.map_congr_left
            intro z hz
            have : ¬ z.cid = c'.cid := by
              intro hzk
              exact hcn'.1 (List.mem_map.2 ⟨z, hz, hzk.trans hk.symm⟩)
            simp [this]
          rw [hL] at hb
          exact absurd hb ha2
        · simp only [hk, beq_iff_eq, if_false] at hx
          exact fun he => ha1 (he ▸ hx)

theorem allCtx_cids_nodup {s : State} (hi : Inv s) (hc : CidInv s) : ((allCtx s).map (·.cid)).Nodup := by
  simp only [allCtx, List.map_cons, List.nodup_cons]
  refine ⟨?_, hc.nodup⟩
  intro hm
  obtain ⟨c, hc', hcc⟩ := List.mem_map.1 hm
  exact (hi.ctxs c hc').2 (hcc.trans hi.mcid)

theorem ainv_setCtx_park {s : State} (ha : AInv s) (hi : Inv s) (hc : CidInv s) (ho : s.opened = true)
    {cx c' : Ctx} {a : Nat} (hm : cx ∈ allCtx s) (hcid : c'.cid = cx.cid) (hh : c'.handle = cx.handle)
    (hg : aiosOf c' = aiosOf cx ++ [a]) (hfree : a ∉ allAios s) : AInv (setCtx s c') := by
  refine ⟨?_, ?_, ?_⟩
  · unfold allAios
    rw [allCtx_setCtx hi]
    exact nodup_flatMap_park hg _ ha.aios hfree
      (fun y hy hk => allCtx_unique hi hc hy hm (hk.trans hcid)) (allCtx_cids_nodup hi hc)
  · by_cases h0 : c'.cid = 0
    · rw [setCtx_master h0]
      have : cx = s.master := allCtx_unique hi hc hm (by simp [allCtx]) (by rw [← hcid, h0, hi.mcid])
      show c'.handle = none
      rw [hh, this]; exact ha.mh
    · rw [setCtx_other h0]; exact ha.mh
  · intro h0
    have : (setCtx s c').opened = s.opened := by unfold setCtx; split <;> rfl
    rw [this, ho] at h0; cases h0

theorem recvCtx_handle (c : Ctx) (a : Nat) (mode : Mode) (now : Nat) : (recvCtx c a mode now).1.handle = c.handle := by
  unfold recvCtx; split
  · split <;> rfl
  · rfl

theorem recvCtx_aios (c : Ctx) (a : Nat) (mode : Mode) (now : Nat) :
    aiosOf (recvCtx c a mode now).1 = aiosOf c ∨ aiosOf (recvCtx c a mode now).1 = aiosOf c ++ [a] := by
  unfold recvCtx; split
  · split
    · exact Or.inl rfl
    · exact Or.inl rfl
    · right; simp [aiosOf]
    · right; simp [aiosOf]
  · exact Or.inl rfl

theorem lmqPut_hr (c : Ctx) (m : GMsg) : (lmqPut c m).handle = c.handle ∧ (lmqPut c m).rq = c.rq := by
  unfold lmqPut; split <;> exact ⟨rfl, rfl⟩

theorem arriveCtx_hr (gm : GMsg) (c : Ctx) :
    (arriveCtx gm c).1.handle = c.handle ∧ (aiosOf (arriveCtx gm c).1).Sublist (aiosOf c) := by
  unfold arriveCtx
  split
  · exact ⟨rfl, List.Sublist.refl _⟩
  · split
    · exact ⟨rfl, List.Sublist.refl _⟩
    · split
      · next a rest hrq =>
        refine ⟨rfl, ?_⟩
        simp only [aiosOf, hrq, List.map_cons]
        exact List.sublist_cons_self _ _
      · split
        · refine ⟨?_, ?_⟩
          · show (lmqPut _ gm).handle = c.handle
            rw [(lmqPut_hr _ _).1]; split <;> rfl
          · show ((lmqPut _ gm).rq.map (·.aio)).Sublist _
            rw [(lmqPut_hr _ _).2]
            split <;> exact List.Sublist.refl _
        · refine ⟨(lmqPut_hr _ _).1, ?_⟩
          show ((lmqPut _ gm).rq.map (·.aio)).Sublist _
          rw [(lmqPut_hr _ _).2]; exact List.Sublist.refl _

theorem closePipe_same (s : State) (p : Nat) : ∃ ps, (closePipe s p).1 = { s with pipes := ps } := by
  unfold closePipe
  split
  · exact ⟨s.pipes, rfl⟩
  · split
    · exact ⟨s.pipes, rfl⟩
    · exact ⟨_, rfl⟩

theorem ainv_pipes {s : State} (ha : AInv s) (ps : List Pipe) : AInv { s with pipes := ps } :=
  ainv_of_eq ha rfl rfl rfl rfl rfl

theorem closePipe_ainv {s : State} (ha : AInv s) (p : Nat) : AInv (closePipe s p).1 := by
  obtain ⟨ps, h⟩ := closePipe_same s p
  rw [h]; exact ainv_pipes ha ps

theorem closePipes_ainv_aux : ∀ (l : List Pipe) (acc : State × List Out), AInv acc.1 →
    AInv (l.foldl (fun (acc : State × List Out) pp =>
      let x := closePipe acc.1 pp.id
      (x.1, acc.2 ++ x.2)) acc).1
  | [], _, h => h
  | pp :: l, acc, h => by
    simp only [List.foldl_cons]
    exact closePipes_ainv_aux l _ (closePipe_ainv h pp.id)

theorem setCtx_fields (s : State) (c : Ctx) : (setCtx s c).opened = s.opened ∧ (setCtx s c).closed = s.closed ∧
    (setCtx s c).nctx = s.nctx := by
  unfold setCtx; split <;> exact ⟨rfl, rfl, rfl⟩

theorem subscribeCtx_hr (c : Ctx) (t : Bytes) : (subscribeCtx c t).handle = c.handle ∧ (subscribeCtx c t).rq = c.rq := by
  unfold subscribeCtx; split <;> exact ⟨rfl, rfl⟩

theorem unsubscribeCtx_hr {c c' : Ctx} {t : Bytes} (hlen : c.q.length ≤ c.cap) (hu : unsubscribeCtx c t = some c') :
    c'.handle = c.handle ∧ c'.rq = c.rq ∧ c'.cid = c.cid := by
  by_cases ht : t ∈ c.topics
  · obtain ⟨c'', h0, _, _, _, _, h5, _, h7, h8, _⟩ := unsubscribeCtx_present c t ht hlen
    rw [h0] at hu; cases hu
    exact ⟨h8, h5, h7⟩
  · rw [unsubscribeCtx_absent c t ht] at hu; cases hu

theorem stepOpen_ainv {s : State} (ev : Ev) (ha : AInv s) (hi : Inv s) (hc : CidInv s) (ho : s.opened = true) :
    AInv (stepOpen s ev).1 := by
  cases ev with
  | openSock _ _ => exact ha
  | pipeAdd peer => show AInv (opPipeAdd s peer).1; unfold opPipeAdd; split <;> exact ainv_pipes ha _
  | pipeDrop p =>
    show AInv (opPipeDrop s p).1
    unfold opPipeDrop
    split
    · split
      · exact ha
      · exact closePipe_ainv ha p
    · exact ha
  | sendDone _ _ => exact ha
  | recvDone p r =>
    show AInv (opRecvDone s p r).1
    unfold opRecvDone
    split
    · split
      · exact ha
      · split
        · exact closePipe_ainv ha p
        · next b =>
          have hall : allCtx (arrive s p b).1 = (allCtx s).map (fun c => (arriveCtx ⟨s.narrive, p, b⟩ c).1) := by
            simp [arrive, allCtx, arriveList_eq_map]
          refine ⟨?_, ?_, fun h0 => ?_⟩
          · unfold allAios
            rw [hall]
            exact ha.aios.sublist (sublist_flatMap_map aiosOf _ _ (fun x _ => (arriveCtx_hr _ x).2))
          · show (arriveCtx _ s.master).1.handle = none
            rw [(arriveCtx_hr _ _).1]; exact ha.mh
          · have : (arrive s p b).1.opened = s.opened := rfl
            simp only [] at h0
            rw [this, ho] at h0; cases h0
    · exact ha
  | send c a m mode => show AInv (opSend s c a).1; rw [opSend_state]; exact ha
  | recv c a mode =>
    show AInv (opRecv s c a mode).1
    unfold opRecv
    by_cases hp : anyParked s a = true
    · rw [if_pos hp]; exact ha
    · rw [if_neg hp]
      have hfree : a ∉ allAios s := fun h => hp ((anyParked_iff s a).2 h)
      cases hg : getCtx s c with
      | none => exact ha
      | some cx =>
        simp only []
        have hm := getCtx_mem hg
        have hset : AInv (setCtx s (recvCtx cx a mode s.now).1) := by
          rcases recvCtx_aios cx a mode s.now with h | h
          · exact ainv_setCtx ha hi hc ho hm (recvCtx_cid _ _ _ _) (recvCtx_handle _ _ _ _) (by rw [h]; exact List.Sublist.refl _)
          · exact ainv_setCtx_park ha hi hc ho hm (recvCtx_cid _ _ _ _) (recvCtx_handle _ _ _ _) h hfree
        split
        · exact ainv_of_eq hset rfl rfl rfl rfl rfl
        · exact hset
  | cancel a =>
    refine ainv_mapAll ha ho _ (fun c => ?_) (fun c => ?_)
    · unfold failCtx aiosOf; split
      · exact List.Sublist.map _ List.filter_sublist
      · exact List.Sublist.refl _
    · unfold failCtx; split <;> rfl
  | abort a rv =>
    refine ainv_mapAll ha ho _ (fun c => ?_) (fun c => ?_)
    · unfold failCtx aiosOf; split
      · exact List.Sublist.map _ List.filter_sublist
      · exact List.Sublist.refl _
    · unfold failCtx; split <;> rfl
  | advance ms =>
    show AInv (mapAll { s with now := s.now + ms } (expireCtx (s.now + ms))).1
    have ha' : AInv { s with now := s.now + ms } := ainv_of_eq ha rfl rfl rfl rfl rfl
    exact ainv_mapAll ha' ho _ (fun c => List.Sublist.map _ List.filter_sublist) (fun c => rfl)
  | ctxOpen k =>
    show AInv (opCtxOpen s k).1
    unfold opCtxOpen
    refine ⟨?_, ha.mh, fun h0 => by simp [ho] at h0⟩
    have hmap : ∀ L : List Ctx, (L.map fun x => if x.handle == some k then { x with handle := none } else x).flatMap aiosOf =
        L.flatMap aiosOf := by
      intro L
      induction L with
      | nil => rfl
      | cons x L ih =>
        simp only [List.map_cons, List.flatMap_cons, ih]
        congr 1
        split <;> rfl
    simp only [allAios, allCtx, List.flatMap_cons, List.flatMap_append, List.flatMap_nil, List.append_nil, hmap]
    have := ha.aios
    simp only [allAios, allCtx, List.flatMap_cons] at this
    simpa [aiosOf] using this
  | ctxClose k =>
    show AInv (opCtxClose s k).1
    unfold opCtxClose
    split
    · exact ha
    · next cx hcx =>
      refine ⟨?_, ha.mh, fun h0 => by simp [ho] at h0⟩
      refine ha.aios.sublist ?_
      simp only [allAios, allCtx, List.flatMap_cons]
      exact List.Sublist.append (List.Sublist.refl _) (sublist_flatMap _ List.filter_sublist)
  | setopt c name ty v =>
    show AInv (opSetopt s c name ty v).1
    unfold opSetopt
    split
    · split
      · exact ha
      · next cx hcx =>
        split
        · exact ha
        · have hset : AInv (setCtx s (resizeCtx cx v.toNat)) :=
            ainv_setCtx ha hi hc ho (getCtx_mem hcx) rfl rfl (List.Sublist.refl _)
          split
          · exact ainv_of_eq hset rfl rfl rfl rfl rfl
          · exact hset
    · split
      · split
        · exact ha
        · next cx hcx =>
          have hset : AInv (setCtx s (prefCtx cx (boolOfInt v))) :=
            ainv_setCtx ha hi hc ho (getCtx_mem hcx) rfl rfl (List.Sublist.refl _)
          split
          · exact ainv_of_eq hset rfl rfl rfl rfl rfl
          · exact hset
      · exact ha
  | getopt c name ty => show AInv (opGetopt s c name ty).1; rw [opGetopt_state]; exact ha
  | poll => exact ha
  | sub c t =>
    show AInv (opSub s c t).1
    unfold opSub
    split
    · exact ha
    · next cx hcx =>
      exact ainv_setCtx ha hi hc ho (getCtx_mem hcx) (subscribeCtx_cid _ _) (subscribeCtx_hr _ _).1
        (by unfold aiosOf; rw [(subscribeCtx_hr _ _).2]; exact List.Sublist.refl _)
  | unsub c t =>
    show AInv (opUnsub s c t).1
    unfold opUnsub
    split
    · exact ha
    · next cx hcx =>
      split
      · exact ha
      · next cx' hu =>
        have hm := getCtx_mem hcx
        have hlen : cx.q.length ≤ cx.cap := by
          rcases getCtx_cases hcx with rfl | h
          · exact (hi.master ho).len
          · exact (hi.ctxs cx h).1.len
        obtain ⟨h1, h2, h3⟩ := unsubscribeCtx_hr hlen hu
        have hset : AInv (setCtx s cx') :=
          ainv_setCtx ha hi hc ho hm h3 h1 (by unfold aiosOf; rw [h2]; exact List.Sublist.refl _)
        split
        · exact ainv_of_eq hset rfl rfl rfl rfl rfl
        · exact hset
  | close =>
    show AInv (closeAll s).1
    unfold closeAll
    have h1 : AInv (mapAll s closeCtx).1 :=
      ainv_mapAll ha ho _ (fun c => by simp [closeCtx, aiosOf]) (fun c => rfl)
    have h2 := closePipes_ainv_aux (mapAll s closeCtx).1.pipes ((mapAll s closeCtx).1, []) h1
    refine ⟨h2.aios, h2.mh, fun h0 => ?_⟩
    exfalso
    have hop : ∀ (l : List Pipe) (acc : State × List Out), (l.foldl (fun (acc : State × List Out) pp =>
      let x := closePipe acc.1 pp.id
      (x.1, acc.2 ++ x.2)) acc).1.opened = acc.1.opened := by
      intro l
      induction l with
      | nil => intro acc; rfl
      | cons pp l ih =>
        intro acc
        simp only [List.foldl_cons]
        rw [ih]
        exact (closePipe_fields acc.1 pp.id).1
    have : (closePipes (mapAll s closeCtx).1).1.opened = s.opened := hop _ _
    simp only [] at h0
    rw [this, ho] at h0; cases h0

theorem step_ainv {s : State} (ev : Ev) (ha : AInv s) (hi : Inv s) (hc : CidInv s) : AInv (step s ev).1 := by
  unfold step
  split
  · next hno =>
    have ho : s.opened = false := by simpa using hno
    have hu := ha.unopened ho
    split
    · refine ⟨?_, rfl, fun h0 => by simp [openState] at h0⟩
      simp [allAios, allCtx, openState, hu.2.1, aiosOf]
    · exact ainv_of_eq ha rfl rfl rfl rfl rfl
    · exact ha
  · next hno =>
    have ho : s.opened = true := by simpa using hno
    split
    · split
      · exact ainv_of_eq ha rfl rfl rfl rfl rfl
      · exact ha
    · exact stepOpen_ainv ev ha hi hc ho

end Nng.Sub
