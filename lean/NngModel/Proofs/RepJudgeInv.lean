/-
  A fifth invariant of the REP model (Model/Rep.lean), needed by the judge simulation
  (Proofs/RepJudge.lean): bookkeeping of the parked operations.

  * every parked aio (a context's `raio`, an entry of a pipe's `sendq`) belongs to exactly one
    context, the aios are pairwise distinct, contexts beyond `nctx` have nothing parked;
  * a pipe's `sendq` only holds contexts whose `saio`/`spipe` point back at it, each at most once,
    and only live pipes have a non-empty `sendq`;
  * the harness slot table is injective and never names the socket's own context 0;
  * a pipe that holds a parsed request has no receive armed, and holds only one;
  * `used` is a ghost parameter: the bodies of all `send` events so far.  Bodies on the wire and
    bodies waiting in a `sendq` come from `used`, and (bodies being pairwise distinct) a body
    waiting in a `sendq` is not on the wire and is not waiting twice.
-/
import NngModel.Proofs.RepFlags
import NngModel.Proofs.RepOrder
import NngModel.Proofs.RepRecent
namespace Nng.RepProofs
open Nng Nng.Proto Nng.Rep

structure Inv5 (s : State) (used : List Bytes) : Prop where
  beyond : ∀ k, s.nctx ≤ k → (s.ctx k).raio = none ∧ (s.ctx k).saio = none
  sq : ∀ p, ∀ e ∈ (s.pipe p).sendq,
    livePipe s p = true ∧ (s.ctx e.ctx).saio = some e.aio ∧ (s.ctx e.ctx).spipe = some p
  sa : ∀ k a, (s.ctx k).saio = some a →
    ∃ p, (s.ctx k).spipe = some p ∧ ∃ e ∈ (s.pipe p).sendq, e.ctx = k ∧ e.aio = a
  sqnd : ∀ p, ((s.pipe p).sendq.map (·.ctx)).Nodup
  sinj : ∀ k k' a, (s.ctx k).saio = some a → (s.ctx k').saio = some a → k = k'
  rinj : ∀ k k' pk pk', (s.ctx k).raio = some pk → (s.ctx k').raio = some pk' → pk.aio = pk'.aio → k = k'
  rs : ∀ k k' pk, (s.ctx k).raio = some pk → (s.ctx k').saio ≠ some pk.aio
  slot1 : ∀ c k, s.slot c = some k → 1 ≤ k
  slotinj : ∀ c c' k, s.slot c = some k → s.slot c' = some k → c = c'
  held : ∀ r ∈ s.recvpipes, (s.pipe r.pipe).armed = false
  heldnd : (s.recvpipes.map (·.pipe)).Nodup
  wu : ∀ w ∈ s.wire, w.body ∈ used
  qu : ∀ p, ∀ e ∈ (s.pipe p).sendq, e.body ∈ used ∧ ∀ w ∈ s.wire, w.body ≠ e.body
  qq : ∀ p p' e e', e ∈ (s.pipe p).sendq → e' ∈ (s.pipe p').sendq → e.body = e'.body → e.ctx = e'.ctx

theorem inv5_init : Inv5 ({} : State) [] := by
  constructor <;> simp

/-- no parked operation uses aio `a` -/
def AioFree (s : State) (a : Nat) : Prop :=
  (∀ k pk, (s.ctx k).raio = some pk → pk.aio ≠ a) ∧ (∀ k, (s.ctx k).saio ≠ some a)

/-- the body offered by a `send` event -/
def evBody : Ev → Option Bytes
  | .send _ _ m _ => some m.body
  | _ => none

theorem inv5_mono {s : State} {used used' : List Bytes} (h : Inv5 s used) (hs : ∀ b ∈ used, b ∈ used') :
    Inv5 s used' := by
  obtain ⟨h1, h2, h3, h4, h5, h6, h7, h8, h9, h10, h11, h12, h13, h14⟩ := h
  exact ⟨h1, h2, h3, h4, h5, h6, h7, h8, h9, h10, h11, fun w hw => hs _ (h12 w hw),
    fun p e he => ⟨hs _ (h13 p e he).1, (h13 p e he).2⟩, h14⟩

theorem aioFree_of_not_busy {s : State} {used : List Bytes} {a : Nat} (h : Inv5 s used)
    (hb : aioBusy s a = false) : AioFree s a := by
  unfold aioBusy at hb
  rw [Bool.or_eq_false_iff] at hb
  obtain ⟨hb1, hb2⟩ := hb
  rw [List.any_eq_false] at hb1 hb2
  constructor
  · intro k pk hk hpk
    by_cases hkn : k < s.nctx
    · have := hb1 k (List.mem_range.mpr hkn)
      rw [hk] at this; simp at this; exact this hpk
    · have := (h.beyond k (by omega)).1; rw [hk] at this; cases this
  · intro k hk
    obtain ⟨p, hsp, e, he, hek, hea⟩ := h.sa k a hk
    have hl := (h.sq p e he).1
    have := hb2 p (List.mem_range.mpr (livePipe_lt hl))
    simp at this
    exact this e he hea

/-- Inv5 only reads these projections of the state -/
theorem inv5_congr {s s' : State} {used : List Bytes} (h : Inv5 s used)
    (hn : s'.nctx = s.nctx) (hnp : s'.npipes = s.npipes) (hsl : s'.slot = s.slot)
    (hrp : s'.recvpipes = s.recvpipes) (hw : s'.wire = s.wire)
    (hr : ∀ k, (s'.ctx k).raio = (s.ctx k).raio) (hs : ∀ k, (s'.ctx k).saio = (s.ctx k).saio)
    (hsp : ∀ k, (s'.ctx k).spipe = (s.ctx k).spipe)
    (hq : ∀ p, (s'.pipe p).sendq = (s.pipe p).sendq) (ha : ∀ p, (s'.pipe p).armed = (s.pipe p).armed)
    (hc : ∀ p, (s'.pipe p).closed = (s.pipe p).closed) : Inv5 s' used := by
  have hl : ∀ p, livePipe s' p = livePipe s p := fun p => livePipe_congr p hnp (hc p)
  obtain ⟨h1, h2, h3, h4, h5, h6, h7, h8, h9, h10, h11, h12, h13, h14⟩ := h
  constructor
  · simpa only [hn, hr, hs] using h1
  · simpa only [hq, hl, hs, hsp] using h2
  · simpa only [hq, hs, hsp] using h3
  · simpa only [hq] using h4
  · simpa only [hs] using h5
  · simpa only [hr] using h6
  · simpa only [hr, hs] using h7
  · simpa only [hsl] using h8
  · simpa only [hsl] using h9
  · simpa only [hrp, ha] using h10
  · simpa only [hrp] using h11
  · simpa only [hw] using h12
  · simpa only [hq, hw] using h13
  · simpa only [hq] using h14

theorem inv5_same {s s' : State} {used : List Bytes} (h : Inv5 s used)
    (hn : s'.nctx = s.nctx) (hnp : s'.npipes = s.npipes) (hsl : s'.slot = s.slot)
    (hrp : s'.recvpipes = s.recvpipes) (hw : s'.wire = s.wire)
    (hc : s'.ctx = s.ctx) (hp : s'.pipe = s.pipe) : Inv5 s' used :=
  inv5_congr h hn hnp hsl hrp hw (fun k => by rw [hc]) (fun k => by rw [hc]) (fun k => by rw [hc])
    (fun p => by rw [hp]) (fun p => by rw [hp]) (fun p => by rw [hp])

/-! #### closePipe -/
theorem clearSaio_ctx (es : List PSend) : ∀ (s : State) (k : Nat),
    (clearSaio s es).ctx k = if k ∈ es.map (·.ctx) then { s.ctx k with saio := none } else s.ctx k := by
  induction es with
  | nil => intro s k; simp [clearSaio]
  | cons e es ih =>
    intro s k
    rw [clearSaio_cons, ih]
    simp only [setCtx_ctx, upd_apply, List.map_cons, List.mem_cons]
    by_cases h1 : k = e.ctx <;> by_cases h2 : k ∈ es.map (·.ctx) <;> simp [h1, h2]

theorem dropHeld_recvpipes (s : State) (p : Nat) : (dropHeld s p).recvpipes.Sublist s.recvpipes := by
  unfold dropHeld
  split
  · dsimp only
    split
    · exact List.filter_sublist
    · exact List.filter_sublist
  · exact List.Sublist.refl _

theorem closePipe_frame5 (s : State) (p : Nat) (hl : livePipe s p = true) :
    (closePipe s p).1.nctx = s.nctx ∧ (closePipe s p).1.npipes = s.npipes ∧ (closePipe s p).1.slot = s.slot ∧
    (closePipe s p).1.wire = s.wire ∧ (closePipe s p).1.recvpipes.Sublist s.recvpipes ∧
    (∀ k, (closePipe s p).1.ctx k =
      if k ∈ (s.pipe p).sendq.map (·.ctx) then { s.ctx k with saio := none } else s.ctx k) ∧
    (closePipe s p).1.pipe = upd s.pipe p { s.pipe p with closed := true, armed := false, sendq := [] } := by
  unfold closePipe
  rw [hl]
  rw [if_neg (by simp)]
  dsimp only
  have hf := clearSaio_frame (s.pipe p).sendq (dropHeld s p)
  have hd := dropHeld_frame s p
  have hd2 := dropHeld_frame2 s p
  have hr := raiseIfSock_frame (addDiscarded (clearSaio (dropHeld s p) (s.pipe p).sendq) ((s.pipe p).sendq.map (wireOf p))) p
  have hr2 := raiseIfSock_frame2 (addDiscarded (clearSaio (dropHeld s p) (s.pipe p).sendq) ((s.pipe p).sendq.map (wireOf p))) p
  refine ⟨?_, ?_, ?_, ?_, ?_, ?_, ?_⟩
  · rw [setPipe_nctx, hr.2.2.2.2.2.2.2.2.2.2.2]; show (clearSaio _ _).nctx = _; rw [hf.nctx, hd.2.2.2.2.2.2.2.2.2.2]
  · rw [setPipe_npipes, hr.2.2.2.2.2.1]; show (clearSaio _ _).npipes = _; rw [hf.npipes, hd.2.2.2.2.2.1]
  · rw [setPipe_slot, hr2.1]; show (clearSaio _ _).slot = _; rw [hf.slot, hd2.1]
  · rw [setPipe_wire, hr.2.2.1]; show (clearSaio _ _).wire = _; rw [hf.wire, hd.2.2.1]
  · rw [setPipe_recvpipes, hr.2.2.2.2.2.2.1]; show (clearSaio _ _).recvpipes.Sublist _; rw [hf.recvpipes]
    exact dropHeld_recvpipes s p
  · intro k
    rw [setPipe_ctx, hr.1]; show (clearSaio _ _).ctx k = _; rw [clearSaio_ctx, hd.1]
  · have hp : (addDiscarded (clearSaio (dropHeld s p) (s.pipe p).sendq) ((s.pipe p).sendq.map (wireOf p))).pipe = s.pipe := by
      show (clearSaio _ _).pipe = _; rw [hf.pipe, hd.2.1]
    rw [setPipe_pipe, hr.2.1, hp]

theorem closePipe_inv5 (s : State) (p : Nat) (used : List Bytes) (h : Inv5 s used) :
    Inv5 (closePipe s p).1 used := by
  by_cases hl : livePipe s p = true
  · obtain ⟨f1, f2, f3, f4, f5, f6, f7⟩ := closePipe_frame5 s p hl
    generalize (closePipe s p).1 = s' at *
    have hraio : ∀ k, (s'.ctx k).raio = (s.ctx k).raio := by intro k; rw [f6]; split <;> rfl
    have hspipe : ∀ k, (s'.ctx k).spipe = (s.ctx k).spipe := by intro k; rw [f6]; split <;> rfl
    have hsaio : ∀ k, (s'.ctx k).saio = if k ∈ (s.pipe p).sendq.map (·.ctx) then none else (s.ctx k).saio := by
      intro k; rw [f6]; split <;> rfl
    have hpp : (s'.pipe p).sendq = [] ∧ (s'.pipe p).armed = false := by rw [f7, upd_same]; exact ⟨rfl, rfl⟩
    have hpq : ∀ q, q ≠ p → s'.pipe q = s.pipe q := by intro q hq; rw [f7, upd_other _ _ hq]
    have hlive : ∀ q, q ≠ p → livePipe s' q = livePipe s q := by
      intro q hq; exact livePipe_congr q f2 (by rw [hpq q hq])
    have hmem : ∀ k, k ∈ (s.pipe p).sendq.map (·.ctx) → (s.ctx k).spipe = some p := by
      intro k hk
      rw [List.mem_map] at hk
      obtain ⟨e, he, rfl⟩ := hk
      exact (h.sq p e he).2.2
    have hsq : ∀ q, ∀ e ∈ (s'.pipe q).sendq, q ≠ p ∧ e ∈ (s.pipe q).sendq := by
      intro q e he
      by_cases hq : q = p
      · subst hq; rw [hpp.1] at he; cases he
      · rw [hpq q hq] at he; exact ⟨hq, he⟩
    obtain ⟨h1, h2, h3, h4, h5, h6, h7, h8, h9, h10, h11, h12, h13, h14⟩ := h
    constructor
    · intro k hk; rw [hraio, hsaio]; rw [f1] at hk; have := h1 k hk; split <;> simp [this]
    · intro q e he
      obtain ⟨hq, he⟩ := hsq q e he
      obtain ⟨a1, a2, a3⟩ := h2 q e he
      rw [hlive q hq, hspipe, hsaio]
      refine ⟨a1, ?_, a3⟩
      rw [if_neg]; exact a2
      intro hm; have := hmem _ hm; rw [a3] at this; injection this with this; exact hq this
    · intro k a hk
      rw [hsaio] at hk
      split at hk
      · cases hk
      · rename_i hnm
        obtain ⟨q, hq, e, he, hek, hea⟩ := h3 k a hk
        have hqp : q ≠ p := by
          intro hqp; subst hqp; apply hnm; rw [List.mem_map]; exact ⟨e, he, hek⟩
        exact ⟨q, by rw [hspipe]; exact hq, e, by rw [hpq q hqp]; exact he, hek, hea⟩
    · intro q
      by_cases hq : q = p
      · subst hq; rw [hpp.1]; exact List.nodup_nil
      · rw [hpq q hq]; exact h4 q
    · intro k k' a hk hk'
      rw [hsaio] at hk hk'
      split at hk
      · cases hk
      · split at hk'
        · cases hk'
        · exact h5 k k' a hk hk'
    · intro k k' pk pk' hk hk'; rw [hraio] at hk hk'; exact h6 k k' pk pk' hk hk'
    · intro k k' pk hk hk'
      rw [hraio] at hk; rw [hsaio] at hk'
      split at hk'
      · cases hk'
      · exact h7 k k' pk hk hk'
    · rw [f3]; exact h8
    · rw [f3]; exact h9
    · intro r hr
      by_cases hq : r.pipe = p
      · rw [hq]; exact hpp.2
      · rw [hpq _ hq]; exact h10 r (f5.subset hr)
    · exact List.Nodup.sublist (f5.map _) h11
    · rw [f4]; exact h12
    · intro q e he
      obtain ⟨hq, he⟩ := hsq q e he
      rw [f4]; exact h13 q e he
    · intro q q' e e' he he'
      exact h14 q q' e e' (hsq q e he).2 (hsq q' e' he').2
  · unfold closePipe
    rw [if_pos (by simpa using hl)]
    exact h

/-! #### deliver, pipeRecv, ctxRecv -/
/-- `raio`s may disappear, `armed` and `recvpipes` may change as long as `held`/`heldnd` hold -/
theorem inv5_weaken {s s' : State} {used : List Bytes} (h : Inv5 s used)
    (hn : s'.nctx = s.nctx) (hnp : s'.npipes = s.npipes) (hsl : s'.slot = s.slot) (hw : s'.wire = s.wire)
    (hr : ∀ k, (s'.ctx k).raio = (s.ctx k).raio ∨ (s'.ctx k).raio = none)
    (hs : ∀ k, (s'.ctx k).saio = (s.ctx k).saio)
    (hsp : ∀ k, (s'.ctx k).spipe = (s.ctx k).spipe)
    (hq : ∀ p, (s'.pipe p).sendq = (s.pipe p).sendq)
    (hc : ∀ p, (s'.pipe p).closed = (s.pipe p).closed)
    (hheld : ∀ r ∈ s'.recvpipes, (s'.pipe r.pipe).armed = false)
    (hnd : (s'.recvpipes.map (·.pipe)).Nodup) : Inv5 s' used := by
  have hl : ∀ p, livePipe s' p = livePipe s p := fun p => livePipe_congr p hnp (hc p)
  have hr' : ∀ k pk, (s'.ctx k).raio = some pk → (s.ctx k).raio = some pk := by
    intro k pk hk
    cases hr k with
    | inl e => rw [← e]; exact hk
    | inr e => rw [e] at hk; cases hk
  obtain ⟨h1, h2, h3, h4, h5, h6, h7, h8, h9, h10, h11, h12, h13, h14⟩ := h
  constructor
  · intro k hk
    rw [hn] at hk
    refine ⟨?_, by rw [hs]; exact (h1 k hk).2⟩
    cases hr k with
    | inl e => rw [e]; exact (h1 k hk).1
    | inr e => exact e
  · simpa only [hq, hl, hs, hsp] using h2
  · simpa only [hq, hs, hsp] using h3
  · simpa only [hq] using h4
  · simpa only [hs] using h5
  · intro k k' pk pk' hk hk'; exact h6 k k' pk pk' (hr' _ _ hk) (hr' _ _ hk')
  · intro k k' pk hk; rw [hs]; exact h7 k k' pk (hr' _ _ hk)
  · simpa only [hsl] using h8
  · simpa only [hsl] using h9
  · exact hheld
  · exact hnd
  · simpa only [hw] using h12
  · simpa only [hq, hw] using h13
  · simpa only [hq] using h14

theorem deliver_slot (s : State) (k : Nat) (r : Req) : (deliver s k r).slot = s.slot := by
  unfold deliver recvWritable; split <;> rfl

theorem deliver_inv5 (s : State) (k : Nat) (r : Req) (used : List Bytes) (h : Inv5 s used)
    (hne : ∀ r' ∈ s.recvpipes, r'.pipe ≠ r.pipe) : Inv5 (deliver s k r) used := by
  obtain ⟨hw1, _, _, hw4, hw5, _, _, _, _, hw10⟩ := deliver_wire s k r
  have hctx : ∀ k', ((deliver s k r).ctx k').raio = (s.ctx k').raio ∧ ((deliver s k r).ctx k').saio = (s.ctx k').saio ∧
      ((deliver s k r).ctx k').spipe = (s.ctx k').spipe := by
    intro k'
    rw [deliver_ctx, upd_apply]
    by_cases hk : k' = k
    · rw [if_pos hk, hk]; exact ⟨rfl, rfl, rfl⟩
    · rw [if_neg hk]; exact ⟨rfl, rfl, rfl⟩
  have hpipe : ∀ q, ((deliver s k r).pipe q).sendq = (s.pipe q).sendq ∧ ((deliver s k r).pipe q).closed = (s.pipe q).closed ∧
      (q ≠ r.pipe → ((deliver s k r).pipe q).armed = (s.pipe q).armed) := by
    intro q
    rw [deliver_pipe, upd_apply]
    by_cases hq : q = r.pipe
    · rw [if_pos hq, hq]; exact ⟨rfl, rfl, fun h => absurd rfl h⟩
    · rw [if_neg hq]; exact ⟨rfl, rfl, fun _ => rfl⟩
  refine inv5_weaken h hw10 hw4 (deliver_slot s k r) hw1 (fun k' => Or.inl (hctx k').1) (fun k' => (hctx k').2.1)
    (fun k' => (hctx k').2.2) (fun q => (hpipe q).1) (fun q => (hpipe q).2.1) ?_ ?_
  · intro r' hr'
    rw [hw5] at hr'
    rw [(hpipe _).2.2 (hne r' hr')]
    exact h.held r' hr'
  · rw [hw5]; exact h.heldnd

theorem pipeRecv_inv5 (s : State) (p : Nat) (b : Bytes) (used : List Bytes) (h : Inv5 s used)
    (hl : livePipe s p = true) (ha : (s.pipe p).armed = true) : Inv5 (pipeRecv s p b).1 used := by
  have hnp : ∀ r ∈ s.recvpipes, r.pipe ≠ p := by
    intro r hr hrp
    have := h.held r hr
    rw [hrp, ha] at this; cases this
  have hpipe : ∀ q, ((setPipe s p { s.pipe p with armed := false }).pipe q).sendq = (s.pipe q).sendq ∧
      ((setPipe s p { s.pipe p with armed := false }).pipe q).closed = (s.pipe q).closed ∧
      (q ≠ p → ((setPipe s p { s.pipe p with armed := false }).pipe q).armed = (s.pipe q).armed) := by
    intro q
    rw [setPipe_pipe, upd_apply]
    by_cases hq : q = p
    · rw [if_pos hq, hq]; exact ⟨rfl, rfl, fun h => absurd rfl h⟩
    · rw [if_neg hq]; exact ⟨rfl, rfl, fun _ => rfl⟩
  have h0 : Inv5 (setPipe s p { s.pipe p with armed := false }) used := by
    refine inv5_weaken h rfl rfl rfl rfl (fun _ => Or.inl rfl) (fun _ => rfl) (fun _ => rfl)
      (fun q => (hpipe q).1) (fun q => (hpipe q).2.1) ?_ h.heldnd
    intro r hr
    rw [(hpipe _).2.2 (hnp r hr)]
    exact h.held r hr
  have ha0 : ((setPipe s p { s.pipe p with armed := false }).pipe p).armed = false := by
    rw [setPipe_pipe, upd_same]
  have hnp0 : ∀ r ∈ (setPipe s p { s.pipe p with armed := false }).recvpipes, r.pipe ≠ p := hnp
  unfold pipeRecv
  dsimp only
  generalize setPipe s p { s.pipe p with armed := false } = s0 at h0 ha0 hnp0 ⊢
  split
  · -- drop: re-arm
    have hpipe1 : ∀ q, ((setPipe s0 p { s0.pipe p with armed := true }).pipe q).sendq = (s0.pipe q).sendq ∧
        ((setPipe s0 p { s0.pipe p with armed := true }).pipe q).closed = (s0.pipe q).closed ∧
        (q ≠ p → ((setPipe s0 p { s0.pipe p with armed := true }).pipe q).armed = (s0.pipe q).armed) := by
      intro q
      rw [setPipe_pipe, upd_apply]
      by_cases hq : q = p
      · rw [if_pos hq, hq]; exact ⟨rfl, rfl, fun h => absurd rfl h⟩
      · rw [if_neg hq]; exact ⟨rfl, rfl, fun _ => rfl⟩
    refine inv5_weaken h0 rfl rfl rfl rfl (fun _ => Or.inl rfl) (fun _ => rfl) (fun _ => rfl)
      (fun q => (hpipe1 q).1) (fun q => (hpipe1 q).2.1) ?_ h0.heldnd
    intro r hr
    rw [(hpipe1 _).2.2 (hnp0 r hr)]
    exact h0.held r hr
  · exact closePipe_inv5 _ _ _ h0
  · rename_i hdr body _
    split
    · -- hold the request
      refine inv5_weaken h0 rfl rfl rfl rfl (fun _ => Or.inl rfl) (fun _ => rfl) (fun _ => rfl)
        (fun _ => rfl) (fun _ => rfl) ?_ ?_
      · intro r hr
        have hr' : r ∈ s0.recvpipes ++ [⟨s0.narrive, p, hdr, body⟩] := hr
        rw [List.mem_append, List.mem_singleton] at hr'
        cases hr' with
        | inl hr' => exact h0.held r hr'
        | inr hr' => subst hr'; exact ha0
      · show ((s0.recvpipes ++ [(⟨s0.narrive, p, hdr, body⟩ : Req)]).map (·.pipe)).Nodup
        rw [List.map_append, List.nodup_append]
        refine ⟨h0.heldnd, by simp, ?_⟩
        intro a ha b hb
        rw [List.mem_map] at ha
        obtain ⟨r, hr, rfl⟩ := ha
        simp at hb
        subst hb
        exact hnp0 r hr
    · rename_i k rest hq
      split
      · exact inv5_same h0 rfl rfl rfl rfl rfl rfl rfl
      · dsimp only
        apply deliver_inv5
        · have hctx : ∀ k', ((upd s0.ctx k { s0.ctx k with raio := none }) k').saio = (s0.ctx k').saio ∧
              ((upd s0.ctx k { s0.ctx k with raio := none }) k').spipe = (s0.ctx k').spipe ∧
              (((upd s0.ctx k { s0.ctx k with raio := none }) k').raio = (s0.ctx k').raio ∨
               ((upd s0.ctx k { s0.ctx k with raio := none }) k').raio = none) := by
            intro k'
            rw [upd_apply]
            by_cases hk : k' = k
            · rw [if_pos hk, hk]; exact ⟨rfl, rfl, Or.inr rfl⟩
            · rw [if_neg hk]; exact ⟨rfl, rfl, Or.inl rfl⟩
          exact inv5_weaken h0 rfl rfl rfl rfl (fun k' => (hctx k').2.2) (fun k' => (hctx k').1) (fun k' => (hctx k').2.1)
            (fun _ => rfl) (fun _ => rfl) h0.held h0.heldnd
        · exact hnp0

theorem inv5_park_recv (s : State) (k : Nat) (pk : Parked) (used : List Bytes) (h : Inv5 s used)
    (hk : k < s.nctx) (hf : AioFree s pk.aio) : Inv5 (setCtx s k { s.ctx k with raio := some pk }) used := by
  have hctx : ∀ k', ((setCtx s k { s.ctx k with raio := some pk }).ctx k').saio = (s.ctx k').saio ∧
      ((setCtx s k { s.ctx k with raio := some pk }).ctx k').spipe = (s.ctx k').spipe ∧
      ((setCtx s k { s.ctx k with raio := some pk }).ctx k').raio = if k' = k then some pk else (s.ctx k').raio := by
    intro k'
    rw [setCtx_ctx, upd_apply]
    by_cases hk : k' = k
    · rw [if_pos hk, if_pos hk, hk]; exact ⟨rfl, rfl, rfl⟩
    · rw [if_neg hk, if_neg hk]; exact ⟨rfl, rfl, rfl⟩
  have hl : ∀ p, livePipe (setCtx s k { s.ctx k with raio := some pk }) p = livePipe s p := fun p => rfl
  obtain ⟨hf1, hf2⟩ := hf
  obtain ⟨h1, h2, h3, h4, h5, h6, h7, h8, h9, h10, h11, h12, h13, h14⟩ := h
  have hs := fun k' => (hctx k').1
  have hsp := fun k' => (hctx k').2.1
  have hr := fun k' => (hctx k').2.2
  constructor
  · intro k' hk'
    have hk'' : s.nctx ≤ k' := hk'
    rw [hr, hs, if_neg (by omega)]
    exact h1 k' hk''
  · simpa only [setCtx_pipe, hl, hs, hsp] using h2
  · simpa only [setCtx_pipe, hs, hsp] using h3
  · exact h4
  · simpa only [hs] using h5
  · intro k1 k2 pk1 pk2 hk1 hk2 he
    rw [hr] at hk1 hk2
    by_cases e1 : k1 = k <;> by_cases e2 : k2 = k
    · rw [e1, e2]
    · rw [if_pos e1] at hk1; rw [if_neg e2] at hk2
      injection hk1 with hk1; subst hk1
      exact absurd he.symm (hf1 k2 pk2 hk2)
    · rw [if_neg e1] at hk1; rw [if_pos e2] at hk2
      injection hk2 with hk2; subst hk2
      exact absurd he (hf1 k1 pk1 hk1)
    · rw [if_neg e1] at hk1; rw [if_neg e2] at hk2
      exact h6 k1 k2 pk1 pk2 hk1 hk2 he
  · intro k1 k2 pk1 hk1
    rw [hr] at hk1; rw [hs]
    by_cases e1 : k1 = k
    · rw [if_pos e1] at hk1; injection hk1 with hk1; subst hk1; exact hf2 k2
    · rw [if_neg e1] at hk1; exact h7 k1 k2 pk1 hk1
  · exact h8
  · exact h9
  · exact h10
  · exact h11
  · exact h12
  · exact h13
  · exact h14

theorem ctxRecv_inv5 (s : State) (k a : Nat) (mode : Mode) (used : List Bytes) (h : Inv5 s used)
    (hk : k < s.nctx) (hf : AioFree s a) : Inv5 (ctxRecv s k a mode).1 used := by
  unfold ctxRecv
  split
  · split
    · exact h
    · exact h
    · split
      · exact h
      · dsimp only
        exact inv5_same (inv5_park_recv s k ⟨a, deadlineOf s.now mode⟩ used h hk hf) rfl rfl rfl rfl rfl rfl rfl
  · rename_i r rest hrp
    dsimp only
    have hnd := h.heldnd
    rw [hrp, List.map_cons, List.nodup_cons] at hnd
    have h1 : Inv5 { s with recvpipes := rest } used := by
      refine inv5_weaken h rfl rfl rfl rfl (fun _ => Or.inl rfl) (fun _ => rfl) (fun _ => rfl)
        (fun _ => rfl) (fun _ => rfl) ?_ hnd.2
      intro r' hr'
      exact h.held r' (by rw [hrp]; exact List.mem_cons_of_mem _ hr')
    apply deliver_inv5
    · split
      · exact inv5_same h1 rfl rfl rfl rfl rfl rfl rfl
      · exact h1
    · have : ∀ r' ∈ rest, r'.pipe ≠ r.pipe := by
        intro r' hr' he
        apply hnd.1
        rw [← he]
        exact List.mem_map_of_mem hr'
      revert this
      split <;> exact id

/-! #### sends -/
theorem inv5_wire_append {s s' : State} {used used' : List Bytes} (w : WireRec) (h : Inv5 s used)
    (hu : ∀ b ∈ used, b ∈ used') (hwb : w.body ∈ used')
    (hne : ∀ p, ∀ e ∈ (s.pipe p).sendq, e.body ≠ w.body)
    (hn : s'.nctx = s.nctx) (hnp : s'.npipes = s.npipes) (hsl : s'.slot = s.slot)
    (hrp : s'.recvpipes = s.recvpipes) (hw : s'.wire = s.wire ++ [w])
    (hc : s'.ctx = s.ctx) (hp : s'.pipe = s.pipe) : Inv5 s' used' := by
  have hl : ∀ p, livePipe s' p = livePipe s p := fun p => livePipe_congr p hnp (by rw [hp])
  obtain ⟨h1, h2, h3, h4, h5, h6, h7, h8, h9, h10, h11, h12, h13, h14⟩ := inv5_mono h hu
  constructor
  · simpa only [hn, hc] using h1
  · simpa only [hp, hl, hc] using h2
  · simpa only [hp, hc] using h3
  · simpa only [hp] using h4
  · simpa only [hc] using h5
  · simpa only [hc] using h6
  · simpa only [hc] using h7
  · simpa only [hsl] using h8
  · simpa only [hsl] using h9
  · simpa only [hrp, hp] using h10
  · simpa only [hrp] using h11
  · intro w' hw'
    rw [hw, List.mem_append, List.mem_singleton] at hw'
    cases hw' with
    | inl hw' => exact h12 w' hw'
    | inr hw' => subst hw'; exact hwb
  · intro q e he
    rw [hp] at he
    refine ⟨(h13 q e he).1, ?_⟩
    intro w' hw'
    rw [hw, List.mem_append, List.mem_singleton] at hw'
    cases hw' with
    | inl hw' => exact (h13 q e he).2 w' hw'
    | inr hw' => subst hw'; exact fun e' => hne q e he e'.symm
  · simpa only [hp] using h14

/-- context `k` stops waiting for pipe `p` -/
theorem inv5_unsend (s : State) (k p : Nat) (pp : Pipe) (c : Ctx) (used : List Bytes) (h : Inv5 s used)
    (hsp : (s.ctx k).spipe = some p)
    (hc1 : c.saio = none) (hc2 : c.raio = (s.ctx k).raio)
    (hp1 : pp.sendq = (s.pipe p).sendq.filter (·.ctx != k)) (hp2 : pp.closed = (s.pipe p).closed)
    (hp3 : pp.armed = (s.pipe p).armed) :
    Inv5 (setCtx (setPipe s p pp) k c) used ∧
    ∀ q, ∀ e ∈ ((setCtx (setPipe s p pp) k c).pipe q).sendq, e ∈ (s.pipe q).sendq ∧ e.ctx ≠ k := by
  have hctx : ∀ k', k' ≠ k → (setCtx (setPipe s p pp) k c).ctx k' = s.ctx k' := by
    intro k' hk'; rw [setCtx_ctx, setPipe_ctx, upd_other _ _ hk']
  have hctxk : (setCtx (setPipe s p pp) k c).ctx k = c := by rw [setCtx_ctx, upd_same]
  have hr : ∀ k', ((setCtx (setPipe s p pp) k c).ctx k').raio = (s.ctx k').raio := by
    intro k'
    by_cases hk' : k' = k
    · rw [hk', hctxk, hc2]
    · rw [hctx k' hk']
  have hpq : ∀ q, q ≠ p → (setCtx (setPipe s p pp) k c).pipe q = s.pipe q := by
    intro q hq; rw [setCtx_pipe, setPipe_pipe, upd_other _ _ hq]
  have hpp : (setCtx (setPipe s p pp) k c).pipe p = pp := by rw [setCtx_pipe, setPipe_pipe, upd_same]
  have hcl : ∀ q, ((setCtx (setPipe s p pp) k c).pipe q).closed = (s.pipe q).closed := by
    intro q
    by_cases hq : q = p
    · rw [hq, hpp, hp2]
    · rw [hpq q hq]
  have har : ∀ q, ((setCtx (setPipe s p pp) k c).pipe q).armed = (s.pipe q).armed := by
    intro q
    by_cases hq : q = p
    · rw [hq, hpp, hp3]
    · rw [hpq q hq]
  have hl : ∀ q, livePipe (setCtx (setPipe s p pp) k c) q = livePipe s q := fun q => livePipe_congr q rfl (hcl q)
  have hsq : ∀ q, ∀ e ∈ ((setCtx (setPipe s p pp) k c).pipe q).sendq, e ∈ (s.pipe q).sendq ∧ e.ctx ≠ k := by
    intro q e he
    by_cases hq : q = p
    · rw [hq, hpp, hp1, List.mem_filter] at he
      rw [hq]
      exact ⟨he.1, by simpa using he.2⟩
    · rw [hpq q hq] at he
      refine ⟨he, ?_⟩
      intro hek
      have := (h.sq q e he).2.2
      rw [hek, hsp] at this
      injection this with this
      exact hq this.symm
  have hsq' : ∀ q, ∀ e ∈ (s.pipe q).sendq, e.ctx ≠ k → e ∈ ((setCtx (setPipe s p pp) k c).pipe q).sendq := by
    intro q e he hek
    by_cases hq : q = p
    · rw [hq, hpp, hp1, List.mem_filter]
      rw [hq] at he
      exact ⟨he, by simpa using hek⟩
    · rw [hpq q hq]; exact he
  refine ⟨?_, hsq⟩
  obtain ⟨h1, h2, h3, h4, h5, h6, h7, h8, h9, h10, h11, h12, h13, h14⟩ := h
  constructor
  · intro k' hk'
    have hk'' : s.nctx ≤ k' := hk'
    rw [hr]
    refine ⟨(h1 k' hk'').1, ?_⟩
    by_cases hk : k' = k
    · rw [hk, hctxk]; exact hc1
    · rw [hctx k' hk]; exact (h1 k' hk'').2
  · intro q e he
    obtain ⟨he0, hek⟩ := hsq q e he
    rw [hl, hctx _ hek]; exact h2 q e he0
  · intro k' a' hk'
    have hne : k' ≠ k := by
      intro e; rw [e, hctxk, hc1] at hk'; cases hk'
    rw [hctx k' hne] at hk' ⊢
    obtain ⟨q, hq, e, he, hek, hea⟩ := h3 k' a' hk'
    exact ⟨q, hq, e, hsq' q e he (by rw [hek]; exact hne), hek, hea⟩
  · intro q
    by_cases hq : q = p
    · rw [hq, hpp, hp1]; exact List.Nodup.sublist (List.filter_sublist.map _) (h4 p)
    · rw [hpq q hq]; exact h4 q
  · intro k1 k2 a' e1 e2
    have n1 : k1 ≠ k := by
      intro e; rw [e, hctxk, hc1] at e1; cases e1
    have n2 : k2 ≠ k := by
      intro e; rw [e, hctxk, hc1] at e2; cases e2
    rw [hctx _ n1] at e1; rw [hctx _ n2] at e2
    exact h5 k1 k2 a' e1 e2
  · simpa only [hr] using h6
  · intro k1 k2 pk e1
    rw [hr] at e1
    by_cases hk : k2 = k
    · rw [hk, hctxk, hc1]; simp
    · rw [hctx _ hk]; exact h7 k1 k2 pk e1
  · exact h8
  · exact h9
  · intro r hr'; rw [har]; exact h10 r hr'
  · exact h11
  · exact h12
  · intro q e he; exact h13 q e (hsq q e he).1
  · intro q q' e e' he he'; exact h14 q q' e e' (hsq q e he).1 (hsq q' e' he').1

/-- context `k` starts waiting for pipe `p` -/
theorem inv5_park_send (s : State) (k a p : Nat) (e : PSend) (used : List Bytes) (h : Inv5 s used)
    (hk : k < s.nctx) (hf : AioFree s a) (hsaio : (s.ctx k).saio = none) (hlp : livePipe s p = true)
    (hek : e.ctx = k) (hea : e.aio = a) (hb : e.body ∉ used) :
    Inv5 (setPipe (setCtx s k { s.ctx k with saio := some a, spipe := some p }) p
      { (setCtx s k { s.ctx k with saio := some a, spipe := some p }).pipe p with
        sendq := ((setCtx s k { s.ctx k with saio := some a, spipe := some p }).pipe p).sendq ++ [e] })
      (used ++ [e.body]) := by
  generalize hS : setPipe (setCtx s k { s.ctx k with saio := some a, spipe := some p }) p
      { (setCtx s k { s.ctx k with saio := some a, spipe := some p }).pipe p with
        sendq := ((setCtx s k { s.ctx k with saio := some a, spipe := some p }).pipe p).sendq ++ [e] } = S
  have hn : S.nctx = s.nctx := by rw [← hS]; rfl
  have hnp : S.npipes = s.npipes := by rw [← hS]; rfl
  have hsl : S.slot = s.slot := by rw [← hS]; rfl
  have hrp : S.recvpipes = s.recvpipes := by rw [← hS]; rfl
  have hw : S.wire = s.wire := by rw [← hS]; rfl
  have hctx : ∀ k', k' ≠ k → S.ctx k' = s.ctx k' := by
    intro k' hk'; rw [← hS, setPipe_ctx, setCtx_ctx, upd_other _ _ hk']
  have hctxk : S.ctx k = { s.ctx k with saio := some a, spipe := some p } := by
    rw [← hS, setPipe_ctx, setCtx_ctx, upd_same]
  have hr : ∀ k', (S.ctx k').raio = (s.ctx k').raio := by
    intro k'
    by_cases hk' : k' = k
    · rw [hk', hctxk]
    · rw [hctx k' hk']
  have hpq : ∀ q, q ≠ p → S.pipe q = s.pipe q := by
    intro q hq; rw [← hS, setPipe_pipe, upd_other _ _ hq, setCtx_pipe]
  have hpp : S.pipe p = { s.pipe p with sendq := (s.pipe p).sendq ++ [e] } := by
    rw [← hS, setPipe_pipe, upd_same, setCtx_pipe]
  have hcl : ∀ q, (S.pipe q).closed = (s.pipe q).closed := by
    intro q
    by_cases hq : q = p
    · rw [hq, hpp]
    · rw [hpq q hq]
  have har : ∀ q, (S.pipe q).armed = (s.pipe q).armed := by
    intro q
    by_cases hq : q = p
    · rw [hq, hpp]
    · rw [hpq q hq]
  have hl : ∀ q, livePipe S q = livePipe s q := fun q => livePipe_congr q hnp (hcl q)
  have hnok : ∀ q, ∀ e' ∈ (s.pipe q).sendq, e'.ctx ≠ k := by
    intro q e' he' hc
    have := (h.sq q e' he').2.1
    rw [hc, hsaio] at this; cases this
  have hmem : ∀ q e', e' ∈ (S.pipe q).sendq → e' ∈ (s.pipe q).sendq ∨ (q = p ∧ e' = e) := by
    intro q e' he'
    by_cases hq : q = p
    · rw [hq, hpp] at he'
      have he'' : e' ∈ (s.pipe p).sendq ++ [e] := he'
      rw [List.mem_append, List.mem_singleton] at he''
      cases he'' with
      | inl h' => left; rw [hq]; exact h'
      | inr h' => right; exact ⟨hq, h'⟩
    · rw [hpq q hq] at he'; left; exact he'
  have hmem' : ∀ q e', e' ∈ (s.pipe q).sendq → e' ∈ (S.pipe q).sendq := by
    intro q e' he'
    by_cases hq : q = p
    · rw [hq, hpp]; rw [hq] at he'
      show e' ∈ (s.pipe p).sendq ++ [e]
      exact List.mem_append_left _ he'
    · rw [hpq q hq]; exact he'
  have hmeme : e ∈ (S.pipe p).sendq := by
    rw [hpp]
    show e ∈ (s.pipe p).sendq ++ [e]
    exact List.mem_append_right _ List.mem_cons_self
  obtain ⟨hf1, hf2⟩ := hf
  obtain ⟨h1, h2, h3, h4, h5, h6, h7, h8, h9, h10, h11, h12, h13, h14⟩ := h
  constructor
  · intro k' hk'
    rw [hn] at hk'
    rw [hr, hctx k' (by omega)]
    exact h1 k' hk'
  · intro q e' he'
    rw [hl]
    cases hmem q e' he' with
    | inl ho => rw [hctx _ (hnok q e' ho)]; exact h2 q e' ho
    | inr hnew =>
      obtain ⟨hq, he⟩ := hnew
      rw [he, hek, hctxk, hq, hea]
      exact ⟨hlp, rfl, rfl⟩
  · intro k' a' hk'
    by_cases hkk : k' = k
    · rw [hkk, hctxk] at hk' ⊢
      injection hk' with hk'
      exact ⟨p, rfl, e, hmeme, hek, by rw [hea, hk']⟩
    · rw [hctx k' hkk] at hk' ⊢
      obtain ⟨q, hq, e0, he0, hc0, ha0⟩ := h3 k' a' hk'
      exact ⟨q, hq, e0, hmem' q e0 he0, hc0, ha0⟩
  · intro q
    by_cases hq : q = p
    · rw [hq, hpp]
      show (((s.pipe p).sendq ++ [e]).map (·.ctx)).Nodup
      rw [List.map_append, List.nodup_append]
      refine ⟨h4 p, by simp, ?_⟩
      intro x hx y hy
      rw [List.mem_map] at hx
      obtain ⟨e0, he0, rfl⟩ := hx
      simp at hy
      rw [hy, hek]
      exact hnok p e0 he0
    · rw [hpq q hq]; exact h4 q
  · intro k1 k2 a' e1 e2
    by_cases c1 : k1 = k <;> by_cases c2 : k2 = k
    · rw [c1, c2]
    · rw [c1, hctxk] at e1; rw [hctx _ c2] at e2
      injection e1 with e1; rw [← e1] at e2
      exact absurd e2 (hf2 k2)
    · rw [c2, hctxk] at e2; rw [hctx _ c1] at e1
      injection e2 with e2; rw [← e2] at e1
      exact absurd e1 (hf2 k1)
    · rw [hctx _ c1] at e1; rw [hctx _ c2] at e2
      exact h5 k1 k2 a' e1 e2
  · simpa only [hr] using h6
  · intro k1 k2 pk e1
    rw [hr] at e1
    by_cases c2 : k2 = k
    · rw [c2, hctxk]
      intro e2
      injection e2 with e2
      exact hf1 k1 pk e1 e2.symm
    · rw [hctx _ c2]; exact h7 k1 k2 pk e1
  · rw [hsl]; exact h8
  · rw [hsl]; exact h9
  · intro r hr'; rw [har]; rw [hrp] at hr'; exact h10 r hr'
  · rw [hrp]; exact h11
  · intro w hw'; rw [hw] at hw'; exact List.mem_append_left _ (h12 w hw')
  · intro q e' he'
    rw [hw]
    cases hmem q e' he' with
    | inl ho => exact ⟨List.mem_append_left _ (h13 q e' ho).1, (h13 q e' ho).2⟩
    | inr hnew =>
      rw [hnew.2]
      refine ⟨List.mem_append_right _ List.mem_cons_self, ?_⟩
      intro w hw' hc
      apply hb; rw [← hc]; exact h12 w hw'
  · intro q q' e1 e2 he1 he2 hbb
    cases hmem q e1 he1 with
    | inl o1 =>
      cases hmem q' e2 he2 with
      | inl o2 => exact h14 q q' e1 e2 o1 o2 hbb
      | inr n2 =>
        exfalso; apply hb; rw [← n2.2, ← hbb]; exact (h13 q e1 o1).1
    | inr n1 =>
      cases hmem q' e2 he2 with
      | inl o2 =>
        exfalso; apply hb; rw [← n1.2, hbb]; exact (h13 q' e2 o2).1
      | inr n2 => rw [n1.2, n2.2]

theorem ctxSend_inv5 (s : State) (k a : Nat) (m : WMsg) (mode : Mode) (used : List Bytes) (h : Inv5 s used)
    (hk : k < s.nctx) (hf : AioFree s a) (hb : m.body ∉ used) :
    Inv5 (ctxSend s k a m mode).1 (used ++ [m.body]) := by
  have hsub : ∀ b ∈ used, b ∈ used ++ [m.body] := fun b hb' => List.mem_append_left _ hb'
  have hc2 : ∀ k', ((if (k == 0) = true then setW (setCtx s k { s.ctx k with btrace := [], pipeId := none }) false
                  else setCtx s k { s.ctx k with btrace := [], pipeId := none }).ctx k').raio = (s.ctx k').raio ∧
      ((if (k == 0) = true then setW (setCtx s k { s.ctx k with btrace := [], pipeId := none }) false
                  else setCtx s k { s.ctx k with btrace := [], pipeId := none }).ctx k').saio = (s.ctx k').saio ∧
      ((if (k == 0) = true then setW (setCtx s k { s.ctx k with btrace := [], pipeId := none }) false
                  else setCtx s k { s.ctx k with btrace := [], pipeId := none }).ctx k').spipe = (s.ctx k').spipe := by
    intro k'
    have : ∀ k', ((setCtx s k { s.ctx k with btrace := [], pipeId := none }).ctx k').raio = (s.ctx k').raio ∧
        ((setCtx s k { s.ctx k with btrace := [], pipeId := none }).ctx k').saio = (s.ctx k').saio ∧
        ((setCtx s k { s.ctx k with btrace := [], pipeId := none }).ctx k').spipe = (s.ctx k').spipe := by
      intro k'
      rw [setCtx_ctx, upd_apply]
      by_cases hk : k' = k
      · rw [if_pos hk, hk]; exact ⟨rfl, rfl, rfl⟩
      · rw [if_neg hk]; exact ⟨rfl, rfl, rfl⟩
    split
    · exact this k'
    · exact this k'
  have hfr : (if (k == 0) = true then setW (setCtx s k { s.ctx k with btrace := [], pipeId := none }) false
                  else setCtx s k { s.ctx k with btrace := [], pipeId := none }).nctx = s.nctx ∧
      (if (k == 0) = true then setW (setCtx s k { s.ctx k with btrace := [], pipeId := none }) false
                  else setCtx s k { s.ctx k with btrace := [], pipeId := none }).npipes = s.npipes ∧
      (if (k == 0) = true then setW (setCtx s k { s.ctx k with btrace := [], pipeId := none }) false
                  else setCtx s k { s.ctx k with btrace := [], pipeId := none }).slot = s.slot ∧
      (if (k == 0) = true then setW (setCtx s k { s.ctx k with btrace := [], pipeId := none }) false
                  else setCtx s k { s.ctx k with btrace := [], pipeId := none }).recvpipes = s.recvpipes ∧
      (if (k == 0) = true then setW (setCtx s k { s.ctx k with btrace := [], pipeId := none }) false
                  else setCtx s k { s.ctx k with btrace := [], pipeId := none }).wire = s.wire ∧
      (if (k == 0) = true then setW (setCtx s k { s.ctx k with btrace := [], pipeId := none }) false
                  else setCtx s k { s.ctx k with btrace := [], pipeId := none }).pipe = s.pipe := by
    split <;> exact ⟨rfl, rfl, rfl, rfl, rfl, rfl⟩
  unfold ctxSend
  dsimp only
  split
  · exact inv5_mono h hsub
  · rename_i hns
    have hsaio : (s.ctx k).saio = none := by
      cases hx : (s.ctx k).saio with
      | none => rfl
      | some x => rw [hx] at hns; simp at hns
    generalize (if (k == 0) = true then setW (setCtx s k { s.ctx k with btrace := [], pipeId := none }) false
                  else setCtx s k { s.ctx k with btrace := [], pipeId := none }) = s2 at hc2 hfr ⊢
    obtain ⟨f1, f2, f3, f4, f5, f6⟩ := hfr
    have h2 : Inv5 s2 used :=
      inv5_congr h f1 f2 f3 f4 f5 (fun k' => (hc2 k').1) (fun k' => (hc2 k').2.1) (fun k' => (hc2 k').2.2)
        (fun q => by rw [f6]) (fun q => by rw [f6]) (fun q => by rw [f6])
    have hsaio2 : (s2.ctx k).saio = none := by rw [(hc2 k).2.1]; exact hsaio
    have hk2 : k < s2.nctx := by rw [f1]; exact hk
    have hf2 : AioFree s2 a := by
      constructor
      · intro k' pk hk'; rw [(hc2 k').1] at hk'; exact hf.1 k' pk hk'
      · intro k'; rw [(hc2 k').2.1]; exact hf.2 k'
    split
    · exact inv5_mono h2 hsub
    · split
      · exact inv5_mono h2 hsub
      · rename_i p _
        split
        · exact inv5_same (inv5_mono h2 hsub) rfl rfl rfl rfl rfl rfl rfl
        · rename_i hlv
          have hlp : livePipe s2 p = true := by simpa using hlv
          split
          · have hpipe : ∀ q, ((setPipe s2 p { s2.pipe p with busy := true }).pipe q).sendq = (s2.pipe q).sendq ∧
                ((setPipe s2 p { s2.pipe p with busy := true }).pipe q).armed = (s2.pipe q).armed ∧
                ((setPipe s2 p { s2.pipe p with busy := true }).pipe q).closed = (s2.pipe q).closed := by
              intro q
              rw [setPipe_pipe, upd_apply]
              by_cases hq : q = p
              · rw [if_pos hq, hq]; exact ⟨rfl, rfl, rfl⟩
              · rw [if_neg hq]; exact ⟨rfl, rfl, rfl⟩
            have h3 : Inv5 (setPipe s2 p { s2.pipe p with busy := true }) used :=
              inv5_congr h2 rfl rfl rfl rfl rfl (fun _ => rfl) (fun _ => rfl) (fun _ => rfl)
                (fun q => (hpipe q).1) (fun q => (hpipe q).2.1) (fun q => (hpipe q).2.2)
            generalize setPipe s2 p { s2.pipe p with busy := true } = s3 at h3 ⊢
            have h4 : Inv5 (if ((s3.ctx 0).pipeId == some p) = true then setW s3 false else s3) used := by
              split
              · exact inv5_same h3 rfl rfl rfl rfl rfl rfl rfl
              · exact h3
            generalize (if ((s3.ctx 0).pipeId == some p) = true then setW s3 false else s3) = s4 at h4 ⊢
            refine inv5_wire_append _ h4 hsub (List.mem_append_right _ List.mem_cons_self) ?_ rfl rfl rfl rfl rfl rfl rfl
            intro q e he hc
            apply hb
            have := (h4.qu q e he).1
            rw [hc] at this; exact this
          · split
            · exact inv5_mono h2 hsub
            · exact inv5_mono h2 hsub
            · dsimp only
              exact inv5_park_send s2 k a p _ used h2 hk2 hf2 hsaio2 hlp rfl rfl hb

theorem pipeSent_inv5 (s : State) (p : Nat) (used : List Bytes) (h : Inv5 s used) :
    Inv5 (pipeSent s p).1 used := by
  unfold pipeSent
  dsimp only
  split
  · dsimp only
    have hpipe : ∀ q, ((setPipe s p { s.pipe p with busy := false }).pipe q).sendq = (s.pipe q).sendq ∧
        ((setPipe s p { s.pipe p with busy := false }).pipe q).armed = (s.pipe q).armed ∧
        ((setPipe s p { s.pipe p with busy := false }).pipe q).closed = (s.pipe q).closed := by
      intro q
      rw [setPipe_pipe, upd_apply]
      by_cases hq : q = p
      · rw [if_pos hq, hq]; exact ⟨rfl, rfl, rfl⟩
      · rw [if_neg hq]; exact ⟨rfl, rfl, rfl⟩
    have h1 : Inv5 (setPipe s p { s.pipe p with busy := false }) used :=
      inv5_congr h rfl rfl rfl rfl rfl (fun _ => rfl) (fun _ => rfl) (fun _ => rfl)
        (fun q => (hpipe q).1) (fun q => (hpipe q).2.1) (fun q => (hpipe q).2.2)
    split
    · exact inv5_same h1 rfl rfl rfl rfl rfl rfl rfl
    · exact h1
  · rename_i e rest hq
    have hmem : e ∈ (s.pipe p).sendq := by rw [hq]; exact List.mem_cons_self
    obtain ⟨_, hsa, hsp⟩ := h.sq p e hmem
    have hnd := h.sqnd p
    rw [hq, List.map_cons, List.nodup_cons] at hnd
    have hfil : rest = (s.pipe p).sendq.filter (·.ctx != e.ctx) := by
      rw [hq, List.filter_cons_of_neg (by simp)]
      symm; rw [List.filter_eq_self]
      intro e' he'
      simp only [bne_iff_ne, ne_eq]
      intro hc; apply hnd.1; rw [← hc]; exact List.mem_map_of_mem he'
    obtain ⟨h1, hsq⟩ := inv5_unsend s e.ctx p { s.pipe p with busy := true, sendq := rest }
      { (setPipe s p { s.pipe p with busy := true, sendq := rest }).ctx e.ctx with saio := none, spipe := none }
      used h hsp rfl rfl hfil rfl rfl
    refine inv5_wire_append (wireOf p e) h1 (fun _ hb => hb) (h.qu p e hmem).1 ?_ rfl rfl rfl rfl rfl rfl rfl
    intro q e' he' hb
    obtain ⟨he0, hne⟩ := hsq q e' he'
    exact hne (h.qq q p e' e he0 hmem hb)

/-! #### cancel functions, context close -/
theorem inv5_unpark (s : State) (k : Nat) (used : List Bytes) (h : Inv5 s used) :
    Inv5 { setCtx s k { s.ctx k with raio := none } with recvq := (setCtx s k { s.ctx k with raio := none }).recvq.filter (· != k) } used := by
  have hctx : ∀ k', ((upd s.ctx k { s.ctx k with raio := none }) k').saio = (s.ctx k').saio ∧
      ((upd s.ctx k { s.ctx k with raio := none }) k').spipe = (s.ctx k').spipe ∧
      (((upd s.ctx k { s.ctx k with raio := none }) k').raio = (s.ctx k').raio ∨
       ((upd s.ctx k { s.ctx k with raio := none }) k').raio = none) := by
    intro k'
    rw [upd_apply]
    by_cases hk : k' = k
    · rw [if_pos hk, hk]; exact ⟨rfl, rfl, Or.inr rfl⟩
    · rw [if_neg hk]; exact ⟨rfl, rfl, Or.inl rfl⟩
  exact inv5_weaken h rfl rfl rfl rfl (fun k' => (hctx k').2.2) (fun k' => (hctx k').1) (fun k' => (hctx k').2.1)
    (fun _ => rfl) (fun _ => rfl) h.held h.heldnd

theorem failAio_inv5 (s : State) (a rv : Nat) (used : List Bytes) (h : Inv5 s used) :
    Inv5 (failAio s a rv).1 used := by
  unfold failAio
  split
  · rename_i k _
    dsimp only
    exact inv5_unpark s k used h
  · split
    · rename_i k hf
      dsimp only
      have hsa : (s.ctx k).saio = some a := by simpa using List.find?_some hf
      obtain ⟨p, hsp, _⟩ := h.sa k a hsa
      simp only [hsp]
      refine And.left (inv5_unsend s k p _ _ used h hsp ?_ ?_ ?_ ?_ ?_) <;> rfl
    · exact h

theorem expire_inv5 (s : State) (used : List Bytes) (h : Inv5 s used) : Inv5 (expire s).1 used := by
  unfold expire failAll
  exact foldl_pres' (fun s => Inv5 s used) (fun s a => failAio s a Err.etimedout)
    (fun s a h => failAio_inv5 s a _ used h) _ s [] h

theorem ctxCloseParked_inv5 (s : State) (k : Nat) (used : List Bytes) (h : Inv5 s used) :
    Inv5 (ctxCloseParked s k).1 used := by
  have h1 : Inv5 (ctxCloseSend s k).1 used := by
    unfold ctxCloseSend
    split
    · rename_i a hsa
      dsimp only
      obtain ⟨p, hsp, _⟩ := h.sa k a hsa
      simp only [hsp]
      refine And.left (inv5_unsend s k p _ _ used h hsp ?_ ?_ ?_ ?_ ?_) <;> rfl
    · exact h
  have h2 : Inv5 (ctxCloseRecv (ctxCloseSend s k).1 k).1 used := by
    generalize (ctxCloseSend s k).1 = s1 at h1 ⊢
    unfold ctxCloseRecv
    split
    · dsimp only
      exact inv5_unpark s1 k used h1
    · exact h1
  unfold ctxCloseParked
  dsimp only
  generalize (ctxCloseRecv (ctxCloseSend s k).1 k).1 = s2 at h2 ⊢
  have hctx : ∀ k', ((setCtx s2 k { s2.ctx k with isOpen := false }).ctx k').raio = (s2.ctx k').raio ∧
      ((setCtx s2 k { s2.ctx k with isOpen := false }).ctx k').saio = (s2.ctx k').saio ∧
      ((setCtx s2 k { s2.ctx k with isOpen := false }).ctx k').spipe = (s2.ctx k').spipe := by
    intro k'
    rw [setCtx_ctx, upd_apply]
    by_cases hk : k' = k
    · rw [if_pos hk, hk]; exact ⟨rfl, rfl, rfl⟩
    · rw [if_neg hk]; exact ⟨rfl, rfl, rfl⟩
  exact inv5_congr h2 rfl rfl rfl rfl rfl (fun k' => (hctx k').1) (fun k' => (hctx k').2.1) (fun k' => (hctx k').2.2)
    (fun _ => rfl) (fun _ => rfl) (fun _ => rfl)

/-! #### step -/
theorem inv5_nobody {s : State} {used : List Bytes} (ev : Ev) (h : Inv5 s used) (he : evBody ev = none) :
    Inv5 s (used ++ (evBody ev).toList) := by
  rw [he]; simpa using h

theorem inv5_keep {s : State} {used : List Bytes} (l : List Bytes) (h : Inv5 s used) : Inv5 s (used ++ l) :=
  inv5_mono h (fun _ hb => List.mem_append_left _ hb)

/-- a context with no queued reply is re-initialised -/
theorem inv5_reset_ctx (s : State) (k : Nat) (c : Ctx) (used : List Bytes) (h : Inv5 s used)
    (hs : (s.ctx k).saio = none) (hc1 : c.raio = none) (hc2 : c.saio = none) : Inv5 (setCtx s k c) used := by
  have hctx : ∀ k', k' ≠ k → (setCtx s k c).ctx k' = s.ctx k' := by
    intro k' hk'; rw [setCtx_ctx, upd_other _ _ hk']
  have hctxk : (setCtx s k c).ctx k = c := by rw [setCtx_ctx, upd_same]
  have hnok : ∀ q, ∀ e' ∈ (s.pipe q).sendq, e'.ctx ≠ k := by
    intro q e' he' hc
    have := (h.sq q e' he').2.1
    rw [hc, hs] at this; cases this
  obtain ⟨h1, h2, h3, h4, h5, h6, h7, h8, h9, h10, h11, h12, h13, h14⟩ := h
  constructor
  · intro k' hk'
    by_cases hk : k' = k
    · rw [hk, hctxk]; exact ⟨hc1, hc2⟩
    · rw [hctx k' hk]; exact h1 k' hk'
  · intro q e he
    have he' : e ∈ (s.pipe q).sendq := he
    rw [hctx _ (hnok q e he')]
    exact h2 q e he'
  · intro k' a hk'
    have hk : k' ≠ k := by
      intro e; rw [e, hctxk, hc2] at hk'; cases hk'
    rw [hctx k' hk] at hk' ⊢
    exact h3 k' a hk'
  · exact h4
  · intro k1 k2 a e1 e2
    have n1 : k1 ≠ k := by
      intro e; rw [e, hctxk, hc2] at e1; cases e1
    have n2 : k2 ≠ k := by
      intro e; rw [e, hctxk, hc2] at e2; cases e2
    rw [hctx _ n1] at e1; rw [hctx _ n2] at e2
    exact h5 k1 k2 a e1 e2
  · intro k1 k2 pk1 pk2 e1 e2
    have n1 : k1 ≠ k := by
      intro e; rw [e, hctxk, hc1] at e1; cases e1
    have n2 : k2 ≠ k := by
      intro e; rw [e, hctxk, hc1] at e2; cases e2
    rw [hctx _ n1] at e1; rw [hctx _ n2] at e2
    exact h6 k1 k2 pk1 pk2 e1 e2
  · intro k1 k2 pk e1
    have n1 : k1 ≠ k := by
      intro e; rw [e, hctxk, hc1] at e1; cases e1
    rw [hctx _ n1] at e1
    by_cases n2 : k2 = k
    · rw [n2, hctxk, hc2]; simp
    · rw [hctx _ n2]; exact h7 k1 k2 pk e1
  · exact h8
  · exact h9
  · exact h10
  · exact h11
  · exact h12
  · exact h13
  · exact h14

theorem inv5_allocCtx (s : State) (c : Nat) (used : List Bytes) (h : Inv5 s used) (h4 : Inv4 s) :
    Inv5 (allocCtx s c) used := by
  obtain ⟨g1, g2, g3, g4, g5, g6, g7, g8, g9, g10, g11, g12, g13, g14⟩ := h
  constructor
  · intro k hk
    have hk' : s.nctx + 1 ≤ k := hk
    exact g1 k (by omega)
  · exact g2
  · exact g3
  · exact g4
  · exact g5
  · exact g6
  · exact g7
  · intro c' k hk
    have hk' : (upd s.slot c (some s.nctx)) c' = some k := hk
    rw [upd_apply] at hk'
    by_cases hc : c' = c
    · rw [if_pos hc] at hk'; injection hk' with hk'; rw [← hk']; exact h4.N
    · rw [if_neg hc] at hk'; exact g8 c' k hk'
  · intro c1 c2 k e1 e2
    have e1' : (upd s.slot c (some s.nctx)) c1 = some k := e1
    have e2' : (upd s.slot c (some s.nctx)) c2 = some k := e2
    rw [upd_apply] at e1' e2'
    by_cases n1 : c1 = c <;> by_cases n2 : c2 = c
    · rw [n1, n2]
    · rw [if_pos n1] at e1'; rw [if_neg n2] at e2'
      injection e1' with e1'
      have := h4.S c2 k e2'
      omega
    · rw [if_neg n1] at e1'; rw [if_pos n2] at e2'
      injection e2' with e2'
      have := h4.S c1 k e1'
      omega
    · rw [if_neg n1] at e1'; rw [if_neg n2] at e2'
      exact g9 c1 c2 k e1' e2'
  · exact g10
  · exact g11
  · exact g12
  · exact g13
  · exact g14

theorem inv5_clearSlot (s : State) (c : Nat) (used : List Bytes) (h : Inv5 s used) : Inv5 (clearSlot s c) used := by
  obtain ⟨g1, g2, g3, g4, g5, g6, g7, g8, g9, g10, g11, g12, g13, g14⟩ := h
  have hsl : ∀ c' k, (clearSlot s c).slot c' = some k → s.slot c' = some k := by
    intro c' k hk
    have hk' : (upd s.slot c none) c' = some k := hk
    rw [upd_apply] at hk'
    by_cases hc : c' = c
    · rw [if_pos hc] at hk'; cases hk'
    · rw [if_neg hc] at hk'; exact hk'
  exact ⟨g1, g2, g3, g4, g5, g6, g7, fun c' k hk => g8 c' k (hsl c' k hk),
    fun c1 c2 k e1 e2 => g9 c1 c2 k (hsl _ _ e1) (hsl _ _ e2), g10, g11, g12, g13, g14⟩

theorem inv5_finishClose (s : State) (used : List Bytes) (h : Inv5 s used) : Inv5 (finishClose s) used := by
  obtain ⟨g1, g2, g3, g4, g5, g6, g7, g8, g9, g10, g11, g12, g13, g14⟩ := h
  exact ⟨g1, g2, g3, g4, g5, g6, g7, fun c' k hk => (by cases hk), fun c1 c2 k e1 _ => (by cases e1),
    fun r hr => (by cases hr), List.nodup_nil, g12, g13, g14⟩

theorem inv5_pipeAdd (s : State) (pp : Pipe) (used : List Bytes) (h : Inv5 s used) (h2 : Inv2 s)
    (hpp : pp.sendq = []) : Inv5 (setPipe (addPipeSlot s) s.npipes pp) used := by
  have hpq : ∀ q, q ≠ s.npipes → (setPipe (addPipeSlot s) s.npipes pp).pipe q = s.pipe q := by
    intro q hq; rw [setPipe_pipe, upd_other _ _ hq]; rfl
  have hpn : (setPipe (addPipeSlot s) s.npipes pp).pipe s.npipes = pp := by rw [setPipe_pipe, upd_same]
  have hold : ∀ q, ∀ e ∈ (s.pipe q).sendq, q ≠ s.npipes := by
    intro q e he hq
    have := livePipe_lt (h.sq q e he).1
    omega
  have hmem : ∀ q, ∀ e ∈ ((setPipe (addPipeSlot s) s.npipes pp).pipe q).sendq, q ≠ s.npipes ∧ e ∈ (s.pipe q).sendq := by
    intro q e he
    by_cases hq : q = s.npipes
    · rw [hq, hpn, hpp] at he; cases he
    · rw [hpq q hq] at he; exact ⟨hq, he⟩
  have hlive : ∀ q, livePipe s q = true → livePipe (setPipe (addPipeSlot s) s.npipes pp) q = true := by
    intro q hq
    have hlt := livePipe_lt hq
    have hne : q ≠ s.npipes := by omega
    unfold livePipe at hq ⊢
    rw [hpq q hne]
    have : (setPipe (addPipeSlot s) s.npipes pp).npipes = s.npipes + 1 := rfl
    rw [this]
    simp only [Bool.and_eq_true, decide_eq_true_eq] at hq ⊢
    exact ⟨by omega, hq.2⟩
  obtain ⟨g1, g2, g3, g4, g5, g6, g7, g8, g9, g10, g11, g12, g13, g14⟩ := h
  constructor
  · exact g1
  · intro q e he
    obtain ⟨hq, he'⟩ := hmem q e he
    obtain ⟨a1, a2, a3⟩ := g2 q e he'
    exact ⟨hlive q a1, a2, a3⟩
  · intro k a hk
    obtain ⟨q, hq, e, he, hek, hea⟩ := g3 k a hk
    refine ⟨q, hq, e, ?_, hek, hea⟩
    rw [hpq q (hold q e he)]; exact he
  · intro q
    by_cases hq : q = s.npipes
    · rw [hq, hpn, hpp]; exact List.nodup_nil
    · rw [hpq q hq]; exact g4 q
  · exact g5
  · exact g6
  · exact g7
  · exact g8
  · exact g9
  · intro r hr
    have hlt := livePipe_lt (h2.H r hr).2
    rw [hpq r.pipe (by omega)]
    exact g10 r hr
  · exact g11
  · exact g12
  · intro q e he; exact g13 q e (hmem q e he).2
  · intro q q' e e' he he'; exact g14 q q' e e' (hmem q e he).2 (hmem q' e' he').2

/-- a socket that was never opened has no queued reply on its own context -/
def Unopened (s : State) : Prop := s.opened = false → (s.ctx 0).saio = none

theorem unopened_init : Unopened ({} : State) := fun _ => rfl

/- ADDED HYPOTHESIS `hu : Unopened s`.  Without it the statement is false: take an unopened state
   (`opened = false`) with `npipes = 1`, `pipe 0 = { sendq := [e] }`, `e.ctx = 0`, `e.aio = 5`,
   `ctx 0 = { saio := some 5, spipe := some 0 }`, `used = [e.body]`, everything else initial.  It
   satisfies Inv2..Inv5, but `openSock` resets `ctx 0 := { isOpen := true }` and leaves `e` in the
   sendq, so `Inv5.sq` fails afterwards.  `Unopened` is an invariant (`step_unopened` below). -/
set_option linter.unusedVariables false in
theorem step_inv5 (s : State) (ev : Ev) (used : List Bytes) (h : Inv5 s used) (h2 : Inv2 s) (h3 : Inv3 s)
    (h4 : Inv4 s) (hb : ∀ b, evBody ev = some b → b ∉ used)
    (hu : Unopened s) :
    Inv5 (step s ev).1 (used ++ (evBody ev).toList) := by
  have hsame : ∀ {s' : State}, s'.nctx = s.nctx → s'.npipes = s.npipes → s'.slot = s.slot →
      s'.recvpipes = s.recvpipes → s'.wire = s.wire → s'.ctx = s.ctx → s'.pipe = s.pipe → Inv5 s' used :=
    fun a1 a2 a3 a4 a5 a6 a7 => inv5_same h a1 a2 a3 a4 a5 a6 a7
  unfold step
  split
  · rename_i hno
    have hop : s.opened = false := by
      cases ho : s.opened with
      | false => rfl
      | true => rw [ho] at hno; simp at hno
    split
    · -- open
      have h1 : Inv5 (setW { s with opened := true } false) used := hsame rfl rfl rfl rfl rfl rfl rfl
      exact inv5_nobody _ (inv5_reset_ctx _ 0 _ used h1 (hu hop) rfl rfl) rfl
    · exact inv5_nobody _ (hsame rfl rfl rfl rfl rfl rfl rfl) rfl
    · exact inv5_keep _ h
  · split
    · split
      · exact inv5_nobody _ (hsame rfl rfl rfl rfl rfl rfl rfl) rfl
      · exact inv5_keep _ h
    · split
      · exact inv5_keep _ h
      · -- pipeAdd
        dsimp only
        apply inv5_nobody _ _ rfl
        split
        · exact inv5_pipeAdd s _ used h h2 rfl
        · exact inv5_pipeAdd s _ used h h2 rfl
      · -- pipeDrop
        split
        · exact inv5_nobody _ (closePipe_inv5 s _ used h) rfl
        · exact inv5_keep _ h
      · -- sendDone
        split
        · exact inv5_keep _ h
        · split
          · exact inv5_nobody _ (closePipe_inv5 s _ used h) rfl
          · exact inv5_nobody _ (pipeSent_inv5 s _ used h) rfl
      · -- recvDone
        split
        · exact inv5_keep _ h
        · rename_i hg
          simp only [Bool.or_eq_true, Bool.not_eq_true', not_or, Bool.not_eq_false] at hg
          split
          · exact inv5_nobody _ (closePipe_inv5 s _ used h) rfl
          · exact inv5_nobody _ (pipeRecv_inv5 s _ _ used h hg.1 hg.2) rfl
      · -- send
        split
        · exact inv5_keep _ h
        · rename_i hnb
          have hfree := aioFree_of_not_busy h (by simpa using hnb)
          split
          · exact inv5_keep _ h
          · rename_i k hres
            exact ctxSend_inv5 s k _ _ _ used h (resolve_lt s h4 _ k hres) hfree (hb _ rfl)
      · -- recv
        split
        · exact inv5_keep _ h
        · rename_i hnb
          have hfree := aioFree_of_not_busy h (by simpa using hnb)
          split
          · exact inv5_keep _ h
          · rename_i k hres
            exact inv5_nobody _ (ctxRecv_inv5 s k _ _ used h (resolve_lt s h4 _ k hres) hfree) rfl
      · exact inv5_nobody _ (failAio_inv5 s _ _ used h) rfl
      · exact inv5_nobody _ (failAio_inv5 s _ _ used h) rfl
      · exact inv5_nobody _ (expire_inv5 _ used (hsame rfl rfl rfl rfl rfl rfl rfl)) rfl
      · -- ctxOpen
        split
        · exact inv5_keep _ h
        · apply inv5_nobody _ _ rfl
          apply inv5_reset_ctx _ _ _ _ (inv5_allocCtx s _ used h h4) _ rfl rfl
          exact (h.beyond s.nctx (Nat.le_refl _)).2
      · -- ctxClose
        split
        · exact inv5_keep _ h
        · split
          · exact inv5_keep _ h
          · exact inv5_nobody _ (inv5_clearSlot _ _ used (ctxCloseParked_inv5 s _ used h)) rfl
      · split
        · exact inv5_keep _ h
        · exact inv5_nobody _ (hsame rfl rfl rfl rfl rfl rfl rfl) rfl
      · exact inv5_keep _ h
      · exact inv5_keep _ h
      · exact inv5_keep _ h
      · exact inv5_keep _ h
      · exact inv5_keep _ h
      · exact inv5_keep _ h
      · -- close
        dsimp only
        apply inv5_nobody _ _ rfl
        apply inv5_finishClose
        apply closeAll_inv1'' (fun s => Inv5 s used) ctxCloseParked (fun s k h => ctxCloseParked_inv5 s k used h)
        apply closeAll_inv1'' (fun s => Inv5 s used) closePipe (fun s p h => closePipe_inv5 s p used h)
        apply closeAll_inv1'' (fun s => Inv5 s used) ctxCloseParked (fun s k h => ctxCloseParked_inv5 s k used h)
        exact h

/-! #### the extra hypothesis of `step_inv5` is itself an invariant

  `step_inv5` needs to know that a socket that was never opened has no reply queued on its own
  context (`nng_rep0_open` re-initialises `s->ctx`); `Inv2`..`Inv5` do not say so.  The fact is an
  invariant on its own: `unopened_init`, `step_unopened`, `run_unopened`. -/

theorem closePipe_opened (s : State) (p : Nat) : (closePipe s p).1.opened = s.opened := by
  unfold closePipe
  split
  · rfl
  · dsimp only
    rw [setPipe_opened, (raiseIfSock_frame2 _ _).2]
    show (clearSaio _ _).opened = _
    rw [(clearSaio_frame _ _).opened, (dropHeld_frame2 s p).2]

theorem deliver_opened (s : State) (k : Nat) (r : Req) : (deliver s k r).opened = s.opened := by
  unfold deliver recvWritable; split <;> rfl

theorem pipeRecv_opened (s : State) (p : Nat) (b : Bytes) : (pipeRecv s p b).1.opened = s.opened := by
  unfold pipeRecv
  dsimp only
  split
  · rfl
  · rw [closePipe_opened]; rfl
  · split
    · rfl
    · split
      · rfl
      · dsimp only
        rw [deliver_opened]; rfl

theorem ctxRecv_opened (s : State) (k a : Nat) (mode : Mode) : (ctxRecv s k a mode).1.opened = s.opened := by
  unfold ctxRecv
  split
  · split
    · rfl
    · rfl
    · split <;> rfl
  · dsimp only
    rw [deliver_opened]
    split <;> rfl

theorem ctxSend_opened (s : State) (k a : Nat) (m : WMsg) (mode : Mode) : (ctxSend s k a m mode).1.opened = s.opened := by
  have h2 : (if (k == 0) = true then setW (setCtx s k { s.ctx k with btrace := [], pipeId := none }) false
                  else setCtx s k { s.ctx k with btrace := [], pipeId := none }).opened = s.opened := by
    split <;> rfl
  unfold ctxSend
  dsimp only
  split
  · rfl
  · generalize (if (k == 0) = true then setW (setCtx s k { s.ctx k with btrace := [], pipeId := none }) false
                  else setCtx s k { s.ctx k with btrace := [], pipeId := none }) = s2 at h2 ⊢
    rw [← h2]
    split
    · rfl
    · split
      · rfl
      · split
        · rfl
        · split
          · dsimp only
            split <;> rfl
          · split <;> rfl

theorem pipeSent_opened (s : State) (p : Nat) : (pipeSent s p).1.opened = s.opened := by
  unfold pipeSent
  dsimp only
  split
  · dsimp only
    split <;> rfl
  · rfl

theorem failAio_opened (s : State) (a rv : Nat) : (failAio s a rv).1.opened = s.opened := by
  unfold failAio
  split
  · rfl
  · split
    · dsimp only
      rw [setCtx_opened]
      split <;> rfl
    · rfl

theorem ctxCloseParked_opened (s : State) (k : Nat) : (ctxCloseParked s k).1.opened = s.opened := by
  have h1 : (ctxCloseSend s k).1.opened = s.opened := by
    unfold ctxCloseSend
    split
    · dsimp only
      rw [setCtx_opened]
      split <;> rfl
    · rfl
  have h2 : ∀ s1 : State, (ctxCloseRecv s1 k).1.opened = s1.opened := by
    intro s1
    unfold ctxCloseRecv
    split <;> rfl
  unfold ctxCloseParked
  dsimp only
  rw [setCtx_opened, h2, h1]

theorem step_opened (s : State) (ev : Ev) (ho : s.opened = true) : (step s ev).1.opened = true := by
  have hfold : ∀ (f : State → Nat → State × List Out), (∀ s k, (f s k).1.opened = s.opened) →
      ∀ (ks : List Nat) (s : State), s.opened = true → (closeAll s ks f).1.opened = true :=
    fun f hf ks s hs => closeAll_inv1'' (fun s => s.opened = true) f (fun s k h => by rw [hf]; exact h) ks s hs
  unfold step
  split
  · rename_i hno
    rw [ho] at hno; simp at hno
  · split
    · split
      · exact ho
      · exact ho
    · split
      · exact ho
      · dsimp only
        split <;> exact ho
      · split
        · rw [← ho]; exact closePipe_opened s _
        · exact ho
      · split
        · exact ho
        · split
          · rw [← ho]; exact closePipe_opened s _
          · rw [← ho]; exact pipeSent_opened s _
      · split
        · exact ho
        · split
          · rw [← ho]; exact closePipe_opened s _
          · rw [← ho]; exact pipeRecv_opened s _ _
      · split
        · exact ho
        · split
          · exact ho
          · rw [← ho]; exact ctxSend_opened s _ _ _ _
      · split
        · exact ho
        · split
          · exact ho
          · rw [← ho]; exact ctxRecv_opened s _ _ _
      · rw [← ho]; exact failAio_opened s _ _
      · rw [← ho]; exact failAio_opened s _ _
      · unfold expire failAll
        exact foldl_pres' (fun s => s.opened = true) (fun s a => failAio s a Err.etimedout)
          (fun s a h => by rw [failAio_opened]; exact h) _ _ [] ho
      · split
        · exact ho
        · exact ho
      · split
        · exact ho
        · split
          · exact ho
          · show (ctxCloseParked s _).1.opened = true
            rw [ctxCloseParked_opened]; exact ho
      · split
        · exact ho
        · exact ho
      · exact ho
      · exact ho
      · exact ho
      · exact ho
      · exact ho
      · exact ho
      · dsimp only
        show (closeAll _ _ ctxCloseParked).1.opened = true
        apply hfold _ ctxCloseParked_opened
        apply hfold _ closePipe_opened
        apply hfold _ ctxCloseParked_opened
        exact ho

theorem step_unopened (s : State) (ev : Ev) (hu : Unopened s) : Unopened (step s ev).1 := by
  intro hn
  cases ho : s.opened with
  | true => rw [step_opened s ev ho] at hn; cases hn
  | false =>
    have hs : (s.ctx 0).saio = none := hu ho
    unfold step
    rw [if_pos (by rw [ho]; rfl)]
    split
    · rfl
    · exact hs
    · exact hs

theorem run_unopened (evs : List Ev) : ∀ s, Unopened s → Unopened (run s evs).1 := by
  induction evs with
  | nil => intro s h; exact h
  | cons e es ih =>
    intro s h
    exact ih _ (step_unopened s e h)

end Nng.RepProofs
