/-
  "The lifecycle judge accepts every trace of the lifecycle model" (C14 / C10), part 4:
  simulation of `closeEp` / `closeEps` (nni_dialer_close / nni_listener_close, and the endpoint
  part of sock_shutdown).  The judge has marked these endpoints closed beforehand (selection `S`).
-/
import NngModel.Proofs.LifeJudgeKill
namespace Nng.LifeModel
open Nng.Life Nng.Generated
open Nng.LifeSpec (J JPipe JEp JSock upd put KU onOut)

/-- what closing endpoints and killing pipes leaves alone on the endpoint list -/
def EpsStable (st st' : State) : Prop :=
  ∀ e' ∈ st'.eps, ∃ x ∈ st.eps, x.idx = e'.idx ∧ x.sock = e'.sock ∧ x.dialer = e'.dialer ∧
    (x.closed = true → e'.closed = true) ∧ (e'.userAio = true → x.userAio = true)

theorem EpsStable.refl (st : State) : EpsStable st st := fun e he => ⟨e, he, rfl, rfl, rfl, id, id⟩
theorem EpsStable.trans {a b c : State} (h1 : EpsStable a b) (h2 : EpsStable b c) : EpsStable a c := by
  intro e' he'
  obtain ⟨y, hy, a1, a2, a3, a4, a5⟩ := h2 e' he'
  obtain ⟨x, hx, b1, b2, b3, b4, b5⟩ := h1 y hy
  exact ⟨x, hx, b1.trans a1, b2.trans a2, b3.trans a3, fun hc => a4 (b4 hc), fun hu => b5 (a5 hu)⟩

theorem Frame.epsStable {st st' : State} (f : Frame st st') : EpsStable st st' := by
  intro e' he'
  rcases f.2.2.2.2.1 e' he' with he | ⟨e0, he0, i, _, _, rfl⟩
  · exact ⟨e', he, rfl, rfl, rfl, id, id⟩
  · exact ⟨e0, he0, rfl, rfl, rfl, id, id⟩

theorem setEp_closeF_stable (st : State) (i : Nat) : EpsStable st (setEp st i closeF) := by
  intro e' he'
  obtain ⟨x, hx, ⟨_, rfl⟩ | ⟨_, heq⟩⟩ := mem_setEp he'
  · exact ⟨x, hx, rfl, rfl, rfl, fun _ => rfl, fun h => by cases h⟩
  · subst heq; exact ⟨e', hx, rfl, rfl, rfl, id, id⟩

theorem closeEp_stable (st : State) (e : Ep) : EpsStable st (closeEp st e).1 :=
  (setEp_closeF_stable st e.idx).trans (killPipes_frame _ _).epsStable

def jSyncOff (rv : Nat) (x : JEp) : JEp := { x with syncPending := false, background := x.background || rv == 0 }

theorem onOut_dialrv (op : LOp) (j : J) (e rv : Nat) :
    onOut op j (.dialrv e rv) = { j with eps := upd j.eps e (jSyncOff rv) } := rfl

theorem ER_closeF {S : SelE} {e : Ep} {x x' : JEp} (h : ER S e x) (hx : x.closed = true)
    (h1 : x'.dialer = x.dialer) (h2 : x'.sock = x.sock) (h3 : x'.closed = x.closed) (h4 : x'.cfgMax = x.cfgMax)
    (h5 : x'.syncPending = false) (h6 : x'.background = x.background) :
    ER S (closeF e) x' := by
  constructor
  · rw [h1]; exact h.dialer
  · rw [h2]; exact h.sock
  · rw [h3, hx]; rfl
  · rw [h4]; exact h.cfg
  · rw [h5]; rfl
  · intro _ ha; cases ha
  · intro hd ht
    rcases ht with ht | ht
    · cases ht
    · rw [h6]; exact ⟨(h.bg2 hd (Or.inr ht)).1, rfl⟩
  · intro hc; rw [h3, hx] at hc; cases hc
  · intro hc; rw [h3, hx] at hc; cases hc

theorem closeEp_sim (S : SelE) (op : LOp) (hnr : Nng.LifeSpec.isRace op = false) (st : State) (j : J) (e : Ep) (h : Mid S st j) (hcb : CB j)
    (hcur : ∀ e' ∈ st.eps, e'.idx = e.idx → (e'.userAio = true → e.userAio = true) ∧
      (e'.closed = true ∨ S e'.idx e'.sock e'.dialer = true)) :
    Mid S (closeEp st e).1 ((closeEp st e).2.foldl (onOut op) j) ∧ SameJ j ((closeEp st e).2.foldl (onOut op) j) := by
  unfold closeEp
  simp only [List.foldl_append]
  have hw1 : W (setEp st e.idx closeF) :=
    setEp_W st e.idx closeF h.w (fun _ => rfl) (fun _ => rfl) (fun _ => rfl) (fun _ => rfl)
      (fun x hx _ => closeF_inv x (h.w.epInv x hx).1 st.now)
  have hxc : ∀ e0 ∈ st.eps, e0.idx = e.idx → ∀ x0, ER S e0 x0 → x0.closed = true := by
    intro e0 he0 hi0 x0 hx0
    rw [hx0.closed]
    rcases (hcur e0 he0 hi0).2 with hc | hc <;> simp [hc]
  -- the state after the endpoint part
  have hmid : ∃ j1 : J, (if e.userAio then [LOut.dialrv e.idx lifeEclosed] else []).foldl (onOut op) j = j1 ∧
      Mid S (setEp st e.idx closeF) j1 ∧ SameJ j j1 := by
    cases hua : e.userAio with
    | true =>
      simp only [if_true, List.foldl_cons, List.foldl_nil, onOut_dialrv]
      refine ⟨_, rfl, ⟨hw1, h.pinv, h.lso, h.now, h.e14, h.e10, h.socks, ?_, h.pipes⟩, rfl, rfl, rfl, rfl, rfl⟩
      refine h.eps.upd1 e.idx closeF (jSyncOff lifeEclosed) rfl rfl (fun _ => rfl) ?_
      intro e0 he0 x0 hx0
      refine ⟨fun hi0 => ?_, fun _ => hx0⟩
      have hb : (jSyncOff lifeEclosed x0).background = x0.background := by simp [jSyncOff, lifeEclosed]
      exact ER_closeF hx0 (hxc e0 he0 hi0 x0 hx0) rfl rfl rfl rfl rfl hb
    | false =>
      simp only [Bool.false_eq_true, if_false, List.foldl_nil]
      refine ⟨_, rfl, ⟨hw1, h.pinv, h.lso, h.now, h.e14, h.e10, h.socks, ?_, h.pipes⟩, SameJ.refl j⟩
      refine h.eps.model1 e.idx closeF rfl rfl (fun _ => rfl) ?_
      intro e0 he0 x0 hx0
      refine ⟨fun hi0 => ?_, fun _ => hx0⟩
      apply ER_closeF hx0 (hxc e0 he0 hi0 x0 hx0) rfl rfl rfl rfl _ rfl
      rw [hx0.sync]
      cases hu : e0.userAio with
      | false => rfl
      | true => have := (hcur e0 he0 hi0).1 hu; rw [hua] at this; cases this
  obtain ⟨j1, hj1, hm1, hs1⟩ := hmid
  rw [hj1]
  have hcb1 : CB j1 := by intro s x hx; rw [hs1.2.1] at hx; exact hcb s x hx
  obtain ⟨h2, s2⟩ := killPipes_sim S op hnr (liveOf (setEp st e.idx closeF) fun p => p.ep == e.idx) _ j1 hm1 hcb1
  exact ⟨h2, hs1.trans s2⟩


theorem closeEps_nil (st : State) : closeEps st [] = (st, []) := rfl

theorem closeEps_cons (st : State) (e : Ep) (es : List Ep) :
    closeEps st (e :: es) = ((closeEps (closeEp st e).1 es).1, (closeEp st e).2 ++ (closeEps (closeEp st e).1 es).2) := by
  unfold closeEps
  simp only [List.foldl_cons, List.nil_append]
  rw [foldR_acc closeEp es (closeEp st e).1 (closeEp st e).2]

theorem closeEps_stable (es : List Ep) (st : State) : EpsStable st (closeEps st es).1 := by
  induction es generalizing st with
  | nil => exact EpsStable.refl st
  | cons e rest ih => rw [closeEps_cons]; exact (closeEp_stable st e).trans (ih _)

theorem closeEps_sim (S : SelE) (op : LOp) (hnr : Nng.LifeSpec.isRace op = false) (es : List Ep) (st : State) (j : J) (h : Mid S st j) (hcb : CB j)
    (hcur : ∀ e ∈ es, ∀ e' ∈ st.eps, e'.idx = e.idx → (e'.userAio = true → e.userAio = true) ∧
      (e'.closed = true ∨ S e'.idx e'.sock e'.dialer = true)) :
    Mid S (closeEps st es).1 ((closeEps st es).2.foldl (onOut op) j) ∧ SameJ j ((closeEps st es).2.foldl (onOut op) j) := by
  induction es generalizing st j with
  | nil => exact ⟨h, SameJ.refl j⟩
  | cons e rest ih =>
    rw [closeEps_cons]
    simp only [List.foldl_append]
    obtain ⟨h1, s1⟩ := closeEp_sim S op hnr st j e h hcb (hcur e List.mem_cons_self)
    have hcb1 : CB ((closeEp st e).2.foldl (onOut op) j) := by
      intro s x hx; rw [s1.2.1] at hx; exact hcb s x hx
    have hcur1 : ∀ e2 ∈ rest, ∀ e' ∈ (closeEp st e).1.eps, e'.idx = e2.idx → (e'.userAio = true → e2.userAio = true) ∧
        (e'.closed = true ∨ S e'.idx e'.sock e'.dialer = true) := by
      intro e2 he2 e' he' hi
      obtain ⟨x, hx, a1, a2, a3, a4, a5⟩ := closeEp_stable st e e' he'
      obtain ⟨b1, b2⟩ := hcur e2 (List.mem_cons_of_mem _ he2) x hx (a1.trans hi)
      refine ⟨fun hu => b1 (a5 hu), ?_⟩
      rcases b2 with b2 | b2
      · exact Or.inl (a4 b2)
      · right; rw [← a1, ← a2, ← a3]; exact b2
    obtain ⟨h2, s2⟩ := ih _ _ h1 hcb1 hcur1
    exact ⟨h2, s1.trans s2⟩

end Nng.LifeModel
