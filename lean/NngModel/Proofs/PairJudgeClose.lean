/-
  C08 judge simulation: socket close.  After `close` the judge checks nothing any more
  (`pairQuiescent` is switched off by `closed`, the model refuses every further event).
-/
import NngModel.Proofs.PairJudge7
namespace Nng.Pair0
open Nng Nng.Proto Nng.PairSpec

/-- after `close`: nothing is checked any more -/
def Rc (s : State) (j : PairJ) : Prop :=
  s.opened = true ∧ s.closed = true ∧ j.err = none ∧ j.closed = true ∧ j.racing = false

def isPc : Out → Bool | .pclosed _ => true | _ => false

/-! ### model side: closing the pipes leaves the socket's wait queues alone -/

theorem closePipe_frame (s : State) (p : Nat) :
    (closePipe s p).1.opened = s.opened ∧ (closePipe s p).1.raw = s.raw ∧
    (closePipe s p).1.waq = s.waq ∧ (closePipe s p).1.raq = s.raq ∧
    ∀ o ∈ (closePipe s p).2, isPc o = true := by
  unfold closePipe
  split
  · simp
  · split
    · simp
    · simp only [pipeStop, modPipe]
      split <;> simp [isPc]

def closeFold (l : List Pipe) (s : State) (o : List Out) : State × List Out :=
  l.foldl (fun (acc : State × List Out) (pp : Pipe) =>
    let (s', o) := closePipe acc.1 pp.id
    (s', acc.2 ++ o)) (s, o)

theorem closeAll_fold (s : State) : closeAllPipes s = closeFold s.pipes s [] := rfl

theorem closeFold_frame (l : List Pipe) : ∀ (s : State) (o : List Out), (∀ x ∈ o, isPc x = true) →
    (closeFold l s o).1.opened = s.opened ∧ (closeFold l s o).1.raw = s.raw ∧
    (closeFold l s o).1.waq = s.waq ∧ (closeFold l s o).1.raq = s.raq ∧
    ∀ x ∈ (closeFold l s o).2, isPc x = true := by
  induction l with
  | nil => intro s o h; exact ⟨rfl, rfl, rfl, rfl, h⟩
  | cons pp l ih =>
    intro s o h
    obtain ⟨a1, a2, a3, a4, a5⟩ := closePipe_frame s pp.id
    obtain ⟨b1, b2, b3, b4, b5⟩ := ih (closePipe s pp.id).1 (o ++ (closePipe s pp.id).2) (by
      intro x hx
      rcases List.mem_append.1 hx with hx | hx
      · exact h x hx
      · exact a5 x hx)
    have e : closeFold (pp :: l) s o = closeFold l (closePipe s pp.id).1 (o ++ (closePipe s pp.id).2) := rfl
    rw [e]
    exact ⟨b1.trans a1, b2.trans a2, b3.trans a3, b4.trans a4, b5⟩

theorem closeAll_frame (s : State) :
    (closeAllPipes s).1.opened = s.opened ∧ (closeAllPipes s).1.raw = s.raw ∧
    (closeAllPipes s).1.waq = s.waq ∧ (closeAllPipes s).1.raq = s.raq ∧
    ∀ x ∈ (closeAllPipes s).2, isPc x = true := by
  rw [closeAll_fold]
  exact closeFold_frame s.pipes s [] (by simp)

theorem stepLive_close (V : Variant) (s : State) :
    stepLive V s .close =
      ({ (sockClose (closeAllPipes s).1).1 with closed := true },
       (closeAllPipes s).2 ++
        (((closeAllPipes s).1.raq.map fun pk => Out.done pk.aio Err.eclosed none false) ++
         ((closeAllPipes s).1.waq.map fun pk => Out.done pk.aio Err.eclosed none true))) := rfl

/-! ### judge side -/

/-- the fields of the judge the loss of a pipe leaves alone (among those `Rc` looks at) -/
def keep (j j' : PairJ) : Prop :=
  j'.err = j.err ∧ j'.closed = j.closed ∧ j'.racing = j.racing ∧ j'.lastPoll = j.lastPoll

theorem pairOut_pc (nb : Nb) (j : PairJ) (q : Nat) : keep j (pairOut nb j (.pclosed q)) := by
  simp only [pairOut]
  split <;> exact ⟨rfl, rfl, rfl, rfl⟩

theorem fold_pc (nb : Nb) (l : List Out) (h : ∀ o ∈ l, isPc o = true) :
    ∀ j : PairJ, keep j (l.foldl (pairOut nb) j) := by
  induction l with
  | nil => intro j; exact ⟨rfl, rfl, rfl, rfl⟩
  | cons o l ih =>
    intro j
    have ho := h o (by simp)
    simp only [List.foldl_cons]
    obtain ⟨b1, b2, b3, b4⟩ := ih (fun o' h' => h o' (by simp [h'])) (pairOut nb j o)
    cases o <;> simp [isPc] at ho
    obtain ⟨a1, a2, a3, a4⟩ := pairOut_pc nb j ‹Nat›
    exact ⟨b1.trans a1, b2.trans a2, b3.trans a3, b4.trans a4⟩

theorem pairQuiescent_closed {j : PairJ} (h : j.closed = true) : pairQuiescent j = j := by
  unfold pairQuiescent; simp [h]

theorem judge_close {V : Variant} {v1 : Bool} {sS sR : List Bytes} {s : State} {j : PairJ}
    (hR : R' V v1 sS sR s j) (o1 : List Out) (h1 : ∀ x ∈ o1, isPc x = true) :
    (pairStepOld j .close (o1 ++ ((s.raq.map fun pk => Out.done pk.aio Err.eclosed none false) ++
        (s.waq.map fun pk => Out.done pk.aio Err.eclosed none true)))).err = none ∧
    (pairStepOld j .close (o1 ++ ((s.raq.map fun pk => Out.done pk.aio Err.eclosed none false) ++
        (s.waq.map fun pk => Out.done pk.aio Err.eclosed none true)))).closed = true ∧
    (pairStepOld j .close (o1 ++ ((s.raq.map fun pk => Out.done pk.aio Err.eclosed none false) ++
        (s.waq.map fun pk => Out.done pk.aio Err.eclosed none true)))).racing = false := by
  have hR0 := hR.1
  have hP0 := hR0.toP
  generalize hl1 : (s.raq.map fun pk => Out.done pk.aio Err.eclosed none false) = l1 at *
  generalize hl2 : (s.waq.map fun pk => Out.done pk.aio Err.eclosed none true) = l2 at *
  have hd : ∀ x ∈ l1 ++ l2, isDone x = true ∧ tame x = true := by
    intro x hx
    rw [← hl1, ← hl2] at hx
    simp only [List.mem_append, List.mem_map] at hx
    rcases hx with ⟨pk, _, rfl⟩ | ⟨pk, _, rfl⟩ <;> exact ⟨rfl, rfl⟩
  have hpc : ∀ x ∈ o1, isDone x = false ∧ tame x = true := by
    intro x hx; have := h1 x hx; cases x <;> simp [isPc] at this <;> exact ⟨rfl, rfl⟩
  have htame : ∀ o ∈ o1 ++ (l1 ++ l2), tame o = true := by
    intro o ho
    rcases List.mem_append.1 ho with ho | ho
    · exact (hpc o ho).2
    · exact (hd o ho).2
  have ht := tame_all htame
  -- the completions of the step
  have hdones : (o1 ++ (l1 ++ l2)).filter isDone = l1 ++ l2 := by
    rw [List.filter_append]
    have e1 : o1.filter isDone = [] := by
      rw [List.filter_eq_nil_iff]; intro o ho; simp [(hpc o ho).1]
    have e2 : (l1 ++ l2).filter isDone = l1 ++ l2 := by
      rw [List.filter_eq_self]; intro o ho; exact (hd o ho).1
    rw [e1, e2]; rfl
  -- everything else is the loss of a pipe
  have hrest : ∀ q : Out → Bool, ∀ o ∈ ((o1 ++ (l1 ++ l2)).filter (fun o => !isDone o)).filter q, isPc o = true := by
    intro q o ho
    have ho' := List.mem_filter.1 (List.mem_filter.1 ho).1
    rcases List.mem_append.1 ho'.1 with hm | hm
    · exact h1 o hm
    · have := (hd o hm).1; simp [this] at ho'
  rw [pairStep_eq (j := j) hR0.err ht.1]
  have hpre : pairPre false { j with lastPoll := none } .close (o1 ++ (l1 ++ l2)) =
      ({ ({ j with lastPoll := none } : PairJ) with
          closed := true, unsent := excuseAll j.unsent, held := excuseAll j.held }, .none) := rfl
  rw [hpre]
  simp only []
  have hP : P V v1 s.raw s.waq s.raq
      { ({ j with lastPoll := none } : PairJ) with
          closed := true, unsent := excuseAll j.unsent, held := excuseAll j.held } :=
    ⟨hP0.err, hP0.jv1, hP0.jraw, hP0.pend, hP0.pendOk, hP0.waitR, hP0.disj, hP0.waqNd, hP0.raqNd⟩
  rw [pairMid_eq (by exact hR0.racing) rfl, hdones, List.foldl_append]
  obtain ⟨p1, s1⟩ := closeDones_recv (V := V) .none s.raq hP (fun _ _ => trivial)
  rw [hl1] at p1 s1
  obtain ⟨p2, s2⟩ := closeDones_send (V := V) .none s.waq p1
  rw [hl2] at p2 s2
  have hs := sameRest.trans s1 s2
  generalize (List.foldl (pairOut Nb.none)
      (List.foldl (pairOut Nb.none)
        { ({ j with lastPoll := none } : PairJ) with
          closed := true, unsent := excuseAll j.unsent, held := excuseAll j.held } l1) l2) = jd at p2 hs
  obtain ⟨_, _, _, _, hlive, _, _, _, _, _, _, _, _, hrac, hclo, _⟩ := hs
  have hlive' : j.live = jd.live := hlive.symm
  simp only [] at hrac hclo ⊢
  rw [hlive']
  have k1 := fold_pc .none _ (hrest (onOld jd.live)) jd
  generalize (List.foldl (pairOut Nb.none) jd _) = ja at k1 ⊢
  have k2 := fold_pc .none _ (hrest (oldGone jd.live)) ja
  generalize (List.foldl (pairOut Nb.none) ja _) = jb at k2 ⊢
  have k3 := fold_pc .none _ (hrest (fun o => !onOld jd.live o && !oldGone jd.live o)) jb
  generalize (List.foldl (pairOut Nb.none) jb _) = jc at k3 ⊢
  have herr : jc.err = none := by rw [k3.1, k2.1, k1.1]; exact p2.err
  have hclosed : jc.closed = true := by rw [k3.2.1, k2.2.1, k1.2.1, hclo]
  have hracing : jc.racing = false := by rw [k3.2.2.1, k2.2.2.1, k1.2.2.1, hrac]; exact hR0.racing
  rw [pairPost_none rfl ht.2 hracing, pairQuiescent_closed hclosed]
  exact ⟨herr, hclosed, hracing⟩

theorem ev_close {V : Variant} {v1 : Bool} {sS sR : List Bytes} {s : State} {j : PairJ}
    (hR : R' V v1 sS sR s j) (ho : s.opened = true) :
    Rc (stepLive V s .close).1 (pairStepOld j .close (stepLive V s .close).2) := by
  obtain ⟨c1, _, c3, c4, c5⟩ := closeAll_frame s
  rw [stepLive_close, c3, c4]
  obtain ⟨e1, e2, e3⟩ := judge_close hR (closeAllPipes s).2 c5
  refine ⟨?_, rfl, e1, e2, e3⟩
  show (closeAllPipes s).1.opened = true
  rw [c1]; exact ho

end Nng.Pair0
