/-
  Judge simulation for REP, part F: cancel / abort / timer expiry (`failAio`, `expire`).
-/
import NngModel.Proofs.RepJudgeA
namespace Nng.RepProofs
open Nng Nng.Proto Nng.Rep Nng.RepSpec

/-- a parked receive fails -/
theorem failAio_recv_case {s : State} {j : RepJ} {used : List Bytes} (h0 : R0 s j) (hacc : j.acc = []) (h5 : Inv5 s used)
    (a rv : Nat) (hrv0 : rv ≠ 0) (hrve : rv ≠ Err.estate) (k : Nat) (pk : Parked) (hk : (s.ctx k).raio = some pk)
    (hpa : pk.aio = a) (q : List Nat) :
    R0 { setCtx s k { s.ctx k with raio := none } with recvq := q } (repDone j a rv none false) ∧
    (repDone j a rv none false).acc = [] := by
  obtain ⟨r, hr, hra⟩ := h0.ops.w2 k pk hk
  obtain ⟨r', hf, hr', hq⟩ := find_some_mem (l := j.waiting) (q := (·.aio == a)) ⟨r, hr, by simp [hra, hpa]⟩
  rw [repDone_recv_fail hf (h0.ops.w1 r' hr').1 hrv0 hrve]
  refine ⟨?_, hacc⟩
  obtain ⟨e1, e2, e3, d, e, f, g⟩ := h0
  have hraio : ∀ k', k' ≠ k → ((upd s.ctx k { s.ctx k with raio := none }) k').raio = (s.ctx k').raio := by
    intro k' hk'; rw [upd_other _ _ hk']
  refine ⟨e1, e2, e3, PipesRel.congr (s := s) d (fun _ => rfl) (fun _ => rfl) (fun _ => rfl) rfl rfl rfl rfl rfl,
    ⟨?_, ?_, ?_, ?_⟩, CurRel.congr (s := s) f ?_ ?_ rfl rfl rfl, g⟩
  · intro r'' hr''
    have hm := List.mem_filter.1 hr''
    have hne : r''.aio ≠ a := by simpa using hm.2
    obtain ⟨x, k'', pk'', hk'', y, z⟩ := e.w1 r'' hm.1
    have hkk : k'' ≠ k := by
      intro h; subst h; rw [hk] at hk''; injection hk'' with hk''; subst hk''
      exact hne (y.trans hpa)
    refine ⟨x, k'', pk'', ?_, y, z⟩
    show ((upd s.ctx k _) k'').raio = _
    rw [hraio k'' hkk]; exact hk''
  · intro k'' pk'' hk''
    have hk''' : ((upd s.ctx k { s.ctx k with raio := none }) k'').raio = some pk'' := hk''
    by_cases hkk : k'' = k
    · subst hkk; simp only [upd_same] at hk'''; cases hk'''
    · rw [hraio k'' hkk] at hk'''
      obtain ⟨r'', hr'', ha''⟩ := e.w2 k'' pk'' hk'''
      refine ⟨r'', List.mem_filter.2 ⟨hr'', ?_⟩, ha''⟩
      have : r''.aio ≠ a := by
        intro h
        exact hkk (h5.rinj k'' k pk'' pk hk''' hk (by rw [← ha'', h, hpa]))
      simpa using this
  · exact e.s1
  · exact e.s2
  · intro k'; show ((upd s.ctx k _) k').btrace = _
    rw [upd_apply]; split
    · rename_i h; subst h; rfl
    · rfl
  · intro k'; show ((upd s.ctx k _) k').pipeId = _
    rw [upd_apply]; split
    · rename_i h; subst h; rfl
    · rfl

/-- a parked send fails -/
theorem failAio_send_case {s : State} {j : RepJ} {used : List Bytes} (h0 : R0 s j) (hacc : j.acc = []) (h5 : Inv5 s used)
    (a rv : Nat) (hrv0 : rv ≠ 0) (hrve : rv ≠ Err.estate) (k p : Nat) (hk : (s.ctx k).saio = some a)
    (hsp : (s.ctx k).spipe = some p) :
    R0 (setCtx (setPipe s p { s.pipe p with sendq := (s.pipe p).sendq.filter (·.ctx != k) }) k { s.ctx k with saio := none })
      (repDone j a rv none true) ∧
    (repDone j a rv none true).acc = [] := by
  obtain ⟨e1, e2, e3, d, e, f, g⟩ := h0
  -- the judge's books
  have hw : j.waiting.find? (·.aio == a) = none := by
    rw [List.find?_eq_none]
    intro r hr hra
    obtain ⟨_, k', pk, hk', ha', _⟩ := e.w1 r hr
    have hra' : r.aio = a := by simpa using hra
    exact h5.rs k' k pk hk' (by rw [← ha', hra']; exact hk)
  obtain ⟨p0, hsp0, en, hen, henk, hena⟩ := h5.sa k a hk
  have hpp : p0 = p := by rw [hsp] at hsp0; injection hsp0 with h; exact h.symm
  subst hpp
  obtain ⟨x, hx, hxa⟩ := e.s2 p0 en hen
  obtain ⟨sd, hf, hsd, hq⟩ := find_some_mem (l := j.sends) (q := (·.aio == a)) ⟨x, hx, by simp [hxa, hena]⟩
  have hsda : sd.aio = a := by simpa using hq
  obtain ⟨hov, hop, p', e', u, he', hae', hres', hbody, hsnap, hup, hhdr⟩ := e.s1 sd hsd
  obtain ⟨hpp, hee⟩ := entry_unique h5 hen he' (by rw [hena, ← hae', hsda])
  subst hpp; subst hee
  rw [henk] at hres'
  rw [repDone_send_fail hw hf hrv0 hrve hsnap]
  -- the model
  have hka : ∀ p'' e'', e'' ∈ (s.pipe p'').sendq → (e''.ctx = k ↔ e''.aio = a) := by
    intro p'' e'' he''
    have h1 := (h5.sq p'' e'' he'').2.1
    constructor
    · intro h; rw [h, hk] at h1; injection h1 with h1; exact h1.symm
    · intro h; rw [h] at h1; exact h5.sinj _ _ a h1 hk
  have hsq : ∀ p'' e'', e'' ∈ ((upd s.pipe p0 { s.pipe p0 with sendq := (s.pipe p0).sendq.filter (·.ctx != k) }) p'').sendq ↔
      (e'' ∈ (s.pipe p'').sendq ∧ e''.ctx ≠ k) := by
    intro p'' e''
    by_cases hp : p'' = p0
    · subst hp; simp only [upd_same, List.mem_filter]; simp
    · rw [upd_other _ _ hp]
      constructor
      · intro h; refine ⟨h, ?_⟩
        intro hc
        have := (h5.sq p'' e'' h).2.2
        rw [hc, hsp] at this; injection this with this; exact hp this.symm
      · intro h; exact h.1
  have hraio : ∀ k', ((upd s.ctx k { s.ctx k with saio := none }) k').raio = (s.ctx k').raio := by
    intro k'; rw [upd_apply]; split
    · rename_i h; subst h; rfl
    · rfl
  have hbt : ∀ k', ((upd s.ctx k { s.ctx k with saio := none }) k').btrace = (s.ctx k').btrace := by
    intro k'; rw [upd_apply]; split
    · rename_i h; subst h; rfl
    · rfl
  have hpi : ∀ k', ((upd s.ctx k { s.ctx k with saio := none }) k').pipeId = (s.ctx k').pipeId := by
    intro k'; rw [upd_apply]; split
    · rename_i h; subst h; rfl
    · rfl
  have hpipe : ∀ p'', (((upd s.pipe p0 { s.pipe p0 with sendq := (s.pipe p0).sendq.filter (·.ctx != k) }) p'').closed = (s.pipe p'').closed) ∧
      (((upd s.pipe p0 { s.pipe p0 with sendq := (s.pipe p0).sendq.filter (·.ctx != k) }) p'').busy = (s.pipe p'').busy) ∧
      (((upd s.pipe p0 { s.pipe p0 with sendq := (s.pipe p0).sendq.filter (·.ctx != k) }) p'').armed = (s.pipe p'').armed) := by
    intro p''; rw [upd_apply]; split
    · rename_i h; subst h; exact ⟨rfl, rfl, rfl⟩
    · exact ⟨rfl, rfl, rfl⟩
  generalize hs' : setCtx (setPipe s p0 { s.pipe p0 with sendq := (s.pipe p0).sendq.filter (·.ctx != k) }) k { s.ctx k with saio := none } = s'
  have c1 : s'.ctx = upd s.ctx k { s.ctx k with saio := none } := by subst hs'; rfl
  have c2 : s'.pipe = upd s.pipe p0 { s.pipe p0 with sendq := (s.pipe p0).sendq.filter (·.ctx != k) } := by subst hs'; rfl
  have c3 : s'.slot = s.slot := by subst hs'; rfl
  have c4 : s'.npipes = s.npipes := by subst hs'; rfl
  have c5 : s'.recvpipes = s.recvpipes := by subst hs'; rfl
  have c6 : s'.ttl = s.ttl := by subst hs'; rfl
  have c7 : s'.wire = s.wire := by subst hs'; rfl
  clear hs'
  have hP : PipesRel s' { j with sends := j.sends.filter (·.aio != a) } := by
    refine PipesRel.congr (s := s) d ?_ ?_ ?_ c5 rfl rfl rfl rfl
    · intro p''; unfold livePipe; rw [c4, c2, (hpipe p'').1]
    · intro p''; rw [c2, (hpipe p'').2.1]
    · intro p''; rw [c2, (hpipe p'').2.2]
  have hO : OpsRel s' { j with sends := j.sends.filter (·.aio != a) } := by
    refine ⟨?_, ?_, ?_, ?_⟩
    · intro r hr
      obtain ⟨x1, k', pk, x2, x3, x4⟩ := e.w1 r hr
      exact ⟨x1, k', pk, by rw [c1, hraio]; exact x2, x3, by rw [resolve_congr c3]; exact x4⟩
    · intro k' pk hk'
      rw [c1, hraio] at hk'
      exact e.w2 k' pk hk'
    · intro x hx
      have hm := List.mem_filter.1 hx
      have hne : x.aio ≠ a := by simpa using hm.2
      obtain ⟨x1, x2, p'', e'', u'', y1, y2, y3, y4⟩ := e.s1 x hm.1
      refine ⟨x1, x2, p'', e'', u'', ?_, y2, by rw [resolve_congr c3]; exact y3, y4⟩
      rw [c2, hsq]
      refine ⟨y1, ?_⟩
      intro hc
      exact hne (y2.trans ((hka p'' e'' y1).1 hc))
    · intro p'' e'' he''
      rw [c2, hsq] at he''
      obtain ⟨x, hx, hxa⟩ := e.s2 p'' e'' he''.1
      refine ⟨x, List.mem_filter.2 ⟨hx, ?_⟩, hxa⟩
      have : x.aio ≠ a := by
        rw [hxa]; intro h; exact he''.2 ((hka p'' e'' he''.1).2 h)
      simpa using this
  have hCK : ∀ cur k', CurOK cur (s.ctx k') → CurOK cur (s'.ctx k') := by
    intro cur k' h
    unfold CurOK at *
    rw [c1, hbt, hpi]; exact h
  have hslots : ∀ c, c ∈ j.slots ↔ (s'.slot c).isSome = true := by
    intro c; rw [c3]; exact f.slots c
  by_cases hc : ((curOf { j with sends := j.sends.filter (·.aio != a) } sd.ctx).isNone && sd.ctxOpen) = true
  · rw [if_pos hc]
    refine ⟨⟨e1, by rw [c6]; exact e2, e3, PipesRel.congr (s := s') hP (fun _ => rfl) (fun _ => rfl) (fun _ => rfl) rfl rfl rfl rfl rfl,
      OpsRel.congr (s := s') hO (fun _ => rfl) (fun _ => rfl) rfl rfl rfl, ⟨?_, hslots⟩, by rw [c7]; exact g⟩, hacc⟩
    intro c' k' hk'
    rw [resolve_congr c3] at hk'
    rw [curOf_setCur]
    by_cases hcc : c' = sd.ctx
    · subst hcc
      rw [hres'] at hk'; injection hk' with hk'; subst hk'
      rw [if_pos rfl]
      have hn : curOf j sd.ctx = none := by
        have : (curOf j sd.ctx).isNone = true := by
          have := hc; simp only [Bool.and_eq_true] at this; exact this.1
        cases hh : curOf j sd.ctx with
        | none => rfl
        | some _ => rw [hh] at this; cases this
      have := f.cur sd.ctx _ hres'
      rw [hn] at this
      apply hCK
      exact Or.inl ⟨rfl, this⟩
    · rw [if_neg hcc]
      exact hCK _ _ (f.cur c' k' hk')
  · rw [if_neg hc]
    refine ⟨⟨e1, by rw [c6]; exact e2, e3, hP, hO, ⟨?_, hslots⟩, by rw [c7]; exact g⟩, hacc⟩
    intro c' k' hk'
    rw [resolve_congr c3] at hk'
    exact hCK _ _ (f.cur c' k' hk')

/-- one parked operation fails with `rv` (neither 0 nor NNG_ESTATE): the judge processes the single
    completion (if any) and stays related to the model -/
theorem failAio_sim {s : State} {j : RepJ} {used : List Bytes} (h0 : R0 s j) (hacc : j.acc = []) (h5 : Inv5 s used)
    (a rv : Nat) (hrv0 : rv ≠ 0) (hrve : rv ≠ Err.estate) :
    R0 (failAio s a rv).1 ((failAio s a rv).2.foldl doneStep j) ∧
    ((failAio s a rv).2.foldl doneStep j).acc = [] ∧
    (∀ o ∈ (failAio s a rv).2, isDone o = true ∧ isBlocked o = false ∧ notExecuted [o] = false) := by
  generalize hres : failAio s a rv = res
  unfold failAio at hres
  split at hres
  · rename_i k hfind
    subst hres
    have hk := List.find?_some hfind
    cases hra : (s.ctx k).raio with
    | none => rw [hra] at hk; cases hk
    | some pk =>
      rw [hra] at hk
      have hpa : pk.aio = a := by simpa using hk
      have := failAio_recv_case h0 hacc h5 a rv hrv0 hrve k pk hra hpa (s.recvq.filter (· != k))
      refine ⟨this.1, this.2, ?_⟩
      intro o ho
      simp only [List.mem_singleton] at ho
      subst ho
      exact ⟨rfl, rfl, rfl⟩
  · split at hres
    · rename_i k hfind
      subst hres
      have hk0 := List.find?_some hfind
      have hk : (s.ctx k).saio = some a := by simpa using hk0
      obtain ⟨p, hsp, _⟩ := h5.sa k a hk
      have := failAio_send_case h0 hacc h5 a rv hrv0 hrve k p hk hsp
      simp only [hsp]
      refine ⟨this.1, this.2, ?_⟩
      intro o ho
      simp only [List.mem_singleton] at ho
      subst ho
      exact ⟨rfl, rfl, rfl⟩
    · subst hres
      refine ⟨h0, hacc, ?_⟩
      intro o ho; cases ho

theorem failAll_acc (f : State → Nat → State × List Out) (as : List Nat) (s : State) (o : List Out) :
    as.foldl (fun (acc : State × List Out) a => ((f acc.1 a).1, acc.2 ++ (f acc.1 a).2)) (s, o) =
      ((as.foldl (fun (acc : State × List Out) a => ((f acc.1 a).1, acc.2 ++ (f acc.1 a).2)) (s, [])).1,
        o ++ (as.foldl (fun (acc : State × List Out) a => ((f acc.1 a).1, acc.2 ++ (f acc.1 a).2)) (s, [])).2) := by
  induction as generalizing s o with
  | nil => simp
  | cons a as ih =>
    simp only [List.foldl_cons, List.nil_append]
    rw [ih (f s a).1 (o ++ (f s a).2), ih (f s a).1 (f s a).2, List.append_assoc]

theorem failAll_cons (s : State) (a : Nat) (as : List Nat) (rv : Nat) :
    failAll s (a :: as) rv =
      ((failAll (failAio s a rv).1 as rv).1, (failAio s a rv).2 ++ (failAll (failAio s a rv).1 as rv).2) := by
  have := failAll_acc (fun s a => failAio s a rv) as (failAio s a rv).1 (failAio s a rv).2
  unfold failAll
  simp only [List.foldl_cons, List.nil_append]
  exact this

/-- a batch of failing operations (timer expiry) -/
theorem failAll_sim (as : List Nat) (rv : Nat) (hrv0 : rv ≠ 0) (hrve : rv ≠ Err.estate) :
    ∀ {s : State} {j : RepJ} {used : List Bytes}, R0 s j → j.acc = [] → Inv5 s used →
    R0 (failAll s as rv).1 ((failAll s as rv).2.foldl doneStep j) ∧
    ((failAll s as rv).2.foldl doneStep j).acc = [] ∧
    (∀ o ∈ (failAll s as rv).2, isDone o = true ∧ isBlocked o = false ∧ notExecuted [o] = false) := by
  induction as with
  | nil =>
    intro s j used h0 hacc _
    refine ⟨h0, hacc, ?_⟩
    intro o ho; cases ho
  | cons a as ih =>
    intro s j used h0 hacc h5
    rw [failAll_cons]
    obtain ⟨g1, g2, g3⟩ := failAio_sim h0 hacc h5 a rv hrv0 hrve
    obtain ⟨i1, i2, i3⟩ := ih g1 g2 (failAio_inv5 s a rv used h5)
    simp only [List.foldl_append]
    refine ⟨i1, i2, ?_⟩
    intro o ho
    rcases List.mem_append.1 ho with ho | ho
    · exact g3 o ho
    · exact i3 o ho

/-- the three events: `ev` is `.cancel a`, `.abort a rv` or `.advance ms`; `s0` is the state the batch starts
    from (`s` itself, or `s` with the clock advanced); the judge keeps no books for these events -/
theorem failBatch_sim {s0 : State} {j : RepJ} {used : List Bytes} (ev : Ev) (hpre : ∀ (j : RepJ) outs, repPre j ev outs = (j, none))
    (hR : R s0 j) (h5 : Inv5 s0 used) (as : List Nat) (rv : Nat) (hrv0 : rv ≠ 0) (hrve : rv ≠ Err.estate)
    (h3' : Inv3 (failAll s0 as rv).1) :
    R (failAll s0 as rv).1 (repStep j ev (failAll s0 as rv).2) := by
  have hacc : (unfresh j).acc = [] := hR.acc
  obtain ⟨g1, g2, g3⟩ := failAll_sim as rv hrv0 hrve (R0_unfresh hR.r0) hacc h5
  generalize (failAll s0 as rv).2 = outs at g1 g2 g3 ⊢
  have hne : notExecuted outs = false := by
    unfold notExecuted
    rw [List.any_eq_false]
    intro o ho
    have := (g3 o ho).2.2
    unfold notExecuted at this
    simpa using this
  have hnp : ∀ o ∈ outs, isPipeOut o = false := by
    intro o ho
    have := (g3 o ho).1
    cases o <;> first | rfl | cases this
  have hpoll : ∀ o ∈ outs, isPollOut o = false := by
    intro o ho
    have := (g3 o ho).1
    cases o <;> first | rfl | cases this
  have hbl : outs.any isBlocked = false := by
    rw [List.any_eq_false]
    intro o ho
    simp [(g3 o ho).2.1]
  have hf1 : outs.filter isDone = outs := List.filter_eq_self.2 (fun o ho => (g3 o ho).1)
  have hf2 : outs.filter (fun o => !isDone o) = [] := by
    rw [List.filter_eq_nil_iff]
    intro o ho; simp [(g3 o ho).1]
  rw [repStep_eq hR.r0.err hne, hpre]
  have hproc : procOuts outs (unfresh j) = outs.foldl doneStep (unfresh j) := by
    rw [procOuts_nopipe hnp, hf1, hf2]; rfl
  rw [hproc]
  refine post_R g1 h3' ?_ (Or.inl rfl) hbl hpoll
  rw [g2]; intro x hx; cases hx

theorem failAll_one (s : State) (a rv : Nat) : failAll s [a] rv = failAio s a rv := by
  simp [failAll]

end Nng.RepProofs
