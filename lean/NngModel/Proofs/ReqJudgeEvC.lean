/-
  Simulation, event by event (3): closing a context; the judge's bookkeeping of error completions that
  all belong to one context.
-/
import NngModel.Proofs.ReqJudgeEvB
namespace Nng.ReqJ
open Nng Nng.Proto Nng.Req Nng.ReqSpec

def phACf (e : Option Nat) (c : CJ) (o : Out) : CJ :=
  match o with
  | .done a rv none _ => if some a != e && rv != 0 && rv != Err.econnreset then oldC a c else c
  | _ => c

def phAC (e : Option Nat) (outs : List Out) (c : CJ) : CJ := outs.foldl (phACf e) c

/-- completions of operations parked in context `k` only touch the judge's record of `k` -/
theorem phA_local {rest : List Ev} {s : State} {j : J} (hM : R rest s j) (k : Nat) (e : Option Nat) (outs : List Out)
    (hall : ∀ x, x ∈ outs → ∀ a rv mb, x = .done a rv none mb → ∃ b, aioOf s k b = some a) (c : CJ) :
    phA e outs (setC j k c) = setC j k (phAC e outs c) := by
  induction outs generalizing c with
  | nil => rfl
  | cons x t ih =>
    rw [phA_cons]
    have e1 : phAf e (setC j k c) x = setC j k (phACf e c x) := by
      unfold phAf phACf
      cases x with
      | done a rv m mb =>
        cases m with
        | some _ => rfl
        | none =>
          dsimp only
          split
          · obtain ⟨b, hb⟩ := hall _ (by simp) a rv mb rfl
            exact oldDone_local hM rv hb c
          · rfl
      | _ => rfl
    rw [e1, ih (fun y hy => hall y (by simp [hy]))]
    rfl

theorem phACf_opened (e : Option Nat) (c : CJ) (o : Out) : (phACf e c o).opened = c.opened := by
  unfold phACf; split
  · split
    · exact oldC_opened _ _
    · rfl
  · rfl

theorem phACf_retry (e : Option Nat) (c : CJ) (o : Out) : (phACf e c o).retry = c.retry := by
  unfold phACf; split
  · split
    · exact oldC_retry _ _
    · rfl
  · rfl

theorem phAC_opened (e : Option Nat) (outs : List Out) (c : CJ) : (phAC e outs c).opened = c.opened := by
  induction outs generalizing c with
  | nil => rfl
  | cons x t ih => unfold phAC; rw [List.foldl_cons]; exact (ih _).trans (phACf_opened e c x)

theorem phAC_retry (e : Option Nat) (outs : List Out) (c : CJ) : (phAC e outs c).retry = c.retry := by
  induction outs generalizing c with
  | nil => rfl
  | cons x t ih => unfold phAC; rw [List.foldl_cons]; exact (ih _).trans (phACf_retry e c x)

theorem finiChain_parked (s : State) (k e : Nat) (hn : s.sendQueue.Nodup) :
    ∀ x, x ∈ (finiChain s k e).2 → ∀ a rv mb, x = .done a rv none mb → ∃ b, aioOf s k b = some a := by
  rw [(finiChain_eq s k e hn).2]
  intro x hx a rv mb hxe
  subst hxe
  rcases List.mem_append.1 hx with h | h
  · cases hr : (s.ctx k).recvAio with
    | none => simp [hr] at h
    | some ra => simp [hr] at h; exact ⟨false, by rw [aioOf_recv hr, h.1]⟩
  · cases hs : (s.ctx k).sendAio with
    | none => simp [hs] at h
    | some ua => simp [hs] at h; exact ⟨true, by rw [aioOf_send hs, h.1]⟩

theorem finiChain_dn (s : State) (k e : Nat) (hn : s.sendQueue.Nodup) (he : e ≠ 0) :
    ∀ x, x ∈ (finiChain s k e).2 → isDn x = true := by
  rw [(finiChain_eq s k e hn).2]
  intro x hx
  rcases List.mem_append.1 hx with h | h
  · cases hr : (s.ctx k).recvAio with
    | none => simp [hr] at h
    | some ra => simp [hr] at h; subst h; simpa [isDn] using he
  · cases hs : (s.ctx k).sendAio with
    | none => simp [hs] at h
    | some ua => simp [hs] at h; subst h; simpa [isDn] using he

theorem sim_ctxClose {rest : List Ev} {s : State} {j : J} (c : Nat) (hM : R (.ctxClose c :: rest) s j)
    (hI : Inv2 none none s) (hD : Dr s) :
    Sim rest (Req.step s (.ctxClose c)).1 j (ReqSpec.step j (.ctxClose c) (Req.step s (.ctxClose c)).2) (.ctxClose c) := by
  unfold Req.step
  rw [if_neg (by simp [hM.mi.open_]), if_neg (by simp [hM.mi.notgone])]
  dsimp only
  have hM' := hM.weaken
  have hsq : s.sendQueue.Nodup := hI.sq_nodup
  split
  · exact sim_refused _ _ hM
  split
  · rename_i hc hl
    rw [ctxFini_eq]
    dsimp only
    obtain ⟨e1, e2⟩ := finiChain_eq s (c + 1) Err.eclosed hsq
    have hdn : ∀ x, x ∈ [Out.rv 0] ++ (finiChain s (c + 1) Err.eclosed).2 → isDn x = true := by
      intro x hx
      rcases List.mem_append.1 hx with h | h
      · simp at h; subst h; rfl
      · exact finiChain_dn s (c + 1) Err.eclosed hsq (by decide) x h
    have hpk : ∀ x, x ∈ [Out.rv 0] ++ (finiChain s (c + 1) Err.eclosed).2 → ∀ a rv mb, x = .done a rv none mb →
        ∃ b, aioOf s (c + 1) b = some a := by
      intro x hx a rv mb hxe
      rcases List.mem_append.1 hx with h | h
      · simp at h; subst h; cases hxe
      · exact finiChain_parked s (c + 1) Err.eclosed hsq x h a rv mb hxe
    have hA := phA_local hM' (c + 1) none _ hpk (j.ctx (c + 1))
    rw [setC_self] at hA
    have hok : ([Out.rv 0] ++ (finiChain s (c + 1) Err.eclosed).2).contains (.rv 0) = true := by simp
    have hEv : (phEv (phA none ([Out.rv 0] ++ (finiChain s (c + 1) Err.eclosed).2) j) (.ctxClose c)
        ([Out.rv 0] ++ (finiChain s (c + 1) Err.eclosed).2) (([Out.rv 0] ++ (finiChain s (c + 1) Err.eclosed).2).contains (.rv 0))).1 =
        setC j (c + 1) {} := by
      rw [hok, hA]
      simp only [phEv, if_true, setC_setC]
    have hR1 := hM'.wipe (c + 1) true hI e1
    have hidle : IdleCtx ((finiChain s (c + 1) Err.eclosed).1.ctx (c + 1)) := by
      have : (finiChain s (c + 1) Err.eclosed).1.ctx = (wipeV (mv s) (c + 1) true false).ctx := congrArg MV.ctx e1
      rw [this]
      simp [wipeV, upd, wipeCtx, IdleCtx]
    have hfin : R rest (setCtx (finiChain s (c + 1) Err.eclosed).1 (c + 1)
        { (finiChain s (c + 1) Err.eclosed).1.ctx (c + 1) with live := false }) (setC j (c + 1) {}) := by
      have := idle_R (c + 1) { (finiChain s (c + 1) Err.eclosed).1.ctx (c + 1) with live := false } {} hR1 hidle.quiet
        ⟨hidle.1, hidle.2.1, hidle.2.2.1, hidle.2.2.2.1, hidle.2.2.2.2.1, hidle.2.2.2.2.2⟩ (fun h => by cases h) rfl (fun h => by cases h)
        ⟨rfl, rfl, rfl, rfl⟩
      unfold wipeJ at this
      rw [setC_setC] at this
      exact this
    have hD' : Dr (setCtx (finiChain s (c + 1) Err.eclosed).1 (c + 1)
        { (finiChain s (c + 1) Err.eclosed).1.ctx (c + 1) with live := false }) := dr_wipe (s' := (finiChain s (c + 1) Err.eclosed).1) (c + 1) true hD e1
    rw [step_dn2 hdn j _ hM.g.closed rfl (fun _ => rfl) (by rw [hEv]; exact hfin.g.closed), hEv]
    rw [phReset_ne, quiescent_R hfin hD']
    · exact ⟨hfin, rfl, fun _ => rfl⟩
    · intro x hx a mb e
      rcases List.mem_append.1 hx with h | h
      · simp [e] at h
      · rw [e2] at h
        rcases List.mem_append.1 h with h | h
        · cases hr : (s.ctx (c + 1)).recvAio with
          | none => simp [hr] at h
          | some ra => simp [hr, e, Err.eclosed, Err.econnreset] at h
        · cases hs : (s.ctx (c + 1)).sendAio with
          | none => simp [hs] at h
          | some ua => simp [hs, e, Err.eclosed, Err.econnreset] at h
  · have e1 : (phEv j (.ctxClose c) [.rv (-1)] (decide ((-1 : Int) = 0))).1 = j := by simp [phEv]
    rw [step_rv j _ (-1) hM.g.closed (fun _ => by simp) (by rw [e1]; exact hM.g.closed), e1, quiescent_R hM' hD]
    exact ⟨hM', rfl, fun _ => rfl⟩

end Nng.ReqJ
