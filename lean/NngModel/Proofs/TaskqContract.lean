/- what the contract (Model/Taskq.lean `allowed`: K1 dispatch only when every earlier dispatch's callback
   has begun, K2 prep only when no prep is outstanding) buys: no nni_panic, `owed` is the prep bit;
   and under the stronger serial discipline at most one dispatch/exec is unfinished at any time -/
import NngModel.Proofs.TaskqInv
namespace Nng.Taskq

structure InvK (s : State) : Prop where
  k1 : s.sd ≤ s.bw + 1
  k2 : s.owed = s.prep.toNat
  noPanic : s.panic = false

theorem invK_init (nw : Nat) (progs : List (List Op)) : InvK (init nw progs) := by
  constructor <;> simp [init]

theorem invK_wstep {s : State} (hK : InvK s) {j : Nat} {w : WPc} : InvK (wstep s j w) := by
  obtain ⟨k1, k2, k3⟩ := hK
  cases w <;> unfold wstep
  · by_cases hq : s.onq = true
    · constructor <;> simp [hq, k2, k3] <;> omega
    · constructor <;> simp [hq, k2, k3] <;> omega
  · exact ⟨k1, k2, k3⟩
  · constructor <;> simp [k2, k3] <;> omega
  · constructor <;> simp [k2, k3] <;> omega
  · constructor <;> simp [decBusy, k2, k3] <;> omega

theorem invK_cstep (hasCb : Bool) {s : State} (hI : Inv s) (hK : InvK s) {i : Nat} {c : Client}
    (hi : s.cs[i]? = some c) (pick : Nat)
    (ha : match c.pc, c.prog with
          | .idle, .dispatch :: _ => s.sd = s.bw
          | .idle, .prep :: _ => s.owed = 0
          | _, _ => True) :
    InvK (cstep hasCb s i c pick) := by
  have hpos := cc_pos hi
  obtain ⟨k1, k2, k3⟩ := hK
  obtain ⟨pc, prog, res⟩ := c
  cases pc with
  | waitSleep => exact ⟨k1, k2, k3⟩
  | idle =>
    cases prog with
    | nil => exact ⟨k1, k2, k3⟩
    | cons op r =>
      cases op with
      | prep =>
        simp only [] at ha
        constructor <;> simp [cstep, k3, ha] <;> omega
      | busy => constructor <;> simp [cstep, k2, k3] <;> omega
      | wait =>
        unfold cstep
        by_cases hb : s.busy = 0
        · constructor <;> simp [hb, k2, k3] <;> omega
        · constructor <;> simp [hb, k2, k3] <;> omega
      | dispatch =>
        simp only [] at ha
        unfold cstep take
        cases hasCb <;> by_cases hp : s.prep = true <;>
          constructor <;> simp [decBusy, hp, k3, ha] <;> simp [hp] at k2 <;> omega
      | exec =>
        unfold cstep take
        cases hasCb <;> by_cases hp : s.prep = true <;>
          constructor <;> simp [decBusy, hp, k3] <;> simp [hp] at k2 <;> omega
  | dispEnq =>
    unfold cstep
    by_cases hq : s.onq = true
    · -- impossible under K1: this dispatch and the queued one are both unaccounted by `bw`
      have := hI.sdEq
      simp [hq] at this
      simp only [] at hpos
      omega
    · constructor <;> simp [hq, k2, k3] <;> omega
  | execPop => constructor <;> simp [cstep, k2, k3] <;> omega
  | execCb => constructor <;> simp [cstep, k2, k3] <;> omega
  | execAfter => constructor <;> simp [cstep, decBusy, k2, k3] <;> omega
  | waitChk =>
    unfold cstep
    by_cases hb : s.busy = 0
    · constructor <;> simp [hb, k2, k3] <;> omega
    · constructor <;> simp [hb, k2, k3] <;> omega

theorem invK_step (hasCb : Bool) {s : State} (hI : Inv s) (hK : InvK s) (ch : Choice) (ha : allowed s ch = true) :
    InvK (step hasCb s ch) := by
  unfold step
  split
  · exact hK
  · unfold allowed at ha
    cases hc : ch.tid with
    | w j =>
      simp only []
      cases hj : s.ws[j]? with
      | none => exact hK
      | some w => exact invK_wstep hK
    | c i =>
      rw [hc] at ha
      simp only [] at ha ⊢
      cases hi : s.cs[i]? with
      | none => exact hK
      | some c =>
        rw [hi] at ha
        simp only [] at ha
        apply invK_cstep hasCb hI hK hi ch.pick
        obtain ⟨pc, prog, res⟩ := c
        cases pc <;> try trivial
        cases prog with
        | nil => trivial
        | cons op r => cases op <;> simp_all

theorem invK_run (hasCb : Bool) {s : State} (hI : Inv s) (hK : InvK s) (sched : List Choice)
    (hr : respects hasCb s sched = true) : InvK (run hasCb s sched) := by
  induction sched generalizing s with
  | nil => exact hK
  | cons c cs ih =>
    simp only [respects, Bool.and_eq_true] at hr
    exact ih (inv_step hasCb hI c) (invK_step hasCb hI hK c hr.1) hr.2

/-! ### the serial discipline -/

theorem allowedSerial_allowed {s : State} {ch : Choice} (h : allowedSerial s ch = true) : allowed s ch = true := by
  simp only [allowedSerial, Bool.and_eq_true] at h
  exact h.1

theorem respectsSerial_respects (hasCb : Bool) (s : State) (sched : List Choice)
    (h : respectsSerial hasCb s sched = true) : respects hasCb s sched = true := by
  induction sched generalizing s with
  | nil => rfl
  | cons c cs ih =>
    simp only [respectsSerial, respects, Bool.and_eq_true] at h ⊢
    exact ⟨allowedSerial_allowed h.1, ih _ h.2⟩

/-- at most one dispatch/exec whose callback has not returned -/
def Serial (s : State) : Prop := s.sd + s.sx ≤ s.ce + 1

theorem serial_wstep {s : State} (h : Serial s) {j : Nat} {w : WPc} : Serial (wstep s j w) := by
  unfold Serial at h ⊢
  cases w <;> unfold wstep
  · by_cases hq : s.onq = true <;> simp [hq] <;> omega
  · exact h
  · simp; omega
  · simp; omega
  · simp [decBusy]; omega

theorem serial_cstep (hasCb : Bool) {s : State} (h : Serial s) {i : Nat} {c : Client} (pick : Nat)
    (ha : match c.pc, c.prog with
          | .idle, .dispatch :: _ => s.sd + s.sx = s.ce
          | .idle, .exec :: _ => s.sd + s.sx = s.ce
          | _, _ => True) :
    Serial (cstep hasCb s i c pick) := by
  unfold Serial at h ⊢
  obtain ⟨pc, prog, res⟩ := c
  cases pc with
  | waitSleep => exact h
  | idle =>
    cases prog with
    | nil => exact h
    | cons op r =>
      cases op with
      | prep => simp [cstep]; omega
      | busy => simp [cstep]; omega
      | wait => unfold cstep; by_cases hb : s.busy = 0 <;> simp [hb] <;> omega
      | dispatch =>
        simp only [] at ha
        unfold cstep take
        cases hasCb <;> by_cases hp : s.prep = true <;> simp [decBusy, hp] <;> omega
      | exec =>
        simp only [] at ha
        unfold cstep take
        cases hasCb <;> by_cases hp : s.prep = true <;> simp [decBusy, hp] <;> omega
  | dispEnq => unfold cstep; by_cases hq : s.onq = true <;> simp [hq] <;> omega
  | execPop => simp [cstep]; omega
  | execCb => simp [cstep]; omega
  | execAfter => simp [cstep, decBusy]; omega
  | waitChk => unfold cstep; by_cases hb : s.busy = 0 <;> simp [hb] <;> omega

theorem serial_step (hasCb : Bool) {s : State} (h : Serial s) (ch : Choice) (ha : allowedSerial s ch = true) :
    Serial (step hasCb s ch) := by
  unfold step
  split
  · exact h
  · simp only [allowedSerial, Bool.and_eq_true] at ha
    have ha := ha.2
    cases hc : ch.tid with
    | w j =>
      simp only []
      cases hj : s.ws[j]? with
      | none => exact h
      | some w => exact serial_wstep h
    | c i =>
      rw [hc] at ha
      simp only [] at ha ⊢
      cases hi : s.cs[i]? with
      | none => exact h
      | some c =>
        rw [hi] at ha
        simp only [] at ha
        apply serial_cstep hasCb h ch.pick
        obtain ⟨pc, prog, res⟩ := c
        cases pc <;> try trivial
        cases prog with
        | nil => trivial
        | cons op r => cases op <;> simp_all

theorem serial_run (hasCb : Bool) {s : State} (h : Serial s) (sched : List Choice)
    (hr : respectsSerial hasCb s sched = true) : Serial (run hasCb s sched) := by
  induction sched generalizing s with
  | nil => exact h
  | cons c cs ih =>
    simp only [respectsSerial, Bool.and_eq_true] at hr
    exact ih (serial_step hasCb h c hr.1) hr.2

end Nng.Taskq
