/-
  SURVEYOR receive pollable (S7): in every reachable state it is raised exactly when the
  socket's own context has a queued response.
-/
import NngModel.Proofs.SurveyStep
namespace Nng.Survey
open Nng Nng.Proto

def SockQ (ctxs : List Ctx) : Prop := ∃ c ∈ ctxs, c.key = none ∧ c.recvQ ≠ []

/-- at most one context is the socket's own -/
def Uniq (ctxs : List Ctx) : Prop := ∀ c1 ∈ ctxs, ∀ c2 ∈ ctxs, c1.key = none → c2.key = none → c1 = c2

structure PCore (ctxs : List Ctx) (readable : Bool) : Prop where
  uniq : Uniq ctxs
  rd : readable = true ↔ SockQ ctxs

def PInv (s : State) : Prop := PCore s.ctxs s.readable

theorem sockQ_of_mem {ctxs : List Ctx} {c : Ctx} (hu : Uniq ctxs) (hc : c ∈ ctxs) (hk : c.key = none) :
    SockQ ctxs ↔ c.recvQ ≠ [] := by
  constructor
  · rintro ⟨q, hq, hqk, hqq⟩
    have := hu q hq c hc hqk hk
    subst this; exact hqq
  · intro h; exact ⟨c, hc, hk, h⟩

theorem sockQ_setCtx {s : State} {c c' : Ctx} (hc : c ∈ s.ctxs) (hk : c'.key = c.key) :
    SockQ (setCtx s c').ctxs ↔ (if c.key = none then c'.recvQ ≠ [] else SockQ s.ctxs) := by
  simp only [setCtx]
  constructor
  · rintro ⟨q, hq, hqk, hqq⟩
    simp only [List.mem_map] at hq
    obtain ⟨x, hx, rfl⟩ := hq
    by_cases hxk : (x.key == c'.key) = true
    · simp only [hxk, if_true] at hqk hqq
      rw [hk] at hqk
      simp [hqk, hqq]
    · simp only [hxk, Bool.false_eq_true, if_false] at hqk hqq
      have hne : ¬ c.key = none := by
        intro hcn
        apply hxk
        rw [hk, hcn, hqk]; simp
      simp only [hne, if_false]
      exact ⟨x, hx, hqk, hqq⟩
  · intro h
    by_cases hcn : c.key = none
    · simp only [hcn, if_true] at h
      refine ⟨c', ?_, by rw [hk, hcn], h⟩
      simp only [List.mem_map]
      exact ⟨c, hc, by simp [hk]⟩
    · simp only [hcn, if_false] at h
      obtain ⟨x, hx, hxk, hxq⟩ := h
      refine ⟨x, ?_, hxk, hxq⟩
      simp only [List.mem_map]
      refine ⟨x, hx, ?_⟩
      have : ¬ (x.key == c'.key) = true := by
        simp only [beq_iff_eq, hxk, hk]
        intro he; exact hcn he.symm
      simp [this]

theorem uniq_setCtx {s : State} {c' : Ctx} (hu : Uniq s.ctxs) : Uniq (setCtx s c').ctxs := by
  intro q1 h1 q2 h2 k1 k2
  simp only [setCtx, List.mem_map] at h1 h2
  obtain ⟨x1, hx1, rfl⟩ := h1
  obtain ⟨x2, hx2, rfl⟩ := h2
  by_cases e1 : (x1.key == c'.key) = true <;> by_cases e2 : (x2.key == c'.key) = true
  · simp [e1, e2]
  · simp only [e1, if_true, e2, Bool.false_eq_true, if_false] at k1 k2 ⊢
    exfalso; apply e2; rw [k1, k2]; simp
  · simp only [e1, Bool.false_eq_true, if_false, e2, if_true] at k1 k2 ⊢
    exfalso; apply e1; rw [k1, k2]; simp
  · simp only [e1, e2, Bool.false_eq_true, if_false] at k1 k2 ⊢
    exact hu x1 hx1 x2 hx2 k1 k2

/-- replacing a context without touching its queue changes nothing for the pollable -/
theorem pinv_setCtx_sameQ {s : State} {c c' : Ctx} (h : PInv s) (hc : c ∈ s.ctxs) (hk : c'.key = c.key)
    (hq : c'.recvQ = c.recvQ) : PInv (setCtx s c') := by
  refine ⟨uniq_setCtx h.uniq, ?_⟩
  rw [sockQ_setCtx hc hk]
  by_cases hcn : c.key = none
  · simp only [hcn, if_true, hq]
    exact h.rd.trans (sockQ_of_mem h.uniq hc hcn)
  · simp only [hcn, if_false]
    exact h.rd

theorem pinv_same {s s' : State} (h : PInv s) (h1 : s'.ctxs = s.ctxs) (h2 : s'.readable = s.readable) : PInv s' := by
  unfold PInv; rw [h1, h2]; exact h

theorem closePipe_readable (s : State) (p : Nat) : (closePipe s p).1.readable = s.readable := by
  unfold closePipe
  split
  · rfl
  · split <;> simp [setPipe]

theorem closePipe_pinv {s : State} (p : Nat) (h : PInv s) : PInv (closePipe s p).1 :=
  pinv_same h (closePipe_fields s p).1 (closePipe_readable s p)

theorem clearReadableIf_ctxs (s : State) (k : Option Nat) : (clearReadableIf s k).ctxs = s.ctxs := by
  unfold clearReadableIf; split <;> rfl

theorem ctxRecv_pinv {s : State} {c : Ctx} (a : Nat) (mode : Mode) (h : PInv s) (hc : c ∈ s.ctxs) :
    PInv (ctxRecv s c a mode).1 := by
  unfold ctxRecv
  split
  · exact h
  · simp only
    split
    · split
      · exact h
      · exact pinv_setCtx_sameQ h hc rfl rfl
    · rename_i gm rest hq
      have hrd : c.key = none → s.readable = true := fun hk =>
        h.rd.mpr ⟨c, hc, hk, by simp [hq]⟩
      have hsq := sockQ_setCtx (s := s) (c := c) (c' := { c with recvQ := rest }) hc rfl
      have hu : Uniq (setCtx s { c with recvQ := rest }).ctxs := uniq_setCtx h.uniq
      cases hre : rest.isEmpty
      · have hne : rest ≠ [] := by intro he; rw [he] at hre; simp at hre
        simp only [Bool.false_eq_true, if_false]
        refine ⟨hu, ?_⟩
        show s.readable = true ↔ SockQ (setCtx s { c with recvQ := rest }).ctxs
        rw [hsq]
        by_cases hk : c.key = none
        · simp only [hk, if_true]
          exact ⟨fun _ => hne, fun _ => hrd hk⟩
        · simp only [hk, if_false]; exact h.rd
      · have he : rest = [] := List.isEmpty_iff.mp hre
        simp only [if_true]
        by_cases hk : c.key = none
        · refine ⟨by simpa [clearReadableIf_ctxs] using hu, ?_⟩
          show (clearReadableIf (setCtx s { c with recvQ := rest }) c.key).readable = true ↔
            SockQ (clearReadableIf (setCtx s { c with recvQ := rest }) c.key).ctxs
          rw [clearReadableIf_ctxs, hsq]
          simp [clearReadableIf, hk, he]
        · refine ⟨by simpa [clearReadableIf_ctxs] using hu, ?_⟩
          show (clearReadableIf (setCtx s { c with recvQ := rest }) c.key).readable = true ↔
            SockQ (clearReadableIf (setCtx s { c with recvQ := rest }) c.key).ctxs
          rw [clearReadableIf_ctxs, hsq]
          have : (c.key == none) = false := by
            cases hkk : c.key with
            | none => exact absurd hkk hk
            | some _ => rfl
          simp only [clearReadableIf, this, Bool.false_eq_true, if_false, hk]
          exact h.rd

theorem pipeRecv_pinv {s : State} (p : Nat) (b : Bytes) (h : PInv s) : PInv (pipeRecv s p b).1 := by
  unfold pipeRecv
  split
  · exact closePipe_pinv p h
  · simp only
    split
    · exact h
    · rename_i c hl
      have hl' : lookup s (beDecode (List.take 4 b)) = some c := hl
      obtain ⟨hc, _, _⟩ := lookup_spec hl'
      split
      · exact h
      · split
        · exact pinv_setCtx_sameQ (s := { s with narrive := s.narrive + 1 }) h hc rfl rfl
        · have hsq := sockQ_setCtx (s := { s with narrive := s.narrive + 1 }) (c := c)
            (c' := { c with recvQ := c.recvQ ++ [⟨s.narrive, p, beDecode (List.take 4 b), ⟨List.take 4 b, List.drop 4 b⟩⟩] }) hc rfl
          have hu := uniq_setCtx (s := { s with narrive := s.narrive + 1 })
            (c' := { c with recvQ := c.recvQ ++ [⟨s.narrive, p, beDecode (List.take 4 b), ⟨List.take 4 b, List.drop 4 b⟩⟩] }) h.uniq
          by_cases hk : c.key = none
          · have hb : (c.key == none) = true := by simp [hk]
            simp only [hb, if_true]
            refine ⟨hu, ?_⟩
            show true = true ↔ _
            rw [hsq]; simp [hk]
          · have : (c.key == none) = false := by
              cases hkk : c.key with
              | none => exact absurd hkk hk
              | some _ => rfl
            simp only [this, Bool.false_eq_true, if_false]
            refine ⟨hu, ?_⟩
            rw [hsq]
            simp only [hk, if_false]
            exact h.rd

theorem mem_setCtx_self {s : State} {c c' : Ctx} (hc : c ∈ s.ctxs) (hk : c'.key = c.key) : c' ∈ (setCtx s c').ctxs := by
  simp only [setCtx, List.mem_map]
  exact ⟨c, hc, by simp [hk]⟩

theorem ctxSend_pinv {s : State} {c : Ctx} (a : Nat) (m : WMsg) (h : PInv s) (hc : c ∈ s.ctxs) :
    PInv (ctxSend s c a m).1 := by
  unfold ctxSend
  simp only
  -- after the abort the context's queue is empty; the socket context also clears the pollable
  have hsq := sockQ_setCtx (s := s) (c := c) (c' := (abortCtx c Err.ecanceled).1) hc rfl
  have hu : Uniq (setCtx s (abortCtx c Err.ecanceled).1).ctxs := uniq_setCtx h.uniq
  have h1 : PInv (clearReadableIf (setCtx s (abortCtx c Err.ecanceled).1) c.key) := by
    refine ⟨by simpa [clearReadableIf_ctxs] using hu, ?_⟩
    show (clearReadableIf (setCtx s (abortCtx c Err.ecanceled).1) c.key).readable = true ↔
      SockQ (clearReadableIf (setCtx s (abortCtx c Err.ecanceled).1) c.key).ctxs
    rw [clearReadableIf_ctxs, hsq]
    by_cases hk : c.key = none
    · simp [clearReadableIf, hk, abortCtx]
    · have : (c.key == none) = false := by
        cases hkk : c.key with
        | none => exact absurd hkk hk
        | some _ => rfl
      simp only [clearReadableIf, this, Bool.false_eq_true, if_false, hk]
      exact h.rd
  have hmem : (abortCtx c Err.ecanceled).1 ∈ (clearReadableIf (setCtx s (abortCtx c Err.ecanceled).1) c.key).ctxs := by
    rw [clearReadableIf_ctxs]; exact mem_setCtx_self hc rfl
  split
  · exact h1
  · exact pinv_setCtx_sameQ (s := { (clearReadableIf (setCtx s (abortCtx c Err.ecanceled).1) c.key) with
      dynVal := _, issued := _, pipes := _ }) h1 hmem rfl rfl

theorem cancelAio_pinv {s : State} (a rv : Nat) (h : PInv s) : PInv (cancelAio s a rv).1 := by
  unfold cancelAio
  split
  · rename_i c hf
    have hc : c ∈ s.ctxs := List.mem_of_find?_eq_some hf
    apply pinv_setCtx_sameQ h hc
    · unfold cancelIn; split <;> rfl
    · unfold cancelIn; split <;> rfl
  · exact h

/-- a map over the contexts that keeps every key and queue keeps the pollable invariant -/
theorem pcore_map {ctxs : List Ctx} {r : Bool} (f : Ctx → Ctx) (hk : ∀ c, (f c).key = c.key)
    (hq : ∀ c, (f c).recvQ = c.recvQ) (h : PCore ctxs r) : PCore (ctxs.map f) r := by
  refine ⟨?_, ?_⟩
  · intro q1 h1 q2 h2 k1 k2
    simp only [List.mem_map] at h1 h2
    obtain ⟨x1, hx1, rfl⟩ := h1
    obtain ⟨x2, hx2, rfl⟩ := h2
    rw [hk] at k1 k2
    rw [h.uniq x1 hx1 x2 hx2 k1 k2]
  · rw [h.rd]
    constructor
    · rintro ⟨c, hc, hck, hcq⟩
      exact ⟨f c, List.mem_map.mpr ⟨c, hc, rfl⟩, by rw [hk]; exact hck, by rw [hq]; exact hcq⟩
    · rintro ⟨q, hq', hqk, hqq⟩
      simp only [List.mem_map] at hq'
      obtain ⟨c, hc, rfl⟩ := hq'
      exact ⟨c, hc, by rw [← hk]; exact hqk, by rw [← hq]; exact hqq⟩

theorem expire_pinv {s : State} (h : PInv s) : PInv (expire s).1 := by
  unfold expire
  exact pcore_map (fun c => (expireCtx s.now c).1)
    (by intro c; unfold expireCtx; simp only; split <;> rfl)
    (by intro c; unfold expireCtx; simp only; split <;> rfl) h

theorem closeAll_pinv {s : State} (h : PInv s) : PInv (closeAll s).1 := by
  unfold closeAll
  simp only
  have hf := foldl_closePipe_fields s.pipes
    ({ s with ctxs := s.ctxs.map fun c => (abortCtx c Err.eclosed).1, readable := false }, [])
  have hr : ∀ (ps : List Pipe) (acc : State × List Out),
      (ps.foldl (fun (acc : State × List Out) pp =>
        ((closePipe acc.1 pp.id).1, acc.2 ++ (closePipe acc.1 pp.id).2)) acc).1.readable = acc.1.readable := by
    intro ps
    induction ps with
    | nil => intro acc; rfl
    | cons pp rest ih => intro acc; simp only [List.foldl_cons]; rw [ih]; exact closePipe_readable _ _
  unfold PInv
  simp only
  rw [hf.1, hr]
  refine ⟨?_, ?_⟩
  · intro q1 h1 q2 h2 k1 k2
    simp only [List.mem_map] at h1 h2
    obtain ⟨x1, hx1, rfl⟩ := h1
    obtain ⟨x2, hx2, rfl⟩ := h2
    have := h.uniq x1 hx1 x2 hx2 k1 k2
    rw [this]
  · simp only [Bool.false_eq_true, false_iff]
    rintro ⟨q, hq, _, hqq⟩
    simp only [List.mem_map] at hq
    obtain ⟨c, _, rfl⟩ := hq
    exact hqq rfl

theorem pinv_init : PInv ({} : State) := ⟨by intro c h; simp at h, by simp [SockQ]⟩

theorem step_pinv (s : State) (ev : Ev) (h : PInv s) (hi : Inv s) : PInv (step s ev).1 := by
  unfold step
  split
  · cases ev <;> try exact h
    case openSock p r =>
      rename_i hno
      refine ⟨?_, ?_⟩
      · intro c1 h1 c2 h2 _ _
        simp only [List.mem_singleton] at h1 h2
        rw [h1, h2]
      · show s.readable = true ↔ _
        constructor
        · intro hr
          exfalso
          obtain ⟨c, hc, _⟩ := h.rd.mp hr
          have hempty : s.ctxs = [] := hi.notOpen (by simpa using hno)
          rw [hempty] at hc; simp at hc
        · rintro ⟨c, hc, _, hq⟩
          simp only [List.mem_singleton] at hc
          subst hc; exact absurd rfl hq
  · split
    · cases ev <;> exact h
    · cases ev with
      | openSock _ _ => exact h
      | pipeAdd peer => simp only; split <;> exact h
      | pipeDrop p =>
        simp only
        split
        · split
          · exact h
          · exact closePipe_pinv p h
        · exact h
      | sendDone p rv =>
        simp only
        split
        · split
          · exact h
          · split
            · exact closePipe_pinv p h
            · split <;> exact h
        · exact h
      | recvDone p r =>
        simp only
        split
        · split
          · exact h
          · split
            · exact closePipe_pinv p h
            · exact pipeRecv_pinv p _ h
        · exact h
      | send k a m mode =>
        simp only
        split
        · exact h
        · split
          · exact h
          · rename_i c hg
            exact ctxSend_pinv a m h (getCtx_mem hg)
      | recv k a mode =>
        simp only
        split
        · exact h
        · split
          · exact h
          · rename_i c hg
            exact ctxRecv_pinv a mode h (getCtx_mem hg)
      | cancel a => exact cancelAio_pinv a _ h
      | abort a rv => exact cancelAio_pinv a rv h
      | advance ms => exact expire_pinv (s := { s with now := s.now + ms }) h
      | ctxOpen k =>
        simp only
        split
        · exact h
        · split
          · exact h
          · split
            · refine ⟨?_, ?_⟩
              · intro c1 h1 c2 h2 k1 k2
                simp only [List.mem_append, List.mem_singleton] at h1 h2
                rcases h1 with h1 | rfl <;> rcases h2 with h2 | rfl
                · exact h.uniq c1 h1 c2 h2 k1 k2
                · simp at k2
                · simp at k1
                · rfl
              · show s.readable = true ↔ _
                rw [h.rd]
                constructor
                · rintro ⟨c, hc, hk, hq⟩
                  exact ⟨c, List.mem_append_left _ hc, hk, hq⟩
                · rintro ⟨c, hc, hk, hq⟩
                  simp only [List.mem_append, List.mem_singleton] at hc
                  rcases hc with hc | rfl
                  · exact ⟨c, hc, hk, hq⟩
                  · simp at hk
            · exact h
      | ctxClose k =>
        simp only
        split
        · exact h
        · refine ⟨?_, ?_⟩
          · intro c1 h1 c2 h2 k1 k2
            exact h.uniq c1 (List.mem_filter.mp h1).1 c2 (List.mem_filter.mp h2).1 k1 k2
          · show s.readable = true ↔ _
            rw [h.rd]
            constructor
            · rintro ⟨c, hc, hk, hq⟩
              exact ⟨c, List.mem_filter.mpr ⟨hc, by simp [hk]⟩, hk, hq⟩
            · rintro ⟨c, hc, hk, hq⟩
              exact ⟨c, (List.mem_filter.mp hc).1, hk, hq⟩
      | setopt k name ty v =>
        simp only
        split
        · split
          · exact h
          · rename_i c hg
            split
            · exact h
            · exact pinv_setCtx_sameQ h (getCtx_mem hg) rfl rfl
        · split
          · split <;> exact h
          · exact h
      | getopt k name ty =>
        simp only
        split
        · split <;> exact h
        · split <;> exact h
      | poll => exact h
      | sub _ _ => exact h
      | unsub _ _ => exact h
      | close => exact closeAll_pinv h

theorem run_pinv (s : State) (evs : List Ev) (h : PInv s) (hi : Inv s) : PInv (run s evs).1 := by
  induction evs generalizing s with
  | nil => exact h
  | cons e es ih => simp only [run]; exact ih _ (step_pinv s e h hi) (step_inv s e hi)

end Nng.Survey
