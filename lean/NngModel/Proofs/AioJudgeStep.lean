/- the monitor's step (Spec/Aio.lean) in normal form, one lemma per observation: under the stated
   conditions the step does not fail and the new monitor state is an explicit record update -/
import NngModel.Proofs.AioJudgeDefs
set_option linter.unusedSimpArgs false
namespace Nng.Aio
open Nng.AioSpec

theorem updNewest_head (ops : List Op) (f : Op → Op) : (updNewest ops f).head? = ops.head?.map f := by
  cases ops <;> rfl

theorem updNewest_tail (ops : List Op) (f : Op → Op) : (updNewest ops f).tail = ops.tail := by
  cases ops <;> rfl

@[simp] theorem updNewest_length (ops : List Op) (f : Op → Op) : (updNewest ops f).length = ops.length := by
  cases ops <;> rfl

theorem updNewest_updNewest (ops : List Op) (f g : Op → Op) :
    updNewest (updNewest ops f) g = updNewest ops (fun o => g (f o)) := by
  cases ops <;> rfl

theorem markReported_newest (ops : List Op) (n : Nat) (h : ops.length = n + 1) :
    markReported ops n = updNewest ops (fun o => { o with reported := true }) := by
  cases ops with
  | nil => simp at h
  | cons o r =>
    simp only [List.length_cons, Nat.add_right_cancel_iff] at h
    simp only [markReported, updNewest, List.mapIdx_cons, List.length_cons]
    congr 1
    · simp [h]
    · apply List.ext_getElem
      · simp
      · intro i h1 h2
        simp only [List.getElem_mapIdx]
        have : i < r.length := by simpa using h1
        rw [if_neg (by omega)]

theorem pendingOp_newest (j : J) (h : j.reports + 1 = j.ops.length) : j.pendingOp = j.ops.head? := by
  unfold J.pendingOp
  rw [List.getElem?_reverse (by omega)]
  have : j.ops.length - 1 - j.reports = 0 := by omega
  rw [this]
  cases j.ops <;> rfl

theorem pendingOp_none (j : J) (h : j.reports = j.ops.length) : j.pendingOp = none := by
  unfold J.pendingOp
  simp [h]

@[simp] theorem kind_beq_gen (k : Kind) : (k == Kind.gen) = true ↔ k = .gen := by
  cases k with
  | gen => exact ⟨fun _ => rfl, fun _ => rfl⟩
  | slp ms => exact ⟨fun h => Bool.noConfusion h, fun h => Kind.noConfusion h⟩
  | direct rv => exact ⟨fun h => Bool.noConfusion h, fun h => Kind.noConfusion h⟩
  | ext => exact ⟨fun h => Bool.noConfusion h, fun h => Kind.noConfusion h⟩

@[simp] theorem gen_beq_gen : (Kind.gen == Kind.gen) = true := rfl
@[simp] theorem slp_beq_gen (ms : Nat) : (Kind.slp ms == Kind.gen) = false := rfl
@[simp] theorem direct_beq_gen (rv : Nat) : (Kind.direct rv == Kind.gen) = false := rfl
@[simp] theorem ext_beq_gen : (Kind.ext == Kind.gen) = false := rfl

section
variable {j : J} (h1 : j.err = none) (h2 : j.freeReturned = false)
include h1 h2

theorem jstep_tick (d : Nat) : AioSpec.step j (.tick d) = { j with now := j.now + d } := by
  simp [AioSpec.step.eq_def, h1, h2]

theorem jstep_setTimeout (t : Tmo) : AioSpec.step j (.setTimeout t) = { j with tmo := t, absExp := none } := by
  simp [AioSpec.step.eq_def, h1, h2]

theorem jstep_setExpire (e : Nat) : AioSpec.step j (.setExpire e) = { j with absExp := some e } := by
  simp [AioSpec.step.eq_def, h1, h2]

theorem jstep_skipArm : AioSpec.step j .skipArm = { j with skipArmed := true } := by
  simp [AioSpec.step.eq_def, h1, h2]

/-- the record of a new operation -/
def newOp (j : J) (k : Kind) : Op :=
  { kind := k, tsub := j.now, tmo := j.tmo, absExp := j.absExp, aborts := j.openCodes,
    userTimeout := j.openCodes.contains ETIMEDOUT }

theorem jstep_subCall (k : Kind) : AioSpec.step j (.subCall k) =
    { j with ops := newOp j k :: j.ops, absExp := if isDirect k = true then none else j.absExp } := by
  cases k <;> simp [AioSpec.step.eq_def, h1, h2, newOp, isDirect]

/-- what a return of the start call records in the newest operation -/
def fRet (v : Nat) (tr : Nat) (sc sr : Bool) (o : Op) : Op :=
  { o with ret := some v, tret := tr, retBeforeStop := !sc,
           decided := if v = 0 ∧ sr = true ∧ o.kind = Kind.gen ∧ o.decided = none then some ESTOPPED else o.decided }

theorem jstep_subRet_other (v : Nat) (o : Op) (ho : j.ops.head? = some o) (hk : isDirect o.kind = false) :
    AioSpec.step j (.subRet v) = { j with ops := updNewest j.ops (fRet v j.now j.stopCalled j.stopReturned) } := by
  cases hj : j.ops with
  | nil => simp [hj] at ho
  | cons o' r =>
    simp only [hj, List.head?_cons, Option.some.injEq] at ho
    subst ho
    cases hk' : o'.kind <;> simp_all [AioSpec.step.eq_def, updNewest, fRet, isDirect, and_assoc]

theorem jstep_subRet_direct (v : Nat) (o : Op) (ho : j.ops.head? = some o) (hk : isDirect o.kind = true) (hv : v ≠ 1) :
    AioSpec.step j (.subRet v) =
      { j with ops := updNewest j.ops (fRet v j.now j.stopCalled j.stopReturned), skipArmed := false } := by
  cases hj : j.ops with
  | nil => simp [hj] at ho
  | cons o' r =>
    simp only [hj, List.head?_cons, Option.some.injEq] at ho
    subst ho
    cases hk' : o'.kind <;> simp_all [AioSpec.step.eq_def, updNewest, fRet, isDirect, and_assoc]

theorem jstep_subRet_skip (o : Op) (ho : j.ops.head? = some o) (hk : isDirect o.kind = true)
    (hr : j.reports + 1 = j.ops.length) :
    AioSpec.step j (.subRet 1) =
      { j with ops := updNewest j.ops (fun o => { fRet 1 j.now j.stopCalled j.stopReturned o with reported := true }),
               reports := j.reports + 1, skipArmed := false, lastCb := none } := by
  cases hj : j.ops with
  | nil => simp [hj] at ho
  | cons o' r =>
    simp only [hj, List.head?_cons, Option.some.injEq] at ho
    subst ho
    have hm := markReported_newest (updNewest j.ops (fRet 1 j.now j.stopCalled j.stopReturned)) j.reports (by simp [hr])
    rw [hj] at hm hr
    cases hk' : o'.kind <;> simp_all [AioSpec.step.eq_def, updNewest, fRet, isDirect, and_assoc]

theorem jstep_lost (rv : Nat) : AioSpec.step j (.provDone rv false) = j ∧ AioSpec.step j (.cancelRan rv false) = j := by
  simp [AioSpec.step.eq_def, h1, h2]

theorem jstep_won (rv : Nat) (o : Op) (ho : j.ops.head? = some o) (hd : o.decided = none) (hr : o.reported = false) :
    AioSpec.step j (.provDone rv true) =
      { j with ops := updNewest j.ops (fun o => { o with decided := some rv }), absExp := none } ∧
    AioSpec.step j (.cancelRan rv true) =
      { j with ops := updNewest j.ops (fun o => { o with decided := some rv }), absExp := none } := by
  cases hj : j.ops with
  | nil => simp [hj] at ho
  | cons o' r =>
    simp only [hj, List.head?_cons, Option.some.injEq] at ho
    subst ho
    simp [AioSpec.step.eq_def, h1, h2, hj, hd, hr, updNewest]

theorem jstep_abortCall (rv : Nat) : AioSpec.step j (.abortCall rv) =
    { j with openAborts := j.openAborts + 1, openCodes := rv :: j.openCodes,
             ops := updNewest j.ops fun o =>
               { o with userTimeout := o.userTimeout || rv = ETIMEDOUT, aborts := rv :: o.aborts } } := by
  simp [AioSpec.step.eq_def, h1, h2]

theorem jstep_abortRet : AioSpec.step j .abortRet =
    (if j.openAborts ≤ 1 then { j with openAborts := 0, openCodes := [] } else { j with openAborts := j.openAborts - 1 }) := by
  simp [AioSpec.step.eq_def, h1, h2]

theorem jstep_stopCalled : AioSpec.step j .closeCall = { j with stopCalled := true } ∧
    AioSpec.step j .stopCall = { j with stopCalled := true } ∧ AioSpec.step j .freeCall = { j with stopCalled := true } := by
  simp [AioSpec.step.eq_def, h1, h2]

theorem jstep_cbEnd : AioSpec.step j .cbEnd = { j with openCb := j.openCb - 1, oldCb := j.oldCb - 1 } := by
  simp [AioSpec.step.eq_def, h1, h2]

theorem jstep_peek (r : Nat) (hp : j.reports = j.ops.length → ∀ x, j.lastCb = some x → x = r) :
    AioSpec.step j (.peek r) = j := by
  simp only [AioSpec.step.eq_def, h1, h2, Option.isSome_none, Bool.false_eq_true, ↓reduceIte]
  split
  · rename_i hc
    simp only [Bool.and_eq_true, decide_eq_true_eq, bne_iff_ne, ne_eq] at hc
    obtain ⟨⟨ha, hb⟩, hc⟩ := hc
    cases hl : j.lastCb with
    | none => simp [hl] at hb
    | some x => exact absurd (by rw [hl, hp ha x hl]) hc
  · rfl

theorem jstep_stopRet (hc : j.oldCb = 0) (hr : ∀ o ∈ j.ops, o.retBeforeStop = true → o.reported = true) :
    AioSpec.step j .stopRet = { j with stopReturned := true } := by
  have hn : (j.ops.any fun o => o.retBeforeStop && !o.reported) = false := by
    rw [List.any_eq_false]
    intro o ho
    have := hr o ho
    cases h : o.retBeforeStop <;> simp_all
  simp [AioSpec.step.eq_def, h1, h2, hc, hn]

theorem jstep_freeRet (hc : j.openCb = 0) : AioSpec.step j .freeRet = { j with freeReturned := true } := by
  simp [AioSpec.step.eq_def, h1, h2, hc]

theorem jstep_cbBegin (r : Nat) (o : Op) (hp : j.pendingOp = some o)
    (c1 : ∀ x, o.decided = some x → x = r)
    (c2 : r = ETIMEDOUT → o.userTimeout = true ∨ timeoutDue o j.now = true)
    (c4 : ∀ ms, o.kind ≠ .slp ms)
    (c5 : o.decided = none → unprovoked o r j.stopCalled = true)
    (c6 : j.stopReturned = true → r ≠ ESTOPPED → isDirect o.kind = true ∨ o.kind = .ext) :
    AioSpec.step j (.cbBegin r) =
      { j with reports := j.reports + 1, ops := markReported j.ops j.reports, openCb := j.openCb + 1, lastCb := some r,
               oldCb := j.oldCb + (if (!j.stopCalled || o.retBeforeStop) = true then 1 else 0) } := by
  simp only [AioSpec.step.eq_def, h1, h2, Option.isSome_none, Bool.false_eq_true, ↓reduceIte, hp]
  rw [if_neg, if_neg, if_neg, if_neg, if_neg, if_neg]
  · -- c6
    intro hc
    simp only [Bool.and_eq_true, decide_eq_true_eq] at hc
    obtain ⟨⟨ha, hb⟩, hk⟩ := hc
    rcases c6 ha hb with h | h
    · cases hk' : o.kind <;> simp_all [isDirect]
    · simp [h] at hk
  · -- c5
    intro hc
    simp only [Bool.and_eq_true, Option.isNone_iff_eq_none, Bool.not_eq_true'] at hc
    rw [c5 hc.1] at hc
    cases hc.2
  · -- c4
    intro hc
    simp only [Bool.and_eq_true, decide_eq_true_eq] at hc
    obtain ⟨_, hk⟩ := hc
    cases hk' : o.kind with
    | slp ms => exact c4 ms hk'
    | _ => simp [hk'] at hk
  · -- c3
    intro hc
    simp only [Bool.and_eq_true, decide_eq_true_eq, Bool.not_eq_true', Bool.or_eq_true, beq_iff_eq] at hc
    obtain ⟨⟨⟨ha, hb⟩, _⟩, hd⟩ := hc
    rcases c2 ha with h | h
    · rw [h] at hb; cases hb
    · rw [h] at hd; cases hd
  · -- c2
    intro hc
    simp only [Bool.and_eq_true, decide_eq_true_eq, Bool.not_eq_true'] at hc
    obtain ⟨⟨⟨⟨ha, hb⟩, _⟩, _⟩, hd⟩ := hc
    rcases c2 ha with h | h
    · rw [h] at hb; cases hb
    · rw [h] at hd; cases hd
  · -- c1
    intro hc
    simp only [Bool.and_eq_true, bne_iff_ne, ne_eq] at hc
    obtain ⟨ha, hb⟩ := hc
    cases hd : o.decided with
    | none => simp [hd] at ha
    | some x => rw [hd, c1 x hd] at hb; exact hb rfl

end

end Nng.Aio
