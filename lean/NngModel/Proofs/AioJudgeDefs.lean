/-
  C02 — "the monitor accepts every execution of the aio model": definitions.

  * `obsX` / `traceX`: the observable trace of an execution, EXTENDED by the observations the
    monitor's clauses inspect but `Nng.Aio.obsOf` does not produce: `cbEnd` (when the task thread
    is done with a callback, label `cbDone`) and `abortRet` (when an `nng_aio_abort` call has done
    its work: its critical section found no cancel function, or the cancel function it took has
    been invoked).  Without `cbEnd` the monitor rejects every execution in which `nng_aio_stop`
    returns after a callback ever ran (Props/C02.lean, `judge_sound_statement_false`).
  * `traceP pol`: the same with the return of an `nng_aio_abort` call observed LATER than its work
    is done (or never), under a return policy `pol` (after each step of the model, how many of the
    finished calls are seen to return); `traceX` is the earliest placement, the strictest one for
    the monitor.
  * a ghost `G` next to the model state: `abE` (how many of the
    `(p, NNG_ESTOPPED)` entries of `calls` were put there by `nng_aio_abort(aio, NNG_ESTOPPED)`
    rather than by `nni_aio_close`; the model does not distinguish them; the abort's entries are
    taken first) and `ret` (finished `nng_aio_abort` calls whose return has not been observed;
    always 0 for `traceX`).
  * `okL` / `Contract`: the hypotheses on the environment (user, provider, scheduling window) under
    which the monitor accepts; each one is necessary (Props/C02.lean, `judge_needs_*`).
-/
import NngModel.Model.Aio
namespace Nng.Aio
open Nng.AioSpec

structure G where
  /-- entries `(p, NNG_ESTOPPED)` of `calls` that stem from `nng_aio_abort(aio, NNG_ESTOPPED)` -/
  abE : Nat := 0
  /-- `nng_aio_abort` calls that have done their work and whose return has not been observed yet
      (only used by the traces with delayed returns, `traceP`; `traceX` keeps it 0) -/
  ret : Nat := 0
deriving Repr, DecidableEq, Inhabited

def gStep (s : State) (g : G) (l : Label) : G :=
  match l with
  | .abortSec rv => if s.cancelFn.isSome && rv == ESTOPPED then { g with abE := g.abE + 1 } else g
  | .callCancel _ rv => if rv == ESTOPPED && g.abE != 0 then { g with abE := g.abE - 1 } else g
  | _ => g

/-- the additional observations of a step -/
def obsExtra (s : State) (g : G) (l : Label) : List Obs :=
  match l with
  | .cbDone => [.cbEnd]
  | .abortSec _ => if s.cancelFn.isNone then [.abortRet] else []
  | .callCancel _ rv => if rv != ESTOPPED || g.abE != 0 then [.abortRet] else []
  | _ => []

/-- how many `nng_aio_abort` calls have done their work with this step -/
def retK (s : State) (g : G) : Label → Nat
  | .abortSec _ => if s.cancelFn.isNone then 1 else 0
  | .callCancel _ rv => if rv != ESTOPPED || g.abE != 0 then 1 else 0
  | _ => 0

/-- the observations of a step without the returns of `nng_aio_abort` -/
def obsCore (s : State) (l : Label) : List Obs :=
  (match obsOf s l with | some o => [o] | none => []) ++ (match l with | .cbDone => [.cbEnd] | _ => [])

/-- all observations of a step, in order -/
def obsX (s : State) (g : G) (l : Label) : List Obs :=
  (match obsOf s l with | some o => [o] | none => []) ++ obsExtra s g l

/-- the extended observable trace of an execution -/
def traceX (cfg : Cfg) (s : State) (g : G) : List Label → List Obs
  | [] => []
  | l :: ls => match step cfg s l with
    | some s' => obsX s g l ++ traceX cfg s' (gStep s g l) ls
    | none => []

theorem obsX_eq (s : State) (g : G) (l : Label) :
    obsX s g l = obsCore s l ++ List.replicate (retK s g l) .abortRet := by
  cases l with
  | abortSec rv =>
    simp only [obsX, obsExtra, obsCore, retK, List.append_nil]
    cases s.cancelFn <;> rfl
  | callCancel p rv =>
    simp only [obsX, obsExtra, obsCore, retK, List.append_nil]
    cases (rv != ESTOPPED || g.abE != 0) <;> rfl
  | _ => simp [obsX, obsExtra, obsCore, retK]

/-- what the environment may do in state `s`:
    * the provider does not itself complete an operation with NNG_ETIMEDOUT (the monitor attributes
      every NNG_ETIMEDOUT that the user did not pass to `nng_aio_abort` to the aio's timer);
    * an operation is started only when the previous `nng_aio_start`-style call has returned (the
      monitor attributes a return to the newest operation);
    * `nng_aio_result` is not called during or after `nng_aio_free`;
    * when `nng_aio_free` sees the task idle every start call has returned. -/
def okL (s : State) (_g : G) : Label → Bool
  | .complete rv => rv != ETIMEDOUT
  | .subCall k _ =>
    s.subRets.isEmpty && (match k with | .direct rv => rv != ETIMEDOUT | _ => true)
  | .peek => !s.freed && !(s.stopPc != 0 && s.stopFree)
  | .stopWait => !s.stopFree || s.subRets.isEmpty
  | _ => true

/-- the environment keeps to `okL` along the execution (executable form) -/
def contractB (cfg : Cfg) (s : State) (g : G) : List Label → Bool
  | [] => true
  | l :: ls => okL s g l &&
    match step cfg s l with
    | some s' => contractB cfg s' (gStep s g l) ls
    | none => true

/-- the environment keeps to `okL` along the execution -/
def Contract (cfg : Cfg) (s : State) (g : G) (ls : List Label) : Prop := contractB cfg s g ls = true

instance (cfg : Cfg) (s : State) (g : G) (ls : List Label) : Decidable (Contract cfg s g ls) :=
  inferInstanceAs (Decidable (_ = true))

theorem contract_cons {cfg : Cfg} {s s' : State} {g : G} {l : Label} {ls : List Label}
    (h : Contract cfg s g (l :: ls)) (hs : step cfg s l = some s') :
    okL s g l = true ∧ Contract cfg s' (gStep s g l) ls := by
  simp only [Contract, contractB, hs, Bool.and_eq_true] at h
  exact h

-- traces in which the return of an `nng_aio_abort` call is observed later than its work is done --

/-- a return policy: after each step, how many of the `nng_aio_abort` calls that have done their
    work are seen to return (at most the number there are) -/
abbrev RetPolicy := State → G → Label → Nat

def retNow (pol : RetPolicy) (s : State) (g : G) (l : Label) : Nat := min (pol s g l) (g.ret + retK s g l)

def obsP (pol : RetPolicy) (s : State) (g : G) (l : Label) : List Obs :=
  obsCore s l ++ List.replicate (retNow pol s g l) .abortRet

def gStepP (pol : RetPolicy) (s : State) (g : G) (l : Label) : G :=
  { gStep s g l with ret := g.ret + retK s g l - retNow pol s g l }

/-- the observable trace of an execution under a return policy -/
def traceP (cfg : Cfg) (pol : RetPolicy) (s : State) (g : G) : List Label → List Obs
  | [] => []
  | l :: ls => match step cfg s l with
    | some s' => obsP pol s g l ++ traceP cfg pol s' (gStepP pol s g l) ls
    | none => []

/-- the contract with delayed returns: in addition, `nng_aio_free` is called only when every
    `nng_aio_abort` call has returned -/
def okLP (s : State) (g : G) (l : Label) : Bool :=
  okL s g l && (match l with | .stopCall true => g.ret == 0 | _ => true)

def contractPB (cfg : Cfg) (pol : RetPolicy) (s : State) (g : G) : List Label → Bool
  | [] => true
  | l :: ls => okLP s g l &&
    match step cfg s l with
    | some s' => contractPB cfg pol s' (gStepP pol s g l) ls
    | none => true

def ContractP (cfg : Cfg) (pol : RetPolicy) (s : State) (g : G) (ls : List Label) : Prop :=
  contractPB cfg pol s g ls = true

instance (cfg : Cfg) (pol : RetPolicy) (s : State) (g : G) (ls : List Label) : Decidable (ContractP cfg pol s g ls) :=
  inferInstanceAs (Decidable (_ = true))

theorem contractP_cons {cfg : Cfg} {pol : RetPolicy} {s s' : State} {g : G} {l : Label} {ls : List Label}
    (h : ContractP cfg pol s g (l :: ls)) (hs : step cfg s l = some s') :
    okLP s g l = true ∧ ContractP cfg pol s' (gStepP pol s g l) ls := by
  simp only [ContractP, contractPB, hs, Bool.and_eq_true] at h
  exact h

/-- the judge run from a given monitor state -/
def judgeFrom (j : J) (tr : List Obs) : J := tr.foldl AioSpec.step j

theorem judge_eq (tr : List Obs) : judge tr = (judgeFrom {} tr).err := rfl

theorem judgeFrom_append (j : J) (a b : List Obs) : judgeFrom j (a ++ b) = judgeFrom (judgeFrom j a) b := by
  simp [judgeFrom, List.foldl_append]

/-- a skip flag was set for the newest operation and its start call has not returned yet: the
    monitor has not counted that report -/
def pend (s : State) : Nat := if (false, 1) ∈ s.subRets then 1 else 0

def isDirect : Kind → Bool
  | .direct _ => true
  | _ => false

end Nng.Aio
