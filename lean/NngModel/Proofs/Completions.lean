import NngModel.Model.Completions
/- lemmas for Props/C02Completions.lean -/
namespace Nng.C02Completions
open Nng.Completions

/-- `r` is the list threaded from `h` through `m` -/
def Chain (m : Mem) : Option Nat → List Nat → Prop
  | h, [] => h = none
  | h, a :: r => h = some a ∧ Chain m (m a) r

theorem chain_congr (m m' : Mem) (h : Option Nat) (r : List Nat) (hm : ∀ x ∈ r, m' x = m x) (hc : Chain m h r) : Chain m' h r := by
  induction r generalizing h with
  | nil => exact hc
  | cons a r ih =>
    obtain ⟨h1, h2⟩ := hc
    refine ⟨h1, ?_⟩
    rw [hm a (by simp)]
    exact ih _ (fun x hx => hm x (by simp [hx])) h2

theorem addAll_chain (l : List Nat) (hn : l.Nodup) : Chain (addAll l).1 (addAll l).2 l.reverse := by
  unfold addAll
  suffices h : ∀ (l : List Nat) (m : Mem) (hd : Option Nat) (r : List Nat), Chain m hd r → (∀ x ∈ l, x ∉ r) → l.Nodup →
      Chain (l.foldl (fun st a => add st.1 st.2 a) (m, hd)).1 (l.foldl (fun st a => add st.1 st.2 a) (m, hd)).2 (l.reverse ++ r) by
    have := h l (fun _ => none) none [] rfl (by simp) hn
    simpa using this
  intro l
  induction l with
  | nil => intro m hd r hc _ _; simpa using hc
  | cons a t ih =>
    intro m hd r hc hnot hnd
    simp only [List.foldl_cons, List.reverse_cons, List.append_assoc, List.singleton_append]
    have hnd' := List.nodup_cons.mp hnd
    apply ih
    · refine ⟨rfl, ?_⟩
      simp only [if_true]
      exact chain_congr m _ hd r (fun x hx => by
        have : x ≠ a := fun e => hnot a (by simp) (e ▸ hx)
        simp [this]) hc
    · intro x hx
      simp only [List.mem_cons, not_or]
      exact ⟨fun e => hnd'.1 (e ▸ hx), hnot x (by simp [hx])⟩
    · exact hnd'.2

theorem nodup_rev (l : List Nat) (h : l.Nodup) : l.reverse.Nodup := by
  simp [List.Nodup, List.pairwise_reverse] at *
  exact h.imp (fun hab => fun e => hab e.symm)

theorem run_chain (cb : Nat → Mem → Mem) (hcb : OwnNodeOnly cb) :
    ∀ (r : List Nat) (fuel : Nat) (m : Mem) (h : Option Nat), r.length ≤ fuel → r.Nodup → Chain m h r → run cb fuel m h = r := by
  intro r
  induction r with
  | nil =>
    intro fuel m h _ _ hc
    cases hc
    cases fuel <;> rfl
  | cons a r ih =>
    intro fuel m h hf hnd hc
    obtain ⟨h1, h2⟩ := hc
    cases fuel with
    | zero => simp at hf
    | succ f =>
      subst h1
      simp only [run]
      congr 1
      have hnd' := List.nodup_cons.mp hnd
      apply ih f _ _ (by simpa using hf) hnd'.2
      apply chain_congr m _ (m a) r _ h2
      intro x hx
      have hxa : x ≠ a := fun e => hnd'.1 (e ▸ hx)
      rw [hcb a _ x hxa]
      simp [hxa]

end Nng.C02Completions
