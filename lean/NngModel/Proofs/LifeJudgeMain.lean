/-
  "The lifecycle judge accepts every trace of the lifecycle model" (C14 / C10), part 15:
  one step for every op, then induction over the op sequence.
-/
import NngModel.Proofs.LifeJudgeOps6
namespace Nng.LifeModel
open Nng.Life Nng.Generated
open Nng.LifeSpec (J)

/-- one modelled step of the model, one step of the judge on its events: the relation is kept -/
theorem step_sim (st : State) (j : J) (op : LOp) (orc : List Nat) (hr : Rel st j) (hu : st.unmodelled = false)
    (hu' : (step st op orc).1.unmodelled = false) :
    Rel (step st op orc).1 (Nng.LifeSpec.step j op (step st op orc).2) := by
  cases op with
  | openSock s p => exact sim_openSock st j s p orc hr hu hu'
  | notify s m c => exact sim_notify st j s m c orc hr hu
  | setoptSock s n v => exact sim_setoptSock st j s n v orc hr hu hu'
  | setoptEp e n v => exact sim_setoptEp st j e n v orc hr hu hu'
  | dial s nb => exact sim_dial st j s nb orc hr hu
  | listen s => exact sim_listen st j s orc hr hu
  | connDone e r => exact sim_connDone st j e r orc hr hu
  | pipeClose p => exact sim_pipeClose st j p orc hr hu
  | pipeDrop p => exact sim_pipeDrop st j p orc hr hu
  | dialerClose e => exact sim_dialerClose st j e orc hr hu
  | listenerClose e => exact sim_listenerClose st j e orc hr hu
  | ctxOpen s c => exact sim_ctxOpen st j s c orc hr hu hu'
  | ctxClose c => exact sim_ctxClose st j c orc hr hu
  | send t a => exact sim_send st j t a orc hr hu hu'
  | recv t a => exact sim_recv st j t a orc hr hu hu'
  | advance ms => exact sim_advance st j ms orc hr hu
  | close s => exact sim_close st j s orc hr hu
  | probe => exact sim_probe st j orc hr hu
  | close2 s =>
    have := unmodelled_apply hu hu'
    cases this
  | race o l a b =>
    have := unmodelled_apply hu hu'
    cases this

theorem step_unmodelled (st : State) (op : LOp) (orc : List Nat) (h : st.unmodelled = true) :
    (step st op orc).1.unmodelled = true := by
  unfold step; simp only [h, if_true]

theorem run_unmodelled (tr : List (LOp × List Nat)) (st : State) (h : st.unmodelled = true) : (run st tr).unmodelled = true := by
  induction tr generalizing st with
  | nil => exact h
  | cons x rest ih => exact ih _ (step_unmodelled st x.1 x.2 h)

theorem init_Rel : Rel ({} : State) ({} : J) := by
  refine ⟨init_Inv, init_inv, init_P, List.nodup_nil, ⟨init_Inv.g.s.w, init_inv, ?_, rfl, rfl, rfl, ?_, ⟨?_, ?_⟩, rfl⟩, ?_, rfl, rfl⟩
  · intro p hp; cases hp
  · intro s; exact ⟨fun _ => rfl, fun x hx => by cases hx⟩
  · intro e he; cases he
  · intro i x hx; cases hx
  · intro s x hx; cases hx

/-- the judge, started in a related state, stays related along every modelled run -/
theorem judge_from (tr : List (LOp × List Nat)) (st : State) (j : J) (hr : Rel st j)
    (hu : (run st tr).unmodelled = false) :
    Rel (run st tr) ((modelTrace st tr).foldl (fun j x => Nng.LifeSpec.step j x.1 x.2) j) := by
  induction tr generalizing st j with
  | nil => exact hr
  | cons x rest ih =>
    obtain ⟨op, orc⟩ := x
    have hu1 : (step st op orc).1.unmodelled = false := by
      cases h : (step st op orc).1.unmodelled with
      | false => rfl
      | true => have := run_unmodelled rest _ h; rw [show run st ((op, orc) :: rest) = run (step st op orc).1 rest from rfl] at hu; rw [this] at hu; cases hu
    have hu0 : st.unmodelled = false := by
      cases h : st.unmodelled with
      | false => rfl
      | true => rw [step_unmodelled st op orc h] at hu1; cases hu1
    exact ih _ _ (step_sim st j op orc hr hu0 hu1) hu

/-- the lifecycle judge (both error channels) accepts every trace of the model in which every op
    was modelled -/
theorem judge_accepts (tr : List (LOp × List Nat)) (hu : (run {} tr).unmodelled = false) :
    (judgeRun (modelTrace {} tr)).err14 = none ∧ (judgeRun (modelTrace {} tr)).err10 = none := by
  have h := judge_from tr {} {} init_Rel hu
  exact ⟨h.mid.e14, h.mid.e10⟩

end Nng.LifeModel
