/-
  C08 judge simulation, final part: the three phases of a socket's life (not yet opened, open,
  closed), one step of the simulation for every event, and the induction over event lists.
-/
import NngModel.Proofs.PairJudge9
import NngModel.Proofs.PairJudgeSend
import NngModel.Proofs.PairJudgeRecv
import NngModel.Proofs.PairJudgeClose
import NngModel.Proofs.PairOpened
import NngModel.Proofs.PairLive
namespace Nng.Pair0
open Nng Nng.Proto Nng.PairSpec

/-- the judge's initial state for protocol version `v1` -/
def J0 (V : Variant) (v1 : Bool) : PairJ := { v1 := v1, peerProto := V.peer }

/-- before `open`: nothing has happened -/
def PhA (V : Variant) (v1 : Bool) (s : State) (j : PairJ) : Prop :=
  j = J0 V v1 ∧ ∃ n, s = { ({} : State) with now := n }

def Good (V : Variant) (v1 : Bool) (sS sR : List Bytes) (s : State) (j : PairJ) : Prop :=
  PhA V v1 s j ∨ (s.opened = true ∧ R' V v1 sS sR s j) ∨ Rc s j

/-- `nng_aio_abort(aio, 0)` is API misuse (the operation "succeeds" without its effect); an abort
    with NNG_EPROTO is indistinguishable, for the judge, from a refused send -/
def badAbort : Ev → Bool
  | .abort _ rv => rv == 0 || rv == Err.eproto
  | _ => false

theorem good_mono {V : Variant} {v1 : Bool} {sS sR sS' sR' : List Bytes} {s : State} {j : PairJ}
    (h1 : ∀ b ∈ sS, b ∈ sS') (h2 : ∀ b ∈ sR, b ∈ sR') (h : Good V v1 sS sR s j) : Good V v1 sS' sR' s j := by
  rcases h with h | ⟨ho, h⟩ | h
  · exact Or.inl h
  · exact Or.inr (Or.inl ⟨ho, R_mono h1 h2 h.1, h.2⟩)
  · exact Or.inr (Or.inr h)

/-! ### the socket is closed: nothing is checked any more -/

theorem idle_advance {j : PairJ} (ms : Nat) (herr : j.err = none) (hr : j.racing = false) (hc : j.closed = true) :
    pairStepOld j (.advance ms) [] = { j with lastPoll := none } := by
  rw [pairStep_eq herr (by simp [notExecuted])]
  have hpre : pairPre false { j with lastPoll := none } (.advance ms) [] = ({ j with lastPoll := none }, .none) := rfl
  rw [hpre]
  simp only []
  rw [pairMid_neutral (j := { j with lastPoll := none }) hr rfl (by simp),
    pairPost_none (j := { j with lastPoll := none }) rfl (by simp [noBlocked]) hr]
  exact pairQuiescent_closed (j := { j with lastPoll := none }) hc

theorem closed_Rc {V : Variant} {s : State} {j : PairJ} (h : Rc s j) (ev : Ev) :
    Rc (step V s ev).1 (pairStepOld j ev (step V s ev).2) := by
  obtain ⟨ho, hc, he, hjc, hr⟩ := h
  unfold step
  rw [if_neg (by simp [ho]), if_pos hc]
  cases ev
  case advance ms =>
    simp only []
    rw [idle_advance ms he hr hjc]
    exact ⟨ho, hc, he, hjc, hr⟩
  all_goals
    simp only []
    rw [pairStep_refused (by simp [notExecuted])]
    exact ⟨ho, hc, he, hjc, hr⟩

theorem closed_R' {V : Variant} {v1 : Bool} {sS sR : List Bytes} {s : State} {j : PairJ}
    (hR : R' V v1 sS sR s j) (ho : s.opened = true) (hc : s.closed = true) (ev : Ev) :
    R' V v1 sS sR (step V s ev).1 (pairStepOld j ev (step V s ev).2) := by
  unfold step
  rw [if_neg (by simp [ho]), if_pos hc]
  cases ev
  case advance ms =>
    simp only []
    rw [idle_advance (j := j) ms hR.1.err hR.1.racing (hR.1.closed.trans hc)]
    refine ⟨?_, fun r w h => by simp at h⟩
    exact R_view (s := s) rfl hR.1
  all_goals
    simp only []
    rw [pairStep_refused (by simp [notExecuted])]
    exact hR

/-! ### the socket is not open yet -/

theorem phA_step {V : Variant} {v1 : Bool} {sS sR : List Bytes} {s : State} {j : PairJ} (hV : VJ V v1)
    (h : PhA V v1 s j) (ev : Ev) : Good V v1 sS sR (step V s ev).1 (pairStepOld j ev (step V s ev).2) := by
  obtain ⟨rfl, n, rfl⟩ := h
  unfold step
  rw [if_pos (by rfl)]
  cases ev
  case advance ms =>
    simp only []
    left
    refine ⟨?_, n + ms, rfl⟩
    simp [pairStepOld, pairStepWithOld, notExecuted, pairPre, pairMid, pairPost, nbClause, pollClause, recordPoll,
      pairQuiescent, liveCount, J0, isBlocked]
  case openSock pr raw =>
    simp only []
    right; left
    refine ⟨rfl, ?_⟩
    have hj : pairStepOld (J0 V v1) (.openSock pr raw) [.rv 0] = { J0 V v1 with raw := raw } := by
      simp [pairStepOld, pairStepWithOld, notExecuted, pairPre, pairMid, pairPost, nbClause, pollClause, recordPoll,
        pairQuiescent, liveCount, J0, isBlocked, isDone, onOld, oldGone, pairOut]
    rw [hj]
    refine ⟨?_, fun r w h => by simp [J0] at h⟩
    constructor
    all_goals first
      | rfl
      | exact UR.nil
      | (simp [J0, allB, hV.bufS, hV.bufR]; done)
      | skip
    · intro hv; simp [J0]; exact (hV.ttlInit hv).symm
  all_goals
    simp only []
    rw [pairStep_refused (by simp [notExecuted])]
    exact Or.inl ⟨rfl, n, rfl⟩

/-! ### the socket is open -/

theorem live_step {V : Variant} {v1 : Bool} {sS sR : List Bytes} {s : State} {j : PairJ} (hV : VJ V v1)
    (hA : All V s) (hI : IdsInv s) (hR : R' V v1 sS sR s j) (ho : s.opened = true) (hc : s.closed = false)
    (ev : Ev) (hab : badAbort ev = false) (hfS : ∀ b ∈ evSend ev, b ∉ sS) (hfR : ∀ b ∈ evArr ev, b ∉ sR) :
    Good V v1 (sS ++ evSend ev) (sR ++ evArr ev) (step V s ev).1 (pairStepOld j ev (step V s ev).2) := by
  have hop : (step V s ev).1.opened = true := step_opened V s ev ho
  have hA' : All V (stepLive V s ev).1 := by rw [← step_live V ho hc]; exact step_all V hV.bufS s ev hA
  rw [step_live V ho hc] at hop ⊢
  have hmono : ∀ {s' : State} {j' : PairJ}, R' V v1 sS sR s' j' → s'.opened = true →
      Good V v1 (sS ++ evSend ev) (sR ++ evArr ev) s' j' :=
    fun h ho' => Or.inr (Or.inl ⟨ho', R_mono (fun _ h => List.mem_append_left _ h)
      (fun _ h => List.mem_append_left _ h) h.1, h.2⟩)
  have hrefused : ∀ (ev : Ev) (msg : String), Good V v1 (sS ++ evSend ev) (sR ++ evArr ev) s
      (pairStepOld j ev [Out.other msg]) := by
    intro ev msg
    rw [pairStep_refused (by simp [notExecuted])]
    exact Or.inr (Or.inl ⟨ho, R_mono (fun _ h => List.mem_append_left _ h)
      (fun _ h => List.mem_append_left _ h) hR.1, hR.2⟩)
  cases ev
  case openSock pr raw => exact hrefused _ _
  case pipeAdd peer => exact hmono (ev_pipeAdd hV hA hR peer hA') hop
  case pipeDrop p => exact hmono (ev_pipeDrop hA hR p hA') hop
  case sendDone p rv => exact hmono (ev_sendDone hA hR p rv hA') hop
  case recvDone p r =>
    refine Or.inr (Or.inl ⟨hop, ?_⟩)
    have := ev_recvDone hV hA hR p r hfR hA'
    exact ⟨R_mono (fun _ h => List.mem_append_left _ h) (fun _ h => h) this.1, this.2⟩
  case send c a m mode =>
    refine Or.inr (Or.inl ⟨hop, ?_⟩)
    have := ev_send hV hA hR hc c a m mode (hfS m.body (by simp [evSend])) hA'
    exact ⟨R_mono (fun _ h => h) (fun _ h => List.mem_append_left _ h) this.1, this.2⟩
  case recv c a mode => exact hmono (ev_recv hV hA hR hc (ids_getPipe hI hA.pinv) c a mode hA') hop
  case cancel a => exact hmono (ev_cancel hR a hA') hop
  case abort a rv =>
    have h0 : rv ≠ 0 := by intro h; subst h; simp [badAbort] at hab
    have h1 : rv ≠ Err.eproto := by intro h; subst h; simp [badAbort] at hab
    exact hmono (ev_abort hR a rv h0 h1 hA') hop
  case advance ms => exact hmono (ev_advance hR ms hA') hop
  case ctxOpen c => exact hmono (ev_neutral hA hR (fun _ _ => rfl) rfl rfl rfl) ho
  case ctxClose c => exact hmono (ev_neutral hA hR (fun _ _ => rfl) rfl rfl rfl) ho
  case poll => exact hmono (ev_poll hA hR) ho
  case sub c t => exact hrefused _ _
  case unsub c t => exact hrefused _ _
  case close => exact Or.inr (Or.inr (ev_close hR ho))
  case getopt c n t =>
    have key : ∀ r : State × List Out, r = stepLive V s (.getopt c n t) →
        Good V v1 (sS ++ evSend (.getopt c n t)) (sR ++ evArr (.getopt c n t)) r.1 (pairStepOld j (.getopt c n t) r.2) := by
      intro r hr
      unfold stepLive at hr
      split at hr
      all_goals (try (rename_i heq; cases heq))
      all_goals first
        | (subst hr; exact hrefused _ _)
        | (subst hr; exact hmono (ev_neutral hA hR (fun _ _ => rfl) rfl rfl rfl) ho)
        | (split at hr
           all_goals first
             | (subst hr; exact hrefused _ _)
             | (subst hr; exact hmono (ev_neutral hA hR (fun _ _ => rfl) rfl rfl rfl) ho))
    exact key _ rfl
  case setopt c n t v =>
    have key : ∀ r : State × List Out, r = stepLive V s (.setopt c n t v) → All V r.1 →
        Good V v1 (sS ++ evSend (.setopt c n t v)) (sR ++ evArr (.setopt c n t v)) r.1
          (pairStepOld j (.setopt c n t v) r.2) := by
      intro r hr hAr
      unfold stepLive at hr
      split at hr
      all_goals (try (rename_i heq; cases heq))
      all_goals first
        | (subst hr; exact hrefused _ _)
        | (split at hr
           all_goals first
             | (subst hr; exact hrefused _ _)
             | (subst hr
                exact hmono (step_plain hR hA rfl (by intro j0; simp [pairPre, Err.einval]) rfl rfl
                  (by simp [neutral])) ho)
             | (subst hr; exact hmono (ev_setSendBuf hA hR _ hAr) (by simp [setSendBuf, ho]))
             | (subst hr; exact hmono (ev_setRecvBuf hA hR _ hAr) (by simp [setRecvBuf, ho]))
             | (split at hr
                all_goals first
                  | (subst hr
                     exact hmono (step_plain hR hA rfl (by intro j0; simp [pairPre, Err.einval]) rfl rfl
                       (by simp [neutral])) ho)
                  | (subst hr; exact hmono (ev_setTtl hA hR _ hAr) ho)))
    exact key _ rfl hA'

theorem good_step_old {V : Variant} {v1 : Bool} {sS sR : List Bytes} {s : State} {j : PairJ} (hV : VJ V v1)
    (hA : All V s) (hI : IdsInv s) (hG : Good V v1 sS sR s j)
    (ev : Ev) (hab : badAbort ev = false) (hfS : ∀ b ∈ evSend ev, b ∉ sS) (hfR : ∀ b ∈ evArr ev, b ∉ sR) :
    Good V v1 (sS ++ evSend ev) (sR ++ evArr ev) (step V s ev).1 (pairStepOld j ev (step V s ev).2) := by
  rcases hG with h | ⟨ho, h⟩ | h
  · exact phA_step hV h ev
  · cases hc : s.closed with
    | false => exact live_step hV hA hI h ho hc ev hab hfS hfR
    | true =>
      exact good_mono (fun _ h => List.mem_append_left _ h) (fun _ h => List.mem_append_left _ h)
        (Or.inr (Or.inl ⟨step_opened V s ev ho, closed_R' h ho hc ev⟩))
  · exact Or.inr (Or.inr (closed_Rc h ev))

/-! ### receive liveness: the clause `pairLive` -/

theorem pairStep_new (j : PairJ) (ev : Ev) (outs : List Out) :
    pairStep j ev outs =
      if j.err.isSome then j else if notExecuted outs then j else pairLive ev outs (pairStepOld j ev outs) := by
  unfold pairStep pairStepWith pairStepOld pairStepWithOld
  split
  · rfl
  · split
    · rfl
    · simp

theorem UR.len_le {u : List Acc} {w : List WMsg} (h : UR u w) : w.length ≤ u.length := by
  induction h with
  | nil => simp
  | keep x b _ ih => simp; omega
  | skip y _ ih => simp; omega

/-- a message is parked in the pipe only by an arrival that finds the receive buffer full: after an
    executed `recv_done p <msg>` with a pipe still attached and no receive posted, the buffer is full -/
theorem recv_full_live (V : Variant) (s : State) (p : Nat) (b : Bytes) (hA : All V s)
    (hok : Out.rv 0 ∈ (stepLive V s (.recvDone p (.ok b))).2)
    (hcur : (stepLive V s (.recvDone p (.ok b))).1.cur.isSome = true)
    (hna : (stepLive V s (.recvDone p (.ok b))).1.pipes.any (·.armed) = false) :
    (stepLive V s (.recvDone p (.ok b))).1.rmqCap ≤ (stepLive V s (.recvDone p (.ok b))).1.rmq.length := by
  simp only [stepLive] at hok hcur hna ⊢
  cases hg : getPipe s p with
  | none => simp [hg] at hok
  | some pp =>
    simp only [hg] at hok hcur hna ⊢
    by_cases hcb : (pp.closed || !pp.armed) = true
    · simp [hcb] at hok
    · simp only [hcb, Bool.false_eq_true, if_false] at hok hcur hna ⊢
      have hcl' : pp.closed = false := by
        cases h : pp.closed with
        | false => rfl
        | true => simp [h] at hcb
      have har : pp.armed = true := by
        cases h : pp.armed with
        | true => rfl
        | false => simp [h] at hcb
      obtain ⟨hrd, hcp⟩ := armed_facts hA.pinv hg hcl' har
      obtain ⟨s1, hs1⟩ : ∃ s1, s1 = modPipe s p fun q => { q with armed := false } := ⟨_, rfl⟩
      have hg1 : getPipe s1 p = some { pp with armed := false } :=
        hs1 ▸ getPipe_modPipe (fun q => { q with armed := false }) (fun _ => rfl) hg
      have hcur1 : s1.cur = some p := by rw [hs1]; exact hcp
      have hex1 : ∃ q ∈ s1.pipes, q.id = p := ⟨_, (getPipe_some hg1).1, (getPipe_some hg1).2⟩
      rw [← hs1] at hcur hna ⊢
      exact recvCb_parks V b hcur1 hg1 hcl' hcur hna

theorem recv_full (V : Variant) (s : State) (p : Nat) (b : Bytes) (hA : All V s)
    (hok : Out.rv 0 ∈ (step V s (.recvDone p (.ok b))).2)
    (hcur : (step V s (.recvDone p (.ok b))).1.cur.isSome = true)
    (hna : (step V s (.recvDone p (.ok b))).1.pipes.any (·.armed) = false) :
    (step V s (.recvDone p (.ok b))).1.rmqCap ≤ (step V s (.recvDone p (.ok b))).1.rmq.length := by
  by_cases ho : s.opened = true
  · cases hc : s.closed with
    | false =>
      rw [step_live V ho hc] at hok hcur hna ⊢
      exact recv_full_live V s p b hA hok hcur hna
    | true =>
      exfalso; unfold step at hok; simp [ho, hc] at hok
  · exfalso; unfold step at hok; simp [ho] at hok

/-- the clause `pairLive` holds in every judge state related to a served model state -/
theorem pairLive_ok {V : Variant} {v1 : Bool} {sS sR : List Bytes} {s' : State} {jo : PairJ} {ev : Ev} {outs : List Out}
    (hR : R V v1 sS sR s' { jo with lastPoll := none }) (hi : Inv s') (hS : Served s')
    (hfull : ∀ p b, ev = .recvDone p (.ok b) → Out.rv 0 ∈ outs → s'.cur.isSome = true →
      s'.pipes.any (·.armed) = false → s'.rmqCap ≤ s'.rmq.length) :
    pairLive ev outs jo = jo := by
  have hclosed : jo.closed = s'.closed := hR.closed
  have hlive : jo.live = s'.cur := hR.live
  have harmed : jo.armed = s'.pipes.any (·.armed) := hR.armed
  have hheld : UR jo.held ((s'.rmq ++ s'.held.toList).map (·.m)) := hR.held
  have hrcap : jo.rcap = s'.rmqCap := hR.rcap
  unfold pairLive
  by_cases hskip : (jo.closed || jo.live.isNone || jo.armed) = true
  · rw [if_pos hskip]
  · rw [if_neg hskip]
    have hc0 : jo.closed = false := by cases h : jo.closed <;> simp [h] at hskip ⊢
    have ha0 : jo.armed = false := by cases h : jo.armed <;> simp [h] at hskip ⊢
    have hl0 : jo.live.isSome = true := by cases h : jo.live <;> simp [h, hc0] at hskip ⊢
    rw [hclosed] at hc0; rw [harmed] at ha0; rw [hlive] at hl0
    obtain ⟨p, hp⟩ := Option.isSome_iff_exists.1 hl0
    obtain ⟨pp, hm, hid, hor⟩ := hS hc0 p hp
    have hrd : s'.rdReady = true := by
      rcases hor with h | h
      · exact h
      · have := List.any_eq_false.1 ha0 pp hm; simp [h] at this
    have hsome : s'.held.isSome = true := by rw [← hi.heldRd]; exact hrd
    have hlen : s'.rmq.length + 1 ≤ jo.held.length := by
      have := hheld.len_le
      obtain ⟨gm, hgm⟩ := Option.isSome_iff_exists.1 hsome
      simpa [hgm] using this
    have hne : jo.held.isEmpty = false := by
      cases hh : jo.held with
      | nil => rw [hh] at hlen; simp at hlen
      | cons x l => rfl
    rw [hne]
    simp only [Bool.false_eq_true, if_false]
    cases ev <;> try rfl
    case recvDone p' r =>
      cases r with
      | error e => rfl
      | ok b =>
        simp only []
        by_cases hok : Out.rv 0 ∈ outs
        · have := hfull p' b rfl hok hl0 ha0
          rw [if_neg]
          intro hc
          simp only [Bool.and_eq_true, decide_eq_true_eq] at hc
          rw [hrcap] at hc; omega
        · rw [if_neg]
          simp [hok]

theorem good_step {V : Variant} {v1 : Bool} {sS sR : List Bytes} {s : State} {j : PairJ} (hV : VJ V v1)
    (hA : All V s) (hI : IdsInv s) (hS : Served s) (hG : Good V v1 sS sR s j)
    (ev : Ev) (hab : badAbort ev = false) (hfS : ∀ b ∈ evSend ev, b ∉ sS) (hfR : ∀ b ∈ evArr ev, b ∉ sR) :
    Good V v1 (sS ++ evSend ev) (sR ++ evArr ev) (step V s ev).1 (pairStep j ev (step V s ev).2) := by
  have hold := good_step_old hV hA hI hG ev hab hfS hfR
  have herr : j.err = none := by
    rcases hG with h | ⟨_, h⟩ | h
    · rw [h.1]; rfl
    · exact h.1.err
    · exact h.2.2.1
  rw [pairStep_new]
  simp only [herr, Option.isSome_none, Bool.false_eq_true, if_false]
  by_cases hne : notExecuted (step V s ev).2 = true
  · rw [if_pos hne]
    rw [pairStep_refused hne] at hold
    exact hold
  · rw [if_neg hne]
    have hA' := step_all V hV.bufS s ev hA
    have hS' := step_served V s ev hA hS
    suffices h : pairLive ev (step V s ev).2 (pairStepOld j ev (step V s ev).2) = pairStepOld j ev (step V s ev).2 by
      rw [h]; exact hold
    rcases hold with h | ⟨_, h⟩ | h
    · rw [h.1]; simp [pairLive, J0]
    · refine pairLive_ok h.1 hA'.inv hS' ?_
      intro p b hev hok hcur hna
      subst hev
      exact recv_full V s p b hA hok hcur hna
    · unfold pairLive; simp [h.2.2.2.1]

theorem good_err {V : Variant} {v1 : Bool} {sS sR : List Bytes} {s : State} {j : PairJ}
    (h : Good V v1 sS sR s j) : j.err = none := by
  rcases h with h | ⟨_, h⟩ | h
  · rw [h.1]; rfl
  · exact h.1.err
  · exact h.2.2.1

def sendBodies (evs : List Ev) : List Bytes := evs.flatMap evSend
def arrivals (evs : List Ev) : List Bytes := evs.flatMap evArr

/-- the bodies offered for sending are pairwise distinct (the judge identifies messages by body) -/
def DistinctBodies (evs : List Ev) : Prop := (sendBodies evs).Nodup
/-- the byte strings delivered by the transport are pairwise distinct -/
def DistinctArrivals (evs : List Ev) : Prop := (arrivals evs).Nodup
/-- no `abort aio 0`, no `abort aio NNG_EPROTO` -/
def NoBadAbort (evs : List Ev) : Prop := ∀ ev ∈ evs, badAbort ev = false

theorem run_snd_cons (V : Variant) (s : State) (e : Ev) (es : List Ev) :
    (run V s (e :: es)).2 = (step V s e).2 :: (run V (step V s e).1 es).2 := by
  simp [run]

theorem disjoint_of_nodup {α : Type} {a b c : List α} (h : (a ++ (b ++ c)).Nodup) : ∀ x ∈ b, x ∉ a := by
  intro x hx ha
  exact (List.nodup_append.1 h).2.2 x ha x (List.mem_append_left _ hx) rfl

theorem judge_from {V : Variant} {v1 : Bool} (hV : VJ V v1) (evs : List Ev) :
    ∀ (s : State) (j : PairJ) (sS sR : List Bytes), All V s → IdsInv s → Served s → Good V v1 sS sR s j → NoBadAbort evs →
      (sS ++ sendBodies evs).Nodup → (sR ++ arrivals evs).Nodup →
      ((evs.zip (run V s evs).2).foldl (fun j x => pairStep j x.1 x.2) j).err = none := by
  induction evs with
  | nil => intro s j sS sR _ _ _ hG _ _ _; exact good_err hG
  | cons e es ih =>
    intro s j sS sR hA hI hS hG hab hnS hnR
    rw [run_snd_cons]
    simp only [List.zip_cons_cons, List.foldl_cons]
    simp only [sendBodies, arrivals, List.flatMap_cons] at hnS hnR
    refine ih _ _ (sS ++ evSend e) (sR ++ evArr e) (step_all V hV.bufS s e hA) (step_ids V s e hI)
      (step_served V s e hA hS)
      (good_step hV hA hI hS hG e (hab e (by simp)) (disjoint_of_nodup hnS) (disjoint_of_nodup hnR))
      (fun ev h => hab ev (by simp [h])) ?_ ?_
    · simpa [sendBodies, List.append_assoc] using hnS
    · simpa [arrivals, List.append_assoc] using hnR

theorem pair_judge_ok {V : Variant} {v1 : Bool} (hV : VJ V v1) (evs : List Ev) (hb : DistinctBodies evs)
    (ha : DistinctArrivals evs) (hn : NoBadAbort evs) :
    ((evs.zip (run V {} evs).2).foldl (fun j x => pairStep j x.1 x.2) (J0 V v1)).err = none :=
  judge_from hV evs {} (J0 V v1) [] [] (all_init V) ids_init served_init (Or.inl ⟨rfl, 0, rfl⟩) hn
    (by simpa [DistinctBodies] using hb) (by simpa [DistinctArrivals] using ha)

/-! ### the two protocol versions -/

theorem vj_pair0 : VJ Nng.Pair0.variant false where
  bufS := by decide
  bufR := by decide
  hasTtl := rfl
  ttlInit := by intro h; cases h
  prepOk := by
    intro raw m m' h
    simp only [variant] at h
    cases h
    exact ⟨rfl, rfl⟩
  prepErr := by intro raw m e h; simp [variant] at h
  rx := by intro ttl b; rfl

theorem pair1_txWire_raw (m : WMsg) (h1 : m.hdr.length = 4) (h2 : beDecode m.hdr < 0xff) :
    Nng.Pair1.txWire m = ⟨beEncode 4 (beDecode m.hdr + 1), m.body⟩ := by
  unfold Nng.Pair1.txWire
  have e1 : m.hdr.take 4 = m.hdr := List.take_of_length_le (by omega)
  have e2 : m.hdr.drop 4 = [] := List.drop_eq_nil_of_le (by omega)
  rw [e1, e2, Nat.mod_eq_of_lt (by omega)]
  simp

theorem vj_pair1 : VJ Nng.Pair1.variant true where
  bufS := by decide
  bufR := by decide
  hasTtl := rfl
  ttlInit := by intro _; decide
  prepOk := by
    intro raw m m' h
    simp only [Nng.Pair1.variant, Nng.Pair1.txPrep] at h
    cases raw with
    | false =>
      simp only [Bool.false_eq_true, if_false] at h
      cases h
      exact ⟨rfl, Nng.Pair1.txWire_cooked m⟩
    | true =>
      simp only [if_true] at h
      by_cases hok : Nng.Pair1.rawHeaderOk m.hdr = true
      · simp only [hok, if_true] at h
        cases h
        have hok' := hok
        simp only [Nng.Pair1.rawHeaderOk, Nng.Pair1.txHopLimit_eq, Bool.and_eq_true, beq_iff_eq, decide_eq_true_eq] at hok'
        refine ⟨?_, ?_⟩
        · simp [badHdr, rawHeaderOk, hok'.1, hok'.2]
        · show Nng.Pair1.txWire m = _
          rw [pair1_txWire_raw m hok'.1 hok'.2]
          rfl
      · simp [hok] at h
  prepErr := by
    intro raw m e h
    simp only [Nng.Pair1.variant, Nng.Pair1.txPrep] at h
    cases raw with
    | false => simp at h
    | true =>
      simp only [if_true] at h
      by_cases hok : Nng.Pair1.rawHeaderOk m.hdr = true
      · simp [hok] at h
      · simp only [hok, Bool.false_eq_true, if_false] at h
        cases h
        refine ⟨rfl, ?_⟩
        have : Nng.Pair1.rawHeaderOk m.hdr = false := by simpa using hok
        simp only [Nng.Pair1.rawHeaderOk, Nng.Pair1.txHopLimit_eq] at this
        simp [badHdr, rawHeaderOk, this]
  rx := by
    intro ttl b
    show Nng.Pair1.toSpec (Nng.Pair1.rxDecide ttl b) = _
    rw [Nng.Pair1.rxDecide_eq_hopRule]
    rfl

end Nng.Pair0
