/-
  "The lifecycle judge accepts every trace of the lifecycle model" (C14 / C10), part 7:
  the shape of one judge step on one model step, the relation `Rel` that holds between the steps,
  and the lemmas that put a step together (timers, end-of-step clauses, model invariants).
-/
import NngModel.Proofs.LifeJudgeStart
namespace Nng.LifeModel
open Nng.Life Nng.Generated
open Nng.LifeSpec (J JPipe JEp JSock upd put KU onOut opConnEp preOp postOp quiescent flat isRace)

def isPipeOut : LOut → Bool
  | .pipe _ => true
  | _ => false

def advJ (j : J) : LOp → J
  | .advance ms => { j with now := j.now + ms }
  | _ => j

theorem jstep_eq (j : J) (op : LOp) (outs : List LOut) :
    Nng.LifeSpec.step j op outs =
      quiescent ((flat op).foldl (postOp outs)
        ((outs.filter (fun o => !isPipeOut o)).foldl (onOut op)
          ((outs.filter isPipeOut).foldl (onOut op) ((flat op).foldl (preOp (isRace op) outs) (advJ j op))))) := by
  cases op <;> rfl

theorem flat_of_not_race (op : LOp) (h : isRace op = false) : flat op = [op] := by
  cases op <;> first | rfl | (simp [isRace] at h)

/-- no `pipe` line among these events -/
def NP (l : List LOut) : Prop := ∀ o ∈ l, isPipeOut o = false

theorem NP.filter {l : List LOut} (h : NP l) : l.filter isPipeOut = [] ∧ l.filter (fun o => !isPipeOut o) = l := by
  constructor
  · apply List.filter_eq_nil_iff.mpr
    intro o ho; rw [h o ho]; simp
  · apply List.filter_eq_self.mpr
    intro o ho; rw [h o ho]; rfl

theorem NP.append {a b : List LOut} (ha : NP a) (hb : NP b) : NP (a ++ b) := by
  intro o ho
  rcases List.mem_append.mp ho with h | h
  · exact ha o h
  · exact hb o h

theorem NP_nil : NP [] := fun _ h => by cases h

theorem NP_of_evs {l : List LOut} (h : ∀ o ∈ l, isPipeEv o = true) : NP l := by
  intro o ho
  have := h o ho
  cases o <;> first | rfl | (simp [isPipeEv] at this)

/-- the judge's step on a trace line without a `pipe` event -/
theorem jstep_np (j : J) (op : LOp) (a e : List LOut) (hr : isRace op = false) (ha : NP a) (he : NP e) :
    Nng.LifeSpec.step j op (a ++ e) =
      quiescent (postOp (a ++ e) (e.foldl (onOut op) (a.foldl (onOut op) (preOp false (a ++ e) (advJ j op) op))) op) := by
  rw [jstep_eq, flat_of_not_race op hr, hr, ((ha.append he).filter).1, ((ha.append he).filter).2]
  simp only [List.foldl_cons, List.foldl_nil, List.foldl_append]

/-- the judge's step on a trace line that starts with the `pipe` event -/
theorem jstep_pipe (j : J) (op : LOp) (i : Nat) (a e : List LOut) (hr : isRace op = false) (ha : NP a) (he : NP e) :
    Nng.LifeSpec.step j op (.pipe i :: a ++ e) =
      quiescent (postOp (.pipe i :: a ++ e) (e.foldl (onOut op) (a.foldl (onOut op)
        (onOut op (preOp false (.pipe i :: a ++ e) (advJ j op) op) (.pipe i)))) op) := by
  rw [jstep_eq, flat_of_not_race op hr, hr]
  have h1 : (LOut.pipe i :: a ++ e).filter isPipeOut = [.pipe i] := by
    simp only [List.cons_append, List.filter_cons, isPipeOut, if_true]
    rw [((ha.append he).filter).1]
  have h2 : (LOut.pipe i :: a ++ e).filter (fun o => !isPipeOut o) = a ++ e := by
    simp only [List.cons_append, List.filter_cons, isPipeOut, Bool.not_true, Bool.false_eq_true, if_false]
    exact ((ha.append he).filter).2
  rw [h1, h2]
  simp only [List.foldl_cons, List.foldl_nil, List.foldl_append]

theorem fire_NP (orc : List Nat) (st : State) : NP (fireTimers orc st).2 := by
  intro o ho
  unfold fireTimers at ho
  rcases List.mem_map.mp ho with ⟨e, _, rfl⟩
  rfl

theorem fire_earms (orc : List Nat) (st : State) : ∀ o ∈ (fireTimers orc st).2, ∃ e, o = .earm e := by
  intro o ho
  unfold fireTimers at ho
  rcases List.mem_map.mp ho with ⟨e, _, rfl⟩
  exact ⟨e.idx, rfl⟩

theorem step_def (st : State) (op : LOp) (orc : List Nat) (hu : st.unmodelled = false) :
    step st op orc = ((fireTimers orc (apply st op).1).1, (apply st op).2 ++ (fireTimers orc (apply st op).1).2) := by
  unfold step
  simp only [hu, Bool.false_eq_true, if_false]


/-! ### parked operations have distinct aio numbers -/

def ND (st : State) : Prop := (st.pend.map (·.aio)).Nodup

theorem ND_same {st st' : State} (hs : SameAio st st') (h : ND st) : ND st' := by
  unfold ND; rw [hs.1]; exact h

theorem ND_of {st st' : State} (h : ND st) (hp : st'.pend = st.pend) : ND st' := by
  unfold ND; rw [hp]; exact h

theorem completeWhere_nd (st : State) (f : PAio → Bool) (rv : Nat) (h : ND st) : ND (completeWhere st f rv).1 := by
  unfold ND completeWhere
  simp only
  exact List.Nodup.sublist (List.Sublist.map _ List.filter_sublist) h

theorem park_nd (st : State) (a : Nat) (t : Tgt) (h : ND st) (hb : st.pend.any (·.aio == a) = false) : ND (park st a t).1 := by
  unfold ND park
  simp only [List.map_append, List.map_cons, List.map_nil]
  apply List.nodup_append.mpr
  refine ⟨h, by simp, ?_⟩
  intro x hx y hy
  simp only [List.mem_singleton] at hy
  subst hy
  rcases List.mem_map.mp hx with ⟨p, hp, rfl⟩
  intro heq
  have := List.any_eq_false.mp hb p hp
  simp [heq] at this

macro "nd_same" h:ident : tactic =>
  `(tactic| ((repeat' split) <;> first | exact $h | exact ND_of $h rfl))

theorem apply_nd (st : State) (op : LOp) (h : ND st) : ND (apply st op).1 := by
  cases op with
  | openSock s p => show ND (opOpen st s p).1; unfold opOpen; nd_same h
  | notify s m c => show ND (opNotify st s m c).1; unfold opNotify; simp only; nd_same h
  | setoptSock s n v => show ND (opSetoptSock st s n v).1; unfold opSetoptSock; simp only; nd_same h
  | setoptEp e n v => show ND (opSetoptEp st e n v).1; unfold opSetoptEp; nd_same h
  | dial s nb => show ND (opDial st s nb).1; unfold opDial; simp only; nd_same h
  | listen s => show ND (opListen st s).1; unfold opListen; simp only; nd_same h
  | connDone e r =>
    show ND (opConnDone st e r).1
    unfold opConnDone
    split
    · exact h
    · split
      · exact h
      · split
        · exact ND_same (connDialer_same _ _ _) h
        · exact ND_same (connListener_same _ _ _) h
  | pipeClose p =>
    show ND (opPipeClose st p).1
    unfold opPipeClose
    split
    · exact h
    · split
      · exact h
      · exact ND_same (killPipe_same _ _) h
  | pipeDrop p =>
    show ND (opPipeDrop st p).1
    unfold opPipeDrop
    split
    · exact h
    · split
      · exact h
      · exact ND_same (killPipe_same _ _) h
  | dialerClose e =>
    show ND (opCloseEp st e true).1
    unfold opCloseEp
    split
    · exact h
    · split
      · exact h
      · split
        · exact h
        · exact ND_same (closeEp_same _ _) h
  | listenerClose e =>
    show ND (opCloseEp st e false).1
    unfold opCloseEp
    split
    · exact h
    · split
      · exact h
      · split
        · exact h
        · exact ND_same (closeEp_same _ _) h
  | ctxOpen s c => show ND (opCtxOpen st s c).1; unfold opCtxOpen; simp only; nd_same h
  | ctxClose c =>
    show ND (opCtxClose st c).1
    unfold opCtxClose
    split
    · exact h
    · split
      · exact h
      · exact completeWhere_nd _ _ _ (ND_of h rfl)
  | send t a =>
    show ND (opSend st t a).1
    unfold opSend finishNow
    simp only
    (repeat' split) <;> first | exact h | exact ND_of h rfl
  | recv t a =>
    show ND (opRecv st t a).1
    unfold opRecv
    simp only
    split
    · exact h
    · rename_i hb
      have hb' : st.pend.any (·.aio == a) = false := by simpa using hb
      unfold finishNow
      (repeat' split) <;> first | exact h | exact park_nd _ _ _ h hb' | exact ND_of h rfl
  | advance ms => exact ND_of h rfl
  | close s =>
    show ND (opClose st s).1
    unfold opClose
    simp only
    split
    · exact h
    · apply completeWhere_nd
      have h1 := ND_same (closeEps_same st (st.eps.filter fun e => e.sock == s && !e.closed)) h
      have h2 := ND_same (killPipes_same _ (liveOf (closeEps st (st.eps.filter fun e => e.sock == s && !e.closed)).1 fun p => p.sock == s)) h1
      exact ND_of h2 rfl
  | close2 s => exact ND_of h rfl
  | race o l a b => exact ND_of h rfl
  | probe => exact h

theorem step_nd (st : State) (op : LOp) (orc : List Nat) (h : ND st) : ND (step st op orc).1 := by
  unfold step
  split
  · exact h
  · exact ND_of (apply_nd st op h) rfl

/-! ### the relation between the steps -/

structure Rel (st : State) (j : J) : Prop where
  inv : Inv st
  pinv : PipesInv st
  pp : PInv st
  nd : ND st
  mid : Mid noSel st j
  cb : CB j
  ctxs : CtxsRel st j
  pend : PendRel st j

theorem lso_of_G {st : State} (h : G st) : LiveSockOpen st := by
  intro p hp hl
  obtain ⟨e, he, hi⟩ := h.s.w.idxE.exists (h.s.w.pipeEp p hp)
  have h1 := (h.s.w.own p hp hl e he hi).1
  have h2 := h.s.pipesOpen p hp hl e he hi
  rw [← h1]; exact h.s.epsOpen e he h2

/-- after the op: the timers fire, and the judge's selection can be dropped -/
theorem fire_fin (S : SelE) (op : LOp) (orc : List Nat) (st : State) (j : J) (h : Mid S st j)
    (hS : ∀ e ∈ st.eps, S e.idx e.sock e.dialer = true → e.closed = true) :
    Mid noSel (fireTimers orc st).1 ((fireTimers orc st).2.foldl (onOut op) j) ∧
    SameJ j ((fireTimers orc st).2.foldl (onOut op) j) := by
  obtain ⟨h1, s1⟩ := fire_sim S op orc st j h hS
  refine ⟨⟨h1.w, h1.pinv, h1.lso, h1.now, h1.e14, h1.e10, h1.socks, h1.eps.noSel_of ?_, h1.pipes⟩, s1⟩
  intro e' he' hs
  rcases List.mem_map.mp (show e' ∈ st.eps.map (fireOne st.now orc) from he') with ⟨e, he, rfl⟩
  have hf := fireOne_frame st.now orc e
  rw [hf.1, hf.2.1, hf.2.2.1] at hs
  rw [hf.2.2.2.1]; exact hS e he hs

/-- putting a step together -/
theorem assemble (st : State) (j : J) (op : LOp) (orc : List Nat) (hr : Rel st j) (jp' : J)
    (hjs : Nng.LifeSpec.step j op (step st op orc).2 = quiescent jp')
    (hm : Mid noSel (step st op orc).1 jp') (hc : CtxsRel (step st op orc).1 jp') (hp : PendRel (step st op orc).1 jp') :
    Rel (step st op orc).1 (Nng.LifeSpec.step j op (step st op orc).2) := by
  have hinv := step_Inv st op orc hr.inv
  obtain ⟨hq, hm2, hcb⟩ := quiescent_sim _ jp' hm hinv.fresh
  rw [hjs, hq]
  exact ⟨hinv, step_inv st op orc hr.pinv, step_P st op orc hr.inv.g hr.pp, step_nd st op orc hr.nd, hm2, hcb, hc, hp⟩

end Nng.LifeModel
