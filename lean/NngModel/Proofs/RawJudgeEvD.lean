/-
  Raw judges vs raw models: `send_done` (send_cb: the next queued message goes on the wire).
-/
import NngModel.Proofs.RawJudgeEvC
import NngModel.Proofs.RawJudgePsend
namespace Nng.RawSurv
open Nng Nng.Proto Nng.RawMq Nng.RawSurveySpec

attribute [local simp] xOut_rv xOut_rv2 xOut_parm xOut_pipe

/-- `sel` changes headers only -/
def SelBody (sel : Sel) : Prop := ∀ i m m1, sel i m = some m1 → m1.body = m.body

theorem filterMap_body_sublist {sel : Sel} (hs : SelBody sel) (i : Nat) : ∀ (l : List WMsg),
    ((l.filterMap (sel i)).map (·.body)).Sublist (l.map (·.body)) := by
  intro l
  induction l with
  | nil => simp
  | cons x l ih =>
    rw [List.filterMap_cons]
    cases hx : sel i x with
    | none => simp only [List.map_cons]; exact ih.cons _
    | some x1 =>
      simp only [List.map_cons]
      rw [hs i x x1 hx]
      exact ih.cons_cons _

/-- no body twice among what went on a connected pipe's wire and what waits for it -/
theorem pipe_bodies_nodup {sel : Sel} {cap : Nat} {sent : List WMsg} {i : Nat} {pp : Pipe} (hs : SelBody sel)
    (hpo : PipeOK sel cap sent i pp) (hc : pp.closed = false) (hn : (sent.map (·.body)).Nodup) :
    ((pp.wired ++ pp.sq.items).map (·.body)).Nodup := by
  obtain ⟨n, _, ho⟩ := hpo.fan hc
  have h1 : ((pp.wired ++ pp.sq.items).map (·.body)).Sublist (pp.offered.map (·.body)) := hpo.sub.map _
  rw [ho] at h1
  have h2 := filterMap_body_sublist hs i (sent.drop n)
  have h3 : ((sent.drop n).map (·.body)).Sublist (sent.map (·.body)) := (List.drop_sublist n sent).map _
  exact hn.sublist (h1.trans (h2.trans h3))

/-- the change concerns the pipes (model) and what the judge knows about pipes -/
theorem Rc.pipesUpd {s : State} {j : XJ} (h : Rc s j) (ps1 : List Pipe) (j1 : XJ) (hlen : ps1.length = s.pipes.length)
    (he : j1.err = j.err) (hcl : j1.closed = j.closed) (ht : j1.ttl = j.ttl) (hlv : j1.live = j.live) (hr : j1.recvs = j.recvs)
    (hsd : j1.sends = []) (hh : j1.held = j.held) (hp : ∀ p pp1, ps1[p]? = some pp1 → PRel j1 p pp1)
    (ho : POut j1 s.pipes.length) : Rc { s with pipes := ps1 } j1 := by
  refine ⟨by rw [he]; exact h.err, by rw [hcl]; exact h.jclosed, by rw [ht]; exact h.ttl, by rw [hlv]; exact h.liveN, hp,
    by simp only []; rw [hlen]; exact ho, by rw [hr]; exact h.recvs, h.tags, hsd, ?_, by rw [hh]; exact h.heldN,
    by rw [hh]; exact h.heldA, by simp only []; rw [hh, hlen]; exact h.heldP⟩
  simp only []
  rw [hh, hlv, hlen]
  exact h.held

theorem ev_sendDone {k : Kind} {sel : Sel} {resp : Bool} {s : State} {j : XJ} (hk : KindOK k sel) (hsb : SelBody sel)
    (hI : Inv k sel s) (hR : R s j) (ho : s.opened = true) (hc : s.closed = false) (p rv : Nat)
    (hn : (s.sent.map (·.body)).Nodup) :
    R (step k s (.sendDone p rv)).1 (xStep resp j (.sendDone p rv) (step k s (.sendDone p rv)).2) := by
  have hI1 := step_inv hk s (.sendDone p rv) hI
  revert hI1
  unfold step
  rw [if_neg (by simp [ho]), if_neg (by simp [hc])]
  simp only []
  have hc0 := hR.core
  cases hg : getPipe s p with
  | none =>
    intro hI1
    exact step_inert hI1 hc0 (by simp [inert]) (by simp [xPre])
  | some pp =>
    simp only []
    by_cases hcb : (pp.closed || !pp.busy) = true
    · rw [if_pos hcb]
      intro hI1
      exact step_inert hI1 hc0 (by simp [inert]) (by simp [xPre])
    · rw [if_neg hcb]
      simp only [Bool.or_eq_true, Bool.not_eq_true', not_or, Bool.not_eq_true, Bool.not_eq_false] at hcb
      obtain ⟨hcl, hbusy⟩ := hcb
      have hg0 : s.pipes[p]? = some pp := hg
      have hpr := hc0.pipes p pp hg0
      have hpo := hI.core.pipes p pp hg0
      by_cases hrv : (rv != 0) = true
      · rw [if_pos hrv]
        have hrv0 : (rv == 0) = false := by simpa using hrv
        have e : (closePipe s p).2 = [.pclosed p] := by rw [closePipe_eq hg hcl]
        rw [e]
        intro hI1
        refine step_finish hI1 hc0.err (by simp [notExecuted]) ?_ (by simp [xPre, hrv0]; rfl) (by simp [isBlocked]) (by simp [pollOf])
        have : procOuts resp ([Out.rv 0] ++ [.pclosed p]) (xPre resp j (.sendDone p rv) ([Out.rv 0] ++ [.pclosed p])).1 =
            xOut resp j (.pclosed p) := by
          simp [procOuts, isDone, pipeStep, xPre, hrv0]
        rw [this]
        exact closePipe_Rc hc0 hg hcl
      · rw [if_neg hrv]
        have hrv0 : rv = 0 := by simpa using hrv
        subst hrv0
        have hgq : pp.sq.getq = [] := by
          cases hq : pp.sq.getq with
          | nil => rfl
          | cons r rs => have := (hpo.idle (by rw [hq]; simp)).2; rw [hbusy] at this; cases this
        have hne : ∀ q, q ≠ p → ∀ pq, s.pipes[q]? = some pq → ∀ (W : List (Nat × Bytes)) (acc1 : List Held),
            acc1.filter (·.pipe == q) = j.acc.filter (·.pipe == q) → (∀ x ∈ W, x.1 = p) →
            PRel { j with acc := acc1, wired := j.wired ++ W, busy := j.busy.filter (· != p) ++ W.map (·.1) } q pq := by
          intro q hq pq hgq W acc1 hacc hW
          have hpq := hc0.pipes q pq hgq
          refine ⟨hpq.live, ?_, hpq.idle, by rw [← hpq.acc]; exact hacc, ?_⟩
          · intro hcq
            rw [← hpq.busy hcq]
            show q ∈ j.busy.filter (· != p) ++ W.map (·.1) ↔ _
            rw [List.mem_append, List.mem_filter]
            constructor
            · rintro (h1 | h1)
              · exact h1.1
              · obtain ⟨x, hx, rfl⟩ := List.mem_map.1 h1
                exact absurd (hW x hx) hq
            · intro h1; exact Or.inl ⟨h1, by simpa using hq⟩
          · intro b hb
            have hb : (q, b) ∈ j.wired ++ W := hb
            rcases List.mem_append.1 hb with h1 | h1
            · exact hpq.wired b h1
            · exact absurd (hW _ h1) hq
        cases hi : pp.sq.items with
        | cons m ms =>
          rw [pipeSent_some s p pp hgq m ms hi]
          intro hI1
          have hnd := pipe_bodies_nodup hsb hpo hcl hn
          have hmw : m.body ∉ pp.wired.map (·.body) := by
            rw [hi, List.map_append, List.nodup_append] at hnd
            intro hm
            exact hnd.2.2 _ hm _ (by simp) rfl
          have hacc : j.acc.filter (·.pipe == p) = ⟨p, m.hdr, m.body, false⟩ :: ms.map (fun m => ⟨p, m.hdr, m.body, false⟩) := by
            rw [hpr.acc]; unfold accOf; rw [if_neg (by simp [hcl]), hi]; rfl
          obtain ⟨acc1, e1, e2, e3⟩ := xOut_psends resp [(p, m)] { j with busy := j.busy.filter (· != p) } (by simp) (by
            intro x hx
            simp only [List.mem_singleton] at hx
            subst hx
            refine ⟨hpr.live.2 hcl, ?_, ?_, ?_⟩
            · show p ∉ j.busy.filter (· != p)
              rw [List.mem_filter]; simp
            · intro hm; exact hmw (hpr.wired _ hm)
            · show (j.acc.filter (·.pipe == p)).head? = _
              rw [hacc]; rfl)
          refine step_finish hI1 hc0.err (by simp [notExecuted]) ?_ (by rfl) (by simp [isBlocked]) (by simp [pollOf])
          have : procOuts resp ([Out.rv 0] ++ [.psend p m]) (xPre resp j (.sendDone p 0) ([Out.rv 0] ++ [.psend p m])).1 =
              [Out.psend p m].foldl (xOut resp) { j with busy := j.busy.filter (· != p) } := by
            simp [procOuts, isDone, pipeStep, xPre]
          rw [this]
          have e1 : [Out.psend p m].foldl (xOut resp) { j with busy := j.busy.filter (· != p) } = _ := e1
          rw [e1]
          refine hc0.pipesUpd _ _ (by simp) rfl rfl rfl rfl rfl hc0.sends rfl ?_ ?_
          · intro q pq hq
            simp only [] at hq
            by_cases e : p = q
            · subst e
              rw [set_get_self hg0] at hq
              cases hq
              refine ⟨hpr.live, ?_, ?_, ?_, ?_⟩
              · intro _
                show p ∈ j.busy.filter (· != p) ++ [p] ↔ _
                simp
              · intro _; simp
              · rw [e2 p]
                show (if p ∈ [p] then (j.acc.filter (·.pipe == p)).tail else _) = _
                rw [if_pos (by simp), hacc]
                unfold accOf
                rw [if_neg (by simp [hcl])]
                rfl
              · intro b hb
                have hb : (p, b) ∈ j.wired ++ [(p, m.body)] := hb
                rcases List.mem_append.1 hb with h1 | h1
                · have := hpr.wired b h1
                  simp only [List.map_append, List.mem_append]
                  exact Or.inl this
                · simp at h1; subst h1; simp
            · rw [set_get_ne e] at hq
              refine hne q (fun x => e x.symm) pq hq [(p, m.body)] acc1 ?_ (by simp)
              rw [e2 q]
              show (if q ∈ [p] then _ else j.acc.filter (·.pipe == q)) = _
              rw [if_neg (by simp; exact fun x => e x.symm)]
          · refine ⟨hc0.out.live, ?_, ?_, ?_⟩
            · intro q hq
              have hq : q ∈ j.busy.filter (· != p) ++ [p] := hq
              rcases List.mem_append.1 hq with h1 | h1
              · exact hc0.out.busy q (List.mem_filter.1 h1).1
              · simp at h1; subst h1; exact lt_of_get hg0
            · intro a ha; exact hc0.out.acc a (e3 a ha)
            · intro x hx
              have hx : x ∈ j.wired ++ [(p, m.body)] := hx
              rcases List.mem_append.1 hx with h1 | h1
              · exact hc0.out.wired x h1
              · simp at h1; subst h1; exact lt_of_get hg0
        | nil =>
          rw [pipeSent_none s p pp hgq hi hpo.nput]
          intro hI1
          refine step_finish hI1 hc0.err (by simp [notExecuted]) ?_ (by rfl) (by simp [isBlocked]) (by simp [pollOf])
          have : procOuts resp ([Out.rv 0] ++ []) (xPre resp j (.sendDone p 0) ([Out.rv 0] ++ [])).1 =
              { j with busy := j.busy.filter (· != p) } := by
            simp [procOuts, isDone, pipeStep, xPre]
          rw [this]
          refine hc0.pipesUpd _ _ (by simp) rfl rfl rfl rfl rfl hc0.sends rfl ?_ ?_
          · intro q pq hq
            simp only [] at hq
            by_cases e : p = q
            · subst e
              rw [set_get_self hg0] at hq
              cases hq
              refine ⟨hpr.live, ?_, ?_, ?_, hpr.wired⟩
              · intro _
                show p ∈ j.busy.filter (· != p) ↔ _
                rw [List.mem_filter]; simp
              · intro _; simp
              · rw [hpr.acc]; unfold accOf; rw [hi]
            · rw [set_get_ne e] at hq
              have := hne q (fun x => e x.symm) pq hq [] j.acc rfl (by simp)
              simpa using this
          · refine ⟨hc0.out.live, ?_, hc0.out.acc, hc0.out.wired⟩
            intro q hq
            exact hc0.out.busy q (List.mem_filter.1 hq).1

end Nng.RawSurv
