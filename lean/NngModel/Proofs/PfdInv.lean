/- structural invariant of the poller-layer model: holds for ALL schedules, no contract needed -/
import NngModel.Proofs.PfdStep
namespace Nng.Pfd
open Nng.PfdSpec

/-- events of the pfd harvested by epoll_wait and not yet handed to the callback -/
def pfdCount (p : Poller) : Nat := (p.batch.filter BEv.isPfd).length + (if p.pc = .cbBegin then 1 else 0)

structure SInv (s : State) : Prop where
  waitB : s.p.pc = .wait → s.p.batch = []
  reapB : s.p.pc = .reapLock → s.p.batch = []
  notCb : s.p.pc ≠ .inCb → opOf s .p = none
  inCbEq : s.g.inCb = true ↔ s.p.pc = .inCb
  cnt1 : pfdCount s.p ≤ 1
  hv : s.g.harvested = s.g.cbBegun + pfdCount s.p
  cb : s.g.cbBegun = s.g.cbEnded + (if s.g.inCb then 1 else 0)
  wr : ∀ t, frameOf s t = .stopWrite → s.g.mtx = some t ∧ s.g.onReap = true
  sl : ∀ t, frameOf s t = .stopSleep → s.g.onReap = true
  mx : ∀ t, s.g.mtx = some t → frameOf s t = .stopWrite
  busyOp : ∀ t, frameOf s t ≠ .idle → (opOf s t).isSome = true
  la : s.g.lastArm.isEmpty = false → s.g.reg = true ∧ s.g.en = true ∧ s.g.lastArm.subset s.g.mask = true
  reqE : ∀ t e r w, frameOf s t = .armCtl e r w → r.subset e = true
  fdReg : s.g.fdOpen = false → s.g.reg = false
  fdFini : s.g.fdOpen = !s.g.finiDone
  regAdded : s.g.reg = true → s.g.added = true
  rq : s.g.onReap = true → ∃ t, frameOf s t = .stopWrite ∨ frameOf s t = .stopSleep
  wk : s.g.onReap = true → (∃ t, frameOf s t = .stopWrite) ∨ 0 < s.g.evfd ∨ (s.p.pc ≠ .wait ∧ s.p.reap = true)
  cac0 : s.g.closeDone = false → s.g.cbAfterClose = 0

theorem sinv_init (progs scripts : List (List Op)) : SInv (init progs scripts) := by
  have hfr : ∀ t, frameOf (init progs scripts) t = .idle := by
    intro t
    cases t with
    | p => rfl
    | c i =>
      simp only [frameOf, init]
      cases h : (List.map (fun p => ({ frame := .idle, prog := p, res := [] } : Client)) progs)[i]? with
      | none => rfl
      | some c =>
        simp only [List.getElem?_map, Option.map_eq_some_iff] at h
        obtain ⟨_, _, rfl⟩ := h
        rfl
  constructor <;> (try simp only [hfr]) <;> simp [init, G.init, pfdCount, Evs.none_isEmpty, opOf]


theorem CallRel.frame' {s s' : State} {t : Tid} {f : Frame} {op : Op} (r : CallRel s s' t f op) (u : Tid) :
    frameOf s' u = if u = t then (callStep s.g t f op).frame else frameOf s u := by
  by_cases hu : u = t
  · subst hu; simp [r.hf']
  · simp [hu, r.fo u hu]

theorem pfdCount_call {s s' : State} {t : Tid} {f : Frame} {op : Op} (r : CallRel s s' t f op) : pfdCount s'.p = pfdCount s.p := by
  simp [pfdCount, r.pc, r.batch]

set_option hygiene false in
local macro "call_case" : tactic => `(tactic| (
  simp only [callStep, touch, ctlAdd, ctlMod, ctlDel, ctlAddRv, ctlModRv, syncRet] at hfr
  refine ⟨?_, ?_, ?_, ?_, ?_, ?_, ?_, ?_, ?_, ?_, hbusy, ?_, ?_, ?_, ?_, ?_, ?_, ?_, ?_⟩
  all_goals (try simp only [hg, hfr, pc, batch, reap, hcnt, pfd_simp, callStep, touch, ctlAdd, ctlMod, ctlDel, ctlAddRv, ctlModRv, syncRet])
  all_goals (try grind [Evs.subset_union_right, Evs.none_isEmpty])))

set_option maxHeartbeats 1600000 in
theorem sinv_call {s s' : State} {t : Tid} {f : Frame} {op : Op} (h : SInv s) (r : CallRel s s' t f op) : SInv s' := by
  have hfr := r.frame'
  have hcnt := pfdCount_call r
  obtain ⟨hf, hop, hg, hf', fo, oo, ot, pc, batch, reap, tp, len⟩ := r
  have hbusy : ∀ u, frameOf s' u ≠ .idle → (opOf s' u).isSome = true := by
    intro u hu
    by_cases hut : u = t
    · subst hut
      have hnf : (callStep s.g u f op).fin = false := by
        cases hfin : (callStep s.g u f op).fin with
        | false => rfl
        | true => exact absurd (hf' ▸ callStep_fin_idle _ _ _ _ hfin) hu
      rw [ot hnf]; rfl
    · rw [oo u hut]; exact h.busyOp u (by rw [← fo u hut]; exact hu)
  have hnotcb : s'.p.pc ≠ .inCb → opOf s' .p = none := by
    intro hp
    have : t ≠ .p := fun e => hp (by rw [pc]; exact tp e)
    rw [oo .p (Ne.symm this)]
    exact h.notCb (by rw [← pc]; exact hp)
  obtain ⟨h1, h2, h3, h5, h6, h7, h8, h9, h10, h11, h12, h13, h14, h15, h16, h17, h18, h19, h20⟩ := h
  cases f with
  | idle =>
    cases op with
    | arm m => call_case
    | close => call_case
    | stop => call_case
    | fini => call_case
    | free => call_case
    | kick => call_case
  | armCtl e rq w => call_case
  | closeShut => call_case
  | closeDel => call_case
  | stopClose => call_case
  | stopLock => call_case
  | stopWrite => call_case
  | stopSleep => call_case
  | stopChk => call_case

theorem frameOf_congr {s s' : State} (hcs : s'.cs = s.cs) (hpf : s'.p.frame = s.p.frame) (t : Tid) :
    frameOf s' t = frameOf s t := by
  cases t <;> simp [frameOf, hcs, hpf]

theorem opOf_congr {s s' : State} (hcs : s'.cs = s.cs) (hpr : s'.p.rem = s.p.rem) (t : Tid) :
    opOf s' t = opOf s t := by
  cases t <;> simp [opOf, hcs, hpr]

theorem frameOf_wake {s s' : State} (hcs : s'.cs = s.cs.map wakeClient) (hpf : s'.p.frame = s.p.frame)
    (hidle : s.p.frame = .idle) (t : Tid) :
    frameOf s' t = if frameOf s t = .stopSleep then .stopChk else frameOf s t := by
  cases t with
  | p => simp [frameOf, hpf, hidle]
  | c i =>
    have key : ∀ (o : Option Client), (match Option.map wakeClient o with | some c => c.frame | none => Frame.idle) =
        if (match o with | some c => c.frame | none => Frame.idle) = .stopSleep then .stopChk
        else (match o with | some c => c.frame | none => Frame.idle) := by
      intro o; cases o <;> simp [wakeClient_frame]
    simp only [frameOf, hcs, List.getElem?_map]
    exact key s.cs[i]?

theorem opOf_wake {s s' : State} (hcs : s'.cs = s.cs.map wakeClient) (hpr : s'.p.rem = s.p.rem) (t : Tid) :
    opOf s' t = opOf s t := by
  cases t with
  | p => simp [opOf, hpr]
  | c i =>
    have key : ∀ (o : Option Client), (match Option.map wakeClient o with | some c => c.prog.head? | none => none) =
        (match o with | some c => c.prog.head? | none => none) := by
      intro o; cases o <;> simp [wakeClient_prog]
    simp only [opOf, hcs, List.getElem?_map]
    exact key s.cs[i]?

/-- outside the callback the poller thread is in no call -/
theorem SInv.pIdle {s : State} (h : SInv s) (hp : opOf s .p = none) : s.p.frame = .idle := by
  have := h.busyOp .p
  simp only [frameOf] at this
  cases hf : s.p.frame with
  | idle => rfl
  | _ => rw [hp] at this; simp [hf] at this

theorem pfdCount_harvest_le (g : G) (r : Evs) (w : Bool) : ((harvest g r w).filter BEv.isPfd).length ≤ 1 := by
  unfold harvest
  simp only
  (repeat' split) <;> simp [List.filter, BEv.isPfd]

theorem harvest_any (g : G) (r : Evs) (w : Bool) :
    ((harvest g r w).filter BEv.isPfd).length = if (harvest g r w).any BEv.isPfd then 1 else 0 := by
  unfold harvest
  simp only
  (repeat' split) <;> simp_all [List.filter, BEv.isPfd]

theorem harvest_noreg (g : G) (r : Evs) (w : Bool) (h : g.reg = false ∨ g.en = false) : (harvest g r w).any BEv.isPfd = false := by
  unfold harvest
  rcases h with h | h <;> simp [h, Evs.none_isEmpty] <;> (repeat' split) <;> simp [BEv.isPfd]

theorem afterEntry_ne_wait_of_reap (p : Poller) (h : p.reap = true) : afterEntry p ≠ .wait := by
  unfold afterEntry
  (repeat' split) <;> simp_all

end Nng.Pfd
