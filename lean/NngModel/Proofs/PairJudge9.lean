/-
  C08 judge simulation, part 9: a peer connects.
-/
import NngModel.Proofs.PairJudge8
namespace Nng.Pair0
open Nng Nng.Proto Nng.PairSpec

theorem fail_peer (j : PairJ) (msg : String) : (j.fail msg).peerProto = j.peerProto := by
  unfold PairJ.fail; split <;> rfl

theorem sendCompletion_peer (j : PairJ) (a rv : Nat) (m : WMsg) (mb : Bool) :
    (sendCompletion j a rv m mb).peerProto = j.peerProto := by
  unfold sendCompletion
  simp only []
  repeat' split
  all_goals first | rfl | exact fail_peer _ _

theorem recvCompletion_peer (j : PairJ) (a rv : Nat) (msg : Option WMsg) :
    (recvCompletion j a rv msg).peerProto = j.peerProto := by
  unfold recvCompletion
  simp only []
  repeat' split
  all_goals first | rfl | exact fail_peer _ _

theorem pairOut_peer (nb : Nb) (j : PairJ) (o : Out) : (pairOut nb j o).peerProto = j.peerProto := by
  cases o with
  | done a rv msg mb =>
    unfold pairOut
    simp only []
    repeat' split
    all_goals first | rfl | exact sendCompletion_peer _ _ _ _ _ | exact recvCompletion_peer _ _ _ _ | exact fail_peer _ _
  | psend p m =>
    unfold pairOut
    simp only []
    repeat' split
    all_goals first | rfl | exact fail_peer _ _
  | parm p =>
    unfold pairOut
    simp only []
    repeat' split
    all_goals first | rfl | exact fail_peer _ _
  | pclosed p =>
    unfold pairOut
    simp only []
    repeat' split
    all_goals first | rfl | exact fail_peer _ _
  | _ => rfl

theorem fold_peer (nb : Nb) (l : List Out) : ∀ j : PairJ, (l.foldl (pairOut nb) j).peerProto = j.peerProto := by
  induction l with
  | nil => intro j; rfl
  | cons o l ih => intro j; simp only [List.foldl_cons]; rw [ih, pairOut_peer]

theorem sendSched_armed (V : Variant) (s : State) (p : Nat) :
    (sendSched V s p).1.pipes.any (·.armed) = s.pipes.any (·.armed) := by
  unfold sendSched
  by_cases hc : (s.cur != some p) = true
  · rw [if_pos hc]
  · rw [if_neg hc]
    unfold sendSchedBody
    cases hq : s.wmq <;> cases ha : s.waq <;> simp only [pipeSend, modPipe, wmqPutUnchecked, any_armed_busy]

theorem sendSched_hasId (V : Variant) (s : State) (p q : Nat) (h : ∃ x ∈ s.pipes, x.id = q) :
    ∃ x ∈ (sendSched V s p).1.pipes, x.id = q := by
  obtain ⟨x, hx, hxq⟩ := h
  have key : ∀ g : Option GMsg, ∃ y ∈ (s.pipes.map fun r => if r.id == p then { r with busy := g } else r), y.id = q := by
    intro g
    refine ⟨if x.id == p then { x with busy := g } else x, List.mem_map.2 ⟨x, hx, rfl⟩, ?_⟩
    split <;> exact hxq
  unfold sendSched
  by_cases hc : (s.cur != some p) = true
  · rw [if_pos hc]; exact ⟨x, hx, hxq⟩
  · rw [if_neg hc]
    unfold sendSchedBody
    cases hq : s.wmq <;> cases ha : s.waq <;> simp only [pipeSend, modPipe, wmqPutUnchecked]
    · exact ⟨x, hx, hxq⟩
    · exact key _
    · exact key _
    · exact key _

theorem any_armed_set' {s : State} {p : Nat} (h : ∃ x ∈ s.pipes, x.id = p) (f : Pipe → Pipe)
    (hf : ∀ q, (f q).armed = true) : (modPipe s p f).pipes.any (·.armed) = true := by
  obtain ⟨x, hx, hxp⟩ := h
  rw [List.any_eq_true]
  refine ⟨f x, ?_, hf x⟩
  simp only [modPipe, List.mem_map]
  exact ⟨x, hx, by simp [hxp]⟩

def isPipe : Out → Bool | .pipe _ => true | _ => false

theorem connect_refuse {j : PairJ} {peer id : Nat} (h : peer ≠ j.peerProto ∨ j.live.isSome = true) :
    connectClause false j peer [.pipe ↑id, .pclosed id] = j := by
  unfold connectClause
  have h0 : ¬ ((id : Int) < 0) := by omega
  simp only [List.foldl_cons, List.foldl_nil, h0, if_false, Int.toNat_natCast]
  have hc : [Out.pipe (id : Int), Out.pclosed id].contains (.pclosed id) = true := by simp
  simp only [hc, if_true]
  rcases h with h | h
  · have : (peer != j.peerProto) = true := by simpa using h
    simp [this]
  · by_cases hp : (peer != j.peerProto) = true
    · simp [hp]
    · simp [hp, h]

theorem fold_noPipe (F : PairJ → Out → PairJ) (hF : ∀ j o, isPipe o = false → F j o = j) (X : List Out)
    (hX : ∀ o ∈ X, isPipe o = false) : ∀ j, X.foldl F j = j := by
  induction X with
  | nil => intro j; rfl
  | cons o X ih =>
    intro j
    simp only [List.foldl_cons]
    rw [hF j o (hX o (by simp))]
    exact ih (fun o' h => hX o' (by simp [h])) j

theorem connect_accept {j : PairJ} {peer id : Nat} {X : List Out} (hp : peer = j.peerProto) (hl : j.live = none)
    (hX1 : ∀ o ∈ X, isPipe o = false) (hX2 : Out.pclosed id ∉ X) :
    connectClause false j peer ([.pipe ↑id] ++ X) = liveUpd j (some id) false false := by
  unfold connectClause
  have h0 : ¬ ((id : Int) < 0) := by omega
  have hc : ([Out.pipe (id : Int)] ++ X).contains (.pclosed id) = false := by
    simp only [List.contains_eq_any_beq, List.any_eq_false]
    intro o ho
    simp only [List.mem_append, List.mem_singleton] at ho
    rcases ho with rfl | ho
    · simp
    · intro h; have : Out.pclosed id = o := by simpa using h
      exact hX2 (this ▸ ho)
  rw [List.foldl_append, fold_noPipe _ (by intro j o ho; cases o <;> simp [isPipe] at ho <;> rfl) X hX1]
  simp only [List.foldl_cons, List.foldl_nil, h0, if_false, Int.toNat_natCast, hc, hp, bne_self_eq_false,
    Bool.false_eq_true, hl, Option.isSome_none]
  rfl

theorem filters_none (l : List Out) :
    l.filter (onOld none) = [] ∧ l.filter (oldGone none) = [] ∧
    l.filter (fun o => !onOld none o && !oldGone none o) = l := by
  refine ⟨?_, ?_, ?_⟩
  · rw [List.filter_eq_nil_iff]; intro o _; cases o <;> simp [onOld]
  · rw [List.filter_eq_nil_iff]; intro o _; cases o <;> simp [oldGone]
  · rw [List.filter_eq_self]; intro o _; cases o <;> simp [onOld, oldGone]

theorem pipeAdd_refuse {V : Variant} {v1 : Bool} {sS sR : List Bytes} {s : State} {j : PairJ}
    (hA : All V s) (hR : R' V v1 sS sR s j) (peer : Nat) (hcond : peer ≠ V.peer ∨ s.cur.isSome = true)
    (hA' : All V (modPipe (withNewPipe s) s.pipes.length fun pp => { pp with closed := true })) :
    R' V v1 sS sR (modPipe (withNewPipe s) s.pipes.length fun pp => { pp with closed := true })
      (pairStepOld j (.pipeAdd peer) [.pipe ↑s.pipes.length, .pclosed s.pipes.length]) := by
  have hR0 := hR.1
  have hne : ∀ q, j.live = some q → (s.pipes.length == q) = false := by
    intro q hq
    have : s.cur = some q := by rw [← hq]; exact hR0.live.symm
    have := hA.pinv.curLt q this
    simp; omega
  have hlive : j.live ≠ some s.pipes.length := by
    intro h; have := hne _ h; simp at this
  have hmid : pairMid false .none (.pipeAdd peer) [.pipe ↑s.pipes.length, .pclosed s.pipes.length]
      { j with lastPoll := none } = { j with lastPoll := none } := by
    rw [pairMid_add hR0.racing]
    have f0 : [Out.pipe ↑s.pipes.length, Out.pclosed s.pipes.length].filter isDone = [] := by simp [isDone]
    have f1 : [Out.pipe ↑s.pipes.length, Out.pclosed s.pipes.length].filter (fun o => !isDone o) =
        [Out.pipe ↑s.pipes.length, Out.pclosed s.pipes.length] := by simp [isDone]
    rw [f0, f1]
    simp only []
    have e1 : [Out.pipe ↑s.pipes.length, Out.pclosed s.pipes.length].filter (onOld j.live) = [] := by
      cases j.live <;> simp [onOld]
    have e2 : [Out.pipe ↑s.pipes.length, Out.pclosed s.pipes.length].filter (oldGone j.live) = [] := by
      cases hl : j.live with
      | none => simp [oldGone]
      | some q => simp [oldGone, hne q hl]
    have e3 : [Out.pipe ↑s.pipes.length, Out.pclosed s.pipes.length].filter
        (fun o => !onOld j.live o && !oldGone j.live o) = [Out.pipe ↑s.pipes.length, Out.pclosed s.pipes.length] := by
      cases hl : j.live with
      | none => simp [onOld, oldGone]
      | some q => simp [onOld, oldGone, hne q hl]
    rw [e1, e2, e3]
    simp only [List.foldl_nil]
    rw [connect_refuse (by
      rcases hcond with h | h
      · left; rw [show ({ j with lastPoll := none } : PairJ).peerProto = V.peer from hR0.peer]; exact h
      · right; rw [show ({ j with lastPoll := none } : PairJ).live = s.cur from hR0.live]; exact h)]
    simp only [List.foldl_cons, List.foldl_nil, pairOut_pipe]
    exact pairOut_pclosed_other hlive
  refine step_general hR (by simp [notExecuted]) rfl hmid
    (pairPost_none rfl (by simp [noBlocked, isBlocked]) hR0.racing) hA' (R_view ?_ hR0)
  simp [view, refuse_pipes s hA.pinv]
  simp [modPipe, withNewPipe]

theorem ev_pipeAdd {V : Variant} {v1 : Bool} {sS sR : List Bytes} {s : State} {j : PairJ} (hV : VJ V v1)
    (hA : All V s) (hR : R' V v1 sS sR s j) (peer : Nat) (hA' : All V (stepLive V s (.pipeAdd peer)).1) :
    R' V v1 sS sR (stepLive V s (.pipeAdd peer)).1
      (pairStepOld j (.pipeAdd peer) (stepLive V s (.pipeAdd peer)).2) := by
  have hR0 := hR.1
  simp only [stepLive] at hA' ⊢
  unfold pipeStart at hA' ⊢
  by_cases hpeer : (peer != V.peer) = true
  · simp only [hpeer, if_true] at hA' ⊢
    exact pipeAdd_refuse hA hR peer (Or.inl (by simpa using hpeer)) hA'
  · simp only [hpeer, Bool.false_eq_true, if_false] at hA' ⊢
    by_cases hcs : s.cur.isSome = true
    · simp only [hcs, if_true] at hA' ⊢
      exact pipeAdd_refuse hA hR peer (Or.inr hcs) hA'
    · simp only [hcs, Bool.false_eq_true, if_false] at hA' ⊢
      have hcur0 : s.cur = none := by cases h : s.cur <;> simp [h] at hcs ⊢
      have hpeer' : peer = V.peer := by simpa using hpeer
      obtain ⟨j0, hj0⟩ : ∃ j0 : PairJ, j0 = { j with lastPoll := none } := ⟨_, rfl⟩
      have hRj : R V v1 sS sR s j0 := hj0 ▸ hR0
      obtain ⟨s0, hs0⟩ : ∃ s0 : State, s0 = { (withNewPipe s) with cur := some s.pipes.length, rdReady := false } :=
        ⟨_, rfl⟩
      have hRw : R V v1 sS sR { s0 with wrReady := true }
          (liveUpd j0 (some s.pipes.length) false false) := by
        rw [hs0]
        refine { hRj with live := rfl, busy := by simp [liveUpd], armed := ?_ }
        simp [liveUpd, withNewPipe, any_armed_none hA.pinv hcur0]
      obtain ⟨ps, dn, h1, h2, h3, h4, h5⟩ := sendSched_R (V := V) .none false (s := s0) (p := s.pipes.length)
        (by rw [hs0]) hRw (by rw [hs0]; exact hA.inv.wmqLe)
      have hs0f := hs0
      dsimp only [withNewPipe] at hs0f
      rw [← hs0f] at hA' ⊢
      have hs0cur : s0.cur = some s.pipes.length := by rw [hs0f]
      have hs0arm : s0.pipes.any (·.armed) = false := by
        rw [hs0f]; simp [any_armed_none hA.pinv hcur0]
      have hs0id : ∃ x ∈ s0.pipes, x.id = s.pipes.length := by
        rw [hs0f]; exact ⟨{ id := s.pipes.length }, by simp, rfl⟩
      have g1 := (sendSched_frame V s0 s.pipes.length).1
      have g2 := sendSched_armed V s0 s.pipes.length
      have g3 := sendSched_hasId V s0 s.pipes.length s.pipes.length hs0id
      generalize hsc : sendSched V s0 s.pipes.length = sc at h1 h5 hA' g1 g2 g3 ⊢
      obtain ⟨s2, o⟩ := sc
      simp only [] at h1 h5 hA' g1 g2 g3 ⊢
      subst h1
      -- the judge
      have hjd_live : (dn.foldl (pairOut .none) j0).live = none := by
        rw [h4.1]; exact hRj.live.trans hcur0
      have hjd_peer : peer = (dn.foldl (pairOut .none) j0).peerProto := by
        rw [fold_peer, hpeer']; exact hRj.peer.symm
      have hxl : (ps.foldl (pairOut .none)
          (liveUpd (dn.foldl (pairOut .none) j0) (some s.pipes.length) false false)).live =
          some s.pipes.length := by rw [h5.live, g1, hs0cur]
      have hxa : (ps.foldl (pairOut .none)
          (liveUpd (dn.foldl (pairOut .none) j0) (some s.pipes.length) false false)).armed =
          false := by rw [h5.armed, g2, hs0arm]
      obtain ⟨f1, f2⟩ := filter_dn (fun o h => (h2 o h).1)
      have hps := onP_of_sched h3
      have g1' : ps.filter isDone = [] := by
        rw [List.filter_eq_nil_iff]; intro o ho; have := hps o ho; cases o <;> simp_all [onP, isDone]
      have g2' : ps.filter (fun o => !isDone o) = ps := by
        rw [List.filter_eq_self]; intro o ho; have := hps o ho; cases o <;> simp_all [onP, isDone]
      have d1 : isDone (Out.pipe (s.pipes.length : Int)) = false := rfl
      have d2 : isDone (Out.parm s.pipes.length) = false := rfl
      have hX1 : ∀ o ∈ (ps ++ dn) ++ [Out.parm s.pipes.length], isPipe o = false := by
        intro o ho
        simp only [List.mem_append, List.mem_singleton] at ho
        rcases ho with (ho | ho) | rfl
        · have := hps o ho; cases o <;> simp_all [onP, isPipe]
        · have := (h2 o ho).1; cases o <;> simp_all [isDone, isPipe]
        · rfl
      have hX2 : Out.pclosed s.pipes.length ∉ (ps ++ dn) ++ [Out.parm s.pipes.length] := by
        intro ho
        simp only [List.mem_append, List.mem_singleton] at ho
        rcases ho with (ho | ho) | ho
        · have := hps _ ho; simp [onP] at this
        · have := (h2 _ ho).1; simp [isDone] at this
        · cases ho
      have hmid : pairMid false .none (.pipeAdd peer)
          ([Out.pipe ↑s.pipes.length] ++ ((ps ++ dn) ++ [Out.parm s.pipes.length])) j0 =
          { (ps.foldl (pairOut .none)
              (liveUpd (dn.foldl (pairOut .none) j0) (some s.pipes.length) false false)) with
            armed := true } := by
        rw [pairMid_add hRj.racing]
        have hl0 : j0.live = none := hRj.live.trans hcur0
        rw [hl0]
        obtain ⟨e1, e2, e3⟩ := filters_none
          (([Out.pipe ↑s.pipes.length] ++ ((ps ++ dn) ++ [Out.parm s.pipes.length])).filter (fun o => !isDone o))
        rw [e1, e2, e3]
        have hdn : ([Out.pipe ↑s.pipes.length] ++ ((ps ++ dn) ++ [Out.parm s.pipes.length])).filter isDone = dn := by
          simp [List.filter_append, List.filter_cons, d1, d2, g1', f1]
        have hrest : ([Out.pipe ↑s.pipes.length] ++ ((ps ++ dn) ++ [Out.parm s.pipes.length])).filter
            (fun o => !isDone o) = [Out.pipe ↑s.pipes.length] ++ (ps ++ [Out.parm s.pipes.length]) := by
          simp [List.filter_append, List.filter_cons, d1, d2, g2', f2]
        rw [hdn, hrest]
        simp only [List.foldl_nil]
        rw [connect_accept hjd_peer hjd_live hX1 hX2]
        simp only [List.foldl_append, List.foldl_cons, List.foldl_nil, pairOut_pipe]
        exact pairOut_parm hxl hxa
      have ht : ∀ o ∈ [Out.pipe ↑s.pipes.length] ++ ((ps ++ dn) ++ [Out.parm s.pipes.length]), tame o = true := by
        intro o ho
        simp only [List.mem_append, List.mem_singleton] at ho
        rcases ho with rfl | (ho | ho) | rfl
        · rfl
        · have := hps o ho; cases o <;> simp_all [onP, tame]
        · exact (h2 o ho).2
        · rfl
      have htt := tame_all ht
      refine step_general (j1 := j0) (nb := .none) hR htt.1 (by rw [hj0]; rfl) hmid (pairPost_none rfl htt.2 h5.racing) hA' ?_
      refine { h5 with armed := ?_ }
      exact (any_armed_set' g3 _ (fun _ => rfl)).symm

end Nng.Pair0
