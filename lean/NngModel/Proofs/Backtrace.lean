/- lemmas about the backtrace loops of Model/Backtrace.lean (core Lean only) -/
import NngModel.Model.Backtrace
import NngModel.Proofs.BytesLemmas
namespace Nng.Bt
open Nng Nng.BtSpec

/-! ### the high bit -/

set_option maxRecDepth 100000 in
theorem isEnd_ofNat_aux : ∀ x : Fin 256, isEnd (UInt8.ofNat x.val) = decide (x.val ≥ 128) := by
  decide

/-- `(b & 0x80) != 0` iff the byte is ≥ 128 -/
theorem isEnd_iff (b : UInt8) : isEnd b = decide (b.toNat ≥ 128) := by
  have h := isEnd_ofNat_aux ⟨b.toNat, b.toNat_lt⟩
  simpa using h

theorem w32_eq (v : Nat) : w32 v =
    [UInt8.ofNat (v / 256 ^ 3 % 256), UInt8.ofNat (v / 256 ^ 2 % 256), UInt8.ofNat (v / 256 ^ 1 % 256), UInt8.ofNat (v / 256 ^ 0 % 256)] := by
  simp [w32, beEncode]

@[simp] theorem length_w32 (v : Nat) : (w32 v).length = 4 := by simp [w32]

theorem isEnd_w32_head (v : Nat) :
    isEnd (UInt8.ofNat (v / 256 ^ 3 % 256)) = decide (v % 2 ^ 32 ≥ 2 ^ 31) := by
  rw [isEnd_iff]
  have : (UInt8.ofNat (v / 256 ^ 3 % 256)).toNat = v / 256 ^ 3 % 256 := by
    simp [UInt8.toNat_ofNat']
  rw [this]
  apply decide_eq_decide.mpr
  omega

/-! ### shapes of routing headers -/

/-- `n` hop words (high bit clear), nothing else -/
def isHops : Nat → Bytes → Bool
  | 0, [] => true
  | n + 1, b0 :: _ :: _ :: _ :: rest => !isEnd b0 && isHops n rest
  | _, _ => false

/-- a well-formed backtrace of `n` words: `n-1` hop words and a final id word -/
def isBt : Nat → Bytes → Bool
  | n + 1, b0 :: _ :: _ :: _ :: rest => if isEnd b0 then (n == 0 && rest.isEmpty) else isBt n rest
  | _, _ => false

theorem isHops_length : ∀ (n : Nat) (h : Bytes), isHops n h = true → h.length = 4 * n
  | 0, [], _ => rfl
  | 0, _ :: _, h => by simp [isHops] at h
  | n + 1, [], h => by simp [isHops] at h
  | n + 1, [_], h => by simp [isHops] at h
  | n + 1, [_, _], h => by simp [isHops] at h
  | n + 1, [_, _, _], h => by simp [isHops] at h
  | n + 1, b0 :: _ :: _ :: _ :: rest, h => by
    simp only [isHops, Bool.and_eq_true] at h
    have := isHops_length n rest h.2
    simp only [List.length_cons]; omega

theorem isBt_length : ∀ (n : Nat) (h : Bytes), isBt n h = true → h.length = 4 * n ∧ 1 ≤ n
  | 0, _, h => by simp [isBt] at h
  | n + 1, [], h => by simp [isBt] at h
  | n + 1, [_], h => by simp [isBt] at h
  | n + 1, [_, _], h => by simp [isBt] at h
  | n + 1, [_, _, _], h => by simp [isBt] at h
  | n + 1, b0 :: _ :: _ :: _ :: rest, h => by
    simp only [isBt] at h
    by_cases he : isEnd b0 = true
    · rw [if_pos he] at h
      simp only [Bool.and_eq_true, beq_iff_eq, List.isEmpty_iff] at h
      obtain ⟨h0, hr⟩ := h
      subst h0; subst hr; simp
    · rw [if_neg he] at h
      have := isBt_length n rest h
      simp only [List.length_cons]; omega

/-- pushing a hop word in front of a backtrace gives a backtrace -/
theorem isBt_push (n : Nat) (b0 b1 b2 b3 : UInt8) (bt : Bytes) (hb : isEnd b0 = false)
    (h : isBt n bt = true) : isBt (n + 1) (b0 :: b1 :: b2 :: b3 :: bt) = true := by
  simp [isBt, hb, h]

/-- an id word alone is a backtrace of one word -/
theorem isBt_one (b0 b1 b2 b3 : UInt8) (hb : isEnd b0 = true) : isBt 1 [b0, b1, b2, b3] = true := by
  simp [isBt, hb]

/-- a backtrace = hop words followed by one id word -/
theorem isBt_split : ∀ (n : Nat) (bt : Bytes), isBt n bt = true →
    ∃ hs b0 b1 b2 b3, bt = hs ++ [b0, b1, b2, b3] ∧ isHops (n - 1) hs = true ∧ isEnd b0 = true
  | 0, _, h => by simp [isBt] at h
  | n + 1, [], h => by simp [isBt] at h
  | n + 1, [_], h => by simp [isBt] at h
  | n + 1, [_, _], h => by simp [isBt] at h
  | n + 1, [_, _, _], h => by simp [isBt] at h
  | n + 1, b0 :: b1 :: b2 :: b3 :: rest, h => by
    simp only [isBt] at h
    by_cases he : isEnd b0 = true
    · rw [if_pos he] at h
      simp only [Bool.and_eq_true, beq_iff_eq, List.isEmpty_iff] at h
      obtain ⟨h0, hr⟩ := h
      subst h0; subst hr
      exact ⟨[], b0, b1, b2, b3, rfl, rfl, he⟩
    · rw [if_neg he] at h
      obtain ⟨hs, c0, c1, c2, c3, e, hh, hc⟩ := isBt_split n rest h
      have hn := (isBt_length n rest h).2
      refine ⟨b0 :: b1 :: b2 :: b3 :: hs, c0, c1, c2, c3, by simp [e], ?_, hc⟩
      obtain ⟨m, rfl⟩ : ∃ m, n = m + 1 := ⟨n - 1, by omega⟩
      simp only [Nat.add_sub_cancel] at hh ⊢
      simp [isHops, he, hh]

theorem isBt_w32_push (n p : Nat) (bt : Bytes) (hp : p < 2 ^ 31) (h : isBt n bt = true) :
    isBt (n + 1) (w32 p ++ bt) = true := by
  rw [w32_eq]
  apply isBt_push _ _ _ _ _ _ _ h
  rw [isEnd_w32_head]
  simp; omega

theorem isBt_w32_id (id : Nat) (h1 : 2 ^ 31 ≤ id) (h2 : id < 2 ^ 32) : isBt 1 (w32 id) = true := by
  rw [w32_eq]
  apply isBt_one
  rw [isEnd_w32_head]
  simp; omega

/-! ### the TTL loop (xrep / rep / xrespond / respond receive) -/

theorem ttlLoop_cons (ttl hops : Nat) (hdr : Bytes) (b0 b1 b2 b3 : UInt8) (rest : Bytes) :
    ttlLoop ttl hops hdr (b0 :: b1 :: b2 :: b3 :: rest) =
      if hops > ttl then .drop
      else if 4 + hdr.length > hcap then .dropEinval
      else if isEnd b0 then .deliver (hdr ++ [b0, b1, b2, b3]) rest
      else ttlLoop ttl (hops + 1) (hdr ++ [b0, b1, b2, b3]) rest := by
  rw [ttlLoop]

theorem ttlLoop_short (ttl hops : Nat) (hdr w : Bytes) (h : w.length < 4) :
    ttlLoop ttl hops hdr w = if hops > ttl then .drop else .closePipe := by
  match w, h with
  | [], _ => simp [ttlLoop]
  | [_], _ => simp [ttlLoop]
  | [_, _], _ => simp [ttlLoop]
  | [_, _, _], _ => simp [ttlLoop]
  | _ :: _ :: _ :: _ :: _, h => simp at h; omega

/-- L1: a well-formed backtrace of `n` words is moved to the header when the hop budget
    and the header capacity allow -/
theorem ttlLoop_accept (ttl : Nat) : ∀ (n hops : Nat) (hdr bt B : Bytes), isBt n bt = true →
    hops + n ≤ ttl + 1 → hdr.length + 4 * n ≤ hcap →
    ttlLoop ttl hops hdr (bt ++ B) = .deliver (hdr ++ bt) B
  | 0, _, _, _, _, h, _, _ => by simp [isBt] at h
  | n + 1, _, _, [], _, h, _, _ => by simp [isBt] at h
  | n + 1, _, _, [_], _, h, _, _ => by simp [isBt] at h
  | n + 1, _, _, [_, _], _, h, _, _ => by simp [isBt] at h
  | n + 1, _, _, [_, _, _], _, h, _, _ => by simp [isBt] at h
  | n + 1, hops, hdr, b0 :: b1 :: b2 :: b3 :: rest, B, h, hh, hc => by
    simp only [isBt] at h
    simp only [List.cons_append]
    rw [ttlLoop_cons, if_neg (by omega), if_neg (by omega)]
    by_cases he : isEnd b0 = true
    · rw [if_pos he] at h
      simp only [Bool.and_eq_true, beq_iff_eq, List.isEmpty_iff] at h
      obtain ⟨_, hr⟩ := h
      subst hr
      rw [if_pos he]; simp
    · rw [if_neg he] at h
      rw [if_neg he, ttlLoop_accept ttl n (hops + 1) (hdr ++ [b0, b1, b2, b3]) rest B h (by omega)
        (by simp only [List.length_append, List.length_cons, List.length_nil]; omega)]
      simp

/-- L2: at least `ttl + 1 - hops` hop words without an id: too many hops, drop -/
theorem ttlLoop_drop (ttl : Nat) : ∀ (n hops : Nat) (hdr hs W : Bytes), isHops n hs = true →
    hops + n > ttl → hdr.length + 4 * (ttl + 1 - hops) ≤ hcap →
    ttlLoop ttl hops hdr (hs ++ W) = .drop
  | 0, hops, hdr, [], W, _, hh, _ => by
    simp only [List.nil_append]
    by_cases hw : W.length < 4
    · rw [ttlLoop_short _ _ _ _ hw, if_pos (by omega)]
    · match W, hw with
      | [], hw | [_], hw | [_, _], hw | [_, _, _], hw => simp at hw
      | _ :: _ :: _ :: _ :: _, _ => rw [ttlLoop_cons, if_pos (by omega)]
  | 0, _, _, _ :: _, _, h, _, _ => by simp [isHops] at h
  | n + 1, _, _, [], _, h, _, _ => by simp [isHops] at h
  | n + 1, _, _, [_], _, h, _, _ => by simp [isHops] at h
  | n + 1, _, _, [_, _], _, h, _, _ => by simp [isHops] at h
  | n + 1, _, _, [_, _, _], _, h, _, _ => by simp [isHops] at h
  | n + 1, hops, hdr, b0 :: b1 :: b2 :: b3 :: rest, W, h, hh, hc => by
    simp only [isHops, Bool.and_eq_true, Bool.not_eq_true'] at h
    simp only [List.cons_append]
    rw [ttlLoop_cons]
    by_cases hg : hops > ttl
    · rw [if_pos hg]
    · rw [if_neg hg, if_neg (by omega), if_neg (by simp [h.1])]
      exact ttlLoop_drop ttl n (hops + 1) _ rest W h.2 (by omega)
        (by simp only [List.length_append, List.length_cons, List.length_nil]; omega)

/-- L3: hop words, then fewer than four bytes, before the budget is used up: the peer
    is disconnected -/
theorem ttlLoop_close (ttl : Nat) : ∀ (n hops : Nat) (hdr hs tail : Bytes), isHops n hs = true →
    hops + n ≤ ttl → tail.length < 4 → hdr.length + 4 * n ≤ hcap →
    ttlLoop ttl hops hdr (hs ++ tail) = .closePipe
  | 0, hops, hdr, [], tail, _, hh, ht, _ => by
    simp only [List.nil_append]
    rw [ttlLoop_short _ _ _ _ ht, if_neg (by omega)]
  | 0, _, _, _ :: _, _, h, _, _, _ => by simp [isHops] at h
  | n + 1, _, _, [], _, h, _, _, _ => by simp [isHops] at h
  | n + 1, _, _, [_], _, h, _, _, _ => by simp [isHops] at h
  | n + 1, _, _, [_, _], _, h, _, _, _ => by simp [isHops] at h
  | n + 1, _, _, [_, _, _], _, h, _, _, _ => by simp [isHops] at h
  | n + 1, hops, hdr, b0 :: b1 :: b2 :: b3 :: rest, tail, h, hh, ht, hc => by
    simp only [isHops, Bool.and_eq_true, Bool.not_eq_true'] at h
    simp only [List.cons_append]
    rw [ttlLoop_cons, if_neg (by omega), if_neg (by omega), if_neg (by simp [h.1])]
    exact ttlLoop_close ttl n (hops + 1) _ rest tail h.2 (by omega) ht
      (by simp only [List.length_append, List.length_cons, List.length_nil]; omega)

/-- L4 (inversion): whatever the bytes, a delivery means a well-formed backtrace was
    found within the hop budget and fits the header -/
theorem ttlLoop_deliver_inv (ttl : Nat) : ∀ (k : Nat) (w : Bytes) (hops : Nat) (hdr h b : Bytes),
    w.length ≤ k → ttlLoop ttl hops hdr w = .deliver h b →
    ∃ n bt, isBt n bt = true ∧ w = bt ++ b ∧ h = hdr ++ bt ∧ hops + n ≤ ttl + 1 ∧ h.length ≤ hcap := by
  intro k
  induction k with
  | zero =>
    intro w hops hdr h b hk hd
    have : w.length < 4 := by omega
    rw [ttlLoop_short _ _ _ _ this] at hd
    split at hd <;> cases hd
  | succ k ih =>
    intro w hops hdr h b hk hd
    match w, hk with
    | [], _ | [_], _ | [_, _], _ | [_, _, _], _ =>
      rw [ttlLoop_short _ _ _ _ (by simp)] at hd
      split at hd <;> cases hd
    | b0 :: b1 :: b2 :: b3 :: rest, hk =>
      rw [ttlLoop_cons] at hd
      by_cases hg : hops > ttl
      · rw [if_pos hg] at hd; cases hd
      · rw [if_neg hg] at hd
        by_cases hc : 4 + hdr.length > hcap
        · rw [if_pos hc] at hd; cases hd
        · rw [if_neg hc] at hd
          by_cases he : isEnd b0 = true
          · rw [if_pos he] at hd
            injection hd with e1 e2
            subst e1; subst e2
            refine ⟨1, [b0, b1, b2, b3], isBt_one _ _ _ _ he, by simp, rfl, by omega, ?_⟩
            simp only [List.length_append, List.length_cons, List.length_nil]; omega
          · rw [if_neg he] at hd
            obtain ⟨n, bt, hbt, hw, hh, hn, hl⟩ := ih rest (hops + 1) _ h b (by simp at hk; omega) hd
            refine ⟨n + 1, b0 :: b1 :: b2 :: b3 :: bt, isBt_push _ _ _ _ _ _ (by simpa using he) hbt,
              by simp [hw], by simp [hh], by omega, hl⟩

/-- the NNG_EINVAL branch of `nni_msg_header_append` needs a header that cannot hold the
    remaining hop budget -/
theorem ttlLoop_einval_inv (ttl : Nat) : ∀ (k : Nat) (w : Bytes) (hops : Nat) (hdr : Bytes),
    w.length ≤ k → ttlLoop ttl hops hdr w = .dropEinval → hcap < hdr.length + 4 * (ttl + 1 - hops) := by
  intro k
  induction k with
  | zero =>
    intro w hops hdr hk hd
    have : w.length < 4 := by omega
    rw [ttlLoop_short _ _ _ _ this] at hd
    split at hd <;> cases hd
  | succ k ih =>
    intro w hops hdr hk hd
    match w, hk with
    | [], _ | [_], _ | [_, _], _ | [_, _, _], _ =>
      rw [ttlLoop_short _ _ _ _ (by simp)] at hd
      split at hd <;> cases hd
    | b0 :: b1 :: b2 :: b3 :: rest, hk =>
      rw [ttlLoop_cons] at hd
      by_cases hg : hops > ttl
      · rw [if_pos hg] at hd; cases hd
      · rw [if_neg hg] at hd
        by_cases hc : 4 + hdr.length > hcap
        · omega
        · rw [if_neg hc] at hd
          by_cases he : isEnd b0 = true
          · rw [if_pos he] at hd; cases hd
          · rw [if_neg he] at hd
            have := ih rest (hops + 1) _ (by simp at hk; omega) hd
            simp only [List.length_append, List.length_cons, List.length_nil] at this
            omega

theorem ttlLoop_ne_panic (ttl : Nat) : ∀ (k : Nat) (w : Bytes) (hops : Nat) (hdr : Bytes),
    w.length ≤ k → ttlLoop ttl hops hdr w ≠ .panic := by
  intro k
  induction k with
  | zero =>
    intro w hops hdr hk hd
    have : w.length < 4 := by omega
    rw [ttlLoop_short _ _ _ _ this] at hd
    split at hd <;> cases hd
  | succ k ih =>
    intro w hops hdr hk hd
    match w, hk with
    | [], _ | [_], _ | [_, _], _ | [_, _, _], _ =>
      rw [ttlLoop_short _ _ _ _ (by simp)] at hd
      split at hd <;> cases hd
    | b0 :: b1 :: b2 :: b3 :: rest, hk =>
      rw [ttlLoop_cons] at hd
      split at hd
      · cases hd
      · split at hd
        · cases hd
        · split at hd
          · cases hd
          · exact ih rest _ _ (by simp at hk; omega) hd

end Nng.Bt
