/-
  RESPONDENT model: `opened` is never reset; before `open` the state is the initial one (up to the clock).
-/
import NngModel.Proofs.RespJudgeInv2
namespace Nng.Respond
open Nng Nng.Proto

theorem closePipe_opened (s : State) (p : Nat) : (closePipe s p).1.opened = s.opened := by
  unfold closePipe
  split
  · rfl
  · split
    · rfl
    · simp

theorem pipeSent_opened (s : State) (pp : Pipe) : (pipeSent s pp).1.opened = s.opened := by
  unfold pipeSent
  split
  · simp
  · split
    · rfl
    · split
      · rfl
      · simp

theorem pipeRecv_opened (s : State) (pp : Pipe) (wm : WMsg) : (pipeRecv s pp wm).1.opened = s.opened := by
  unfold pipeRecv
  split
  · simp
  · split
    · rfl
    · split
      · rfl
      · simp

theorem handOver_opened (s : State) (pp : Pipe) (w : Wire) : (handOver s pp w).opened = s.opened := by
  unfold handOver
  simp only
  split <;> simp

theorem ctxSend_opened (s : State) (c : Ctx) (a : Nat) (m : WMsg) (mode : Mode) :
    (ctxSend s c a m mode).1.opened = s.opened := by
  unfold ctxSend
  simp only
  have h0 : (if c.key == none then { s with writable := false } else s).opened = s.opened := by
    split <;> rfl
  generalize (if c.key == none then { s with writable := false } else s) = s0 at h0 ⊢
  split
  · exact h0
  · split
    · exact h0
    · split
      · exact h0
      · split
        · simpa using h0
        · split
          · rw [handOver_opened]; simpa using h0
          · simpa using h0

theorem ctxRecv_opened (s : State) (c : Ctx) (a : Nat) (mode : Mode) : (ctxRecv s c a mode).1.opened = s.opened := by
  unfold ctxRecv
  split
  · split
    · rfl
    · split
      · rfl
      · simp
  · split
    · rfl
    · split
      · rfl
      · simp only [setWritableFor_opened, setCtx_opened, setPipe_opened]
        split <;> rfl

theorem cancelAio_opened (s : State) (a rv : Nat) : (cancelAio s a rv).1.opened = s.opened := by
  unfold cancelAio
  split
  · simp
  · split
    · simp
    · rfl

theorem closeCtx_opened (s : State) (c : Ctx) : (closeCtx s c).1.opened = s.opened := by
  unfold closeCtx
  simp only [setCtx_opened]
  split <;> split <;> rfl

theorem opened_stepOK : StepOK2 (fun _ => True) (fun s => s.opened = true) where
  hOpen := fun _ _ _ => rfl
  setNow := fun _ _ h => h
  setTtl := fun _ _ h => h
  setClosed := fun _ h => h
  hPipeAdd := fun _ _ h _ _ _ _ _ => h
  hClosePipe := fun s p h => by rw [closePipe_opened]; exact h
  hPipeSent := fun s p pp h _ _ _ => by rw [pipeSent_opened]; exact h
  hPipeRecv := fun s p pp wm h _ _ _ _ => by rw [pipeRecv_opened]; exact h
  hCtxSend := fun s k c a m mode _ h _ => by rw [ctxSend_opened]; exact h
  hCtxRecv := fun s k c a mode h _ => by rw [ctxRecv_opened]; exact h
  hCancel := fun s a rv h => by rw [cancelAio_opened]; exact h
  hCloseCtx := fun s k c h _ => by rw [closeCtx_opened]; exact h
  hCtxOpen := fun _ _ h _ => h
  hCtxClose := fun s k c h _ => by show (closeCtx s c).1.opened = true; rw [closeCtx_opened]; exact h

theorem step_opened (s : State) (ev : Ev) (h : s.opened = true) : (step s ev).1.opened = true :=
  step_inv2 opened_stepOK s ev trivial h

/-- before `open` nothing has happened but the passing of time -/
def Unopened (s : State) : Prop := s.opened = false → ∃ n, s = { ({} : State) with now := n }

theorem unopened_init : Unopened ({} : State) := fun _ => ⟨0, rfl⟩

theorem step_unopened (s : State) (ev : Ev) (h : Unopened s) : Unopened (step s ev).1 := by
  intro ho'
  cases ho : s.opened with
  | true => rw [step_opened s ev ho] at ho'; cases ho'
  | false =>
    obtain ⟨n, rfl⟩ := h ho
    cases ev <;> first | exact ⟨n, rfl⟩ | skip
    · exact absurd ho' (by simp [step])
    · rename_i ms; exact ⟨n + ms, rfl⟩

/-- a closed socket has been opened, and stays closed -/
theorem step_closed_of_closed (s : State) (ev : Ev) (ho : s.opened = true) (hc : s.closed = true) :
    (step s ev).1.closed = true := by
  unfold step
  rw [if_neg (by simp [ho]), if_pos hc]
  cases ev <;> exact hc

theorem step_co (s : State) (ev : Ev) (hu : Unopened s) (h : s.closed = true → s.opened = true) :
    (step s ev).1.closed = true → (step s ev).1.opened = true := by
  intro hc
  cases ho : s.opened with
  | true => exact step_opened s ev ho
  | false =>
    obtain ⟨n, rfl⟩ := hu ho
    cases ev <;> first | (exact absurd hc (by simp [step])) | skip

end Nng.Respond
