/-
  C08: the pipes of the PAIR machine over all event sequences — at most one attached
  (not closed) pipe, it is the one `s->p` names, closed pipes are inert, and no receive is
  posted while a message is held (`rd_ready`).
-/
import NngModel.Proofs.PairInv
namespace Nng.Pair0
open Nng Nng.Proto List

structure PInv (s : State) : Prop where
  closedInert : ∀ pp ∈ s.pipes, pp.closed = true → pp.busy = none ∧ pp.armed = false
  /-- (A3) every pipe that is not closed is the attached one -/
  single : ∀ pp ∈ s.pipes, pp.closed = false → s.cur = some pp.id
  curOpen : ∀ pp ∈ s.pipes, pp.closed = true → s.cur ≠ some pp.id
  heldNotArmed : s.rdReady = true → ∀ pp ∈ s.pipes, pp.armed = false
  idsLt : ∀ pp ∈ s.pipes, pp.id < s.pipes.length
  curLt : ∀ q, s.cur = some q → q < s.pipes.length

theorem pinv_init : PInv ({} : State) := by
  constructor <;> simp

theorem mem_modPipe {s : State} {p : Nat} {f : Pipe → Pipe} {pp : Pipe} (h : pp ∈ (modPipe s p f).pipes) :
    ∃ q ∈ s.pipes, (q.id = p ∧ pp = f q) ∨ (q.id ≠ p ∧ pp = q) := by
  simp only [modPipe, List.mem_map] at h
  obtain ⟨q, hq, he⟩ := h
  refine ⟨q, hq, ?_⟩
  by_cases hid : q.id = p
  · left; simp [hid] at he; exact ⟨hid, he.symm⟩
  · right; simp [hid] at he; exact ⟨hid, he.symm⟩

@[simp] theorem modPipe_len (s : State) (p : Nat) (f : Pipe → Pipe) : (modPipe s p f).pipes.length = s.pipes.length := by
  simp [modPipe]

/-- updating fields other than `closed` / `id` of the attached pipe, keeping it unarmed when a message is held -/
theorem modPipe_pinv (s : State) (p : Nat) (f : Pipe → Pipe) (h : PInv s)
    (hid : ∀ q, (f q).id = q.id) (hcl : ∀ q, (f q).closed = q.closed)
    (hin : ∀ q ∈ s.pipes, q.id = p → q.closed = true → f q = q ∨ ((f q).busy = none ∧ (f q).armed = false))
    (har : s.rdReady = true → ∀ q, (f q).armed = true → q.armed = true) : PInv (modPipe s p f) := by
  obtain ⟨p1, p2, p3, p4, p5, p6⟩ := h
  constructor
  · intro pp hm hc
    obtain ⟨q, hq, h | h⟩ := mem_modPipe hm
    · obtain ⟨hqp, rfl⟩ := h
      rw [hcl] at hc
      rcases hin q hq hqp hc with e | e
      · rw [e]; exact p1 q hq hc
      · exact e
    · obtain ⟨_, rfl⟩ := h; exact p1 _ hq hc
  · intro pp hm hc
    obtain ⟨q, hq, h | h⟩ := mem_modPipe hm
    · obtain ⟨_, rfl⟩ := h
      rw [hcl] at hc; rw [hid]; simpa [modPipe] using p2 q hq hc
    · obtain ⟨_, rfl⟩ := h; simpa [modPipe] using p2 _ hq hc
  · intro pp hm hc
    obtain ⟨q, hq, h | h⟩ := mem_modPipe hm
    · obtain ⟨_, rfl⟩ := h
      rw [hcl] at hc; rw [hid]; simpa [modPipe] using p3 q hq hc
    · obtain ⟨_, rfl⟩ := h; simpa [modPipe] using p3 _ hq hc
  · intro hr pp hm
    have hr' : s.rdReady = true := by simpa [modPipe] using hr
    obtain ⟨q, hq, h | h⟩ := mem_modPipe hm
    · obtain ⟨_, rfl⟩ := h
      cases ha : (f q).armed with
      | false => rfl
      | true => have := har hr' q ha; rw [p4 hr' q hq] at this; exact absurd this (by simp)
    · obtain ⟨_, rfl⟩ := h; exact p4 hr' _ hq
  · intro pp hm
    rw [modPipe_len]
    obtain ⟨q, hq, h | h⟩ := mem_modPipe hm
    · obtain ⟨_, rfl⟩ := h; rw [hid]; exact p5 q hq
    · obtain ⟨_, rfl⟩ := h; exact p5 _ hq
  · intro q hq
    rw [modPipe_len]
    exact p6 q (by simpa [modPipe] using hq)

theorem pinv_of_eq (s s' : State) (h : PInv s) (hp : s'.pipes = s.pipes) (hc : s'.cur = s.cur)
    (hr : s'.rdReady = true → s.rdReady = true) : PInv s' := by
  obtain ⟨p1, p2, p3, p4, p5, p6⟩ := h
  constructor
  · rw [hp]; exact p1
  · rw [hp, hc]; exact p2
  · rw [hp, hc]; exact p3
  · rw [hp]; exact fun h => p4 (hr h)
  · rw [hp]; exact p5
  · rw [hp, hc]; exact p6

theorem pipeSend_pinv (V : Variant) (s : State) (p : Nat) (gm : GMsg) (h : PInv s) (hc : s.cur = some p) :
    PInv (pipeSend V s p gm).1 := by
  unfold pipeSend
  have hm : PInv (modPipe s p fun pp => { pp with busy := some ⟨gm.gid, V.txWire gm.m⟩ }) := by
    refine modPipe_pinv s p (fun pp => { pp with busy := some ⟨gm.gid, V.txWire gm.m⟩ }) h (fun _ => rfl) (fun _ => rfl) ?_ ?_
    · intro q hq hqp hcl
      exact absurd (hqp ▸ hc) (h.curOpen q hq hcl)
    · intro _ q ha; exact ha
  exact pinv_of_eq _ _ hm (by simp [modPipe]) (by simp [modPipe]) (by simp [modPipe])

theorem sendSched_pinv (V : Variant) (s : State) (p : Nat) (h : PInv s) : PInv (sendSched V s p).1 := by
  unfold sendSched
  by_cases hc : (s.cur != some p) = true
  · rw [if_pos hc]; exact h
  · rw [if_neg hc]
    have hcur : s.cur = some p := by simpa using hc
    unfold sendSchedBody
    cases hq : s.wmq with
    | nil =>
      cases ha : s.waq with
      | nil => exact pinv_of_eq s _ h rfl rfl (fun h => h)
      | cons a ar =>
        simp only
        refine pinv_of_eq _ _ (pipeSend_pinv V { s with wrReady := true, waq := ar, accepted := s.accepted ++ [a.msg] } p a.msg
          (pinv_of_eq s _ h rfl rfl (fun h => h)) hcur) rfl rfl (fun h => h)
    | cons m rest =>
      cases ha : s.waq with
      | nil =>
        simp only [pipeSend, ha]
        refine pinv_of_eq _ _ (pipeSend_pinv V { s with wrReady := true, wmq := rest } p m
          (pinv_of_eq s _ h rfl rfl (fun h => h)) hcur) ?_ ?_ ?_ <;> simp [pipeSend, modPipe]
      | cons a ar =>
        simp only [pipeSend, ha]
        refine pinv_of_eq _ _ (pipeSend_pinv V { s with wrReady := true, wmq := rest } p m
          (pinv_of_eq s _ h rfl rfl (fun h => h)) hcur) ?_ ?_ ?_ <;> simp [pipeSend, modPipe, wmqPutUnchecked]

theorem closePipe_pinv (s : State) (p : Nat) (h : PInv s) : PInv (closePipe s p).1 := by
  unfold closePipe
  cases hg : getPipe s p with
  | none => exact h
  | some pp0 =>
    by_cases hcl : pp0.closed = true
    · simp [hcl]; exact h
    · simp only [hcl, Bool.false_eq_true, ↓reduceIte]
      obtain ⟨p1, p2, p3, p4, p5, p6⟩ := h
      unfold pipeStop
      by_cases hc : s.cur = some p
      · -- the attached pipe goes away
        simp only [modPipe, hc, bne_self_eq_false, Bool.false_eq_true, if_false]
        constructor
        · intro pp hm hcp
          simp only [List.mem_map] at hm
          obtain ⟨q, hq, rfl⟩ := hm
          by_cases hid : q.id = p
          · simp [hid]
          · simp [hid] at hcp ⊢; exact p1 q hq hcp
        · intro pp hm hcp
          simp only [List.mem_map] at hm
          obtain ⟨q, hq, rfl⟩ := hm
          by_cases hid : q.id = p
          · simp [hid] at hcp
          · simp [hid] at hcp
            have := p2 q hq hcp
            rw [hc] at this
            exact absurd (Option.some.inj this).symm hid
        · intro pp _ _; simp
        · intro hr; simp at hr
        · intro pp hm
          simp only [List.mem_map] at hm
          obtain ⟨q, hq, rfl⟩ := hm
          simp only [List.length_map]
          by_cases hid : q.id = p
          · simp [hid]; exact hid ▸ p5 q hq
          · simp [hid]; exact p5 q hq
        · intro q hq; simp at hq
      · have hne : (s.cur != some p) = true := by simpa using hc
        simp only [modPipe, hne, ↓reduceIte]
        constructor
        · intro pp hm hcp
          simp only [List.mem_map] at hm
          obtain ⟨q, hq, rfl⟩ := hm
          by_cases hid : q.id = p
          · simp [hid]
          · simp [hid] at hcp ⊢; exact p1 q hq hcp
        · intro pp hm hcp
          simp only [List.mem_map] at hm
          obtain ⟨q, hq, rfl⟩ := hm
          by_cases hid : q.id = p
          · simp [hid] at hcp
          · simp [hid] at hcp ⊢; exact p2 q hq hcp
        · intro pp hm hcp
          simp only [List.mem_map] at hm
          obtain ⟨q, hq, rfl⟩ := hm
          by_cases hid : q.id = p
          · simp [hid]; exact hc
          · simp [hid] at hcp ⊢; exact p3 q hq hcp
        · intro hr pp hm
          simp only [List.mem_map] at hm
          obtain ⟨q, hq, rfl⟩ := hm
          by_cases hid : q.id = p
          · simp [hid]
          · simp [hid]; exact p4 hr q hq
        · intro pp hm
          simp only [List.mem_map] at hm
          obtain ⟨q, hq, rfl⟩ := hm
          simp only [List.length_map]
          by_cases hid : q.id = p
          · simp [hid]; exact hid ▸ p5 q hq
          · simp [hid]; exact p5 q hq
        · intro q hq; simp only [List.length_map]; exact p6 q hq

theorem failParked_pinv (s : State) (a rv : Nat) (h : PInv s) : PInv (failParked s a rv).1 := by
  unfold failParked
  cases hf : s.waq.find? (·.aio == a) with
  | some pk => exact pinv_of_eq s _ h rfl rfl (fun h => h)
  | none =>
    by_cases hr : (s.raq.any (·.aio == a)) = true
    · rw [if_pos hr]; exact pinv_of_eq s _ h rfl rfl (fun h => h)
    · rw [if_neg hr]; exact h

theorem failMany_pinv (as : List Nat) (rv : Nat) (s : State) (o : List Out) (h : PInv s) :
    PInv (as.foldl (fun (acc : State × List Out) a =>
      let (s', o) := failParked acc.1 a rv
      (s', acc.2 ++ o)) (s, o)).1 := by
  induction as generalizing s o with
  | nil => exact h
  | cons a rest ih =>
    simp only [List.foldl]
    exact ih _ _ (failParked_pinv s a rv h)

theorem expire_pinv (s : State) (h : PInv s) : PInv (expire s).1 := by
  unfold expire failMany
  exact failMany_pinv _ _ _ _ h

/-- arming the attached pipe `p` while no message is held -/
theorem arm_pinv (s : State) (p : Nat) (h : PInv s) (hc : s.cur = some p) (hd : s.rdReady = false) :
    PInv (modPipe s p fun pp => { pp with armed := true }) := by
  refine modPipe_pinv s p (fun pp => { pp with armed := true }) h (fun _ => rfl) (fun _ => rfl) ?_ ?_
  · intro q hq hqp hcl
    exact absurd (hqp ▸ hc) (h.curOpen q hq hcl)
  · intro hr; rw [hd] at hr; exact absurd hr (by simp)

theorem recvCbLocked_pinv (s : State) (p : Nat) (gm : GMsg) (h : PInv s) (hi : Inv s) (hd : s.rdReady = false)
    (hun : ∀ pp ∈ s.pipes, pp.id = p → pp.armed = false) : PInv (recvCbLocked s p gm).1 := by
  unfold recvCbLocked
  by_cases hcp : (s.cur != some p) = true
  · rw [if_pos hcp]; exact pinv_of_eq s _ h rfl rfl (fun h => h)
  · rw [if_neg hcp]
    have hcur : s.cur = some p := by simpa using hcp
    cases hr : s.raq with
    | cons a rest =>
      simp only
      exact arm_pinv { s with raq := rest, delivered := s.delivered ++ [gm] } p (pinv_of_eq s _ h rfl rfl (fun h => h)) hcur hd
    | nil =>
      by_cases hf : (!rmqFull s) = true
      · simp only [hf, if_true]
        exact pinv_of_eq _ _ (arm_pinv { s with rmq := s.rmq ++ [gm] } p (pinv_of_eq s _ h rfl rfl (fun h => h)) hcur hd)
          (by simp [modPipe]) (by simp [modPipe]) (by simp [modPipe])
      · simp only [hf]
        obtain ⟨p1, p2, p3, p4, p5, p6⟩ := h
        refine ⟨p1, p2, p3, ?_, p5, p6⟩
        intro _ pp hm
        by_cases hcl : pp.closed = true
        · exact (p1 pp hm hcl).2
        · have := p2 pp hm (by simpa using hcl)
          rw [hcur] at this
          exact hun pp hm (Option.some.inj this).symm

theorem recvCb_pinv (V : Variant) (s : State) (p : Nat) (b : Bytes) (h : PInv s) (hi : Inv s) (hd : s.rdReady = false)
    (hun : ∀ pp ∈ s.pipes, pp.id = p → pp.armed = false) (hc : s.cur = some p) : PInv (recvCb V s p b).1 := by
  unfold recvCb
  cases V.rxDecide s.ttl b with
  | close =>
    simp only
    exact closePipe_pinv _ _ (pinv_of_eq s _ h rfl rfl (fun h => h))
  | drop =>
    simp only
    exact arm_pinv { s with hopDropped := s.hopDropped + 1 } p (pinv_of_eq s _ h rfl rfl (fun h => h)) hc hd
  | deliver m =>
    simp only
    apply recvCbLocked_pinv
    · exact pinv_of_eq s _ h rfl rfl (fun h => h)
    · obtain ⟨h1, h2, h3, h4, h5, h6, h7, h8, h9, h10⟩ := hi; inv_auto
    · exact hd
    · exact hun

theorem sockSendLocked_pinv (V : Variant) (s : State) (a : Nat) (gm : GMsg) (mode : Mode) (h : PInv s) :
    PInv (sockSendLocked V s a gm mode).1 := by
  unfold sockSendLocked
  by_cases hw : s.wrReady = true
  · rw [if_pos hw]
    cases hc : s.cur with
    | none => simp only; exact pinv_of_eq s _ h rfl (by simp [hc]) (fun h => h)
    | some p =>
      simp only
      exact pipeSend_pinv V _ p gm (pinv_of_eq s _ h rfl (by simp [hc]) (fun h => h)) rfl
  · rw [if_neg hw]
    by_cases hl : s.wmq.length < s.wmqCap
    · rw [if_pos hl]; exact pinv_of_eq s _ h rfl rfl (fun h => h)
    · rw [if_neg hl]
      unfold parkSend
      cases mode with
      | nb => exact pinv_of_eq s _ h rfl rfl (fun h => h)
      | inf => exact pinv_of_eq s _ h rfl rfl (fun h => h)
      | dflt => exact pinv_of_eq s _ h rfl rfl (fun h => h)
      | ms n =>
        cases n with
        | zero => exact pinv_of_eq s _ h rfl rfl (fun h => h)
        | succ k => exact pinv_of_eq s _ h rfl rfl (fun h => h)

theorem sockSend_pinv (V : Variant) (s : State) (a : Nat) (m : WMsg) (mode : Mode) (h : PInv s) :
    PInv (sockSend V s a m mode).1 := by
  unfold sockSend
  cases V.txPrep s.raw m with
  | error e => exact pinv_of_eq s _ h rfl rfl (fun h => h)
  | ok m' =>
    simp only
    exact sockSendLocked_pinv V _ a _ mode (pinv_of_eq s _ h rfl rfl (fun h => h))

theorem sockRecv_pinv (s : State) (a : Nat) (mode : Mode) (h : PInv s) (hi : Inv s) : PInv (sockRecv s a mode).1 := by
  have h6 := hi.heldRd
  have h7 := hi.rdCur
  unfold sockRecv
  cases hq : s.rmq with
  | cons m rest =>
    by_cases hrd : s.rdReady = true
    · obtain ⟨p, gm, ht, hcp, hhp⟩ := takeHeld_of { s with rmq := rest, delivered := s.delivered ++ [m] }
        (h7 hrd) (by rw [← h6]; exact hrd)
      have hcp' : s.cur = some p := hcp
      have hhp' : s.held = some gm := hhp
      simp only [hrd, if_true, takeHeld, hcp', hhp']
      refine pinv_of_eq _ _ (arm_pinv (rmqPutUnchecked { s with rmq := rest, delivered := s.delivered ++ [m], rdReady := false, held := none } gm) p
        (pinv_of_eq s _ h rfl rfl (by simp [rmqPutUnchecked])) hcp (by simp [rmqPutUnchecked]))
        (by simp [modPipe, rmqPutUnchecked]) (by simp [modPipe, rmqPutUnchecked, hcp']) (by simp [modPipe, rmqPutUnchecked])
    · simp only [hrd]
      exact pinv_of_eq s _ h rfl rfl (fun h => by simpa using h)
  | nil =>
    by_cases hrd : s.rdReady = true
    · obtain ⟨p, gm, ht, hcp, hhp⟩ := takeHeld_of s (h7 hrd) (by rw [← h6]; exact hrd)
      simp only [hrd, if_true, takeHeld, hcp, hhp]
      refine pinv_of_eq _ _ (arm_pinv { s with rdReady := false, held := none, delivered := s.delivered ++ [gm] } p
        (pinv_of_eq s _ h rfl rfl (by simp)) hcp rfl)
        (by simp [modPipe]) (by simp [modPipe, hcp]) (by simp [modPipe])
    · simp only [hrd, Bool.false_eq_true, ↓reduceIte]
      cases mode with
      | nb => exact h
      | inf => exact pinv_of_eq s _ h rfl rfl (fun h => by simpa using h)
      | dflt => exact pinv_of_eq s _ h rfl rfl (fun h => by simpa using h)
      | ms n =>
        cases n with
        | zero => exact h
        | succ k => exact pinv_of_eq s _ h rfl rfl (fun h => by simpa using h)

theorem closeAll_pinv (ps : List Pipe) (s : State) (o : List Out) (h : PInv s) :
    PInv (ps.foldl (fun (acc : State × List Out) (pp : Pipe) =>
      let (s', o) := closePipe acc.1 pp.id
      (s', acc.2 ++ o)) (s, o)).1 := by
  induction ps generalizing s o with
  | nil => exact h
  | cons a rest ih =>
    simp only [List.foldl]
    exact ih _ _ (closePipe_pinv s a.id h)

theorem sendSched_frame (V : Variant) (s : State) (p : Nat) :
    (sendSched V s p).1.cur = s.cur ∧ (sendSched V s p).1.rdReady = s.rdReady := by
  unfold sendSched
  by_cases hc : (s.cur != some p) = true
  · rw [if_pos hc]; exact ⟨rfl, rfl⟩
  · rw [if_neg hc]
    unfold sendSchedBody
    cases hq : s.wmq <;> cases ha : s.waq <;> simp [pipeSend, modPipe, wmqPutUnchecked]

/-- the new pipe of a `pipe_add` event (index = number of pipes so far) -/
def withNewPipe (s : State) : State := { s with pipes := s.pipes ++ [{ id := s.pipes.length }] }

theorem refuse_pipes (s : State) (h : PInv s) :
    (modPipe (withNewPipe s) s.pipes.length fun pp => { pp with closed := true }).pipes =
      s.pipes ++ [{ id := s.pipes.length, closed := true }] := by
  simp only [modPipe, withNewPipe, List.map_append, List.map_cons, List.map_nil, beq_self_eq_true, if_true]
  congr 1
  have hm : List.map (fun q : Pipe => if (q.id == s.pipes.length) = true then { q with closed := true } else q) s.pipes
      = List.map id s.pipes := by
    apply List.map_congr_left
    intro q hq
    have := h.idsLt q hq
    have hne : (q.id == s.pipes.length) = false := by simp; omega
    simp [hne]
  rw [hm, List.map_id]

theorem refuse_pinv (s : State) (h : PInv s) :
    PInv (modPipe (withNewPipe s) s.pipes.length fun pp => { pp with closed := true }) := by
  have hp := refuse_pipes s h
  obtain ⟨p1, p2, p3, p4, p5, p6⟩ := h
  constructor
  · intro pp hm hc
    rw [hp] at hm
    rcases List.mem_append.mp hm with hm | hm
    · exact p1 pp hm hc
    · simp at hm; subst hm; simp
  · intro pp hm hc
    rw [hp] at hm
    rcases List.mem_append.mp hm with hm | hm
    · simpa [modPipe, withNewPipe] using p2 pp hm hc
    · simp at hm; subst hm; simp at hc
  · intro pp hm hc
    rw [hp] at hm
    rcases List.mem_append.mp hm with hm | hm
    · simpa [modPipe, withNewPipe] using p3 pp hm hc
    · simp at hm; subst hm
      intro he
      have := p6 s.pipes.length (by simpa [modPipe, withNewPipe] using he)
      omega
  · intro hr pp hm
    rw [hp] at hm
    have hr' : s.rdReady = true := by simpa [modPipe, withNewPipe] using hr
    rcases List.mem_append.mp hm with hm | hm
    · exact p4 hr' pp hm
    · simp at hm; subst hm; simp
  · intro pp hm
    rw [hp] at hm ⊢
    simp only [List.length_append, List.length_cons, List.length_nil]
    rcases List.mem_append.mp hm with hm | hm
    · have := p5 pp hm; omega
    · simp at hm; subst hm; simp
  · intro q hq
    rw [hp]
    simp only [List.length_append, List.length_cons, List.length_nil]
    have := p6 q (by simpa [modPipe, withNewPipe] using hq); omega

theorem accept_pinv (s : State) (h : PInv s) (hc : s.cur = none) :
    PInv { withNewPipe s with cur := some s.pipes.length, rdReady := false } := by
  obtain ⟨p1, p2, p3, p4, p5, p6⟩ := h
  have hall : ∀ pp ∈ s.pipes, pp.closed = true := by
    intro pp hm
    cases hcl : pp.closed with
    | true => rfl
    | false => have := p2 pp hm hcl; rw [hc] at this; exact absurd this (by simp)
  constructor
  · intro pp hm hcl
    simp only [withNewPipe] at hm
    rcases List.mem_append.mp hm with hm | hm
    · exact p1 pp hm hcl
    · simp at hm; subst hm; simp
  · intro pp hm hcl
    simp only [withNewPipe] at hm
    rcases List.mem_append.mp hm with hm | hm
    · rw [hall pp hm] at hcl; exact absurd hcl (by simp)
    · simp at hm; subst hm; rfl
  · intro pp hm hcl
    simp only [withNewPipe] at hm
    rcases List.mem_append.mp hm with hm | hm
    · have := p5 pp hm
      intro he
      have : s.pipes.length = pp.id := by simpa using he
      omega
    · simp at hm; subst hm; simp at hcl
  · intro hr; simp at hr
  · intro pp hm
    simp only [withNewPipe] at hm ⊢
    simp only [List.length_append, List.length_cons, List.length_nil]
    rcases List.mem_append.mp hm with hm | hm
    · have := p5 pp hm; omega
    · simp at hm; subst hm; simp
  · intro q hq
    simp only [withNewPipe, List.length_append, List.length_cons, List.length_nil]
    have : s.pipes.length = q := by simpa using hq
    omega

theorem pipeAdd_pinv (V : Variant) (s : State) (peer : Nat) (h : PInv s) :
    PInv (pipeStart V (withNewPipe s) s.pipes.length peer).1 := by
  unfold pipeStart
  by_cases hp : (peer != V.peer) = true
  · rw [if_pos hp]; exact refuse_pinv s h
  · rw [if_neg hp]
    by_cases hc : (withNewPipe s).cur.isSome = true
    · rw [if_pos hc]; exact refuse_pinv s h
    · rw [if_neg hc]
      have hcn : s.cur = none := by
        cases hx : s.cur with
        | none => rfl
        | some q => simp [withNewPipe, hx] at hc
      simp only
      have h1 := accept_pinv s h hcn
      have h2 := sendSched_pinv V _ s.pipes.length h1
      have hf := sendSched_frame V { withNewPipe s with cur := some s.pipes.length, rdReady := false } s.pipes.length
      exact arm_pinv _ _ h2 (by rw [hf.1]) (by rw [hf.2])

end Nng.Pair0
