/-
  RESPONDENT receive pollable: in every reachable state it is raised exactly when a survey is
  waiting in some pipe, i.e. exactly when a non-blocking receive would succeed (S7).
-/
import NngModel.Proofs.SurveyResp
namespace Nng.Respond
open Nng Nng.Proto

def Rd (s : State) : Prop := s.readable = true ↔ s.recvpipes ≠ []

theorem rd_same {s s' : State} (h : Rd s) (h1 : s'.readable = s.readable) (h2 : s'.recvpipes = s.recvpipes) : Rd s' := by
  unfold Rd; rw [h1, h2]; exact h

theorem setCtx_rd {s : State} (c : Ctx) (h : Rd s) : Rd (setCtx s c) := rd_same h rfl rfl
theorem setPipe_rd {s : State} (pp : Pipe) (h : Rd s) : Rd (setPipe s pp) := rd_same h rfl rfl
theorem raiseWritableIf_rd {s : State} (b : Bool) (h : Rd s) : Rd (raiseWritableIf s b) := by
  unfold raiseWritableIf; split <;> exact h
theorem setWritableFor_rd {s : State} (k : Option Nat) (b : Bool) (h : Rd s) : Rd (setWritableFor s k b) := by
  unfold setWritableFor; split <;> exact h
theorem handOver_rd {s : State} (pp : Pipe) (w : Wire) (h : Rd s) : Rd (handOver s pp w) := by
  unfold handOver
  simp only
  apply rd_same h
  · split <;> rfl
  · split <;> rfl

theorem dropRecvPipe_rd {s : State} (p : Nat) (h : Rd s) : Rd (dropRecvPipe s p) := by
  unfold dropRecvPipe
  split
  · rename_i hc
    unfold Rd
    simp only
    have hne : s.recvpipes ≠ [] := by
      intro he; rw [he] at hc; simp at hc
    have hr : s.readable = true := h.mpr hne
    cases hf : (s.recvpipes.filter (· != p)).isEmpty
    · simp only [Bool.false_eq_true, if_false, hr, true_iff]
      intro he; rw [he] at hf; simp at hf
    · simp only [if_true, Bool.false_eq_true, false_iff, ne_eq, Decidable.not_not]
      exact List.isEmpty_iff.mp hf
  · exact h

theorem closePipe_rd {s : State} (p : Nat) (h : Rd s) : Rd (closePipe s p).1 := by
  unfold closePipe
  split
  · exact h
  · split
    · exact h
    · simp only
      have h1 := dropRecvPipe_rd p h
      generalize dropRecvPipe s p = s1 at h1 ⊢
      apply rd_same h1
      · simp only [setPipe, raiseWritableIf]; split <;> rfl
      · simp only [setPipe, raiseWritableIf]; split <;> rfl

theorem pipeRecv_rd {s : State} (pp : Pipe) (wm : WMsg) (h : Rd s) : Rd (pipeRecv s pp wm).1 := by
  unfold pipeRecv
  split
  · unfold Rd; simp [setPipe]
  · split
    · exact h
    · split
      · exact h
      · simp only
        apply setWritableFor_rd
        apply setCtx_rd
        rename_i k rest hq _ _ _ _ _ _
        -- somebody is waiting, so no pipe holds a survey … unless both lists were non-empty
        unfold Rd at h ⊢
        simp only
        exact h

theorem ctxRecv_rd {s : State} (c : Ctx) (a : Nat) (mode : Mode) (h : Rd s) : Rd (ctxRecv s c a mode).1 := by
  unfold ctxRecv
  split
  · split
    · exact h
    · split
      · exact h
      · simp only
        exact rd_same h rfl rfl
  · rename_i p rest hrp
    split
    · exact h
    · split
      · exact h
      · simp only
        apply setWritableFor_rd
        apply setCtx_rd
        apply setPipe_rd
        unfold Rd
        cases hre : rest.isEmpty
        · simp only [Bool.false_eq_true, if_false]
          have hr : s.readable = true := h.mpr (by simp [hrp])
          simp only [hr, true_iff]
          intro he; rw [he] at hre; simp at hre
        · simp only [if_true, Bool.false_eq_true, false_iff, ne_eq, Decidable.not_not]
          exact List.isEmpty_iff.mp hre

theorem ctxSend_rd {s : State} (c : Ctx) (a : Nat) (m : WMsg) (mode : Mode) (h : Rd s) : Rd (ctxSend s c a m mode).1 := by
  unfold ctxSend
  simp only
  have h0 : Rd (if c.key == none then { s with writable := false } else s) := by
    split <;> exact h
  generalize (if c.key == none then { s with writable := false } else s) = s0 at h0 ⊢
  split
  · exact h0
  · split
    · exact h0
    · split
      · exact h0
      · split
        · exact setCtx_rd _ h0
        · split
          · exact handOver_rd _ _ (setCtx_rd _ h0)
          · exact setPipe_rd _ (setCtx_rd _ (setCtx_rd _ h0))

theorem pipeSent_rd {s : State} (pp : Pipe) (h : Rd s) : Rd (pipeSent s pp).1 := by
  unfold pipeSent
  split
  · exact raiseWritableIf_rd _ (setPipe_rd _ h)
  · split
    · exact h
    · split
      · exact h
      · simp only
        exact rd_same h rfl rfl

theorem cancelAio_rd {s : State} (a rv : Nat) (h : Rd s) : Rd (cancelAio s a rv).1 := by
  unfold cancelAio
  split
  · exact rd_same h rfl rfl
  · split
    · exact rd_same h rfl rfl
    · exact h

theorem foldl_rd {α : Type} (f : State → α → State × List Out) (hf : ∀ s x, Rd s → Rd (f s x).1)
    (xs : List α) (acc : State × List Out) (h : Rd acc.1) :
    Rd (xs.foldl (fun (acc : State × List Out) x => ((f acc.1 x).1, acc.2 ++ (f acc.1 x).2)) acc).1 := by
  induction xs generalizing acc with
  | nil => exact h
  | cons x rest ih => simp only [List.foldl_cons]; exact ih _ (hf _ _ h)

theorem expire_rd {s : State} (h : Rd s) : Rd (expire s).1 := by
  unfold expire
  exact foldl_rd (fun s a => cancelAio s a Err.etimedout) (fun s a h => cancelAio_rd a _ h) _ (s, []) h

theorem closeCtx_rd {s : State} (c : Ctx) (h : Rd s) : Rd (closeCtx s c).1 := by
  unfold closeCtx
  simp only
  apply setCtx_rd
  apply rd_same h
  · split <;> split <;> rfl
  · split <;> split <;> rfl

theorem closeCtxs_rd {s : State} (sel : Ctx → Bool) (h : Rd s) : Rd (closeCtxs s sel).1 := by
  unfold closeCtxs
  generalize s.ctxs = xs
  have : ∀ (acc : State × List Out), Rd acc.1 →
      Rd (xs.foldl (fun (acc : State × List Out) c =>
        if sel c = true then
          match getCtx acc.1 c.key with
          | some c' => ((closeCtx acc.1 c').1, acc.2 ++ (closeCtx acc.1 c').2)
          | none => acc
        else acc) acc).1 := by
    induction xs with
    | nil => intro acc h; exact h
    | cons x rest ih =>
      intro acc h
      simp only [List.foldl_cons]
      apply ih
      split
      · split
        · exact closeCtx_rd _ h
        · exact h
      · exact h
  exact this (s, []) h

theorem closeAll_rd {s : State} (h : Rd s) : Rd (closeAll s).1 := by
  unfold closeAll
  apply rd_same (s := (closeCtxs (closePipes (closeCtxs s _).1).1 _).1) _ rfl rfl
  apply closeCtxs_rd
  unfold closePipes
  exact foldl_rd (fun s (pp : Pipe) => closePipe s pp.id) (fun s pp h => closePipe_rd pp.id h) _ _ (closeCtxs_rd _ h)

theorem step_rd (s : State) (ev : Ev) (h : Rd s) : Rd (step s ev).1 := by
  unfold step
  split
  · cases ev <;> exact h
  · split
    · cases ev <;> exact h
    · cases ev with
      | openSock _ _ => exact h
      | pipeAdd peer => simp only; split <;> exact h
      | pipeDrop p =>
        simp only
        split
        · split
          · exact h
          · exact closePipe_rd p h
        · exact h
      | sendDone p rv =>
        simp only
        split
        · split
          · exact h
          · split
            · exact closePipe_rd p h
            · exact pipeSent_rd _ h
        · exact h
      | recvDone p r =>
        simp only
        split
        · split
          · exact h
          · split
            · exact closePipe_rd p h
            · split
              · exact h
              · exact closePipe_rd p h
              · exact pipeRecv_rd _ _ h
        · exact h
      | send k a m mode =>
        simp only
        split
        · exact h
        · split
          · exact h
          · exact ctxSend_rd _ a m mode h
      | recv k a mode =>
        simp only
        split
        · exact h
        · split
          · exact h
          · exact ctxRecv_rd _ a mode h
      | cancel a => exact cancelAio_rd a _ h
      | abort a rv => exact cancelAio_rd a rv h
      | advance ms => exact expire_rd (s := { s with now := s.now + ms }) h
      | ctxOpen k =>
        simp only
        split
        · exact h
        · split <;> exact h
      | ctxClose k =>
        simp only
        split
        · exact h
        · exact rd_same (closeCtx_rd _ h) rfl rfl
      | setopt k name ty v =>
        simp only
        split
        · split <;> exact h
        · exact h
      | getopt k name ty => simp only; split <;> exact h
      | poll => exact h
      | sub _ _ => exact h
      | unsub _ _ => exact h
      | close => exact closeAll_rd h

theorem run_rd (s : State) (evs : List Ev) (h : Rd s) : Rd (run s evs).1 := by
  induction evs generalizing s with
  | nil => exact h
  | cons e es ih => simp only [run]; exact ih _ (step_rd s e h)

theorem rd_init : Rd ({} : State) := by unfold Rd; simp

/-- with a survey waiting in some pipe a receive succeeds at once, whatever its mode; with
    none a zero-timeout receive gives up -/
theorem recv_succeeds_iff (s : State) (c : Ctx) (a : Nat) (p : Nat) (rest : List Nat) (pp : Pipe) (wm : WMsg)
    (mode : Mode) (h1 : s.recvpipes = p :: rest) (h2 : getPipe s p = some pp) (h3 : pp.held = some wm) :
    Out.done a 0 (some ⟨[], wm.body⟩) false ∈ (ctxRecv s c a mode).2 := by
  unfold ctxRecv
  simp [h1, h2, h3]

theorem recv_empty_gives_up (s : State) (c : Ctx) (a : Nat) (h : s.recvpipes = []) :
    (ctxRecv s c a .nb).2 = [Out.done a Err.eagain none false] := by
  unfold ctxRecv
  simp [h, zeroRv]

end Nng.Respond
