/-
  Lemmas about the abstract message queue (Model/RawMq.lean) as the raw SURVEYOR / RESPONDENT
  models (Model/RawSurv.lean) use it.
-/
import NngModel.Model.RawSurv
namespace Nng.RawSurv
open Nng Nng.Proto Nng.RawMq

/-- what the queue owes its readers, oldest first: stored messages, then those of parked writers -/
def pending (q : Mq) : List WMsg := q.items ++ q.putq.map (·.msg)

theorem runPutq_zero (q : Mq) : runPutq 0 q = (q, []) := rfl
theorem runGetq_zero (q : Mq) : runGetq 0 q = (q, []) := rfl

theorem runPutq_nil (n : Nat) (q : Mq) (h : q.putq = []) : runPutq n q = (q, []) := by
  cases n with
  | zero => rfl
  | succ n => simp [runPutq, h]

theorem runPutq_full (n : Nat) (q : Mq) (hg : q.getq = []) (h : ¬ q.items.length < q.cap) : runPutq n q = (q, []) := by
  cases n with
  | zero => rfl
  | succ n =>
    cases hp : q.putq with
    | nil => simp [runPutq, hp]
    | cons w ws => simp [runPutq, hp, hg, h]

theorem runPutq_room (n : Nat) (q : Mq) (w : Put) (ws : List Put) (hp : q.putq = w :: ws) (hg : q.getq = [])
    (h : q.items.length < q.cap) :
    runPutq (n + 1) q = ((runPutq n { q with putq := ws, items := q.items ++ [w.msg] }).1,
                          .queued w :: (runPutq n { q with putq := ws, items := q.items ++ [w.msg] }).2) := by
  simp [runPutq, hp, hg, h]

theorem runPutq_reader (n : Nat) (q : Mq) (w : Put) (ws : List Put) (r : Get) (rs : List Get) (hp : q.putq = w :: ws)
    (hg : q.getq = r :: rs) :
    runPutq (n + 1) q = ((runPutq n { q with putq := ws, getq := rs }).1,
                          .handed w r :: (runPutq n { q with putq := ws, getq := rs }).2) := by
  simp [runPutq, hp, hg]

/-- with no reader waiting, running the writers moves messages from the head of the writers' list
    to the tail of the store: the owed sequence is unchanged, every event is `queued` -/
theorem runPutq_noreader : ∀ (n : Nat) (q : Mq), q.getq = [] →
    (runPutq n q).1.getq = [] ∧ pending (runPutq n q).1 = pending q ∧ (runPutq n q).1.cap = q.cap ∧
    (runPutq n q).1.closed = q.closed ∧ (q.items.length ≤ q.cap → (runPutq n q).1.items.length ≤ q.cap) ∧
    (∀ e ∈ (runPutq n q).2, ∃ w, e = .queued w) := by
  intro n
  induction n with
  | zero => intro q hg; simp [runPutq_zero, hg]
  | succ n ih =>
    intro q hg
    cases hp : q.putq with
    | nil => rw [runPutq_nil _ _ hp]; simp [hg]
    | cons w ws =>
      by_cases h : q.items.length < q.cap
      · rw [runPutq_room n q w ws hp hg h]
        have := ih { q with putq := ws, items := q.items ++ [w.msg] } hg
        obtain ⟨a, b, c, d, e, f⟩ := this
        refine ⟨a, ?_, c, d, ?_, ?_⟩
        · rw [b]; simp [pending, hp]
        · intro _; apply e; simp; omega
        · intro e' he'
          simp only [List.mem_cons] at he'
          rcases he' with rfl | he'
          · exact ⟨w, rfl⟩
          · exact f e' he'
      · rw [runPutq_full _ _ hg h]; simp [hg]

theorem runGetq_nil (n : Nat) (q : Mq) (h : q.getq = []) : runGetq n q = (q, []) := by
  cases n with
  | zero => rfl
  | succ n => simp [runGetq, h]

theorem runGetq_empty (n : Nat) (q : Mq) (hi : q.items = []) (hp : q.putq = []) : runGetq n q = (q, []) := by
  cases n with
  | zero => rfl
  | succ n =>
    cases hg : q.getq with
    | nil => simp [runGetq, hg]
    | cons r rs => simp [runGetq, hg, hi, hp]

/-- a reader arriving at a queue with no reader waiting -/
theorem aioGet_noreader (q : Mq) (r : Get) (hg : q.getq = []) :
    aioGet q r =
      match q.items with
      | m :: ms => ({ q with getq := [], items := ms }, [.got r m])
      | [] =>
        match q.putq with
        | w :: ws => ({ q with getq := [], putq := ws }, [.handed w r])
        | [] => ({ q with getq := [r] }, []) := by
  unfold aioGet
  simp only [hg, List.nil_append, List.length_cons, List.length_nil, Nat.zero_add]
  cases q.items with
  | cons m ms => simp [runGetq]
  | nil =>
    cases q.putq with
    | cons w ws => simp [runGetq]
    | nil => simp [runGetq]

/-- a reader arriving behind waiting readers at a queue that owes nothing just parks -/
theorem aioGet_behind (q : Mq) (r : Get) (hi : q.items = []) (hp : q.putq = []) :
    aioGet q r = ({ q with getq := q.getq ++ [r] }, []) := by
  unfold aioGet
  exact runGetq_empty _ _ hi hp

/-- a writer arriving at a queue with a reader waiting and nothing owed -/
theorem aioPut_reader (q : Mq) (w : Put) (r : Get) (rs : List Get) (hg : q.getq = r :: rs) (hp : q.putq = []) :
    aioPut q w = ({ q with putq := [], getq := rs }, [.handed w r]) := by
  unfold aioPut
  simp only [hp, List.nil_append, List.length_cons, List.length_nil, Nat.zero_add]
  simp [runPutq, hg]

theorem aioPut_noreader (q : Mq) (w : Put) (hg : q.getq = []) :
    (aioPut q w).1.getq = [] ∧ pending (aioPut q w).1 = pending q ++ [w.msg] ∧ (aioPut q w).1.cap = q.cap ∧
    (aioPut q w).1.closed = q.closed ∧ (q.items.length ≤ q.cap → (aioPut q w).1.items.length ≤ q.cap) ∧
    (∀ e ∈ (aioPut q w).2, ∃ w', e = .queued w') := by
  unfold aioPut
  have := runPutq_noreader ({ q with putq := q.putq ++ [w] } : Mq).putq.length { q with putq := q.putq ++ [w] } hg
  obtain ⟨a, b, c, d, e, f⟩ := this
  refine ⟨a, ?_, c, d, e, f⟩
  rw [b]; simp [pending]

end Nng.RawSurv
