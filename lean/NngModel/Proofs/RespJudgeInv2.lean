/-
  RESPONDENT model: every callback keeps `NInv` (Proofs/RespJudgeInv.lean); `run_ninv`.
-/
import NngModel.Proofs.RespJudgeInv
namespace Nng.Respond
open Nng Nng.Proto

/-! ### transfer lemmas -/

theorem ninv_setCtx {s : State} {c c' : Ctx} (h : NInv s) (_hc : c ∈ s.ctxs) (hk : c'.key = c.key)
    (hr : c'.raio ≠ none → c.key ∈ s.recvq)
    (hp : ∀ p, c'.pipeId = some p → ∃ pp, getPipe s p = some pp) : NInv (setCtx s c') := by
  refine ⟨?_, h.ids, ?_, h.excl, h.rp, h.rpnd, ?_⟩
  · rw [keys_setCtx]; exact h.keys
  · intro q hq hne
    rcases mem_setCtx' hq with rfl | ⟨hq, _⟩
    · rw [hk]; exact hr hne
    · exact h.rq q hq hne
  · intro q hq p hqp
    rcases mem_setCtx' hq with rfl | ⟨hq, _⟩
    · exact hp p hqp
    · exact h.pid q hq p hqp

/-- same key, same parked receive, same pending pipe -/
theorem ninv_setCtx_same {s : State} {c c' : Ctx} (h : NInv s) (hc : c ∈ s.ctxs) (hk : c'.key = c.key)
    (hr : c'.raio = c.raio ∨ c'.raio = none) (hp : c'.pipeId = c.pipeId ∨ c'.pipeId = none) : NInv (setCtx s c') := by
  apply ninv_setCtx h hc hk
  · intro hne
    rcases hr with hr | hr
    · rw [hr] at hne; exact h.rq c hc hne
    · exact absurd hr hne
  · intro p hpp
    rcases hp with hp | hp
    · rw [hp] at hpp; exact h.pid c hc p hpp
    · rw [hp] at hpp; cases hpp

theorem ninv_ctxs_map {s : State} (f : Ctx → Ctx) (h : NInv s) (hk : ∀ x, (f x).key = x.key)
    (hr : ∀ x, (f x).raio = x.raio) (hp : ∀ x, (f x).pipeId = x.pipeId) :
    NInv { s with ctxs := s.ctxs.map f } := by
  refine ⟨?_, h.ids, ?_, h.excl, h.rp, h.rpnd, ?_⟩
  · simp only [List.map_map]
    have : (fun x => (f x).key) = fun x => x.key := funext hk
    show (List.map ((fun x => x.key) ∘ f) s.ctxs).Nodup
    have e : ((fun (x : Ctx) => x.key) ∘ f) = fun x => x.key := funext hk
    rw [e]; exact h.keys
  · intro q hq hne
    simp only [List.mem_map] at hq
    obtain ⟨x, hx, rfl⟩ := hq
    rw [hk]; rw [hr] at hne; exact h.rq x hx hne
  · intro q hq p hqp
    simp only [List.mem_map] at hq
    obtain ⟨x, hx, rfl⟩ := hq
    rw [hp] at hqp; exact h.pid x hx p hqp

theorem ninv_pipes_map {s : State} (f : Pipe → Pipe) (h : NInv s) (hi : ∀ x, (f x).id = x.id)
    (ha : ∀ x, (f x).armed = x.armed) : NInv { s with pipes := s.pipes.map f } := by
  refine ⟨h.keys, ?_, h.rq, h.excl, ?_, h.rpnd, ?_⟩
  · intro q hq
    simp only [List.mem_map] at hq
    obtain ⟨x, hx, rfl⟩ := hq
    simp only [List.length_map]
    rw [hi]; exact h.ids x hx
  · intro p hp
    obtain ⟨x, hx, hxa⟩ := h.rp p hp
    exact ⟨f x, by rw [getPipe_map s f hi, hx]; rfl, by rw [ha]; exact hxa⟩
  · intro c hc p hp
    obtain ⟨x, hx⟩ := h.pid c hc p hp
    exact ⟨f x, by rw [getPipe_map s f hi, hx]; rfl⟩

theorem ninv_setPipe {s : State} {pp pp' : Pipe} (h : NInv s) (hg : getPipe s pp.id = some pp) (hi : pp'.id = pp.id)
    (ha : pp.id ∈ s.recvpipes → pp'.armed = false) : NInv (setPipe s pp') := by
  refine ⟨h.keys, ?_, h.rq, h.excl, ?_, h.rpnd, ?_⟩
  · intro q hq
    have hl : (setPipe s pp').pipes.length = s.pipes.length := by simp [setPipe]
    rw [hl]
    rcases mem_setPipe' hq with rfl | ⟨hq, _⟩
    · rw [hi]; exact h.ids pp (getPipe_mem hg)
    · exact h.ids q hq
  · intro p hp
    by_cases e : p = pp.id
    · subst e
      refine ⟨pp', ?_, ha hp⟩
      rw [getPipe_setPipe hg hi, if_pos rfl]
    · obtain ⟨x, hx, hxa⟩ := h.rp p hp
      exact ⟨x, by rw [getPipe_setPipe hg hi, if_neg e]; exact hx, hxa⟩
  · intro c hc p hp
    obtain ⟨x, hx⟩ := h.pid c hc p hp
    by_cases e : p = pp.id
    · subst e
      exact ⟨pp', by rw [getPipe_setPipe hg hi, if_pos rfl]⟩
    · exact ⟨x, by rw [getPipe_setPipe hg hi, if_neg e]; exact hx⟩

theorem ninv_setPipe_same {s : State} {pp pp' : Pipe} (h : NInv s) (hg : getPipe s pp.id = some pp) (hi : pp'.id = pp.id)
    (ha : pp'.armed = pp.armed) : NInv (setPipe s pp') := by
  apply ninv_setPipe h hg hi
  intro hm
  obtain ⟨x, hx, hxa⟩ := h.rp _ hm
  rw [hg] at hx
  injection hx with hx
  rw [ha, hx]; exact hxa

theorem dropRecvPipe_ninv {s : State} (p : Nat) (h : NInv s) : NInv (dropRecvPipe s p) := by
  unfold dropRecvPipe
  split
  · refine ⟨h.keys, h.ids, h.rq, ?_, ?_, ?_, h.pid⟩
    · intro hne
      have := h.excl hne
      simp only [this, List.filter_nil]
    · intro q hq
      exact h.rp q (List.mem_filter.1 hq).1
    · exact List.Sublist.nodup List.filter_sublist h.rpnd
  · exact h

theorem dropRecvPipe_recvpipes (s : State) (p : Nat) : (dropRecvPipe s p).recvpipes = s.recvpipes.filter (· != p) := by
  unfold dropRecvPipe
  split
  · rfl
  · rename_i hc
    symm
    rw [List.filter_eq_self]
    intro a ha
    simp only [bne_iff_ne, ne_eq]
    intro e; subst e
    exact hc (List.contains_iff_mem.2 ha)

@[simp] theorem dropRecvPipe_recvq (s : State) (p : Nat) : (dropRecvPipe s p).recvq = s.recvq := by
  unfold dropRecvPipe; split <;> rfl
@[simp] theorem raiseWritableIf_recvq (s : State) (b : Bool) : (raiseWritableIf s b).recvq = s.recvq := by
  unfold raiseWritableIf; split <;> rfl
@[simp] theorem raiseWritableIf_recvpipes (s : State) (b : Bool) : (raiseWritableIf s b).recvpipes = s.recvpipes := by
  unfold raiseWritableIf; split <;> rfl
@[simp] theorem setWritableFor_recvq (s : State) (k : Option Nat) (b : Bool) : (setWritableFor s k b).recvq = s.recvq := by
  unfold setWritableFor; split <;> rfl
@[simp] theorem setWritableFor_recvpipes (s : State) (k : Option Nat) (b : Bool) :
    (setWritableFor s k b).recvpipes = s.recvpipes := by
  unfold setWritableFor; split <;> rfl

@[simp] theorem setWritableFor_ttl (s : State) (k : Option Nat) (b : Bool) : (setWritableFor s k b).ttl = s.ttl := by
  unfold setWritableFor; split <;> rfl
@[simp] theorem setWritableFor_closed (s : State) (k : Option Nat) (b : Bool) : (setWritableFor s k b).closed = s.closed := by
  unfold setWritableFor; split <;> rfl
@[simp] theorem raiseWritableIf_ttl (s : State) (b : Bool) : (raiseWritableIf s b).ttl = s.ttl := by
  unfold raiseWritableIf; split <;> rfl
@[simp] theorem raiseWritableIf_closed (s : State) (b : Bool) : (raiseWritableIf s b).closed = s.closed := by
  unfold raiseWritableIf; split <;> rfl
@[simp] theorem dropRecvPipe_ttl (s : State) (p : Nat) : (dropRecvPipe s p).ttl = s.ttl := by
  unfold dropRecvPipe; split <;> rfl
@[simp] theorem dropRecvPipe_closed (s : State) (p : Nat) : (dropRecvPipe s p).closed = s.closed := by
  unfold dropRecvPipe; split <;> rfl
@[simp] theorem setCtx_ttl (s : State) (c : Ctx) : (setCtx s c).ttl = s.ttl := rfl
@[simp] theorem setCtx_closed (s : State) (c : Ctx) : (setCtx s c).closed = s.closed := rfl
@[simp] theorem setCtx_recvpipes (s : State) (c : Ctx) : (setCtx s c).recvpipes = s.recvpipes := rfl
@[simp] theorem setCtx_recvq (s : State) (c : Ctx) : (setCtx s c).recvq = s.recvq := rfl
@[simp] theorem setPipe_ttl (s : State) (pp : Pipe) : (setPipe s pp).ttl = s.ttl := rfl
@[simp] theorem setPipe_closed (s : State) (pp : Pipe) : (setPipe s pp).closed = s.closed := rfl
@[simp] theorem setPipe_recvpipes (s : State) (pp : Pipe) : (setPipe s pp).recvpipes = s.recvpipes := rfl
@[simp] theorem setPipe_recvq (s : State) (pp : Pipe) : (setPipe s pp).recvq = s.recvq := rfl

/-! ### the callbacks -/

theorem closePipe_ninv {s : State} (p : Nat) (h : NInv s) : NInv (closePipe s p).1 := by
  unfold closePipe
  split
  · exact h
  · rename_i pp hg
    split
    · exact h
    · simp only
      have hid := getPipe_id hg
      have h1 := dropRecvPipe_ninv p h
      have hr1 : p ∉ (dropRecvPipe s p).recvpipes := by
        rw [dropRecvPipe_recvpipes]; simp
      have hg1 : getPipe (dropRecvPipe s p) pp.id = some pp := by
        rw [hid]; unfold getPipe; rw [dropRecvPipe_pipes]; exact hg
      generalize dropRecvPipe s p = s1 at h1 hr1 hg1
      have h2 : NInv { s1 with ctxs := s1.ctxs.map fun c => if pp.sendq.contains c.key then { c with saio := none } else c } := by
        apply ninv_ctxs_map _ h1
        · intro x; split <;> rfl
        · intro x; split <;> rfl
        · intro x; split <;> rfl
      have hg2 : getPipe { s1 with ctxs := s1.ctxs.map fun c => if pp.sendq.contains c.key then { c with saio := none } else c } pp.id = some pp := hg1
      have hr2 : p ∉ ({ s1 with ctxs := s1.ctxs.map fun c => if pp.sendq.contains c.key then { c with saio := none } else c } : State).recvpipes := hr1
      generalize ({ s1 with ctxs := s1.ctxs.map fun c => if pp.sendq.contains c.key then { c with saio := none } else c } : State) = s2 at h2 hg2 hr2
      have h3 : NInv (raiseWritableIf s2 (sockPipeId s2 == some p)) := h2.of_eq (by simp) (by simp) (by simp) (by simp)
      have hg3 : getPipe (raiseWritableIf s2 (sockPipeId s2 == some p)) pp.id = some pp := by
        unfold getPipe; rw [raiseWritableIf_pipes]; exact hg2
      exact ninv_setPipe h3 hg3 rfl (fun _ => rfl)

theorem pipeSent_ninv {s : State} {p : Nat} {pp : Pipe} (h : NInv s) (hg : getPipe s p = some pp) :
    NInv (pipeSent s pp).1 := by
  have hid := getPipe_id hg
  have hg' : getPipe s pp.id = some pp := by rw [hid]; exact hg
  unfold pipeSent
  split
  · simp only
    exact (ninv_setPipe_same (pp' := { pp with busy := false }) h hg' rfl rfl).of_eq (by simp) (by simp) (by simp) (by simp)
  · rename_i k rest _
    split
    · exact h
    · rename_i c hgc
      split
      · exact h
      · simp only
        have h1 := ninv_setPipe_same (pp' := { pp with sendq := rest, busy := true }) h hg' rfl rfl
        have hc : c ∈ (setPipe s { pp with sendq := rest, busy := true }).ctxs := getCtx_mem hgc
        exact (ninv_setCtx_same (c' := { c with saio := none }) h1 hc rfl (Or.inl rfl) (Or.inl rfl)).of_eq rfl rfl rfl rfl

theorem pipeRecv_ninv {s : State} {p : Nat} {pp : Pipe} (wm : WMsg) (h : NInv s) (hg : getPipe s p = some pp)
    (ha : pp.armed = true) : NInv (pipeRecv s pp wm).1 := by
  have hid := getPipe_id hg
  have hg' : getPipe s pp.id = some pp := by rw [hid]; exact hg
  unfold pipeRecv
  split
  · rename_i hq
    simp only
    have hnot : pp.id ∉ s.recvpipes := by
      intro hm
      obtain ⟨x, hx, hxa⟩ := h.rp _ hm
      rw [hg'] at hx; injection hx with hx
      rw [← hx, ha] at hxa; cases hxa
    have h1 := ninv_setPipe (pp' := { pp with armed := false, held := some wm }) h hg' rfl (fun _ => rfl)
    refine ⟨h1.keys, h1.ids, ?_, ?_, ?_, ?_, h1.pid⟩
    · intro c hc hne
      have := h.rq c hc hne
      rw [hq] at this; cases this
    · intro hne
      exact absurd hq hne
    · intro q hq'
      simp only [List.mem_append, List.mem_singleton] at hq'
      rcases hq' with hq' | rfl
      · exact h1.rp q hq'
      · exact ⟨_, getPipe_setPipe_self (pp' := { pp with armed := false, held := some wm }) hg', rfl⟩
    · show (s.recvpipes ++ [pp.id]).Nodup
      rw [List.nodup_append]
      refine ⟨h.rpnd, by simp, ?_⟩
      intro a ha' b hb
      simp only [List.mem_singleton] at hb
      subst hb
      intro e; subst e
      exact hnot ha'
  · rename_i k rest hq
    split
    · exact h
    · rename_i c hgc
      split
      · exact h
      · simp only
        have hc : c ∈ s.ctxs := getCtx_mem hgc
        have hck := getCtx_key hgc
        have h1 : NInv (setCtx { s with recvq := rest } (takeSurvey { c with raio := none } pp.id wm)) := by
          refine ⟨?_, h.ids, ?_, ?_, h.rp, h.rpnd, ?_⟩
          · rw [keys_setCtx]; exact h.keys
          · intro q hq' hne
            rcases mem_setCtx' hq' with rfl | ⟨hq', hk⟩
            · exact absurd rfl hne
            · have := h.rq q hq' hne
              rw [hq] at this
              simp only [List.mem_cons] at this
              rcases this with e | e
              · exact absurd (e.trans hck.symm) hk
              · exact e
          · intro _
            exact h.excl (by rw [hq]; simp)
          · intro q hq' x hx
            rcases mem_setCtx' hq' with rfl | ⟨hq', _⟩
            · simp only [takeSurvey, Option.some.injEq] at hx
              subst hx
              exact ⟨pp, hg'⟩
            · exact h.pid q hq' x hx
        exact h1.of_eq (by simp) (by simp) (by simp) (by simp)

theorem handOver_ninv {s : State} {pp : Pipe} (w : Wire) (h : NInv s) (hg : getPipe s pp.id = some pp) :
    NInv (handOver s pp w) := by
  unfold handOver
  have h1 := ninv_setPipe_same (pp' := { pp with busy := true }) h hg rfl rfl
  simp only
  split
  · exact h1.of_eq rfl rfl rfl rfl
  · exact h1.of_eq rfl rfl rfl rfl

theorem ctxSend_ninv {s : State} {c : Ctx} (a : Nat) (m : WMsg) (mode : Mode) (h : NInv s) (hc : c ∈ s.ctxs) :
    NInv (ctxSend s c a m mode).1 := by
  unfold ctxSend
  simp only
  have h0 : NInv (if c.key == none then { s with writable := false } else s) := by
    split
    · exact h.of_eq rfl rfl rfl rfl
    · exact h
  have hc0 : c ∈ (if c.key == none then { s with writable := false } else s).ctxs := by
    split <;> exact hc
  generalize (if c.key == none then { s with writable := false } else s) = s0 at h0 hc0 ⊢
  split
  · exact h0
  · split
    · exact h0
    · split
      · exact h0
      · have h1 : NInv (setCtx s0 { c with btrace := [], pipeId := none }) :=
          ninv_setCtx_same h0 hc0 rfl (Or.inl rfl) (Or.inr rfl)
        split
        · exact h1
        · rename_i pp hl
          obtain ⟨_, hgp, _⟩ := livePipe_some hl
          split
          · exact handOver_ninv _ h1 hgp
          · have hc1 : ({ c with btrace := [], pipeId := none } : Ctx) ∈ (setCtx s0 { c with btrace := [], pipeId := none }).ctxs :=
              mem_setCtx_self hc0 rfl
            have h2 := ninv_setCtx_same (c' := { c with btrace := [], pipeId := none, saio := some ⟨a, ⟨c.btrace, m.body⟩, deadlineOf (setCtx s0 { c with btrace := [], pipeId := none }).now mode, pp.id, c.last⟩ })
              h1 hc1 rfl (Or.inl rfl) (Or.inl rfl)
            exact ninv_setPipe_same (pp' := { pp with sendq := pp.sendq ++ [c.key] }) h2 hgp rfl rfl

theorem ctxRecv_ninv {s : State} {c : Ctx} (a : Nat) (mode : Mode) (h : NInv s) (hc : c ∈ s.ctxs) :
    NInv (ctxRecv s c a mode).1 := by
  unfold ctxRecv
  split
  · rename_i hrp
    split
    · exact h
    · split
      · exact h
      · simp only
        refine ⟨?_, h.ids, ?_, ?_, ?_, ?_, ?_⟩
        · rw [keys_setCtx]; exact h.keys
        · intro q hq hne
          show q.key ∈ s.recvq ++ [c.key]
          rcases mem_setCtx' hq with rfl | ⟨hq, _⟩
          · simp
          · exact List.mem_append_left _ (h.rq q hq hne)
        · intro _; exact hrp
        · show ∀ p ∈ s.recvpipes, _
          rw [hrp]; intro p hp; cases hp
        · show s.recvpipes.Nodup
          exact h.rpnd
        · intro q hq x hx
          rcases mem_setCtx' hq with rfl | ⟨hq, _⟩
          · exact h.pid c hc x hx
          · exact h.pid q hq x hx
  · rename_i p rest hrp
    split
    · exact h
    · rename_i pp hg
      split
      · exact h
      · rename_i wm hheld
        simp only
        have hid := getPipe_id hg
        have hnd : p ∉ rest ∧ rest.Nodup := by
          have := h.rpnd; rw [hrp] at this; exact List.nodup_cons.1 this
        have h1 : NInv { s with recvpipes := rest } := by
          refine ⟨h.keys, h.ids, h.rq, ?_, ?_, hnd.2, h.pid⟩
          · intro hne; have := h.excl hne; rw [hrp] at this; cases this
          · intro q hq; exact h.rp q (by rw [hrp]; exact List.mem_cons_of_mem _ hq)
        have h2 : NInv (if rest.isEmpty then { ({ s with recvpipes := rest } : State) with readable := false } else { s with recvpipes := rest }) := by
          split
          · exact h1.of_eq rfl rfl rfl rfl
          · exact h1
        have hg2 : getPipe (if rest.isEmpty then { ({ s with recvpipes := rest } : State) with readable := false } else { s with recvpipes := rest }) pp.id = some pp := by
          rw [hid]; split <;> exact hg
        have hr2 : (if rest.isEmpty then { ({ s with recvpipes := rest } : State) with readable := false } else { s with recvpipes := rest }).recvpipes = rest := by
          split <;> rfl
        have hc2 : c ∈ (if rest.isEmpty then { ({ s with recvpipes := rest } : State) with readable := false } else { s with recvpipes := rest }).ctxs := by
          split <;> exact hc
        generalize (if rest.isEmpty then { ({ s with recvpipes := rest } : State) with readable := false } else { s with recvpipes := rest }) = s2 at h2 hg2 hr2 hc2 ⊢
        have h3 := ninv_setPipe (pp' := { pp with held := none, armed := true }) h2 hg2 rfl
          (by intro hm; rw [hr2, hid] at hm; exact absurd hm hnd.1)
        have h4 : NInv (setCtx (setPipe s2 { pp with held := none, armed := true }) (takeSurvey c p wm)) := by
          apply ninv_setCtx (c := c) (c' := takeSurvey c p wm) h3 hc2 rfl
          · intro hne; exact h2.rq c hc2 hne
          · intro x hx
            simp only [takeSurvey, Option.some.injEq] at hx
            subst hx
            refine ⟨{ pp with held := none, armed := true }, ?_⟩
            rw [← hid]
            exact getPipe_setPipe_self (pp' := { pp with held := none, armed := true }) hg2
        exact h4.of_eq (by simp) (by simp) (by simp) (by simp)

/-- a context leaves the receive wait list and gives up its parked receive -/
theorem ninv_unpark {s : State} {c c' : Ctx} (h : NInv s) (hc : c ∈ s.ctxs) (hk : c'.key = c.key)
    (hr : c'.raio = none) (hp : c'.pipeId = c.pipeId) :
    NInv (setCtx { s with recvq := s.recvq.filter (· != c.key) } c') := by
  refine ⟨?_, h.ids, ?_, ?_, h.rp, h.rpnd, ?_⟩
  · rw [keys_setCtx]; exact h.keys
  · intro q hq hne
    rcases mem_setCtx' hq with rfl | ⟨hq, hkq⟩
    · exact absurd hr hne
    · show q.key ∈ s.recvq.filter (· != c.key)
      rw [List.mem_filter]
      refine ⟨h.rq q hq hne, ?_⟩
      rw [hk] at hkq
      simpa using hkq
  · intro hne
    apply h.excl
    intro e
    apply hne
    show s.recvq.filter (· != c.key) = []
    rw [e]; rfl
  · intro q hq x hx
    rcases mem_setCtx' hq with rfl | ⟨hq, _⟩
    · rw [hp] at hx; exact h.pid c hc x hx
    · exact h.pid q hq x hx

theorem cancelAio_ninv {s : State} (a rv : Nat) (h : NInv s) : NInv (cancelAio s a rv).1 := by
  unfold cancelAio
  split
  · rename_i c hf
    have hc : c ∈ s.ctxs := List.mem_of_find?_eq_some hf
    simp only
    have h1 := ninv_pipes_map (fun (pp : Pipe) => { pp with sendq := pp.sendq.filter (· != c.key) }) h (fun _ => rfl) (fun _ => rfl)
    exact ninv_setCtx_same (c' := { c with saio := none }) h1 hc rfl (Or.inl rfl) (Or.inl rfl)
  · split
    · rename_i c hf
      have hc : c ∈ s.ctxs := List.mem_of_find?_eq_some hf
      simp only
      exact ninv_unpark (c' := { c with raio := none }) h hc rfl rfl rfl
    · exact h

theorem closeCtx_ninv {s : State} {c : Ctx} (h : NInv s) (hc : c ∈ s.ctxs) : NInv (closeCtx s c).1 := by
  unfold closeCtx
  simp only
  have key : ∀ s1 : State, NInv s1 → c ∈ s1.ctxs →
      NInv (setCtx (match c.raio with
        | some pr => (({ s1 with recvq := s1.recvq.filter (· != c.key) } : State), [Out.done pr.aio Err.eclosed none false])
        | none => (s1, [])).1 { c with saio := none, raio := none }) := by
    intro s1 h1 hc1
    cases hr : c.raio with
    | none =>
      exact ninv_setCtx_same (c' := { c with saio := none, raio := none }) h1 hc1 rfl (Or.inr rfl) (Or.inl rfl)
    | some pr =>
      exact ninv_unpark (c' := { c with saio := none, raio := none }) h1 hc1 rfl rfl rfl
  cases hs : c.saio with
  | none => exact key s h hc
  | some ps =>
    exact key _ (ninv_pipes_map (fun (pp : Pipe) => { pp with sendq := pp.sendq.filter (· != c.key) }) h (fun _ => rfl) (fun _ => rfl)) hc

theorem ninv_stepOK : StepOK2 (fun _ => True) NInv where
  hOpen := by
    intro s h _
    refine ⟨by simp, h.ids, ?_, h.excl, h.rp, h.rpnd, ?_⟩
    · intro c hc hne
      simp only [List.mem_singleton] at hc
      subst hc
      exact absurd rfl hne
    · intro c hc p hp
      simp only [List.mem_singleton] at hc
      subst hc
      cases hp
  setNow := fun s n h => h.of_eq rfl rfl rfl rfl
  setTtl := fun s n h => h.of_eq rfl rfl rfl rfl
  setClosed := fun s h => h.of_eq rfl rfl rfl rfl
  hPipeAdd := by
    intro s pp h _ hid _ _ _
    refine ⟨h.keys, ?_, h.rq, h.excl, ?_, h.rpnd, ?_⟩
    · intro q hq
      simp only [List.mem_append, List.mem_singleton, List.length_append, List.length_cons, List.length_nil] at hq ⊢
      rcases hq with hq | rfl
      · have := h.ids q hq; omega
      · omega
    · intro p hp
      obtain ⟨x, hx, hxa⟩ := h.rp p hp
      exact ⟨x, getPipe_append_old hx, hxa⟩
    · intro c hc p hp
      obtain ⟨x, hx⟩ := h.pid c hc p hp
      exact ⟨x, getPipe_append_old hx⟩
  hClosePipe := fun s p h => closePipe_ninv p h
  hPipeSent := fun s p pp h hg _ _ => pipeSent_ninv h hg
  hPipeRecv := fun s p pp wm h hg _ ha _ => pipeRecv_ninv wm h hg ha
  hCtxSend := fun s k c a m mode _ h hg => ctxSend_ninv a m mode h (getCtx_mem hg)
  hCtxRecv := fun s k c a mode h hg => ctxRecv_ninv a mode h (getCtx_mem hg)
  hCancel := fun s a rv h => cancelAio_ninv a rv h
  hCloseCtx := fun s k c h hg => closeCtx_ninv h (getCtx_mem hg)
  hCtxOpen := by
    intro s k h hg
    refine ⟨?_, h.ids, ?_, h.excl, h.rp, h.rpnd, ?_⟩
    · simp only [List.map_append, List.map_cons, List.map_nil]
      rw [List.nodup_append]
      refine ⟨h.keys, by simp, ?_⟩
      intro a ha b hb
      simp only [List.mem_singleton] at hb
      subst hb
      simp only [List.mem_map] at ha
      obtain ⟨c, hc, rfl⟩ := ha
      intro e
      have := List.find?_eq_none.1 hg c hc
      simp [e] at this
    · intro c hc hne
      simp only [List.mem_append, List.mem_singleton] at hc
      rcases hc with hc | rfl
      · exact h.rq c hc hne
      · exact absurd rfl hne
    · intro c hc p hp
      simp only [List.mem_append, List.mem_singleton] at hc
      rcases hc with hc | rfl
      · exact h.pid c hc p hp
      · cases hp
  hCtxClose := by
    intro s k c h hg
    have h1 := closeCtx_ninv h (getCtx_mem hg)
    refine ⟨?_, h1.ids, ?_, h1.excl, h1.rp, h1.rpnd, ?_⟩
    · exact List.Sublist.nodup (List.Sublist.map _ List.filter_sublist) h1.keys
    · intro q hq hne
      exact h1.rq q (List.mem_filter.1 hq).1 hne
    · intro q hq p hp
      exact h1.pid q (List.mem_filter.1 hq).1 p hp

theorem run_ninv (evs : List Ev) : NInv (run {} evs).1 :=
  run_inv2 ninv_stepOK (fun _ _ _ => trivial) {} evs trivial ninv_init

theorem step_ninv (s : State) (ev : Ev) (h : NInv s) : NInv (step s ev).1 :=
  step_inv2 ninv_stepOK s ev trivial h

end Nng.Respond
