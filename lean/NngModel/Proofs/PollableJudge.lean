/- the specification's judge (Spec/Pollable.lean) accepts every step of the repaired model -/
import NngModel.Proofs.PollableFacts
import NngModel.Model.PollableObs
namespace Nng.Pollable
open Nng.PollSpec

theorem errNow_self (p : Res) : errNow p p = false := by
  cases p <;> simp [errNow]

theorem failedNow_self (l : List Res) : failedNow l l = false := by
  induction l with
  | nil => rfl
  | cons x xs ih => simp [failedNow, errNow_self, ih]

theorem failedNow_set (gs : List GPc) (i : Nat) (g' : GPc)
    (h : failedNow (gs.map resOf) ((gs.set i g').map resOf) = true) :
    ∃ g, gs[i]? = some g ∧ resOf g = .pending ∧ resOf g' = .err := by
  induction gs generalizing i with
  | nil => simp [failedNow] at h
  | cons x xs ih =>
    cases i with
    | zero =>
      simp only [List.set_cons_zero, List.map_cons, failedNow, failedNow_self, Bool.or_false] at h
      simp only [errNow, Bool.and_eq_true, beq_iff_eq] at h
      exact ⟨x, by simp, h.1, h.2⟩
    | succ k =>
      simp only [List.set_cons_succ, List.map_cons, failedNow, errNow_self, Bool.false_or] at h
      obtain ⟨g, hg, h1, h2⟩ := ih k h
      exact ⟨g, by simpa using hg, h1, h2⟩

theorem resOf_err {g : GPc} (h : resOf g = .err) : g = .done none := by
  cases g <;> simp [resOf] at h
  rename_i r; cases r <;> simp at h ⊢

/-- a step in which some getfd call reports its failure leaves shared memory untouched -/
theorem step_failed_unchanged (fixed : Bool) (s : State) (c : Choice)
    (h : failedNow (obsOf s).res (obsOf (step fixed s c)).res = true) : (step fixed s c).sh = s.sh := by
  unfold step at h ⊢
  cases hc : c.tid with
  | m1 => rw [hc] at h; simp [obsOf, failedNow_self] at h
  | m2 => rw [hc] at h; simp [obsOf, failedNow_self] at h
  | g i =>
    rw [hc] at h
    simp only [] at h ⊢
    cases hi : s.gs[i]? with
    | none => rfl
    | some g =>
      rw [hi] at h
      simp only [obsOf] at h ⊢
      obtain ⟨g0, hg0, h1, h2⟩ := failedNow_set _ _ _ h
      rw [hi] at hg0; cases hg0
      have hne : g ≠ .done none := by intro e; rw [e] at h1; simp [resOf] at h1
      exact (gstep_err fixed s.sh g c.openOk (resOf_err h2) hne).2.2

theorem res_all_ok {fixed : Bool} {s : State} (h : Inv fixed s) :
    (s.gs.map resOf).all (resOk s.sh.fds) = true := by
  rw [List.all_eq_true]
  intro r hr
  obtain ⟨g, hg, rfl⟩ := List.mem_map.mp hr
  cases g with
  | done r =>
    cases r with
    | none => rfl
    | some p => simp [resOf, resOk, inv_results h hg]
  | _ => rfl

theorem judgeStep_model {s : State} (h : Inv true s) (c : Choice) :
    judgeStep (obsOf s) (obsOf (step true s c)) = none := by
  have h' := inv_step h c
  have e1 : (obsOf (step true s c)).bad = false := h'.bad
  have e2 : ((obsOf (step true s c)).readable != decide (0 < (obsOf (step true s c)).bytes)) = false := by
    show (decide (0 < (step true s c).sh.instBytes) != decide (0 < (step true s c).sh.instBytes)) = false
    simp
  have e3 : ((obsOf (step true s c)).quiet && (obsOf (step true s c)).inst.isSome &&
      ((obsOf (step true s c)).readable != (obsOf (step true s c)).raised)) = false := by
    simp only [obsOf]
    cases hq : (step true s c).quiescent with
    | false => simp
    | true =>
      cases hf : (step true s c).sh.fds.isSome with
      | false => simp
      | true =>
        have := inv_quiescent_iff h' hq hf
        cases hr : (step true s c).sh.raised <;> simp [hr] at this ⊢ <;> omega
  have e4 : (obsOf (step true s c)).res.all (resOk (obsOf (step true s c)).inst) = true := res_all_ok h'
  have e5 : ((obsOf s).inst.isSome && (obsOf s).inst != (obsOf (step true s c)).inst) = false := by
    simp only [obsOf]
    cases hf : s.sh.fds with
    | none => simp
    | some p => simp [step_fds_some true s c hf]
  have e6 : ((obsOf (step true s c)).quiet &&
      (obsOf (step true s c)).nopen != (if (obsOf (step true s c)).inst.isSome then 1 else 0)) = false := by
    simp only [obsOf]
    cases hq : (step true s c).quiescent with
    | false => simp
    | true =>
      have := inv_no_leak h' hq
      simp only [Bool.true_and, bne_eq_false_iff_eq]
      exact this
  have e7 : (failedNow (obsOf s).res (obsOf (step true s c)).res &&
      !((obsOf (step true s c)).raised == (obsOf s).raised && (obsOf (step true s c)).inst == (obsOf s).inst &&
        (obsOf (step true s c)).bytes == (obsOf s).bytes && (obsOf (step true s c)).nopen == (obsOf s).nopen)) = false := by
    cases hfl : failedNow (obsOf s).res (obsOf (step true s c)).res with
    | false => simp
    | true =>
      have := step_failed_unchanged true s c hfl
      simp [obsOf, this]
  have e8 : ¬ maxBytes < (obsOf (step true s c)).bytes := by
    have := inv_instBytes_le h'
    show ¬ 3 < (step true s c).sh.instBytes
    omega
  unfold judgeStep
  rw [e1, e2, e3, e4, e5, e6, e7]
  simp only [Bool.false_eq_true, if_false, Bool.not_true]
  simp [e8]

theorem judgeFrom_model {s : State} (h : Inv true s) (sched : List Choice) :
    judgeFrom (obsOf s) ((trace true s sched).map obsOf) = none := by
  induction sched generalizing s with
  | nil => rfl
  | cons c cs ih =>
    simp only [trace, List.map_cons, judgeFrom, judgeStep_model h c]
    exact ih (inv_step h c)

end Nng.Pollable
