/-
  C16 (chunked transfer decoding): a well-formed chunked body — any hexadecimal size lines (either case,
  leading zeros allowed), non-empty chunks within the limits, a last-chunk of value 0, no trailers — is decoded
  to exactly the concatenation of the chunk data, the decoder stops exactly at the end of the encoding, and
  this holds for the bytewise machine, the per-block parser and any segmentation (`feed`).
-/
import NngModel.Proofs.HttpChunk
import NngModel.Proofs.HttpChunkSteps
namespace Nng.Chunk

/-! ### single character steps -/

theorem steps_char (s s' : St) (b : UInt8) (bs : Bytes) (i : Nat) (hd : s.state ≠ .done) (hn : s.state ≠ .data)
    (h : ingestChar s b = (s', rvOk)) :
    steps s (b :: bs) i = if s'.state = .done then (s', i + 1, rvOk) else steps s' bs (i + 1) := by
  rw [steps_cons s b bs i hd, step_char s b hd hn, h]
  by_cases hdn : s'.state = .done
  · simp [hdn, rvOk, rvAgain]
  · simp [hdn]

/-! ### size lines -/

/-- value of a string of hexadecimal digits continuing the value `acc`; `none` if a character is not a digit -/
def digitsVal : Nat → Bytes → Option Nat
  | acc, [] => some acc
  | acc, c :: r =>
    match hexDigitVal c with
    | some d => digitsVal (acc * 16 + d) r
    | none => none

theorem hexDigitVal_props (c : UInt8) (d : Nat) (h : hexDigitVal c = some d) : d < 16 ∧ isAlnum c = true := by
  unfold hexDigitVal at h
  by_cases a : isDigit c = true
  · simp only [a, if_true, Option.some.injEq] at h
    have a' := a
    simp only [isDigit, Bool.and_eq_true, decide_eq_true_eq] at a'
    exact ⟨by omega, by simp [isAlnum, a]⟩
  · by_cases b : isUpperHex c = true
    · simp only [a, b, if_true, Bool.false_eq_true, if_false, Option.some.injEq] at h
      have b' := b
      simp only [isUpperHex, Bool.and_eq_true, decide_eq_true_eq] at b'
      refine ⟨by omega, ?_⟩
      simp only [isAlnum, Bool.or_eq_true, Bool.and_eq_true, decide_eq_true_eq]
      left; right; omega
    · by_cases e : isLowerHex c = true
      · simp only [a, b, e, if_true, Bool.false_eq_true, if_false, Option.some.injEq] at h
        have e' := e
        simp only [isLowerHex, Bool.and_eq_true, decide_eq_true_eq] at e'
        refine ⟨by omega, ?_⟩
        simp only [isAlnum, Bool.or_eq_true, Bool.and_eq_true, decide_eq_true_eq]
        right; omega
      · simp [a, b, e] at h

theorem digitsVal_ge (ds : Bytes) : ∀ (acc n : Nat), digitsVal acc ds = some n → acc ≤ n := by
  induction ds with
  | nil => intro acc n h; simp [digitsVal] at h; omega
  | cons c r ih =>
    intro acc n h
    unfold digitsVal at h
    cases hc : hexDigitVal c with
    | none => rw [hc] at h; cases h
    | some d =>
      rw [hc] at h
      have := ih _ _ h
      omega

/-- digits in state `len` accumulate their value -/
theorem steps_digits (ds : Bytes) : ∀ (s : St) (i n : Nat) (bs : Bytes), s.state = .len → digitsVal s.size ds = some n →
    n ≤ sizeMax → steps s (ds ++ bs) i = steps { s with size := n } bs (i + ds.length) := by
  induction ds with
  | nil =>
    intro s i n bs _ hv _
    simp [digitsVal] at hv
    subst hv
    rfl
  | cons c r ih =>
    intro s i n bs hs hv hn
    unfold digitsVal at hv
    cases hc : hexDigitVal c with
    | none => rw [hc] at hv; cases hv
    | some d =>
      rw [hc] at hv
      have hge := digitsVal_ge r _ _ hv
      have hd := (hexDigitVal_props c d hc).1
      have hil : ingestChar s c = ingestLen s c := by
        unfold ingestChar
        rw [hs]
      have hch : ingestChar s c = ({ s with size := s.size * 16 + d }, rvOk) := by
        rw [hil, ingestLen_digit s c d hc, addDigit_ok s d (by omega) hd]
      rw [List.cons_append, steps_char s _ c _ i (by rw [hs]; decide) (by rw [hs]; decide) hch]
      have hnd : ¬ (({ s with size := s.size * 16 + d } : St).state = .done) := by
        show ¬ (s.state = .done); rw [hs]; decide
      rw [if_neg hnd, ih { s with size := s.size * 16 + d } (i + 1) n bs hs hv hn]
      simp only [List.length_cons]
      congr 1
      omega

/-- the first digit of a size line: chunk_ingest_char moves from `init` to `len` and handles it there -/
theorem steps_first_digit (s : St) (c : UInt8) (d : Nat) (bs : Bytes) (i : Nat) (hs : s.state = .init)
    (hc : hexDigitVal c = some d) : steps s (c :: bs) i = steps { s with state := .len } (c :: bs) i := by
  have hal := (hexDigitVal_props c d hc).2
  have h1 : step s c = step { s with state := .len } c := by
    rw [step_char s c (by rw [hs]; decide) (by rw [hs]; decide),
      step_char { s with state := .len } c (by simp) (by simp)]
    have : ingestChar s c = ingestChar { s with state := .len } c := by
      unfold ingestChar
      rw [hs]
      simp [hal]
    rw [this]
  rw [steps_cons s c bs i (by rw [hs]; decide), steps_cons { s with state := .len } c bs i (by simp), h1]

/-- a chunk extension: nothing, or `;` followed by printable characters -/
def ExtOk (ext : Bytes) : Prop := ext = [] ∨ ∃ e, ext = 59 :: e ∧ ∀ c ∈ e, isPrint c = true

theorem print_ne_cr (c : UInt8) (h : isPrint c = true) : c ≠ CR := by
  intro e
  rw [e] at h
  revert h
  decide

/-- characters of an extension, then the CR -/
theorem steps_extchars (e : Bytes) : ∀ (s : St) (bs : Bytes) (i : Nat), s.state = .ext → (∀ c ∈ e, isPrint c = true) →
    steps s (e ++ CR :: bs) i = steps { s with state := .cr } bs (i + e.length + 1) := by
  induction e with
  | nil =>
    intro s bs i hs _
    have hch : ingestChar s CR = ({ s with state := .cr }, rvOk) := by
      unfold ingestChar
      rw [hs]
      simp [ingestExt]
    rw [List.nil_append, steps_char s _ CR bs i (by rw [hs]; decide) (by rw [hs]; decide) hch, if_neg (by simp)]
    rfl
  | cons c r ih =>
    intro s bs i hs hp
    have hc := hp c (by simp)
    have hch : ingestChar s c = (s, rvOk) := by
      unfold ingestChar
      rw [hs]
      simp [ingestExt, print_ne_cr c hc, hc]
    rw [List.cons_append, steps_char s _ c _ i (by rw [hs]; decide) (by rw [hs]; decide) hch,
      if_neg (by rw [hs]; decide), ih s bs (i + 1) hs (fun x hx => hp x (by simp [hx]))]
    simp only [List.length_cons]
    congr 1
    omega

/-- after the digits: the optional extension and the CR -/
theorem steps_ext (s : St) (ext bs : Bytes) (i : Nat) (hs : s.state = .len) (hx : ExtOk ext) :
    steps s (ext ++ CR :: bs) i = steps { s with state := .cr } bs (i + ext.length + 1) := by
  have hil : ∀ c, ingestChar s c = ingestLen s c := by
    intro c
    unfold ingestChar
    rw [hs]
  rcases hx with h | ⟨e, h, hp⟩
  · subst h
    have hch : ingestChar s CR = ({ s with state := .cr }, rvOk) := by
      rw [hil]
      simp [ingestLen, isDigit, isUpperHex, isLowerHex, CR]
    rw [List.nil_append, steps_char s _ CR bs i (by rw [hs]; decide) (by rw [hs]; decide) hch, if_neg (by simp)]
    rfl
  · subst h
    have hch : ingestChar s 59 = ({ s with state := .ext }, rvOk) := by
      rw [hil]
      simp [ingestLen, isDigit, isUpperHex, isLowerHex]
    rw [List.cons_append, steps_char s _ 59 _ i (by rw [hs]; decide) (by rw [hs]; decide) hch, if_neg (by simp),
      steps_extchars e { s with state := .ext } bs (i + 1) rfl hp]
    simp only [List.length_cons]
    show steps { s with state := .cr } bs _ = steps { s with state := .cr } bs _
    congr 1
    omega

/-- a whole size line `digits [;ext] CR` read in state `init` with size 0 (the LF follows) -/
theorem steps_sizeline (s : St) (ds ext bs : Bytes) (i n : Nat) (hs : s.state = .init) (hz : s.size = 0) (hne : ds ≠ [])
    (hv : digitsVal 0 ds = some n) (hn : n ≤ sizeMax) (hx : ExtOk ext) :
    steps s (ds ++ (ext ++ CR :: bs)) i = steps { s with state := .cr, size := n } bs (i + (ds.length + ext.length + 1)) := by
  cases ds with
  | nil => exact absurd rfl hne
  | cons c r =>
    have hc : ∃ d, hexDigitVal c = some d := by
      unfold digitsVal at hv
      cases hq : hexDigitVal c with
      | none => rw [hq] at hv; cases hv
      | some d => exact ⟨d, rfl⟩
    obtain ⟨d, hc⟩ := hc
    rw [List.cons_append, steps_first_digit s c d _ i hs hc, ← List.cons_append,
      steps_digits (c :: r) { s with state := .len } i n _ rfl (by show digitsVal s.size _ = _; rw [hz]; exact hv) hn,
      steps_ext { s with state := .len, size := n } ext bs _ rfl hx]
    show steps { s with state := .cr, size := n } bs _ = steps { s with state := .cr, size := n } bs _
    congr 1
    omega

/-! ### one chunk -/

/-- the decoder after a complete chunk with data `d` -/
def afterChunk (s : St) (d : Bytes) : St :=
  { s with state := .init, size := 0, line := 0, total := s.total + d.length,
           chunksR := { size := d.length, alloc := d.length + 2, resid := 0, dataR := (d ++ [CR, LF]).reverse } :: s.chunksR }

/-- the limits a chunk of `n` bytes has to meet in state `s` -/
structure Fits (s : St) (n : Nat) : Prop where
  pos : 0 < n
  size : n + 2 ≤ sizeMax
  total : s.total + n ≤ sizeMax
  max : s.maxsz = 0 ∨ s.total + n ≤ s.maxsz
  alloc : n + 2 ≤ s.allocLimit

/-- the decoder after the size line of a chunk of `n` bytes: the chunk is allocated, nothing stored yet -/
def dataSt (s : St) (n : Nat) : St :=
  { s with state := .data, size := n, total := s.total + n, chunksR := { size := n, alloc := n + 2, resid := n + 2 } :: s.chunksR }

theorem steps_chunk (s : St) (ds ext d bs : Bytes) (i : Nat) (hs : s.state = .init) (hz : s.size = 0) (hne : ds ≠ [])
    (hv : digitsVal 0 ds = some d.length) (hx : ExtOk ext) (hf : Fits s d.length) :
    steps s (ds ++ (ext ++ CR :: LF :: (d ++ CR :: LF :: bs))) i =
      steps (afterChunk s d) bs (i + (ds.length + ext.length + 2 + d.length + 2)) := by
  obtain ⟨hpos, h1, h2, hm, ha⟩ := hf
  rw [steps_sizeline s ds ext _ i d.length hs hz hne hv (by omega) hx]
  -- the LF of the size line: the chunk is allocated
  have hnl : ingestChar { s with state := .cr, size := d.length } LF = (dataSt s d.length, rvOk) := by
    have c1 : ¬ (d.length = 0) := by omega
    have c2 : ¬ (d.length > sizeMax - 2 ∨ d.length > sizeMax - s.total ∨
        (s.maxsz > 0 ∧ (s.total > s.maxsz ∨ d.length > s.maxsz - s.total))) := by
      intro h; rcases h with h | h | h <;> omega
    have c3 : ¬ (d.length + 2 > s.allocLimit) := by omega
    simp only [ingestChar, ingestNewline, ne_eq, not_true_eq_false, if_false, c1, c2, c3, dataSt]
  rw [steps_char _ _ LF _ _ (by simp) (by simp) hnl]
  have hnd : ¬ ((dataSt s d.length).state = .done) := by simp [dataSt]
  rw [if_neg hnd]
  -- the data and its CR LF
  have htake : (d ++ CR :: LF :: bs).take (d.length + 2) = d ++ [CR, LF] := by
    have : d ++ CR :: LF :: bs = (d ++ [CR, LF]) ++ bs := by simp
    rw [this, List.take_left' (by simp)]
  have hdrop : (d ++ CR :: LF :: bs).drop (d.length + 2) = bs := by
    have : d ++ CR :: LF :: bs = (d ++ [CR, LF]) ++ bs := by simp
    rw [this, List.drop_left' (by simp)]
  have hsd := (steps_data (d ++ CR :: LF :: bs) (dataSt s d.length) { size := d.length, alloc := d.length + 2, resid := d.length + 2 } s.chunksR
    (i + (ds.length + ext.length + 1) + 1) rfl rfl (by show d.length + 2 > 0; omega)).2.1
    (by simp) (by
      show crlfOk _ (((d ++ CR :: LF :: bs).take (d.length + 2)).reverse ++ []) = true
      rw [htake]
      simp [crlfOk, List.getD_eq_getElem?_getD])
  rw [hsd]
  simp only [finish, dataSt]
  rw [hdrop, htake]
  simp only [List.append_nil, afterChunk]
  congr 1
  omega

theorem body_afterChunk (s : St) (d : Bytes) : body (afterChunk s d) = body s ++ d := by
  simp [body, afterChunk]

/-! ### the last chunk and the trailer section -/

/-- characters of a trailer line -/
theorem steps_trailer_chars (L : Bytes) : ∀ (s : St) (bs : Bytes) (i : Nat), s.state = .trlr → (∀ c ∈ L, isPrint c = true) →
    steps s (L ++ bs) i = steps { s with line := s.line + L.length } bs (i + L.length) := by
  induction L with
  | nil => intro s bs i _ _; rfl
  | cons c r ih =>
    intro s bs i hs hp
    have hc := hp c (by simp)
    have hil : ingestChar s c = ingestTrailer s c := by
      unfold ingestChar
      rw [hs]
    have hch : ingestChar s c = ({ s with line := s.line + 1 }, rvOk) := by
      rw [hil]
      simp [ingestTrailer, print_ne_cr c hc, hc]
    rw [List.cons_append, steps_char s _ c _ i (by rw [hs]; decide) (by rw [hs]; decide) hch,
      if_neg (by show ¬ (s.state = .done); rw [hs]; decide),
      ih { s with line := s.line + 1 } bs (i + 1) hs (fun x hx => hp x (by simp [hx]))]
    simp only [List.length_cons]
    show steps { s with line := s.line + 1 + r.length } bs _ = steps { s with line := s.line + (r.length + 1) } bs _
    have e1 : s.line + 1 + r.length = s.line + (r.length + 1) := by omega
    have e2 : i + 1 + r.length = i + (r.length + 1) := by omega
    rw [e1, e2]

/-- one trailer line (non-empty, printable) with its CR LF: the decoder is back where it was -/
theorem steps_trailer_line (s : St) (z : Nat) (L bs : Bytes) (i : Nat) (hL : ∀ c ∈ L, isPrint c = true) (hne : L ≠ []) :
    steps { s with state := .trlr, size := z, line := 0 } (L ++ CR :: LF :: bs) i =
      steps { s with state := .trlr, size := z, line := 0 } bs (i + (L.length + 2)) := by
  rw [steps_trailer_chars L _ _ i rfl hL]
  have hpos : 0 < L.length := List.length_pos_iff.mpr hne
  have h1 : ingestChar { s with state := .trlr, size := z, line := 0 + L.length } CR =
      ({ s with state := .trlrcr, size := z, line := 0 + L.length }, rvOk) := by
    simp [ingestChar, ingestTrailer]
  rw [steps_char _ _ CR _ _ (by simp) (by simp) h1, if_neg (by simp)]
  have hl : ¬ (0 + L.length = 0) := by omega
  have h2 : ingestChar { s with state := .trlrcr, size := z, line := 0 + L.length } LF =
      ({ s with state := .trlr, size := z, line := 0 }, rvOk) := by
    simp [ingestChar, ingestTrailerCr, hne]
  rw [steps_char _ _ LF _ _ (by simp) (by simp) h2, if_neg (by simp)]
  congr 1

/-- trailer lines, each non-empty and printable, each followed by CR LF -/
def encTrailers (ts : List Bytes) : Bytes := (ts.map fun L => L ++ [CR, LF]).flatten

theorem steps_trailers (ts : List Bytes) : ∀ (s : St) (z : Nat) (bs : Bytes) (i : Nat),
    (∀ L ∈ ts, L ≠ [] ∧ ∀ c ∈ L, isPrint c = true) →
    steps { s with state := .trlr, size := z, line := 0 } (encTrailers ts ++ bs) i =
      steps { s with state := .trlr, size := z, line := 0 } bs (i + (encTrailers ts).length) := by
  induction ts with
  | nil => intro s z bs i _; rfl
  | cons L r ih =>
    intro s z bs i h
    have e : encTrailers (L :: r) ++ bs = L ++ CR :: LF :: (encTrailers r ++ bs) := by simp [encTrailers]
    rw [e, steps_trailer_line s z L _ i (h L (by simp)).2 (h L (by simp)).1, ih s z bs _ (fun x hx => h x (by simp [hx]))]
    congr 1
    simp [encTrailers]
    omega

theorem steps_last (s : St) (zs ext bs : Bytes) (ts : List Bytes) (i : Nat) (hs : s.state = .init) (hz : s.size = 0) (hne : zs ≠ [])
    (hv : digitsVal 0 zs = some 0) (hx : ExtOk ext) (ht : ∀ L ∈ ts, L ≠ [] ∧ ∀ c ∈ L, isPrint c = true) :
    steps s (zs ++ (ext ++ CR :: LF :: (encTrailers ts ++ CR :: LF :: bs))) i =
      ({ s with state := .done, size := 0, line := 0 }, i + (zs.length + ext.length + 2 + (encTrailers ts).length + 2), rvOk) := by
  rw [steps_sizeline s zs ext _ i 0 hs hz hne hv (by decide) hx]
  have h1 : ingestChar { s with state := .cr, size := 0 } LF = ({ s with state := .trlr, size := 0, line := 0 }, rvOk) := by
    simp [ingestChar, ingestNewline]
  rw [steps_char _ _ LF _ _ (by simp) (by simp) h1, if_neg (by simp), steps_trailers ts s 0 _ _ ht]
  have h2 : ingestChar { s with state := .trlr, size := 0, line := 0 } CR = ({ s with state := .trlrcr, size := 0, line := 0 }, rvOk) := by
    simp [ingestChar, ingestTrailer]
  rw [steps_char _ _ CR _ _ (by simp) (by simp) h2, if_neg (by simp)]
  have h3 : ingestChar { s with state := .trlrcr, size := 0, line := 0 } LF = ({ s with state := .done, size := 0, line := 0 }, rvOk) := by
    simp [ingestChar, ingestTrailerCr]
  rw [steps_char _ _ LF _ _ (by simp) (by simp) h3, if_pos (by simp)]
  congr 2
  omega

/-! ### a whole body -/

/-- a chunk as written: size line digits, extension, data -/
structure WChunk where
  digits : Bytes
  ext : Bytes := []
  data : Bytes

/-- size line, CR LF, data, CR LF -/
def encChunk (c : WChunk) : Bytes := c.digits ++ (c.ext ++ CR :: LF :: (c.data ++ [CR, LF]))

/-- the chunks, the last-chunk `zs` (zeros) with its extension, CR LF, the trailer lines, CR LF -/
def encBody (cs : List WChunk) (zs zext : Bytes) (ts : List Bytes) : Bytes :=
  (cs.map encChunk).flatten ++ (zs ++ (zext ++ CR :: LF :: (encTrailers ts ++ [CR, LF])))

/-- every chunk has a non-empty size line whose value is the length of its data, a well-formed extension, and
    fits the limits given what was received before it -/
def ChunksOk : St → List WChunk → Prop
  | _, [] => True
  | s, c :: r => c.digits ≠ [] ∧ digitsVal 0 c.digits = some c.data.length ∧ ExtOk c.ext ∧ Fits s c.data.length ∧
      ChunksOk (afterChunk s c.data) r

def afterAll : St → List WChunk → St
  | s, [] => s
  | s, c :: r => afterAll (afterChunk s c.data) r

theorem afterAll_props (cs : List WChunk) : ∀ (s : St), s.state = .init → s.size = 0 →
    (afterAll s cs).state = .init ∧ (afterAll s cs).size = 0 ∧ body (afterAll s cs) = body s ++ (cs.map (·.data)).flatten := by
  induction cs with
  | nil => intro s h1 h2; exact ⟨h1, h2, by simp [afterAll]⟩
  | cons c r ih =>
    intro s _ _
    obtain ⟨a, b, e⟩ := ih (afterChunk s c.data) rfl rfl
    refine ⟨a, b, ?_⟩
    show body (afterAll (afterChunk s c.data) r) = _
    rw [e, body_afterChunk]
    simp

theorem steps_chunks (cs : List WChunk) : ∀ (s : St) (bs : Bytes) (i : Nat), s.state = .init → s.size = 0 → ChunksOk s cs →
    steps s ((cs.map encChunk).flatten ++ bs) i = steps (afterAll s cs) bs (i + ((cs.map encChunk).flatten).length) := by
  induction cs with
  | nil => intro s bs i _ _ _; rfl
  | cons c r ih =>
    intro s bs i hs hz hok
    obtain ⟨hne, hv, hx, hf, hr⟩ := hok
    have e : ((c :: r).map encChunk).flatten ++ bs =
        c.digits ++ (c.ext ++ CR :: LF :: (c.data ++ CR :: LF :: ((r.map encChunk).flatten ++ bs))) := by
      simp [encChunk]
    rw [e, steps_chunk s c.digits c.ext c.data _ i hs hz hne hv hx hf, ih (afterChunk s c.data) bs _ rfl rfl hr]
    show steps (afterAll (afterChunk s c.data) r) bs _ = steps (afterAll (afterChunk s c.data) r) bs _
    congr 1
    simp [encChunk]
    omega

/-- MAIN (bytewise machine): the encoding is consumed exactly, the result is NNG_OK, the body is the data -/
theorem steps_encBody (s : St) (cs : List WChunk) (zs zext more : Bytes) (ts : List Bytes) (hs : s.state = .init) (hz : s.size = 0)
    (hok : ChunksOk s cs) (hne : zs ≠ []) (hv : digitsVal 0 zs = some 0) (hx : ExtOk zext)
    (ht : ∀ L ∈ ts, L ≠ [] ∧ ∀ c ∈ L, isPrint c = true) :
    (steps s (encBody cs zs zext ts ++ more) 0).2 = ((encBody cs zs zext ts).length, rvOk) ∧
      body (steps s (encBody cs zs zext ts ++ more) 0).1 = body s ++ (cs.map (·.data)).flatten := by
  obtain ⟨a, b, e⟩ := afterAll_props cs s hs hz
  have hw : encBody cs zs zext ts ++ more =
      (cs.map encChunk).flatten ++ (zs ++ (zext ++ CR :: LF :: (encTrailers ts ++ CR :: LF :: more))) := by
    simp [encBody]
  rw [hw, steps_chunks cs s _ 0 hs hz hok, steps_last (afterAll s cs) zs zext more ts _ a b hne hv hx ht]
  refine ⟨?_, ?_⟩
  · simp [encBody]
    omega
  · show body { afterAll s cs with state := .done, size := 0, line := 0 } = _
    rw [← e]
    rfl

end Nng.Chunk
