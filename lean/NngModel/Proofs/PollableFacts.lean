/- consequences of the pollable invariant, in the form the C15 property theorems and the judge need -/
import NngModel.Proofs.PollableStep
import NngModel.Proofs.PollableTerm
namespace Nng.Pollable

theorem atRest_phase {g : GPc} (h : g.atRest = true) : g.phase = none ∧ g.isOwner = false := by
  cases g <;> simp [GPc.atRest] at h <;> simp [GPc.phase, GPc.isOwner, GPc.owns]

theorem quiescent_parts {s : State} (hq : s.quiescent = true) :
    s.m1.pc = .idle ∧ s.m2.pc = .idle ∧ ∀ (i : Nat) (g : GPc), s.gs[i]? = some g → g.atRest = true := by
  simp only [State.quiescent, Bool.and_eq_true, beq_iff_eq, List.all_eq_true] at hq
  refine ⟨hq.1.1, hq.1.2, ?_⟩
  intro i g hi
  exact hq.2 g (List.mem_of_getElem? hi)

/-- at rest the table entry is (idle, fin) or (idle, pre) -/
theorem inv_quiescent_allowed {fixed : Bool} {s : State} (h : Inv fixed s) (hq : s.quiescent = true) :
    allowed fixed .idle (wOf s.sh) s.sh.raised s.sh.instBytes := by
  obtain ⟨hm, _, hg⟩ := quiescent_parts hq
  have := h.tabN (fun i g hi => (atRest_phase (hg i g hi)).1)
  rw [hm] at this
  exact this

theorem inv_quiescent_iff {s : State} (h : Inv true s) (hq : s.quiescent = true) (hf : s.sh.fds.isSome = true) :
    (0 < s.sh.instBytes ↔ s.sh.raised = true) := by
  have := inv_quiescent_allowed h hq
  simp only [wOf, hf, if_true] at this
  exact allowed_fin_idle_fixed this

theorem inv_quiescent_raised {fixed : Bool} {s : State} (h : Inv fixed s) (hq : s.quiescent = true)
    (hf : s.sh.fds.isSome = true) (hr : s.sh.raised = true) : 0 < s.sh.instBytes := by
  have := inv_quiescent_allowed h hq
  simp only [wOf, hf, if_true, hr] at this
  cases fixed with
  | true => exact (allowed_fin_idle_fixed this).mpr rfl
  | false => exact allowed_fin_idle_cur this

theorem inv_results {fixed : Bool} {s : State} (h : Inv fixed s) {p : Nat} (hm : GPc.done (some p) ∈ s.gs) :
    s.sh.fds = some p := by
  obtain ⟨i, hl, hi⟩ := List.getElem_of_mem hm
  have := h.gwf i _ (by rw [List.getElem?_eq_getElem hl, hi])
  exact this

theorem inv_no_leak {fixed : Bool} {s : State} (h : Inv fixed s) (hq : s.quiescent = true) :
    s.sh.nOpen = if s.sh.fds.isSome then 1 else 0 := by
  obtain ⟨_, _, hg⟩ := quiescent_parts hq
  have : s.gs.countP GPc.isOwner = 0 := by
    rw [List.countP_eq_zero]
    intro g hm
    obtain ⟨i, hl, hi⟩ := List.getElem_of_mem hm
    have := (atRest_phase (hg i g (by rw [List.getElem?_eq_getElem hl, hi]))).2
    simp [this]
  rw [h.cnt, this]; simp

/-- some table entry always applies -/
theorem inv_some_allowed {fixed : Bool} {s : State} (h : Inv fixed s) :
    ∃ w, allowed fixed s.m1.pc.tag w s.sh.raised s.sh.instBytes := by
  by_cases hall : ∀ (i : Nat) (g : GPc), s.gs[i]? = some g → g.phase = none
  · exact ⟨_, h.tabN hall⟩
  · have : ∃ (i : Nat) (g : GPc), s.gs[i]? = some g ∧ g.phase ≠ none := by
      apply Classical.byContradiction
      intro hne
      apply hall
      intro i g hi
      apply Classical.byContradiction
      intro hp
      exact hne ⟨i, g, hi, hp⟩
    obtain ⟨i, g, hi, hp⟩ := this
    cases hw : g.phase with
    | none => exact absurd hw hp
    | some w => exact ⟨w, h.tabA i g w hi hw⟩

theorem inv_bytes_le {fixed : Bool} {s : State} (h : Inv fixed s) (k : Nat) :
    bytesAt s.sh.pipes k ≤ if fixed then 3 else 2 := by
  by_cases hk : s.sh.fds = some k
  · obtain ⟨w, hw⟩ := inv_some_allowed h
    have e : s.sh.instBytes = bytesAt s.sh.pipes k := by simp [Shared.instBytes, hk]
    rw [e] at hw
    cases fixed with
    | true => exact allowed_le hw
    | false => exact allowed_cur_le hw
  · rw [h.zero k hk]; exact Nat.zero_le _

theorem inv_instBytes_le {fixed : Bool} {s : State} (h : Inv fixed s) : s.sh.instBytes ≤ 3 := by
  obtain ⟨w, hw⟩ := inv_some_allowed h
  exact allowed_le hw

/-- the published descriptor never changes -/
theorem step_fds_some (fixed : Bool) (s : State) (c : Choice) {p : Nat} (hf : s.sh.fds = some p) :
    (step fixed s c).sh.fds = some p := by
  unfold step
  cases hc : c.tid with
  | m1 => simp only []; rw [(mstep_rem s.sh s.m1).1]; exact hf
  | m2 => simp only []; rw [(mstep_rem s.sh s.m2).1]; exact hf
  | g i =>
    simp only []
    cases hi : s.gs[i]? with
    | none => exact hf
    | some g =>
      simp only []
      rcases (gstep_rem fixed s.sh g c.openOk).2.1 with e | ⟨e, _⟩
      · rw [e]; exact hf
      · rw [hf] at e; cases e

theorem run_fds_some (fixed : Bool) (s : State) (sched : List Choice) {p : Nat} (hf : s.sh.fds = some p) :
    (run fixed s sched).sh.fds = some p := by
  induction sched generalizing s with
  | nil => exact hf
  | cons c cs ih => exact ih (step fixed s c) (step_fds_some fixed s c hf)

/-- nni_plat_pipe_open failing is the only way getfd reports an error, and it changes nothing -/
theorem gstep_err (fixed : Bool) (sh : Shared) (g : GPc) (ok : Bool)
    (h : (gstep fixed sh g ok).2 = .done none) (hg : g ≠ .done none) :
    g = .open_ ∧ ok = false ∧ (gstep fixed sh g ok).1 = sh := by
  cases g with
  | idle => cases hf : sh.fds <;> simp [gstep, hf] at h
  | top => cases hf : sh.fds <;> simp [gstep, hf] at h
  | open_ => cases ok <;> simp [gstep] at h ⊢
  | cas p => cases hf : sh.fds <;> simp [gstep, hf] at h
  | ld p => cases hr : sh.raised <;> cases fixed <;> simp [gstep, hr] at h
  | act p r => cases fixed <;> simp [gstep] at h
  | chk p r => by_cases hr : sh.raised = r <;> simp [gstep, hr] at h
  | close p => simp [gstep] at h
  | done r => simp [gstep] at h; exact absurd (by rw [h]) hg

end Nng.Pollable
