/-
  RESPONDENT judge simulation, part J: `close` (contexts, then pipes, then the socket's own context), and the
  closed socket afterwards.  After `close` only a weak relation `Rc` is kept: the judge has not failed, knows the
  socket is closed, and owes no zero-timeout receive.
-/
import NngModel.Proofs.RespJudgeEvI
namespace Nng.RespJudge
open Nng Nng.Proto Nng.Respond Nng.SurveySpec

structure Rc (j : RespJ) : Prop where
  err : j.err = none
  closed : j.closed = true
  zero : ∀ x ∈ j.pendRecv, x.2.2 = false

/-! ### the closed socket -/

theorem rc_post {j : RespJ} (h : Rc j) (ev : Ev) (outs : List Out) (hcc : ctxCloseStep ev outs j = j)
    (hb : hasBlocked outs = false) (hnb : isNbSock ev = false) : Rc (respPost ev outs j) := by
  unfold respPost
  rw [hcc, zeroChk_ok h.zero, blockedChk_ok hb, pollChk_ok (pollClause_skip _ _ _ hnb)]
  have : stallChk (setPoll ev outs j) = setPoll ev outs j := stallChk_ok (Or.inl h.closed)
  rw [this]
  exact ⟨h.err, h.closed, h.zero⟩

theorem rc_advance {j : RespJ} (h : Rc j) (ms : Nat) : Rc (respStep j (.advance ms) []) := by
  rw [respStep_eq h.err rfl]
  have : respMid [] (respPre j (.advance ms) []) = { j with now := j.now + ms } := rfl
  rw [this]
  exact rc_post (j := { j with now := j.now + ms }) ⟨h.err, h.closed, h.zero⟩ _ _ rfl rfl rfl

theorem rc_refused {j : RespJ} (h : Rc j) (ev : Ev) (msg : String) : Rc (respStep j ev [.other msg]) := by
  rw [respStep_refused rfl]; exact h

/-! ### what `close` puts out -/

/-- every output is a closed pipe, a completion with NNG_ECLOSED, or the "success" of a response that was parked
    (in the state `s` the step started from) behind a pipe closed in the same list -/
def Good (s : State) (L : List Out) : Prop :=
  ∀ o ∈ L, (∃ p, o = Out.pclosed p) ∨ (∃ a mb, o = Out.done a Err.eclosed none mb) ∨
    (∃ a, o = Out.done a 0 none false ∧ ∃ c ∈ s.ctxs, ∃ ps, c.saio = some ps ∧ ps.aio = a ∧ Out.pclosed (expPipe ps) ∈ L)

theorem good_nil (s : State) : Good s [] := by intro o ho; cases ho

theorem good_append {s : State} {L1 L2 : List Out} (h1 : Good s L1) (h2 : Good s L2) : Good s (L1 ++ L2) := by
  intro o ho
  rcases List.mem_append.1 ho with ho | ho
  · rcases h1 o ho with h | h | ⟨a, e, c, hc, ps, hs, ha, hp⟩
    · exact Or.inl h
    · exact Or.inr (Or.inl h)
    · exact Or.inr (Or.inr ⟨a, e, c, hc, ps, hs, ha, List.mem_append_left _ hp⟩)
  · rcases h2 o ho with h | h | ⟨a, e, c, hc, ps, hs, ha, hp⟩
    · exact Or.inl h
    · exact Or.inr (Or.inl h)
    · exact Or.inr (Or.inr ⟨a, e, c, hc, ps, hs, ha, List.mem_append_right _ hp⟩)

/-- parked sends only disappear -/
def SubS (s t : State) : Prop := ∀ c' ∈ t.ctxs, ∀ ps, c'.saio = some ps → ∃ c ∈ s.ctxs, c.saio = some ps

structure Mid (s t : State) : Prop where
  sub : SubS s t
  n : NInv t
  q : QInv t

theorem closeCtx_good {s t : State} (c : Ctx) : Good s (closeCtx t c).2 := by
  unfold closeCtx
  intro o ho
  simp only at ho
  cases hs : c.saio <;> cases hr : c.raio <;> simp only [hs, hr] at ho
  · cases ho
  · simp only [List.nil_append, List.mem_singleton] at ho
    exact Or.inr (Or.inl ⟨_, _, ho⟩)
  · simp only [List.append_nil, List.mem_singleton] at ho
    exact Or.inr (Or.inl ⟨_, _, ho⟩)
  · simp only [List.cons_append, List.nil_append, List.mem_cons, List.not_mem_nil, or_false] at ho
    rcases ho with ho | ho <;> exact Or.inr (Or.inl ⟨_, _, ho⟩)

theorem closeCtx_ctxs_eq (t : State) (c : Ctx) :
    (closeCtx t c).1.ctxs = t.ctxs.map fun q => if q.key == c.key then { c with saio := none, raio := none } else q := by
  unfold closeCtx
  simp only [setCtx]
  split <;> split <;> rfl

theorem closeCtx_mid {s t : State} (h : Mid s t) (c : Ctx) (hc : c ∈ t.ctxs) : Mid s (closeCtx t c).1 := by
  refine ⟨?_, closeCtx_ninv h.n hc, closeCtx_qinv h.q hc⟩
  intro c' hc' ps hps
  rw [closeCtx_ctxs_eq] at hc'
  obtain ⟨q, hq, rfl⟩ := List.mem_map.1 hc'
  by_cases e : (q.key == c.key) = true
  · rw [if_pos e] at hps; cases hps
  · rw [if_neg e] at hps; exact h.sub q hq ps hps

theorem closePipe_midS {s t : State} (h : Mid s t) (p : Nat) : Mid s (closePipe t p).1 := by
  refine ⟨?_, closePipe_ninv p h.n, closePipe_qinv p h.q⟩
  intro c' hc' ps hps
  unfold closePipe at hc'
  split at hc'
  · exact h.sub c' hc' ps hps
  · split at hc'
    · exact h.sub c' hc' ps hps
    · rename_i pp _ _
      simp only [setPipe_ctxs, raiseWritableIf_ctxs, dropRecvPipe_ctxs] at hc'
      obtain ⟨q, hq, rfl⟩ := List.mem_map.1 hc'
      by_cases e : pp.sendq.contains q.key = true
      · rw [if_pos e] at hps; cases hps
      · rw [if_neg e] at hps; exact h.sub q hq ps hps

theorem closePipe_good {s t : State} (h : Mid s t) (p : Nat) : Good s (closePipe t p).2 := by
  cases hg : getPipe t p with
  | none =>
    have : (closePipe t p).2 = [] := by unfold closePipe; simp [hg]
    rw [this]; exact good_nil s
  | some pp =>
    cases hcl : pp.closed with
    | true =>
      have : (closePipe t p).2 = [] := by unfold closePipe; simp [hg, hcl]
      rw [this]; exact good_nil s
    | false =>
      rw [closePipe_out hg hcl]
      intro o ho
      rcases List.mem_append.1 ho with ho | ho
      · obtain ⟨k, hk, c, ps, hgc, hs, rfl⟩ := mem_closeDones ho
        have hcm := getCtx_mem hgc
        obtain ⟨c0, hc0, hs0⟩ := h.sub c hcm ps hs
        refine Or.inr (Or.inr ⟨ps.aio, rfl, c0, hc0, ps, hs0, rfl, ?_⟩)
        obtain ⟨_, hl⟩ := h.q.link pp (getPipe_mem hg) k hk
        obtain ⟨ps', hs', hexp⟩ := hl c hcm (getCtx_key hgc)
        rw [hs] at hs'
        injection hs' with hs'
        subst hs'
        have : expPipe ps = p := by
          unfold expPipe; rw [hexp]; exact getPipe_id hg
        rw [this]
        exact List.mem_append_right _ List.mem_cons_self
      · simp only [List.mem_singleton] at ho
        exact Or.inl ⟨p, ho⟩

theorem closeCtxs_mid {s : State} (sel : Ctx → Bool) : ∀ (xs : List Ctx) (acc : State × List Out), Mid s acc.1 → Good s acc.2 →
    let r := xs.foldl (fun (acc : State × List Out) c =>
        if sel c = true then
          match getCtx acc.1 c.key with
          | some c' => ((closeCtx acc.1 c').1, acc.2 ++ (closeCtx acc.1 c').2)
          | none => acc
        else acc) acc
    Mid s r.1 ∧ Good s r.2 := by
  intro xs
  induction xs with
  | nil => intro acc h g; exact ⟨h, g⟩
  | cons x rest ih =>
    intro acc h g
    simp only [List.foldl_cons]
    apply ih
    · split
      · split
        · rename_i c' hgc
          exact closeCtx_mid h c' (getCtx_mem hgc)
        · exact h
      · exact h
    · split
      · split
        · exact good_append g (closeCtx_good _)
        · exact g
      · exact g

theorem closePipes_mid {s : State} : ∀ (xs : List Pipe) (acc : State × List Out), Mid s acc.1 → Good s acc.2 →
    let r := xs.foldl (fun (acc : State × List Out) pp =>
        ((closePipe acc.1 pp.id).1, acc.2 ++ (closePipe acc.1 pp.id).2)) acc
    Mid s r.1 ∧ Good s r.2 := by
  intro xs
  induction xs with
  | nil => intro acc h g; exact ⟨h, g⟩
  | cons x rest ih =>
    intro acc h g
    simp only [List.foldl_cons]
    exact ih _ (closePipe_midS h x.id) (good_append g (closePipe_good h x.id))

theorem closeAll_good {s : State} (hI : MInv s) : Good s (closeAll s).2 := by
  unfold closeAll
  simp only
  have h0 : Mid s s := ⟨fun c hc ps hps => ⟨c, hc, hps⟩, hI.n, hI.q⟩
  obtain ⟨m1, g1⟩ := closeCtxs_mid (s := s) (fun c => c.key != none) s.ctxs (s, []) h0 (good_nil s)
  obtain ⟨m2, g2⟩ := closePipes_mid (s := s) (closeCtxs s (fun c => c.key != none)).1.pipes
    ((closeCtxs s (fun c => c.key != none)).1, []) m1 (good_nil s)
  obtain ⟨_, g3⟩ := closeCtxs_mid (s := s) (fun c => c.key == none) (closePipes (closeCtxs s (fun c => c.key != none)).1).1.ctxs
    ((closePipes (closeCtxs s (fun c => c.key != none)).1).1, []) m2 (good_nil s)
  exact good_append (good_append g1 g2) g3

/-! ### the judge on these outputs -/

theorem fold_pclosed (outs : List Out) : ∀ (L : List Out) (j : RespJ), (∀ o ∈ L, ∃ p, o = Out.pclosed p) →
    (L.foldl (respOut outs) j).pendRecv = j.pendRecv ∧ (L.foldl (respOut outs) j).pendSend = j.pendSend ∧
    (L.foldl (respOut outs) j).err = j.err ∧ (L.foldl (respOut outs) j).closed = j.closed := by
  intro L
  induction L with
  | nil => intro j _; exact ⟨rfl, rfl, rfl, rfl⟩
  | cons o rest ih =>
    intro j h
    obtain ⟨p, rfl⟩ := h _ List.mem_cons_self
    simp only [List.foldl_cons]
    obtain ⟨a, b, c, d⟩ := ih (respOut outs j (.pclosed p)) (fun o ho => h o (List.mem_cons_of_mem _ ho))
    exact ⟨a, b, c, d⟩

theorem close_rc {s : State} {j : RespJ} {used : List Bytes} (hR : Rel s j used) (hI : MInv s) :
    Rc (respStep j .close (closeAll s).2) := by
  have hc := hR.core
  have hg := closeAll_good hI
  generalize (closeAll s).2 = outs at hg ⊢
  have hshape : ∀ o ∈ outs, (∃ p, o = Out.pclosed p) ∨ (∃ a rv m mb, o = Out.done a rv m mb) := by
    intro o ho
    rcases hg o ho with h | ⟨a, mb, h⟩ | ⟨a, h, _⟩
    · exact Or.inl h
    · exact Or.inr ⟨_, _, _, _, h⟩
    · exact Or.inr ⟨_, _, _, _, h⟩
  have hne : notExecuted outs = false := by
    unfold notExecuted
    rw [List.any_eq_false]
    intro o ho
    rcases hshape o ho with ⟨p, rfl⟩ | ⟨_, _, _, _, rfl⟩ <;> simp
  have hbl : hasBlocked outs = false := by
    unfold hasBlocked
    rw [List.any_eq_false]
    intro o ho
    rcases hshape o ho with ⟨p, rfl⟩ | ⟨_, _, _, _, rfl⟩ <;> simp
  have hnops : ∀ b, NoPsend outs b := by
    intro b q m hm
    rcases hshape _ hm with ⟨p, h⟩ | ⟨_, _, _, _, h⟩ <;> cases h
  rw [respStep_eq hc.err hne]
  have hpre : respPre j .close outs = { j with closed := true } := rfl
  rw [hpre, respMid_eq]
  have hrest : ∀ o ∈ outs.filter notDoneL, ∃ p, o = Out.pclosed p := by
    intro o ho
    obtain ⟨hm, hf⟩ := List.mem_filter.1 ho
    rcases hshape o hm with h | ⟨_, _, _, _, rfl⟩
    · exact h
    · simp [notDoneL] at hf
  obtain ⟨e1, e2, e3, e4⟩ := fold_pclosed outs (outs.filter notDoneL) { j with closed := true } hrest
  generalize (outs.filter notDoneL).foldl (respOut outs) { j with closed := true } = ja at e1 e2 e3 e4
  have e1' : ja.pendRecv = j.pendRecv := e1
  have e2' : ja.pendSend = j.pendSend := e2
  have hnd : (aiosOf ja).Nodup := by
    unfold aiosOf; rw [e1', e2']; exact hc.aios
  rw [fold_dones outs (outs.filter isDoneL) ja hnd]
  · apply rc_post _ _ _ rfl hbl rfl
    refine ⟨e3.trans hc.err, e4, ?_⟩
    intro x hx
    have hx' : x ∈ ja.pendRecv := (List.mem_filter.1 hx).1
    rw [e1'] at hx'
    exact hc.zero x hx'
  · intro o ho
    obtain ⟨hm, hf⟩ := List.mem_filter.1 ho
    rcases hg o hm with ⟨p, rfl⟩ | ⟨a, mb, rfl⟩ | ⟨a, rfl, c, hcm, ps, hs, rfl, hpc⟩
    · simp [isDoneL] at hf
    · refine ⟨a, Err.eclosed, mb, rfl, fun _ _ _ => by decide, ?_⟩
      intro e he _
      rw [e2'] at he
      exact ⟨hc.fresh e he, fun h => absurd h (by decide)⟩
    · have hem : expOf c ps ∈ j.pendSend := (hc.ps _).2 ⟨c, hcm, ps, hs, rfl⟩
      refine ⟨ps.aio, 0, false, rfl, ?_, ?_⟩
      · intro x hx ea
        rw [e1'] at hx
        exact absurd ea (recv_send_aio_ne hc.aios hx hem)
      · intro e he ea
        rw [e2'] at he
        have : e = expOf c ps := send_aio_inj hc.aios he hem ea
        subst this
        refine ⟨rfl, fun _ => ⟨hnops _, ?_⟩⟩
        have : outs.contains (Out.pclosed (expOf c ps).pipe) = true := List.contains_iff_mem.2 hpc
        rw [this]; simp

end Nng.RespJudge
