/-
  Raw judges vs raw models: cancel / abort / expiry of parked receives, operations on contexts,
  and receives (`nni_sock_recv`).
-/
import NngModel.Proofs.RawJudgeEvA
namespace Nng.RawSurv
open Nng Nng.Proto Nng.RawMq Nng.RawSurveySpec

attribute [local simp] xOut_rv xOut_rv2 xOut_parm xOut_pipe

/-! ### lists of completions -/

theorem fold_pipe_dones (X : List Out) : ∀ (outs : List Out) (j : XJ), (∀ o ∈ outs, isDone o = true) →
    outs.foldl (pipeStep X) j = j := by
  intro outs
  induction outs with
  | nil => intro j _; rfl
  | cons o os ih =>
    intro j h
    have ho := h o (by simp)
    simp only [List.foldl_cons]
    cases o <;> simp [isDone] at ho
    exact ih _ (fun o ho => h o (by simp [ho]))

theorem procOuts_dones (resp : Bool) (outs : List Out) (j : XJ) (h : ∀ o ∈ outs, isDone o = true) :
    procOuts resp outs j = outs.foldl (doneStep resp) j := by
  unfold procOuts
  rw [fold_pipe_dones _ _ _ h]
  have e1 : outs.filter isDone = outs := List.filter_eq_self.2 h
  have e2 : outs.filter (fun o => !isDone o) = [] := by
    rw [List.filter_eq_nil_iff]; intro o ho; simp [h o ho]
  rw [e1, e2]; rfl

theorem notExecuted_dones (outs : List Out) (h : ∀ o ∈ outs, isDone o = true) : notExecuted outs = false := by
  unfold notExecuted
  rw [List.any_eq_false]
  intro o ho
  have := h o ho
  cases o <;> simp [isDone] at this <;> simp

theorem blocked_dones (outs : List Out) (h : ∀ o ∈ outs, isDone o = true) : outs.any isBlocked = false := by
  rw [List.any_eq_false]
  intro o ho
  have := h o ho
  cases o <;> simp [isDone] at this <;> simp [isBlocked]

theorem pollOf_dones (outs : List Out) (h : ∀ o ∈ outs, isDone o = true) : pollOf outs = none := by
  unfold pollOf
  rw [List.findSome?_eq_none_iff]
  intro o ho
  have := h o ho
  cases o <;> simp [isDone] at this <;> rfl

/-! ### nni_msgq_cancel -/

theorem failAio_eq_some {s : State} {a : Nat} {g : Get} (rv : Nat) (h : s.urq.getq.find? (·.tag == a) = some g) :
    failAio s a rv = ({ s with urq := { s.urq with getq := s.urq.getq.filter (·.tag != a) } }, [.done a rv none false]) := by
  unfold failAio cancelGet
  simp only [h]

theorem failAio_eq_none {s : State} {a : Nat} (rv : Nat) (h : s.urq.getq.find? (·.tag == a) = none) (hp : s.uwq.putq = []) :
    failAio s a rv = (s, []) := by
  unfold failAio cancelGet cancelPut
  simp only [h, hp, List.find?_nil]

theorem recvs_find {s : State} {j : XJ} (h : Rc s j) (a : Nat) :
    j.recvs.find? (·.1 == a) = (s.urq.getq.find? (·.tag == a)).map (fun g => (g.tag, false)) := by
  rw [h.recvs, List.find?_map]; rfl

theorem recvs_filter {s : State} {j : XJ} (h : Rc s j) (a : Nat) :
    j.recvs.filter (·.1 != a) = (s.urq.getq.filter (·.tag != a)).map (fun g => (g.tag, false)) := by
  rw [h.recvs, List.filter_map]; rfl

/-- the model state changed in the list of parked readers only -/
theorem Rc.getq {s : State} {j : XJ} (h : Rc s j) (gq : List Get) (rc : List (Nat × Bool))
    (h1 : rc = gq.map (fun g => (g.tag, false))) (h2 : (gq.map (·.tag)).Nodup) :
    Rc { s with urq := { s.urq with getq := gq } } { j with recvs := rc } :=
  ⟨h.err, h.jclosed, h.ttl, h.liveN, fun p pp hg => ⟨(h.pipes p pp hg).live, (h.pipes p pp hg).busy, (h.pipes p pp hg).idle,
    (h.pipes p pp hg).acc, (h.pipes p pp hg).wired⟩, ⟨h.out.live, h.out.busy, h.out.acc, h.out.wired⟩, h1, h2, h.sends, h.held,
    h.heldN, h.heldA, h.heldP⟩

theorem failAio_Rc {k : Kind} {sel : Sel} (resp : Bool) {s : State} {j : XJ} (hI : Inv k sel s) (h : Rc s j) (a rv : Nat)
    (hrv : rv ≠ 0) :
    Rc (failAio s a rv).1 ((failAio s a rv).2.foldl (doneStep resp) j) ∧ ∀ o ∈ (failAio s a rv).2, isDone o = true := by
  cases hf : s.urq.getq.find? (·.tag == a) with
  | none =>
    rw [failAio_eq_none rv hf hI.uwq.putq]
    exact ⟨h, by simp⟩
  | some g =>
    rw [failAio_eq_some rv hf]
    refine ⟨?_, by simp [isDone]⟩
    simp only [List.foldl_cons, List.foldl_nil, doneStep]
    have hfj := recvs_find h a
    rw [hf] at hfj
    rw [xDone_recv_fail resp j a rv g.tag false false hfj hrv (fun hx => by cases hx)]
    exact h.getq _ _ (recvs_filter h a) (h.tags.sublist (List.filter_sublist.map _))

theorem ev_failAio {k : Kind} {sel : Sel} {resp : Bool} {s : State} {j : XJ} (hI : Inv k sel s) (hR : R s j) (ev : Ev) (a rv : Nat)
    (hrv : rv ≠ 0) (hpre : ∀ outs, xPre resp j ev outs = (j, none)) :
    R (failAio s a rv).1 (xStep resp j ev (failAio s a rv).2) := by
  obtain ⟨h1, h2⟩ := failAio_Rc resp hI hR.core a rv hrv
  have hI1 := failAio_inv s a rv hI
  refine step_finish hI1 hR.core.err (notExecuted_dones _ h2) ?_ ?_ (blocked_dones _ h2) ?_
  · rw [hpre, procOuts_dones _ _ _ h2]; exact h1
  · rw [hpre]; rfl
  · intro rd wr hp; rw [pollOf_dones _ h2] at hp; cases hp

/-! ### advance: expiry of parked receives -/

theorem expire_fold {k : Kind} {sel : Sel} (resp : Bool) : ∀ (as : List Nat) (s : State) (j : XJ) (o0 : List Out),
    Inv k sel s → Rc s j →
    ∃ os, (as.foldl (fun (acc : State × List Out) a =>
        let (s', o) := failAio acc.1 a Err.etimedout
        (s', acc.2 ++ o)) (s, o0)).2 = o0 ++ os ∧ (∀ o ∈ os, isDone o = true) ∧
      Rc (as.foldl (fun (acc : State × List Out) a =>
        let (s', o) := failAio acc.1 a Err.etimedout
        (s', acc.2 ++ o)) (s, o0)).1 (os.foldl (doneStep resp) j) ∧
      Inv k sel (as.foldl (fun (acc : State × List Out) a =>
        let (s', o) := failAio acc.1 a Err.etimedout
        (s', acc.2 ++ o)) (s, o0)).1 := by
  intro as
  induction as with
  | nil => intro s j o0 hI h; exact ⟨[], by simp, by simp, h, hI⟩
  | cons a as ih =>
    intro s j o0 hI h
    simp only [List.foldl_cons]
    obtain ⟨h1, h2⟩ := failAio_Rc resp hI h a Err.etimedout (by decide)
    have hI1 := failAio_inv s a Err.etimedout hI
    obtain ⟨os, e1, e2, e3, e4⟩ := ih (failAio s a Err.etimedout).1 _ (o0 ++ (failAio s a Err.etimedout).2) hI1 h1
    refine ⟨(failAio s a Err.etimedout).2 ++ os, ?_, ?_, ?_, e4⟩
    · rw [e1]; simp
    · intro o ho
      rcases List.mem_append.1 ho with ho | ho
      · exact h2 o ho
      · exact e2 o ho
    · rw [List.foldl_append]; exact e3

theorem Rc.now {s : State} {j : XJ} (h : Rc s j) (n : Nat) : Rc { s with now := n } j :=
  h.frame rfl rfl rfl rfl

theorem ev_advance {k : Kind} {sel : Sel} {resp : Bool} {s : State} {j : XJ} (hI : Inv k sel s) (hR : R s j) (ms : Nat) :
    R (expire { s with now := s.now + ms }).1 (xStep resp j (.advance ms) (expire { s with now := s.now + ms }).2) := by
  unfold expire
  simp only []
  generalize (List.map (·.tag) (List.filter _ ({ s with now := s.now + ms } : State).urq.getq) ++
    List.map (·.tag) (List.filter _ ({ s with now := s.now + ms } : State).uwq.putq)) = as
  obtain ⟨os, e1, e2, e3, e4⟩ := expire_fold resp as { s with now := s.now + ms } j [] (setNow_inv s _ hI) (hR.core.now _)
  simp only [List.nil_append] at e1
  rw [e1]
  refine step_finish e4 hR.core.err (notExecuted_dones _ e2) ?_ (by rfl) (blocked_dones _ e2) ?_
  · have : xPre resp j (.advance ms) os = (j, none) := rfl
    rw [this, procOuts_dones _ _ _ e2]; exact e3
  · intro rd wr hp; rw [pollOf_dones _ e2] at hp; cases hp

end Nng.RawSurv
