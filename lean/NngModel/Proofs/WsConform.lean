import NngModel.Proofs.WsFrame
namespace Nng.Ws
open Nng.WsSpec

theorem lenCode_126 (len : Nat) (h : lenCode len = 126) : len ≥ 126 := by
  unfold lenCode at h; split at h <;> (try split at h) <;> omega

theorem lenCode_127 (len : Nat) (h : lenCode len = 127) : len ≥ 65536 := by
  unfold lenCode at h; split at h <;> (try split at h) <;> omega

/-- every frame the encoder builds is a conforming frame for its direction -/
theorem encode_conforming (server : Bool) (key : Bytes) (op : Nat) (fin : Bool) (payload : Bytes)
    (hk : server = false → key.length = 4) (hop : op ∈ [0, 1, 2, 8, 9, 10]) (hlen : payload.length < 2 ^ 63)
    (hctl : op ≥ 8 → payload.length ≤ 125 ∧ fin = true) :
    conforming (!server) (encode server key op fin payload) = true := by
  have hp := parseFrame_encode server key op fin payload [] hk (by omega)
  rw [List.append_nil] at hp
  unfold conforming
  rw [hp]
  have h126 := lenCode_126 payload.length
  have h127 := lenCode_127 payload.length
  have hop' : op = 0 ∨ op = 1 ∨ op = 2 ∨ op = 8 ∨ op = 9 ∨ op = 10 := by simpa using hop
  simp only [frameOk, knownOpcode, isControl]
  rcases hop' with h | h | h | h | h | h <;> subst h <;> simp <;> (try omega) <;>
    first
    | (refine ⟨⟨?_, ?_⟩, ?_⟩ <;> (try omega) <;> (try (intro h; first | exact h126 h | exact h127 h)) <;> (try exact (hctl (by omega))))
    | skip

end Nng.Ws
