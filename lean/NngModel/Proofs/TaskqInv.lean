/- the counting invariant of the task-queue model: task_busy = (unconsumed prep) + (every dispatch /
   exec in flight, wherever it is), the ghost counters line up with where the threads are, nobody
   sleeps on task_cv while task_busy is 0, and a queued task always has a worker that is awake.
   Holds for ALL schedules - no contract needed. -/
import NngModel.Proofs.TaskqBasic
namespace Nng.Taskq

structure Inv (s : State) : Prop where
  busyEq : s.busy = s.owed + cc .dispEnq s.cs + s.onq.toNat + cw .popped s.ws + cw .inCb s.ws + cw .after s.ws
             + cc .execPop s.cs + cc .execCb s.cs + cc .execAfter s.cs
  sdEq : s.sd = s.bw + cc .dispEnq s.cs + s.onq.toNat + cw .popped s.ws
  sxEq : s.sx = s.bx + cc .execPop s.cs
  bEq : s.bw + s.bx = s.ce + cw .inCb s.ws + cc .execCb s.cs
  ceEq : s.ce = s.dn + cw .after s.ws + cc .execAfter s.cs
  prepOwed : s.prep = true → 1 ≤ s.owed
  noUnder : s.under = false
  sleepers : s.busy = 0 → cc .waitSleep s.cs = 0
  nonempty : 0 < s.ws.length
  qworker : s.onq = true → cw .sleep s.ws < s.ws.length

theorem cw_replicate_ne {q w : WPc} (h : w ≠ q) (n : Nat) : cw q (List.replicate n w) = 0 :=
  cw_zero (fun x hx => by rw [List.eq_of_mem_replicate hx]; exact h)

theorem inv_init (nw : Nat) (hw : 0 < nw) (progs : List (List Op)) : Inv (init nw progs) := by
  have hc : ∀ q, q ≠ CPc.idle → cc q (progs.map fun p => (⟨.idle, p, []⟩ : Client)) = 0 := by
    intro q hq
    apply cc_zero
    intro c hc
    simp only [List.mem_map] at hc
    obtain ⟨p, _, rfl⟩ := hc
    exact Ne.symm hq
  constructor <;> simp [init, hc, cw_replicate_ne, hw]

/-- the decrement section, given that the state before it accounts for the execution being finished -/
theorem inv_wstep {s : State} (h : Inv s) {j : Nat} {w : WPc} (hj : s.ws[j]? = some w) : Inv (wstep s j w) := by
  have hp := fun w' => cw_set hj w' .popped
  have hi := fun w' => cw_set hj w' .inCb
  have ha := fun w' => cw_set hj w' .after
  have hs := fun w' => cw_set hj w' .sleep
  have hpos := cw_pos hj
  obtain ⟨h1, h2, h3, h4, h5, h6, h7, h8, h9, h10⟩ := h
  cases w with
  | sleep => exact ⟨h1, h2, h3, h4, h5, h6, h7, h8, h9, h10⟩
  | ready =>
    have hp1 := hp .popped; have hi1 := hi .popped; have ha1 := ha .popped; have hs1 := hs .popped
    have hp2 := hp .sleep; have hi2 := hi .sleep; have ha2 := ha .sleep; have hs2 := hs .sleep
    simp [indW] at hp1 hi1 ha1 hs1 hp2 hi2 ha2 hs2
    unfold wstep
    by_cases hq : s.onq = true
    · simp only [hq, if_true]
      simp only [hq, Bool.toNat_true] at h1 h2
      constructor <;> simp <;> omega
    · simp only [hq]
      simp only [Bool.not_eq_true] at hq
      simp only [hq, Bool.toNat_false] at h1 h2
      constructor <;> simp <;> omega
  | popped =>
    have hp1 := hp .inCb; have hi1 := hi .inCb; have ha1 := ha .inCb; have hs1 := hs .inCb
    simp [indW] at hp1 hi1 ha1 hs1
    unfold wstep
    constructor <;> simp <;> first | omega | (intro hq; have := h10 hq; omega)
  | inCb =>
    have hp1 := hp .after; have hi1 := hi .after; have ha1 := ha .after; have hs1 := hs .after
    simp [indW] at hp1 hi1 ha1 hs1
    unfold wstep
    constructor <;> simp <;> first | omega | (intro hq; have := h10 hq; omega)
  | after =>
    have hp1 := hp .ready; have hi1 := hi .ready; have ha1 := ha .ready; have hs1 := hs .ready
    simp [indW] at hp1 hi1 ha1 hs1
    unfold wstep decBusy
    by_cases hb : s.busy = 1
    · constructor <;> simp [hb, h7, cc_wakeAll, cc_sleep_wakeAll] <;> first | omega | (intro hq; have := h10 hq; omega)
    · constructor <;> simp [hb, h7] <;> first | omega | (intro hq; have := h10 hq; omega)

set_option hygiene false in
local macro "cfacts" hi:ident c:term : tactic => `(tactic| (
  have e1 := cc_set $hi $c .dispEnq
  have e2 := cc_set $hi $c .execPop
  have e3 := cc_set $hi $c .execCb
  have e4 := cc_set $hi $c .execAfter
  have e5 := cc_set $hi $c .waitSleep
  simp [indC] at e1 e2 e3 e4 e5))

set_option hygiene false in
local macro "cfin" : tactic => `(tactic| (
  first | omega | (intro hq; have := h10 hq; omega) | (intro hq; have := h6 hq; omega) | (intro hq; have := h8 hq; omega)
        | (intro hq; have := h8 (by omega); omega)))

theorem inv_cstep (hasCb : Bool) {s : State} (h : Inv s) {i : Nat} {c : Client} (hi : s.cs[i]? = some c) (pick : Nat) :
    Inv (cstep hasCb s i c pick) := by
  have hpos := cc_pos hi
  obtain ⟨h1, h2, h3, h4, h5, h6, h7, h8, h9, h10⟩ := h
  obtain ⟨pc, prog, res⟩ := c
  cases pc with
  | waitSleep => exact ⟨h1, h2, h3, h4, h5, h6, h7, h8, h9, h10⟩
  | idle =>
    cases prog with
    | nil => exact ⟨h1, h2, h3, h4, h5, h6, h7, h8, h9, h10⟩
    | cons op r =>
      cases op with
      | prep =>
        cfacts hi (⟨.idle, r, res⟩ : Client)
        unfold cstep
        constructor <;> simp [h7] <;> cfin
      | busy =>
        cfacts hi (⟨.idle, r, res ++ [.busy (s.busy != 0)]⟩ : Client)
        unfold cstep
        constructor <;> simp [h7] <;> cfin
      | wait =>
        unfold cstep
        by_cases hb : s.busy = 0
        · cfacts hi (⟨.idle, r, res ++ [.waited]⟩ : Client)
          constructor <;> simp [h7, hb] <;> cfin
        · cfacts hi (⟨.waitSleep, r, res⟩ : Client)
          constructor <;> simp [h7, hb] <;> cfin
      | dispatch =>
        unfold cstep take
        cases hasCb with
        | true =>
          cfacts hi (⟨.dispEnq, r, res⟩ : Client)
          by_cases hp : s.prep = true
          · have := h6 hp
            constructor <;> simp [h7, hp] <;> cfin
          · constructor <;> simp [h7, hp] <;> cfin
        | false =>
          cfacts hi (⟨.idle, r, res⟩ : Client)
          unfold decBusy
          by_cases hp : s.prep = true
          · have := h6 hp
            by_cases hb : s.busy = 1
            · constructor <;> simp [h7, hp, hb, cc_wakeAll, cc_sleep_wakeAll] <;> cfin
            · constructor <;> simp [h7, hp, hb] <;> cfin
          · by_cases hb : s.busy = 0
            · constructor <;> simp [h7, hp, hb, cc_wakeAll, cc_sleep_wakeAll] <;> cfin
            · constructor <;> simp [h7, hp, hb] <;> cfin
      | exec =>
        unfold cstep take
        cases hasCb with
        | true =>
          cfacts hi (⟨.execPop, r, res⟩ : Client)
          by_cases hp : s.prep = true
          · have := h6 hp
            constructor <;> simp [h7, hp] <;> cfin
          · constructor <;> simp [h7, hp] <;> cfin
        | false =>
          cfacts hi (⟨.idle, r, res⟩ : Client)
          unfold decBusy
          by_cases hp : s.prep = true
          · have := h6 hp
            by_cases hb : s.busy = 1
            · constructor <;> simp [h7, hp, hb, cc_wakeAll, cc_sleep_wakeAll] <;> cfin
            · constructor <;> simp [h7, hp, hb] <;> cfin
          · by_cases hb : s.busy = 0
            · constructor <;> simp [h7, hp, hb, cc_wakeAll, cc_sleep_wakeAll] <;> cfin
            · constructor <;> simp [h7, hp, hb] <;> cfin
  | dispEnq =>
    unfold cstep
    by_cases hq : s.onq = true
    · have h10' := h10 hq
      simp only [hq, Bool.toNat_true] at h1 h2
      constructor <;> simp [h7, hq] <;> cfin
    · cfacts hi (⟨.idle, prog, res⟩ : Client)
      simp only [Bool.not_eq_true] at hq
      have hw1 := cw_wakeOne .popped s.ws pick (by decide) (by decide)
      have hw2 := cw_wakeOne .inCb s.ws pick (by decide) (by decide)
      have hw3 := cw_wakeOne .after s.ws pick (by decide) (by decide)
      have hw4 := cw_sleep_wakeOne s.ws pick
      have hw5 := cw_le_length .sleep s.ws
      simp only [hq, Bool.toNat_false] at h1 h2
      constructor <;> simp [h7, hq, hw1, hw2, hw3, hw4, wakeOne_length] <;> cfin
  | execPop =>
    cfacts hi (⟨.execCb, prog, res⟩ : Client)
    unfold cstep
    constructor <;> simp [h7] <;> cfin
  | execCb =>
    cfacts hi (⟨.execAfter, prog, res⟩ : Client)
    unfold cstep
    constructor <;> simp [h7] <;> cfin
  | execAfter =>
    cfacts hi (⟨.idle, prog, res⟩ : Client)
    unfold cstep decBusy
    by_cases hb : s.busy = 1
    · constructor <;> simp [h7, hb, cc_wakeAll, cc_sleep_wakeAll] <;> cfin
    · constructor <;> simp [h7, hb] <;> cfin
  | waitChk =>
    unfold cstep
    by_cases hb : s.busy = 0
    · cfacts hi (⟨.idle, prog, res ++ [.waited]⟩ : Client)
      constructor <;> simp [h7, hb] <;> cfin
    · cfacts hi (⟨.waitSleep, prog, res⟩ : Client)
      constructor <;> simp [h7, hb] <;> cfin

theorem inv_step (hasCb : Bool) {s : State} (h : Inv s) (ch : Choice) : Inv (step hasCb s ch) := by
  unfold step
  split
  · exact h
  · cases ch.tid with
    | w j =>
      simp only []
      cases hj : s.ws[j]? with
      | none => exact h
      | some w => exact inv_wstep h hj
    | c i =>
      simp only []
      cases hi : s.cs[i]? with
      | none => exact h
      | some c => exact inv_cstep hasCb h hi ch.pick

theorem inv_run (hasCb : Bool) {s : State} (h : Inv s) (sched : List Choice) : Inv (run hasCb s sched) := by
  induction sched generalizing s with
  | nil => exact h
  | cons c cs ih => exact ih (inv_step hasCb h c)

end Nng.Taskq
