/-
  RESPONDENT judge simulation, part D: a pipe goes away (`pipe_drop`, a failed transport send or receive,
  a malformed survey): resp0_pipe_close.
-/
import NngModel.Proofs.RespJudgeEvC
namespace Nng.RespJudge
open Nng Nng.Proto Nng.Respond Nng.SurveySpec

/-- the completions `closePipe` puts out: parked responses waiting for the pipe "succeed" -/
def closeDones (s : State) (pp : Pipe) : List Out :=
  pp.sendq.filterMap fun k =>
    match getCtx s k with
    | some c => c.saio.map fun ps => Out.done ps.aio 0 none false
    | none => none

theorem getCtx_ctxs {s s' : State} (h : s'.ctxs = s.ctxs) (k : Option Nat) : getCtx s' k = getCtx s k := by
  unfold getCtx; rw [h]

theorem closeDones_ctxs {s s' : State} (h : s'.ctxs = s.ctxs) (pp : Pipe) : closeDones s' pp = closeDones s pp := by
  unfold closeDones
  simp only [getCtx_ctxs h]

theorem closePipe_out {s : State} {p : Nat} {pp : Pipe} (hg : getPipe s p = some pp) (hc : pp.closed = false) :
    (closePipe s p).2 = closeDones s pp ++ [Out.pclosed p] := by
  unfold closePipe
  simp only [hg, hc, Bool.false_eq_true, ↓reduceIte]
  rw [← closeDones_ctxs (s := s) (s' := dropRecvPipe s p) (by simp)]
  rfl

theorem closePipe_state {s : State} {p : Nat} {pp : Pipe} (hg : getPipe s p = some pp) (hc : pp.closed = false) :
    (closePipe s p).1 =
      setPipe (raiseWritableIf { dropRecvPipe s p with ctxs := (dropRecvPipe s p).ctxs.map fun c => if pp.sendq.contains c.key then { c with saio := none } else c }
        (sockPipeId { dropRecvPipe s p with ctxs := (dropRecvPipe s p).ctxs.map fun c => if pp.sendq.contains c.key then { c with saio := none } else c } == some p))
        { pp with closed := true, busy := false, armed := false, held := none, sendq := [] } := by
  unfold closePipe
  simp only [hg, hc, Bool.false_eq_true, ↓reduceIte]

theorem mem_closeDones {s : State} {pp : Pipe} {o : Out} (h : o ∈ closeDones s pp) :
    ∃ k ∈ pp.sendq, ∃ c ps, getCtx s k = some c ∧ c.saio = some ps ∧ o = Out.done ps.aio 0 none false := by
  unfold closeDones at h
  obtain ⟨k, hk, e⟩ := List.mem_filterMap.1 h
  cases hgc : getCtx s k with
  | none => rw [hgc] at e; cases e
  | some c =>
    rw [hgc] at e
    simp only at e
    cases hs : c.saio with
    | none => rw [hs] at e; cases e
    | some ps =>
      rw [hs] at e
      simp only [Option.map_some, Option.some.injEq] at e
      exact ⟨k, hk, c, ps, hgc, hs, e.symm⟩

theorem closeDones_mem {s : State} {pp : Pipe} {k : Option Nat} {c : Ctx} {ps : PSend} (hk : k ∈ pp.sendq)
    (hgc : getCtx s k = some c) (hs : c.saio = some ps) : Out.done ps.aio 0 none false ∈ closeDones s pp := by
  unfold closeDones
  refine List.mem_filterMap.2 ⟨k, hk, ?_⟩
  rw [hgc]; simp [hs]

/-! ### filters over such output lists -/

def isDoneL : Out → Bool := fun o => match o with | .done .. => true | _ => false
def notDoneL : Out → Bool := fun o => match o with | .done .. => false | _ => true

theorem respMid_eq (outs : List Out) (j : RespJ) :
    respMid outs j = (outs.filter isDoneL).foldl (respOut outs) ((outs.filter notDoneL).foldl (respOut outs) j) := rfl

theorem filter_done_self {ds : List Out} (h : ∀ o ∈ ds, ∃ a rv m mb, o = Out.done a rv m mb) : ds.filter isDoneL = ds := by
  rw [List.filter_eq_self]
  intro o ho
  obtain ⟨a, rv, m, mb, rfl⟩ := h o ho
  rfl

theorem filter_notDone_nil {ds : List Out} (h : ∀ o ∈ ds, ∃ a rv m mb, o = Out.done a rv m mb) : ds.filter notDoneL = [] := by
  rw [List.filter_eq_nil_iff]
  intro o ho
  obtain ⟨a, rv, m, mb, rfl⟩ := h o ho
  simp [notDoneL]

theorem closeDones_done {s : State} {pp : Pipe} : ∀ o ∈ closeDones s pp, ∃ a rv m mb, o = Out.done a rv m mb := by
  intro o ho
  obtain ⟨_, _, _, ps, _, _, rfl⟩ := mem_closeDones ho
  exact ⟨_, _, _, _, rfl⟩

/-! ### aligned filtering of the arrivals -/

theorem filter_arr {f : Nat → Option RArrival} (p : Nat) : ∀ (r : List Nat) (l : List RArrival),
    l.map some = r.map f → (∀ q ∈ r, ∀ ar, f q = some ar → ar.pipe = q) →
    (l.filter (·.pipe != p)).map some = (r.filter (· != p)).map f := by
  intro r
  induction r with
  | nil =>
    intro l h _
    have := map_some_eq_nil (by simpa using h : l.map some = [])
    subst this; rfl
  | cons q rest ih =>
    intro l h hp
    cases l with
    | nil => simp at h
    | cons ar lrest =>
      simp only [List.map_cons, List.cons.injEq] at h
      obtain ⟨h1, h2⟩ := h
      have hq : ar.pipe = q := hp q (List.mem_cons_self) ar h1.symm
      have ih' := ih lrest h2 (fun q' hq' => hp q' (List.mem_cons_of_mem _ hq'))
      simp only [List.filter_cons, hq]
      by_cases e : q = p
      · subst e
        simp only [bne_self_eq_false, Bool.false_eq_true, ↓reduceIte]
        exact ih'
      · have : (q != p) = true := by simpa using e
        simp only [this, ↓reduceIte, List.map_cons, List.cons.injEq]
        exact ⟨h1, ih'⟩

theorem filter_idem (l : List Nat) (p : Nat) : (l.filter (· != p)).filter (· != p) = l.filter (· != p) := by
  rw [List.filter_filter]
  congr 1
  funext a
  simp

/-! ### the relation after resp0_pipe_close -/

def jClose (j : RespJ) (p : Nat) (ds : List Out) : RespJ :=
  { j with gone := j.gone ++ [p], arrivals := j.arrivals.filter (·.pipe != p), inflight := j.inflight.filter (· != p),
           pendRecv := j.pendRecv.filter (fun x => !(doneAios ds).contains x.1),
           pendSend := j.pendSend.filter (fun e => !(doneAios ds).contains e.aio) }

theorem mem_doneAios {ds : List Out} {a : Nat} : a ∈ doneAios ds ↔ ∃ rv m mb, Out.done a rv m mb ∈ ds := by
  unfold doneAios
  rw [List.mem_filterMap]
  constructor
  · rintro ⟨o, ho, e⟩
    cases o <;> simp [doneAio] at e
    subst e
    exact ⟨_, _, _, ho⟩
  · rintro ⟨rv, m, mb, h⟩
    exact ⟨_, h, rfl⟩

/-- the aio of a completion put out by `closePipe` is the parked send of a context waiting on the pipe -/
theorem closeDones_aio {s : State} {pp : Pipe} {a : Nat} (h : a ∈ doneAios (closeDones s pp)) :
    ∃ k ∈ pp.sendq, ∃ c ps, getCtx s k = some c ∧ c.saio = some ps ∧ ps.aio = a := by
  obtain ⟨rv, m, mb, hm⟩ := mem_doneAios.1 h
  obtain ⟨k, hk, c, ps, hgc, hs, e⟩ := mem_closeDones hm
  injection e with e1
  exact ⟨k, hk, c, ps, hgc, hs, e1.symm⟩

theorem rel_closePipe {s s' : State} {j : RespJ} {used : List Bytes} (hc : RelCore s j used) (hI : MInv s)
    {p : Nat} {pp pp' : Pipe} (hg : getPipe s p = some pp)
    (h1 : s'.ctxs = s.ctxs.map fun c => if pp.sendq.contains c.key then { c with saio := none } else c)
    (h2 : ∀ q, getPipe s' q = if q = p then some pp' else getPipe s q)
    (hpc : pp'.closed = true) (hpb : pp'.busy = false)
    (h3 : s'.recvpipes = s.recvpipes.filter (· != p)) (h4 : s'.ttl = s.ttl) (h5 : s'.opened = s.opened)
    (h6 : s'.closed = s.closed) :
    RelCore s' (jClose j p (closeDones s pp)) used := by
  have hkeys := hI.n.keys
  refine ⟨hc.err, by rw [h6]; exact hc.closed, by rw [h5, h4]; exact hc.ttl, by rw [h5]; exact hc.ttl0, ?_, ?_, ?_, ?_, ?_, ?_, ?_, ?_, ?_⟩
  · -- contexts
    show j.ctxs = s'.ctxs.map absCtx
    rw [h1, hc.ctxs, List.map_map]
    apply List.map_congr_left
    intro c _
    simp only [Function.comp]
    split <;> rfl
  · -- arrivals
    show (j.arrivals.filter (·.pipe != p)).map some = s'.recvpipes.map (arrOf s')
    rw [h3]
    have hf := filter_arr (f := arrOf s) p s.recvpipes j.arrivals hc.arr (by
      intro q hq ar har
      exact (arr_lt hI.n.ids har).2)
    rw [hf]
    apply List.map_congr_left
    intro q hq
    have hqp : q ≠ p := (mem_filter_ne.1 hq).2
    unfold arrOf
    rw [h2 q, if_neg hqp]
  · -- parked receives
    intro x
    show x ∈ j.pendRecv.filter (fun x => !(doneAios (closeDones s pp)).contains x.1) ↔ PRof s' x
    have hP : PRof s' x ↔ PRof s x := by
      unfold PRof
      rw [h1]
      constructor
      · rintro ⟨c', hc', r, hr, rfl⟩
        obtain ⟨c, hcm, rfl⟩ := List.mem_map.1 hc'
        refine ⟨c, hcm, r, ?_, ?_⟩
        · revert hr; split <;> exact id
        · split <;> rfl
      · rintro ⟨c, hcm, r, hr, rfl⟩
        refine ⟨_, List.mem_map.2 ⟨c, hcm, rfl⟩, r, ?_, ?_⟩
        · split <;> exact hr
        · split <;> rfl
    rw [hP, List.mem_filter, hc.pr x]
    constructor
    · exact fun h => h.1
    · intro hx
      refine ⟨hx, ?_⟩
      simp only [Bool.not_eq_eq_eq_not, Bool.not_true, List.contains_eq_mem, decide_eq_false_iff_not]
      intro hmem
      obtain ⟨k, _, c, ps, hgc, hs, ea⟩ := closeDones_aio hmem
      have hem : expOf c ps ∈ j.pendSend := (hc.ps _).2 ⟨c, getCtx_mem hgc, ps, hs, rfl⟩
      exact recv_send_aio_ne hc.aios ((hc.pr x).2 hx) hem ea.symm
  · -- parked sends
    intro e
    show e ∈ j.pendSend.filter (fun e => !(doneAios (closeDones s pp)).contains e.aio) ↔ PSof s' e
    rw [List.mem_filter, hc.ps e]
    simp only [Bool.not_eq_eq_eq_not, Bool.not_true, List.contains_eq_mem, decide_eq_false_iff_not]
    unfold PSof
    rw [h1]
    constructor
    · rintro ⟨⟨c, hcm, ps, hs, rfl⟩, hnot⟩
      have hk : ¬ c.key ∈ pp.sendq := by
        intro hk
        apply hnot
        exact mem_doneAios.2 ⟨_, _, _, closeDones_mem hk (getCtx_of_mem hkeys hcm) hs⟩
      refine ⟨_, List.mem_map.2 ⟨c, hcm, rfl⟩, ps, ?_, ?_⟩
      · rw [if_neg (by simpa using hk)]; exact hs
      · rw [if_neg (by simpa using hk)]
    · rintro ⟨c', hc', ps, hs, rfl⟩
      obtain ⟨c, hcm, rfl⟩ := List.mem_map.1 hc'
      by_cases hk : pp.sendq.contains c.key = true
      · rw [if_pos hk] at hs; cases hs
      · rw [if_neg hk] at hs ⊢
        refine ⟨⟨c, hcm, ps, hs, rfl⟩, ?_⟩
        intro hmem
        obtain ⟨k, hkq, c2, ps2, hgc2, hs2, ea⟩ := closeDones_aio hmem
        have hem : expOf c ps ∈ j.pendSend := (hc.ps _).2 ⟨c, hcm, ps, hs, rfl⟩
        have hem2 : expOf c2 ps2 ∈ j.pendSend := (hc.ps _).2 ⟨c2, getCtx_mem hgc2, ps2, hs2, rfl⟩
        have := send_aio_inj hc.aios hem2 hem ea
        have hkk : (expOf c2 ps2).ctx = (expOf c ps).ctx := by rw [this]
        have : c2.key = c.key := hkk
        rw [getCtx_key hgc2] at this
        apply hk
        rw [← this]
        exact List.contains_iff_mem.2 hkq
  · exact aios_sub (j := j) List.filter_sublist List.filter_sublist hc.aios
  · -- gone
    intro q
    show q ∈ j.gone ++ [p] ↔ _
    rw [h2 q]
    by_cases e : q = p
    · subst e; simp [hpc]
    · rw [if_neg e, ← hc.gone q]; simp [e]
  · -- in flight
    intro q
    show q ∈ j.inflight.filter (· != p) ↔ _
    rw [h2 q, mem_filter_ne]
    by_cases e : q = p
    · subst e; simp [hpb]
    · rw [if_neg e, ← hc.infl q]; simp [e]
  · exact List.Sublist.nodup (List.Sublist.map _ List.filter_sublist) hc.bodies
  · intro e he; exact hc.used e (List.mem_filter.1 he).1

/-! ### the judge on the outputs of resp0_pipe_close -/

theorem closePipe_filters (ds : List Out) (p : Nat) (h : ∀ o ∈ ds, ∃ a rv m mb, o = Out.done a rv m mb) :
    ([Out.rv 0] ++ (ds ++ [Out.pclosed p])).filter notDoneL = [Out.rv 0, Out.pclosed p] ∧
    ([Out.rv 0] ++ (ds ++ [Out.pclosed p])).filter isDoneL = ds := by
  simp only [List.filter_append, filter_notDone_nil h, filter_done_self h]
  constructor
  · rfl
  · show [] ++ (ds ++ []) = ds
    simp

theorem closePipe_mid {s : State} {j : RespJ} {used : List Bytes} (hc : RelCore s j used) (hI : MInv s)
    {p : Nat} {pp : Pipe} (hg : getPipe s p = some pp) (j0 : RespJ)
    (hj0 : j0 = j ∨ j0 = { j with inflight := j.inflight.filter (· != p) }) :
    respMid ([.rv 0] ++ (closeDones s pp ++ [.pclosed p])) j0 = jClose j p (closeDones s pp) := by
  obtain ⟨f1, f2⟩ := closePipe_filters (closeDones s pp) p closeDones_done
  rw [respMid_eq, f1, f2]
  simp only [List.foldl_cons, List.foldl_nil, respOut_rv, respOut_pclosed]
  have hA : ({ j0 with gone := j0.gone ++ [p], arrivals := j0.arrivals.filter (·.pipe != p),
                       inflight := j0.inflight.filter (· != p) } : RespJ) =
      { j with gone := j.gone ++ [p], arrivals := j.arrivals.filter (·.pipe != p), inflight := j.inflight.filter (· != p) } := by
    rcases hj0 with rfl | rfl
    · rfl
    · simp only [filter_idem]
  rw [hA]
  rw [fold_dones]
  · rfl
  · exact hc.aios
  · intro o ho
    obtain ⟨k, hk, c, ps, hgc, hs, rfl⟩ := mem_closeDones ho
    have hcm := getCtx_mem hgc
    have hem : expOf c ps ∈ j.pendSend := (hc.ps _).2 ⟨c, hcm, ps, hs, rfl⟩
    refine ⟨ps.aio, 0, false, rfl, ?_, ?_⟩
    · intro x hx ea
      exact absurd ea (recv_send_aio_ne hc.aios hx hem)
    · intro e he ea
      have he' : e = expOf c ps := send_aio_inj hc.aios he hem ea
      subst he'
      refine ⟨rfl, fun _ => ⟨?_, ?_⟩⟩
      · intro q m hm
        simp only [List.mem_append, List.mem_cons, List.not_mem_nil, or_false] at hm
        rcases hm with hm | hm | hm
        · cases hm
        · obtain ⟨_, _, _, _, _, _, e⟩ := mem_closeDones hm; cases e
        · cases hm
      · have hpp : pp ∈ s.pipes := getPipe_mem hg
        obtain ⟨_, hl⟩ := hI.q.link pp hpp k hk
        obtain ⟨ps', hs', hexp⟩ := hl c hcm (getCtx_key hgc)
        rw [hs] at hs'
        injection hs' with hs'
        subst hs'
        have : (expOf c ps).pipe = p := by
          show expPipe ps = p
          unfold expPipe
          rw [hexp]
          exact getPipe_id hg
        rw [this]
        simp

/-- a step in which pipe `p` is closed -/
theorem closePipe_ok {s : State} {j : RespJ} {used : List Bytes} (hR : Rel s j used) (hI : MInv s)
    (ev : Ev) {p : Nat} {pp : Pipe} (hg : getPipe s p = some pp) (hcl : pp.closed = false)
    (hpre : respPre j ev ([.rv 0] ++ (closePipe s p).2) = j ∨
      respPre j ev ([.rv 0] ++ (closePipe s p).2) = { j with inflight := j.inflight.filter (· != p) })
    (hcc : ∀ j', ctxCloseStep ev ([.rv 0] ++ (closePipe s p).2) j' = j') (hnb : isNbSock ev = false) (hnp : ev ≠ .poll) :
    Rel (closePipe s p).1 (respStep j ev ([.rv 0] ++ (closePipe s p).2)) used := by
  have hc := hR.core
  have hout := closePipe_out hg hcl
  have hne : notExecuted ([.rv 0] ++ (closePipe s p).2) = false := by
    rw [hout]
    unfold notExecuted
    rw [List.any_eq_false]
    intro o ho
    simp only [List.mem_append, List.mem_cons, List.not_mem_nil, or_false] at ho
    rcases ho with rfl | ho | rfl
    · simp
    · obtain ⟨_, _, _, _, rfl⟩ := closeDones_done o ho; simp
    · simp
  have hbl : hasBlocked ([.rv 0] ++ (closePipe s p).2) = false := by
    rw [hout]
    unfold hasBlocked
    rw [List.any_eq_false]
    intro o ho
    simp only [List.mem_append, List.mem_cons, List.not_mem_nil, or_false] at ho
    rcases ho with rfl | ho | rfl
    · simp
    · obtain ⟨_, _, _, _, rfl⟩ := closeDones_done o ho; simp
    · simp
  have hj2 : ctxCloseStep ev ([.rv 0] ++ (closePipe s p).2)
      (respMid ([.rv 0] ++ (closePipe s p).2) (respPre j ev ([.rv 0] ++ (closePipe s p).2))) = jClose j p (closeDones s pp) := by
    rw [hcc]
    have := closePipe_mid hc hI hg (respPre j ev ([.rv 0] ++ (closePipe s p).2)) hpre
    rw [hout]
    rw [hout] at this
    exact this
  refine step_finish ev _ hc.err hne (closePipe_ninv p hI.n) hj2 ?_ hbl (pollClause_skip _ _ _ hnb) (by rw [pollOf_skip hnp]; intro r w h; cases h)
  have hid := getPipe_id hg
  have hrel : RelCore (closePipe s p).1 (jClose j p (closeDones s pp)) used := by
    rw [closePipe_state hg hcl]
    apply rel_closePipe hc hI hg (pp' := { pp with closed := true, busy := false, armed := false, held := none, sendq := [] })
    · simp
    · intro q
      have hg0 : getPipe (raiseWritableIf { dropRecvPipe s p with ctxs := (dropRecvPipe s p).ctxs.map fun c => if pp.sendq.contains c.key then { c with saio := none } else c }
          (sockPipeId { dropRecvPipe s p with ctxs := (dropRecvPipe s p).ctxs.map fun c => if pp.sendq.contains c.key then { c with saio := none } else c } == some p)) pp.id = some pp := by
        unfold getPipe
        rw [raiseWritableIf_pipes]
        show (dropRecvPipe s p).pipes.find? _ = _
        rw [dropRecvPipe_pipes, hid]
        exact hg
      rw [getPipe_setPipe (pp' := { pp with closed := true, busy := false, armed := false, held := none, sendq := [] }) hg0 rfl, hid]
      by_cases e : q = p
      · rw [if_pos e, if_pos e]
      · rw [if_neg e, if_neg e]
        unfold getPipe
        rw [raiseWritableIf_pipes]
        show (dropRecvPipe s p).pipes.find? _ = _
        rw [dropRecvPipe_pipes]
    · rfl
    · rfl
    · simp [dropRecvPipe_recvpipes]
    · simp
    · simp
    · simp
  rw [unfreshJ_id]
  · exact hrel
  · intro e he
    exact hc.fresh e (List.mem_filter.1 he).1

end Nng.RespJudge
