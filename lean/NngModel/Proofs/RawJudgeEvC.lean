/-
  Raw judges vs raw models: receives (`nni_sock_recv`) and operations on contexts.
-/
import NngModel.Proofs.RawJudgeEvB
namespace Nng.RawSurv
open Nng Nng.Proto Nng.RawMq Nng.RawSurveySpec

attribute [local simp] xOut_rv xOut_rv2 xOut_parm xOut_pipe

/-- the change concerns the upper read queue (model) and the receivers / held arrivals (judge) -/
theorem Rc.urq {s s1 : State} {j : XJ} (h : Rc s j) (ht : s1.ttl = s.ttl) (hp : s1.pipes.map strip = s.pipes.map strip)
    (rc : List (Nat × Bool)) (hs : List Held) (h1 : rc = s1.urq.getq.map (fun g => (g.tag, false)))
    (h2 : (s1.urq.getq.map (·.tag)).Nodup)
    (h3 : ∃ ips, ips.length = s1.urq.items.length ∧ HR (fun p => p < s.pipes.length ∧ p ∉ j.live) hs (pendP ips s1.urq))
    (h4 : (hs.map (·.body)).Nodup) (h5 : ∀ x ∈ hs, x.body ∈ s1.accepted.map (·.m.body)) (h6 : ∀ x ∈ hs, x.pipe < s.pipes.length) :
    Rc s1 { j with recvs := rc, held := hs } := by
  have hl : s1.pipes.length = s.pipes.length := by
    have := congrArg List.length hp; simpa using this
  refine ⟨h.err, h.jclosed, by rw [ht]; exact h.ttl, h.liveN, ?_, by rw [hl]; exact ⟨h.out.live, h.out.busy, h.out.acc, h.out.wired⟩,
    h1, h2, h.sends, by rw [hl]; exact h3, h4, h5, by rw [hl]; exact h6⟩
  intro p pp1 hg
  obtain ⟨pp, hg0, e⟩ := strip_get hp hg
  have hq := (h.pipes p pp hg0).congr e
  exact ⟨hq.live, hq.busy, hq.idle, hq.acc, hq.wired⟩

theorem deliver_head {D : Nat → Prop} (jx : XJ) (a p : Nat) (m : WMsg) (ms : List (Nat × WMsg))
    (hr : HR D jx.held ((p, m) :: ms)) (hn : (jx.held.map (·.body)).Nodup) :
    ∃ h, deliver jx a m = { jx with held := jx.held.erase h } ∧ HR D (jx.held.erase h) ms := by
  obtain ⟨mb, f1, f2, f3⟩ := hr.head p m hn
  exact ⟨_, deliver_ok jx a m _ f1 f2 rfl, f3⟩

theorem erase_nodup_body (hs : List Held) (h : Held) (hn : (hs.map (·.body)).Nodup) : ((hs.erase h).map (·.body)).Nodup :=
  hn.sublist (List.erase_sublist.map _)

theorem not_busy_tags {s : State} {a : Nat} (h : aioBusy s a = false) : a ∉ s.urq.getq.map (·.tag) := by
  unfold aioBusy at h
  simp only [Bool.or_eq_false_iff, List.any_eq_false, beq_iff_eq] at h
  intro hm
  obtain ⟨g, hg, e⟩ := List.mem_map.1 hm
  exact h.1 g hg e

theorem find_old_none {s : State} {j : XJ} (h : Rc s j) {a : Nat} (ha : a ∉ s.urq.getq.map (·.tag)) :
    j.recvs.find? (·.1 == a) = none := by
  rw [List.find?_eq_none]
  intro x hx
  rw [h.recvs] at hx
  obtain ⟨g, hg, rfl⟩ := List.mem_map.1 hx
  simp only [beq_iff_eq]
  intro e
  exact ha (List.mem_map.2 ⟨g, hg, e⟩)

theorem find_snoc_new {s : State} {j : XJ} (h : Rc s j) {a : Nat} (ha : a ∉ s.urq.getq.map (·.tag)) (b : Bool) :
    (j.recvs ++ [(a, b)]).find? (·.1 == a) = some (a, b) := by
  rw [List.find?_append, find_old_none h ha]; simp

theorem filter_snoc_new {s : State} {j : XJ} (h : Rc s j) {a : Nat} (ha : a ∉ s.urq.getq.map (·.tag)) (b : Bool) :
    (j.recvs ++ [(a, b)]).filter (·.1 != a) = j.recvs := by
  rw [List.filter_append]
  have : j.recvs.filter (·.1 != a) = j.recvs := by
    rw [List.filter_eq_self]
    intro x hx
    rw [h.recvs] at hx
    obtain ⟨g, hg, rfl⟩ := List.mem_map.1 hx
    simp only [bne_iff_ne, ne_eq]
    intro e
    exact ha (List.mem_map.2 ⟨g, hg, e⟩)
  rw [this]; simp

theorem recvable_eq (q : Mq) : recvable q = true ↔ ¬ (q.items = [] ∧ q.putq = []) := by
  unfold recvable
  cases q.items <;> cases q.putq <;> simp

theorem xPre_recv (resp : Bool) (j : XJ) (a : Nat) (mode : Mode) (outs : List Out) :
    xPre resp j (.recv none a mode) outs = ({ j with recvs := j.recvs ++ [(a, mode == .nb)] }, nbOf a mode) := by
  cases mode <;> rfl

theorem nbOf_zero {a : Nat} {mode : Mode} (h : zeroRv mode = none) : nbOf a mode = none ∧ (mode == .nb) = false := by
  cases mode with
  | nb => simp [zeroRv] at h
  | _ => exact ⟨rfl, rfl⟩

theorem zeroRv_ne {mode : Mode} (h : (zeroRv mode).isSome = true) : (zeroRv mode).getD 0 ≠ 0 ∧
    ((mode == .nb) = true → (zeroRv mode).getD 0 = Err.eagain) := by
  cases mode with
  | nb => exact ⟨by decide, fun _ => rfl⟩
  | ms n =>
    cases n with
    | zero => exact ⟨by decide, fun hx => by cases hx⟩
    | succ n => simp [zeroRv] at h
  | inf => simp [zeroRv] at h
  | dflt => simp [zeroRv] at h

theorem ev_recv {k : Kind} {sel : Sel} {resp : Bool} {s : State} {j : XJ} (hI : Inv k sel s) (hR : R s j) (a : Nat) (mode : Mode)
    (hb : aioBusy s a = false) :
    R (sockRecv s a mode).1 (xStep resp j (.recv none a mode) (sockRecv s a mode).2) := by
  have hI1 := sockRecv_inv s a mode hI
  revert hI1
  have hc := hR.core
  have hu := hI.core.urq
  have ha := not_busy_tags hb
  obtain ⟨ips, hl, hr⟩ := hc.held
  unfold sockRecv
  by_cases hz : (mustWaitGet s.urq && (zeroRv mode).isSome) = true
  · -- a zero timeout and nothing to take
    rw [if_pos hz]
    intro hI1
    simp only [Bool.and_eq_true] at hz
    obtain ⟨hrv, hnb⟩ := zeroRv_ne hz.2
    have hq : s.urq.items = [] ∧ s.urq.putq = [] := by
      cases hg : s.urq.getq with
      | cons g gs => exact hu.rd (by rw [hg]; simp)
      | nil =>
        have := hz.1
        simp only [mustWaitGet, hg, List.isEmpty_nil, Bool.not_true, Bool.false_or, Bool.and_eq_true, beq_iff_eq,
          List.length_eq_zero_iff, List.isEmpty_iff] at this
        exact this
    refine step_finish hI1 hc.err (by simp [notExecuted]) ?_ ?_ (by simp [isBlocked]) (by simp [pollOf])
    · rw [xPre_recv]
      have : procOuts resp [Out.done a ((zeroRv mode).getD 0) none false] { j with recvs := j.recvs ++ [(a, mode == .nb)] } = j := by
        simp only [procOuts, List.foldl_cons, List.foldl_nil, pipeStep, List.filter, isDone, doneStep, Bool.not_true]
        rw [xDone_recv_fail resp { j with recvs := j.recvs ++ [(a, mode == .nb)] } a _ a (mode == .nb) false (find_snoc_new hc ha _) hrv]
        · show ({ j with recvs := (j.recvs ++ [(a, mode == .nb)]).filter (·.1 != a) } : XJ) = j
          rw [filter_snoc_new hc ha]
        · intro h1 h2
          refine ⟨hc.no_definite hq, ?_⟩
          intro rd wr hp
          have := (hR.polled rd wr hp).1
          rw [this]
          cases hrc : recvable s.urq with
          | false => rfl
          | true => exact absurd hq ((recvable_eq _).1 hrc)
      rw [this]; exact hc
    · rw [xPre_recv]
      cases mode with
      | nb => exact nbChk_some _ _ _ ⟨(zeroRv .nb).getD 0, none, false, by simp⟩
      | _ => rfl
  · rw [if_neg hz]
    by_cases hq : s.urq.items = [] ∧ s.urq.putq = []
    · -- the receive parks
      have hzn : zeroRv mode = none := by
        cases hzm : zeroRv mode with
        | none => rfl
        | some x =>
          exfalso; apply hz
          simp only [mustWaitGet, hq.1, hq.2, hzm, List.length_nil, List.isEmpty_nil, Option.isSome_some, Bool.and_true]
          simp
      have e : aioGet s.urq ⟨a, deadlineOf s.now mode⟩ =
          ({ s.urq with getq := s.urq.getq ++ [⟨a, deadlineOf s.now mode⟩] }, []) := aioGet_behind _ _ hq.1 hq.2
      rw [e]
      simp only [applyEvents_nil]
      intro hI1
      obtain ⟨n1, n2⟩ := nbOf_zero (a := a) hzn
      refine step_finish hI1 hc.err (by simp [notExecuted]) ?_ ?_ (by simp) (by simp [pollOf])
      · rw [xPre_recv, n2]
        have : procOuts resp [] { j with recvs := j.recvs ++ [(a, false)] } = { j with recvs := j.recvs ++ [(a, false)] } := rfl
        rw [this]
        apply hc.getq
        · rw [hc.recvs]; simp
        · rw [List.map_append, List.nodup_append]
          refine ⟨hc.tags, by simp, ?_⟩
          intro x hx y hy
          simp only [List.map_cons, List.map_nil, List.mem_singleton] at hy
          subst hy
          intro e; subst e; exact ha hx
      · rw [xPre_recv, n1]; rfl
    · -- something is owed: no reader can be waiting, the receive completes at once
      have hg : s.urq.getq = [] := by
        cases hg : s.urq.getq with
        | nil => rfl
        | cons g gs => exact absurd (hu.rd (by rw [hg]; simp)) hq
      have hrc : recvable s.urq = true := (recvable_eq _).2 hq
      have hpol : (mode == .nb) = true → ∀ rd wr, j.polled = some (rd, wr) → rd = true := by
        intro _ rd wr hp
        rw [(hR.polled rd wr hp).1, hrc]
      have hrecv0 : j.recvs = [] := by rw [hc.recvs, hg]; rfl
      rw [aioGet_noreader _ _ hg]
      cases hi : s.urq.items with
      | cons m ms =>
        simp only [applyEvents_one, urqEvent]
        intro hI1
        cases ips with
        | nil => rw [hi] at hl; simp at hl
        | cons i ips =>
          have hpe : pendP (i :: ips) s.urq = (i, m) :: pendP ips { s.urq with getq := [], items := ms } := by
            simp [pendP, hi]
          rw [hpe] at hr
          refine step_finish hI1 hc.err (by simp [notExecuted]) ?_ ?_ (by simp [isBlocked]) (by simp [pollOf])
          · rw [xPre_recv]
            simp only [procOuts, List.foldl_cons, List.foldl_nil, pipeStep, List.filter, isDone, doneStep, Bool.not_true]
            rw [xDone_recv_ok resp { j with recvs := j.recvs ++ [(a, mode == .nb)] } a a (mode == .nb) false m (find_snoc_new hc ha _) hpol]
            simp only [filter_snoc_new hc ha]
            obtain ⟨h, e1, e2⟩ := deliver_head { j with recvs := j.recvs } a i m _ hr hc.heldN
            rw [e1]
            refine hc.urq ?_ ?_ _ _ ?_ ?_ ⟨ips, ?_, e2⟩ (erase_nodup_body _ _ hc.heldN)
              (fun x hx => hc.heldA x (List.mem_of_mem_erase hx)) (fun x hx => hc.heldP x (List.mem_of_mem_erase hx))
            · rfl
            · rfl
            · rw [hrecv0]; rfl
            · simp
            · rw [hi] at hl; simpa using hl
          · rw [xPre_recv]
            cases mode with
            | nb => exact nbChk_some _ _ _ ⟨0, some m, false, by simp⟩
            | _ => rfl
      | nil =>
        cases hp : s.urq.putq with
        | nil => exact absurd ⟨hi, hp⟩ hq
        | cons w ws =>
          simp only [applyEvents_one, urqEvent_handed]
          intro hI1
          have hips : ips = [] := by
            rw [hi] at hl; simpa using hl
          subst hips
          have hpe : pendP [] s.urq = (w.tag, w.msg) :: pendP [] { s.urq with getq := [], putq := ws } := by
            simp [pendP, hi, hp]
          rw [hpe] at hr
          refine step_finish hI1 hc.err (by simp [notExecuted]) ?_ ?_ (by simp [isBlocked]) (by simp [pollOf])
          · rw [xPre_recv]
            simp only [procOuts, List.foldl_cons, List.foldl_nil, pipeStep, List.filter, isDone, doneStep, Bool.not_true,
              Bool.not_false, xOut_parm]
            rw [xDone_recv_ok resp { j with recvs := j.recvs ++ [(a, mode == .nb)] } a a (mode == .nb) false w.msg (find_snoc_new hc ha _) hpol]
            simp only [filter_snoc_new hc ha]
            obtain ⟨h, e1, e2⟩ := deliver_head { j with recvs := j.recvs } a w.tag w.msg _ hr hc.heldN
            rw [e1]
            refine hc.urq ?_ ?_ _ _ ?_ ?_ ⟨[], ?_, ?_⟩ (erase_nodup_body _ _ hc.heldN) ?_
              (fun x hx => hc.heldP x (List.mem_of_mem_erase hx))
            · exact (armPipe_rest _ _).1
            · exact armPipe_strip _ _
            · rw [hrecv0]; simp only []; rw [(armPipe_rest _ _).2.1]; rfl
            · simp only []; rw [(armPipe_rest _ _).2.1]; simp
            · simp only []; rw [(armPipe_rest _ _).2.1]; rfl
            · simp only []; rw [(armPipe_rest _ _).2.1]; exact e2
            · intro x hx; simp only []; rw [(armPipe_rest _ _).2.2.2.1]; exact hc.heldA x (List.mem_of_mem_erase hx)
          · rw [xPre_recv]
            cases mode with
            | nb => exact nbChk_some _ _ _ ⟨0, some w.msg, false, by simp⟩
            | _ => rfl

/-! ### raw sockets have no contexts -/

theorem ev_ctxRecv {k : Kind} {sel : Sel} {resp : Bool} {s : State} {j : XJ} (hI : Inv k sel s) (hR : R s j) (c a : Nat) (mode : Mode)
    (hb : aioBusy s a = false) :
    R s (xStep resp j (.recv (some c) a mode) [.done a Err.eclosed none false]) := by
  have hc := hR.core
  have ha := not_busy_tags hb
  refine step_finish hI hc.err (by simp [notExecuted]) ?_ (by rfl) (by simp [isBlocked]) (by simp [pollOf])
  have : procOuts resp [Out.done a Err.eclosed none false] (xPre resp j (.recv (some c) a mode) [Out.done a Err.eclosed none false]).1 = j := by
    simp only [procOuts, xPre, List.foldl_cons, List.foldl_nil, pipeStep, List.filter, isDone, doneStep, Bool.not_true]
    rw [xDone_recv_fail resp { j with recvs := j.recvs ++ [(a, false)] } a _ a false false (find_snoc_new hc ha _) (by decide) (fun hx => by cases hx)]
    show ({ j with recvs := (j.recvs ++ [(a, false)]).filter (·.1 != a) } : XJ) = j
    rw [filter_snoc_new hc ha]
  rw [this]; exact hc

theorem ev_ctxSend {k : Kind} {sel : Sel} {resp : Bool} {s : State} {j : XJ} (hI : Inv k sel s) (hR : R s j) (c a : Nat) (m : WMsg)
    (mode : Mode) (hb : aioBusy s a = false) :
    R s (xStep resp j (.send (some c) a m mode) [.done a Err.eclosed none true]) := by
  have hc := hR.core
  have ha := not_busy_tags hb
  refine step_finish hI hc.err (by simp [notExecuted]) ?_ (by rfl) (by simp [isBlocked]) (by simp [pollOf])
  have : procOuts resp [Out.done a Err.eclosed none true] (xPre resp j (.send (some c) a m mode) [Out.done a Err.eclosed none true]).1 = j := by
    simp only [procOuts, xPre, List.foldl_cons, List.foldl_nil, pipeStep, List.filter, isDone, doneStep, Bool.not_true]
    rw [xDone_send_fail resp { j with sends := j.sends ++ [(⟨a, m.hdr, m.body, false⟩ : Offer)] } a _ (⟨a, m.hdr, m.body, false⟩ : Offer) none (find_old_none hc ha) (by simp [hc.sends]) (by decide) rfl]
    show ({ j with sends := (j.sends ++ [(⟨a, m.hdr, m.body, false⟩ : Offer)]).filter (·.aio != a) } : XJ) = j
    rw [hc.sends]; simp
    have := hc.sends
    cases j; simp_all
  rw [this]; exact hc

end Nng.RawSurv
