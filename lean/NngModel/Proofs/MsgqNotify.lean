/- lemmas for Props/C18Notify.lean: the pollable levels of the msgq model (Model/MsgqNotify.lean) -/
import NngModel.Model.MsgqNotify
import NngModel.Proofs.Msgq
namespace Nng.MsgqN
open Nng.QSpec Nng.Msgq

/-! ## a parked reader means an empty channel -/

/-- channel invariant: while a reader is parked nothing is queued and no writer is parked -/
def I1 (c : Chan) : Prop := c.getq ≠ [] → c.items = [] ∧ c.putq = []

theorem pumpPut_I1 (cap : Nat) : ∀ (ps : List (Nat × Msg)) (items : List Msg) (gq : List Nat) (evs : List Ev),
    (gq ≠ [] → items = []) →
    ((pumpPut cap ps items gq evs).2.2.1 ≠ [] →
      (pumpPut cap ps items gq evs).2.1 = [] ∧ (pumpPut cap ps items gq evs).1 = []) := by
  intro ps
  induction ps with
  | nil => intro items gq evs h hne; simp only [pumpPut] at hne ⊢; exact ⟨h hne, trivial⟩
  | cons p ps ih =>
    intro items gq evs h
    obtain ⟨w, m⟩ := p
    cases gq with
    | cons r gs =>
      simp only [pumpPut]
      exact ih items gs _ (fun _ => h (by simp))
    | nil =>
      by_cases hlt : items.length < cap
      · simp only [pumpPut, if_pos hlt]
        exact ih (items ++ [m]) [] _ (fun hn => absurd rfl hn)
      · simp only [pumpPut, if_neg hlt]
        intro hn; exact absurd rfl hn

theorem pumpGet_I1 : ∀ (gs : List Nat) (items : List Msg) (pq : List (Nat × Msg)) (evs : List Ev),
    ((pumpGet gs items pq evs).1 ≠ [] →
      (pumpGet gs items pq evs).2.1 = [] ∧ (pumpGet gs items pq evs).2.2.1 = []) := by
  intro gs
  induction gs with
  | nil => intro items pq evs hne; simp [pumpGet] at hne
  | cons r gs ih =>
    intro items pq evs
    cases items with
    | cons m rest => simp only [pumpGet]; exact ih rest pq _
    | nil =>
      cases pq with
      | cons p ps => obtain ⟨w, m⟩ := p; simp only [pumpGet]; exact ih [] ps _
      | nil => simp [pumpGet]

theorem I1_init (cap : Nat) : I1 (Chan.init cap) := by intro h; exact absurd rfl h

theorem I1_tryput {c : Chan} (h : I1 c) (m : Msg) : I1 (c.tryput m).c := by
  unfold Chan.tryput
  by_cases hc : c.closed = true
  · simp only [hc, if_true]; exact h
  · simp only [hc, if_false, Bool.false_eq_true]
    cases hg : c.getq with
    | cons r gs =>
      intro _
      exact h (by simp [hg])
    | nil =>
      by_cases hlt : c.items.length < c.cap
      · simp only [if_pos hlt]; intro hn; exact absurd rfl hn
      · simp only [if_neg hlt]; exact h

theorem I1_aioPut {c : Chan} (h : I1 c) (a : Nat) (m : Msg) : I1 (c.aioPut a m).c := by
  have hp := pumpPut_I1 c.cap (c.putq ++ [(a, m)]) c.items c.getq [] (fun hn => (h hn).1)
  unfold Chan.aioPut
  generalize pumpPut c.cap (c.putq ++ [(a, m)]) c.items c.getq [] = r at hp
  obtain ⟨pq, items, gq, evs⟩ := r
  intro hn
  exact hp hn

theorem I1_aioGet {c : Chan} (a : Nat) : I1 (c.aioGet a).c := by
  have hp := pumpGet_I1 (c.getq ++ [a]) c.items c.putq []
  unfold Chan.aioGet
  generalize pumpGet (c.getq ++ [a]) c.items c.putq [] = r at hp
  obtain ⟨gq, items, pq, evs⟩ := r
  intro hn
  exact hp hn

theorem I1_cancel {c : Chan} (h : I1 c) (a rv : Nat) : I1 (c.cancel a rv).c := by
  unfold Chan.cancel
  by_cases hc : c.getq.contains a = true ∨ (c.putq.map (·.1)).contains a = true
  · simp only [if_pos hc]
    intro hn
    have hg : c.getq ≠ [] := by
      intro he; apply hn; simp [he]
    obtain ⟨h1, h2⟩ := h hg
    exact ⟨h1, by simp [h2]⟩
  · simp only [if_neg hc]; exact h

theorem I1_close (c : Chan) : I1 c.close.c := by intro hn; exact absurd rfl hn

theorem I1_resize {c : Chan} (h : I1 c) (cap : Nat) : I1 (c.resize cap).c := by
  intro hn
  obtain ⟨h1, h2⟩ := h hn
  exact ⟨by simp [Chan.resize, h1], h2⟩

theorem I1_step {c : Chan} (h : I1 c) (op : COp) : I1 (c.step op).c := by
  cases op with
  | tryput m => exact I1_tryput h m
  | aioPut a m => exact I1_aioPut h a m
  | aioGet a => exact I1_aioGet a
  | cancel a rv => exact I1_cancel h a rv
  | close => exact I1_close c
  | resize n => exact I1_resize h n

/-! ## the levels computed by run_notify are the answers of the waiting tests -/

/-- sendable as computed = "a zero-timeout put does not have to wait" (pure boolean identity) -/
theorem notify_snd (q : Msgq) : (notify q).1 = !mustWaitPut q := by
  unfold notify mustWaitPut
  by_cases h : q.len < q.cap
  · have h' : ¬ q.len ≥ q.cap := by omega
    cases q.putq.isEmpty <;> cases q.getq.isEmpty <;> simp [h, h']
  · have h' : q.len ≥ q.cap := by omega
    cases q.putq.isEmpty <;> cases q.getq.isEmpty <;> simp [h, h']

/-- recvable as computed = "a zero-timeout get does not have to wait", given that a parked reader
    means an empty channel -/
theorem notify_rcv {q : Msgq} (h : q.getq ≠ [] → q.len = 0 ∧ q.putq = []) : (notify q).2 = !mustWaitGet q := by
  unfold notify mustWaitGet
  cases hg : q.getq with
  | nil =>
    by_cases hl : q.len = 0
    · cases q.putq.isEmpty <;> simp [hl]
    · cases q.putq.isEmpty <;> simp [hl]
  | cons r gs =>
    obtain ⟨h1, h2⟩ := h (by simp [hg])
    simp [h1, h2]

theorem I1_model {q : Msgq} {l : List Msg} (hr : RingRep q l) (h : I1 (chanOf q l)) :
    q.getq ≠ [] → q.len = 0 ∧ q.putq = [] := by
  intro hn
  obtain ⟨h1, h2⟩ := h hn
  have : l = [] := h1
  subst this
  exact ⟨len_zero_of_nil hr, h2⟩

/-- the specification's acceptance tests, read on the model state -/
theorem nbPutOk_chanOf {q : Msgq} {l : List Msg} (hr : RingRep q l) : (chanOf q l).nbPutOk = !mustWaitPut q := by
  rw [← notify_snd]
  simp [Chan.nbPutOk, chanOf, notify, hr.len_eq]

theorem nbGetOk_chanOf {q : Msgq} {l : List Msg} (hr : RingRep q l) : (chanOf q l).nbGetOk = !mustWaitGet q := by
  have hl : l.isEmpty = decide (q.len = 0) := by
    have := hr.len_eq
    cases l with
    | nil => simp at this; simp [← this]
    | cons m l => simp at this; have : q.len ≠ 0 := by omega
                  simp [this]
  unfold Chan.nbGetOk mustWaitGet chanOf
  simp only [hl]
  cases q.getq.isEmpty <;> cases q.putq.isEmpty <;> cases decide (q.len = 0) <;> rfl

/-! ## per-operation facts about `step` -/

theorem lift_true (s : NQ) (r : Res) :
    (lift s r true).notified = true ∧ (lift s r true).s.q = r.q ∧
    (lift s r true).s.snd = (notify r.q).1 ∧ (lift s r true).s.rcv = (notify r.q).2 ∧
    (lift s r true).rv = r.rv ∧ (lift s r true).evs = r.evs ∧ (lift s r true).freed = r.freed ∧
    (lift s r true).safe = r.safe := ⟨rfl, rfl, rfl, rfl, rfl, rfl, rfl, rfl⟩

theorem lift_false (s : NQ) (r : Res) :
    (lift s r false).notified = false ∧ (lift s r false).s.q = r.q ∧
    (lift s r false).s.snd = s.snd ∧ (lift s r false).s.rcv = s.rcv ∧
    (lift s r false).rv = r.rv ∧ (lift s r false).evs = r.evs ∧ (lift s r false).freed = r.freed ∧
    (lift s r false).safe = r.safe := ⟨rfl, rfl, rfl, rfl, rfl, rfl, rfl, rfl⟩

/-- the queue part of a step is the step of Model/Msgq.lean (zero-timeout operations: the blocking
    one or nothing; getters: nothing) -/
def qstep (q : Msgq) (op : NOp) (ok : Bool) : Res :=
  match op with
  | .base op => Msgq.step q op ok
  | .nbPut a m => if mustWaitPut q then { q, rv := 0, evs := [(a, Err.etimedout, none)] } else Msgq.aioPut q a m
  | .nbGet a => if mustWaitGet q then { q, rv := 0, evs := [(a, Err.etimedout, none)] } else Msgq.aioGet q a
  | .getSendable => { q, rv := 0 }
  | .getRecvable => { q, rv := 0 }
  | .getCap => { q, rv := q.cap }

/-- which calls reach a `nni_msgq_run_notify(mq)` site -/
def reachesNotify (q : Msgq) : NOp → Bool → Bool
  | .base (.tryput _), _ => !q.closed && (!q.getq.isEmpty || decide (q.len < q.cap))
  | .base (.aioPut _ _), _ => true
  | .base (.aioGet _), _ => true
  | .base (.cancel _ _), _ => true
  | .base .close, _ => false
  | .base (.resize n), ok => !(decide (n + spare > q.alloc) && !ok)
  | .nbPut _ _, _ => !mustWaitPut q
  | .nbGet _, _ => !mustWaitGet q
  | .getSendable, _ => true
  | .getRecvable, _ => true
  | .getCap, _ => false

theorem tryput_lift (s : NQ) (m : Msg) :
    tryput s m = lift s (Msgq.tryput s.q m) (reachesNotify s.q (.base (.tryput m)) true) := by
  unfold tryput reachesNotify
  by_cases hc : s.q.closed = true
  · simp [hc]
  · have hcf : s.q.closed = false := by simpa using hc
    simp only [hcf, Bool.false_eq_true, if_false]
    cases hg : s.q.getq with
    | cons r gs => simp
    | nil =>
      by_cases hlt : s.q.len < s.q.cap
      · simp [hlt]
      · simp [hlt]

/-- every step = queue effect + (levels recomputed | levels kept), according to `reachesNotify` -/
theorem step_eq (s : NQ) (op : NOp) (ok : Bool) :
    step s op ok = lift s (qstep s.q op ok) (reachesNotify s.q op ok) := by
  cases op with
  | base op =>
    cases op with
    | tryput m =>
      simp only [step, qstep, Msgq.step]
      rw [tryput_lift]; cases ok <;> rfl
    | aioPut a m => rfl
    | aioGet a => rfl
    | cancel a rv => rfl
    | close => rfl
    | resize n =>
      simp only [step, resize, qstep, Msgq.step, reachesNotify]
      cases h : (decide (n + spare > s.q.alloc) && !ok) <;> simp
  | nbPut a m =>
    simp only [step, nbPut, qstep, reachesNotify]
    cases h : mustWaitPut s.q <;> simp [refuse, lift, aioPut]
  | nbGet a =>
    simp only [step, nbGet, qstep, reachesNotify]
    cases h : mustWaitGet s.q <;> simp [refuse, lift, aioGet]
  | getSendable => rfl
  | getRecvable => rfl
  | getCap => rfl

theorem step_notified (s : NQ) (op : NOp) (ok : Bool) : (step s op ok).notified = reachesNotify s.q op ok := by
  rw [step_eq]; cases reachesNotify s.q op ok <;> rfl

theorem step_q (s : NQ) (op : NOp) (ok : Bool) : (step s op ok).s.q = (qstep s.q op ok).q := by
  rw [step_eq]; cases reachesNotify s.q op ok <;> rfl

theorem step_levels_notified {s : NQ} {op : NOp} {ok : Bool} (h : reachesNotify s.q op ok = true) :
    (step s op ok).s.snd = (notify (step s op ok).s.q).1 ∧ (step s op ok).s.rcv = (notify (step s op ok).s.q).2 := by
  rw [step_eq, h]; exact ⟨rfl, rfl⟩

theorem step_levels_kept {s : NQ} {op : NOp} {ok : Bool} (h : reachesNotify s.q op ok = false) :
    (step s op ok).s.snd = s.snd ∧ (step s op ok).s.rcv = s.rcv := by
  rw [step_eq, h]; exact ⟨rfl, rfl⟩

/-- a call that reaches no run_notify site and is not nni_msgq_close leaves the queue as it was -/
theorem qstep_unnotified {q : Msgq} {op : NOp} {ok : Bool} (h : reachesNotify q op ok = false)
    (hop : op ≠ .base .close) : (qstep q op ok).q = q := by
  cases op with
  | base op =>
    cases op with
    | tryput m =>
      simp only [reachesNotify] at h
      simp only [qstep, Msgq.step, Msgq.tryput]
      by_cases hc : q.closed = true
      · simp [hc]
      · have hcf : q.closed = false := by simpa using hc
        simp only [hcf, Bool.not_false, Bool.true_and, Bool.or_eq_false_iff, Bool.not_eq_false',
          decide_eq_false_iff_not] at h
        obtain ⟨h1, h2⟩ := h
        have hg : q.getq = [] := by simpa using h1
        simp [hcf, hg, h2]
    | aioPut a m => simp [reachesNotify] at h
    | aioGet a => simp [reachesNotify] at h
    | cancel a rv => simp [reachesNotify] at h
    | close => exact absurd rfl hop
    | resize n =>
      simp only [reachesNotify, Bool.not_eq_false'] at h
      simp only [qstep, Msgq.step, Msgq.resize, h, if_true]
  | nbPut a m =>
    simp only [reachesNotify, Bool.not_eq_false'] at h
    simp [qstep, h]
  | nbGet a =>
    simp only [reachesNotify, Bool.not_eq_false'] at h
    simp [qstep, h]
  | getSendable => rfl
  | getRecvable => rfl
  | getCap => rfl

/-! ## the queue part refines the channel specification (incl. the zero-timeout operations) -/

theorem qstep_sim {q : Msgq} {l : List Msg} (h : RingRep q l) (op : NOp) :
    Sim (qstep q op true) ((chanOf q l).nstep op) := by
  cases op with
  | base op =>
    cases op with
    | tryput m => exact tryput_sim h m
    | aioPut a m => exact aioPut_sim h a m
    | aioGet a => exact aioGet_sim h a
    | cancel a rv => exact cancel_sim h a rv
    | close => exact close_sim h
    | resize n => exact resize_sim h n
  | nbPut a m =>
    simp only [qstep, Chan.nstep, Chan.nbPut, nbPutOk_chanOf h]
    cases hm : mustWaitPut q
    · simp only [Bool.not_false, if_true, Bool.false_eq_true, if_false]; exact aioPut_sim h a m
    · simp only [Bool.not_true, Bool.false_eq_true, if_false, if_true]
      exact ⟨rfl, rfl, rfl, rfl, l, h, rfl⟩
  | nbGet a =>
    simp only [qstep, Chan.nstep, Chan.nbGet, nbGetOk_chanOf h]
    cases hm : mustWaitGet q
    · simp only [Bool.not_false, if_true, Bool.false_eq_true, if_false]; exact aioGet_sim h a
    · simp only [Bool.not_true, Bool.false_eq_true, if_false, if_true]
      exact ⟨rfl, rfl, rfl, rfl, l, h, rfl⟩
  | getSendable => exact ⟨rfl, rfl, rfl, rfl, l, h, rfl⟩
  | getRecvable => exact ⟨rfl, rfl, rfl, rfl, l, h, rfl⟩
  | getCap => exact ⟨rfl, rfl, rfl, rfl, l, h, rfl⟩

theorem I1_nstep {c : Chan} (h : I1 c) (op : NOp) : I1 (c.nstep op).c := by
  cases op with
  | base op => exact I1_step h op
  | nbPut a m =>
    simp only [Chan.nstep, Chan.nbPut]
    cases c.nbPutOk
    · exact h
    · exact I1_aioPut h a m
  | nbGet a =>
    simp only [Chan.nstep, Chan.nbGet]
    cases c.nbGetOk
    · exact h
    · exact I1_aioGet a
  | getSendable => exact h
  | getRecvable => exact h
  | getCap => exact h

/-- with a failing allocator only a growing resize differs, and it does nothing -/
theorem qstep_alloc_fail (q : Msgq) (op : NOp) :
    qstep q op false = qstep q op true ∨
    (reachesNotify q op false = false ∧ op ≠ .base .close) := by
  cases op with
  | base op =>
    cases op with
    | resize n =>
      by_cases hg : n + spare > q.alloc
      · right; exact ⟨by simp [reachesNotify, hg], by simp⟩
      · left; exact (resize_enomem q n).2 hg
    | tryput m => left; rfl
    | aioPut a m => left; rfl
    | aioGet a => left; rfl
    | cancel a rv => left; rfl
    | close => left; rfl
  | nbPut a m => left; rfl
  | nbGet a => left; rfl
  | getSendable => left; rfl
  | getRecvable => left; rfl
  | getCap => left; rfl

/-! ## the invariants of all reachable states -/

/-- `Inv0 s` (holds from nni_msgq_init on): the ring represents some list of messages, and a parked
    reader means an empty channel -/
structure Inv0 (s : NQ) : Prop where
  rep : ∃ l, RingRep s.q l ∧ I1 (chanOf s.q l)

/-- `Inv s` (holds from the first run_notify on): `Inv0`, and -- as long as the queue was never
    closed -- both levels are what run_notify would compute now -/
structure Inv (s : NQ) : Prop extends Inv0 s where
  fresh : s.q.closed = false → s.snd = (notify s.q).1 ∧ s.rcv = (notify s.q).2

theorem close_closed {q : Msgq} {l : List Msg} (h : RingRep q l) : (Msgq.close q).q.closed = true := by
  obtain ⟨l', _, hc⟩ := (close_sim h).rep
  have := congrArg Chan.closed hc
  simpa [Chan.close, chanOf] using this.symm

theorem step_inv0 {s : NQ} (h : Inv0 s) (op : NOp) (ok : Bool) : Inv0 (step s op ok).s := by
  obtain ⟨l, hr, hi⟩ := h.rep
  constructor
  rw [step_q]
  have htrue : ∃ l', RingRep (qstep s.q op true).q l' ∧ I1 (chanOf (qstep s.q op true).q l') := by
    obtain ⟨l', hr', hc⟩ := (qstep_sim hr op).rep
    exact ⟨l', hr', hc ▸ I1_nstep hi op⟩
  cases ok with
  | true => exact htrue
  | false =>
    rcases qstep_alloc_fail s.q op with he | ⟨hn, hop⟩
    · rw [he]; exact htrue
    · rw [qstep_unnotified hn hop]; exact ⟨l, hr, hi⟩

/-- any call that reaches a run_notify site establishes `Inv` -/
theorem notified_inv {s : NQ} (h : Inv0 s) {op : NOp} {ok : Bool} (hn : reachesNotify s.q op ok = true) :
    Inv (step s op ok).s := ⟨step_inv0 h op ok, fun _ => step_levels_notified hn⟩

theorem step_inv {s : NQ} (h : Inv s) (op : NOp) (ok : Bool) : Inv (step s op ok).s := by
  obtain ⟨l, hr, hi⟩ := h.rep
  refine ⟨step_inv0 h.toInv0 op ok, ?_⟩
  intro hopen
  cases hn : reachesNotify s.q op ok with
  | true => exact step_levels_notified hn
  | false =>
    by_cases hop : op = .base .close
    · subst hop
      rw [step_q] at hopen
      have : (qstep s.q (.base .close) ok).q.closed = true := close_closed hr
      rw [this] at hopen; exact absurd hopen (by simp)
    · have hq : (step s op ok).s.q = s.q := by rw [step_q]; exact qstep_unnotified hn hop
      obtain ⟨h1, h2⟩ := step_levels_kept hn
      rw [hq] at hopen ⊢
      obtain ⟨f1, f2⟩ := h.fresh hopen
      exact ⟨h1.trans f1, h2.trans f2⟩

theorem run_inv : ∀ (ops : List (NOp × Bool)) (s : NQ), Inv s → ∀ r ∈ run s ops, Inv r.s := by
  intro ops
  induction ops with
  | nil => intro s _ r hr; simp [run] at hr
  | cons p rest ih =>
    intro s h r hr
    obtain ⟨op, ok⟩ := p
    simp only [run, List.mem_cons] at hr
    rcases hr with rfl | hr
    · exact step_inv h op ok
    · exact ih _ (step_inv h op ok) r hr

theorem after_inv0 : ∀ (ops : List (NOp × Bool)) (s : NQ), Inv0 s → Inv0 (after s ops) := by
  intro ops
  induction ops with
  | nil => intro s h; exact h
  | cons p rest ih => intro s h; obtain ⟨op, ok⟩ := p; exact ih _ (step_inv0 h op ok)

theorem init_inv0 (cap : Nat) : Inv0 (init cap) := by
  obtain ⟨hr, hc⟩ := init_rep cap
  refine ⟨⟨[], hr, ?_⟩⟩
  show I1 (chanOf (Msgq.init cap) [])
  rw [hc]; exact I1_init cap

theorem attach_inv (cap : Nat) : Inv (attach cap) :=
  ⟨⟨(init_inv0 cap).rep⟩, fun _ => ⟨rfl, rfl⟩⟩

/-- the levels of an `Inv` state of a never-closed queue are the answers of the two waiting tests -/
theorem inv_levels {s : NQ} (h : Inv s) (hopen : s.q.closed = false) :
    s.snd = !mustWaitPut s.q ∧ s.rcv = !mustWaitGet s.q := by
  obtain ⟨l, hr, hi⟩ := h.rep
  obtain ⟨f1, f2⟩ := h.fresh hopen
  exact ⟨f1.trans (notify_snd s.q), f2.trans (notify_rcv (I1_model hr hi))⟩

/-! ## what a zero-timeout operation does -/

theorem nbPut_refused {s : NQ} (h : mustWaitPut s.q = true) (a : Nat) (m : Msg) (ok : Bool) :
    step s (.nbPut a m) ok = refuse s a := by simp [step, nbPut, h]

theorem nbGet_refused {s : NQ} (h : mustWaitGet s.q = true) (a : Nat) (ok : Bool) :
    step s (.nbGet a) ok = refuse s a := by simp [step, nbGet, h]

/-- accepted put: its own aio completes with result 0 in the same call and no writer stays parked -/
theorem nbPut_accepted {s : NQ} (h : mustWaitPut s.q = false) (a : Nat) (m : Msg) (ok : Bool) :
    (a, 0, none) ∈ (step s (.nbPut a m) ok).evs ∧ (step s (.nbPut a m) ok).s.q.putq = [] := by
  have hs : step s (.nbPut a m) ok = aioPut s a m := by simp [step, nbPut, h]
  rw [hs]
  unfold mustWaitPut at h
  simp only [Bool.or_eq_false_iff, Bool.not_eq_false', Bool.and_eq_false_iff, decide_eq_false_iff_not] at h
  obtain ⟨hp, hroom⟩ := h
  have hpq : s.q.putq = [] := by simpa using hp
  simp only [aioPut, lift, Msgq.aioPut, hpq, List.nil_append]
  cases hg : s.q.getq with
  | cons r gs => simp [runPutq, hg, runNotify]
  | nil =>
    have hlt : s.q.len < s.q.cap := by
      rcases hroom with h1 | h1
      · omega
      · simp [hg] at h1
    simp [runPutq, hg, hlt, runNotify, enq]

/-- accepted get: its own aio completes with a message in the same call and no reader stays parked -/
theorem nbGet_accepted {s : NQ} (h : mustWaitGet s.q = false) (a : Nat) (ok : Bool) :
    (∃ m, (a, 0, some m) ∈ (step s (.nbGet a) ok).evs) ∧ (step s (.nbGet a) ok).s.q.getq = [] := by
  have hs : step s (.nbGet a) ok = aioGet s a := by simp [step, nbGet, h]
  rw [hs]
  unfold mustWaitGet at h
  simp only [Bool.or_eq_false_iff, Bool.not_eq_false', Bool.and_eq_false_iff, decide_eq_false_iff_not] at h
  obtain ⟨hgq, hsome⟩ := h
  have hg : s.q.getq = [] := by simpa using hgq
  simp only [aioGet, lift, Msgq.aioGet, hg, List.nil_append]
  by_cases hl : s.q.len ≠ 0
  · refine ⟨⟨(deqEq s.q).2.1, ?_⟩, ?_⟩ <;> simp [runGetq, hl, runNotify]
  · have hl0 : s.q.len = 0 := by omega
    cases hp : s.q.putq with
    | nil => rcases hsome with h1 | h1
             · exact absurd hl0 h1
             · simp [hp] at h1
    | cons p ps =>
      obtain ⟨w, m⟩ := p
      refine ⟨⟨m, ?_⟩, ?_⟩ <;> simp [runGetq, hl0, hp, runNotify]

/-! ## outputs, refinement of the channel specification, closed queues -/

theorem step_out (s : NQ) (op : NOp) (ok : Bool) :
    (step s op ok).rv = (qstep s.q op ok).rv ∧ (step s op ok).evs = (qstep s.q op ok).evs ∧
    (step s op ok).freed = (qstep s.q op ok).freed ∧ (step s op ok).safe = (qstep s.q op ok).safe := by
  rw [step_eq]; cases reachesNotify s.q op ok <;> exact ⟨rfl, rfl, rfl, rfl⟩

/-- one call against the specification: either the allocation failed (growing resize: NNG_ENOMEM,
    nothing completed, nothing freed, queue and levels untouched) or the outputs and the new abstract
    channel are those of `Chan.nstep` -/
theorem step_refines {s : NQ} {l : List Msg} (hr : RingRep s.q l) (op : NOp) (ok : Bool) :
    (step s op ok).safe = true ∧ ∃ l', RingRep (step s op ok).s.q l' ∧
      ((ok = false ∧ (∃ n, op = .base (.resize n)) ∧ (step s op ok).rv = Err.enomem ∧ (step s op ok).evs = [] ∧
          (step s op ok).freed = [] ∧ (step s op ok).s = s ∧ l' = l) ∨
        (chanOf s.q l).nstep op = ⟨chanOf (step s op ok).s.q l', (step s op ok).rv, (step s op ok).evs, (step s op ok).freed⟩) := by
  obtain ⟨o1, o2, o3, o4⟩ := step_out s op ok
  have hs := qstep_sim hr op
  by_cases hsame : qstep s.q op ok = qstep s.q op true
  · obtain ⟨l', hr', hc⟩ := hs.rep
    rw [o4, hsame]
    refine ⟨hs.safe, l', ?_, Or.inr ?_⟩
    · rw [step_q, hsame]; exact hr'
    · rw [o1, o2, o3, step_q, hsame, hs.rv, hs.evs, hs.freed, ← hc]
  · have hok : ok = false := by cases ok <;> simp_all
    subst hok
    cases op with
    | base op =>
      cases op with
      | resize n =>
        obtain ⟨e1, e2⟩ := resize_enomem s.q n
        by_cases hg : n + spare > s.q.alloc
        · have e : qstep s.q (.base (.resize n)) false = { q := s.q, rv := Err.enomem } := e1 hg
          have hn : reachesNotify s.q (.base (.resize n)) false = false := by simp [reachesNotify, hg]
          have hq : (step s (.base (.resize n)) false).s = s := by
            rw [step_eq, hn, e]; rfl
          rw [o1, o2, o3, o4, e, hq]
          exact ⟨rfl, l, hr, Or.inl ⟨rfl, ⟨n, rfl⟩, rfl, rfl, rfl, rfl, rfl⟩⟩
        · exact absurd (e2 hg) hsame
      | tryput m => exact absurd rfl hsame
      | aioPut a m => exact absurd rfl hsame
      | aioGet a => exact absurd rfl hsame
      | cancel a rv => exact absurd rfl hsame
      | close => exact absurd rfl hsame
    | nbPut a m => exact absurd rfl hsame
    | nbGet a => exact absurd rfl hsame
    | getSendable => exact absurd rfl hsame
    | getRecvable => exact absurd rfl hsame
    | getCap => exact absurd rfl hsame

/-- the levels of an `Inv` state are the ones the specification asks for (none asked when closed) -/
theorem inv_wantLevels {s : NQ} (h : Inv s) {l : List Msg} (hr : RingRep s.q l) :
    ∀ lv, (chanOf s.q l).wantLevels = some lv → lv = (s.snd, s.rcv) := by
  intro lv hw
  unfold Chan.wantLevels at hw
  by_cases hc : (chanOf s.q l).closed = true
  · simp [hc] at hw
  · have hopen : s.q.closed = false := by simpa [chanOf] using hc
    obtain ⟨h1, h2⟩ := inv_levels h hopen
    simp only [hc, if_false, Bool.false_eq_true, Option.some.injEq] at hw
    rw [← hw, nbPutOk_chanOf hr, nbGetOk_chanOf hr, h1, h2]

theorem chan_pumpPut_closed (c : Chan) (a : Nat) (m : Msg) : (c.aioPut a m).c.closed = c.closed := by
  unfold Chan.aioPut
  generalize pumpPut c.cap (c.putq ++ [(a, m)]) c.items c.getq [] = r
  obtain ⟨pq, items, gq, evs⟩ := r
  rfl

theorem chan_pumpGet_closed (c : Chan) (a : Nat) : (c.aioGet a).c.closed = c.closed := by
  unfold Chan.aioGet
  generalize pumpGet (c.getq ++ [a]) c.items c.putq [] = r
  obtain ⟨gq, items, pq, evs⟩ := r
  rfl

theorem chan_closed_sticky {c : Chan} (h : c.closed = true) (op : NOp) : (c.nstep op).c.closed = true := by
  cases op with
  | base op =>
    cases op with
    | tryput m => simp [Chan.nstep, Chan.step, Chan.tryput, h]
    | aioPut a m => simp only [Chan.nstep, Chan.step]; rw [chan_pumpPut_closed]; exact h
    | aioGet a => simp only [Chan.nstep, Chan.step]; rw [chan_pumpGet_closed]; exact h
    | cancel a rv =>
      simp only [Chan.nstep, Chan.step, Chan.cancel]
      by_cases hc : c.getq.contains a = true ∨ (c.putq.map (·.1)).contains a = true
      · simp only [if_pos hc]; exact h
      · simp only [if_neg hc]; exact h
    | close => rfl
    | resize n => exact h
  | nbPut a m =>
    simp only [Chan.nstep, Chan.nbPut]
    cases c.nbPutOk
    · exact h
    · simp only [if_true]; rw [chan_pumpPut_closed]; exact h
  | nbGet a =>
    simp only [Chan.nstep, Chan.nbGet]
    cases c.nbGetOk
    · exact h
    · simp only [if_true]; rw [chan_pumpGet_closed]; exact h
  | getSendable => exact h
  | getRecvable => exact h
  | getCap => exact h

/-- no call reopens a closed queue -/
theorem closed_sticky {s : NQ} {l : List Msg} (hr : RingRep s.q l) (hc : s.q.closed = true) (op : NOp) (ok : Bool) :
    (step s op ok).s.q.closed = true := by
  obtain ⟨_, l', _, h⟩ := step_refines hr op ok
  rcases h with ⟨_, _, _, _, _, hs, _⟩ | h
  · rw [hs]; exact hc
  · have := congrArg (fun r => r.c.closed) h
    simp only [chanOf] at this
    rw [← this]
    exact chan_closed_sticky (c := chanOf s.q l) hc op

/-- nni_msgq_close: queue emptied, waiters gone, closed set -- and both levels left as they were -/
theorem close_facts {s : NQ} {l : List Msg} (hr : RingRep s.q l) (ok : Bool) :
    (step s (.base .close) ok).notified = false ∧
    (step s (.base .close) ok).s.snd = s.snd ∧ (step s (.base .close) ok).s.rcv = s.rcv ∧
    (step s (.base .close) ok).s.q.closed = true ∧ (step s (.base .close) ok).s.q.len = 0 ∧
    (step s (.base .close) ok).s.q.putq = [] ∧ (step s (.base .close) ok).s.q.getq = [] ∧
    (step s (.base .close) ok).s.q.cap = s.q.cap := by
  obtain ⟨l', hr', hc⟩ := (close_sim hr).rep
  have hq : (step s (.base .close) ok).s.q = (Msgq.close s.q).q := rfl
  have h1 := congrArg Chan.items hc
  have h2 := congrArg Chan.putq hc
  have h3 := congrArg Chan.getq hc
  have h4 := congrArg Chan.cap hc
  simp only [Chan.close, chanOf] at h1 h2 h3 h4
  subst h1
  refine ⟨rfl, rfl, rfl, ?_, ?_, ?_, ?_, ?_⟩
  · rw [hq]; exact close_closed hr
  · rw [hq]; exact len_zero_of_nil hr'
  · rw [hq]; exact h2.symm
  · rw [hq]; exact h3.symm
  · rw [hq]; exact h4.symm

end Nng.MsgqN
