/- lemmas: the lmq model (Model/Lmq.lean) refines the bounded FIFO (Spec/Queues.lean) -/
import NngModel.Model.Lmq
import NngModel.Proofs.Ring
import NngModel.Generated.C18
namespace Nng.Lmq
open Nng.Ring Nng.QSpec

/-- `q` represents the FIFO contents `l` (oldest first).  All of lmq's invariants live here. -/
structure Rep (q : Lmq) (l : List Msg) : Prop where
  pow : ∃ k, q.msgs.length = 2 ^ k
  mask : q.mask = q.msgs.length - 1
  alloc_ok : (q.alloc = 0 ∧ q.msgs.length = inline) ∨ q.alloc = q.msgs.length
  get_lt : q.get < q.msgs.length
  put_eq : q.put = idx q.msgs.length q.get q.len
  len_eq : l.length = q.len
  len_cap : q.len ≤ q.cap
  cap_le : q.cap ≤ q.msgs.length
  slots : ∀ i, i < q.len → q.msgs[idx q.msgs.length q.get i]? = (l[i]?).map some

/-- model result `r` matches specification result `s` -/
structure Sim (r : Res) (s : FRes) : Prop where
  safe : r.safe = true
  rv : r.rv = s.rv
  out : r.out = s.out
  freed : r.freed = s.freed
  cap : r.q.cap = s.q.cap
  rep : Rep r.q s.q.items

theorem Rep.mask_next {q : Lmq} {l} (h : Rep q l) {g : Nat} (hg : g < q.msgs.length) :
    (g + 1) &&& q.mask = next q.msgs.length g := by
  obtain ⟨k, hk⟩ := h.pow
  rw [h.mask, hk]; rw [hk] at hg; exact and_mask_next hg

theorem Rep.put_lt {q : Lmq} {l} (h : Rep q l) (hl : q.len < q.msgs.length) : q.put < q.msgs.length := by
  rw [h.put_eq]; exact idx_lt h.get_lt (by omega)

theorem put_sim {q : Lmq} {l : List Msg} (h : Rep q l) (m : Msg) : Sim (put q m) (Fifo.put ⟨q.cap, l⟩ m) := by
  unfold put Fifo.put
  by_cases hf : q.len ≥ q.cap
  · rw [if_pos hf, if_pos (by simp only [h.len_eq]; exact hf)]
    exact ⟨rfl, rfl, rfl, rfl, rfl, h⟩
  · rw [if_neg hf, if_neg (by simp only [h.len_eq]; exact hf)]
    have hlen : q.len < q.msgs.length := by have := h.cap_le; omega
    have hput := h.put_lt hlen
    have hg := h.get_lt
    refine ⟨by simp [wr, hput], rfl, rfl, rfl, rfl, ?_⟩
    simp only [wr, hput, if_true]
    refine ⟨by simpa using h.pow, by simpa using h.mask, by simpa using h.alloc_ok, by simpa using hg, ?_, by simp [h.len_eq],
      by simp; omega, by simpa using h.cap_le, ?_⟩
    · simp only [List.length_set]
      rw [h.mask_next hput, h.put_eq, ← idx_succ hg hlen]
    · intro i hi
      have hle := h.len_eq
      simp only [List.length_set] at *
      rw [List.getElem?_set]
      by_cases hil : i < q.len
      · have hne : q.put ≠ idx q.msgs.length q.get i := by
          rw [h.put_eq]; exact (idx_ne hg hil hlen).symm
        rw [if_neg hne, h.slots i hil, List.getElem?_append_left (by omega)]
      · have : i = q.len := by omega
        subst this
        rw [if_pos h.put_eq, if_pos hput, List.getElem?_append_right (by omega)]
        simp [h.len_eq]

/-- the state change shared by nni_lmq_get and the flush loop body -/
theorem deq_rep {q : Lmq} {m : Msg} {l : List Msg} (h : Rep q (m :: l)) :
    rd q.msgs q.get = (m, true) ∧
    Rep { q with msgs := q.msgs.set q.get none, get := (q.get + 1) &&& q.mask, len := q.len - 1 } l := by
  have hg := h.get_lt
  have hlen : 0 < q.len := by have := h.len_eq; simp at this; omega
  have hln : q.len ≤ q.msgs.length := by have := h.cap_le; have := h.len_cap; omega
  have h0 := h.slots 0 hlen
  rw [idx_zero hg] at h0
  simp at h0
  refine ⟨by simp [rd, h0], ?_⟩
  refine ⟨by simpa using h.pow, by simpa using h.mask, by simpa using h.alloc_ok, ?_, ?_, ?_, ?_, by simpa using h.cap_le, ?_⟩
  · simp only [List.length_set]; rw [h.mask_next hg]; exact next_lt (by omega)
  · simp only [List.length_set]; rw [h.mask_next hg, h.put_eq]
    have : q.len = (q.len - 1) + 1 := by omega
    rw [this, ← idx_next hg (by omega)]; simp
  · have := h.len_eq; simp at this; simp; omega
  · have := h.len_cap; simp; omega
  · intro i hi
    simp only [List.length_set] at *
    rw [h.mask_next hg, idx_next hg (by omega), List.getElem?_set]
    have hne : q.get ≠ idx q.msgs.length q.get (i + 1) := by
      have := idx_ne hg (show 0 < i + 1 by omega) (show i + 1 < q.msgs.length by omega)
      rw [idx_zero hg] at this; exact this
    rw [if_neg hne, h.slots (i + 1) (by omega)]; simp

theorem get_sim {q : Lmq} {l : List Msg} (h : Rep q l) : Sim (get q) (Fifo.get ⟨q.cap, l⟩) := by
  unfold get Fifo.get
  cases l with
  | nil =>
    have : q.len = 0 := by have := h.len_eq; simpa using this.symm
    rw [if_pos this]; exact ⟨rfl, rfl, rfl, rfl, rfl, h⟩
  | cons m l =>
    have : ¬ q.len = 0 := by have := h.len_eq; simp at this; omega
    rw [if_neg this]
    obtain ⟨hr, hrep⟩ := deq_rep h
    exact ⟨by simp [hr], rfl, by simp [hr], rfl, rfl, hrep⟩

theorem flushLoop_spec : ∀ (f : Nat) (q : Lmq) (l fr : List Msg), Rep q l → l.length ≤ f →
    ∃ q', flushLoop f q fr true = (q', fr ++ l, true) ∧ Rep q' [] ∧ q'.cap = q.cap := by
  intro f
  induction f with
  | zero =>
    intro q l fr h hl
    have : l = [] := by cases l <;> simp_all
    subst this
    have hz : q.len = 0 := by have := h.len_eq; simpa using this.symm
    exact ⟨q, by simp [flushLoop, hz], h, rfl⟩
  | succ f ih =>
    intro q l fr h hl
    cases l with
    | nil =>
      have hz : q.len = 0 := by have := h.len_eq; simpa using this.symm
      exact ⟨q, by simp [flushLoop, hz], h, rfl⟩
    | cons m l =>
      have hp : q.len > 0 := by have := h.len_eq; simp at this; omega
      obtain ⟨hr, hrep⟩ := deq_rep h
      obtain ⟨q', he, hr', hc⟩ := ih _ l (fr ++ [m]) hrep (by simpa using hl)
      refine ⟨q', ?_, hr', by simpa using hc⟩
      simp only [flushLoop, if_pos hp, hr, Bool.and_true]
      rw [he]; simp

theorem flush_sim {q : Lmq} {l : List Msg} (h : Rep q l) : Sim (flush q) (Fifo.flush ⟨q.cap, l⟩) := by
  obtain ⟨q', he, hr, hc⟩ := flushLoop_spec q.len q l [] h (by rw [h.len_eq]; exact Nat.le_refl _)
  unfold flush Fifo.flush
  rw [he]
  exact ⟨rfl, rfl, rfl, by simp, hc, hr⟩

theorem roundLoop_spec (cap : Nat) : ∀ (f a : Nat), (∃ j, a = 2 ^ j) → cap ≤ f + a → 1 ≤ a →
    (roundLoop cap f a).2 = true ∧ (∃ j, (roundLoop cap f a).1 = 2 ^ j) ∧ cap ≤ (roundLoop cap f a).1 ∧
      a ≤ (roundLoop cap f a).1 := by
  intro f
  induction f with
  | zero => intro a hp hc h1; simp [roundLoop]; exact ⟨by omega, hp, by omega⟩
  | succ f ih =>
    intro a hp hc h1
    unfold roundLoop
    by_cases hlt : a < cap
    · rw [if_pos hlt]
      obtain ⟨j, hj⟩ := hp
      obtain ⟨h1', h2, h3, h4⟩ := ih (a * 2) ⟨j + 1, by rw [hj, Nat.pow_succ]⟩ (by omega) (by omega)
      exact ⟨h1', h2, h3, by omega⟩
    · rw [if_neg hlt]; exact ⟨rfl, hp, by omega, Nat.le_refl _⟩

theorem roundAlloc_spec (cap : Nat) :
    (roundAlloc cap).2 = true ∧ (∃ j, (roundAlloc cap).1 = 2 ^ j) ∧ cap ≤ (roundAlloc cap).1 ∧ inline ≤ (roundAlloc cap).1 := by
  unfold roundAlloc
  exact roundLoop_spec cap cap inline ⟨1, by decide⟩ (by omega) (by decide)

/-- the move loop of resize: copies the oldest messages to the front of the new array -/
theorem moveLoop_spec (cap : Nat) : ∀ (f : Nat) (q : Lmq) (l : List Msg) (nq : List (Option Msg)) (k : Nat),
    Rep q l → l.length < f → k ≤ cap → cap ≤ nq.length →
    ∃ q' nq', moveLoop cap f q nq k true = (q', nq', k + min (cap - k) l.length, true) ∧
      Rep q' (l.drop (cap - k)) ∧ q'.cap = q.cap ∧ nq'.length = nq.length ∧
      (∀ j, j < k → nq'[j]? = nq[j]?) ∧
      (∀ j, j < min (cap - k) l.length → nq'[k + j]? = (l[j]?).map some) := by
  intro f
  induction f with
  | zero => intro q l nq k h hl; omega
  | succ f ih =>
    intro q l nq k h hl hk hc
    unfold moveLoop
    by_cases hlt : k < cap
    · rw [if_pos hlt]
      cases l with
      | nil =>
        have hz : q.len = 0 := by have := h.len_eq; simpa using this.symm
        have hg : (get q).rv ≠ 0 := by simp [get, hz, Err.eagain]
        rw [if_neg hg]
        exact ⟨q, nq, by simp, by simpa using h, rfl, rfl, fun _ _ => rfl, by simp⟩
      | cons m l =>
        have hs := get_sim h
        simp only [Fifo.get] at hs
        have hrv : (get q).rv = 0 := hs.rv
        have hout : (get q).out = some m := hs.out
        rw [if_pos hrv]
        have hkl : k < nq.length := by omega
        simp only [wr, hkl, if_true, hout, Option.getD_some, hs.safe, Bool.and_true]
        obtain ⟨q', nq', he, hr, hcap, hlen, hpre, hnew⟩ :=
          ih (get q).q l (nq.set k (some m)) (k + 1) hs.rep (by simpa using hl) (by omega) (by simpa using hc)
        refine ⟨q', nq', ?_, ?_, ?_, by simpa using hlen, ?_, ?_⟩
        · rw [he]; congr 3; simp only [List.length_cons]; omega
        · have : cap - k = (cap - (k + 1)) + 1 := by omega
          rw [this, List.drop_succ_cons]; exact hr
        · rw [hcap]; exact hs.cap
        · intro j hj
          rw [hpre j (by omega), List.getElem?_set]; rw [if_neg (by omega)]
        · intro j hj
          cases j with
          | zero => rw [Nat.add_zero, hpre k (by omega), List.getElem?_set]; simp [hkl]
          | succ j =>
            have := hnew j (by simp only [List.length_cons] at hj; omega)
            rw [show k + (j + 1) = k + 1 + j by omega, this]; simp
    · rw [if_neg hlt]
      have : cap - k = 0 := by omega
      exact ⟨q, nq, by simp [this], by simpa [this] using h, rfl, rfl, fun _ _ => rfl, by simp [this]⟩

theorem resize_sim {q : Lmq} {l : List Msg} (h : Rep q l) (cap : Nat) :
    Sim (resize q cap true) (Fifo.resize ⟨q.cap, l⟩ cap) := by
  obtain ⟨hsafe, ⟨j, hj⟩, hcap, hin⟩ := roundAlloc_spec cap
  obtain ⟨q', nq', he, hr, _, hlen, _, hnew⟩ :=
    moveLoop_spec cap (q.len + 1) q l (List.replicate (roundAlloc cap).1 none) 0 h
      (by rw [h.len_eq]; omega) (by omega) (by simpa using hcap)
  have hfl := flush_sim hr
  simp only [Fifo.flush] at hfl
  unfold resize Fifo.resize
  simp only [Bool.not_true, Bool.false_eq_true, if_false, he, hsafe, hfl.safe, Bool.and_true]
  simp only [Nat.sub_zero, Nat.zero_add, List.length_replicate] at hlen hnew he ⊢
  have hmin : min cap l.length ≤ (roundAlloc cap).1 := by omega
  refine ⟨rfl, rfl, rfl, by simpa using hfl.freed, rfl, ?_⟩
  have h2 : 0 < (roundAlloc cap).1 := by rw [hj]; exact Nat.two_pow_pos j
  refine ⟨⟨j, by simp [hlen, hj]⟩, by simp [hlen], Or.inr (by simp [hlen]), by simp [hlen]; exact h2, ?_, by simp, by simp; omega,
    by simp [hlen]; exact hcap, ?_⟩
  · simp only [hlen]
    rw [hj] at hmin ⊢
    rw [and_mask_le hmin]
    unfold idx; split <;> split <;> omega
  · intro i hi
    simp only [hlen] at hi ⊢
    have : idx (roundAlloc cap).1 0 i = i := by unfold idx; split <;> omega
    rw [this, hnew i hi, List.getElem?_take, if_pos (by omega)]

theorem resize_enomem (q : Lmq) (cap : Nat) :
    (resize q cap false).q = q ∧ (resize q cap false).rv = Err.enomem ∧ (resize q cap false).freed = [] ∧
    (resize q cap false).safe = true := by
  simp [resize, (roundAlloc_spec cap).1]

theorem base_rep (c : Nat) (hc : c ≤ inline) :
    Rep { len := 0, get := 0, put := 0, alloc := 0, mask := inline - 1,
          msgs := List.replicate inline none, cap := c } [] := by
  refine ⟨⟨1, by simp [inline, Nng.Generated.c18LmqInline]⟩, by simp, Or.inl ⟨rfl, by simp⟩,
    by simp [inline, Nng.Generated.c18LmqInline], by simp [idx, inline, Nng.Generated.c18LmqInline], rfl, by simp,
    by simpa using hc, by intro i hi; simp at hi⟩

theorem init_rep (cap : Nat) : (init cap true).2 = true ∧ Rep (init cap true).1 [] ∧ (init cap true).1.cap = cap := by
  unfold init
  by_cases hc : cap > inline
  · simp only [if_pos hc]
    have hs := resize_sim (base_rep inline (Nat.le_refl _)) cap
    exact ⟨hs.safe, by simpa [Fifo.resize] using hs.rep, hs.cap⟩
  · simp only [if_neg hc]
    exact ⟨by simp, base_rep cap (by omega), by simp⟩

end Nng.Lmq
