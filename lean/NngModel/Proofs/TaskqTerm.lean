/- Termination of the task-queue model under ANY scheduler, and absence of deadlock.
   A measure that every effective step strictly decreases: a queued task pays for the worker that
   pops it, a dispatch pays for the sleeper it wakes, and whoever brings task_busy to 0 pays for all
   the waiters that nni_cv_wake(&task->task_cv) sends round their `while (task->task_busy)` loop. -/
import NngModel.Proofs.TaskqInv
namespace Nng.Taskq

/-- remaining steps of a worker up to its next sleep (n = number of clients) -/
def WPc.rem (n : Nat) : WPc → Nat
  | .sleep => 0
  | .ready => 1
  | .after => 2 + n
  | .inCb => 3 + n
  | .popped => 4 + n

def Op.cost (n : Nat) : Op → Nat
  | .prep => 1
  | .busy => 1
  | .wait => 2
  | .exec => 4 + n
  | .dispatch => 7 + n

def progCost (n : Nat) (p : List Op) : Nat := (p.map (Op.cost n)).sum

def CPc.rem (n : Nat) : CPc → Nat
  | .idle => 0
  | .dispEnq => 6 + n
  | .execPop => 3 + n
  | .execCb => 2 + n
  | .execAfter => 1 + n
  | .waitSleep => 0
  | .waitChk => 1

def Client.rem (n : Nat) (c : Client) : Nat := progCost n c.prog + c.pc.rem n

def wsum (n : Nat) (ws : List WPc) : Nat := (ws.map (WPc.rem n)).sum
def csum (n : Nat) (cs : List Client) : Nat := (cs.map (Client.rem n)).sum

/-- the measure -/
def mu (s : State) : Nat :=
  (if s.panic then 0 else 1) + wsum s.cs.length s.ws + csum s.cs.length s.cs + (if s.onq then 4 + s.cs.length else 0)

theorem wsum_set (n : Nat) {ws : List WPc} {j : Nat} {w : WPc} (h : ws[j]? = some w) (w' : WPc) :
    wsum n (ws.set j w') + w.rem n = wsum n ws + w'.rem n := by
  have ⟨hl, hg⟩ := List.getElem?_eq_some_iff.mp h
  have := sum_map_set (WPc.rem n) ws j w' hl
  rw [hg] at this
  exact this

theorem csum_set (n : Nat) {cs : List Client} {i : Nat} {c : Client} (h : cs[i]? = some c) (c' : Client) :
    csum n (cs.set i c') + c.rem n = csum n cs + c'.rem n := by
  have ⟨hl, hg⟩ := List.getElem?_eq_some_iff.mp h
  have := sum_map_set (Client.rem n) cs i c' hl
  rw [hg] at this
  exact this

theorem csum_wakeAll_le (n : Nat) (cs : List Client) : csum n (wakeAll cs) ≤ csum n cs + cs.length := by
  have := sum_map_le_add (Client.rem n)
    (fun c => Client.rem n (if c.pc = .waitSleep then { c with pc := .waitChk } else c)) 1 cs (by
      intro c
      by_cases h : c.pc = .waitSleep
      · simp [h, Client.rem, CPc.rem]
      · simp [h])
  simpa [csum, wakeAll, Function.comp_def] using this

theorem wsum_wakeFirst_le (n : Nat) (ws : List WPc) : wsum n (wakeFirst ws) ≤ wsum n ws + 1 := by
  induction ws with
  | nil => simp [wakeFirst]
  | cons x xs ih =>
    cases x <;> simp [wakeFirst, wsum, WPc.rem] <;> (simp [wsum] at ih; omega)

theorem wsum_wakeOne_le (n : Nat) (ws : List WPc) (p : Nat) : wsum n (wakeOne ws p) ≤ wsum n ws + 1 := by
  unfold wakeOne
  split
  · rename_i h
    have := wsum_set n h .ready
    simp [WPc.rem] at this
    omega
  · exact wsum_wakeFirst_le n ws

theorem mu_wstep_lt {s : State} (hp : s.panic = false) {j : Nat} {w : WPc} (hj : s.ws[j]? = some w)
    (he : w.enabled = true) : mu (wstep s j w) < mu s := by
  have hs := fun w' => wsum_set s.cs.length hj w'
  have hwk := csum_wakeAll_le s.cs.length s.cs
  cases w with
  | sleep => simp [WPc.enabled] at he
  | ready =>
    have h1 := hs .popped; have h2 := hs .sleep
    simp [WPc.rem] at h1 h2
    unfold wstep
    by_cases hq : s.onq = true
    · simp [mu, hq, hp]; omega
    · simp [mu, hq, hp]; omega
  | popped =>
    have h1 := hs .inCb
    simp [WPc.rem] at h1
    simp [wstep, mu, hp]; omega
  | inCb =>
    have h1 := hs .after
    simp [WPc.rem] at h1
    simp [wstep, mu, hp]; omega
  | after =>
    have h1 := hs .ready
    simp [WPc.rem] at h1
    unfold wstep decBusy
    by_cases hb : s.busy = 1
    · simp [mu, hp, hb, wakeAll_length]; omega
    · simp [mu, hp, hb]; omega

theorem progCost_cons (n : Nat) (op : Op) (r : List Op) : progCost n (op :: r) = op.cost n + progCost n r := by
  simp [progCost]

theorem mu_cstep_lt (hasCb : Bool) {s : State} (hp : s.panic = false) {i : Nat} {c : Client} (hi : s.cs[i]? = some c)
    (he : c.enabled = true) (pick : Nat) : mu (cstep hasCb s i c pick) < mu s := by
  have hs := fun c' => csum_set s.cs.length hi c'
  have hwk := fun c' => csum_wakeAll_le s.cs.length (s.cs.set i c')
  have hw1 := wsum_wakeOne_le s.cs.length s.ws pick
  obtain ⟨pc, prog, res⟩ := c
  cases pc with
  | waitSleep => simp [Client.enabled] at he
  | idle =>
    cases prog with
    | nil => simp [Client.enabled] at he
    | cons op r =>
      cases op with
      | prep =>
        have h1 := hs ⟨.idle, r, res⟩
        simp [Client.rem, CPc.rem, progCost_cons, Op.cost] at h1
        simp [cstep, mu, hp]; omega
      | busy =>
        have h1 := hs ⟨.idle, r, res ++ [.busy (s.busy != 0)]⟩
        simp [Client.rem, CPc.rem, progCost_cons, Op.cost] at h1
        simp [cstep, mu, hp]; omega
      | wait =>
        unfold cstep
        by_cases hb : s.busy = 0
        · have h1 := hs ⟨.idle, r, res ++ [.waited]⟩
          simp [Client.rem, CPc.rem, progCost_cons, Op.cost] at h1
          simp [mu, hp, hb]; omega
        · have h1 := hs ⟨.waitSleep, r, res⟩
          simp [Client.rem, CPc.rem, progCost_cons, Op.cost] at h1
          simp [mu, hp, hb]; omega
      | dispatch =>
        unfold cstep take
        cases hasCb with
        | true =>
          have h1 := hs ⟨.dispEnq, r, res⟩
          simp [Client.rem, CPc.rem, progCost_cons, Op.cost] at h1
          by_cases hpr : s.prep = true
          · simp [mu, hp, hpr]; omega
          · simp [mu, hp, hpr]; omega
        | false =>
          have h1 := hs ⟨.idle, r, res⟩
          have h2 := hwk ⟨.idle, r, res⟩
          simp [Client.rem, CPc.rem, progCost_cons, Op.cost] at h1 h2
          unfold decBusy
          by_cases hpr : s.prep = true
          · by_cases hb : s.busy = 1
            · simp [mu, hp, hpr, hb, wakeAll_length]; omega
            · simp [mu, hp, hpr, hb]; omega
          · by_cases hb : s.busy = 0
            · simp [mu, hp, hpr, hb, wakeAll_length]; omega
            · simp [mu, hp, hpr, hb]; omega
      | exec =>
        unfold cstep take
        cases hasCb with
        | true =>
          have h1 := hs ⟨.execPop, r, res⟩
          simp [Client.rem, CPc.rem, progCost_cons, Op.cost] at h1
          by_cases hpr : s.prep = true
          · simp [mu, hp, hpr]; omega
          · simp [mu, hp, hpr]; omega
        | false =>
          have h1 := hs ⟨.idle, r, res⟩
          have h2 := hwk ⟨.idle, r, res⟩
          simp [Client.rem, CPc.rem, progCost_cons, Op.cost] at h1 h2
          unfold decBusy
          by_cases hpr : s.prep = true
          · by_cases hb : s.busy = 1
            · simp [mu, hp, hpr, hb, wakeAll_length]; omega
            · simp [mu, hp, hpr, hb]; omega
          · by_cases hb : s.busy = 0
            · simp [mu, hp, hpr, hb, wakeAll_length]; omega
            · simp [mu, hp, hpr, hb]; omega
  | dispEnq =>
    have h1 := hs ⟨.idle, prog, res⟩
    simp [Client.rem, CPc.rem] at h1
    unfold cstep
    by_cases hq : s.onq = true
    · simp [mu, hp, hq]
    · simp [mu, hp, hq]; omega
  | execPop =>
    have h1 := hs ⟨.execCb, prog, res⟩
    simp [Client.rem, CPc.rem] at h1
    simp [cstep, mu, hp]; omega
  | execCb =>
    have h1 := hs ⟨.execAfter, prog, res⟩
    simp [Client.rem, CPc.rem] at h1
    simp [cstep, mu, hp]; omega
  | execAfter =>
    have h1 := hs ⟨.idle, prog, res⟩
    have h2 := hwk ⟨.idle, prog, res⟩
    simp [Client.rem, CPc.rem] at h1 h2
    unfold cstep decBusy
    by_cases hb : s.busy = 1
    · simp [mu, hp, hb, wakeAll_length]; omega
    · simp [mu, hp, hb]; omega
  | waitChk =>
    unfold cstep
    by_cases hb : s.busy = 0
    · have h1 := hs ⟨.idle, prog, res ++ [.waited]⟩
      simp [Client.rem, CPc.rem] at h1
      simp [mu, hp, hb]; omega
    · have h1 := hs ⟨.waitSleep, prog, res⟩
      simp [Client.rem, CPc.rem] at h1
      simp [mu, hp, hb]; omega

/-- a choice that is not enabled is a stutter step -/
theorem step_not_enabled (hasCb : Bool) (s : State) (ch : Choice) (h : enabled s ch = false) :
    step hasCb s ch = s := by
  unfold enabled at h
  unfold step
  by_cases hp : s.panic = true
  · simp [hp]
  · simp only [hp, if_false]
    simp only [Bool.not_eq_true] at hp
    simp only [hp, Bool.not_false, Bool.true_and] at h
    cases hc : ch.tid with
    | w j =>
      rw [hc] at h; simp only [] at h ⊢
      cases hj : s.ws[j]? with
      | none => rfl
      | some w =>
        rw [hj] at h; simp only [] at h ⊢
        cases w <;> simp [WPc.enabled] at h
        rfl
    | c i =>
      rw [hc] at h; simp only [] at h ⊢
      cases hi : s.cs[i]? with
      | none => rfl
      | some c =>
        rw [hi] at h; simp only [] at h ⊢
        obtain ⟨pc, prog, res⟩ := c
        cases pc <;> simp [Client.enabled] at h
        · subst h; rfl
        · rfl

/-- every effective step strictly decreases the measure -/
theorem mu_step_lt (hasCb : Bool) (s : State) (ch : Choice) (h : enabled s ch = true) :
    mu (step hasCb s ch) < mu s := by
  unfold enabled at h
  unfold step
  simp only [Bool.and_eq_true, Bool.not_eq_true'] at h
  obtain ⟨hp, h⟩ := h
  simp only [hp, Bool.false_eq_true, if_false]
  cases hc : ch.tid with
  | w j =>
    rw [hc] at h; simp only [] at h ⊢
    cases hj : s.ws[j]? with
    | none => rw [hj] at h; simp at h
    | some w => rw [hj] at h; exact mu_wstep_lt hp hj h
  | c i =>
    rw [hc] at h; simp only [] at h ⊢
    cases hi : s.cs[i]? with
    | none => rw [hi] at h; simp at h
    | some c => rw [hi] at h; exact mu_cstep_lt hasCb hp hi h ch.pick

theorem mu_step_le (hasCb : Bool) (s : State) (ch : Choice) : mu (step hasCb s ch) ≤ mu s := by
  cases h : enabled s ch with
  | true => exact Nat.le_of_lt (mu_step_lt hasCb s ch h)
  | false => rw [step_not_enabled hasCb s ch h]; exact Nat.le_refl _

/-- number of effective (non-stutter) steps of a schedule -/
def effSteps (hasCb : Bool) (s : State) : List Choice → Nat
  | [] => 0
  | c :: cs => (if enabled s c then 1 else 0) + effSteps hasCb (step hasCb s c) cs

theorem effSteps_le (hasCb : Bool) (s : State) (sched : List Choice) :
    effSteps hasCb s sched + mu (run hasCb s sched) ≤ mu s := by
  induction sched generalizing s with
  | nil => simp [effSteps, run]
  | cons c cs ih =>
    have := ih (step hasCb s c)
    simp only [effSteps, run, List.foldl_cons] at this ⊢
    cases h : enabled s c with
    | true => have := mu_step_lt hasCb s c h; simp; omega
    | false => have := mu_step_le hasCb s c; simp; omega

/-- total cost of the client programs: 7 + n steps per dispatch, 4 + n per exec, 2 per wait, 1 per prep / busy -/
def progsCost (progs : List (List Op)) : Nat := (progs.map (progCost progs.length)).sum

theorem mu_init (nw : Nat) (progs : List (List Op)) : mu (init nw progs) = 1 + nw + progsCost progs := by
  have h1 : ∀ n, wsum n (List.replicate nw WPc.ready) = nw := by
    intro n
    induction nw with
    | zero => rfl
    | succ k ih => simp [wsum, List.replicate_succ, WPc.rem] at ih ⊢; omega
  have h2 : ∀ n, csum n (progs.map fun p => (⟨.idle, p, []⟩ : Client)) = (progs.map (progCost n)).sum := by
    intro n
    induction progs with
    | nil => rfl
    | cons p ps ih => simp [csum, Client.rem, CPc.rem] at ih ⊢; omega
  simp [mu, init, h1, h2, progsCost]

theorem progCost_le (n : Nat) (p : List Op) : progCost n p ≤ (7 + n) * p.length := by
  induction p with
  | nil => simp [progCost]
  | cons op r ih =>
    rw [progCost_cons]
    have : op.cost n ≤ 7 + n := by cases op <;> simp [Op.cost] <;> omega
    simp only [List.length_cons, Nat.mul_add, Nat.mul_one]; omega

theorem progsCost_le (progs : List (List Op)) :
    progsCost progs ≤ (7 + progs.length) * (progs.map List.length).sum := by
  unfold progsCost
  generalize progs.length = n
  induction progs with
  | nil => simp
  | cons p ps ih =>
    have := progCost_le n p
    simp only [List.map_cons, List.sum_cons, Nat.mul_add]; omega

theorem mem_cc_pos {cs : List Client} {c : Client} (h : c ∈ cs) : 1 ≤ cc c.pc cs := by
  obtain ⟨i, hl, hi⟩ := List.getElem_of_mem h
  exact cc_pos (List.getElem?_eq_some_iff.mpr ⟨hl, hi⟩)

/-- a state in which no choice is enabled: every worker sleeps on tq_sched_cv, the run list is empty,
    nobody is inside a call except waiters asleep on task_cv - and those exist only if a prep is
    still owed a dispatch -/
theorem stuck_shape {s : State} (hI : Inv s) (hp : s.panic = false) (h : ∀ ch, enabled s ch = false) :
    (∀ w ∈ s.ws, w = .sleep) ∧ s.onq = false ∧ s.busy = s.owed ∧
    (∀ c ∈ s.cs, c.finished = true ∨ c.pc = .waitSleep) ∧
    (s.owed = 0 → ∀ c ∈ s.cs, c.finished = true) := by
  have hw : ∀ w ∈ s.ws, w = .sleep := by
    intro w hw
    obtain ⟨j, hl, hj⟩ := List.getElem_of_mem hw
    have := h ⟨.w j, 0⟩
    simp only [enabled, hp, List.getElem?_eq_getElem hl, hj] at this
    cases w <;> simp [WPc.enabled] at this
    rfl
  have hc : ∀ c ∈ s.cs, c.finished = true ∨ c.pc = .waitSleep := by
    intro c hc
    obtain ⟨i, hl, hi⟩ := List.getElem_of_mem hc
    have := h ⟨.c i, 0⟩
    simp only [enabled, hp, List.getElem?_eq_getElem hl, hi] at this
    obtain ⟨pc, prog, res⟩ := c
    cases pc <;> simp [Client.enabled, Client.finished] at this ⊢
    exact this
  have hq : s.onq = false := by
    cases hq : s.onq with
    | false => rfl
    | true =>
      have := hI.qworker hq
      rw [cw_all hw] at this
      omega
  have z1 := cw_zero (q := .popped) (fun w hm => by rw [hw w hm]; decide)
  have z2 := cw_zero (q := .inCb) (fun w hm => by rw [hw w hm]; decide)
  have z3 := cw_zero (q := .after) (fun w hm => by rw [hw w hm]; decide)
  have zc : ∀ q, q ≠ CPc.idle → q ≠ CPc.waitSleep → cc q s.cs = 0 := by
    intro q h1 h2
    apply cc_zero
    intro c hm
    rcases hc c hm with hf | hs
    · simp only [Client.finished, Bool.and_eq_true, beq_iff_eq] at hf
      rw [hf.1]; exact Ne.symm h1
    · rw [hs]; exact Ne.symm h2
  have hb : s.busy = s.owed := by
    have := hI.busyEq
    rw [z1, z2, z3, zc .dispEnq (by decide) (by decide), zc .execPop (by decide) (by decide),
        zc .execCb (by decide) (by decide), zc .execAfter (by decide) (by decide), hq] at this
    simpa using this
  refine ⟨hw, hq, hb, hc, ?_⟩
  intro ho c hm
  rcases hc c hm with hf | hs
  · exact hf
  · have := hI.sleepers (by omega)
    have := mem_cc_pos hm
    rw [hs] at this
    omega

end Nng.Taskq
