/- the forwarder between FIFO sockets (Model/Device.lean `System`): the invariant that gives
   per-origin order end to end when no two forwarders read the same socket -/
import NngModel.Proofs.DeviceFrame
namespace Nng.Device
open Nng
set_option linter.unusedSimpArgs false

/-- the message a completed receive of path `j` is waiting to deliver -/
def pendOf (ready : List (Option Msg)) (j : Nat) : List Msg := (ready[j]?.getD none).toList

/-- per path: conservation of its source's arrivals, and where its posted receive is -/
structure PathSock (p : Path) (j : Nat) (k : Sock) (ready : List (Option Msg)) : Prop where
  cons : k.arrived = p.rcvd ++ pendOf ready j ++ k.rxq
  posted : p.state = .recv →
    (k.rwait = [j] ∧ ready[j]? = some none ∧ k.rxq = []) ∨ (k.rwait = [] ∧ ∃ m, ready[j]? = some (some m))
  idle : p.state ≠ .recv → k.rwait = [] ∧ ready[j]? = some none

structure SInv (dirs : List Dir) (sy : System) : Prop where
  dev : Inv dirs sy.dev
  rlen : sy.ready.length = sy.dev.paths.length
  wsrc : ∀ s k, sy.socks[s]? = some k → ∀ i ∈ k.rwait, ∃ hi : i < sy.dev.paths.length, sy.dev.paths[i].src = s
  sockOk : ∀ j (hj : j < sy.dev.paths.length), sy.dev.paths[j].src < sy.socks.length
  path : ∀ j (hj : j < sy.dev.paths.length) k, sy.socks[sy.dev.paths[j].src]? = some k →
    PathSock sy.dev.paths[j] j k sy.ready

/-- no two forwarders read the same socket -/
def DistinctSrc (dirs : List Dir) : Prop := (dirs.map (·.src)).Nodup

theorem src_of_dirs (dirs : List Dir) (d : Dev) (h : Inv dirs d) (j : Nat) (hj : j < d.paths.length) :
    ∃ hj' : j < dirs.length, d.paths[j].src = dirs[j].src := by
  have hl : dirs.length = d.paths.length := by rw [← h.dirsEq]; simp
  refine ⟨by omega, ?_⟩
  have : (d.paths.map dirOf)[j]'(by simpa using hj) = dirs[j]'(by omega) := by
    have := h.dirsEq
    simp only [this]
  simpa [dirOf] using congrArg Dir.src this

theorem distinct_paths (dirs : List Dir) (hD : DistinctSrc dirs) (d : Dev) (h : Inv dirs d)
    (i j : Nat) (hi : i < d.paths.length) (hj : j < d.paths.length) (he : d.paths[i].src = d.paths[j].src) : i = j := by
  rcases src_of_dirs dirs d h i hi with ⟨hi', h1⟩
  rcases src_of_dirs dirs d h j hj with ⟨hj', h2⟩
  have h3 : (dirs.map (·.src))[i]'(by simpa using hi') = (dirs.map (·.src))[j]'(by simpa using hj') := by
    simp only [List.getElem_map]; rw [← h1, ← h2]; exact he
  have hp := List.pairwise_iff_getElem.mp hD
  rcases Nat.lt_trichotomy i j with hl | hl | hl
  · exact absurd h3 (hp i j (by simpa using hi') (by simpa using hj') hl)
  · exact hl
  · exact absurd h3.symm (hp j i (by simpa using hj') (by simpa using hi') hl)

/-! ### the sockets' reaction to the device's calls -/

theorem postRecv_trace (sy : System) (t : List Act) (s i : Nat) :
    (postRecv { sy with trace := t } s i).socks = (postRecv sy s i).socks ∧
    (postRecv { sy with trace := t } s i).ready = (postRecv sy s i).ready ∧
    (postRecv { sy with trace := t } s i).dev = (postRecv sy s i).dev := by
  unfold postRecv
  simp only
  cases sy.socks[s]? with
  | none => exact ⟨rfl, rfl, rfl⟩
  | some k =>
    simp only
    cases k.rxq <;> exact ⟨rfl, rfl, rfl⟩

theorem postRecv_dev (sy : System) (s i : Nat) : (postRecv sy s i).dev = sy.dev := by
  unfold postRecv
  cases sy.socks[s]? with
  | none => rfl
  | some k =>
    simp only
    cases k.rxq <;> rfl

/-- the step of `absorb_core` for a call that is not a receive -/
theorem absorb_other (a : Act) (_hna : ∀ s i, a ≠ Act.sockRecv s i) (as : List Act)
    (ih : ∀ sy : System,
      (absorb sy as).dev = sy.dev ∧
      (posts as = [] → (absorb sy as).socks = sy.socks ∧ (absorb sy as).ready = sy.ready) ∧
      (∀ s i, posts as = [(s, i)] →
        (absorb sy as).socks = (postRecv sy s i).socks ∧ (absorb sy as).ready = (postRecv sy s i).ready))
    (sy : System)
    (hab : absorb sy (a :: as) = absorb { sy with trace := sy.trace ++ [a] } as)
    (hpo : posts (a :: as) = posts as) :
    (absorb sy (a :: as)).dev = sy.dev ∧
    (posts (a :: as) = [] → (absorb sy (a :: as)).socks = sy.socks ∧ (absorb sy (a :: as)).ready = sy.ready) ∧
    (∀ s i, posts (a :: as) = [(s, i)] →
      (absorb sy (a :: as)).socks = (postRecv sy s i).socks ∧ (absorb sy (a :: as)).ready = (postRecv sy s i).ready) := by
  have h1 := ih { sy with trace := sy.trace ++ [a] }
  rw [hab, hpo]
  refine ⟨h1.1, h1.2.1, ?_⟩
  intro s i h
  have h2 := h1.2.2 s i h
  have hpt := postRecv_trace sy (sy.trace ++ [a]) s i
  rw [hpt.1, hpt.2.1] at h2
  exact h2

theorem absorb_core (acts : List Act) : ∀ sy : System,
    (absorb sy acts).dev = sy.dev ∧
    (posts acts = [] → (absorb sy acts).socks = sy.socks ∧ (absorb sy acts).ready = sy.ready) ∧
    (∀ s i, posts acts = [(s, i)] →
      (absorb sy acts).socks = (postRecv sy s i).socks ∧ (absorb sy acts).ready = (postRecv sy s i).ready) := by
  induction acts with
  | nil =>
    intro sy
    refine ⟨rfl, fun _ => ⟨rfl, rfl⟩, ?_⟩
    intro s i h; simp [posts] at h
  | cons a as ih =>
    intro sy
    cases a with
    | sockRecv s' i' =>
      have hpt := postRecv_trace sy (sy.trace ++ [Act.sockRecv s' i']) s' i'
      have h1 := ih (postRecv { sy with trace := sy.trace ++ [Act.sockRecv s' i'] } s' i')
      refine ⟨?_, ?_, ?_⟩
      · show (absorb (postRecv { sy with trace := sy.trace ++ [Act.sockRecv s' i'] } s' i') as).dev = sy.dev
        rw [h1.1, hpt.2.2, postRecv_dev]
      · intro h; simp [posts] at h
      · intro s i h
        simp only [posts, List.cons.injEq, Prod.mk.injEq] at h
        rcases h with ⟨⟨hs, hi⟩, hnil⟩
        subst hs; subst hi
        have h2 := h1.2.1 hnil
        show (absorb (postRecv { sy with trace := sy.trace ++ [Act.sockRecv s' i'] } s' i') as).socks = _ ∧
          (absorb (postRecv { sy with trace := sy.trace ++ [Act.sockRecv s' i'] } s' i') as).ready = _
        rw [h2.1, h2.2, hpt.1, hpt.2.1]
        exact ⟨rfl, rfl⟩
    | sockSend a1 a2 a3 => exact absorb_other _ (by intro s i h; cases h) as ih sy rfl rfl
    | msgFree a1 a2 => exact absorb_other _ (by intro s i h; cases h) as ih sy rfl rfl
    | abort a1 a2 => exact absorb_other _ (by intro s i h; cases h) as ih sy rfl rfl
    | hold a1 a2 => exact absorb_other _ (by intro s i h; cases h) as ih sy rfl rfl
    | sockClose a1 => exact absorb_other _ (by intro s i h; cases h) as ih sy rfl rfl
    | userFinish a1 => exact absorb_other _ (by intro s i h; cases h) as ih sy rfl rfl
    | reap => exact absorb_other _ (by intro s i h; cases h) as ih sy rfl rfl

/-! ### updating one path and its source socket -/

theorem core_state {p q : Path} (h : p.core = q.core) : p.state = q.state ∧ p.src = q.src ∧ p.rcvd = q.rcvd := by
  simp only [Path.core, Prod.mk.injEq] at h
  exact ⟨h.1, h.2.1, h.2.2.2.2.2.1⟩

theorem pathSock_congr {p p' : Path} {j : Nat} {k : Sock} {ready ready' : List (Option Msg)}
    (hc : p'.core = p.core) (hr : ready'[j]? = ready[j]?) (h : PathSock p j k ready) : PathSock p' j k ready' := by
  rcases core_state hc with ⟨hs, _, hrc⟩
  refine ⟨?_, ?_, ?_⟩
  · rw [hrc]; simp only [pendOf, hr]; exact h.cons
  · intro h1; rw [hr]; exact h.posted (hs ▸ h1)
  · intro h1; rw [hr]; exact h.idle (hs ▸ h1)

theorem sinv_update (dirs : List Dir) (hD : DistinctSrc dirs) (sy sy' : System) (i : Nat)
    (hS : SInv dirs sy) (hi : i < sy.dev.paths.length)
    (hdev : Inv dirs sy'.dev)
    (hlen : sy'.dev.paths.length = sy.dev.paths.length)
    (hframe : ∀ j (hj : j < sy.dev.paths.length) (hj' : j < sy'.dev.paths.length), j ≠ i →
      sy'.dev.paths[j].core = sy.dev.paths[j].core)
    (hsrc : ∀ (hi' : i < sy'.dev.paths.length), sy'.dev.paths[i].src = sy.dev.paths[i].src)
    (hsocks : ∀ s, s ≠ sy.dev.paths[i].src → sy'.socks[s]? = sy.socks[s]?)
    (hslen : sy'.socks.length = sy.socks.length)
    (hrlen : sy'.ready.length = sy.ready.length)
    (hready : ∀ j, j ≠ i → sy'.ready[j]? = sy.ready[j]?)
    (hw : ∀ k', sy'.socks[sy.dev.paths[i].src]? = some k' → ∀ x ∈ k'.rwait,
      x = i ∨ ∃ k, sy.socks[sy.dev.paths[i].src]? = some k ∧ x ∈ k.rwait)
    (hpi : ∀ (hi' : i < sy'.dev.paths.length) k', sy'.socks[sy.dev.paths[i].src]? = some k' →
      PathSock sy'.dev.paths[i] i k' sy'.ready) :
    SInv dirs sy' := by
  have hsrcAll : ∀ x (hx : x < sy.dev.paths.length) (hx' : x < sy'.dev.paths.length),
      sy'.dev.paths[x].src = sy.dev.paths[x].src := by
    intro x hx hx'
    by_cases hxi : x = i
    · subst hxi; exact hsrc hx'
    · exact (core_state (hframe x hx hx' hxi)).2.1
  refine ⟨hdev, by rw [hrlen, hlen]; exact hS.rlen, ?_, ?_, ?_⟩
  · intro s k' hk' x hx
    have old : ∀ k, sy.socks[s]? = some k → x ∈ k.rwait → ∃ hx' : x < sy'.dev.paths.length, sy'.dev.paths[x].src = s := by
      intro k hk hxk
      rcases hS.wsrc s k hk x hxk with ⟨hx1, hx2⟩
      exact ⟨by rw [hlen]; exact hx1, by rw [hsrcAll x hx1 (by rw [hlen]; exact hx1)]; exact hx2⟩
    by_cases hs : s = sy.dev.paths[i].src
    · subst hs
      rcases hw k' hk' x hx with h1 | ⟨k, hk, hxk⟩
      · subst h1; exact ⟨by rw [hlen]; exact hi, hsrc _⟩
      · exact old k hk hxk
    · rw [hsocks s hs] at hk'
      exact old k' hk' hx
  · intro j hj
    have hj0 : j < sy.dev.paths.length := by rw [← hlen]; exact hj
    rw [hslen, hsrcAll j hj0 hj]
    exact hS.sockOk j hj0
  · intro j hj k' hk'
    have hj0 : j < sy.dev.paths.length := by rw [← hlen]; exact hj
    by_cases hji : j = i
    · subst hji
      rw [hsrc hj] at hk'
      exact hpi hj k' hk'
    · have hne : sy.dev.paths[j].src ≠ sy.dev.paths[i].src := by
        intro he
        exact hji (distinct_paths dirs hD sy.dev hS.dev j i hj0 hi he)
      rw [hsrcAll j hj0 hj, hsocks _ hne] at hk'
      exact pathSock_congr (hframe j hj0 hj hji) (hready j hji) (hS.path j hj0 k' hk')

end Nng.Device
