/-
  Simulation (11): the events on connections — pipe_add, pipe_drop, send_done, recv_done.
-/
import NngModel.Proofs.ReqJudgeEvJ
namespace Nng.ReqJ
open Nng Nng.Proto Nng.Req Nng.ReqSpec

theorem closeOne_cl (s : State) (p k : Nat) : ∀ x, x ∈ (closeOne s p k).2 → isCl x = true := by
  unfold closeOne
  dsimp only
  intro x hx
  split at hx
  · split at hx
    · simp at hx; subst hx; simp [isCl]
    · cases hx
  · split at hx
    · split at hx
      · cases hx
      · exact isCl_of_isTx (runSendQueue_tx _ x hx)
    · cases hx

theorem closeLoop_cl (fuel : Nat) (s : State) (p : Nat) : ∀ x, x ∈ (closeLoop fuel s p).2 → isCl x = true := by
  induction fuel generalizing s with
  | zero => intro x hx; cases hx
  | succ n ih =>
    unfold closeLoop
    split
    · intro x hx; cases hx
    · intro x hx
      dsimp only at hx
      rcases List.mem_append.1 hx with h | h
      · exact closeOne_cl _ _ _ x h
      · exact ih _ x h

theorem onPclosed_busy (outs : List Out) (c : Bool) (j : J) (p : Nat) :
    onPclosed outs c { j with busy := j.busy.filter (· != p) } p = onPclosed outs c j p := by
  unfold onPclosed
  simp only [List.filter_filter, Bool.and_self]

/-- the transport reports the end of a send: its reference goes, the pipe is not busy any more -/
theorem release_R {rest : List Ev} {s : State} {j : J} (p h : Nat) (hM : R rest s j) :
    R rest (setPipe (tranRelease s h) p { (tranRelease s h).pipe p with busy := none })
      { j with busy := j.busy.filter (· != p) } := by
  have e : mv (setPipe (tranRelease s h) p { (tranRelease s h).pipe p with busy := none }) =
      mv { s with pipe := upd s.pipe p { s.pipe p with busy := none } } := by
    have h1 := mv_tranRelease s h
    simp only [mv, MV.mk.injEq] at h1
    obtain ⟨g1, g2, g3, g4, g5, g6, g7, g8, g9, g10, g11, g12, g13, g14, g15, g16⟩ := h1
    apply mv_eq_of
    · exact g1
    · show upd (tranRelease s h).pipe p _ = upd s.pipe p _; rw [g2]
    · exact g3
    · exact g4
    · exact g5
    · exact congrFun g6
    · exact g7
    · exact g8
    · exact g9
    · exact g10
    · exact g11
    · exact g12
    · exact g13
    · exact g14
    · exact g15
    · exact g16
  refine M.congr e ?_
  have hcx : ∀ q, ((upd s.pipe p { s.pipe p with busy := none }) q).ctxs = (s.pipe q).ctxs := by
    intro q; simp only [upd]; split
    · rename_i e; rw [e]
    · rfl
  have hcl : ∀ q, ((upd s.pipe p { s.pipe p with busy := none }) q).closed = (s.pipe q).closed := by
    intro q; simp only [upd]; split
    · rename_i e; rw [e]
    · rfl
  have hm := hM.mi
  refine ⟨⟨hm.biglive, hm.dead, hm.park, hm.creset, hm.rep, ?_, hm.wir, hm.unw, hm.sa, hm.rid, hm.al_nodup, hm.al_le, hm.fresh,
    hm.inj, hm.bound, hm.open_, hm.notgone, hm.notclosed⟩, ?_, fun x hx => ?_, fun x hx => by cases hx⟩
  · intro k q hk
    have hk' : k ∈ ((upd s.pipe p { s.pipe p with busy := none }) q).ctxs := hk
    rw [hcx] at hk'; exact hm.onp k q hk'
  · have hg := hM.g
    refine ⟨hg.now, hg.idle, ?_, hg.sock, hg.closed, hg.seen, hg.tick, hg.tkle, hg.tknv, hg.nosend, hg.stab⟩
    intro q
    show q ∈ j.busy.filter (· != p) ↔
      (q < s.npipes ∧ ((upd s.pipe p { s.pipe p with busy := none }) q).closed = false ∧
        ((upd s.pipe p { s.pipe p with busy := none }) q).busy.isSome = true)
    rw [List.mem_filter, hg.busy q, hcl]
    by_cases e : q = p
    · subst e; simp
    · rw [upd_other _ _ _ _ e]; simp [e]
  · exact RCx.frame (s := s) (j := j) rfl (fun _ _ => rfl) (fun _ _ _ hi => hi) (Nat.le_refl _)
      (fun q => by show x ∈ ((upd s.pipe p { s.pipe p with busy := none }) q).ctxs ↔ _; rw [hcx])
      (fun q _ hq => by show ((upd s.pipe p { s.pipe p with busy := none }) q).closed = true; rw [hcl]; exact hq)
      Iff.rfl (Nat.le_refl _) (Or.inl rfl) rfl rfl (hM.rc x hx)

/-- a pipe becomes ready (a new one, or one whose send completed) -/
theorem ready_R {rest : List Ev} {s : State} {j : J} (p : Nat) (hM : R rest s j) :
    R rest { s with readyPipes := s.readyPipes ++ [p] } { j with idle := j.idle ++ [p] } := by
  have hm := hM.mi
  refine ⟨⟨hm.biglive, hm.dead, hm.park, hm.creset, hm.rep, hm.onp, hm.wir, hm.unw, hm.sa, hm.rid, hm.al_nodup, hm.al_le, hm.fresh,
    hm.inj, hm.bound, hm.open_, hm.notgone, hm.notclosed⟩, ?_, fun x hx => ?_, fun x hx => by cases hx⟩
  · have hg := hM.g
    refine ⟨hg.now, ?_, hg.busy, hg.sock, hg.closed, hg.seen, hg.tick, hg.tkle, hg.tknv, hg.nosend, hg.stab⟩
    intro q
    show q ∈ j.idle ++ [p] ↔ q ∈ s.readyPipes ++ [p]
    rw [List.mem_append, List.mem_append, hg.idle q]
  · exact RCx.frame (s := s) (j := j) rfl (fun _ _ => rfl) (fun _ _ _ hi => hi) (Nat.le_refl _) (fun _ => Iff.rfl)
      (fun _ _ hq => hq) Iff.rfl (Nat.le_refl _) (Or.inl rfl) rfl rfl (hM.rc x hx)

theorem sim_fail_rv {rest : List Ev} {s : State} {j : J} (ev : Ev) (hM : R (ev :: rest) s j) (hD : Dr s)
    (hev : ∀ ms, ev ≠ .advance ms) (he : (phEv j ev [.rv (-1)] (decide ((-1 : Int) = 0))).1 = j) :
    Sim rest s j (ReqSpec.step j ev [.rv (-1)]) ev := by
  rw [step_rv j ev (-1) hM.g.closed hev (by rw [he]; exact hM.g.closed), he, quiescent_R hM.weaken hD]
  exact ⟨hM.weaken, rfl, fun _ => rfl⟩

theorem sim_pipeDrop {rest : List Ev} {s : State} {j : J} (p : Nat) (hM : R (.pipeDrop p :: rest) s j)
    (hI : Inv2 none none s) (hD : Dr s) :
    Sim rest (Req.step s (.pipeDrop p)).1 j (ReqSpec.step j (.pipeDrop p) (Req.step s (.pipeDrop p)).2) (.pipeDrop p) := by
  unfold Req.step
  rw [if_neg (by simp [hM.mi.open_]), if_neg (by simp [hM.mi.notgone])]
  dsimp only
  split
  · rename_i hc
    simp only [Bool.and_eq_true, decide_eq_true_eq, Bool.not_eq_true'] at hc
    obtain ⟨a, b, c⟩ := pipeClose_sim (.pipeDrop p) hM.weaken hI hD p hc.1 hc.2 rfl (fun _ _ => rfl) (fun _ => rfl)
    exact ⟨a, b, fun _ => c⟩
  · exact sim_fail_rv _ hM hD (fun _ => by simp) rfl

/-- the hypothesis on `recv_done` events -/
def relFreshEv (s : State) : Ev → Prop
  | .recvDone _ (.ok b) => relFresh s b
  | _ => True

theorem dr_setPipe {s : State} (p : Nat) (pp : Pipe) (h : Dr s) : Dr (setPipe s p pp) := h

theorem sim_recvDone {rest : List Ev} {s : State} {j : J} (p : Nat) (r : Except Nat Bytes)
    (hM : R (.recvDone p r :: rest) s j) (hI1 : Inv s) (hI : Inv2 none none s) (hD : Dr s)
    (hf : relFreshEv s (.recvDone p r)) :
    Sim rest (Req.step s (.recvDone p r)).1 j (ReqSpec.step j (.recvDone p r) (Req.step s (.recvDone p r)).2)
      (.recvDone p r) := by
  unfold Req.step
  rw [if_neg (by simp [hM.mi.open_]), if_neg (by simp [hM.mi.notgone])]
  dsimp only
  split
  · rename_i hc
    simp only [Bool.and_eq_true, decide_eq_true_eq, Bool.not_eq_true'] at hc
    have hM1 := hM.weaken.setArmed p false
    have hI2 := inv2_setArmed (y := none) (x := none) p false hI
    have hD1 : Dr (setPipe s p { s.pipe p with armed := false }) := hD
    have hp1 : p < (setPipe s p { s.pipe p with armed := false }).npipes := hc.1.1
    have hc1 : ((setPipe s p { s.pipe p with armed := false }).pipe p).closed = false := by
      simp [setPipe, hc.1.2]
    split
    · -- transport error
      obtain ⟨a, b, c⟩ := pipeClose_sim (.recvDone p (.error _)) hM1 hI2 hD1 p hp1 hc1 rfl (fun _ _ => rfl) (fun _ => rfl)
      exact ⟨a, b, fun _ => c⟩
    · rename_i b
      split
      · -- too short to carry a request id
        rename_i hlen
        have hlen' : b.length < 4 := hlen
        obtain ⟨a, b', c⟩ := pipeClose_sim (.recvDone p (.ok b)) hM1 hI2 hD1 p hp1 hc1 rfl
          (fun outs ok => by
            show (if ok = true then onReply j b outs else (j, [])) = (j, [])
            split
            · unfold onReply; rw [if_pos hlen']
            · rfl) (fun _ => rfl)
        exact ⟨a, b', fun _ => c⟩
      · rename_i hlen
        have hlen' : 4 ≤ b.length := by
          have : ¬ b.length < 4 := hlen
          omega
        have hM2 := hM1.setArmed p true
        have hI3 := inv2_setArmed (y := none) (x := none) p true hI2
        have hI1' : Inv (setPipe (setPipe s p { s.pipe p with armed := false }) p
            { (setPipe s p { s.pipe p with armed := false }).pipe p with armed := true }) :=
          hI1.same ((same_setPipe _ _ _).trans (same_setPipe _ _ _))
        obtain ⟨a1, a2, a3, _⟩ := sim_reply p b hM2 hI1' hI3 hD hlen' hf
        exact ⟨a1, a2, fun _ => a3⟩
  · exact sim_fail_rv _ hM hD (fun _ => by simp) (by cases r <;> rfl)

/-- the judge's step for an event that prints `rv 0` and then the output of the send queue -/
theorem step_rv_tx (j : J) (ev : Ev) (o : List Out) (hc : j.closed = false) (ho : ∀ x, x ∈ o → isTx x = true)
    (he : evAioOf ev = none) (hov : ∀ j', phOver ev j' = j')
    (hcl : (phEv j ev ([.rv 0] ++ o) true).1.closed = false) :
    ReqSpec.step j ev ([.rv 0] ++ o) = quiescent (psF o (phEv j ev ([.rv 0] ++ o) true).1) := by
  have hcl' : ∀ x, x ∈ o → isCl x = true := fun x hx => isCl_of_isTx (ho x hx)
  rw [step_eq]
  have hne : notExecuted ([.rv 0] ++ o) = false := by
    unfold notExecuted
    rw [List.any_append]
    have := notExecuted_cl hcl'
    unfold notExecuted at this
    rw [this]; rfl
  rw [hne, he]
  have hA : phA none ([.rv 0] ++ o) j = j := by rw [phA_append, phA_cl hcl']; rfl
  have hok : ([Out.rv 0] ++ o).contains (.rv 0) = true := by simp
  rw [hA, hok]
  simp only [hc, Bool.false_eq_true, if_false, phRest, he, hcl]
  have h1 : ∀ jx, phPipe ([.rv 0] ++ o) jx = jx := by
    intro jx; rw [phPipe_eq, phPipeF_append, phPipeF_cl hcl']; rfl
  have h2 : ∀ jx, phClosed ([.rv 0] ++ o) false ([.rv 0] ++ o) jx = jx := by
    intro jx; rw [phClosed_append, phClosed_cl hcl']; rfl
  have h3 : ∀ jx, phReset none false ([.rv 0] ++ o) jx = jx := by
    intro jx; rw [phReset_append, phReset_tx ho]; rfl
  have h4 : ∀ jx, psF ([.rv 0] ++ o) jx = psF o jx := by
    intro jx; rw [psF_app]; rfl
  have h5 : ∀ ex jx, phDone ev none ex ([.rv 0] ++ o) jx = jx := by
    intro ex jx; rw [phDone_append, phDone_cl hcl']; rfl
  have h6 : ∀ jx, phPoll ([.rv 0] ++ o) jx = jx := by
    intro jx; rw [phPoll_append, phPoll_cl hcl']; rfl
  have h7 : ∀ jx, phBlocked ([.rv 0] ++ o) jx = jx := by
    intro jx
    apply phBlocked_of
    intro x hx ms e
    subst e
    simp only [List.mem_append, List.mem_singleton, reduceCtorEq, false_or] at hx
    have := ho _ hx
    simp [isTx] at this
  rw [h1, h2, h3, h4, h5, h6, hov, h7]

theorem sim_sendDone {rest : List Ev} {s : State} {j : J} (p rv : Nat) (hM : R (.sendDone p rv :: rest) s j)
    (hI : Inv2 none none s) (hD : Dr s) :
    Sim rest (Req.step s (.sendDone p rv)).1 j (ReqSpec.step j (.sendDone p rv) (Req.step s (.sendDone p rv)).2)
      (.sendDone p rv) := by
  unfold Req.step
  rw [if_neg (by simp [hM.mi.open_]), if_neg (by simp [hM.mi.notgone])]
  dsimp only
  have hfail : (phEv j (.sendDone p rv) [.rv (-1)] (decide ((-1 : Int) = 0))).1 = j := by simp [phEv]
  split
  · rename_i hc
    simp only [Bool.and_eq_true, decide_eq_true_eq, Bool.not_eq_true'] at hc
    split
    · rename_i h hb
      have hM2 := release_R p h hM.weaken
      obtain ⟨hI2, hrdy, hbz, hnp⟩ := inv2_sendDonePrep p h hI hb
      have hD2 : Dr (setPipe (tranRelease s h) p { (tranRelease s h).pipe p with busy := none }) := by
        have : (setPipe (tranRelease s h) p { (tranRelease s h).pipe p with busy := none }).sendQueue = s.sendQueue := by
          have := congrArg MV.sendQueue (mv_tranRelease s h); exact this
        rcases hD with a | a
        · left; rw [this, a]
        · right; rw [hrdy, a]
      have hcl2 : ((setPipe (tranRelease s h) p { (tranRelease s h).pipe p with busy := none }).pipe p).closed = false := by
        have : (tranRelease s h).pipe = s.pipe := congrArg MV.pipe (mv_tranRelease s h)
        simp [setPipe, this, hc.2]
      generalize hs2 : setPipe (tranRelease s h) p { (tranRelease s h).pipe p with busy := none } = s2 at *
      split
      · -- the send failed: the pipe is closed
        rename_i hrv
        have hrv' : (rv == 0) = false := by simpa using hrv
        have hev : ∀ (jx : J) outs ok, phEv jx (.sendDone p rv) outs ok = (jx, []) := by
          intro jx outs ok; simp [phEv, hrv']
        obtain ⟨a, b, c⟩ := pipeClose_sim (.sendDone p rv) hM2 hI2 hD2 p (by rw [hnp]; exact hc.1) hcl2 rfl (hev _) (fun _ => rfl)
        have hstep : ReqSpec.step j (.sendDone p rv) ([.rv 0] ++ (pipeClose s2 p).2) =
            ReqSpec.step { j with busy := j.busy.filter (· != p) } (.sendDone p rv) ([.rv 0] ++ (pipeClose s2 p).2) := by
          unfold pipeClose
          rw [if_neg (by simp [hcl2])]
          dsimp only
          have hassoc : ∀ l : List Out, [Out.rv 0] ++ (l ++ [Out.pclosed p]) = [Out.rv 0] ++ l ++ [Out.pclosed p] := by
            intro l; simp
          rw [hassoc]
          rw [step_pclosed j _ _ p hM.g.closed (closeLoop_cl _ _ _) rfl (hev j) (fun _ => rfl),
            step_pclosed { j with busy := j.busy.filter (· != p) } _ _ p hM.g.closed (closeLoop_cl _ _ _) rfl (hev _) (fun _ => rfl),
            onPclosed_busy]
        rw [hstep]
        exact ⟨a, b, fun _ => c⟩
      · -- the send completed: the pipe is ready again
        rename_i hrv
        have hrv' : rv = 0 := by simpa using hrv
        subst hrv'
        unfold sendCb
        rw [if_neg (by simp [hcl2, hM2.mi.notclosed])]
        dsimp only
        have hpb : p ∈ j.busy := (hM.g.busy p).2 ⟨hc.1, hc.2, by rw [hb]; rfl⟩
        have hE : ∀ outs, (phEv j (.sendDone p 0) outs true).1 =
            { j with busy := j.busy.filter (· != p), idle := j.idle ++ [p] } := by
          intro outs; simp [phEv, hpb]
        have hM3 : R rest { s2 with busyPipes := s2.busyPipes.erase p, readyPipes := s2.readyPipes ++ [p] }
            { j with busy := j.busy.filter (· != p), idle := j.idle ++ [p] } :=
          M.congr (s := { s2 with readyPipes := s2.readyPipes ++ [p] }) rfl (ready_R p hM2)
        have hM3' : R rest (if ({ s2 with busyPipes := s2.busyPipes.erase p, readyPipes := s2.readyPipes ++ [p] } : State).sendQueue.isEmpty
              then { ({ s2 with busyPipes := s2.busyPipes.erase p, readyPipes := s2.readyPipes ++ [p] } : State) with writable := true }
              else { s2 with busyPipes := s2.busyPipes.erase p, readyPipes := s2.readyPipes ++ [p] })
            { j with busy := j.busy.filter (· != p), idle := j.idle ++ [p] } := by
          split
          · exact M.congr (s := { s2 with busyPipes := s2.busyPipes.erase p, readyPipes := s2.readyPipes ++ [p] }) rfl hM3
          · exact hM3
        have hpn : p ∉ s2.readyPipes := by
          rw [hrdy]; intro hm
          have : (s.pipe p).busy = none := (hI.ready_ok p hm).2.2
          rw [this] at hb; cases hb
        have hI3 : Inv2 none none { s2 with busyPipes := s2.busyPipes.erase p, readyPipes := s2.readyPipes ++ [p] } :=
          invV_ready p hI2 hpn (show p < s2.npipes by rw [hnp]; exact hc.1) hcl2 hbz
        have hI3' : Inv2 none none (if ({ s2 with busyPipes := s2.busyPipes.erase p, readyPipes := s2.readyPipes ++ [p] } : State).sendQueue.isEmpty
              then { ({ s2 with busyPipes := s2.busyPipes.erase p, readyPipes := s2.readyPipes ++ [p] } : State) with writable := true }
              else { s2 with busyPipes := s2.busyPipes.erase p, readyPipes := s2.readyPipes ++ [p] }) := by
          split
          · exact hI3
          · exact hI3
        obtain ⟨hfin, he04, he12⟩ := runSendQueue_M hI3' hM3' (Or.inr (fun _ h => by cases h))
        rw [step_rv_tx j _ _ hM.g.closed (runSendQueue_tx _) rfl (fun _ => rfl) (by rw [hE]; exact hM.g.closed), hE,
          quiescent_R hfin (runSendQueue_dr _)]
        exact ⟨hfin, he04, fun _ => he12⟩
    · exact sim_fail_rv _ hM hD (fun _ => by simp) hfail
  · exact sim_fail_rv _ hM hD (fun _ => by simp) hfail

/-- a new pipe slot is used -/
theorem addPipe_R {rest : List Ev} {s : State} {j : J} (pp : Pipe) (hM : R rest s j) (hI : Inv2 none none s)
    (hb : pp.busy = none) (hx : pp.ctxs = []) :
    R rest (setPipe { s with npipes := s.npipes + 1 } s.npipes pp) j := by
  have hout : (s.pipe s.npipes).busy = none ∧ (s.pipe s.npipes).ctxs = [] := hI.out_pipe _ (Nat.le_refl _)
  have hcx : ∀ q, ((upd s.pipe s.npipes pp) q).ctxs = (s.pipe q).ctxs := by
    intro q; simp only [upd]; split
    · rename_i e; rw [e, hx, hout.2]
    · rfl
  have hm := hM.mi
  refine ⟨⟨hm.biglive, hm.dead, hm.park, hm.creset, hm.rep, ?_, hm.wir, hm.unw, hm.sa, hm.rid, hm.al_nodup, hm.al_le, hm.fresh,
    hm.inj, hm.bound, hm.open_, hm.notgone, hm.notclosed⟩, ?_, fun x hx' => ?_, fun x hx' => by cases hx'⟩
  · intro k q hk
    have hk' : k ∈ ((upd s.pipe s.npipes pp) q).ctxs := hk
    rw [hcx] at hk'; exact hm.onp k q hk'
  · have hg := hM.g
    refine ⟨hg.now, hg.idle, ?_, hg.sock, hg.closed, hg.seen, hg.tick, hg.tkle, hg.tknv, hg.nosend, hg.stab⟩
    intro q
    show q ∈ j.busy ↔ (q < s.npipes + 1 ∧ ((upd s.pipe s.npipes pp) q).closed = false ∧ ((upd s.pipe s.npipes pp) q).busy.isSome = true)
    rw [hg.busy q]
    by_cases e : q = s.npipes
    · subst e; rw [upd_same, hb]; simp
    · rw [upd_other _ _ _ _ e]
      constructor
      · rintro ⟨a, b, c⟩; exact ⟨by omega, b, c⟩
      · rintro ⟨a, b, c⟩; exact ⟨by omega, b, c⟩
  · exact RCx.frame (s := s) (j := j) rfl (fun _ _ => rfl) (fun _ _ _ hi => hi) (Nat.le_succ _)
      (fun q => by show x ∈ ((upd s.pipe s.npipes pp) q).ctxs ↔ _; rw [hcx])
      (fun q hq hc => by
        show ((upd s.pipe s.npipes pp) q).closed = true
        rw [upd_other _ _ _ _ (by omega)]; exact hc)
      Iff.rfl (Nat.le_refl _) (Or.inl rfl) rfl rfl (hM.rc x hx')

theorem step_pipeAdd_ok (j : J) (peer id : Nat) (o : List Out) (hc : j.closed = false) (ho : ∀ x, x ∈ o → isTx x = true) :
    ReqSpec.step j (.pipeAdd peer) ([.pipe id, .parm id] ++ o) = quiescent (psF o { j with idle := j.idle ++ [id] }) := by
  have hcl' : ∀ x, x ∈ o → isCl x = true := fun x hx => isCl_of_isTx (ho x hx)
  rw [step_eq]
  have hne : notExecuted ([.pipe id, .parm id] ++ o) = false := by
    unfold notExecuted
    rw [List.any_append]
    have := notExecuted_cl hcl'
    unfold notExecuted at this
    rw [this]; rfl
  have hA : phA none ([.pipe id, .parm id] ++ o) j = j := by rw [phA_append, phA_cl hcl']; rfl
  rw [hne]
  simp only [hc, Bool.false_eq_true, if_false, evAioOf, hA, phEv, phRest]
  have hnc : ([Out.pipe id, Out.parm id] ++ o).contains (.pclosed ((id : Int)).toNat) = false := by
    rw [List.contains_eq_any_beq, List.any_append]
    have := contains_pclosed_cl hcl' ((id : Int)).toNat
    rw [List.contains_eq_any_beq] at this
    rw [this]; rfl
  have h1 : phPipe ([.pipe id, .parm id] ++ o) j = { j with idle := j.idle ++ [id] } := by
    rw [phPipe_eq, phPipeF_append, phPipeF_cl hcl']
    simp only [phPipeF, List.foldl_cons, List.foldl_nil, hnc]
    simp
  have h2 : ∀ jx, phClosed ([.pipe id, .parm id] ++ o) false ([.pipe id, .parm id] ++ o) jx = jx := by
    intro jx; rw [phClosed_append, phClosed_cl hcl']; rfl
  have h3 : ∀ jx, phReset none false ([.pipe id, .parm id] ++ o) jx = jx := by
    intro jx; rw [phReset_append, phReset_tx ho]; rfl
  have h4 : ∀ jx, psF ([.pipe id, .parm id] ++ o) jx = psF o jx := by
    intro jx; rw [psF_app]; rfl
  have h5 : ∀ ex jx, phDone (.pipeAdd peer) none ex ([.pipe id, .parm id] ++ o) jx = jx := by
    intro ex jx; rw [phDone_append, phDone_cl hcl']; rfl
  have h6 : ∀ jx, phPoll ([.pipe id, .parm id] ++ o) jx = jx := by
    intro jx; rw [phPoll_append, phPoll_cl hcl']; rfl
  have h7 : ∀ jx, phBlocked ([.pipe id, .parm id] ++ o) jx = jx := by
    intro jx
    apply phBlocked_of
    intro x hx ms e
    subst e
    simp only [List.mem_append, List.mem_cons, reduceCtorEq, false_or, List.mem_nil_iff] at hx
    have := ho _ hx
    simp [isTx] at this
  rw [h1, h2, h3, h4, h5, h6, h7]
  simp only [phOver, hc]

theorem step_pipeAdd_bad (j : J) (peer id : Nat) (hc : j.closed = false) :
    ReqSpec.step j (.pipeAdd peer) [.pipe id, .pclosed id] =
      quiescent (onPclosed [.pipe id, .pclosed id] false j id) := by
  rw [step_eq]
  have hnc : ([Out.pipe id, Out.pclosed id] : List Out).contains (.pclosed ((id : Int)).toNat) = true := by simp
  simp only [notExecuted, List.any_cons, List.any_nil, Bool.or_false, Bool.false_eq_true, if_false, hc, evAioOf, phA, List.foldl_cons,
    List.foldl_nil, phEv, phRest, phPipe, hnc, phClosed, phReset, psF, phDone, phPoll, phOver, phBlocked, Bool.not_true, Bool.and_false]

def addSt (s : State) (pp : Pipe) : State := setPipe { s with npipes := s.npipes + 1 } s.npipes pp
def readySt (s : State) (p : Nat) : State := { s with readyPipes := s.readyPipes ++ [p], writable := true }

theorem sim_pipeAdd {rest : List Ev} {s : State} {j : J} (peer : Nat) (hM : R (.pipeAdd peer :: rest) s j)
    (hI : Inv2 none none s) (hD : Dr s) :
    Sim rest (Req.step s (.pipeAdd peer)).1 j (ReqSpec.step j (.pipeAdd peer) (Req.step s (.pipeAdd peer)).2) (.pipeAdd peer) := by
  unfold Req.step
  rw [if_neg (by simp [hM.mi.open_]), if_neg (by simp [hM.mi.notgone])]
  dsimp only
  have hM' := hM.weaken
  split
  · -- a peer speaking another protocol is rejected
    have hR := addPipe_R { closed := true } hM' hI rfl rfl
    rw [step_pipeAdd_bad j peer s.npipes hM.g.closed]
    have hok : ∀ k, k ∈ keys → lostOk [Out.pipe (s.npipes : Int), Out.pclosed s.npipes] false s.npipes (j.ctx k) := by
      intro k _ hon
      exfalso
      obtain ⟨r, hr, hw, ha⟩ := lostC_of_onPipe (now := 0) hon
      obtain ⟨h, hq, hrq⟩ := (hM'.rc k (by simp)).held hr ha
      have := (hrq.lp (by rw [← hrq.wired]; exact hw)).1
      unfold onPipe at hon
      simp only [hr, Bool.and_eq_true, beq_iff_eq] at hon
      omega
    rw [onPclosed_eq _ false j s.npipes hok]
    have hnot : ∀ x, lostP s.npipes j.now (j.ctx x) = j.ctx x := by
      intro x
      unfold lostP
      split
      · rename_i hon
        exfalso
        obtain ⟨r, hr, hw, ha⟩ := lostC_of_onPipe (now := 0) hon
        obtain ⟨h, hq, hrq⟩ := (hM'.rc x (by simp)).held hr ha
        have := (hrq.lp (by rw [← hrq.wired]; exact hw)).1
        unfold onPipe at hon
        simp only [hr, Bool.and_eq_true, beq_iff_eq] at hon
        omega
      · rfl
    have hidle : j.idle.filter (· != s.npipes) = j.idle := by
      rw [List.filter_eq_self]
      intro q hq
      have : q < s.npipes := (hI.ready_ok q ((hM.g.idle q).1 hq)).1
      simp; omega
    have hbusy : j.busy.filter (· != s.npipes) = j.busy := by
      rw [List.filter_eq_self]
      intro q hq
      have : q < s.npipes := ((hM.g.busy q).1 hq).1
      simp; omega
    have hj : closedJ j s.npipes = j := by
      unfold closedJ
      rw [hidle, hbusy]
      have : (fun x => if x ∈ keys then lostP s.npipes j.now (j.ctx x) else j.ctx x) = j.ctx := by
        funext x; split
        · exact hnot x
        · rfl
      rw [this]
    show Sim rest _ j (quiescent (closedJ j s.npipes)) _
    rw [hj, quiescent_R hR hD]
    exact ⟨hR, rfl, fun _ => rfl⟩
  · -- the peer is accepted, the pipe is ready
    have hR1 := addPipe_R { closed := false, armed := true } hM' hI rfl rfl
    have hR2 := ready_R s.npipes hR1
    have hR3 : R rest (readySt (addSt s { closed := false, armed := true }) s.npipes) { j with idle := j.idle ++ [s.npipes] } :=
      M.congr (s := { addSt s { closed := false, armed := true } with
        readyPipes := (addSt s { closed := false, armed := true }).readyPipes ++ [s.npipes] }) rfl hR2
    have hI3 : Inv2 none none (readySt (addSt s { closed := false, armed := true }) s.npipes) :=
      invV_pipeAdd { closed := false, armed := true } true hI rfl rfl (fun _ => rfl)
    obtain ⟨hfin, he04, he12⟩ := runSendQueue_M hI3 hR3 (Or.inr (fun _ h => by cases h))
    show Sim rest (runSendQueue (readySt (addSt s { closed := false, armed := true }) s.npipes)).1 j
      (ReqSpec.step j (.pipeAdd peer) ([.pipe s.npipes, .parm s.npipes] ++ (runSendQueue (readySt (addSt s { closed := false, armed := true }) s.npipes)).2)) _
    rw [step_pipeAdd_ok j peer s.npipes _ hM.g.closed (runSendQueue_tx _), quiescent_R hfin (runSendQueue_dr _)]
    exact ⟨hfin, he04, fun _ => he12⟩

end Nng.ReqJ
