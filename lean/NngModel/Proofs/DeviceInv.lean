/- the device-level invariant of the forwarder machine (Model/Device.lean) and its preservation -/
import NngModel.Proofs.DevicePath
namespace Nng.Device
open Nng
set_option linter.unusedSimpArgs false

/-- the sockets device_close closes, in order -/
def socketsOf : List Dir → List Nat
  | [] => []
  | x :: _ => if x.dst != x.src then [x.src, x.dst] else [x.src]

def dirOf (p : Path) : Dir := ⟨p.src, p.dst⟩
def live (p : Path) : Bool := p.state != .fini

structure Inv (dirs : List Dir) (d : Dev) : Prop where
  dirsEq : d.paths.map dirOf = dirs
  pinv : ∀ j (h : j < d.paths.length), PInv d.paths[j]
  run : d.running = d.paths.countP live
  userRun : d.user = true ↔ 0 < d.running
  once : d.user = true → d.userDone = []
  clean : d.rv = 0 → d.user = true ∧ ∀ j (h : j < d.paths.length), d.paths[j].state ≠ .fini
  ab : d.rv ≠ 0 → ∀ j (h : j < d.paths.length), d.paths[j].state ≠ .fini → d.paths[j].aborted = true
  fin : d.user = false →
    d.userDone = [d.rv] ∧ d.rv ≠ 0 ∧ d.owned = false ∧ d.closed = socketsOf dirs ∧ d.reaps = 1
  alive : d.user = true → d.owned = true ∧ d.closed = [] ∧ d.reaps = 0

/-! ### abortPaths -/

theorem abortPaths_length (skip : Option Nat) (rv : Nat) (ps : List Path) :
    (abortPaths skip rv ps).1.length = ps.length := by
  simp [abortPaths]

theorem abortPaths_getElem (skip : Option Nat) (rv : Nat) (ps : List Path) (j : Nat)
    (h : j < (abortPaths skip rv ps).1.length) :
    (abortPaths skip rv ps).1[j] =
      if (some j != skip && (ps[j]'(by simpa [abortPaths] using h)).state != .fini) = true
      then { (ps[j]'(by simpa [abortPaths] using h)) with aborted := true }
      else ps[j]'(by simpa [abortPaths] using h) := by
  simp [abortPaths]

theorem abortPaths_same (skip : Option Nat) (rv : Nat) (ps : List Path) (j : Nat)
    (h : j < (abortPaths skip rv ps).1.length) :
    let q := (abortPaths skip rv ps).1[j]
    let p := ps[j]'(by simpa [abortPaths] using h)
    q.state = p.state ∧ q.src = p.src ∧ q.dst = p.dst ∧ (PInv p → PInv q) ∧
      ((some j != skip) = true → p.state ≠ .fini → q.aborted = true) ∧ (p.aborted = true → q.aborted = true) := by
  intro q p
  have hq : q = if (some j != skip && p.state != .fini) = true then { p with aborted := true } else p :=
    abortPaths_getElem skip rv ps j h
  by_cases hc : (some j != skip && p.state != .fini) = true
  · rw [if_pos hc] at hq
    rw [hq]
    refine ⟨rfl, rfl, rfl, fun hp => ⟨hp.slot, hp.own, hp.freedFini, hp.freedOne, hp.fwd, hp.notInit⟩, fun _ _ => rfl, fun _ => rfl⟩
  · rw [if_neg hc] at hq
    rw [hq]
    refine ⟨rfl, rfl, rfl, id, ?_, id⟩
    intro h1 h2
    exfalso; apply hc
    simp [h1, h2]

theorem countP_congr_getElem {α : Type} (f : α → Bool) :
    ∀ (l1 l2 : List α), l1.length = l2.length →
      (∀ j (h1 : j < l1.length) (h2 : j < l2.length), f l1[j] = f l2[j]) → l1.countP f = l2.countP f
  | [], [], _, _ => rfl
  | [], _ :: _, h, _ => by simp at h
  | _ :: _, [], h, _ => by simp at h
  | a :: l1, b :: l2, h, hf => by
    have h0 := hf 0 (by simp) (by simp)
    simp only [List.getElem_cons_zero] at h0
    have ih := countP_congr_getElem f l1 l2 (by simpa using h) (fun j h1 h2 => by
      have := hf (j + 1) (by simpa using h1) (by simpa using h2)
      simpa using this)
    simp [List.countP_cons, h0, ih]

theorem abortPaths_countP (skip : Option Nat) (rv : Nat) (ps : List Path) :
    (abortPaths skip rv ps).1.countP live = ps.countP live := by
  apply countP_congr_getElem
  · exact abortPaths_length skip rv ps
  · intro j h1 h2
    have := (abortPaths_same skip rv ps j h1).1
    simp only [live, this]

theorem abortPaths_map_dirOf (skip : Option Nat) (rv : Nat) (ps : List Path) :
    (abortPaths skip rv ps).1.map dirOf = ps.map dirOf := by
  apply List.ext_getElem
  · simp [abortPaths_length]
  · intro j h1 h2
    simp only [List.getElem_map]
    have h := abortPaths_same skip rv ps j (by simpa using h1)
    simp only [dirOf, h.2.1, h.2.2.1]

/-! ### set -/

theorem map_dirOf_set (ps : List Path) (i : Nat) (p : Path) (h : i < ps.length)
    (hs : p.src = ps[i].src) (hd : p.dst = ps[i].dst) : (ps.set i p).map dirOf = ps.map dirOf := by
  apply List.ext_getElem
  · simp
  · intro j h1 h2
    simp only [List.getElem_map, List.getElem_set]
    by_cases hij : i = j
    · subst hij; simp [dirOf, hs, hd]
    · simp [hij]

theorem closeList_eq (ps : List Path) (dirs : List Dir) (h : ps.map dirOf = dirs) :
    closeList ps = socketsOf dirs := by
  subst h
  cases ps with
  | nil => rfl
  | cons p0 rest => simp [socketsOf, closeList, dirOf]

end Nng.Device
