/- the TTL loop computes the specification's classification (core Lean only) -/
import NngModel.Proofs.BacktraceChain
namespace Nng.Bt
open Nng Nng.BtSpec

theorem isIdWord_cons (b0 : UInt8) (r : Bytes) : isIdWord (b0 :: r) = isEnd b0 := by
  simp [isIdWord, isEnd_iff]

theorem classify_zero (w : Bytes) : classify 0 w = .drop := by
  simp [classify]

theorem classify_short (m : Nat) (w : Bytes) (h : w.length < 4) : classify (m + 1) w = .malformed := by
  have : chunks w = [] := by
    match w, h with
    | [], _ | [_], _ | [_, _], _ | [_, _, _], _ => simp [chunks]
    | _ :: _ :: _ :: _ :: _, h => simp at h; omega
  simp [classify, this]

theorem classify_cons_id (m : Nat) (b0 b1 b2 b3 : UInt8) (rest : Bytes) (he : isEnd b0 = true) :
    classify (m + 1) (b0 :: b1 :: b2 :: b3 :: rest) = .accept [b0, b1, b2, b3] rest := by
  simp [classify, chunks, List.take_succ_cons, List.findIdx?_cons, isIdWord_cons, he]

/-- lift a classification of the rest over a leading hop word -/
def liftHop (w4 : Bytes) : Verdict → Verdict
  | .accept bt p => .accept (w4 ++ bt) p
  | .drop => .drop
  | .malformed => .malformed

theorem classify_cons_hop (m : Nat) (b0 b1 b2 b3 : UInt8) (rest : Bytes) (he : isEnd b0 = false) :
    classify (m + 1) (b0 :: b1 :: b2 :: b3 :: rest) = liftHop [b0, b1, b2, b3] (classify m rest) := by
  simp only [classify, chunks, List.take_succ_cons, List.findIdx?_cons, isIdWord_cons, he]
  cases hx : List.findIdx? isIdWord (List.take m (chunks rest)) with
  | some i =>
    simp only [Bool.false_eq_true, ↓reduceIte, Option.map_some, liftHop]
    have e : 4 * (i + 1 + 1) = 4 + 4 * (i + 1) := by omega
    rw [e, Nat.add_comm 4]
    simp [List.take_succ_cons, List.drop_succ_cons]
  | none =>
    simp only [Bool.false_eq_true, ↓reduceIte, Option.map_none, List.length_cons]
    by_cases hl : (List.take m (chunks rest)).length = m
    · simp [hl, liftHop]
    · simp only [List.length_take] at hl
      simp [hl, liftHop]

/-- model outcome corresponding to a verdict when the header so far is `hdr` -/
def ofVerdict (hdr : Bytes) : Verdict → Outcome
  | .accept bt p => .deliver (hdr ++ bt) p
  | .drop => .drop
  | .malformed => .closePipe

theorem ofVerdict_liftHop (hdr w4 : Bytes) (v : Verdict) :
    ofVerdict hdr (liftHop w4 v) = ofVerdict (hdr ++ w4) v := by
  cases v <;> simp [ofVerdict, liftHop]

/-- the TTL loop with `m = ttl + 1 - hops` iterations left decides exactly as the
    specification with hop limit `m`, provided the header can take `m` more words -/
theorem ttlLoop_classify (ttl : Nat) : ∀ (m hops : Nat) (hdr w : Bytes), m = ttl + 1 - hops →
    hdr.length + 4 * m ≤ hcap → ttlLoop ttl hops hdr w = ofVerdict hdr (classify m w)
  | 0, hops, hdr, w, hm, _ => by
    rw [classify_zero]
    by_cases hw : w.length < 4
    · rw [ttlLoop_short _ _ _ _ hw, if_pos (by omega)]; rfl
    · match w, hw with
      | [], hw | [_], hw | [_, _], hw | [_, _, _], hw => simp at hw
      | _ :: _ :: _ :: _ :: _, _ => rw [ttlLoop_cons, if_pos (by omega)]; rfl
  | m + 1, hops, hdr, w, hm, hc => by
    by_cases hw : w.length < 4
    · rw [ttlLoop_short _ _ _ _ hw, if_neg (by omega), classify_short m w hw]; rfl
    · match w, hw with
      | [], hw | [_], hw | [_, _], hw | [_, _, _], hw => simp at hw
      | b0 :: b1 :: b2 :: b3 :: rest, _ =>
        rw [ttlLoop_cons, if_neg (by omega), if_neg (by omega)]
        by_cases he : isEnd b0 = true
        · rw [if_pos he, classify_cons_id m _ _ _ _ _ he]; rfl
        · rw [if_neg he, classify_cons_hop m _ _ _ _ _ (by simpa using he), ofVerdict_liftHop]
          exact ttlLoop_classify ttl m (hops + 1) _ rest (by omega)
            (by simp only [List.length_append, List.length_cons, List.length_nil]; omega)

theorem classifyNoTtl_liftHop (m : Nat) (b0 b1 b2 b3 : UInt8) (rest : Bytes) (he : isEnd b0 = false) :
    classifyNoTtl (m + 1) (b0 :: b1 :: b2 :: b3 :: rest) = liftHop [b0, b1, b2, b3] (classifyNoTtl m rest) := by
  unfold classifyNoTtl
  rw [classify_cons_hop m _ _ _ _ _ he]
  cases classify m rest <;> rfl

/-- the XREQ / XSURVEYOR loop decides as the specification without hop limit, the header
    having room for `m` more words -/
theorem endLoop_classify : ∀ (m : Nat) (hdr w : Bytes), hdr.length + 4 * m = hcap →
    endLoop hdr w = ofVerdict hdr (classifyNoTtl m w)
  | 0, hdr, w, hc => by
    unfold classifyNoTtl
    rw [classify_zero]
    by_cases hw : w.length < 4
    · rw [endLoop_short _ _ hw]; rfl
    · match w, hw with
      | [], hw | [_], hw | [_, _], hw | [_, _, _], hw => simp at hw
      | _ :: _ :: _ :: _ :: _, _ => rw [endLoop_cons, if_pos (by omega)]; rfl
  | m + 1, hdr, w, hc => by
    by_cases hw : w.length < 4
    · rw [endLoop_short _ _ hw]; unfold classifyNoTtl; rw [classify_short m w hw]; rfl
    · match w, hw with
      | [], hw | [_], hw | [_, _], hw | [_, _, _], hw => simp at hw
      | b0 :: b1 :: b2 :: b3 :: rest, _ =>
        rw [endLoop_cons, if_neg (by omega)]
        by_cases he : isEnd b0 = true
        · rw [if_pos he]; unfold classifyNoTtl; rw [classify_cons_id m _ _ _ _ _ he]; rfl
        · rw [if_neg he, classifyNoTtl_liftHop m _ _ _ _ _ (by simpa using he), ofVerdict_liftHop]
          exact endLoop_classify m _ rest
            (by simp only [List.length_append, List.length_cons, List.length_nil]; omega)

end Nng.Bt
