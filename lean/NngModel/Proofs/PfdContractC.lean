/- the contract invariant is kept by every step of the call machine -/
import NngModel.Proofs.PfdContract
namespace Nng.Pfd
open Nng.PfdSpec

theorem isArm_inSection (f : Frame) (h : f.isArm = true) : f.inSection = true := by
  cases f <;> simp_all [Frame.isArm, Frame.inSection]

set_option hygiene false in
local macro "kcall_case" : tactic => `(tactic| (
  simp only [callStep, touch, ctlAddRv, ctlModRv, syncRet] at hfr ot
  refine ⟨?_, ?_, ?_, ?_, ?_, ?_, ?_, ?_, ?_, ?_, ?_, ?_, ?_, ?_, ?_, ?_, ?_, ?_⟩
  all_goals (try simp only [hg, hfr, pc, batch, reap, hcnt, pfd_simp, callStep, touch, ctlAddRv, ctlModRv, syncRet, pfdBusy])
  all_goals (try grind [Evs.subset_union_right, Evs.subset_union_left, Evs.subset_refl, Evs.none_isEmpty, Frame.inSection, Frame.isArm, isArm_inSection])))

set_option hygiene false in
local macro "kcall_case_hc" : tactic => `(tactic| (
  simp only [callStep, touch, ctlAddRv, ctlModRv, syncRet, hc, if_true, if_false, Bool.false_eq_true, reduceCtorEq] at hfr ot
  refine ⟨?_, ?_, ?_, ?_, ?_, ?_, ?_, ?_, ?_, ?_, ?_, ?_, ?_, ?_, ?_, ?_, ?_, ?_⟩
  all_goals (try simp only [hg, hfr, pc, batch, reap, hcnt, pfd_simp, callStep, touch, ctlAddRv, ctlModRv, syncRet, pfdBusy, hc, if_true, if_false, Bool.false_eq_true, reduceCtorEq])
  all_goals (try grind [Evs.subset_union_right, Evs.subset_union_left, Evs.subset_refl, Evs.none_isEmpty, Frame.inSection, Frame.isArm, isArm_inSection])))

set_option maxHeartbeats 3200000 in
theorem kinv_call {s s' : State} {t : Tid} {f : Frame} {op : Op} (hs : SInv s) (h : KInv s) (r : CallRel s s' t f op)
    (hal : f = .idle → opAllowed s t op = true) : KInv s' := by
  have hfr := r.frame'
  have hcnt := pfdCount_call r
  have hq := quiet_frames (s := s)
  obtain ⟨hf, hop, hg, hf', fo, oo, ot, pc, batch, reap, tp, len⟩ := r
  have hop' : ∀ u, u ≠ t → opOf s' u = opOf s u := oo
  obtain ⟨s1, s2, s3, s5, s6, s7, s8, s9, s10, s11, s12, s13, s14, s15, s16, s17, s18, s19, s20⟩ := hs
  obtain ⟨k1, k2, k3, k4, k5, k6, k7, k8, k9, k10, k11, k12, k13, k14, k15, k16, k17, k18⟩ := h
  simp only [pfdBusy] at k10 k11
  cases f with
  | idle =>
    have hal := hal rfl
    simp only [opAllowed] at hal
    cases op with
    | arm m => kcall_case
    | close => cases hc : s.g.closing <;> kcall_case_hc
    | stop => cases hc : s.g.stopped <;> kcall_case_hc
    | fini => kcall_case
    | free => kcall_case
    | kick => kcall_case
  | armCtl e rq w => kcall_case
  | closeShut => kcall_case
  | closeDel => by_cases hc : op = .stop <;> kcall_case_hc
  | stopClose => kcall_case
  | stopLock => kcall_case
  | stopWrite => kcall_case
  | stopSleep => kcall_case
  | stopChk => kcall_case

end Nng.Pfd
