/- lemmas about the finite-map specification IdSpec (Spec/Queues.lean): keys stay duplicate-free
   under every operation; membership after set / remove / alloc -/
import NngModel.Spec.Queues
namespace Nng.QSpec

/-- the keys of an association list are pairwise distinct -/
def KeysNodup (l : List (Nat × Nat)) : Prop := (l.map (·.1)).Nodup

theorem KeysNodup.cons {a b : Nat} {l : List (Nat × Nat)} (h : KeysNodup ((a, b) :: l)) :
    (∀ v, (a, v) ∉ l) ∧ KeysNodup l := by
  have hn : a ∉ l.map (·.1) ∧ (l.map (·.1)).Nodup := List.nodup_cons.mp h
  exact ⟨fun v hv => hn.1 (List.mem_map.mpr ⟨(a, v), hv, rfl⟩), hn.2⟩

theorem lookup_of_mem {l : List (Nat × Nat)} (h : KeysNodup l) {k v : Nat} (hm : (k, v) ∈ l) :
    l.lookup k = some v := by
  induction l with
  | nil => simp at hm
  | cons p l ih =>
    obtain ⟨a, b⟩ := p
    obtain ⟨h1, h2⟩ := h.cons
    rw [List.lookup_cons]
    rcases List.mem_cons.mp hm with e | hm'
    · injection e with e1 e2; subst e1; subst e2; simp
    · have : k ≠ a := by intro e; subst e; exact h1 v hm'
      have hb : (k == a) = false := by simp [this]
      rw [hb]; exact ih h2 hm'

theorem IdSpec.has_iff (s : IdSpec) (k : Nat) : s.has k = true ↔ ∃ v, (k, v) ∈ s.m := by
  unfold IdSpec.has
  rw [List.lookup_isSome_iff]
  constructor
  · rintro ⟨⟨a, b⟩, hp, e⟩
    have : k = a := by simpa using e
    exact ⟨b, this ▸ hp⟩
  · rintro ⟨v, hv⟩; exact ⟨(k, v), hv, by simp⟩

theorem IdSpec.get_of_mem (s : IdSpec) (h : KeysNodup s.m) {k v : Nat} (hm : (k, v) ∈ s.m) : s.get k = v := by
  unfold IdSpec.get; rw [lookup_of_mem h hm]; rfl

theorem IdSpec.get_of_not_has (s : IdSpec) {k : Nat} (hm : ¬ ∃ v, (k, v) ∈ s.m) : s.get k = 0 := by
  unfold IdSpec.get
  have : s.m.lookup k = none := by
    rw [List.lookup_eq_none_iff]
    intro p hp
    obtain ⟨a, b⟩ := p
    simp only [bne_iff_ne, ne_eq]
    intro e; exact hm ⟨b, e ▸ hp⟩
  rw [this]; rfl

/-- nng_id_set on the specification -/
theorem IdSpec.set_spec (s : IdSpec) (hn : KeysNodup s.m) (k v : Nat) :
    KeysNodup (s.set k v).m ∧
    (∀ k' w, (k', w) ∈ (s.set k v).m ↔ ((k' = k ∧ w = v) ∨ (k' ≠ k ∧ (k', w) ∈ s.m))) ∧
    (((∃ w, (k, w) ∈ s.m) ∧ (s.set k v).m.length = s.m.length) ∨
     ((¬ ∃ w, (k, w) ∈ s.m) ∧ (s.set k v).m.length = s.m.length + 1 ∧ (s.set k v).m = s.m ++ [(k, v)])) ∧
    (s.set k v).lo = s.lo ∧ (s.set k v).hi = s.hi ∧ (s.set k v).cur = s.cur ∧ (s.set k v).random = s.random := by
  by_cases hh : s.has k = true
  · obtain ⟨v0, hv0⟩ := (s.has_iff k).mp hh
    have e : s.set k v = { s with m := s.m.map (fun p => if p.1 = k then (k, v) else p) } := by
      unfold IdSpec.set; rw [if_pos hh]
    rw [e]
    refine ⟨?_, ?_, Or.inl ⟨⟨v0, hv0⟩, by simp⟩, rfl, rfl, rfl, rfl⟩
    · show ((s.m.map (fun p => if p.1 = k then (k, v) else p)).map (·.1)).Nodup
      rw [List.map_map]
      have : ((fun (x : Nat × Nat) => x.1) ∘ fun p => if p.1 = k then (k, v) else p) = (fun x => x.1) := by
        funext p
        show (if p.1 = k then (k, v) else p).1 = p.1
        by_cases h : p.1 = k
        · rw [if_pos h]; exact h.symm
        · rw [if_neg h]
      rw [this]; exact hn
    · intro k' w
      show (k', w) ∈ s.m.map (fun p => if p.1 = k then (k, v) else p) ↔ _
      rw [List.mem_map]
      constructor
      · rintro ⟨⟨a, b⟩, hp, e⟩
        by_cases h : a = k
        · simp only [h, if_true] at e
          injection e with e1 e2
          exact Or.inl ⟨e1.symm, e2.symm⟩
        · simp only [h, if_false] at e
          injection e with e1 e2
          subst e1; subst e2
          exact Or.inr ⟨h, hp⟩
      · rintro (⟨h1, h2⟩ | ⟨h1, h2⟩)
        · exact ⟨(k, v0), hv0, by simp [h1, h2]⟩
        · exact ⟨(k', w), h2, by simp [h1]⟩
  · have hnex : ¬ ∃ w, (k, w) ∈ s.m := fun h => hh ((s.has_iff k).mpr h)
    have e : s.set k v = { s with m := s.m ++ [(k, v)] } := by
      unfold IdSpec.set; rw [if_neg hh]
    rw [e]
    refine ⟨?_, ?_, Or.inr ⟨hnex, by simp, rfl⟩, rfl, rfl, rfl, rfl⟩
    · show ((s.m ++ [(k, v)]).map (·.1)).Nodup
      rw [List.map_append, List.nodup_append]
      refine ⟨hn, by simp, ?_⟩
      intro a ha b hb
      simp at hb
      subst hb
      obtain ⟨⟨a', w⟩, hp, rfl⟩ := List.mem_map.mp ha
      intro e
      exact hnex ⟨w, by simpa [← e] using hp⟩
    · intro k' w
      show (k', w) ∈ s.m ++ [(k, v)] ↔ _
      rw [List.mem_append]
      constructor
      · rintro (h | h)
        · refine Or.inr ⟨?_, h⟩
          intro e; exact hnex ⟨w, e ▸ h⟩
        · simp at h; exact Or.inl h
      · rintro (⟨h1, h2⟩ | ⟨_, h2⟩)
        · exact Or.inr (by simp [h1, h2])
        · exact Or.inl h2

theorem filter_ne_length {l : List (Nat × Nat)} (hn : KeysNodup l) {k v : Nat} (hm : (k, v) ∈ l) :
    (l.filter (fun p => decide (p.1 ≠ k))).length + 1 = l.length := by
  induction l with
  | nil => simp at hm
  | cons p l ih =>
    obtain ⟨a, b⟩ := p
    obtain ⟨h1, h2⟩ := hn.cons
    by_cases hak : a = k
    · subst hak
      have hself : l.filter (fun p => decide (p.1 ≠ a)) = l := by
        rw [List.filter_eq_self]
        intro ⟨a', b'⟩ hp
        simp only [ne_eq, decide_eq_true_eq]
        intro e
        exact h1 b' (by simpa [e] using hp)
      rw [List.filter_cons, if_neg (by simp), hself]; rfl
    · rcases List.mem_cons.mp hm with e | hm'
      · injection e with e1; exact absurd e1.symm hak
      · have := ih h2 hm'
        rw [List.filter_cons, if_pos (by simpa using hak)]
        simp only [List.length_cons]
        omega

/-- nng_id_remove on the specification -/
theorem IdSpec.remove_spec (s : IdSpec) (hn : KeysNodup s.m) (k : Nat) :
    ((∃ w, (k, w) ∈ s.m) ∧ (s.remove k).2 = 0 ∧ KeysNodup (s.remove k).1.m ∧
      (∀ k' w, (k', w) ∈ (s.remove k).1.m ↔ (k' ≠ k ∧ (k', w) ∈ s.m)) ∧
      (s.remove k).1.m.length + 1 = s.m.length ∧
      (s.remove k).1.lo = s.lo ∧ (s.remove k).1.hi = s.hi ∧ (s.remove k).1.cur = s.cur ∧
      (s.remove k).1.random = s.random) ∨
    ((¬ ∃ w, (k, w) ∈ s.m) ∧ s.remove k = (s, Err.enoent)) := by
  by_cases hh : s.has k = true
  · obtain ⟨v0, hv0⟩ := (s.has_iff k).mp hh
    have e : s.remove k = ({ s with m := s.m.filter (·.1 ≠ k) }, 0) := by
      unfold IdSpec.remove; rw [if_pos hh]
    rw [e]
    refine Or.inl ⟨⟨v0, hv0⟩, rfl, ?_, ?_, filter_ne_length hn hv0, rfl, rfl, rfl, rfl⟩
    · exact List.Nodup.sublist (List.Sublist.map _ List.filter_sublist) hn
    · intro k' w
      show (k', w) ∈ s.m.filter (·.1 ≠ k) ↔ _
      rw [List.mem_filter]
      simp only [ne_eq, decide_eq_true_eq]
      exact And.comm
  · have hnex : ¬ ∃ w, (k, w) ∈ s.m := fun h => hh ((s.has_iff k).mpr h)
    refine Or.inr ⟨hnex, ?_⟩
    unfold IdSpec.remove; rw [if_neg hh]

theorem firstFree_some (has : Nat → Bool) (lo hi : Nat) : ∀ (f cur : Nat) (w : Bool) (id : Nat) (w' : Bool),
    firstFree has lo hi f cur w = some (id, w') → has id = false := by
  intro f
  induction f with
  | zero => intro cur w id w' h; simp [firstFree] at h
  | succ f ih =>
    intro cur w id w' h
    unfold firstFree at h
    by_cases hc : has cur = true
    · rw [if_pos hc] at h; exact ih _ _ _ _ h
    · rw [if_neg hc] at h
      injection h with h; injection h with h1 h2
      subst h1; simpa using hc

/-- the keys of the specification's map stay pairwise distinct under every operation -/
theorem IdSpec.keysNodup_set (s : IdSpec) (hn : KeysNodup s.m) (k v : Nat) : KeysNodup (s.set k v).m :=
  (s.set_spec hn k v).1

theorem IdSpec.keysNodup_remove (s : IdSpec) (hn : KeysNodup s.m) (k : Nat) : KeysNodup (s.remove k).1.m := by
  rcases s.remove_spec hn k with h | h
  · exact h.2.2.1
  · rw [h.2]; exact hn

theorem IdSpec.keysNodup_alloc (s : IdSpec) (hn : KeysNodup s.m) (v rnd : Nat) : KeysNodup (s.alloc v rnd).1.m := by
  unfold IdSpec.alloc
  by_cases hfull : s.m.length > s.hi - s.lo
  · rw [if_pos hfull]; exact hn
  · rw [if_neg hfull]
    simp only []
    cases hf : firstFree s.has s.lo s.hi (s.m.length + 1)
        (if s.cur = 0 then if s.random = true then rnd % (s.hi - s.lo + 1) + s.lo else s.lo else s.cur) false with
    | none => exact hn
    | some p =>
      obtain ⟨id, w'⟩ := p
      have hfree := firstFree_some _ _ _ _ _ _ _ _ hf
      have hnex : ¬ ∃ w, (id, w) ∈ s.m := fun h => by
        have := (s.has_iff id).mpr h
        rw [hfree] at this; exact absurd this (by simp)
      show ((s.m ++ [(id, v)]).map (·.1)).Nodup
      rw [List.map_append, List.nodup_append]
      refine ⟨hn, by simp, ?_⟩
      intro a ha b hb
      simp at hb
      subst hb
      obtain ⟨⟨a', w⟩, hp, rfl⟩ := List.mem_map.mp ha
      intro e
      exact hnex ⟨w, by simpa [← e] using hp⟩

theorem IdSpec.keysNodup_allocFail (s : IdSpec) (hn : KeysNodup s.m) (rnd : Nat) : KeysNodup (s.allocFail rnd).m := by
  unfold IdSpec.allocFail
  by_cases hfull : s.m.length > s.hi - s.lo
  · rw [if_pos hfull]; exact hn
  · rw [if_neg hfull]
    simp only []
    split
    · exact hn
    · exact hn

theorem IdSpec.keysNodup_init (lo hi : Nat) (random : Bool) : KeysNodup (IdSpec.init lo hi random).m := by
  show ([] : List Nat).Nodup
  exact List.nodup_nil

/-! ### the sorted enumeration does not depend on the order of the association list -/

theorem insertSorted_perm (p : Nat × Nat) : ∀ l, (insertSorted p l).Perm (p :: l)
  | [] => List.Perm.refl _
  | q :: r => by
    unfold insertSorted
    by_cases h : p.1 ≤ q.1
    · rw [if_pos h]
    · rw [if_neg h]
      exact ((insertSorted_perm p r).cons q).trans (List.Perm.swap p q r)

theorem sortPairs_perm : ∀ l, (sortPairs l).Perm l
  | [] => List.Perm.refl _
  | p :: l => by
    show (insertSorted p (sortPairs l)).Perm (p :: l)
    exact (insertSorted_perm p _).trans ((sortPairs_perm l).cons p)

theorem insertSorted_sorted (p : Nat × Nat) : ∀ l, l.Pairwise (fun a b => a.1 ≤ b.1) →
    (insertSorted p l).Pairwise (fun a b => a.1 ≤ b.1)
  | [], _ => by simp [insertSorted]
  | q :: r, h => by
    unfold insertSorted
    obtain ⟨h1, h2⟩ := List.pairwise_cons.mp h
    by_cases hc : p.1 ≤ q.1
    · rw [if_pos hc]
      refine List.pairwise_cons.mpr ⟨?_, h⟩
      intro x hx
      rcases List.mem_cons.mp hx with e | hx'
      · rw [e]; exact hc
      · exact Nat.le_trans hc (h1 x hx')
    · rw [if_neg hc]
      refine List.pairwise_cons.mpr ⟨?_, insertSorted_sorted p r h2⟩
      intro x hx
      rcases List.mem_cons.mp ((insertSorted_perm p r).subset hx) with e | hx'
      · rw [e]; omega
      · exact h1 x hx'

theorem sortPairs_sorted : ∀ l, (sortPairs l).Pairwise (fun a b => a.1 ≤ b.1)
  | [] => List.Pairwise.nil
  | p :: l => insertSorted_sorted p _ (sortPairs_sorted l)

theorem KeysNodup.eq_of_key {l : List (Nat × Nat)} (h : KeysNodup l) {a b : Nat × Nat} (ha : a ∈ l) (hb : b ∈ l)
    (hk : a.1 = b.1) : a = b := by
  induction l with
  | nil => simp at ha
  | cons p l ih =>
    obtain ⟨p1, p2⟩ := p
    obtain ⟨h1, h2⟩ := h.cons
    rcases List.mem_cons.mp ha with ea | ha' <;> rcases List.mem_cons.mp hb with eb | hb'
    · rw [ea, eb]
    · obtain ⟨b1, b2⟩ := b
      subst ea
      simp only at hk
      subst hk
      exact absurd hb' (h1 b2)
    · obtain ⟨a1, a2⟩ := a
      subst eb
      simp only at hk
      subst hk
      exact absurd ha' (h1 a2)
    · exact ih h2 ha' hb'

theorem KeysNodup.perm {l l' : List (Nat × Nat)} (h : KeysNodup l) (hp : l.Perm l') : KeysNodup l' :=
  List.Nodup.perm h (hp.map _)

/-- two association lists with the same pairs (in any order) and distinct keys have the same sorted
    enumeration -/
theorem sortPairs_eq_of_perm {l l' : List (Nat × Nat)} (hp : l.Perm l') (hn : KeysNodup l) :
    sortPairs l = sortPairs l' := by
  have hperm : (sortPairs l).Perm (sortPairs l') := (sortPairs_perm l).trans (hp.trans (sortPairs_perm l').symm)
  have hn1 : KeysNodup (sortPairs l) := hn.perm (sortPairs_perm l).symm
  refine List.Perm.eq_of_pairwise ?_ (sortPairs_sorted l) (sortPairs_sorted l') hperm
  intro a b ha hb h1 h2
  exact hn1.eq_of_key ha (hperm.symm.subset hb) (by omega)

end Nng.QSpec
