/-
  Raw judges vs raw models: `send` on the socket (nni_sock_send → sock_getq_cb): the judge's
  acceptance set (`takes`) coincides with the three cases of `offer`, pipe by pipe.
-/
import NngModel.Proofs.RawJudgeEvE
import NngModel.Proofs.RawJudgeRoute
namespace Nng.RawSurv
open Nng Nng.Proto Nng.RawMq Nng.RawSurveySpec

attribute [local simp] xOut_rv xOut_rv2 xOut_parm xOut_pipe

/-- the judge's `accept`, pipe by pipe, in terms of `sel` (discharged per kind) -/
def AcceptSpec (resp : Bool) (sel : Sel) : Prop :=
  ∀ (j : XJ) (o : Offer), j.live.Nodup →
    ∃ acc1, accept resp j o = { j with acc := acc1 } ∧
      ∀ q, acc1.filter (·.pipe == q) = j.acc.filter (·.pipe == q) ++
        (if q ∈ j.live ∧ takes resp j q = true then
          (match sel q ⟨o.hdr, o.body⟩ with | some m1 => [⟨q, m1.hdr, m1.body, false⟩] | none => []) else [])

/-- the judge's `takes` is the model's "idle or room" -/
theorem takes_eq {resp : Bool} {cap : Nat} {j : XJ} {q : Nat} {pp : Pipe} (hpr : PRel j q pp)
    (hc : pp.closed = false) (hcap : cap = depth resp) :
    takes resp j q = (!pp.busy || decide (pp.sq.items.length < cap)) := by
  unfold takes
  rw [hpr.acc]
  unfold accOf
  rw [if_neg (by simp [hc]), List.length_map, hcap]
  congr 2
  have := hpr.busy hc
  cases hb : pp.busy with
  | true => rw [hb] at this; simpa using this.2 rfl
  | false =>
    rw [hb] at this
    cases hx : j.busy.contains q with
    | false => rfl
    | true => exact absurd (this.1 (by simpa using hx)) (by simp)

/-- the pipe is untouched and the judge's view of it is untouched -/
theorem PRel.untouched {j : XJ} {q : Nat} {pp : Pipe} (hpr : PRel j q pp) (acc2 : List Held) (ws : List (Nat × WMsg))
    (hq : q ∉ ws.map (·.1)) (hacc : acc2.filter (·.pipe == q) = j.acc.filter (·.pipe == q)) :
    PRel { j with sends := [], acc := acc2, wired := j.wired ++ ws.map (fun x => (x.1, x.2.body)), busy := j.busy ++ ws.map (·.1) } q pp := by
  refine ⟨hpr.live, ?_, hpr.idle, by rw [← hpr.acc]; exact hacc, ?_⟩
  · intro hc
    rw [← hpr.busy hc]
    show q ∈ j.busy ++ ws.map (·.1) ↔ _
    simp only [List.mem_append]
    constructor
    · rintro (h | h)
      · exact h
      · exact absurd h hq
    · exact Or.inl
  · intro b hb
    have hb : (q, b) ∈ j.wired ++ ws.map (fun x => (x.1, x.2.body)) := hb
    rcases List.mem_append.1 hb with h | h
    · exact hpr.wired b h
    · obtain ⟨x, hx, e⟩ := List.mem_map.1 h
      simp only [Prod.mk.injEq] at e
      exact absurd (List.mem_map.2 ⟨x, hx, e.1⟩) hq

/-- one pipe across a send: model `offer` vs judge `accept` + `psend` -/
theorem send_pipe {resp : Bool} {sel : Sel} {cap : Nat} {sent : List WMsg} {j : XJ} {q : Nat} {pp : Pipe} (m : WMsg)
    (hpr : PRel j q pp) (hpo : PipeOK sel cap sent q pp) (hcap : cap = depth resp) (acc1 acc2 : List Held)
    (ws : List (Nat × WMsg))
    (h1 : acc1.filter (·.pipe == q) = j.acc.filter (·.pipe == q) ++
      (if q ∈ j.live ∧ takes resp j q = true then
        (match sel q m with | some m1 => [⟨q, m1.hdr, m1.body, false⟩] | none => []) else []))
    (h2 : acc2.filter (·.pipe == q) =
      if q ∈ ws.map (·.1) then (acc1.filter (·.pipe == q)).tail else acc1.filter (·.pipe == q))
    (hws : ∀ m1, (q, m1) ∈ ws ↔ (sel q m = some m1 ∧ wiresNow pp = true)) :
    PRel { j with sends := [], acc := acc2, wired := j.wired ++ ws.map (fun x => (x.1, x.2.body)), busy := j.busy ++ ws.map (·.1) }
      q (offerSel sel m q pp).1 := by
  have hmem : q ∈ ws.map (·.1) ↔ ∃ m1, sel q m = some m1 ∧ wiresNow pp = true := by
    constructor
    · intro h
      obtain ⟨x, hx, e⟩ := List.mem_map.1 h
      have e : x.1 = q := e
      have : (q, x.2) ∈ ws := by rw [← e]; exact hx
      exact ⟨x.2, (hws x.2).1 this⟩
    · rintro ⟨m1, h⟩
      exact List.mem_map.2 ⟨(q, m1), (hws m1).2 h, rfl⟩
  unfold offerSel
  cases hs : sel q m with
  | none =>
    simp only []
    have hq : q ∉ ws.map (·.1) := by
      rw [hmem]; rintro ⟨m1, h, _⟩; rw [hs] at h; cases h
    refine hpr.untouched acc2 ws hq ?_
    rw [h2, if_neg hq, h1, hs]; simp
  | some m1 =>
    simp only []
    by_cases hc : pp.closed = true
    · rw [offer_closed _ _ _ hc]
      have hq : q ∉ ws.map (·.1) := by
        rw [hmem]; rintro ⟨_, _, hw⟩; simp [wiresNow, hc] at hw
      refine hpr.untouched acc2 ws hq ?_
      have hnl : q ∉ j.live := fun h => by rw [hpr.live.1 h] at hc; cases hc
      rw [h2, if_neg hq, h1, if_neg (fun h => hnl h.1)]; simp
    · have hc : pp.closed = false := by simpa using hc
      have hlive : q ∈ j.live := hpr.live.2 hc
      have htk := takes_eq (resp := resp) hpr hc hcap
      obtain ⟨hc1, hcase⟩ := offer_cases hpo hc m1
      rcases hcase with ⟨hg, hw, o1, o2, o3, o4⟩ | ⟨hg, hw, hl, o1, o2, o3, o4⟩ | ⟨hg, hw, hl, o1, o2, o3, o4⟩
      · -- idle: on the wire at once
        have hq : q ∈ ws.map (·.1) := hmem.2 ⟨m1, hs, hw⟩
        have hb : pp.busy = false := (hpr.idle hc).2 hg
        have hi : pp.sq.items = [] := (hpo.idle hg).1
        have htk1 : takes resp j q = true := by rw [htk, hb]; rfl
        refine ⟨⟨fun _ => hc1, fun _ => hlive⟩, ?_, ?_, ?_, ?_⟩
        · intro _
          rw [o1]
          show q ∈ j.busy ++ ws.map (·.1) ↔ _
          simp [hq]
        · intro _; rw [o1, o2]; simp
        · rw [h2, if_pos hq, h1, if_pos ⟨hlive, htk1⟩, hs, hpr.acc]
          unfold accOf
          rw [if_neg (by simp [hc]), if_neg (by simp [hc1]), o3, hi]
          rfl
        · intro b hb1
          have hb1 : (q, b) ∈ j.wired ++ ws.map (fun x => (x.1, x.2.body)) := hb1
          rw [o4, List.map_append, List.mem_append]
          rcases List.mem_append.1 hb1 with h | h
          · exact Or.inl (hpr.wired b h)
          · obtain ⟨x, hx, e⟩ := List.mem_map.1 h
            simp only [Prod.mk.injEq] at e
            have : (q, x.2) ∈ ws := by rw [← e.1]; exact hx
            have := ((hws x.2).1 this).1
            rw [hs] at this
            cases this
            right; simp [e.2]
      · -- a transfer in flight, room in the queue: queued last
        have hq : q ∉ ws.map (·.1) := by
          rw [hmem]; rintro ⟨_, _, h⟩; rw [hw] at h; cases h
        have hb : pp.busy = true := by
          cases hb : pp.busy with
          | true => rfl
          | false => exact absurd hg ((hpr.idle hc).1 hb)
        have htk1 : takes resp j q = true := by rw [htk, hb]; simp [hl]
        have hu := hpr.untouched j.acc ws hq rfl
        refine ⟨⟨fun _ => hc1, fun _ => hlive⟩, ?_, ?_, ?_, by rw [o4]; exact hu.wired⟩
        · intro _; rw [o1]; exact hu.busy hc
        · intro _; rw [o1, o2, hb]; simp
        · rw [h2, if_neg hq, h1, if_pos ⟨hlive, htk1⟩, hs, hpr.acc]
          unfold accOf
          rw [if_neg (by simp [hc]), if_neg (by simp [hc1]), o3]
          simp
      · -- a transfer in flight, queue full: discarded whole
        have hq : q ∉ ws.map (·.1) := by
          rw [hmem]; rintro ⟨_, _, h⟩; rw [hw] at h; cases h
        have hb : pp.busy = true := by
          cases hb : pp.busy with
          | true => rfl
          | false => exact absurd hg ((hpr.idle hc).1 hb)
        have htk1 : ¬ (q ∈ j.live ∧ takes resp j q = true) := by
          rw [htk, hb]; simp [hl]
        have hu := hpr.untouched j.acc ws hq rfl
        refine ⟨⟨fun _ => hc1, fun _ => hlive⟩, ?_, ?_, ?_, by rw [o4]; exact hu.wired⟩
        · intro _; rw [o1]; exact hu.busy hc
        · intro _; rw [o1, o2, hb]; simp
        · rw [h2, if_neg hq, h1, if_neg htk1, hpr.acc]
          unfold accOf
          rw [if_neg (by simp [hc]), if_neg (by simp [hc1]), o3]
          simp

end Nng.RawSurv
