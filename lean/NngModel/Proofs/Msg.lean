/- chunk- and message-level lemmas for C17 (and C20's allocation clauses) -/
import NngModel.Proofs.BytesLemmas
import NngModel.Generated.Base
namespace Nng.Msg
open Nng

/-- well-formedness of a chunk: what every message reachable through the public API satisfies -/
structure WF (c : Chunk) : Prop where
  buflen : c.buf.length = c.cap
  fits : c.off + c.len ≤ c.cap
  inb : c.off < c.cap

theorem inRange_iff (cap off n : Nat) : inRange cap off n = true ↔ (n = 0 ∨ off + n ≤ cap) := by
  simp [inRange]

theorem data_length {c : Chunk} (h : WF c) : c.data.length = c.len := by
  unfold Chunk.data
  exact length_readAt _ _ _ (by have := h.buflen; have := h.fits; omega)

/-- the "reallocate" arm of grow, as a function of the final sizes -/
theorem realloc_arm (c : Chunk) (h : WF c) (sz hw : Nat) (_h1 : c.off ≤ hw) (h2 : c.cap - c.off ≤ sz) :
    WF { cap := sz + hw, len := c.len, off := hw, buf := writeAt (zeros (sz + hw)) hw (readAt c.buf c.off c.len) } ∧
    Chunk.data { cap := sz + hw, len := c.len, off := hw, buf := writeAt (zeros (sz + hw)) hw (readAt c.buf c.off c.len) } = c.data := by
  have hb := h.buflen; have hf := h.fits; have hi := h.inb
  have hl : (readAt c.buf c.off c.len).length = c.len := length_readAt _ _ _ (by omega)
  refine ⟨⟨?_, ?_, ?_⟩, ?_⟩
  · simp only; rw [length_writeAt] <;> simp [hl]; omega
  · simp only; omega
  · simp only; omega
  · simp only [Chunk.data]
    have := readAt_writeAt_same (zeros (sz + hw)) hw (readAt c.buf c.off c.len) (by simp [hl]; omega)
    rw [hl] at this
    exact this

/-- nni_chunk_grow: never unsafe; on failure nothing changes; on success the data is
    preserved, at least `hw` bytes of headroom and room for `n` bytes exist, and
    neither headroom nor capacity shrink. -/
theorem grow_spec (c : Chunk) (h : WF c) (n hw : Nat) (ok : Bool) :
    (grow c n hw ok).safe = true ∧
    (((grow c n hw ok).rv = Err.enomem ∧ (grow c n hw ok).c = c) ∨
     ((grow c n hw ok).rv = 0 ∧ WF (grow c n hw ok).c ∧ (grow c n hw ok).c.data = c.data ∧
      (grow c n hw ok).c.len = c.len ∧ hw ≤ (grow c n hw ok).c.off ∧ c.off ≤ (grow c n hw ok).c.off ∧
      (grow c n hw ok).c.off + n ≤ (grow c n hw ok).c.cap ∧
      c.cap - c.off ≤ (grow c n hw ok).c.cap - (grow c n hw ok).c.off)) := by
  have hb := h.buflen; have hf := h.fits; have hi := h.inb
  unfold grow
  simp only []
  rw [if_pos hi]
  by_cases h1 : hw > sizeMax - max n c.len
  · rw [if_pos h1]; exact ⟨rfl, Or.inl ⟨rfl, rfl⟩⟩
  · rw [if_neg h1]
    by_cases h2 : max n c.len + max hw c.off ≤ c.cap ∧ max hw c.off ≤ c.off
    · rw [if_pos h2]
      refine ⟨rfl, Or.inr ⟨rfl, h, rfl, rfl, ?_, ?_, ?_, ?_⟩⟩ <;> simp only [] <;> omega
    · rw [if_neg h2]
      by_cases h3 : max hw c.off > sizeMax - max (max n c.len) (c.cap - c.off)
      · rw [if_pos h3]; exact ⟨rfl, Or.inl ⟨rfl, rfl⟩⟩
      · rw [if_neg h3]
        by_cases h4 : (!ok || max (max n c.len) (c.cap - c.off) + max hw c.off == 0) = true
        · rw [if_pos h4]; exact ⟨rfl, Or.inl ⟨rfl, rfl⟩⟩
        · rw [if_neg h4]
          have ra := realloc_arm c h (max (max n c.len) (c.cap - c.off)) (max hw c.off) (by omega) (by omega)
          refine ⟨?_, Or.inr ⟨rfl, ra.1, ra.2, rfl, ?_, ?_, ?_, ?_⟩⟩
          · simp only [Bool.and_eq_true, inRange_iff]; omega
          all_goals simp only []; omega

/-- nni_chunk_append with data -/
theorem append_spec (c : Chunk) (h : WF c) (d : Bytes) (ok : Bool) :
    (append c (some d) d.length ok).safe = true ∧
    (((append c (some d) d.length ok).rv = Err.enomem ∧ (append c (some d) d.length ok).c = c) ∨
     ((append c (some d) d.length ok).rv = 0 ∧ WF (append c (some d) d.length ok).c ∧
      (append c (some d) d.length ok).c.data = c.data ++ d ∧
      c.cap - c.off ≤ (append c (some d) d.length ok).c.cap - (append c (some d) d.length ok).c.off)) := by
  unfold append
  by_cases h0 : (d.length == 0) = true
  · rw [if_pos h0]
    have : d = [] := by simpa using h0
    subst this
    exact ⟨rfl, Or.inr ⟨rfl, h, by simp, Nat.le_refl _⟩⟩
  · rw [if_neg h0]
    by_cases h1 : d.length > sizeMax - c.len
    · rw [if_pos h1]; exact ⟨rfl, Or.inl ⟨rfl, rfl⟩⟩
    · rw [if_neg h1]
      obtain ⟨hs, hg⟩ := grow_spec c h (d.length + c.len) 0 ok
      generalize grow c (d.length + c.len) 0 ok = g at hs hg
      simp only []
      rcases hg with ⟨hrv, _⟩ | ⟨hrv, hwf, hdata, hlen, _, _, hroom, hcap⟩
      · have : (g.rv != 0) = true := by simp [hrv, Err.enomem]
        rw [if_pos this]; exact ⟨hs, Or.inl ⟨hrv, rfl⟩⟩
      · have : ¬ (g.rv != 0) = true := by simp [hrv]
        rw [if_neg this]
        have hb := hwf.buflen; have hf := hwf.fits; have hi := hwf.inb
        refine ⟨?_, Or.inr ⟨rfl, ⟨?_, ?_, ?_⟩, ?_, ?_⟩⟩
        · simp only [Bool.and_eq_true, inRange_iff]; exact ⟨hs, by omega⟩
        · simp only []; rw [length_writeAt] <;> omega
        · simp only []; omega
        · simp only []; omega
        · simp only [Chunk.data]
          rw [readAt_add, readAt_writeAt_disjoint _ _ _ _ _ (by omega) (by omega), readAt_writeAt_same _ _ _ (by omega)]
          unfold Chunk.data at hdata; rw [hdata]
        · simp only []; omega

/-- nni_chunk_append with a NULL data pointer: the region grows, old data is a prefix -/
theorem append_none_spec (c : Chunk) (h : WF c) (n : Nat) (ok : Bool) :
    (append c none n ok).safe = true ∧
    (((append c none n ok).rv = Err.enomem ∧ (append c none n ok).c = c) ∨
     ((append c none n ok).rv = 0 ∧ WF (append c none n ok).c ∧
      (append c none n ok).c.len = c.len + n ∧
      (append c none n ok).c.data.take c.len = c.data ∧
      c.cap - c.off ≤ (append c none n ok).c.cap - (append c none n ok).c.off)) := by
  unfold append
  by_cases h0 : (n == 0) = true
  · rw [if_pos h0]
    have : n = 0 := by simpa using h0
    subst this
    refine ⟨rfl, Or.inr ⟨rfl, h, rfl, ?_, Nat.le_refl _⟩⟩
    have hdl := data_length h
    show List.take c.len c.data = c.data
    rw [List.take_of_length_le (by omega)]
  · rw [if_neg h0]
    by_cases h1 : n > sizeMax - c.len
    · rw [if_pos h1]; exact ⟨rfl, Or.inl ⟨rfl, rfl⟩⟩
    · rw [if_neg h1]
      obtain ⟨hs, hg⟩ := grow_spec c h (n + c.len) 0 ok
      generalize grow c (n + c.len) 0 ok = g at hs hg
      simp only []
      rcases hg with ⟨hrv, _⟩ | ⟨hrv, hwf, hdata, hlen, _, _, hroom, hcap⟩
      · have : (g.rv != 0) = true := by simp [hrv, Err.enomem]
        rw [if_pos this]; exact ⟨hs, Or.inl ⟨hrv, rfl⟩⟩
      · have : ¬ (g.rv != 0) = true := by simp [hrv]
        rw [if_neg this]
        have hb := hwf.buflen; have hf := hwf.fits; have hi := hwf.inb
        refine ⟨?_, Or.inr ⟨rfl, ⟨?_, ?_, ?_⟩, ?_, ?_, ?_⟩⟩
        · simp only [Bool.and_eq_true, inRange_iff]; exact ⟨hs, by omega⟩
        · simp only []; omega
        · simp only []; omega
        · simp only []; omega
        · simp only []; omega
        · simp only [Chunk.data]
          rw [readAt_add, List.take_append_of_le_length (by rw [length_readAt _ _ _ (by omega)]; omega)]
          unfold Chunk.data at hdata
          rw [← hdata, ← hlen]
          rw [List.take_of_length_le (by rw [length_readAt _ _ _ (by omega)]; omega)]
        · simp only []; omega

theorem trim_spec (c : Chunk) (h : WF c) (n : Nat) :
    (trim c n).safe = true ∧
    ((c.len < n ∧ (trim c n).rv = Err.einval ∧ (trim c n).c = c) ∨
     (n ≤ c.len ∧ (trim c n).rv = 0 ∧ WF (trim c n).c ∧ (trim c n).c.data = c.data.drop n ∧
      (trim c n).c.cap = c.cap ∧ (trim c n).c.len = c.len - n)) := by
  have hb := h.buflen; have hf := h.fits; have hi := h.inb
  unfold trim
  by_cases h1 : c.len < n
  · rw [if_pos h1]; exact ⟨rfl, Or.inl ⟨h1, rfl, rfl⟩⟩
  · rw [if_neg h1]
    refine ⟨rfl, Or.inr ⟨by omega, rfl, ?_, ?_, rfl, rfl⟩⟩
    · by_cases h2 : c.len - n = 0
      · constructor <;> simp [h2] <;> omega
      · constructor <;> simp [h2] <;> omega
    · simp only [Chunk.data]
      by_cases h2 : c.len - n = 0
      · simp only [h2, bne_self_eq_false, Bool.false_eq_true, if_false, readAt_zero]
        have : (readAt c.buf c.off c.len).length = c.len := length_readAt _ _ _ (by omega)
        symm; apply List.drop_eq_nil_of_le; omega
      · have : (c.len - n != 0) = true := by simp [h2]
        simp only [this, if_true]
        apply List.ext_getElem?
        intro i
        simp only [readAt_getElem?, List.getElem?_drop]
        grind

theorem chop_spec (c : Chunk) (h : WF c) (n : Nat) :
    (chop c n).safe = true ∧
    ((c.len < n ∧ (chop c n).rv = Err.einval ∧ (chop c n).c = c) ∨
     (n ≤ c.len ∧ (chop c n).rv = 0 ∧ WF (chop c n).c ∧ (chop c n).c.data = c.data.take (c.len - n) ∧
      (chop c n).c.cap = c.cap ∧ (chop c n).c.off = c.off ∧ (chop c n).c.len = c.len - n)) := by
  have hb := h.buflen; have hf := h.fits; have hi := h.inb
  unfold chop
  by_cases h1 : c.len < n
  · rw [if_pos h1]; exact ⟨rfl, Or.inl ⟨h1, rfl, rfl⟩⟩
  · rw [if_neg h1]
    refine ⟨rfl, Or.inr ⟨by omega, rfl, ⟨hb, by simp only []; omega, hi⟩, ?_, rfl, rfl, rfl⟩⟩
    simp only [Chunk.data]
    apply List.ext_getElem?
    intro i
    simp only [readAt_getElem?, List.getElem?_take]
    grind

theorem dup_spec (c : Chunk) (h : WF c) (ok : Bool) :
    (dup c ok).safe = true ∧
    ((dup c ok).rv = Err.enomem ∨
     ((dup c ok).rv = 0 ∧ WF (dup c ok).c ∧ (dup c ok).c.data = c.data ∧
      (dup c ok).c.cap = c.cap ∧ (dup c ok).c.off = c.off ∧ (dup c ok).c.len = c.len)) := by
  have hb := h.buflen; have hf := h.fits; have hi := h.inb
  unfold dup
  by_cases h1 : (!ok || c.cap == 0) = true
  · rw [if_pos h1]; exact ⟨rfl, Or.inl rfl⟩
  · rw [if_neg h1]
    have hl : (readAt c.buf c.off c.len).length = c.len := length_readAt _ _ _ (by omega)
    refine ⟨?_, Or.inr ⟨rfl, ⟨?_, hf, hi⟩, ?_, rfl, rfl, rfl⟩⟩
    · simp only [inRange_iff]; omega
    · simp only []; rw [length_writeAt] <;> simp [hl]; omega
    · simp only [Chunk.data]
      have := readAt_writeAt_same (zeros c.cap) c.off (readAt c.buf c.off c.len) (by simp [hl]; omega)
      rw [hl] at this; exact this

theorem roundUp8_le (x : Nat) (h : 8 ≤ x) : roundUp8 (x / 2) ≤ x := by
  unfold roundUp8; omega

theorem insertPlace_spec (c : Chunk) (h : WF c) (n : Nat) (ok : Bool) :
    (insertPlace c n ok).safe = true ∧
    (((insertPlace c n ok).rv = Err.enomem ∧ (insertPlace c n ok).c = c) ∨
     ((insertPlace c n ok).rv = 0 ∧ (insertPlace c n ok).c.buf.length = (insertPlace c n ok).c.cap ∧
      (insertPlace c n ok).c.len = c.len ∧
      (insertPlace c n ok).c.off + n + c.len ≤ (insertPlace c n ok).c.cap ∧
      (insertPlace c n ok).c.off < (insertPlace c n ok).c.cap ∧
      readAt (insertPlace c n ok).c.buf ((insertPlace c n ok).c.off + n) c.len = c.data)) := by
  have hb := h.buflen; have hf := h.fits; have hi := h.inb
  have growArm : ∀ g : R Chunk, (g.safe = true ∧ ((g.rv = Err.enomem ∧ g.c = c) ∨
      (g.rv = 0 ∧ WF g.c ∧ g.c.data = c.data ∧ g.c.len = c.len ∧ n ≤ g.c.off ∧ c.off ≤ g.c.off ∧
        g.c.off + 0 ≤ g.c.cap ∧ c.cap - c.off ≤ g.c.cap - g.c.off))) →
      let r : R Chunk := if (g.rv != 0) = true then g else ⟨0, { g.c with off := g.c.off - n }, g.safe && decide (n ≤ g.c.off)⟩
      r.safe = true ∧ ((r.rv = Err.enomem ∧ r.c = c) ∨
        (r.rv = 0 ∧ r.c.buf.length = r.c.cap ∧ r.c.len = c.len ∧ r.c.off + n + c.len ≤ r.c.cap ∧
          r.c.off < r.c.cap ∧ readAt r.c.buf (r.c.off + n) c.len = c.data)) := by
    intro g ⟨hs, hg⟩
    rcases hg with ⟨hrv, hc⟩ | ⟨hrv, hwf, hdata, hlen, hn, _, _, _⟩
    · have : (g.rv != 0) = true := by simp [hrv, Err.enomem]
      simp only [this, if_true]; exact ⟨hs, Or.inl ⟨hrv, hc⟩⟩
    · have : ¬ (g.rv != 0) = true := by simp [hrv]
      simp only [this]
      have hb' := hwf.buflen; have hf' := hwf.fits; have hi' := hwf.inb
      refine ⟨by simp [hs, hn], Or.inr ⟨rfl, hb', hlen, by show g.c.off - n + n + c.len ≤ g.c.cap; omega, by show g.c.off - n < g.c.cap; omega, ?_⟩⟩
      show readAt g.c.buf (g.c.off - n + n) c.len = c.data
      rw [Nat.sub_add_cancel hn, ← hlen, ← hdata]; rfl
  unfold insertPlace
  simp only []
  rw [if_pos hi]
  by_cases h1 : n ≤ c.off
  · rw [if_pos h1]
    refine ⟨rfl, Or.inr ⟨rfl, hb, rfl, by simp only []; omega, by simp only []; omega, ?_⟩⟩
    simp only []; rw [Nat.sub_add_cancel h1]; rfl
  · rw [if_neg h1]
    by_cases h2 : c.len + n ≤ sizeMax - 8 ∧ c.len + n + 8 ≤ c.cap
    · rw [if_pos h2]
      have hsh := roundUp8_le (c.cap - (c.len + n)) (by omega)
      have hl : (readAt c.buf c.off c.len).length = c.len := length_readAt _ _ _ (by omega)
      refine ⟨?_, Or.inr ⟨rfl, ?_, rfl, by simp only []; omega, by simp only []; omega, ?_⟩⟩
      · simp only [Bool.and_eq_true, inRange_iff]; omega
      · simp only []; rw [length_writeAt] <;> omega
      · simp only []
        have := readAt_writeAt_same c.buf (roundUp8 ((c.cap - (c.len + n)) / 2) + n) (readAt c.buf c.off c.len) (by omega)
        rw [hl] at this; exact this
    · rw [if_neg h2]
      exact growArm _ (grow_spec c h 0 n ok)

theorem insert_spec (c : Chunk) (h : WF c) (d : Bytes) (ok : Bool) :
    (insert c (some d) d.length ok).safe = true ∧
    (((insert c (some d) d.length ok).rv = Err.enomem ∧ (insert c (some d) d.length ok).c = c) ∨
     ((insert c (some d) d.length ok).rv = 0 ∧ WF (insert c (some d) d.length ok).c ∧
      (insert c (some d) d.length ok).c.data = d ++ c.data)) := by
  unfold insert
  by_cases h1 : d.length > sizeMax - c.len
  · rw [if_pos h1]; exact ⟨rfl, Or.inl ⟨rfl, rfl⟩⟩
  · rw [if_neg h1]
    obtain ⟨hs, hp⟩ := insertPlace_spec c h d.length ok
    generalize insertPlace c d.length ok = p at hs hp
    simp only []
    rcases hp with ⟨hrv, _⟩ | ⟨hrv, hbl, hlen, hroom, hin, hdat⟩
    · have : (p.rv != 0) = true := by simp [hrv, Err.enomem]
      rw [if_pos this]; exact ⟨hs, Or.inl ⟨hrv, rfl⟩⟩
    · have : ¬ (p.rv != 0) = true := by simp [hrv]
      rw [if_neg this]
      refine ⟨?_, Or.inr ⟨rfl, ⟨?_, ?_, ?_⟩, ?_⟩⟩
      · simp only [Bool.and_eq_true, inRange_iff]; exact ⟨hs, by omega⟩
      · simp only []; rw [length_writeAt] <;> omega
      · simp only []; omega
      · simp only []; omega
      · simp only [Chunk.data]
        rw [hlen, Nat.add_comm c.len d.length, readAt_add, readAt_writeAt_same _ _ _ (by omega),
          readAt_writeAt_disjoint _ _ _ _ _ (by omega) (by omega), hdat]
        rfl

/-! ### message level -/

structure MWF (m : Msg) : Prop where
  body : WF m.body
  hbuflen : m.hbuf.length = hdrCap
  hfits : m.hlen ≤ hdrCap

theorem header_length {m : Msg} (h : MWF m) : m.header.length = m.hlen := by
  unfold Msg.header; simp; have := h.hbuflen; have := h.hfits; omega

theorem header_eq_readAt (m : Msg) : m.header = readAt m.hbuf 0 m.hlen := by
  simp [Msg.header, readAt]

theorem hdrAppend_spec (m : Msg) (h : MWF m) (d : Bytes) :
    (hdrAppend m d).safe = true ∧
    ((d.length + m.hlen > hdrCap ∧ (hdrAppend m d).rv = Err.einval ∧ (hdrAppend m d).c = m) ∨
     (d.length + m.hlen ≤ hdrCap ∧ (hdrAppend m d).rv = 0 ∧ MWF (hdrAppend m d).c ∧
      (hdrAppend m d).c.header = m.header ++ d ∧ (hdrAppend m d).c.body = m.body)) := by
  have hb := h.hbuflen; have hf := h.hfits
  unfold hdrAppend
  by_cases h1 : d.length + m.hlen > hdrCap
  · rw [if_pos h1]; exact ⟨rfl, Or.inl ⟨h1, rfl, rfl⟩⟩
  · rw [if_neg h1]
    refine ⟨by simp only [inRange_iff]; omega, Or.inr ⟨by omega, rfl, ⟨h.body, ?_, by simp only []; omega⟩, ?_, rfl⟩⟩
    · simp only []; rw [length_writeAt] <;> omega
    · simp only [header_eq_readAt]
      rw [readAt_add, readAt_writeAt_disjoint _ _ _ _ _ (by omega) (by omega), Nat.zero_add,
        readAt_writeAt_same _ _ _ (by omega)]

theorem hdrInsert_spec (m : Msg) (h : MWF m) (d : Bytes) :
    (hdrInsert m d).safe = true ∧
    ((d.length + m.hlen > hdrCap ∧ (hdrInsert m d).rv = Err.einval ∧ (hdrInsert m d).c = m) ∨
     (d.length + m.hlen ≤ hdrCap ∧ (hdrInsert m d).rv = 0 ∧ MWF (hdrInsert m d).c ∧
      (hdrInsert m d).c.header = d ++ m.header ∧ (hdrInsert m d).c.body = m.body)) := by
  have hb := h.hbuflen; have hf := h.hfits
  unfold hdrInsert
  by_cases h1 : d.length + m.hlen > hdrCap
  · rw [if_pos h1]; exact ⟨rfl, Or.inl ⟨h1, rfl, rfl⟩⟩
  · rw [if_neg h1]
    have hl : (readAt m.hbuf 0 m.hlen).length = m.hlen := length_readAt _ _ _ (by omega)
    have hw1 : (writeAt m.hbuf d.length (readAt m.hbuf 0 m.hlen)).length = m.hbuf.length :=
      length_writeAt _ _ _ (by omega)
    refine ⟨by simp only [Bool.and_eq_true, inRange_iff]; omega,
      Or.inr ⟨by omega, rfl, ⟨h.body, ?_, by simp only []; omega⟩, ?_, rfl⟩⟩
    · simp only []; rw [length_writeAt _ _ _ (by omega), hw1, hb]
    · simp only [header_eq_readAt]
      rw [Nat.add_comm m.hlen d.length, readAt_add, readAt_writeAt_same _ _ _ (by omega), Nat.zero_add,
        readAt_writeAt_disjoint _ _ _ _ _ (by omega) (by omega)]
      have := readAt_writeAt_same m.hbuf d.length (readAt m.hbuf 0 m.hlen) (by omega)
      rw [hl] at this; rw [this]

theorem hdrTrim_spec (m : Msg) (h : MWF m) (n : Nat) :
    (hdrTrim m n).safe = true ∧
    ((n > m.hlen ∧ (hdrTrim m n).rv = Err.einval ∧ (hdrTrim m n).c = m) ∨
     (n ≤ m.hlen ∧ (hdrTrim m n).rv = 0 ∧ MWF (hdrTrim m n).c ∧
      (hdrTrim m n).c.header = m.header.drop n ∧ (hdrTrim m n).c.body = m.body)) := by
  have hb := h.hbuflen; have hf := h.hfits
  unfold hdrTrim
  by_cases h1 : n > m.hlen
  · rw [if_pos h1]; exact ⟨rfl, Or.inl ⟨h1, rfl, rfl⟩⟩
  · rw [if_neg h1]
    have hl : (readAt m.hbuf n (m.hlen - n)).length = m.hlen - n := length_readAt _ _ _ (by omega)
    refine ⟨by simp only [inRange_iff]; omega,
      Or.inr ⟨by omega, rfl, ⟨h.body, ?_, by simp only []; omega⟩, ?_, rfl⟩⟩
    · simp only []; rw [length_writeAt] <;> omega
    · simp only [header_eq_readAt]
      have := readAt_writeAt_same m.hbuf 0 (readAt m.hbuf n (m.hlen - n)) (by omega)
      rw [hl] at this; rw [this]
      apply List.ext_getElem?
      intro i
      simp only [readAt_getElem?, List.getElem?_drop]
      grind

theorem hdrChop_spec (m : Msg) (h : MWF m) (n : Nat) :
    (hdrChop m n).safe = true ∧
    ((n > m.hlen ∧ (hdrChop m n).rv = Err.einval ∧ (hdrChop m n).c = m) ∨
     (n ≤ m.hlen ∧ (hdrChop m n).rv = 0 ∧ MWF (hdrChop m n).c ∧
      (hdrChop m n).c.header = m.header.take (m.hlen - n) ∧ (hdrChop m n).c.body = m.body)) := by
  have hb := h.hbuflen; have hf := h.hfits
  unfold hdrChop
  by_cases h1 : n > m.hlen
  · rw [if_pos h1]; exact ⟨rfl, Or.inl ⟨h1, rfl, rfl⟩⟩
  · rw [if_neg h1]
    refine ⟨rfl, Or.inr ⟨by omega, rfl, ⟨h.body, hb, by simp only []; omega⟩, ?_, rfl⟩⟩
    simp only [Msg.header, List.take_take]
    congr 1; omega

theorem readAt_zeros (cap o n : Nat) (h : o + n ≤ cap) : readAt (zeros cap) o n = zeros n := by
  apply List.ext_getElem?
  intro i
  simp only [readAt_getElem?, zeros_getElem?]
  grind

/-- growing the all-zero chunk of a fresh message struct -/
theorem grow_empty (n hw : Nat) (hpos : 0 < n) (hfit : hw ≤ sizeMax - n) :
    grow emptyChunk n hw true = ⟨0, { cap := n + hw, len := 0, off := hw, buf := zeros (n + hw) }, true⟩ ∧
    (grow emptyChunk n hw false).rv = Err.enomem := by
  unfold grow emptyChunk
  have h1 : ¬ hw > sizeMax - max n 0 := by simp [Nat.max_eq_left]; omega
  have h2 : ¬ (0 < 0) := by omega
  have hm : max n 0 = n := by simp
  simp only [hm] at h1 ⊢
  rw [if_neg h1, if_neg h2]
  have h3 : n + hw ≥ 0 := by omega
  rw [if_pos h3]
  have h4 : ¬ ((!true || n + hw == 0) = true) := by simp; omega
  rw [if_neg h4]
  refine ⟨rfl, ?_⟩
  rw [if_neg h1, if_neg h2, if_pos h3]
  simp

/-- appending `n` uninitialised bytes to an empty chunk that already has the room
    never allocates (so the panic in nni_msg_alloc is unreachable) -/
theorem append_none_fits (c : Chunk) (h : WF c) (n : Nat) (hlen : c.len = 0) (hroom : c.off + n ≤ c.cap)
    (hmax : n ≤ sizeMax) :
    append c none n false = ⟨0, { c with len := n }, true⟩ := by
  have hi := h.inb
  unfold append
  by_cases h0 : (n == 0) = true
  · rw [if_pos h0]; have : n = 0 := by simpa using h0
    subst this; cases c; simp_all
  · rw [if_neg h0]
    have h1 : ¬ n > sizeMax - c.len := by rw [hlen]; omega
    rw [if_neg h1]
    have hg : grow c (n + c.len) 0 false = ⟨0, c, true⟩ := by
      unfold grow
      simp only []
      have a1 : ¬ 0 > sizeMax - max (n + c.len) c.len := by omega
      rw [if_neg a1, if_pos hi]
      have a2 : max (n + c.len) c.len + max 0 c.off ≤ c.cap ∧ max 0 c.off ≤ c.off := by
        rw [hlen]; constructor <;> omega
      rw [if_pos a2]
    rw [hg]
    simp only [bne_self_eq_false, Bool.false_eq_true, if_false, Bool.true_and, hlen, Nat.zero_add,
      Nat.add_zero]
    have : inRange c.cap c.off n = true := by rw [inRange_iff]; omega
    rw [this]

theorem grow_fail_safe (c : Chunk) (n hw : Nat) : (grow c n hw false).safe = true := by
  unfold grow; simp only []
  repeat' split
  all_goals simp_all

theorem allocGrow_spec (sz : Nat) (hsz : sz + 64 ≤ sizeMax) :
    (∃ c, allocGrow sz true = ⟨0, c, true⟩ ∧ WF c ∧ c.len = 0 ∧ c.off + sz ≤ c.cap ∧ c.buf = zeros c.cap) ∧
    (allocGrow sz false).rv = Err.enomem ∧ (allocGrow sz false).safe = true := by
  unfold allocGrow
  have hthr : Nng.Generated.msgBigThreshold = 1024 := rfl
  have hhr : Nng.Generated.msgHeadroom = 32 := rfl
  by_cases hbig : sz < Nng.Generated.msgBigThreshold ∨ sz &&& (sz - 1) ≠ 0
  · simp only [if_pos hbig, hhr]
    have ge := grow_empty (sz + 32) 32 (by omega) (by unfold sizeMax at *; omega)
    refine ⟨⟨_, ge.1, ⟨by simp, by simp only []; omega, by simp only []; omega⟩, rfl, by simp only []; omega, rfl⟩, ge.2, grow_fail_safe _ _ _⟩
  · simp only [if_neg hbig]
    have hsz1 : 1024 ≤ sz := by omega
    have ge := grow_empty sz 0 (by omega) (by unfold sizeMax at *; omega)
    refine ⟨⟨_, ge.1, ⟨by simp, by simp only []; omega, by simp only []; omega⟩, rfl, by simp only []; omega, rfl⟩, ge.2, grow_fail_safe _ _ _⟩

theorem alloc_spec (sz : Nat) (hsz : sz + 64 ≤ sizeMax) (fail : Option Nat) :
    (alloc sz fail).safe = true ∧
    (((alloc sz fail).rv = Err.enomem ∧ (alloc sz fail).c = none ∧ fail ≠ none) ∨
     (∃ m, (alloc sz fail).c = some m ∧ (alloc sz fail).rv = 0 ∧ MWF m ∧ m.hlen = 0 ∧
        m.body.len = sz ∧ m.body.data = zeros sz)) := by
  obtain ⟨⟨c, hc, hwf, hlen, hroom, hbuf⟩, hfrv, hfsafe⟩ := allocGrow_spec sz hsz
  unfold alloc
  by_cases hf0 : (fail == some 0) = true
  · rw [if_pos hf0]
    refine ⟨rfl, Or.inl ⟨rfl, rfl, ?_⟩⟩
    intro hc; subst hc; simp at hf0
  · rw [if_neg hf0]
    by_cases hf1 : fail = some 1
    · subst hf1
      simp only [bne_self_eq_false]
      have : ((allocGrow sz false).rv != 0) = true := by rw [hfrv]; simp [Err.enomem]
      rw [if_pos this]
      exact ⟨hfsafe, Or.inl ⟨hfrv, rfl, by simp⟩⟩
    · have hne : (fail != some 1) = true := by simp [hf1]
      rw [hne, hc]
      simp only [bne_self_eq_false, Bool.false_eq_true, if_false]
      rw [append_none_fits c hwf sz hlen hroom (by omega)]
      have hb := hwf.buflen; have hi := hwf.inb
      refine ⟨by simp, Or.inr ⟨_, rfl, rfl, ⟨⟨hb, by simp only []; omega, hi⟩, by simp [hdrCap], by simp⟩, rfl, rfl, ?_⟩⟩
      simp only [Chunk.data]
      rw [hbuf]
      exact readAt_zeros _ _ _ (by omega)

theorem msgDup_spec (m : Msg) (h : MWF m) (fail : Option Nat) :
    (msgDup m fail).safe = true ∧
    (((msgDup m fail).rv = Err.enomem ∧ (msgDup m fail).c = none) ∨
     (∃ m', (msgDup m fail).c = some m' ∧ (msgDup m fail).rv = 0 ∧ MWF m' ∧ abs m' = abs m ∧
        m'.body.cap = m.body.cap)) := by
  have hb := h.hbuflen; have hf := h.hfits
  unfold msgDup
  by_cases hf0 : (fail == some 0) = true
  · rw [if_pos hf0]; exact ⟨rfl, Or.inl ⟨rfl, rfl⟩⟩
  · rw [if_neg hf0]
    obtain ⟨hs, hd⟩ := dup_spec m.body h.body (fail != some 1)
    generalize dup m.body (fail != some 1) = r at hs hd
    simp only []
    rcases hd with hrv | ⟨hrv, hwf, hdata, hcap, hoff, hlen⟩
    · have : (r.rv != 0) = true := by simp [hrv, Err.enomem]
      rw [if_pos this]; exact ⟨hs, Or.inl ⟨hrv, rfl⟩⟩
    · have : ¬ (r.rv != 0) = true := by simp [hrv]
      rw [if_neg this]
      have hl : (readAt m.hbuf 0 m.hlen).length = m.hlen := length_readAt _ _ _ (by omega)
      refine ⟨by simp only [Bool.and_eq_true, inRange_iff]; exact ⟨hs, by omega⟩,
        Or.inr ⟨_, rfl, rfl, ⟨hwf, ?_, hf⟩, ?_, hcap⟩⟩
      · simp only []; rw [length_writeAt] <;> simp [hl, hdrCap] <;> (try unfold hdrCap at *; omega)
      · simp only [abs, hdata, header_eq_readAt]
        have := readAt_writeAt_same (zeros hdrCap) 0 (readAt m.hbuf 0 m.hlen) (by simp [hl]; omega)
        rw [hl] at this; rw [this]

theorem poke_data (c : Chunk) (h : WF c) (o : Nat) (d : Bytes) (hin : o + d.length ≤ c.len) :
    WF { c with buf := writeAt c.buf (c.off + o) d } ∧
    Chunk.data { c with buf := writeAt c.buf (c.off + o) d } =
      c.data.take o ++ d ++ c.data.drop (o + d.length) := by
  have hb := h.buflen; have hf := h.fits; have hi := h.inb
  refine ⟨⟨by simp only []; rw [length_writeAt] <;> omega, hf, hi⟩, ?_⟩
  simp only [Chunk.data]
  apply List.ext_getElem?
  intro i
  rw [readAt_getElem?, writeAt_getElem? _ _ _ _ (by omega)]
  simp only [List.append_assoc, List.getElem?_append, List.length_take, List.getElem?_take, List.getElem?_drop,
    readAt_getElem?, length_readAt _ _ _ (show c.off + c.len ≤ c.buf.length by omega)]
  grind

theorem take_data_eq (c : Chunk) (h : WF c) (w : Nat) (hw : w ≤ c.len) :
    c.data.take w = readAt c.buf c.off w := by
  have hb := h.buflen; have hf := h.fits
  simp only [Chunk.data]
  rw [← readAt_eq_take, readAt_readAt _ _ _ _ _ (by omega)]; simp

theorem drop_data_eq (c : Chunk) (h : WF c) (w : Nat) (hw : w ≤ c.len) :
    c.data.drop (c.len - w) = readAt c.buf (c.off + c.len - w) w := by
  have hb := h.buflen; have hf := h.fits
  have hl := data_length h
  have := readAt_eq_drop c.data (c.len - w)
  rw [hl] at this
  rw [← this]
  simp only [Chunk.data]
  rw [readAt_readAt _ _ _ _ _ (by omega)]
  congr 1 <;> omega
