/-
  The PAIR machine never clears the `opened` flag: no model function touches it, hence an
  opened socket stays opened over every event.
-/
import NngModel.Proofs.PairIds
namespace Nng.Pair0
open Nng Nng.Proto

theorem modPipe_opened (s : State) (p : Nat) (f : Pipe → Pipe) :
    (modPipe s p f).opened = s.opened := rfl

theorem pipeSend_opened (V : Variant) (s : State) (p : Nat) (gm : GMsg) :
    (pipeSend V s p gm).1.opened = s.opened := rfl

theorem sendSchedBody_opened (V : Variant) (s : State) (p : Nat) :
    (sendSchedBody V s p).1.opened = s.opened := by
  unfold sendSchedBody
  cases hq : s.wmq with
  | nil =>
    cases ha : s.waq with
    | nil => rfl
    | cons a ar =>
      simp only
      exact pipeSend_opened V { s with waq := ar, accepted := s.accepted ++ [a.msg] } p a.msg
  | cons m rest =>
    have h1 := pipeSend_opened V { s with wmq := rest } p m
    cases ha : s.waq with
    | nil =>
      simp only [pipeSend, ha] at h1 ⊢
      exact h1
    | cons a ar =>
      simp only [pipeSend, ha] at h1 ⊢
      exact h1

theorem sendSched_opened (V : Variant) (s : State) (p : Nat) :
    (sendSched V s p).1.opened = s.opened := by
  unfold sendSched
  split
  · rfl
  · exact sendSchedBody_opened V { s with wrReady := true } p

theorem pipeStop_opened (s : State) (p : Nat) : (pipeStop s p).opened = s.opened := by
  unfold pipeStop
  split <;> rfl

theorem closePipe_opened (s : State) (p : Nat) : (closePipe s p).1.opened = s.opened := by
  unfold closePipe
  split
  · rfl
  · split
    · rfl
    · simp only
      rw [pipeStop_opened]
      rfl

theorem failParked_opened (s : State) (a rv : Nat) : (failParked s a rv).1.opened = s.opened := by
  unfold failParked
  split
  · rfl
  · split <;> rfl

theorem failMany_fold_opened (as : List Nat) (rv : Nat) (s : State) (o : List Out) :
    (as.foldl (fun (acc : State × List Out) a =>
      let (s', o) := failParked acc.1 a rv
      (s', acc.2 ++ o)) (s, o)).1.opened = s.opened := by
  induction as generalizing s o with
  | nil => rfl
  | cons a rest ih =>
    simp only [List.foldl]
    rw [ih]
    exact failParked_opened s a rv

theorem failMany_opened (s : State) (as : List Nat) (rv : Nat) :
    (failMany s as rv).1.opened = s.opened := by
  unfold failMany
  exact failMany_fold_opened _ _ _ _

theorem expire_opened (s : State) : (expire s).1.opened = s.opened := by
  unfold expire
  exact failMany_opened _ _ _

theorem recvCbLocked_opened (s : State) (p : Nat) (gm : GMsg) :
    (recvCbLocked s p gm).1.opened = s.opened := by
  unfold recvCbLocked
  split
  · rfl
  · split
    · rfl
    · split <;> rfl

theorem recvCb_opened (V : Variant) (s : State) (p : Nat) (b : Bytes) :
    (recvCb V s p b).1.opened = s.opened := by
  unfold recvCb
  split
  · exact closePipe_opened { s with malformed := s.malformed + 1 } p
  · rfl
  · exact recvCbLocked_opened _ p _

theorem parkSend_opened (s : State) (a : Nat) (gm : GMsg) (mode : Mode) :
    (parkSend s a gm mode).1.opened = s.opened := by
  unfold parkSend
  split <;> rfl

theorem sockSendLocked_opened (V : Variant) (s : State) (a : Nat) (gm : GMsg) (mode : Mode) :
    (sockSendLocked V s a gm mode).1.opened = s.opened := by
  unfold sockSendLocked
  split
  · split
    · rfl
    · rfl
  · split
    · rfl
    · exact parkSend_opened s a gm mode

theorem sockSend_opened (V : Variant) (s : State) (a : Nat) (m : WMsg) (mode : Mode) :
    (sockSend V s a m mode).1.opened = s.opened := by
  unfold sockSend
  split
  · rfl
  · exact sockSendLocked_opened V { s with nsend := s.nsend + 1 } a _ mode

theorem sockRecv_opened (s : State) (a : Nat) (mode : Mode) :
    (sockRecv s a mode).1.opened = s.opened := by
  unfold sockRecv
  split
  · simp only
    split
    · split
      · rfl
      · rfl
    · rfl
  · split
    · split
      · rfl
      · rfl
    · split <;> rfl

theorem setSendBuf_opened (s : State) (cap : Nat) : (setSendBuf s cap).opened = s.opened := rfl

theorem setRecvBuf_opened (s : State) (cap : Nat) : (setRecvBuf s cap).opened = s.opened := rfl

theorem closeAll_fold_opened (ps : List Pipe) (s : State) (o : List Out) :
    (ps.foldl (fun (acc : State × List Out) (pp : Pipe) =>
      let (s', o) := closePipe acc.1 pp.id
      (s', acc.2 ++ o)) (s, o)).1.opened = s.opened := by
  induction ps generalizing s o with
  | nil => rfl
  | cons a rest ih =>
    simp only [List.foldl]
    rw [ih]
    exact closePipe_opened s a.id

theorem closeAllPipes_opened (s : State) : (closeAllPipes s).1.opened = s.opened := by
  unfold closeAllPipes
  exact closeAll_fold_opened _ _ _

theorem sockClose_opened (s : State) : (sockClose s).1.opened = s.opened := rfl

theorem pipeStart_opened (V : Variant) (s : State) (id peer : Nat) :
    (pipeStart V s id peer).1.opened = s.opened := by
  unfold pipeStart
  split
  · rfl
  · split
    · rfl
    · simp only
      exact Eq.trans (modPipe_opened _ id _)
        (sendSched_opened V { s with cur := some id, rdReady := false } id)

theorem opened_of_eq {s s' : State} (he : s'.opened = s.opened) (h : s.opened = true) :
    s'.opened = true := he.trans h

theorem step_opened (V : Variant) (s : State) (ev : Ev) (h : s.opened = true) :
    (step V s ev).1.opened = true := by
  unfold step
  split
  · rename_i hn
    simp [h] at hn
  · split
    · split
      · exact h
      · exact h
    · split
      all_goals first
        | exact h
        | exact opened_of_eq (failParked_opened _ _ _) h
        | exact opened_of_eq (sockRecv_opened _ _ _) h
        | exact opened_of_eq (sockSend_opened _ _ _ _ _) h
        | skip
      case h_2 peer =>
        exact opened_of_eq (pipeStart_opened V _ _ peer) h
      case h_3 p =>
        split
        · split
          · exact h
          · exact opened_of_eq (closePipe_opened _ _) h
        · exact h
      case h_4 p rv =>
        split
        · split
          · exact h
          · split
            · exact opened_of_eq (closePipe_opened _ _) h
            · exact opened_of_eq (sendSched_opened _ _ _) h
        · exact h
      case h_5 p r =>
        split
        · split
          · exact h
          · split
            · exact opened_of_eq (closePipe_opened _ _) h
            · exact opened_of_eq (recvCb_opened V _ p _) h
        · exact h
      case h_6 => split <;> first | exact h | exact opened_of_eq (sockSend_opened _ _ _ _ _) h
      case h_7 => split <;> first | exact h | exact opened_of_eq (sockRecv_opened _ _ _) h
      case h_10 ms => exact opened_of_eq (expire_opened _) h
      case h_13 => split <;> exact h
      case h_14 => split <;> exact h
      case h_15 =>
        split
        · exact h
        · split
          · exact h
          · exact h
      case h_19 => split <;> exact h
      case h_24 =>
        simp only
        exact opened_of_eq (closeAllPipes_opened s) h

end Nng.Pair0
