/- Model/Reap.lean under the caller contract K2 (nni_reap_sys_fini last), and what a step can change -/
import NngModel.Proofs.ReapAcct
namespace Nng.Reap

structure InvK (s : State) : Prop where
  exitDone : s.exit = true → ∀ (j : Nat) (c : Client), s.clients[j]? = some c → c = Client.ready [] ∨ c = Client.joining []
  finEmpty : s.worker = .fin → s.empty = true

theorem invK_init (nl : Nat) (progs : List (List Op)) : InvK (init nl progs) := by
  refine ⟨?_, ?_⟩ <;> simp [init]

theorem reapBody_clients (s : State) (l : Nat) (n : Node) : (reapBody s l n).clients = s.clients := by
  unfold reapBody; split <;> rfl
theorem reapBody_exit (s : State) (l : Nat) (n : Node) : (reapBody s l n).exit = s.exit := by
  unfold reapBody; split <;> rfl
theorem reapBody_res (s : State) (l : Nat) (n : Node) : (reapBody s l n).res = s.res := by
  unfold reapBody; split <;> rfl

theorem scan_res (s : State) (pos : List Nat) (r : Bool) : (scan s pos r).res = s.res := by
  unfold scan passEmpty; repeat' split
  all_goals rfl

theorem workerStep_res (s : State) : (workerStep s).res = s.res := by
  unfold workerStep
  split <;> try rfl
  · exact scan_res _ _ _
  · exact scan_res _ _ _
  · exact scan_res _ _ _
  · split <;> rfl
  · simp [reapBody_res]

theorem workerStep_exit (s : State) : (workerStep s).exit = s.exit := by
  unfold workerStep
  split <;> try rfl
  · unfold scan passEmpty; repeat' split
    all_goals rfl
  · unfold scan passEmpty; repeat' split
    all_goals rfl
  · unfold scan passEmpty; repeat' split
    all_goals rfl
  · split <;> rfl
  · simp [reapBody_exit]

/-- a step that makes a client's nni_reap_sys_drain return leaves reap_empty set -/
theorem res_change {s : State} {t : Tid} (h : (step s t).res ≠ s.res) : (step s t).empty = true := by
  cases t with
  | w => exact absurd (workerStep_res s) h
  | c i =>
    simp only [step] at h ⊢
    unfold clientStep at h ⊢
    split at h <;> try (exact absurd rfl h)
    · exact absurd (by simp [reapBody_res]) h
    · split at h
      · next he => simp [he]
      · exact absurd rfl h
    · split at h
      · next he => simp [he]
      · exact absurd rfl h
    · split at h <;> exact absurd rfl h

theorem take_invK {s : State} (hk : InvK s) (l : Nat) (b : List Node) (rest : List Nat) :
    InvK { s with lists := clearList s.lists l, worker := .run b rest } :=
  ⟨hk.exitDone, by intro h; simp at h⟩

theorem wake_done {c : Client} (h : c = .ready [] ∨ c = .joining []) : wakeDrainer c = .ready [] ∨ wakeDrainer c = .joining [] := by
  rcases h with rfl | rfl <;> simp [wakeDrainer]

theorem passEmpty_invK {s : State} (hk : InvK s) : InvK (passEmpty s) := by
  refine ⟨?_, fun _ => rfl⟩
  intro he j c hc
  have hc : (s.clients.map wakeDrainer)[j]? = some c := hc
  simp only [List.getElem?_map, Option.map_eq_some_iff] at hc
  obtain ⟨c0, h0, rfl⟩ := hc
  exact wake_done (hk.exitDone he j c0 h0)

theorem scan_invK {s : State} (hk : InvK s) (pos : List Nat) (r : Bool) : InvK (scan s pos r) := by
  unfold scan
  split
  · exact take_invK hk _ _ _
  · split
    · split
      · exact take_invK hk _ _ _
      · exact passEmpty_invK hk
    · exact passEmpty_invK hk

theorem workerStep_invK {s : State} (hk : InvK s) : InvK (workerStep s) := by
  unfold workerStep
  split
  · exact scan_invK hk _ _
  · exact scan_invK hk _ _
  · exact hk
  · exact hk
  · exact scan_invK hk _ _
  · exact ⟨hk.exitDone, by intro h; simp at h⟩
  · split
    · refine ⟨hk.exitDone, ?_⟩
      intro h; have := afterNode_busy ‹_› ‹_›; simp at h; rw [h] at this; cases this
    · exact ⟨hk.exitDone, by intro h; simp at h⟩
  · next id l c rest pos hw =>
    refine ⟨?_, ?_⟩
    · intro he j c hc
      simp only [reapBody_clients, reapBody_exit] at he hc
      exact hk.exitDone he j c hc
    · intro h
      exfalso
      have hb := afterNode_busy rest pos
      unfold reapBody at h
      split at h
      · simp at h; rw [h] at hb; cases hb
      · simp at h
        have := wakeWorker_fin h
        rw [this] at hb; cases hb

theorem clientStep_invK {s : State} (hi : Inv s) (hk : InvK s) (i : Nat) (ha : allowed s (.c i) = true) :
    InvK (clientStep s i) := by
  have notExit : ∀ c, s.clients[i]? = some c → c ≠ .ready [] → c ≠ .joining [] → s.exit = false := by
    intro c hc h1 h2
    cases he : s.exit with
    | false => rfl
    | true => rcases hk.exitDone he i c hc with h | h <;> contradiction
  have notFin : s.exit = false → s.worker ≠ .fin := by
    intro he hw; have := hi.finExit hw; rw [he] at this; cases this
  unfold clientStep
  split
  · exact hk
  · exact hk
  · next l n p hc =>
    have he := notExit _ hc (by simp) (by simp)
    refine ⟨?_, ?_⟩
    · intro h; simp [reapBody_exit, he] at h
    · intro h
      exfalso
      unfold reapBody at h
      split at h
      · exact notFin he h
      · simp at h; exact notFin he (wakeWorker_fin h)
  · next p hc =>
    have he := notExit _ hc (by simp) (by simp)
    split
    · exact ⟨by intro h; simp [he] at h, fun h => absurd h (notFin he)⟩
    · exact ⟨by intro h; simp [he] at h, fun h => absurd h (notFin he)⟩
  · next p hc =>
    simp only [allowed, hc, Bool.and_eq_true, List.all_eq_true, List.mem_range, Bool.or_eq_true, beq_iff_eq] at ha
    obtain ⟨hp, hall⟩ := ha
    have hp : p = [] := by simpa using hp
    subst hp
    refine ⟨?_, ?_⟩
    · intro _ j c hj
      simp only [List.getElem?_set] at hj
      by_cases hij : i = j
      · rw [if_pos hij] at hj; split at hj
        · cases hj; exact Or.inr rfl
        · cases hj
      · rw [if_neg hij] at hj
        have hlt : j < s.clients.length := by
          rcases Nat.lt_or_ge j s.clients.length with h | h
          · exact h
          · rw [List.getElem?_eq_none h] at hj; cases hj
        rcases hall j hlt with h | h
        · exact absurd h.symm hij
        · rw [hj] at h; simp at h
          cases c with
          | ready q => cases q with
            | nil => exact Or.inl rfl
            | cons a b => simp [Client.finished] at h
          | drainSleep w q => simp [Client.finished] at h
          | joining q => simp [Client.finished] at h
    · intro h; exact hk.finEmpty (wakeWorker_fin h)
  · exact hk
  · next p hc =>
    have he := notExit _ hc (by simp) (by simp)
    split
    · exact ⟨by intro h; simp [he] at h, fun h => absurd h (notFin he)⟩
    · exact ⟨by intro h; simp [he] at h, fun h => absurd h (notFin he)⟩
  · next p hc =>
    split
    · next hw =>
      have he : s.exit = true := hi.joinExit p (List.mem_of_getElem? hc)
      have hp : p = [] := by
        rcases hk.exitDone he i _ hc with h | h
        · cases h
        · cases h; rfl
      subst hp
      refine ⟨?_, hk.finEmpty⟩
      intro _ j c hj
      simp only [List.getElem?_set] at hj
      by_cases hij : i = j
      · rw [if_pos hij] at hj; split at hj
        · cases hj; exact Or.inl rfl
        · cases hj
      · rw [if_neg hij] at hj; exact hk.exitDone he j c hj
    · exact hk

theorem run_invK {s : State} (hi : Inv s) (hk : InvK s) (sched : List Tid) (hr : respects s sched = true) :
    InvK (run s sched) := by
  induction sched generalizing s with
  | nil => exact hk
  | cons t r ih =>
    simp only [respects, Bool.and_eq_true] at hr
    refine ih (step_inv hi t) ?_ hr.2
    cases t with
    | w => exact workerStep_invK hk
    | c i => exact clientStep_invK hi hk i hr.1

end Nng.Reap
