/- relation preservation: the test-and-remove of the provider, of nng_aio_stop's cancel call and
   of the expire thread's cancel call -/
import NngModel.Proofs.AioJudgeRel
set_option linter.unusedSimpArgs false
namespace Nng.Aio
open Nng.AioSpec

variable {s s' : State} {g : G} {j : J} {k : Nat}

set_option maxHeartbeats 1000000 in
theorem rel_complete (rv : Nat) (hR : R k s g j) (i1 : Inv1 s) (i2 : Inv2 s) (i3 : Inv3 s) (i4 : Inv4 s)
    (hc : okL s g (.complete rv) = true) (hs : step Cfg.fixed s (.complete rv) = some s') :
    R k s' (gStep s g (.complete rv)) (judgeFrom j (obsX s g (.complete rv))) := by
  simp only [obsX, obsOf, obsExtra, gStep, judgeFrom, List.append_nil, List.foldl]
  simp only [okL, bne_iff_ne, ne_eq] at hc
  cases hpk : s.parked with
  | false =>
    rw [(jstep_lost hR.base.err hR.base.nfree rv).1]
    step_casesk hs hpk
    exact hR
  | true =>
    obtain ⟨o, ho⟩ := head_exists hR (starts_ne_zero i1 (by rw [i1.tok, hpk]; simp))
    have hu : unrep s := by
      have := i1.cnt; have := i1.rep; have ht := i1.tok
      rw [hpk] at ht
      simp only [Bool.or_true, Bool.true_or] at ht
      simp only [unrep, b2n, ht, ↓reduceIte] at *
      omega
    rw [(jstep_won hR.base.err hR.base.nfree rv o ho ((hR.head o ho).opn (Or.inr hpk))
      ((hR.head o ho).rep0 hu)).1]
    step_casesk hs hpk
    r_open hR
    r_upd ho

theorem unrep_of_parked (i1 : Inv1 s) (hpk : s.parked = true) : unrep s := by
  have := i1.cnt; have := i1.rep; have ht := i1.tok
  rw [hpk] at ht
  simp only [Bool.or_true, Bool.true_or] at ht
  simp only [unrep, b2n, ht, ↓reduceIte] at *
  omega

set_option maxHeartbeats 1000000 in
theorem rel_stopCancel (hR : R k s g j) (i1 : Inv1 s) (i2 : Inv2 s) (i3 : Inv3 s) (i4 : Inv4 s)
    (hs : step Cfg.fixed s .stopCancel = some s') :
    R k s' (gStep s g .stopCancel) (judgeFrom j (obsX s g .stopCancel)) := by
  simp only [obsX, obsOf, obsExtra, gStep, judgeFrom, List.append_nil, List.foldl]
  cases hf : s.stopFn with
  | none =>
    simp only [Option.none_beq_some, Bool.false_eq_true, ↓reduceIte, List.foldl]
    step_casesk hs hf
    all_goals r_same hR
  | some p =>
    cases p with
    | slp =>
      simp only [Option.some_beq_some, prov_slp_beq, Bool.false_eq_true, ↓reduceIte, List.foldl]
      step_casesk hs hf
      all_goals r_same hR
    | gen =>
      simp only [Option.some_beq_some, prov_gen_beq, ↓reduceIte, List.foldl]
      cases hpk : s.parked with
      | false =>
        rw [(jstep_lost hR.base.err hR.base.nfree ESTOPPED).2]
        step_caseskk hs hf hpk
        all_goals r_same hR
      | true =>
        obtain ⟨o, ho⟩ := head_exists hR (starts_ne_zero i1 (by rw [i1.tok, hpk]; simp))
        rw [(jstep_won hR.base.err hR.base.nfree ESTOPPED o ho ((hR.head o ho).opn (Or.inr hpk))
          ((hR.head o ho).rep0 (unrep_of_parked i1 hpk))).2]
        step_caseskk hs hf hpk
        all_goals (r_open hR; r_upd ho)

set_option maxHeartbeats 1000000 in
theorem rel_expCall (hR : R k s g j) (i1 : Inv1 s) (i2 : Inv2 s) (i3 : Inv3 s) (i4 : Inv4 s)
    (hs : step Cfg.fixed s .expCall = some s') :
    R k s' (gStep s g .expCall) (judgeFrom j (obsX s g .expCall)) := by
  simp only [obsX, obsOf, obsExtra, gStep, judgeFrom, List.append_nil, List.foldl]
  cases hf : s.expFn with
  | slp =>
    simp only [prov_slp_beq, Bool.false_eq_true, ↓reduceIte, List.foldl]
    step_casesk hs hf
    all_goals r_same hR
  | gen =>
    simp only [prov_gen_beq, ↓reduceIte, List.foldl]
    cases hpk : s.parked with
    | false =>
      rw [(jstep_lost hR.base.err hR.base.nfree s.expRv).2]
      step_caseskk hs hf hpk
      all_goals r_same hR
    | true =>
      obtain ⟨o, ho⟩ := head_exists hR (starts_ne_zero i1 (by rw [i1.tok, hpk]; simp))
      rw [(jstep_won hR.base.err hR.base.nfree s.expRv o ho ((hR.head o ho).opn (Or.inr hpk))
        ((hR.head o ho).rep0 (unrep_of_parked i1 hpk))).2]
      have hexp : s.expiring = true := by
        cases he : s.expiring
        · have h0 := i1.expPcIff.2 he
          simp [step, h0] at hs
        · rfl
      obtain ⟨hd1, hd2⟩ := i2.due hexp
      have hdue : timeoutDue o s.now = true := by
        cases hod : s.opDeadline with
        | none => rw [hod] at hd2; cases hd2
        | some d =>
          rw [hod] at hd2
          exact timeoutDue_of_dl ((hR.head o ho).dl d hod) (by simpa using hd2)
      step_caseskk hs hf hpk
      all_goals (r_open hR; r_upd ho)

end Nng.Aio
