/-
  C08 judge simulation, part 3: the step relation at event boundaries, steps that only
  complete operations with an error (cancel, abort, expiry), pipe loss.
-/
import NngModel.Proofs.PairJudge2
namespace Nng.Pair0
open Nng Nng.Proto Nng.PairSpec

/-- the relation at event boundaries: the judge also remembers the last `poll` -/
def R' (V : Variant) (v1 : Bool) (sS sR : List Bytes) (s : State) (j : PairJ) : Prop :=
  R V v1 sS sR s { j with lastPoll := none } ∧
  (∀ r w, j.lastPoll = some (r, w) → r = s.readable ∧ w = s.writable)

def tame : Out → Bool
  | .blocked _ => false
  | .other _ => false
  | _ => true

theorem tame_all {outs : List Out} (h : ∀ o ∈ outs, tame o = true) :
    notExecuted outs = false ∧ noBlocked outs := by
  constructor
  · unfold notExecuted; rw [List.any_eq_false]; intro o ho
    have := h o ho; cases o <;> simp_all [tame]
  · unfold noBlocked; rw [List.any_eq_false]; intro o ho
    have := h o ho; cases o <;> simp_all [tame, isBlocked]

theorem finish {V : Variant} {v1 : Bool} {sS sR : List Bytes} {s' : State} {jm : PairJ} (hA' : All V s')
    (hR' : R V v1 sS sR s' jm) : R' V v1 sS sR s' (pairQuiescent jm) := by
  rw [quiescent_ok hA' hR']
  refine ⟨?_, ?_⟩
  · rw [setLastPoll_eq hR'.nopoll]; exact hR'
  · intro r w h; rw [hR'.nopoll] at h; cases h

theorem pairMid_dones {nb : Nb} {ev : Ev} {outs : List Out} {j : PairJ} (hr : j.racing = false)
    (hev : isPipeAdd ev = false) (h : ∀ o ∈ outs, isDone o = true) :
    pairMid false nb ev outs j = outs.foldl (pairOut nb) j := by
  rw [pairMid_eq hr hev]
  have h1 : outs.filter isDone = outs := by rw [List.filter_eq_self]; exact h
  have h2 : outs.filter (fun o => !isDone o) = [] := by
    rw [List.filter_eq_nil_iff]; intro o ho; simp [h o ho]
  rw [h1, h2]; rfl

/-- a step whose outputs are completions only and for which the judge does no bookkeeping -/
theorem step_dones {V : Variant} {v1 : Bool} {sS sR : List Bytes} {s s' : State} {j : PairJ} {ev : Ev}
    {outs : List Out} (hR : R' V v1 sS sR s j) (hA' : All V s')
    (hpre : ∀ j0 : PairJ, pairPre false j0 ev outs = (j0, .none))
    (hev : isPipeAdd ev = false) (hp : isPoll ev = false)
    (ho : ∀ o ∈ outs, isDone o = true ∧ tame o = true)
    (hR' : R V v1 sS sR s' (outs.foldl (pairOut .none) { j with lastPoll := none })) :
    R' V v1 sS sR s' (pairStepOld j ev outs) := by
  have ht := tame_all (fun o h => (ho o h).2)
  rw [pairStep_eq (j := j) hR.1.err ht.1, hpre]
  simp only []
  rw [pairMid_dones hR.1.racing hev (fun o h => (ho o h).1), pairPost_none hp ht.2 hR'.racing]
  exact finish hA' hR'

/-! ### cancel / abort / expiry -/

theorem failParked_R {V : Variant} {v1 : Bool} {sS sR : List Bytes} {s : State} {j : PairJ}
    (hR : R V v1 sS sR s j) (a rv : Nat) (h0 : rv ≠ 0) (h1 : rv ≠ Err.eproto) :
    R V v1 sS sR (failParked s a rv).1 ((failParked s a rv).2.foldl (pairOut .none) j) := by
  unfold failParked
  cases hf : s.waq.find? (·.aio == a) with
  | some pk =>
    have hpk : pk ∈ s.waq := List.mem_of_find?_eq_some hf
    have hpa : pk.aio = a := by simpa using List.find?_some hf
    obtain ⟨e, hP⟩ := hR.toP.fail_send .none hpk h0 h1
    rw [hpa] at e hP
    simp only [List.foldl_cons, List.foldl_nil, e]
    have hsub : (allB { j with pendingS := j.pendingS.filter (·.1 != a) }).Sublist (allB j) :=
      allB_sub List.filter_sublist (List.Sublist.refl _) rfl
    exact { hR with pend := hP.pend, pendOk := hP.pendOk, disj := hP.disj, waqNd := hP.waqNd,
                    nodupS := hR.nodupS.sublist hsub, subS := fun b hb => hR.subS b (hsub.subset hb) }
  | none =>
    simp only []
    by_cases hr : (s.raq.any (·.aio == a)) = true
    · rw [if_pos hr]
      obtain ⟨r, hrm, hra⟩ := List.any_eq_true.1 hr
      have hra : r.aio = a := by simpa using hra
      obtain ⟨e, hP⟩ := hR.toP.fail_recv (nb := .none) hrm trivial h0
      rw [hra] at e hP
      simp only [List.foldl_cons, List.foldl_nil, e]
      exact { hR with waitR := hP.waitR, disj := hP.disj, raqNd := hP.raqNd }
    · rw [if_neg hr]; exact hR

theorem failParked_outs (s : State) (a rv : Nat) :
    ∀ o ∈ (failParked s a rv).2, isDone o = true ∧ tame o = true := by
  unfold failParked
  split
  · simp [isDone, tame]
  · split <;> simp [isDone, tame]

theorem failFold_acc (rv : Nat) (as : List Nat) : ∀ (s : State) (o : List Out),
    as.foldl (fun (acc : State × List Out) a =>
      let (s', o) := failParked acc.1 a rv
      (s', acc.2 ++ o)) (s, o) =
    ((as.foldl (fun (acc : State × List Out) a =>
      let (s', o) := failParked acc.1 a rv
      (s', acc.2 ++ o)) (s, [])).1,
     o ++ (as.foldl (fun (acc : State × List Out) a =>
      let (s', o) := failParked acc.1 a rv
      (s', acc.2 ++ o)) (s, [])).2) := by
  induction as with
  | nil => intro s o; simp
  | cons a as ih =>
    intro s o
    simp only [List.foldl_cons, List.nil_append]
    rw [ih _ (o ++ (failParked s a rv).2), ih _ (failParked s a rv).2]
    simp

theorem failMany_step (s : State) (a : Nat) (as : List Nat) (rv : Nat) :
    failMany s (a :: as) rv =
      ((failMany (failParked s a rv).1 as rv).1, (failParked s a rv).2 ++ (failMany (failParked s a rv).1 as rv).2) := by
  unfold failMany
  simp only [List.foldl_cons, List.nil_append]
  rw [failFold_acc]

theorem failMany_R {V : Variant} {v1 : Bool} {sS sR : List Bytes} (rv : Nat) (h0 : rv ≠ 0) (h1 : rv ≠ Err.eproto)
    (as : List Nat) : ∀ {s : State} {j : PairJ}, R V v1 sS sR s j →
      R V v1 sS sR (failMany s as rv).1 ((failMany s as rv).2.foldl (pairOut .none) j) ∧
      (∀ o ∈ (failMany s as rv).2, isDone o = true ∧ tame o = true) := by
  induction as with
  | nil => intro s j h; exact ⟨h, by simp [failMany]⟩
  | cons a as ih =>
    intro s j h
    rw [failMany_step]
    simp only [List.foldl_append]
    obtain ⟨p1, p2⟩ := ih (failParked_R h a rv h0 h1)
    refine ⟨p1, ?_⟩
    intro o ho
    rcases List.mem_append.1 ho with ho | ho
    · exact failParked_outs s a rv o ho
    · exact p2 o ho

end Nng.Pair0
