/- termination of Model/Reap.lean under ANY scheduler: a potential that every enabled step strictly decreases -/
import NngModel.Proofs.ReapK
set_option linter.unusedSimpArgs false
namespace Nng.Reap

/-- cost of waking the worker: its scan plus one step of every drainer it may wake -/
def wP (nc : Nat) : Nat := nc + 1
/-- credit of a future nni_reap: the node's life on a list and in a batch, plus one wake-up of the worker -/
def wF (nc : Nat) : Nat := 2 * nc + 5
def chPot (nc : Nat) (n : Node) : Nat := match n.child with | some _ => wF nc | none => 0
def qPot (nc : Nat) (n : Node) : Nat := nc + 3 + chPot nc n
def bPot (nc : Nat) (n : Node) : Nat := nc + 2 + chPot nc n
def opPot (nc : Nat) : Op → Nat
  | .reap _ n => wF nc + chPot nc n
  | .drain => 2
  | .fini => wP nc + 2
def progPot (nc : Nat) (p : List Op) : Nat := (p.map (opPot nc)).sum
def clientPot (nc : Nat) : Client → Nat
  | .ready p => progPot nc p
  | .drainSleep w p => (if w then 1 else 0) + progPot nc p
  | .joining p => 1 + progPot nc p
def batchPot (nc : Nat) (b : List Node) : Nat := (b.map (bPot nc)).sum
def workerPot (nc : Nat) : Worker → Nat
  | .top => wP nc
  | .asleep true => wP nc
  | .asleep false => 0
  | .fin => 0
  | .relock _ => wP nc
  | .run b _ => (if b.isEmpty then wP nc + 1 else 0) + batchPot nc b
  | .nest _ _ _ rest _ => 1 + wF nc + batchPot nc rest
def listPot (nc : Nat) (rl : RList) : Nat := (rl.nodes.map (qPot nc)).sum
def mu (nc : Nat) (s : State) : Nat :=
  (s.clients.map (clientPot nc)).sum + (s.lists.map (listPot nc)).sum + workerPot nc s.worker

theorem sum_map_set {α : Type} (f : α → Nat) (ls : List α) (l : Nat) (a a' : α) (h : ls[l]? = some a) :
    ((ls.set l a').map f).sum + f a = (ls.map f).sum + f a' := by
  induction ls generalizing l with
  | nil => simp at h
  | cons b t ih =>
    cases l with
    | zero => simp at h; subst h; simp only [List.set_cons_zero, List.map_cons, List.sum_cons]; omega
    | succ k =>
      simp at h
      have := ih k h
      simp only [List.set_cons_succ, List.map_cons, List.sum_cons]; omega

theorem batch_le (nc : Nat) (b : List Node) : batchPot nc b + b.length = (b.map (qPot nc)).sum := by
  induction b with
  | nil => rfl
  | cons n t ih =>
    simp only [batchPot, List.map_cons, List.sum_cons, List.length_cons, bPot, qPot] at ih ⊢; omega

theorem workerPot_wake (nc : Nat) (w : Worker) : workerPot nc (wakeWorker w) ≤ workerPot nc w + wP nc := by
  cases w with
  | asleep b => cases b <;> simp [wakeWorker, workerPot]
  | _ => simp [wakeWorker]

theorem workerPot_after (nc : Nat) (rest : List Node) (pos : List Nat) :
    workerPot nc (afterNode rest pos) ≤ wP nc + batchPot nc rest ∧
    (rest ≠ [] → workerPot nc (afterNode rest pos) = batchPot nc rest) := by
  unfold afterNode
  cases rest with
  | nil => simp [workerPot, batchPot]
  | cons a t => simp [workerPot]

theorem wake_after (rest : List Node) (pos : List Nat) : wakeWorker (afterNode rest pos) = afterNode rest pos := by
  unfold afterNode; split <;> rfl

/-- nni_reap under the mutex: the state gains at most the node's queue potential and one wake-up of the worker -/
theorem mu_reapBody (nc : Nat) (s : State) (l : Nat) (n : Node) :
    mu nc (reapBody s l n) ≤ mu nc s + qPot nc n + (workerPot nc (wakeWorker s.worker) - workerPot nc s.worker) ∧
    (reapBody s l n).clients = s.clients := by
  unfold reapBody
  cases hl : s.lists[l]? with
  | none => dsimp only; exact ⟨by omega, rfl⟩
  | some rl =>
    refine ⟨?_, rfl⟩
    have h := sum_map_set (listPot nc) s.lists l rl { nodes := n :: rl.nodes, inited := true } hl
    have hw := workerPot_wake nc s.worker
    simp only [listPot, List.map_cons, List.sum_cons] at h
    simp only [mu, listPot]
    cases hs : s.worker <;> simp only [hs, wakeWorker] at hw ⊢ <;> omega

theorem clients_wake_le (nc : Nat) (cs : List Client) :
    ((cs.map wakeDrainer).map (clientPot nc)).sum ≤ (cs.map (clientPot nc)).sum + cs.length := by
  induction cs with
  | nil => simp
  | cons c t ih =>
    have hc : clientPot nc (wakeDrainer c) ≤ clientPot nc c + 1 := by
      cases c with
      | drainSleep w p => cases w <;> simp [wakeDrainer, clientPot] <;> omega
      | _ => simp [wakeDrainer]
    simp only [List.map_cons, List.sum_cons, List.length_cons]; omega

theorem mu_take (nc : Nat) {s : State} {pos : List Nat} {l : Nat} {b : List Node} {rest : List Nat}
    (hf : findBatch s.lists pos = some (l, b, rest)) (hw : workerPot nc s.worker = wP nc) :
    mu nc { s with lists := clearList s.lists l, worker := .run b rest } < mu nc s := by
  obtain ⟨rl, hrl, hb, hne⟩ := findBatch_some hf
  rw [clearList_eq hrl]
  have h := sum_map_set (listPot nc) s.lists l rl { rl with nodes := [] } hrl
  have hq := batch_le nc b
  have hlen : 0 < b.length := by cases b with | nil => exact absurd rfl hne | cons _ _ => simp
  have hemp : b.isEmpty = false := by cases b with | nil => exact absurd rfl hne | cons _ _ => rfl
  simp only [listPot, hb, List.map_nil, List.sum_nil] at h
  simp only [mu, workerPot, hemp, hw, listPot, wP] at h ⊢
  simp only [Bool.false_eq_true, if_false]
  omega

theorem mu_passEmpty (nc : Nat) {s : State} (hn : s.clients.length ≤ nc) (hw : workerPot nc s.worker = wP nc) :
    mu nc (passEmpty s) < mu nc s := by
  have hc := clients_wake_le nc s.clients
  have h0 : workerPot nc (if s.exit = true then Worker.fin else Worker.asleep false) = 0 := by split <;> rfl
  simp only [mu, passEmpty, h0, hw, wP]
  omega

theorem mu_scan (nc : Nat) {s : State} (hn : s.clients.length ≤ nc) (hw : workerPot nc s.worker = wP nc)
    (pos : List Nat) (r : Bool) : mu nc (scan s pos r) < mu nc s := by
  unfold scan
  cases hf : findBatch s.lists pos with
  | some t => obtain ⟨l, b, rest⟩ := t; exact mu_take nc hf hw
  | none =>
    dsimp only
    split
    · cases hf2 : findBatch s.lists s.order with
      | some t => obtain ⟨l, b, rest⟩ := t; exact mu_take nc hf2 hw
      | none => exact mu_passEmpty nc hn hw
    · exact mu_passEmpty nc hn hw

theorem mu_workerStep (nc : Nat) {s : State} (hn : s.clients.length ≤ nc) (he : workerEnabled s.worker = true) :
    mu nc (workerStep s) < mu nc s := by
  unfold workerStep
  split
  · next hw => exact mu_scan nc hn (by rw [hw]; rfl) _ _
  · next hw => exact mu_scan nc hn (by rw [hw]; rfl) _ _
  · next hw => rw [hw] at he; cases he
  · next hw => rw [hw] at he; cases he
  · next pos hw => exact mu_scan nc hn (by rw [hw]; rfl) _ _
  · next pos hw => simp only [mu, hw, workerPot, batchPot, List.isEmpty_nil, if_true, List.map_nil, List.sum_nil]; omega
  · next n rest pos hw =>
    have ha := workerPot_after nc rest pos
    split
    · next hc =>
      simp only [mu, hw, workerPot, batchPot, List.map_cons, List.sum_cons, bPot, chPot, hc, List.isEmpty_cons,
        Bool.false_eq_true, if_false] at ha ⊢
      by_cases hr : rest = []
      · subst hr; simp only [batchPot, List.map_nil, List.sum_nil, wP] at ha ⊢; omega
      · have := ha.2 hr; omega
    · next l c hc =>
      simp only [mu, hw, workerPot, batchPot, List.map_cons, List.sum_cons, bPot, chPot, hc, List.isEmpty_cons,
        Bool.false_eq_true, if_false, wF]
      omega
  · next id l c rest pos hw =>
    have ha := workerPot_after nc rest pos
    have hr := mu_reapBody nc { s with worker := afterNode rest pos } l { id := c }
    have hmu : mu nc { (reapBody { s with worker := afterNode rest pos } l { id := c }) with
        fin := (reapBody { s with worker := afterNode rest pos } l { id := c }).fin ++ [id] } =
        mu nc (reapBody { s with worker := afterNode rest pos } l { id := c }) := rfl
    rw [hmu]
    have h1 := hr.1
    dsimp only at h1
    rw [wake_after] at h1
    simp only [Nat.sub_self, Nat.add_zero] at h1
    simp only [mu, hw, workerPot, qPot, chPot, wF, wP] at h1 ha ⊢
    by_cases hre : rest = []
    · subst hre; simp only [batchPot, List.map_nil, List.sum_nil] at ha h1 ⊢; omega
    · have := ha.2 hre; omega

theorem progPot_cons (nc : Nat) (op : Op) (p : List Op) : progPot nc (op :: p) = opPot nc op + progPot nc p := by
  simp [progPot]

theorem mu_setClient (nc : Nat) (s : State) (i : Nat) (c c' : Client) (hc : s.clients[i]? = some c) :
    mu nc { s with clients := s.clients.set i c' } + clientPot nc c = mu nc s + clientPot nc c' := by
  have := sum_map_set (clientPot nc) s.clients i c c' hc
  simp only [mu]; omega

theorem mu_clientStep (nc : Nat) {s : State} (i : Nat) (he : enabled s (.c i) = true) :
    mu nc (clientStep s i) < mu nc s := by
  simp only [enabled] at he
  unfold clientStep
  split
  · next hc => simp [hc] at he
  · next hc => simp [hc, clientEnabled] at he
  · next l n p hc =>
    obtain ⟨h1, h2⟩ := mu_reapBody nc s l n
    have hc' : (reapBody s l n).clients[i]? = some (.ready (.reap l n :: p)) := by rw [h2]; exact hc
    have h3 := mu_setClient nc (reapBody s l n) i _ (.ready p) hc'
    have hw := workerPot_wake nc s.worker
    simp only [clientPot, progPot_cons, opPot, qPot, wF, wP] at h1 h3 hw ⊢
    omega
  · next p hc =>
    split
    · have h3 := mu_setClient nc s i _ (.ready p) hc
      have : mu nc { s with clients := s.clients.set i (.ready p), res := pushRes s.res i false } =
          mu nc { s with clients := s.clients.set i (.ready p) } := rfl
      rw [this]
      simp only [clientPot, progPot_cons, opPot] at h3 ⊢; omega
    · have h3 := mu_setClient nc s i _ (.drainSleep false p) hc
      simp only [clientPot, progPot_cons, opPot, Bool.false_eq_true, if_false] at h3 ⊢; omega
  · next p hc =>
    have hw := workerPot_wake nc s.worker
    have h3 := mu_setClient nc { s with exit := true, worker := wakeWorker s.worker } i _ (.joining p) hc
    simp only [mu, clientPot, progPot_cons, opPot] at h3 hw ⊢; omega
  · next hc => simp [hc, clientEnabled] at he
  · next p hc =>
    split
    · have h3 := mu_setClient nc s i _ (.ready p) hc
      have : mu nc { s with clients := s.clients.set i (.ready p), res := pushRes s.res i true } =
          mu nc { s with clients := s.clients.set i (.ready p) } := rfl
      rw [this]
      simp only [clientPot, if_true] at h3 ⊢; omega
    · have h3 := mu_setClient nc s i _ (.drainSleep false p) hc
      simp only [clientPot, if_true, Bool.false_eq_true, if_false] at h3 ⊢; omega
  · next p hc =>
    split
    · have h3 := mu_setClient nc s i _ (.ready p) hc
      simp only [clientPot] at h3 ⊢; omega
    · next hw => simp [hc, clientEnabled, hw] at he

theorem step_clients_length (s : State) (t : Tid) : (step s t).clients.length = s.clients.length := by
  cases t with
  | w =>
    simp only [step]; unfold workerStep
    split <;> try rfl
    all_goals first
      | (unfold scan passEmpty; repeat' split) <;> simp
      | (split <;> rfl)
      | simp [reapBody_clients]
  | c i =>
    simp only [step]; unfold clientStep
    split <;> try rfl
    all_goals first
      | simp [reapBody_clients]
      | (split <;> simp)

/-- every enabled step strictly decreases the potential -/
theorem mu_step (nc : Nat) {s : State} (hn : s.clients.length ≤ nc) {t : Tid} (he : enabled s t = true) :
    mu nc (step s t) < mu nc s := by
  cases t with
  | w => exact mu_workerStep nc hn (by simpa [enabled] using he)
  | c i => exact mu_clientStep nc i he

/-- number of steps of a schedule in which the chosen thread could move -/
def effSteps : State → List Tid → Nat
  | _, [] => 0
  | s, t :: r => (if enabled s t then 1 else 0) + effSteps (step s t) r

theorem disabled_step {s : State} {t : Tid} (h : enabled s t = false) : step s t = s := by
  cases t with
  | w =>
    simp only [enabled] at h
    simp only [step]; unfold workerStep
    cases hw : s.worker with
    | asleep b => cases b with
      | false => rfl
      | true => rw [hw] at h; cases h
    | fin => rfl
    | _ => rw [hw] at h; cases h
  | c i =>
    simp only [enabled] at h
    simp only [step]; unfold clientStep
    cases hc : s.clients[i]? with
    | none => rfl
    | some c =>
      rw [hc] at h
      cases c with
      | ready p => cases p with
        | nil => rfl
        | cons a b => cases h
      | drainSleep w p => cases w with
        | false => rfl
        | true => cases h
      | joining p =>
        simp only [clientEnabled, decide_eq_false_iff_not] at h
        simp [h]

theorem effSteps_le (nc : Nat) (s : State) (hn : s.clients.length ≤ nc) (sched : List Tid) :
    effSteps s sched + mu nc (run s sched) ≤ mu nc s := by
  induction sched generalizing s with
  | nil => simp [effSteps, run]
  | cons t r ih =>
    have hl : (step s t).clients.length ≤ nc := by rw [step_clients_length]; exact hn
    have := ih (step s t) hl
    simp only [effSteps, run, List.foldl_cons] at this ⊢
    cases he : enabled s t with
    | true => have := mu_step nc hn he; simp only [if_true]; simp only [run] at *; omega
    | false => rw [disabled_step he] at this ⊢; simp only [Bool.false_eq_true, if_false]; simp only [run] at *; omega

end Nng.Reap
